(* generic line driver: "<op> int int ..." -> "int int ..." ; every exported model
   function has type  Z list -> Z list  (Model.w_xxx), the table is generated. *)
open Model
let rec pos_of_int n = if n = 1 then XH else if n land 1 = 0 then XO (pos_of_int (n lsr 1)) else XI (pos_of_int (n lsr 1))
let z_of_int n = if n = 0 then Z0 else if n > 0 then Zpos (pos_of_int n) else Zneg (pos_of_int (-n))
let rec int_of_pos = function XH -> 1 | XO p -> 2 * int_of_pos p | XI p -> 2 * int_of_pos p + 1
let int_of_z = function Z0 -> 0 | Zpos p -> int_of_pos p | Zneg p -> - (int_of_pos p)
(* exact decimal output for every Z (no silent wrap of OCaml's 63-bit int): numbers of up to 60 bits take the int path, larger ones
   are doubled digit-wise in a little-endian decimal digit list *)
let rec bits_of_pos = function XH -> 1 | XO p -> 1 + bits_of_pos p | XI p -> 1 + bits_of_pos p
let rec dbl ds c = match ds with
  | [] -> if c = 0 then [] else [c]
  | d :: r -> let v = 2 * d + c in (v mod 10) :: dbl r (v / 10)
let rec dec_of_pos = function XH -> [1] | XO p -> dbl (dec_of_pos p) 0 | XI p -> dbl (dec_of_pos p) 1
let string_of_pos p =
  if bits_of_pos p <= 60 then string_of_int (int_of_pos p)
  else String.concat "" (List.rev_map string_of_int (dec_of_pos p))
let string_of_z = function Z0 -> "0" | Zpos p -> string_of_pos p | Zneg p -> "-" ^ string_of_pos p
let () =
  let buf = Buffer.create 65536 in
  (try
    while true do
      let line = input_line stdin in
      (match String.split_on_char ' ' (String.trim line) with
       | [] | [""] -> Buffer.add_string buf "!empty\n"
       | op :: args ->
         (match List.assoc_opt op Table.table with
          | None -> Buffer.add_string buf ("!unknown-op " ^ op ^ "\n")
          | Some f ->
            let args = List.filter (fun s -> s <> "") args in
            let r = f (List.map (fun s -> z_of_int (int_of_string s)) args) in
            List.iteri (fun i z -> if i > 0 then Buffer.add_char buf ' '; Buffer.add_string buf (string_of_z z)) r;
            Buffer.add_char buf '\n'));
      if Buffer.length buf > 60000 then (print_string (Buffer.contents buf); Buffer.clear buf)
    done
  with End_of_file -> ());
  print_string (Buffer.contents buf)
