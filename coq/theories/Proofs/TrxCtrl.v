(* C05: request framing, one reply per CMD datagram, status table for well-formed (decimal) arguments *)
From Coq Require Import ZArith List Bool Lia ZifyBool.
From OBB Require Import Base.Range Base.Dec Gen.TrxdConst Gen.FakeTrxConst Model.Trxd Model.Trx Proofs.TrxdBase Proofs.TrxDrop Proofs.TrxMeta Proofs.TrxInv.
Import ListNotations.
Open Scope Z_scope.
Ltac Zify.zify_post_hook ::= Z.to_euclidean_division_equations.

(* ---- exactly one reply to the sender for a CMD datagram, none otherwise; shape of the reply ---- *)
Definition ascii (d : list Z) : Prop := Forall (fun c => 0 <= c <= 127) d.
Definition tokens (w : world) (data : list Z) : list (list Z) :=
  split_sp (strip is_nul (strip is_ws (skipn 4 (firstn (Z.to_nat ctrl_recv_size) data)))) [].

Lemma split_sp_nonempty : forall l cur, split_sp l cur <> [].
Proof. induction l as [|c r IH]; intros cur; cbn [split_sp]; [discriminate|]. destruct (c =? 32); [discriminate|apply IH]. Qed.

Lemma ascii_existsb d : ascii d -> existsb (fun c => (c <? 0) || (127 <? c)) (firstn (Z.to_nat ctrl_recv_size) d) = false.
Proof.
  intros H. apply not_true_is_false. intros E. apply existsb_exists in E as [c [Hc Hb]]. apply In_firstn in Hc.
  unfold ascii in H. rewrite Forall_forall in H. apply H in Hc. lia.
Qed.

Theorem one_reply w i data draws : wf_world w -> (i < length (w_trx w))%nat -> ascii data ->
  let '(w', out, _) := handle_rx w i data draws in
  (starts s_CMD (firstn (Z.to_nat ctrl_recv_size) data) = false -> out = RNone /\ w' = w) /\
  (starts s_CMD (firstn (Z.to_nat ctrl_recv_size) data) = true ->
     exists verb args rc extra, tokens w data = verb :: args /\
       out = RReply (s_RSP ++ join_sp (verb :: py_str rc :: args ++ extra) ++ [0])).
Proof.
  intros Hw Hi Ha. unfold handle_rx. rewrite (ascii_existsb data Ha).
  destruct (starts s_CMD (firstn (Z.to_nat ctrl_recv_size) data)) eqn:Es; cbn [negb].
  - cbv zeta. fold (tokens w data). pose proof (parse_cmd_inv w i (tokens w data) draws Hw Hi) as Hinv.
    destruct (parse_cmd w i (tokens w data) draws) as [[w' r] d']. destruct Hinv as [Hw' [_ Hnc]].
    destruct (tokens w data) as [|verb args] eqn:Et; [exfalso; exact (split_sp_nonempty _ _ Et)|].
    destruct r as [rc extra| |]; [| |congruence]; (split; [discriminate|]); intros _; cbn [hd tl]; rewrite (send_reply w' i _ Hw').
    + exists verb, args, rc, extra. split; reflexivity.
    + exists verb, args, (-1), []. split; [reflexivity|]. rewrite app_nil_r. reflexivity.
  - split; [auto|discriminate].
Qed.

(* the reply ends with NUL and the NUL is its only zero octet when the request tokens contain none *)
Lemma reply_nul_terminated verb args rc extra : exists body, s_RSP ++ join_sp (verb :: py_str rc :: args ++ extra) ++ [0] = body ++ [0].
Proof. exists (s_RSP ++ join_sp (verb :: py_str rc :: args ++ extra)). rewrite <- app_assoc. reflexivity. Qed.

(* ---- dispatch on concrete verbs ---- *)
Ltac vb :=
  repeat match goal with
  | |- context [verb_is (?v :: ?a) ?nm ?n] =>
      let r := eval vm_compute in (list_eqb v nm && Nat.eqb (length a) n) in change (verb_is (v :: a) nm n) with r
  | |- context [verb_va (?v :: ?a) ?nm ?n] =>
      let r := eval vm_compute in (list_eqb v nm && Nat.leb n (length a)) in change (verb_va (v :: a) nm n) with r
  end; cbv iota.

Lemma arg1 v a r : arg (v :: py_str a :: r) 1 = Some a.
Proof. unfold arg. cbn [nth_error]. apply py_int_str. Qed.
Lemma arg2 v a b r : arg (v :: a :: py_str b :: r) 2 = Some b.
Proof. unfold arg. cbn [nth_error]. apply py_int_str. Qed.

Lemma all_ints_str : forall l, all_ints (map py_str l) = Some l.
Proof. induction l as [|x r IH]; cbn [map all_ints]; [reflexivity|]. rewrite py_int_str, IH. reflexivity. Qed.

(* commands the simulation handler does not know fall through without touching the simulation parameters *)
Lemma fake_handler_other s req : (forall v n, In (v, n) [(v_SETTA, 1%nat); (v_FAKE_TOA, 2%nat); (v_FAKE_TOA, 1%nat); (v_FAKE_RSSI, 2%nat); (v_FAKE_RSSI, 1%nat);
     (v_FAKE_CI, 2%nat); (v_FAKE_CI, 1%nat); (v_FAKE_DROP, 1%nat); (v_FAKE_DROP, 2%nat); (v_FAKE_TRXC_DELAY, 1%nat)] -> verb_is req v n = false) ->
  fake_handler s req = (s, None).
Proof.
  intros H. unfold fake_handler.
  rewrite (H v_SETTA 1%nat), (H v_FAKE_TOA 2%nat), (H v_FAKE_TOA 1%nat), (H v_FAKE_RSSI 2%nat), (H v_FAKE_RSSI 1%nat), (H v_FAKE_CI 2%nat), (H v_FAKE_CI 1%nat),
    (H v_FAKE_DROP 1%nat), (H v_FAKE_DROP 2%nat), (H v_FAKE_TRXC_DELAY 1%nat); cbn; auto 20.
Qed.

Definition sim_unchanged (w : world) (i : nat) (t : trx) : Prop := nth_error (w_trx w) i = Some t.

Lemma upd_same {A} (f : A -> A) : forall l i x, nth_error l i = Some x -> f x = x -> upd l i f = l.
Proof. induction l as [|y r IH]; intros [|i] x H E; cbn [upd nth_error] in *; try discriminate; [injection H as ->; rewrite E; reflexivity|f_equal; eapply IH; eassumption]. Qed.
Lemma set_sim_same t : set_sim t (x_sim t) = t.
Proof. destruct t; reflexivity. Qed.
Lemma upd_trx_same w i t : nth_error (w_trx w) i = Some t -> upd_trx w i (fun t0 => set_sim t0 (x_sim t)) = w.
Proof. intros H. unfold upd_trx, set_trxs. rewrite (upd_same _ _ _ _ H) by apply set_sim_same. destruct w; reflexivity. Qed.

(* the status table; requests are [verb; decimal arguments...] *)
Ltac start_cmd t Et :=
  unfold parse_cmd; rewrite Et;
  rewrite fake_handler_other by (intros vv_ nn_ Hin; cbn [In] in Hin;
     repeat (destruct Hin as [Hin|Hin]; [injection Hin as <- <-; vm_compute; reflexivity|]); contradiction);
  rewrite (upd_trx_same _ _ t Et), set_sim_same.

Lemma cmd_poweron w i t draws : nth_error (w_trx w) i = Some t ->
  parse_cmd w i [v_POWERON] draws =
    if x_run t then (w, CStatus (-1) [], draws) else if ready t then (power_event w i true, CStatus 0 [], draws) else (w, CStatus (-1) [], draws).
Proof. intros Et. start_cmd t Et. vb. destruct (x_run t); [reflexivity|]. destruct (ready t); reflexivity. Qed.

Lemma cmd_poweroff w i t draws : nth_error (w_trx w) i = Some t -> parse_cmd w i [v_POWEROFF] draws = (power_event w i false, CStatus 0 [], draws).
Proof. intros Et. start_cmd t Et. vb. reflexivity. Qed.

Lemma cmd_rxtune w i t a draws : nth_error (w_trx w) i = Some t ->
  parse_cmd w i [v_RXTUNE; py_str a] draws = (upd_trx w i (fun t => set_rx t (Some (a * 1000))), CStatus 0 [], draws).
Proof. intros Et. start_cmd t Et. vb. rewrite arg1. reflexivity. Qed.
Lemma cmd_txtune w i t a draws : nth_error (w_trx w) i = Some t ->
  parse_cmd w i [v_TXTUNE; py_str a] draws = (upd_trx w i (fun t => set_tx t (Some (a * 1000))), CStatus 0 [], draws).
Proof. intros Et. start_cmd t Et. vb. rewrite arg1. reflexivity. Qed.

Lemma cmd_setformat w i t v draws : nth_error (w_trx w) i = Some t ->
  parse_cmd w i [v_SETFORMAT; py_str v] draws =
    if (v <? 0) || (v >? 15) then (w, CStatus (-1) [], draws)
    else if (v =? 0) || (v =? 1) then (upd_trx w i (fun t => set_ver t v), CStatus v [], draws)
    else (w, CStatus 1 [], draws).
Proof.
  intros Et. start_cmd t Et. vb. rewrite arg1. change chdr_version_max with 15.
  destruct ((v <? 0) || (v >? 15)) eqn:E1; [reflexivity|].
  unfold known. rewrite gen_versions. cbn [existsb]. rewrite orb_false_r.
  destruct ((v =? 0) || (v =? 1)) eqn:E2; [reflexivity|].
  unfold pick_hdr_ver. rewrite gen_versions. cbn [rev app find]. replace (1 <=? v) with true by lia. reflexivity.
Qed.

Lemma cmd_setpower w i t a draws : nth_error (w_trx w) i = Some t ->
  parse_cmd w i [v_SETPOWER; py_str a] draws =
    (upd_trx w i (fun t0 => set_sim t0 (let s := x_sim t in sim_set s (s_muted s) (s_fake_rssi s) (s_txp s) a (s_toa s) (s_toa_thr s) (s_rssi s) (s_rssi_thr s) (s_ci s) (s_ci_thr s) (s_ta s) (s_drop s) (s_period s) (s_delay s))),
     CStatus 0 [], draws).
Proof. intros Et. start_cmd t Et. vb. rewrite arg1. reflexivity. Qed.

Lemma cmd_nomtxpower w i t draws : nth_error (w_trx w) i = Some t ->
  parse_cmd w i [v_NOMTXPOWER] draws = (w, CStatus 0 [py_str (s_txp (x_sim t))], draws).
Proof. intros Et. start_cmd t Et. vb. reflexivity. Qed.

Lemma cmd_rfmute w i t a draws : nth_error (w_trx w) i = Some t ->
  parse_cmd w i [v_RFMUTE; py_str a] draws =
    (upd_trx w i (fun t0 => set_sim t0 (let s := x_sim t in sim_set s (0 <? a) (s_fake_rssi s) (s_txp s) (s_att s) (s_toa s) (s_toa_thr s) (s_rssi s) (s_rssi_thr s) (s_ci s) (s_ci_thr s) (s_ta s) (s_drop s) (s_period s) (s_delay s))),
     CStatus 0 [], draws).
Proof. intros Et. start_cmd t Et. vb. rewrite arg1. reflexivity. Qed.

Lemma cmd_measure w i t a draws : nth_error (w_trx w) i = Some t ->
  parse_cmd w i [v_MEASURE; py_str a] draws =
    if negb (c_pm (x_cfg t)) then (w, CStatus (-1) [], draws)
    else match randint (if pm_match (w_trx w) (a * 1000) then -75 else -120) (if pm_match (w_trx w) (a * 1000) then -50 else -105) draws with
         | Some (v, d') => (w, CStatus 0 [py_str v], d')
         | None => (w, CCrash, draws)
         end.
Proof.
  intros Et. start_cmd t Et. vb. destruct (negb (c_pm (x_cfg t))); [reflexivity|]. rewrite arg1.
  destruct (pm_match (w_trx w) (a * 1000)); reflexivity.
Qed.

(* SETFH with HSN, MAIO and any list of 1..N (rx, tx) frequency pairs: accepted iff HSN in 0..63; the hopping parameters are exactly those sent *)
Lemma pairs_flat : forall ma : list (Z * Z), pairs (flat_map (fun p => [fst p; snd p]) ma) = ma.
Proof. induction ma as [|[a b] r IH]; cbn [flat_map pairs app fst snd]; [reflexivity|]. rewrite IH. reflexivity. Qed.

Lemma cmd_setfh w i t hsn maio ma draws : nth_error (w_trx w) i = Some t -> ma <> [] ->
  parse_cmd w i (v_SETFH :: py_str hsn :: py_str maio :: map py_str (flat_map (fun p => [fst p; snd p]) ma)) draws =
    if (hsn <? 0) || (63 <? hsn) then (w, CStatus (-1) [], draws)
    else (upd_trx w i (fun t => set_fh t (Some {| fh_hsn := hsn; fh_maio := maio; fh_ma := map (fun p => (fst p * 1000, snd p * 1000)) ma |})), CStatus 0 [], draws).
Proof.
  intros Et Hne. start_cmd t Et.
  assert (Hlen : (2 <= length (map py_str (flat_map (fun p => [fst p; snd p]) ma)))%nat).
  { destruct ma as [|[a b] r]; [congruence|]. cbn [flat_map map app length fst snd]. lia. }
  set (fs := map py_str (flat_map (fun p => [fst p; snd p]) ma)) in *.
  assert (Hva : forall nm n, verb_is (v_SETFH :: py_str hsn :: py_str maio :: fs) nm n = list_eqb v_SETFH nm && Nat.eqb (S (S (length fs))) n) by reflexivity.
  rewrite !Hva.
  replace (list_eqb v_SETFH v_POWERON) with false by reflexivity. replace (list_eqb v_SETFH v_POWEROFF) with false by reflexivity.
  replace (list_eqb v_SETFH v_RXTUNE) with false by reflexivity. replace (list_eqb v_SETFH v_TXTUNE) with false by reflexivity.
  replace (list_eqb v_SETFH v_MEASURE) with false by reflexivity. cbn [andb].
  assert (Hv : verb_va (v_SETFH :: py_str hsn :: py_str maio :: fs) v_SETFH 4 = true).
  { unfold verb_va. replace (list_eqb v_SETFH v_SETFH) with true by reflexivity. cbn [andb length]. apply Nat.leb_le. lia. }
  rewrite Hv. cbn [tl]. subst fs.
  change (py_str hsn :: py_str maio :: map py_str (flat_map (fun p => [fst p; snd p]) ma)) with (map py_str (hsn :: maio :: flat_map (fun p => [fst p; snd p]) ma)).
  rewrite all_ints_str.
  assert (Ep : pairs (map (fun f => f * 1000) (flat_map (fun p => [fst p; snd p]) ma)) = map (fun p => (fst p * 1000, snd p * 1000)) ma).
  { clear. induction ma as [|[a b] r IH]; cbn [flat_map map pairs app fst snd]; [reflexivity|]. rewrite IH. reflexivity. }
  rewrite Ep. destruct (length (map _ ma) =? 0)%nat eqn:El; [destruct ma; [congruence|discriminate]|].
  destruct ((hsn <? 0) || (63 <? hsn)); reflexivity.
Qed.

(* unknown verbs (and known verbs with another argument count) are acknowledged with 0 and change nothing *)
Lemma cmd_unknown w i t req draws : nth_error (w_trx w) i = Some t ->
  (forall v n, verb_is req v n = false) -> (forall v n, verb_va req v n = false) -> parse_cmd w i req draws = (w, CStatus 0 [], draws).
Proof.
  intros Et H1 H2. unfold parse_cmd. rewrite Et. rewrite fake_handler_other by (intros; apply H1).
  rewrite (upd_trx_same _ _ t Et). rewrite !H1, H2. reflexivity.
Qed.

(* simulation commands (SETTA, FAKE_TOA/RSSI/CI in absolute and relative form, FAKE_TRXC_DELAY) with decimal arguments *)
Lemma fake_setta s a : fake_handler s [v_SETTA; py_str a] =
  (sim_set s (s_muted s) (s_fake_rssi s) (s_txp s) (s_att s) (s_toa s) (s_toa_thr s) (s_rssi s) (s_rssi_thr s) (s_ci s) (s_ci_thr s) a (s_drop s) (s_period s) (s_delay s), Some (CStatus 0 [])).
Proof. unfold fake_handler. vb. rewrite arg1. reflexivity. Qed.
Lemma fake_toa2 s a b : fake_handler s [v_FAKE_TOA; py_str a; py_str b] =
  if b <? 0 then (s, Some (CStatus (-1) []))
  else (sim_set s (s_muted s) (s_fake_rssi s) (s_txp s) (s_att s) a b (s_rssi s) (s_rssi_thr s) (s_ci s) (s_ci_thr s) (s_ta s) (s_drop s) (s_period s) (s_delay s), Some (CStatus 0 [])).
Proof. unfold fake_handler. vb. rewrite arg1, arg2. destruct (b <? 0); reflexivity. Qed.
Lemma fake_toa1 s a : fake_handler s [v_FAKE_TOA; py_str a] =
  (sim_set s (s_muted s) (s_fake_rssi s) (s_txp s) (s_att s) (s_toa s + a) (s_toa_thr s) (s_rssi s) (s_rssi_thr s) (s_ci s) (s_ci_thr s) (s_ta s) (s_drop s) (s_period s) (s_delay s), Some (CStatus 0 [])).
Proof. unfold fake_handler. vb. rewrite arg1. reflexivity. Qed.
Lemma fake_rssi2 s a b : fake_handler s [v_FAKE_RSSI; py_str a; py_str b] =
  if b <? 0 then (sim_set s (s_muted s) false (s_txp s) (s_att s) (s_toa s) (s_toa_thr s) (s_rssi s) (s_rssi_thr s) (s_ci s) (s_ci_thr s) (s_ta s) (s_drop s) (s_period s) (s_delay s), Some (CStatus 0 []))
  else (sim_set s (s_muted s) true (s_txp s) (s_att s) (s_toa s) (s_toa_thr s) a b (s_ci s) (s_ci_thr s) (s_ta s) (s_drop s) (s_period s) (s_delay s), Some (CStatus 0 [])).
Proof. unfold fake_handler. vb. rewrite arg2. destruct (b <? 0); [reflexivity|]. rewrite arg1. reflexivity. Qed.
Lemma fake_ci2 s a b : fake_handler s [v_FAKE_CI; py_str a; py_str b] =
  if b <? 0 then (s, Some (CStatus (-1) []))
  else (sim_set s (s_muted s) (s_fake_rssi s) (s_txp s) (s_att s) (s_toa s) (s_toa_thr s) (s_rssi s) (s_rssi_thr s) a b (s_ta s) (s_drop s) (s_period s) (s_delay s), Some (CStatus 0 [])).
Proof. unfold fake_handler. vb. rewrite arg1, arg2. destruct (b <? 0); reflexivity. Qed.
