(* C03: all interleavings of one socket-side operation with one clock tick *)
From Coq Require Import ZArith List Bool Lia PeanoNat.
From OBB Require Import Model.Race.
Import ListNotations.
Open Scope Z_scope.

Definition msg_dec : forall a b : msg, {a = b} + {a <> b}.
Proof. decide equality; apply Z.eq_dec. Defined.
Notation cnt := (count_occ msg_dec).

(* bursts the clock thread holds in local variables (taken out of the queue, not yet emitted / logged), or lost in a crash *)
Definition local (s : st) : list msg :=
  match tpc s with TK2u e d | TK3 e d => e ++ d | TCrash l => l | _ => [] end.

(* no burst is ever duplicated or silently lost: multiset equation, for every burst x *)
Definition Inv (s : st) : Prop :=
  forall x, cnt (accepted s) x = (cnt (queue s) x + cnt (local s) x + cnt (emitted s) x + cnt (stale s) x + cnt (cleared s) x)%nat.

Lemma part_cnt f q x : let '(d, e, w) := part f q in cnt q x = (cnt d x + cnt e x + cnt w x)%nat.
Proof.
  induction q as [|m r IH]; cbn [part]; [reflexivity|]. destruct (part f r) as [[d e] w].
  destruct (delta (snd m) f =? 0); [|destruct (delta (snd m) f <? HF / 2)]; cbn [count_occ]; destruct (msg_dec m x); lia.
Qed.

Lemma tick_inv f s : Inv s -> Inv (tick_step f s).
Proof.
  unfold Inv, tick_step, local. intros H x. specialize (H x).
  destruct (tpc s) as [| | |e d|e d| |l] eqn:E.
  - cbn. exact H.
  - destruct (running s); cbn; exact H.
  - pose proof (part_cnt f (queue s) x) as P. destruct (part f (queue s)) as [[d e] w].
    cbn in *; rewrite ?count_occ_app in *; lia.
  - destruct e as [|m e]; cbn in *; rewrite ?count_occ_app in *; cbn [count_occ] in *; try destruct (msg_dec m x); lia.
  - destruct e as [|m rest]; [cbn in *; rewrite ?count_occ_app in *; lia|].
    unfold after_fwd. destruct rest as [|m2 r2]; cbn in *; rewrite ?count_occ_app in *; cbn [count_occ] in *;
      destruct (msg_dec m x); try destruct (msg_dec m2 x); lia.
  - rewrite E. exact H.
  - rewrite E. exact H.
Qed.

Lemma sock_inv op s : Inv s -> Inv (sock_step op s).
Proof.
  unfold Inv, sock_step, local. intros H x. specialize (H x).
  destruct (spc s) eqn:E; try destruct op; try destruct (running s); try destruct (fhset s); cbn; rewrite ?count_occ_app; cbn [count_occ];
    try destruct (msg_dec m x); try destruct (msg_dec m0 x); try lia; rewrite ?E; try exact H.
Qed.

Lemma sched_step_inv f op b s : Inv s -> Inv (sched_step f op b s).
Proof. intros H. unfold sched_step. destruct b; [destruct (t_live s)|destruct (s_live s)]; try apply tick_inv; try apply sock_inv; exact H. Qed.

Lemma run_inv f op : forall sched s, Inv s -> Inv (run f op sched s).
Proof. induction sched as [|b r IH]; intros s H; cbn [run]; [exact H|]. apply IH, sched_step_inv, H. Qed.
Lemma drain_t_inv f : forall n s, Inv s -> Inv (drain_t n f s).
Proof. induction n as [|n IH]; intros s H; cbn [drain_t]; [exact H|]. destruct (t_live s); [apply IH, tick_inv, H|exact H]. Qed.
Lemma drain_s_inv op : forall n s, Inv s -> Inv (drain_s n op s).
Proof. induction n as [|n IH]; intros s H; cbn [drain_s]; [exact H|]. destruct (s_live s); [apply IH, sock_inv, H|exact H]. Qed.

Lemma init_inv r fh q : Inv (init r fh q).
Proof. intros x. unfold init, local. cbn. lia. Qed.

Theorem interleavings_conserve f op sched r fh q : Inv (run f op sched (init r fh q)) /\ Inv (run_all f op sched (init r fh q)).
Proof. split; [apply run_inv, init_inv|]. unfold run_all. apply drain_s_inv, drain_t_inv, run_inv, init_inv. Qed.

(* ---- on time: whatever the schedule, only bursts of the tick's own frame are emitted; only past ones are reported stale ---- *)
Definition pending_e (s : st) : list msg := match tpc s with TK2u e _ | TK3 e _ => e | _ => [] end.
Definition pending_d (s : st) : list msg := match tpc s with TK2u _ d | TK3 _ d => d | _ => [] end.
Definition due (f : Z) (m : msg) : Prop := delta (snd m) f = 0.
Definition behind (f : Z) (m : msg) : Prop := delta (snd m) f <> 0 /\ HF / 2 <= delta (snd m) f.
Definition Timely (f : Z) (s : st) : Prop :=
  Forall (due f) (emitted s) /\ Forall (due f) (pending_e s)
  /\ Forall (behind f) (stale s) /\ Forall (behind f) (pending_d s).

Lemma part_frames f q : let '(d, e, w) := part f q in
  Forall (behind f) d /\ Forall (due f) e /\ Forall (fun m => delta (snd m) f <> 0 /\ delta (snd m) f < HF / 2) w.
Proof.
  induction q as [|m r IH]; cbn [part]; [repeat split; constructor|]. destruct (part f r) as [[d e] w]. destruct IH as [A [B C]].
  unfold due, behind. destruct (delta (snd m) f =? 0) eqn:E1; [repeat split; try assumption; constructor; [lia|assumption]|].
  destruct (delta (snd m) f <? HF / 2) eqn:E2; repeat split; try assumption; constructor; try (split; lia); assumption.
Qed.

Lemma tick_timely f s : Timely f s -> Timely f (tick_step f s).
Proof.
  unfold Timely, tick_step, pending_e, pending_d. intros [H1 [H2 [H3 H4]]].
  destruct (tpc s) as [| | |e d|e d| |l] eqn:E.
  - cbn. repeat split; auto.
  - destruct (running s); cbn; repeat split; auto.
  - pose proof (part_frames f (queue s)) as P. destruct (part f (queue s)) as [[d e] w]. destruct P as [Pd [Pe _]].
    cbn; repeat split; auto.
  - destruct e as [|m e]; cbn; repeat split; auto; try apply Forall_app; auto.
  - destruct e as [|m rest]; [cbn; repeat split; auto; apply Forall_app; auto|].
    inversion H2 as [|? ? Hm Hr]; subst. unfold after_fwd.
    destruct rest as [|m2 r2]; cbn; repeat split; auto; try (apply Forall_app; split; auto).
  - rewrite E. repeat split; auto.
  - rewrite E. repeat split; auto.
Qed.
Lemma sock_timely f op s : Timely f s -> Timely f (sock_step op s).
Proof.
  unfold Timely, sock_step, pending_e, pending_d. intros H.
  destruct (spc s); try destruct op; try destruct (running s); try destruct (fhset s); cbn; exact H.
Qed.
Theorem interleavings_on_time f op sched r fh q :
  let s := run_all f op sched (init r fh q) in
  Forall (due f) (emitted s) /\ Forall (behind f) (stale s).
Proof.
  assert (T0 : Timely f (init r fh q)) by (unfold Timely, init, pending_e, pending_d; cbn; repeat split; constructor).
  assert (R : forall sched s, Timely f s -> Timely f (run f op sched s)).
  { induction sched0 as [|b r0 IH]; intros s H; cbn [run]; [exact H|]. apply IH. unfold sched_step.
    destruct b; [destruct (t_live s)|destruct (s_live s)]; try apply tick_timely; try apply sock_timely; exact H. }
  assert (DT : forall n s, Timely f s -> Timely f (drain_t n f s)).
  { induction n as [|n IH]; intros s H; cbn [drain_t]; [exact H|]. destruct (t_live s); [apply IH, tick_timely, H|exact H]. }
  assert (DS : forall n s, Timely f s -> Timely f (drain_s n op s)).
  { induction n as [|n IH]; intros s H; cbn [drain_s]; [exact H|]. destruct (s_live s); [apply IH, sock_timely, H|exact H]. }
  cbv zeta. unfold run_all. match goal with |- context [drain_s ?a op (drain_t ?n f ?x)] => pose proof (DS a _ (DT n _ (R sched _ T0))) as [A [_ [B _]]] end. auto.
Qed.

(* ---- the clock thread survives every schedule, hopping or not, whatever the racing operation ---- *)
Definition Alive (s : st) : Prop := match tpc s with TCrash _ => False | _ => True end.
Lemma tick_alive f s : Alive s -> Alive (tick_step f s).
Proof.
  unfold Alive, tick_step. intros H. destruct (tpc s) as [| | |e d|e d| |l] eqn:E; try contradiction.
  - cbn. auto.
  - destruct (running s); cbn; auto.
  - destruct (part f (queue s)) as [[d e] w]. cbn; auto.
  - destruct e; cbn; auto.
  - destruct e as [|m rest]; [cbn; auto|]. unfold after_fwd. destruct rest; cbn; auto.
  - rewrite E. auto.
Qed.
Lemma sock_alive op s : Alive s -> Alive (sock_step op s).
Proof. unfold Alive, sock_step. intros H. destruct (spc s); try destruct op; try destruct (running s); try destruct (fhset s); cbn; auto. Qed.
Theorem no_crash_any_schedule f op sched r fh q : Alive (run_all f op sched (init r fh q)).
Proof.
  assert (N0 : Alive (init r fh q)) by (unfold Alive, init; cbn; auto).
  assert (R : forall sched s, Alive s -> Alive (run f op sched s)).
  { induction sched0 as [|b r0 IH]; intros s H; cbn [run]; [exact H|]. apply IH. unfold sched_step.
    destruct b; [destruct (t_live s)|destruct (s_live s)]; try apply tick_alive; try apply sock_alive; exact H. }
  assert (DT : forall n s, Alive s -> Alive (drain_t n f s)).
  { induction n as [|n IH]; intros s H; cbn [drain_t]; [exact H|]. destruct (t_live s); [apply IH, tick_alive, H|exact H]. }
  assert (DS : forall n s, Alive s -> Alive (drain_s n op s)).
  { induction n as [|n IH]; intros s H; cbn [drain_s]; [exact H|]. destruct (s_live s); [apply IH, sock_alive, H|exact H]. }
  unfold run_all. apply DS, DT, R, N0.
Qed.

(* both threads finish within the drain bounds: nothing is left in local variables, so accepted = queue + emitted + stale + cleared exactly *)
Example former_fh_race_witness : tpc (run_all 10 PowerOff [true; true; true; true; true; false; false; false; false; false; false; true] (init true true [(1, 10)])) = TDone.
Proof. vm_compute. reflexivity. Qed.
