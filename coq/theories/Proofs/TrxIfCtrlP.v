(* trxcon TRXC response parser (trx_ctrl_read_cb) and command printers: safety conditions, the defects, acceptance of well-formed replies (C05, C14) *)
From Coq Require Import ZArith List Bool Lia ZifyBool.
From OBB Require Import Base.Range Gen.TrxIfConst Model.Trxd Model.TrxIf Proofs.TrxdBase Proofs.TrxIfP.
Import ListNotations.
Open Scope Z_scope.
Ltac Zify.zify_post_hook ::= Z.to_euclidean_division_equations.

(* ---------------- C strings ---------------- *)
Lemma cstr_app0 l : cstr (l ++ [0]) = Some (cstr0 l).
Proof.
  induction l as [|x l IH]; [reflexivity|]. cbn [app cstr cstr0]. destruct (x =? 0); [reflexivity|]. rewrite IH. reflexivity.
Qed.
Definition no_nul (a : list Z) : Prop := Forall (fun c => c <> 0) a.
Lemma cstr0_app a b : no_nul a -> cstr0 (a ++ b) = a ++ cstr0 b.
Proof.
  induction 1 as [|x a Hx _ IH]; [reflexivity|]. cbn [app cstr0]. destruct (x =? 0) eqn:E; [lia|]. rewrite IH. reflexivity.
Qed.
Lemma strncmp_prefix v ra rb : strncmp_eq (v ++ ra) (v ++ rb) (length v) = true.
Proof. induction v as [|x v IH]; [reflexivity|]. cbn [app length strncmp_eq]. rewrite Z.eqb_refl, IH. reflexivity. Qed.
Lemma find_sp_app v r : Forall (fun c => c <> 32) v -> find_sp (v ++ SP :: r) = Some (length v).
Proof.
  induction 1 as [|x v Hx _ IH]; [reflexivity|]. cbn [app find_sp length]. unfold SP in *. destruct (x =? 32) eqn:E; [lia|]. rewrite IH. reflexivity.
Qed.
Lemma skipn_app_exact {A} (a b : list A) : skipn (length a) (a ++ b) = b.
Proof. induction a as [|x a IH]; [reflexivity|]. cbn [length app skipn]. exact IH. Qed.
Lemma firstn_app_le {A} (a b : list A) n : (length a <= n)%nat -> firstn n (a ++ b) = a ++ firstn (n - length a) b.
Proof. intros H. rewrite firstn_app. rewrite (firstn_all2 a) by exact H. reflexivity. Qed.

(* ---------------- sscanf ---------------- *)
Lemma scan_d_of_num s neg v rest : scan_num s = Some (neg, v, rest) -> exists x, scan_d s = Some (x, rest).
Proof. intros H. unfold scan_d. rewrite H. eauto. Qed.
Lemma scan_u_of_num s neg v rest : scan_num s = Some (neg, v, rest) -> exists x, scan_u s = Some (x, rest).
Proof. intros H. unfold scan_u. rewrite H. eauto. Qed.

(* ---------------- safety of trx_ctrl_read_cb (repaired code, commit 35bc7c1): unconditional ---------------- *)
Lemma c_measure_rsp_safe m st : cr_unsafe (c_measure_rsp m st) = false.
Proof.
  unfold c_measure_rsp. destruct (scan_u m) as [[f rest]|]; [|reflexivity].
  destruct (scan_d rest) as [[dbm r]|]; [|reflexivity]. destruct (freq102arfcn _); reflexivity.
Qed.

(* no pending command: nothing is dereferenced *)
Theorem c_ctrl_rsp_nopending_safe : forall d, cr_unsafe (c_ctrl_rsp None d) = false.
Proof.
  intros d. unfold c_ctrl_rsp. destruct (firstn _ d) as [|x data] eqn:Ed; [reflexivity|].
  rewrite cstr_app0. destruct (negb _); reflexivity.
Qed.

(* C14 (C side, TRXC): whatever octets arrive on the control socket and whatever command is pending (or none), trx_ctrl_read_cb
   neither dereferences a NULL pointer nor reads a value it has not written *)
Theorem c_ctrl_rsp_safe : forall pending d, cr_unsafe (c_ctrl_rsp pending d) = false.
Proof.
  intros pending d. destruct pending as [[crit cmdbuf]|]; [|apply c_ctrl_rsp_nopending_safe].
  unfold c_ctrl_rsp.
  set (data := firstn (Z.to_nat (trxc_buf_size - 1)) d) in *.
  destruct data as [|x data'] eqn:Ed; [reflexivity|]. rewrite <- Ed in *. clear Ed.
  rewrite cstr_app0. set (s := cstr0 data) in *.
  destruct (negb (strncmp_eq s s_RSP 4)); [reflexivity|].
  destruct (find_sp (skipn 4 s)) as [k|]; [|destruct (negb _); reflexivity].
  destruct (negb (strncmp_eq _ _ _)); [reflexivity|].
  destruct (scan_d (skipn (4 + k + 1) s)) as [[resp r]|]; [|reflexivity].
  destruct (negb (resp =? 0) && crit); [reflexivity|].
  destruct (strncmp_eq _ s_POWERON 7); [reflexivity|]. destruct (strncmp_eq _ s_POWEROFF 8); [reflexivity|].
  destruct (strncmp_eq _ s_MEASURE 7); [apply c_measure_rsp_safe|].
  destruct (strncmp_eq _ s_ECHO 4); reflexivity.
Qed.

(* the replies that crashed the code before the repair (DESIGN 9-6) now end the session cleanly or are ignored field-wise *)
Definition str_CMD_POWERON : list Z := [67; 77; 68; 32; 80; 79; 87; 69; 82; 79; 78].                 (* "CMD POWERON" *)
Definition str_RSP_POWERON : list Z := [82; 83; 80; 32; 80; 79; 87; 69; 82; 79; 78].                 (* "RSP POWERON" *)
Definition str_CMD_MEASURE : list Z := [67; 77; 68; 32; 77; 69; 65; 83; 85; 82; 69; 32; 57; 51; 53; 50; 48; 48].   (* "CMD MEASURE 935200" *)
Definition str_RSP_MEASURE_0 : list Z := [82; 83; 80; 32; 77; 69; 65; 83; 85; 82; 69; 32; 48].       (* "RSP MEASURE 0" *)
Example former_witnesses :
  c_ctrl_rsp (Some (true, str_CMD_POWERON)) str_RSP_POWERON = CrNoStatus                              (* was: NULL + 1 handed to sscanf *)
  /\ (forall crit cmdbuf, c_ctrl_rsp (Some (crit, cmdbuf)) s_RSP = CrNoStatus)                        (* "RSP " against any pending command *)
  /\ c_ctrl_rsp (Some (true, str_CMD_POWERON)) (str_RSP_POWERON ++ [32; 120]) = CrNoStatus            (* was: resp uninitialised *)
  /\ c_ctrl_rsp (Some (true, str_CMD_MEASURE)) str_RSP_MEASURE_0 = CrAccepted 0 ActMeasureUnparsed    (* was: buf + 14 behind the NUL *)
  /\ c_ctrl_rsp (Some (true, str_CMD_MEASURE)) (str_RSP_MEASURE_0 ++ [32; 57; 51; 53; 50; 48; 48]) = CrAccepted 0 ActMeasureUnparsed.  (* was: dbm unassigned *)
Proof. repeat split; try (vm_compute; reflexivity). Qed.

(* ---------------- decimal printing and scanning ---------------- *)
Definition valr (l : list Z) : Z := fold_right (fun c a => (c - 48) + 10 * a) 0 l.     (* value of reversed digits *)
Definition digits (l : list Z) : Prop := Forall (fun c => 48 <= c <= 57) l.

Lemma dec_rev_spec k : forall n, 0 <= n < 10 ^ Z.of_nat k -> (0 < k)%nat ->
  valr (dec_rev k n) = n /\ digits (dec_rev k n) /\ dec_rev k n <> [].
Proof.
  induction k as [|k IH]; intros n Hn Hk; [lia|].
  cbn [dec_rev]. destruct (n / 10 =? 0) eqn:E.
  - cbn [valr fold_right]. split; [lia|]. split; [repeat constructor; lia|discriminate].
  - assert (Hk' : (0 < k)%nat).
    { destruct k; [|lia]. change (10 ^ Z.of_nat 1) with 10 in Hn. lia. }
    assert (Hq : 0 <= n / 10 < 10 ^ Z.of_nat k).
    { rewrite Nat2Z.inj_succ, Z.pow_succ_r in Hn by lia. lia. }
    destruct (IH (n / 10) Hq Hk') as [Hv [Hd _]].
    cbn [valr fold_right]. fold (valr (dec_rev k (n / 10))). rewrite Hv.
    split; [lia|]. split; [constructor; [lia|exact Hd]|discriminate].
Qed.

Lemma take_digits_rev l : digits l -> forall t acc n,
  take_digits (rev l ++ t) acc n = take_digits t (acc * 10 ^ Z.of_nat (length l) + valr l) (n + length l).
Proof.
  induction 1 as [|c l Hc _ IH]; intros t acc n.
  - cbn [rev app length valr fold_right]. rewrite Z.pow_0_r, Z.mul_1_r, Z.add_0_r, Nat.add_0_r. reflexivity.
  - cbn [rev]. rewrite <- app_assoc. cbn [app]. rewrite IH. cbn [take_digits]. unfold is_digit.
    destruct ((48 <=? c) && (c <=? 57)) eqn:E; [|lia].
    cbn [length valr fold_right]. fold (valr l). rewrite Nat2Z.inj_succ, Z.pow_succ_r by lia.
    match goal with |- take_digits _ ?a ?b = take_digits _ ?c ?d => replace a with c by ring; replace b with d by lia end. reflexivity.
Qed.

Definition not_digit_head (t : list Z) : Prop := match t with [] => True | c :: _ => ~ (48 <= c <= 57) end.
Lemma take_digits_stop t acc n : not_digit_head t -> take_digits t acc n = (acc, n, t).
Proof. destruct t as [|c t]; [reflexivity|]. cbn [not_digit_head take_digits]. unfold is_digit. intros H. destruct ((48 <=? c) && (c <=? 57)) eqn:E; [lia|reflexivity]. Qed.

Lemma dec_u_scan n t : 0 <= n < 10 ^ 40 -> not_digit_head t ->
  exists cnt, take_digits (dec_u n ++ t) 0 0 = (n, S cnt, t) /\ digits (dec_u n) /\ dec_u n <> [].
Proof.
  intros Hn Ht. unfold dec_u. destruct (dec_rev_spec 40 n Hn ltac:(lia)) as [Hv [Hd Hne]].
  rewrite take_digits_rev by exact Hd. rewrite take_digits_stop by exact Ht. rewrite Hv.
  destruct (dec_rev 40 n) as [|c l] eqn:E; [congruence|]. exists (length l). split; [rewrite Z.mul_0_l, Z.add_0_l, Nat.add_0_l; reflexivity|].
  split.
  - unfold digits in *. apply Forall_forall. intros x Hx. rewrite Forall_forall in Hd. apply Hd. apply in_rev. exact Hx.
  - intros Hr. apply (f_equal (@length Z)) in Hr. rewrite rev_length in Hr. cbn in Hr. lia.
Qed.

Lemma skip_ws_nonspace c r : is_space c = false -> skip_ws (c :: r) = c :: r.
Proof. intros H. cbn [skip_ws]. rewrite H. reflexivity. Qed.

(* printing a 32-bit status with %d and scanning it back with %d gives the status *)
Lemma scan_d_dec st t : -2147483648 <= st <= 2147483647 -> not_digit_head t -> scan_d (dec_d st ++ t) = Some (st, t).
Proof.
  intros Hst Ht. unfold scan_d, scan_num, dec_d.
  destruct (st <? 0) eqn:Eneg.
  - destruct (dec_u_scan (- st) t ltac:(lia) Ht) as [cnt [Htd _]].
    cbn [app]. rewrite skip_ws_nonspace by reflexivity. change (45 =? 45) with true. cbv iota. rewrite Htd.
    rewrite Z.opp_involutive.
    destruct (st >? 9223372036854775807) eqn:E1; [lia|]. destruct (st <? -9223372036854775808) eqn:E2; [lia|].
    rewrite wrap32_id by lia. reflexivity.
  - destruct (dec_u_scan st t ltac:(lia) Ht) as [cnt [Htd [Hd Hne]]].
    destruct (dec_u st) as [|c l] eqn:Edu; [congruence|]. cbn [app] in *.
    assert (Hc : 48 <= c <= 57) by (inversion Hd; assumption).
    rewrite skip_ws_nonspace by (unfold is_space; lia).
    destruct (c =? 45) eqn:E45; [lia|]. destruct (c =? 43) eqn:E43; [lia|]. rewrite Htd.
    destruct (st >? 9223372036854775807) eqn:E1; [lia|]. destruct (st <? -9223372036854775808) eqn:E2; [lia|].
    rewrite wrap32_id by lia. reflexivity.
Qed.

Lemma dec_d_chars st : -2147483648 <= st <= 2147483647 -> Forall (fun c => c <> 0 /\ c <> 32) (dec_d st) /\ dec_d st <> [].
Proof.
  intros Hst. unfold dec_d. destruct (st <? 0) eqn:E.
  - destruct (dec_u_scan (- st) [] ltac:(lia) I) as [_ [_ [Hd _]]]. split; [|discriminate].
    constructor; [lia|]. eapply Forall_impl; [|exact Hd]. cbv beta. intros; lia.
  - destruct (dec_u_scan st [] ltac:(lia) I) as [_ [_ [Hd Hne]]]. split; [|exact Hne].
    eapply Forall_impl; [|exact Hd]. cbv beta. intros; lia.
Qed.

(* ---------------- a reply of the prescribed form is matched and its status honoured ---------------- *)
Definition verb_chars (v : list Z) : Prop := Forall (fun c => c <> 0 /\ c <> 32) v.

Definition dispatch (after cmd4 : list Z) (st : Z) : ctrl_res :=
  if strncmp_eq cmd4 s_POWERON 7 then CrAccepted st ActPowerOn
  else if strncmp_eq cmd4 s_POWEROFF 8 then CrAccepted st ActPowerOff
  else if strncmp_eq cmd4 s_MEASURE 7 then c_measure_rsp (after_status after) st
  else if strncmp_eq cmd4 s_ECHO 4 then CrAccepted st ActEcho
  else CrAccepted st ActOther.

(* pending command "CMD <V>[ ...]" (anything may follow V), reply "RSP <V> <status><tail>" where the tail does not continue the number
   (it starts with the space before the echoed arguments, or with the NUL, or is empty) and the datagram fits the 1023 octets read() takes *)
Theorem ctrl_rsp_wellformed crit cmdbuf V st tail :
  verb_chars V -> firstn (length V) (skipn 4 (cstr0 cmdbuf)) = V ->
  -2147483648 <= st <= 2147483647 -> not_digit_head tail ->
  let d := s_RSP ++ V ++ [SP] ++ dec_d st ++ tail in
  (length d <= 1023)%nat ->
  c_ctrl_rsp (Some (crit, cmdbuf)) d =
    if negb (st =? 0) && crit then CrRejected st else dispatch (dec_d st ++ cstr0 tail) (skipn 4 (cstr0 cmdbuf)) st.
Proof.
  intros HV Hcmd Hst Htail d Hlen. unfold c_ctrl_rsp.
  destruct gen_trxif_consts as [-> _]. change (Z.to_nat (1024 - 1)) with 1023%nat.
  rewrite firstn_all2 by exact Hlen.
  destruct (dec_d_chars st Hst) as [Hdc _].
  assert (Hnn : no_nul (s_RSP ++ V ++ [SP] ++ dec_d st)).
  { unfold no_nul. apply Forall_app. split; [unfold s_RSP; repeat constructor; lia|].
    apply Forall_app. split; [eapply Forall_impl; [|exact HV]; cbv beta; intros; lia|].
    apply Forall_app. split; [unfold SP; repeat constructor; lia|].
    eapply Forall_impl; [|exact Hdc]. cbv beta. intros; lia. }
  assert (Hs : cstr0 d = s_RSP ++ V ++ [SP] ++ dec_d st ++ cstr0 tail).
  { subst d. replace (s_RSP ++ V ++ [SP] ++ dec_d st ++ tail) with ((s_RSP ++ V ++ [SP] ++ dec_d st) ++ tail)
      by (repeat rewrite <- app_assoc; reflexivity).
    rewrite cstr0_app by exact Hnn. repeat rewrite <- app_assoc. reflexivity. }
  assert (Hd : d = 82 :: 83 :: 80 :: 32 :: (V ++ [SP] ++ dec_d st ++ tail)) by reflexivity.
  rewrite Hd at 1. cbv iota. rewrite cstr_app0. rewrite Hs.
  change (s_RSP ++ V ++ [SP] ++ dec_d st ++ cstr0 tail) with (s_RSP ++ (V ++ [SP] ++ dec_d st ++ cstr0 tail)) at 1.
  change 4%nat with (length s_RSP) at 1.
  replace s_RSP with (s_RSP ++ []) at 2 by apply app_nil_r.
  rewrite strncmp_prefix. cbn [negb].
  change (skipn 4 (s_RSP ++ V ++ [SP] ++ dec_d st ++ cstr0 tail)) with (V ++ SP :: dec_d st ++ cstr0 tail).
  rewrite find_sp_app by (eapply Forall_impl; [|exact HV]; cbv beta; intros; lia).
  set (cmd4 := skipn 4 (cstr0 cmdbuf)) in *.
  assert (Hc4 : cmd4 = V ++ skipn (length V) cmd4) by (rewrite <- Hcmd at 1; symmetry; apply firstn_skipn).
  rewrite Hc4 at 1. rewrite strncmp_prefix. cbn [negb].
  replace (skipn (4 + length V + 1) (s_RSP ++ V ++ [SP] ++ dec_d st ++ cstr0 tail)) with (dec_d st ++ cstr0 tail).
  2:{ replace (s_RSP ++ V ++ [SP] ++ dec_d st ++ cstr0 tail) with ((s_RSP ++ V ++ [SP]) ++ dec_d st ++ cstr0 tail) by (rewrite <- !app_assoc; reflexivity).
      replace (4 + length V + 1)%nat with (length (s_RSP ++ V ++ [SP])) by (rewrite !app_length; unfold s_RSP; cbn [length]; lia).
      rewrite skipn_app_exact. reflexivity. }
  assert (Ht' : not_digit_head (cstr0 tail)).
  { destruct tail as [|c t]; [exact I|]. cbn [cstr0]. destruct (c =? 0); [exact I|]. exact Htail. }
  rewrite scan_d_dec by assumption.
  destruct (negb (st =? 0) && crit); [reflexivity|]. reflexivity.
Qed.

(* ---------------- the commands trxcon emits ---------------- *)
Definition verbs : list (list Z) := [v_ECHO; v_POWEROFF; v_POWERON; v_MEASURE; v_SETSLOT; v_RXTUNE; v_TXTUNE; v_SETTA; v_SETFH].

Lemma ctrl_cmd_verb V args : no_nul V -> (4 + length V <= 1022)%nat ->
  firstn (length V) (skipn 4 (cstr0 (c_ctrl_cmd V args))) = V.
Proof.
  intros HV Hl.
  assert (Hgen : forall X, firstn (length V) (skipn 4 (cstr0 (firstn 1022 ((s_CMD ++ V) ++ X)))) = V).
  { intros X. rewrite firstn_app_le by (rewrite app_length; cbn [length s_CMD]; lia).
    rewrite cstr0_app.
    - rewrite <- app_assoc. change 4%nat with (length s_CMD). rewrite skipn_app_exact. apply firstn_app_exact. reflexivity.
    - unfold no_nul. apply Forall_app. split; [unfold s_CMD; repeat constructor; lia|exact HV]. }
  unfold c_ctrl_cmd. destruct gen_trxif_consts as [_ [_ [_ [_ [_ [_ ->]]]]]]. change (Z.to_nat (1024 - 2)) with 1022%nat.
  destruct args as [|a args].
  - rewrite <- (app_nil_r (s_CMD ++ V)). apply Hgen.
  - replace (s_CMD ++ V ++ [SP] ++ a :: args) with ((s_CMD ++ V) ++ [SP] ++ a :: args) by (rewrite <- app_assoc; reflexivity). apply Hgen.
Qed.

Lemma verbs_ok V : In V verbs -> no_nul V /\ (4 + length V <= 1022)%nat /\ verb_chars V.
Proof.
  unfold verbs. intros H. repeat (destruct H as [<- | H]; [unfold no_nul, verb_chars; split; [repeat constructor; lia|split; [cbn; lia|repeat constructor; lia]]|]).
  destruct H.
Qed.

Ltac verb_goal := first [apply ctrl_cmd_verb; apply verbs_ok; unfold verbs; cbn [In]; tauto | reflexivity].
Ltac one_cmd V := intros [E | []]; injection E as <- <-; exists V; split; [unfold verbs; cbn [In]; tauto|]; split; [verb_goal|].

(* every command text trxcon queues is "CMD <verb>[ <args>]" with one of the nine verbs; only SETTA is not critical *)
Lemma emitted_verb c rc q crit text : c_phyif_cmd c = CmdQ rc q -> In (crit, text) q ->
  exists V, In V verbs /\ firstn (length V) (skipn 4 (cstr0 text)) = V /\ (crit = false <-> V = v_SETTA).
Proof.
  intros Hc Hin. destruct c as [| | |arfcn|arfcn|hsn maio ma|tn pchan|ta|ty]; cbn [c_phyif_cmd] in Hc.
  - injection Hc as <- <-. destruct Hin as [E | Hin].
    + injection E as <- <-. exists v_POWEROFF. split; [unfold verbs; cbn [In]; tauto|]. split; [verb_goal|]. split; discriminate.
    + revert Hin. one_cmd v_ECHO. split; discriminate.
  - injection Hc as <- <-. revert Hin. one_cmd v_POWERON. split; discriminate.
  - injection Hc as <- <-. revert Hin. one_cmd v_POWEROFF. split; discriminate.
  - unfold c_cmd_freq in Hc. destruct (_ =? 65535); injection Hc as <- <-; [destruct Hin|]. revert Hin. one_cmd v_MEASURE. split; discriminate.
  - unfold c_cmd_freq in Hc. destruct (arfcn2freq10 arfcn false =? 65535); cbn [negb Z.eqb] in Hc.
    + change (negb (E_NOTSUP =? 0)) with true in Hc. cbv iota in Hc. injection Hc as <- <-. destruct Hin.
    + change (negb (0 =? 0)) with false in Hc. cbv iota in Hc.
      destruct (arfcn2freq10 arfcn true =? 65535); injection Hc as <- <-; cbn [app] in Hin.
      * revert Hin. one_cmd v_RXTUNE. split; discriminate.
      * destruct Hin as [E | Hin].
        { injection E as <- <-. exists v_RXTUNE. split; [unfold verbs; cbn [In]; tauto|]. split; [verb_goal|]. split; discriminate. }
        { revert Hin. one_cmd v_TXTUNE. split; discriminate. }
  - destruct ma as [|a ma]; [injection Hc as <- <-; destruct Hin|].
    destruct (c_setfh_ma (a :: ma) (trxc_buf_size - 24 - 1) []) as [rc' txt].
    destruct (negb (rc' =? 0)); injection Hc as <- <-; [destruct Hin|]. revert Hin. one_cmd v_SETFH. split; discriminate.
  - destruct (nth_error chan_types _); [|discriminate]. injection Hc as <- <-. revert Hin. one_cmd v_SETSLOT. split; discriminate.
  - injection Hc as <- <-. revert Hin. one_cmd v_SETTA. split; reflexivity.
  - injection Hc as <- <-. destruct Hin.
Qed.

Lemma dispatch_nonmeasure V rest after st : In V verbs -> V <> v_MEASURE -> exists a, dispatch after (V ++ rest) st = CrAccepted st a.
Proof.
  unfold verbs. intros H Hm. repeat (destruct H as [<- | H]; [try (eexists; reflexivity); congruence|]). destruct H.
Qed.

Definition accepted_or_rejected (r : ctrl_res) (crit : bool) (st : Z) : Prop :=
  match r with
  | CrAccepted s _ => s = st /\ (st = 0 \/ crit = false)
  | CrRejected s => s = st /\ st <> 0 /\ crit = true
  | _ => False
  end.

(* C05 (trxcon side): whichever command trxcon has emitted, the reply "RSP <verb> <status>[ <anything>]" is matched (never Mismatch,
   never a crash) and decided by the status alone: accepted if 0 or the command is not critical (SETTA), else rejected.
   (MEASURE with status 0 goes on to parse its result: ctrl_measure_wellformed.) *)
Theorem c_ctrl_accepts_wellformed c rc q crit text st tail :
  c_phyif_cmd c = CmdQ rc q -> In (crit, text) q ->
  -2147483648 <= st <= 2147483647 -> not_digit_head tail ->
  exists V, In V verbs /\ firstn (length V) (skipn 4 (cstr0 text)) = V /\
    ((length (s_RSP ++ V ++ [SP] ++ dec_d st ++ tail) <= 1023)%nat -> V <> v_MEASURE \/ st <> 0 ->
     accepted_or_rejected (c_ctrl_rsp (Some (crit, text)) (s_RSP ++ V ++ [SP] ++ dec_d st ++ tail)) crit st).
Proof.
  intros Hc Hin Hst Htail. destruct (emitted_verb _ _ _ _ _ Hc Hin) as [V [HV [Hpre Hcrit]]].
  exists V. split; [exact HV|]. split; [exact Hpre|]. intros Hlen Hcase.
  destruct (verbs_ok V HV) as [_ [_ Hvc]].
  rewrite (ctrl_rsp_wellformed crit text V st tail Hvc Hpre Hst Htail Hlen).
  set (ext := dec_d st ++ cstr0 tail). clearbody ext.
  set (cmd4 := skipn 4 (cstr0 text)) in *.
  assert (Hc4 : cmd4 = V ++ skipn (length V) cmd4) by (rewrite <- Hpre at 1; symmetry; apply firstn_skipn).
  destruct (st =? 0) eqn:E0; cbn [negb andb].
  - assert (st = 0) by lia. subst st. destruct Hcase as [Hm | Hm]; [|congruence].
    rewrite Hc4. destruct (dispatch_nonmeasure V (skipn (length V) cmd4) ext 0 HV Hm) as [a Ha]. rewrite Ha. cbn. auto.
  - destruct crit; cbn [accepted_or_rejected].
    + split; [reflexivity|]. split; [lia|reflexivity].
    + assert (HVt : V = v_SETTA) by (apply Hcrit; reflexivity).
      assert (Hm : V <> v_MEASURE) by (rewrite HVt; discriminate).
      rewrite Hc4. destruct (dispatch_nonmeasure V (skipn (length V) cmd4) ext st HV Hm) as [a Ha]. rewrite Ha. cbn. auto.
Qed.

(* ---------------- MEASURE: "RSP MEASURE 0 <kHz> <dB>" ---------------- *)
Lemma scan_u_dec n t : 0 <= n < 4294967296 -> not_digit_head t -> scan_u (dec_u n ++ t) = Some (n, t).
Proof.
  intros Hn Ht. unfold scan_u, scan_num.
  destruct (dec_u_scan n t ltac:(lia) Ht) as [cnt [Htd [Hd Hne]]].
  destruct (dec_u n) as [|c l] eqn:Edu; [congruence|]. cbn [app] in *.
  assert (Hc : 48 <= c <= 57) by (inversion Hd; assumption).
  rewrite skip_ws_nonspace by (unfold is_space; lia).
  destruct (c =? 45) eqn:E45; [lia|]. destruct (c =? 43) eqn:E43; [lia|]. rewrite Htd.
  destruct (n >? 18446744073709551615) eqn:E1; [lia|]. unfold u32. f_equal. f_equal. lia.
Qed.
Lemma scan_d_sp s : scan_d (SP :: s) = scan_d s.
Proof. reflexivity. Qed.

Lemma find_sp_app' v r : Forall (fun c => c <> 0 /\ c <> 32) v -> find_sp (v ++ SP :: r) = Some (length v).
Proof. intros H. apply find_sp_app. eapply Forall_impl; [|exact H]. cbv beta. intros; lia. Qed.

(* "RSP MEASURE <status> <kHz> <dB>...": the results are found after the status field whatever its width; they are used when the status
   lets the reply through (0, or any status if the command were not critical) *)
Theorem ctrl_measure_wellformed crit cmdbuf st khz dbm tail :
  firstn 7 (skipn 4 (cstr0 cmdbuf)) = v_MEASURE ->
  -2147483648 <= st <= 2147483647 -> (st = 0 \/ crit = false) ->
  0 <= khz < 4294967296 -> -2147483648 <= dbm <= 2147483647 -> not_digit_head tail ->
  let d := s_RSP ++ v_MEASURE ++ [SP] ++ dec_d st ++ [SP] ++ dec_u khz ++ [SP] ++ dec_d dbm ++ tail in
  (length d <= 1023)%nat ->
  c_ctrl_rsp (Some (crit, cmdbuf)) d =
    CrAccepted st (ActMeasure (u16 (khz / 100)) (match freq102arfcn (u16 (khz / 100)) with Some a => Some (a, dbm) | None => None end)).
Proof.
  intros Hcmd Hst Hacc Hk Hdbm Htail d Hlen. subst d.
  assert (HV : In v_MEASURE verbs) by (unfold verbs; cbn [In]; tauto).
  destruct (verbs_ok _ HV) as [_ [_ Hvc]].
  pose proof (ctrl_rsp_wellformed crit cmdbuf v_MEASURE st ([SP] ++ dec_u khz ++ [SP] ++ dec_d dbm ++ tail) Hvc Hcmd Hst) as H.
  cbv zeta in H. rewrite H; [|cbn; unfold SP; lia|exact Hlen]. clear H.
  assert (Hgo : negb (st =? 0) && crit = false) by (destruct Hacc as [-> | ->]; [reflexivity|apply andb_false_r]).
  rewrite Hgo.
  unfold dispatch. rewrite <- (firstn_skipn 7 (skipn 4 (cstr0 cmdbuf))), Hcmd.
  change (strncmp_eq (v_MEASURE ++ _) s_POWERON 7) with false. change (strncmp_eq (v_MEASURE ++ _) s_POWEROFF 8) with false.
  change (strncmp_eq (v_MEASURE ++ _) s_MEASURE 7) with true. cbv iota.
  destruct (dec_u_scan khz [] ltac:(lia) I) as [_ [_ [Hdk _]]]. destruct (dec_d_chars dbm Hdbm) as [Hdc _]. destruct (dec_d_chars st Hst) as [Hsc _].
  assert (Hcs : cstr0 ([SP] ++ dec_u khz ++ [SP] ++ dec_d dbm ++ tail) = SP :: dec_u khz ++ SP :: dec_d dbm ++ cstr0 tail).
  { replace ([SP] ++ dec_u khz ++ [SP] ++ dec_d dbm ++ tail) with (([SP] ++ dec_u khz ++ [SP] ++ dec_d dbm) ++ tail) by (repeat rewrite <- app_assoc; reflexivity).
    rewrite cstr0_app; [repeat rewrite <- app_assoc; reflexivity|].
    unfold no_nul. apply Forall_app. split; [unfold SP; repeat constructor; lia|].
    apply Forall_app. split; [eapply Forall_impl; [|exact Hdk]; cbv beta; intros; lia|].
    apply Forall_app. split; [unfold SP; repeat constructor; lia|]. eapply Forall_impl; [|exact Hdc]. cbv beta. intros; lia. }
  rewrite Hcs. unfold after_status. rewrite find_sp_app' by exact Hsc.
  replace (dec_d st ++ SP :: dec_u khz ++ SP :: dec_d dbm ++ cstr0 tail) with ((dec_d st ++ [SP]) ++ dec_u khz ++ SP :: dec_d dbm ++ cstr0 tail)
    by (rewrite <- app_assoc; reflexivity).
  replace (length (dec_d st) + 1)%nat with (length (dec_d st ++ [SP])) by (rewrite app_length; reflexivity).
  rewrite skipn_app_exact.
  unfold c_measure_rsp.
  rewrite scan_u_dec by (try lia; cbn; unfold SP; lia).
  rewrite scan_d_sp.
  assert (Ht' : not_digit_head (cstr0 tail)).
  { destruct tail as [|c t]; [exact I|]. cbn [cstr0]. destruct (c =? 0); [exact I|]. exact Htail. }
  rewrite scan_d_dec by assumption.
  destruct (freq102arfcn _); reflexivity.
Qed.

(* non-vacuity: a concrete exchange *)
Example ctrl_accept_example :
  c_phyif_cmd PPowerOn = CmdQ 0 [(true, str_CMD_POWERON)]
  /\ c_ctrl_rsp (Some (true, str_CMD_POWERON)) (str_RSP_POWERON ++ [32; 48; 0]) = CrAccepted 0 ActPowerOn
  /\ c_ctrl_rsp (Some (true, str_CMD_POWERON)) (str_RSP_POWERON ++ [32; 49; 0]) = CrRejected 1
  /\ c_ctrl_rsp (Some (true, str_CMD_MEASURE)) (str_RSP_MEASURE_0 ++ [32; 57; 51; 53; 50; 48; 48; 32; 45; 55; 55; 0]) = CrAccepted 0 (ActMeasure 9352 (Some (1, -77))).
Proof. repeat split; vm_compute; reflexivity. Qed.

(* ---------------- SETFH: how long the command can get (C05: the peer's receive buffer must hold it) ---------------- *)
Lemma c_setfh_ma_len ma : forall room acc rc txt, 0 <= room -> c_setfh_ma ma room acc = (rc, txt) ->
  Z.of_nat (length txt) <= Z.of_nat (length acc) + room.
Proof.
  induction ma as [|a ma IH]; intros room acc rc txt Hr H; cbn [c_setfh_ma] in H.
  - injection H as _ <-. lia.
  - destruct ((arfcn2freq10 a false =? 65535) || (arfcn2freq10 a true =? 65535)); [injection H as _ <-; lia|].
    set (t := dec_u (arfcn2freq10 a false * 100) ++ [SP] ++ dec_u (arfcn2freq10 a true * 100) ++ [SP]) in *.
    destruct (Z.of_nat (length t) >? room) eqn:E; [injection H as _ <-; lia|].
    apply IH in H; [|lia]. rewrite app_length in H. lia.
Qed.

Lemma sweep_dec_u8 : forallb (fun n => Nat.leb (length (dec_u n)) 3) (range 0 256) = true.
Proof. vm_compute. reflexivity. Qed.
Lemma dec_u8_len n : (length (dec_u (u8 n)) <= 3)%nat.
Proof.
  assert (H : 0 <= u8 n < 256) by (unfold u8; lia).
  pose proof (forallb_range _ _ _ sweep_dec_u8 (u8 n) H) as E. cbv beta in E. apply Nat.leb_le in E. exact E.
Qed.

Lemma c_ctrl_cmd_len V args : (length (c_ctrl_cmd V args) <= length (s_CMD ++ V ++ [SP] ++ args))%nat.
Proof.
  unfold c_ctrl_cmd. destruct args as [|a args]; rewrite firstn_length, !app_length; cbn [length]; lia.
Qed.

(* whatever the hopping parameters, the SETFH command has at most 1016 characters (1017 octets with the NUL): it always fits
   trxcon's own cmd[1024] and is never truncated by snprintf *)
Theorem setfh_len_bound hsn maio ma rc q crit text :
  c_phyif_cmd (PSetFreqH1 hsn maio ma) = CmdQ rc q -> In (crit, text) q -> (length text <= 1016)%nat.
Proof.
  intros Hc Hin. cbn [c_phyif_cmd] in Hc. destruct ma as [|a ma]; [injection Hc as <- <-; destruct Hin|].
  destruct gen_trxif_consts as [Eb [_ [_ [_ [_ [_ Ec]]]]]]. rewrite Eb in Hc.
  destruct (c_setfh_ma (a :: ma) (1024 - 24 - 1) []) as [rc' txt] eqn:Em.
  destruct (negb (rc' =? 0)); injection Hc as <- <-; [destruct Hin|].
  destruct Hin as [E | []]. injection E as <- <-.
  apply c_setfh_ma_len in Em; [|lia]. cbn [length] in Em.
  assert (Hrl : (length (removelast txt) <= 998)%nat).
  { destruct txt as [|x txt] using rev_ind; [cbn; lia|]. rewrite removelast_last. rewrite app_length in Em. cbn [length] in Em. lia. }
  pose proof (dec_u8_len hsn) as H1. pose proof (dec_u8_len maio) as H2.
  eapply Nat.le_trans; [apply c_ctrl_cmd_len|].
  unfold s_CMD, v_SETFH. repeat (rewrite app_length || cbn [length app]). lia.
Qed.

(* 64 channels of GSM 900 (six-digit kHz values): 911 characters; 62 channels of DCS 1800 (seven digits): 1007; 63 do not fit *)
Example setfh_longest :
  (match c_phyif_cmd (PSetFreqH1 63 63 (map (fun i => 1 + Z.of_nat i) (seq 0 64))) with CmdQ 0 [(true, t)] => length t | _ => O end) = 911%nat
  /\ (match c_phyif_cmd (PSetFreqH1 63 63 (map (fun i => 512 + Z.of_nat i) (seq 0 62))) with CmdQ 0 [(true, t)] => length t | _ => O end) = 1007%nat
  /\ c_phyif_cmd (PSetFreqH1 63 63 (map (fun i => 512 + Z.of_nat i) (seq 0 63))) = CmdQ E_NOSPC [].
Proof. repeat split; vm_compute; reflexivity. Qed.

(* the PCS formula of arfcn2freq10 agrees with the table dumped from the real gsm_arfcn2freq10 (ARFCN 0..1023 | ARFCN_PCS) *)
Lemma sweep_freq_pcs : forallb (fun a =>
    match nth_error freq10_pcs (Z.to_nat a) with
    | Some (dl, ul) => (arfcn2freq10 (a + arfcn_pcs) false =? dl) && (arfcn2freq10 (a + arfcn_pcs) true =? ul)
    | None => false end) (range 0 1024) = true.
Proof. vm_compute. reflexivity. Qed.
