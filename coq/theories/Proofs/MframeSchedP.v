(* Lemmas for C11, part 3: the firmware scheduler state (tasks, tasks_tgt, safe_fn) and mframe_enable / mframe_disable / mframe_set /
   mframe_reset / mframe_schedule (Model/Mframe.v, names mf_...).  The per-tick core stays fw_mframe_schedule; the agreement theorems of
   Proofs/MframeP.v are lifted from "mask given" to "task active in the scheduler state". *)
From Coq Require Import ZArith List Bool Lia ZifyBool.
From OBB Require Import Base.Range Gen.MframeFw Gen.MframeTrxcon Model.Mframe Proofs.MframeP.
Import ListNotations.
Open Scope Z_scope.

Lemma sweep_set_frames : chk_set_frames = true.
Proof. vm_compute. reflexivity. Qed.

(* ------------------------------------------------------------------ bits *)

Lemma testbit_one n : Z.testbit 1 n = (n =? 0).
Proof. destruct n as [|p|p]; reflexivity. Qed.

Lemma bit_shl a b : 0 <= b -> Z.testbit (Z.shiftl 1 a) b = (a =? b).
Proof.
  intros Hb. rewrite (Z.shiftl_spec 1 a b Hb), testbit_one.
  destruct (b - a =? 0) eqn:E1; destruct (a =? b) eqn:E2; try reflexivity; lia.
Qed.

Lemma u32_bit x t : 0 <= t < 32 -> Z.testbit (u32 x) t = Z.testbit x t.
Proof. intros Ht. unfold u32. change 4294967296 with (2 ^ 32). apply Z.mod_pow2_bits_low. lia. Qed.

Lemma task_ok_range t : task_ok t = true -> 0 <= t < 32.
Proof. unfold task_ok. lia. Qed.

(* ------------------------------------------------------------------ the requests only touch tasks_tgt; a tick never does *)

Lemma enable_bit t' t s : 0 <= t < 32 -> Z.testbit (ms_tgt (mf_enable t' s)) t = Z.testbit (ms_tgt s) t || (t' =? t).
Proof. intros Ht. unfold mf_enable. cbn [ms_tgt]. rewrite (u32_bit _ t Ht), Z.lor_spec, (bit_shl t' t) by lia. reflexivity. Qed.

Lemma disable_bit t' t s : 0 <= t -> Z.testbit (ms_tgt (mf_disable t' s)) t = Z.testbit (ms_tgt s) t && negb (t' =? t).
Proof. intros Ht. unfold mf_disable. cbn [ms_tgt]. rewrite (Z.ldiff_spec _ _ t), (bit_shl t' t Ht). reflexivity. Qed.

Lemma schedule_fields cur s :
  ms_tasks (snd (mf_schedule cur s)) = mf_tasks_after cur s /\ ms_tgt (snd (mf_schedule cur s)) = ms_tgt s.
Proof. unfold mf_schedule. cbv zeta. destruct (fw_mframe_schedule (mf_tasks_after cur s) cur); split; reflexivity. Qed.

Lemma tick_keeps_target : forall cur s, ms_tgt (mf_step s (OpTick cur)) = ms_tgt s.
Proof. intros. cbn [mf_step]. apply schedule_fields. Qed.

Lemma requests_keep_tasks_and_safe : forall o s, (forall cur, o <> OpTick cur) -> o <> OpReset ->
  ms_tasks (mf_step s o) = ms_tasks s /\ ms_safe (mf_step s o) = ms_safe s.
Proof. intros o s Ht Hr. destruct o; cbn [mf_step]; try (split; reflexivity); [contradiction | exfalso; apply (Ht cur); reflexivity]. Qed.

Lemma tasks_after_bit cur s t : 0 <= t ->
  Z.testbit (mf_tasks_after cur s) t =
  if mf_safe_test cur s then Z.testbit (ms_tgt s) t else Z.testbit (ms_tasks s) t && Z.testbit (ms_tgt s) t.
Proof. intros Ht. unfold mf_tasks_after. destruct (mf_safe_test cur s); [reflexivity | apply Z.land_spec]. Qed.

(* ------------------------------------------------------------------ the calls of one tick, task by task *)

Lemma fw_sched_tasks_flat mask cur : forall ids cs, fw_sched_tasks mask cur ids = FwOk cs ->
  cs = flat_map (fun i => if Z.testbit mask i then calls_of i cur else []) ids.
Proof.
  induction ids as [|i tl IH]; intros cs H; cbn [fw_sched_tasks] in H; cbn [flat_map].
  - injection H as <-. reflexivity.
  - destruct (Z.testbit mask i).
    + unfold calls_of. destruct (fw_schedule_set i cur) as [| |c]; try discriminate.
      destruct (fw_sched_tasks mask cur tl) as [| |r]; try discriminate.
      injection H as <-. rewrite (IH r eq_refl). reflexivity.
    + cbn [app]. apply IH. exact H.
Qed.

Lemma flat_map_ext_in {A B} (f g : A -> list B) l : (forall x, In x l -> f x = g x) -> flat_map f l = flat_map g l.
Proof.
  induction l as [|x tl IH]; intros H; cbn [flat_map]; [reflexivity|].
  rewrite (H x (or_introl eq_refl)), IH; [reflexivity|]. intros y Hy. apply H. right. exact Hy.
Qed.

(* mframe_schedule() makes exactly the calls of the per-tick core for the task mask after the update, i.e. for every task 0..31 in
   ascending order the calls of mframe_schedule_set(task) if the task is active after the update and nothing otherwise *)
Lemma tick_core : forall cur s, fst (mf_schedule cur s) = fw_mframe_schedule (mf_tasks_after cur s) cur.
Proof. intros. unfold mf_schedule. cbv zeta. destruct (fw_mframe_schedule (mf_tasks_after cur s) cur); reflexivity. Qed.

(* (an explicit equation: conversion must never be asked to compare two unfolded copies of the 32-fold recursion) *)
Lemma core_eq m cur : fw_mframe_schedule m cur = fw_sched_tasks (u32 m) cur (range 0 32).
Proof. reflexivity. Qed.

Lemma core_flat : forall m cur cs, fw_mframe_schedule m cur = FwOk cs ->
  cs = flat_map (fun i => if Z.testbit (u32 m) i then calls_of i cur else []) (range 0 32).
Proof. intros m cur cs H. rewrite core_eq in H. apply (fw_sched_tasks_flat _ _ _ _ H). Qed.

Lemma tick_flat : forall cur s cs, fst (mf_schedule cur s) = FwOk cs -> cs = flat_map (mf_task_calls cur s) (range 0 32).
Proof.
  intros cur s cs H. rewrite tick_core in H. rewrite (core_flat _ _ _ H).
  apply flat_map_ext_in. intros i Hi. apply range_in in Hi.
  unfold mf_task_calls. rewrite (u32_bit _ i ltac:(lia)). reflexivity.
Qed.

Lemma tick_calls : forall cur s,
  fst (mf_schedule cur s) = fw_mframe_schedule (mf_tasks_after cur s) cur /\
  forall cs, fst (mf_schedule cur s) = FwOk cs -> cs = flat_map (mf_task_calls cur s) (range 0 32).
Proof. intros cur s. split; [apply tick_core | apply tick_flat]. Qed.

Lemma fires_active : forall cur s t kind sacch, Z.testbit (mf_tasks_after cur s) t = true ->
  mf_fires cur s t kind sacch = fw_fires t kind sacch cur.
Proof.
  intros cur s t kind sacch H. unfold mf_fires, mf_task_calls, calls_of, fw_fires. rewrite H.
  destruct (fw_schedule_set t cur); reflexivity.
Qed.

Lemma inactive_silent : forall cur s t, Z.testbit (mf_tasks_after cur s) t = false ->
  mf_task_calls cur s t = [] /\ forall kind sacch, mf_fires cur s t kind sacch = false.
Proof. intros cur s t H. unfold mf_fires, mf_task_calls. rewrite H. split; reflexivity. Qed.

(* ------------------------------------------------------------------ (a) a disable takes effect at the very next tick *)

Lemma disable_immediate : forall cur s t, 0 <= t -> Z.testbit (ms_tgt s) t = false ->
  Z.testbit (mf_tasks_after cur s) t = false /\ mf_task_calls cur s t = [] /\ forall kind sacch, mf_fires cur s t kind sacch = false.
Proof.
  intros cur s t Ht H.
  assert (E : Z.testbit (mf_tasks_after cur s) t = false).
  { rewrite (tasks_after_bit cur s t Ht), H. destruct (mf_safe_test cur s); [reflexivity | apply andb_false_r]. }
  split; [exact E | exact (inactive_silent cur s t E)].
Qed.

Lemma stays_off : forall t ops s, 0 <= t < 32 -> forallb (op_keeps_off t) ops = true ->
  Z.testbit (ms_tgt s) t = false -> Z.testbit (ms_tgt (mf_run ops s)) t = false.
Proof.
  intros t ops. induction ops as [|o tl IH]; intros s Ht Hk H; [exact H|].
  cbn [forallb] in Hk. apply andb_prop in Hk as [Ho Htl]. unfold mf_run. cbn [fold_left]. apply (IH _ Ht Htl).
  destruct o as [t'|t'|m| |cur]; cbn [op_keeps_off] in Ho; cbn [mf_step].
  - apply andb_prop in Ho as [_ Hne]. rewrite (enable_bit t' t s Ht), H. apply negb_true_iff in Hne. rewrite Hne. reflexivity.
  - rewrite (disable_bit t' t s ltac:(lia)), H. reflexivity.
  - unfold mf_set. cbn [ms_tgt]. apply negb_true_iff in Ho. exact Ho.
  - unfold mf_reset. cbn [ms_tgt]. apply Z.testbit_0_l.
  - destruct (schedule_fields cur s) as [_ E]. rewrite E. exact H.
Qed.

(* ------------------------------------------------------------------ (b) an enable is never lost *)

Lemma pending_kept : forall t ops s, 0 <= t < 32 -> forallb (op_keeps_on t) ops = true ->
  Z.testbit (ms_tgt s) t = true -> Z.testbit (ms_tgt (mf_run ops s)) t = true.
Proof.
  intros t ops. induction ops as [|o tl IH]; intros s Ht Hk H; [exact H|].
  cbn [forallb] in Hk. apply andb_prop in Hk as [Ho Htl]. unfold mf_run. cbn [fold_left]. apply (IH _ Ht Htl).
  destruct o as [t'|t'|m| |cur]; cbn [op_keeps_on] in Ho; cbn [mf_step].
  - rewrite (enable_bit t' t s Ht), H. reflexivity.
  - apply andb_prop in Ho as [_ Hne]. rewrite (disable_bit t' t s ltac:(lia)), H, Hne. reflexivity.
  - unfold mf_set. cbn [ms_tgt]. exact Ho.
  - discriminate.
  - destruct (schedule_fields cur s) as [_ E]. rewrite E. exact H.
Qed.

Lemma safe_means_target : forall cur s, mf_safe_test cur s = true -> mf_tasks_after cur s = ms_tgt s.
Proof. intros cur s H. unfold mf_tasks_after. rewrite H. reflexivity. Qed.

Lemma active_step : forall cur s t, 0 <= t -> Z.testbit (ms_tasks s) t = true -> Z.testbit (ms_tgt s) t = true ->
  Z.testbit (mf_tasks_after cur s) t = true.
Proof. intros cur s t Ht H1 H2. rewrite (tasks_after_bit cur s t Ht), H1, H2. destruct (mf_safe_test cur s); reflexivity. Qed.

Lemma stays_on : forall t ops s, 0 <= t < 32 -> forallb (op_keeps_on t) ops = true ->
  Z.testbit (ms_tasks s) t = true -> Z.testbit (ms_tgt s) t = true ->
  Z.testbit (ms_tasks (mf_run ops s)) t = true /\ Z.testbit (ms_tgt (mf_run ops s)) t = true.
Proof.
  intros t ops. induction ops as [|o tl IH]; intros s Ht Hk H1 H2; [split; assumption|].
  pose proof (pending_kept t [o] s Ht) as P. cbn [forallb] in Hk, P. apply andb_prop in Hk as [Ho Htl].
  rewrite Ho in P. specialize (P eq_refl H2). unfold mf_run in P. cbn [fold_left] in P.
  unfold mf_run. cbn [fold_left]. apply (IH _ Ht Htl); [|exact P].
  destruct o as [t'|t'|m| |cur]; cbn [mf_step]; try exact H1; [discriminate|].
  destruct (schedule_fields cur s) as [E _]. rewrite E. apply active_step; [lia | exact H1 | exact H2].
Qed.

(* ------------------------------------------------------------------ (c) safe_fn: bounded, so "not safe" lasts at most 4 ticks *)

Lemma s32_small x : -2147483648 <= x < 2147483648 -> s32 x = x.
Proof.
  intros H. unfold s32, u32. destruct (Z_lt_le_dec x 0) as [N|P].
  - assert (E : x mod 4294967296 = x + 4294967296) by (symmetry; apply (Z.mod_unique_pos _ _ (-1)); lia).
    rewrite E. replace (x + 4294967296 <? 2147483648) with false by (symmetry; apply Z.ltb_ge; lia). lia.
  - rewrite (Z.mod_small x 4294967296) by lia. replace (x <? 2147483648) with true by (symmetry; apply Z.ltb_lt; lia). reflexivity.
Qed.

Lemma mod_hyper_cases x : -2715648 <= x < 2 * 2715648 ->
  (0 <= x < 2715648 /\ x mod 2715648 = x) \/ (x < 0 /\ x mod 2715648 = x + 2715648) \/ (2715648 <= x /\ x mod 2715648 = x - 2715648).
Proof.
  intros H. destruct (Z_lt_le_dec x 0) as [N|P]; [|destruct (Z_lt_le_dec x 2715648) as [S|B]].
  - right. left. split; [lia|]. symmetry. apply (Z.mod_unique_pos _ _ (-1)); lia.
  - left. split; [lia|]. apply Z.mod_small. lia.
  - right. right. split; [lia|]. symmetry. apply (Z.mod_unique_pos _ _ 1); lia.
Qed.

Lemma safe_test_true cur s : mf_safe_test cur s = true <->
  (s32 (ms_safe s - cur) <= 0 \/ 1357824 <= s32 (ms_safe s - cur) \/ 2715648 <= ms_safe s).
Proof.
  unfold mf_safe_test, fw_GSM_MAX_FN. change (Z.shiftr 2715648 1) with 1357824. cbv zeta.
  rewrite !Z.geb_leb, !orb_true_iff, !Z.leb_le. tauto.
Qed.

Lemma safe_test_ext cur s s' : ms_safe s = ms_safe s' -> mf_safe_test cur s = mf_safe_test cur s'.
Proof. intros E. unfold mf_safe_test. rewrite E. reflexivity. Qed.

Lemma inv_cases cur s : mf_inv cur s = true <->
  0 <= ms_safe s /\ (2715648 <= ms_safe s \/ (ms_safe s - cur) mod 2715648 <= 4).
Proof. unfold mf_inv. rewrite andb_true_iff, orb_true_iff, !Z.leb_le. tauto. Qed.

(* the state as left by the tick of frame cur; j frames later (j = the distance of safe_fn .. 4) the test holds *)
Lemma safe_after_at_most_4 : forall cur s j, 0 <= cur < 2715648 -> ms_safe s < 4294967296 -> mf_inv cur s = true ->
  0 <= j <= 4 -> (2715648 <= ms_safe s \/ (ms_safe s - cur) mod 2715648 <= j) ->
  mf_safe_test ((cur + j) mod 2715648) s = true.
Proof.
  intros cur s j Hc H32 Hi Hj Ha. apply inv_cases in Hi as [H0 Hi]. apply safe_test_true.
  destruct (Z_lt_le_dec (ms_safe s) 2715648) as [Hv|Hs]; [|right; right; exact Hs].
  destruct Ha as [Ha|Ha]; [lia|]. clear Hi.
  destruct (mod_hyper_cases (ms_safe s - cur) ltac:(lia)) as [[R E]|[[R E]|[R E]]]; rewrite E in Ha;
  destruct (mod_hyper_cases (cur + j) ltac:(lia)) as [[R2 E2]|[[R2 E2]|[R2 E2]]]; rewrite E2; try lia;
  rewrite s32_small by lia; lia.
Qed.

(* the test fails at the next frame only if safe_fn lies 2 .. 4 frames ahead of cur, and then it lies 1 .. 3 ahead of the next frame *)
Lemma not_safe_next : forall cur s, 0 <= cur < 2715648 -> ms_safe s < 4294967296 -> mf_inv cur s = true ->
  mf_safe_test ((cur + 1) mod 2715648) s = false ->
  ms_safe s < 2715648 /\ 2 <= (ms_safe s - cur) mod 2715648 <= 4 /\
  (ms_safe s - (cur + 1) mod 2715648) mod 2715648 = (ms_safe s - cur) mod 2715648 - 1.
Proof.
  intros cur s Hc H32 Hi Hn.
  assert (Hn' : ~ (s32 (ms_safe s - (cur + 1) mod 2715648) <= 0 \/ 1357824 <= s32 (ms_safe s - (cur + 1) mod 2715648) \/ 2715648 <= ms_safe s)).
  { intro K. apply safe_test_true in K. congruence. }
  apply inv_cases in Hi as [H0 Hi].
  destruct (Z_lt_le_dec (ms_safe s) 2715648) as [Hv|Hs]; [|exfalso; apply Hn'; right; right; exact Hs].
  destruct Hi as [Hi|Hi]; [lia|]. split; [exact Hv|].
  destruct (mod_hyper_cases (ms_safe s - cur) ltac:(lia)) as [[R E]|[[R E]|[R E]]]; rewrite E in *;
  destruct (mod_hyper_cases (cur + 1) ltac:(lia)) as [[R2 E2]|[[R2 E2]|[R2 E2]]]; rewrite E2 in *; try lia;
  rewrite s32_small in Hn' by lia;
  destruct (mod_hyper_cases (ms_safe s - (cur + 1)) ltac:(lia)) as [[R3 E3]|[[R3 E3]|[R3 E3]]];
  try (destruct (mod_hyper_cases (ms_safe s - (cur + 1 - 2715648)) ltac:(lia)) as [[R4 E4]|[[R4 E4]|[R4 E4]]]); lia.
Qed.

(* every sched set a table row refers to has 2 .. 6 frames *)
Lemma set_items_kinds task cur : forall items cs, fw_set_items task cur items = Some cs ->
  forall o k p3, In (o, k, p3) cs -> exists m f fl, In (k, m, f, fl) items.
Proof.
  induction items as [|it tl IH]; intros cs H o k p3 Hin; cbn [fw_set_items] in H.
  - injection H as <-. contradiction.
  - destruct it as [[[k0 m0] f0] fl0]. destruct (m0 =? 0); [discriminate|].
    destruct (fw_set_items task cur tl) as [r|] eqn:E; [|discriminate]. injection H as <-.
    destruct (u32 (cur + fw_SCHEDULE_AHEAD) mod m0 =? f0 mod m0).
    + destruct Hin as [Hin|Hin].
      * injection Hin as _ <- _. exists m0, f0, fl0. left. reflexivity.
      * destruct (IH r eq_refl o k p3 Hin) as [m [f [fl Hi]]]. exists m, f, fl. right. exact Hi.
    + destruct (IH r eq_refl o k p3 Hin) as [m [f [fl Hi]]]. exists m, f, fl. right. exact Hi.
Qed.

Lemma calls_frames t cur : forall o k p3, In (o, k, p3) (calls_of t cur) -> 2 <= set_rv k <= 6.
Proof.
  intros o k p3 Hin. unfold calls_of, fw_schedule_set in Hin.
  destruct (nth_error fw_sched (Z.to_nat t)) as [[items|]|] eqn:E; try contradiction.
  destruct (fw_set_items t cur items) as [cs|] eqn:E2; [|contradiction].
  destruct (set_items_kinds t cur items cs E2 o k p3 Hin) as [m [f [fl Hi]]].
  pose proof sweep_set_frames as S. unfold chk_set_frames in S.
  pose proof (forallb_In _ _ S (Some items) (nth_error_In _ _ E)) as S2. cbv beta iota in S2.
  pose proof (forallb_In _ _ S2 (k, m, f, fl) Hi) as S3. cbv beta iota in S3. lia.
Qed.

Lemma tick_calls_frames cur s cs : fst (mf_schedule cur s) = FwOk cs -> forall o k p3, In (o, k, p3) cs -> 2 <= set_rv k <= 6.
Proof.
  intros H o k p3 Hin. destruct (tick_calls cur s) as [_ D]. rewrite (D cs H) in Hin.
  apply in_flat_map in Hin as [t [_ Hin]]. unfold mf_task_calls in Hin.
  destruct (Z.testbit (mf_tasks_after cur s) t); [exact (calls_frames t cur o k p3 Hin) | contradiction].
Qed.

Definition safe_ok (cur safe : Z) : Prop := 0 <= safe < 4294967296 /\ (2715648 <= safe \/ (safe - cur) mod 2715648 <= 4).

Lemma safe_upd_ok cur safe o k p3 : 0 <= cur < 2715648 -> 2 <= set_rv k <= 6 -> safe_ok cur safe -> safe_ok cur (safe_upd cur safe (o, k, p3)).
Proof.
  intros Hc Hk Hs. unfold safe_upd, fw_GSM_MAX_FN.
  set (fn := add_modulo (u32 cur) (set_rv k - 2) 2715648).
  assert (F : fn = (cur + (set_rv k - 2)) mod 2715648).
  { unfold fn, add_modulo, u32. rewrite (Z.mod_small cur 4294967296) by lia. rewrite (Z.mod_small (cur + _) 4294967296) by lia.
    destruct (mod_hyper_cases (cur + (set_rv k - 2)) ltac:(lia)) as [[R E]|[[R E]|[R E]]]; rewrite E; try lia.
    - replace (cur + (set_rv k - 2) >=? 2715648) with false by (symmetry; rewrite Z.geb_leb; apply Z.leb_gt; lia). reflexivity.
    - replace (cur + (set_rv k - 2) >=? 2715648) with true by (symmetry; rewrite Z.geb_leb; apply Z.leb_le; lia).
      apply Z.mod_small. lia. }
  assert (G : safe_ok cur fn).
  { rewrite F. pose proof (Z.mod_pos_bound (cur + (set_rv k - 2)) 2715648 ltac:(lia)) as B. split; [lia|]. right.
    rewrite Zminus_mod_idemp_l. replace (cur + (set_rv k - 2) - cur) with (set_rv k - 2) by lia. rewrite Z.mod_small; lia. }
  match goal with |- safe_ok _ (if ?c then _ else _) => destruct c end; assumption.
Qed.

Lemma fold_safe_ok cur : 0 <= cur < 2715648 -> forall cs safe, (forall o k p3, In (o, k, p3) cs -> 2 <= set_rv k <= 6) ->
  safe_ok cur safe -> safe_ok cur (fold_left (safe_upd cur) cs safe).
Proof.
  intros Hc. induction cs as [|[[o k] p3] tl IH]; intros safe Hk Hs; cbn [fold_left]; [exact Hs|].
  apply IH; [intros o' k' p' Hin; apply (Hk o' k' p'); right; exact Hin|].
  apply safe_upd_ok; [exact Hc | apply (Hk o k p3); left; reflexivity | exact Hs].
Qed.

Lemma safe_ok_inv cur s : safe_ok cur (ms_safe s) -> mf_inv cur s = true /\ ms_safe s < 4294967296.
Proof. intros [[H0 H32] H]. split; [apply inv_cases; split; assumption | exact H32]. Qed.

(* the invariant holds after mframe_reset(), is not touched by requests, and is kept by the tick of the next frame;
   it also holds after the first tick behind a reset at whatever frame *)
Lemma inv_tick : forall cur s, 0 <= cur < 2715648 -> ms_safe s < 4294967296 -> mf_inv cur s = true ->
  let c1 := (cur + 1) mod 2715648 in
  mf_inv c1 (snd (mf_schedule c1 s)) = true /\ ms_safe (snd (mf_schedule c1 s)) < 4294967296.
Proof.
  intros cur s Hc H32 Hi c1.
  assert (Hc1 : 0 <= c1 < 2715648) by (apply Z.mod_pos_bound; lia).
  assert (S0 : safe_ok c1 (mf_safe_after_test c1 s)).
  { unfold mf_safe_after_test. destruct (mf_safe_test c1 s) eqn:T.
    - split; [lia | left; lia].
    - destruct (not_safe_next cur s Hc H32 Hi T) as [Hv [Ha Hd]]. apply inv_cases in Hi as [H0 _].
      split; [lia|]. right. fold c1 in Hd. lia. }
  apply safe_ok_inv. unfold mf_schedule. cbv zeta.
  destruct (fw_mframe_schedule (mf_tasks_after c1 s) c1) as [| |cs] eqn:E; cbn [snd ms_safe]; try exact S0.
  apply (fold_safe_ok c1 Hc1); [|exact S0].
  apply (tick_calls_frames c1 s cs). destruct (tick_calls c1 s) as [E2 _]. rewrite E2. exact E.
Qed.

Lemma inv_first_tick : forall c1 s, 0 <= c1 < 2715648 -> 2715648 <= ms_safe s < 4294967296 ->
  mf_inv c1 (snd (mf_schedule c1 s)) = true /\ ms_safe (snd (mf_schedule c1 s)) < 4294967296.
Proof.
  intros c1 s Hc1 Hs.
  assert (T : mf_safe_test c1 s = true) by (apply safe_test_true; right; right; lia).
  assert (S0 : safe_ok c1 (mf_safe_after_test c1 s)) by (unfold mf_safe_after_test; rewrite T; split; [lia | left; lia]).
  apply safe_ok_inv. unfold mf_schedule. cbv zeta.
  destruct (fw_mframe_schedule (mf_tasks_after c1 s) c1) as [| |cs] eqn:E; cbn [snd ms_safe]; try exact S0.
  apply (fold_safe_ok c1 Hc1); [|exact S0].
  apply (tick_calls_frames c1 s cs). destruct (tick_calls c1 s) as [E2 _]. rewrite E2. exact E.
Qed.

Lemma inv_reset : forall cur, mf_inv cur mf_reset = true /\ ms_safe mf_reset = 4294967295.
Proof. intros cur. split; [apply inv_cases; cbn [mf_reset ms_safe]; lia | reflexivity]. Qed.

(* a tick that starts nothing leaves safe_fn alone or forgets it (safe branch) *)
Lemma quiet_tick_safe : forall cur s, fst (mf_schedule cur s) = FwOk [] ->
  ms_safe (snd (mf_schedule cur s)) = mf_safe_after_test cur s.
Proof.
  intros cur s H. rewrite tick_core in H. unfold mf_schedule. cbv zeta. rewrite H. reflexivity.
Qed.

(* liveness: the state as left by the tick of frame cur (invariant), task t requested; if the next three ticks start no set, t is
   active after the fourth tick at the latest *)
Lemma enable_live : forall s0 cur t, 0 <= cur < 2715648 -> 0 <= t < 32 -> ms_safe s0 < 4294967296 -> mf_inv cur s0 = true ->
  Z.testbit (ms_tgt s0) t = true ->
  let c1 := (cur + 1) mod 2715648 in let c2 := (cur + 2) mod 2715648 in
  let c3 := (cur + 3) mod 2715648 in let c4 := (cur + 4) mod 2715648 in
  let s1 := snd (mf_schedule c1 s0) in let s2 := snd (mf_schedule c2 s1) in
  let s3 := snd (mf_schedule c3 s2) in let s4 := snd (mf_schedule c4 s3) in
  fst (mf_schedule c1 s0) = FwOk [] -> fst (mf_schedule c2 s1) = FwOk [] -> fst (mf_schedule c3 s2) = FwOk [] ->
  Z.testbit (ms_tasks s4) t = true.
Proof.
  intros s0 cur t Hc Ht H32 Hi Hg c1 c2 c3 c4 s1 s2 s3 s4 Q1 Q2 Q3.
  assert (G : forall c s, ms_tgt (snd (mf_schedule c s)) = ms_tgt s) by (intros; apply schedule_fields).
  assert (A : forall c s, ms_tasks (snd (mf_schedule c s)) = mf_tasks_after c s) by (intros; apply schedule_fields).
  assert (G1 : Z.testbit (ms_tgt s1) t = true) by (unfold s1; rewrite G; exact Hg).
  assert (G2 : Z.testbit (ms_tgt s2) t = true) by (unfold s2; rewrite G; exact G1).
  assert (G3 : Z.testbit (ms_tgt s3) t = true) by (unfold s3; rewrite G; exact G2).
  assert (Act : forall c s, Z.testbit (ms_tgt s) t = true -> mf_safe_test c s = true -> Z.testbit (ms_tasks (snd (mf_schedule c s))) t = true).
  { intros c s Hgt Hts. rewrite A, (safe_means_target c s Hts). exact Hgt. }
  assert (Keep : forall c s, Z.testbit (ms_tgt s) t = true -> Z.testbit (ms_tasks s) t = true -> Z.testbit (ms_tasks (snd (mf_schedule c s))) t = true).
  { intros c s Hgt Hta. rewrite A. apply active_step; [lia | exact Hta | exact Hgt]. }
  destruct (mf_safe_test c1 s0) eqn:T1.
  { unfold s4, s3, s2. apply Keep; [exact G3|]. apply Keep; [exact G2|]. apply Keep; [exact G1|]. apply Act; assumption. }
  assert (E1 : ms_safe s1 = ms_safe s0) by (unfold s1; rewrite (quiet_tick_safe c1 s0 Q1); unfold mf_safe_after_test; rewrite T1; reflexivity).
  destruct (mf_safe_test c2 s1) eqn:T2.
  { unfold s4, s3. apply Keep; [exact G3|]. apply Keep; [exact G2|]. apply Act; assumption. }
  assert (E2 : ms_safe s2 = ms_safe s0) by (unfold s2; rewrite (quiet_tick_safe c2 s1 Q2); unfold mf_safe_after_test; rewrite T2; exact E1).
  destruct (mf_safe_test c3 s2) eqn:T3.
  { unfold s4. apply Keep; [exact G3|]. apply Act; assumption. }
  assert (E3 : ms_safe s3 = ms_safe s0) by (unfold s3; rewrite (quiet_tick_safe c3 s2 Q3); unfold mf_safe_after_test; rewrite T3; exact E2).
  unfold s4. apply Act; [exact G3|]. rewrite (safe_test_ext c4 s3 s0 E3).
  apply (safe_after_at_most_4 cur s0 4 Hc H32 Hi ltac:(lia)).
  apply inv_cases in Hi as [_ Hi]. exact Hi.
Qed.

(* ------------------------------------------------------------------ (d) the agreement theorems on scheduler states *)

Lemma sched_block_starts_agree : forall r tn cur s,
  In r c11_rows -> r_mode r <> Tch -> 0 <= tn < 8 -> tn_ok (r_tn r) tn = true -> 0 <= cur < 2715648 ->
  Z.testbit (mf_tasks_after cur s) (r_task r) = true ->
  exists L, row_layout r tn = Some L /\
    let fn := (cur + 2) mod 2715648 in
    mf_fires cur s (r_task r) K_NB_DL false = trx_first L DL (r_lchan r) fn /\
    mf_fires cur s (r_task r) K_NB_DL true = trx_first_opt L DL (r_sacch r) fn /\
    (r_mode r = Block ->
       mf_fires cur s (r_task r) K_NB_UL false = trx_first L UL (r_lchan r) fn /\
       mf_fires cur s (r_task r) K_NB_UL true = trx_first_opt L UL (r_sacch r) fn) /\
    (r_mode r = BlockDL ->
       mf_fires cur s (r_task r) K_NB_UL false = false /\ mf_fires cur s (r_task r) K_NB_UL true = false).
Proof.
  intros r tn cur s Hr Hm Htn Hok Hcur Ha.
  destruct (block_starts_agree r tn cur Hr Hm Htn Hok Hcur) as [L [HL H]]. exists L. split; [exact HL|].
  cbv zeta in *. rewrite !(fires_active cur s (r_task r) _ _ Ha). exact H.
Qed.

Lemma sched_tch_frames_agree : forall r tn cur s,
  In r c11_rows -> r_mode r = Tch -> 0 <= tn < 8 -> tn_ok (r_tn r) tn = true -> 0 <= cur < 2715648 ->
  Z.testbit (mf_tasks_after cur s) (r_task r) = true ->
  exists L, row_layout r tn = Some L /\
    let fn := (cur + 2) mod 2715648 in
    mf_fires cur s (r_task r) K_TCH false = trx_owns L DL (r_lchan r) fn /\
    mf_fires cur s (r_task r) K_TCH false = trx_owns L UL (r_lchan r) fn /\
    mf_fires cur s (r_task r) K_TCH_A true = trx_owns_opt L DL (r_sacch r) fn /\
    mf_fires cur s (r_task r) K_TCH_A true = trx_owns_opt L UL (r_sacch r) fn /\
    mf_fires cur s (r_task r) K_TCH_D false = trx_owns_opt L DL (other_subchan (r_lchan r)) fn /\
    mf_fires cur s (r_task r) K_TCH_D false = trx_owns_opt L UL (other_subchan (r_lchan r)) fn.
Proof.
  intros r tn cur s Hr Hm Htn Hok Hcur Ha.
  destruct (tch_frames_agree r tn cur Hr Hm Htn Hok Hcur) as [L [HL H]]. exists L. split; [exact HL|].
  cbv zeta in *. rewrite !(fires_active cur s (r_task r) _ _ Ha). exact H.
Qed.

(* non-vacuity: BCCH running, CCCH requested one frame after a BCCH block was started (tick 0 starts the block of frames 2..5, safe_fn = 4):
   the ticks of frames 1, 2, 3 are not safe and leave the request pending, the tick of frame 4 takes it over (and starts the CCCH block of frames 6..9: safe_fn = 8); a disabled task is dropped at once *)
Example ex_deferred_enable :
  let s0 := mf_run [OpEnable fw_MF_TASK_BCCH_NORM; OpTick 0; OpEnable fw_MF_TASK_CCCH] mf_reset in
  ms_safe s0 = 4 /\ mf_inv 0 s0 = true /\
  map (fun c => mf_safe_test c s0) [1; 2; 3; 4] = [false; false; false; true] /\
  mf_run [OpTick 1; OpTick 2; OpTick 3] s0 = mkmf 1 5 4 /\
  mf_run [OpTick 1; OpTick 2; OpTick 3; OpTick 4] s0 = mkmf 5 5 8 /\
  mf_run [OpDisable fw_MF_TASK_BCCH_NORM; OpTick 1] s0 = mkmf 0 4 4.
Proof. vm_compute. repeat split; reflexivity. Qed.

(* ------------------------------------------------------------------ trxcon: channel number -> channel combination (l1sched_chan_nr2pchan_config) *)

Lemma sweep_resolver : forallb (fun c => trx_chan_nr2pchan c =? nth (Z.to_nat c) tx_resolve (-1)) (range 0 256) = true.
Proof. vm_compute. reflexivity. Qed.

Lemma sweep_resolve_rows : forallb (fun r => forallb (fun tn => chk_resolve r tn) (range 0 8)) c11_rows = true.
Proof. vm_compute. reflexivity. Qed.

Lemma resolver_is_real : forall c, 0 <= c < 256 -> trx_chan_nr2pchan c = nth (Z.to_nat c) tx_resolve (-1).
Proof. intros c Hc. apply Z.eqb_eq. exact (forallb_range _ _ _ sweep_resolver c Hc). Qed.

Lemma tnrule_eqb_eq a b : tnrule_eqb a b = true -> a = b.
Proof. destruct a, b; try discriminate; reflexivity. Qed.
Lemma mode_eqb_eq a b : mode_eqb a b = true -> a = b.
Proof. destruct a, b; try discriminate; reflexivity. Qed.
Lemma optz_eqb_eq a b : optz_eqb a b = true -> a = b.
Proof. destruct a as [x|], b as [y|]; cbn [optz_eqb]; try discriminate; [intros H; apply Z.eqb_eq in H; subst; reflexivity | reflexivity]. Qed.

(* the firmware's channel number of a dedicated row resolves to a combination under which the table has the same task / channel / SACCH /
   timeslots / mode; BCCH and CCCH channel numbers do not resolve *)
Lemma chan_nr_resolves : forall r tn, In r c11_rows -> 0 <= tn < 8 ->
  let cfg := trx_chan_nr2pchan (fw_task_chan_nr (r_task r) tn) in
  (row_dedicated r = true ->
     exists r', In r' c11_rows /\ r_cfg r' = cfg /\ r_task r' = r_task r /\ r_lchan r' = r_lchan r /\ r_sacch r' = r_sacch r /\
                r_tn r' = r_tn r /\ r_mode r' = r_mode r) /\
  (row_dedicated r = false -> cfg = tx_GSM_PCHAN_NONE).
Proof.
  intros r tn Hr Htn cfg.
  pose proof (forallb_In _ _ sweep_resolve_rows r Hr) as H1. cbv beta in H1.
  pose proof (forallb_range _ _ _ H1 tn Htn) as H. cbv beta in H. clear H1.
  unfold chk_resolve in H. fold cfg in H. split; intros D; rewrite D in H.
  - apply existsb_exists in H as [r' [Hin H]]. apply andb_prop in H as [S Hc]. apply Z.eqb_eq in Hc.
    unfold same_chan in S. apply andb_prop in S as [S S5]. apply andb_prop in S as [S S4]. apply andb_prop in S as [S S3].
    apply andb_prop in S as [S1 S2]. apply Z.eqb_eq in S1, S2. apply optz_eqb_eq in S3. apply tnrule_eqb_eq in S4. apply mode_eqb_eq in S5.
    exists r'. repeat split; auto.
  - apply Z.eqb_eq. exact H.
Qed.

(* composed with the agreement theorems: in the layout trxcon selects for the resolved combination the firmware's block starts of the
   row's task are the layout's burst-0 frames of the row's channel *)
Lemma dch_est_block_starts : forall r tn cur,
  In r c11_rows -> row_dedicated r = true -> r_mode r <> Tch -> 0 <= tn < 8 -> tn_ok (r_tn r) tn = true -> 0 <= cur < 2715648 ->
  exists r' L, In r' c11_rows /\ r_cfg r' = trx_chan_nr2pchan (fw_task_chan_nr (r_task r) tn) /\ row_layout r' tn = Some L /\
    let fn := (cur + 2) mod 2715648 in
    fw_fires (r_task r) K_NB_DL false cur = trx_first L DL (r_lchan r) fn /\
    fw_fires (r_task r) K_NB_DL true cur = trx_first_opt L DL (r_sacch r) fn /\
    (r_mode r = Block ->
       fw_fires (r_task r) K_NB_UL false cur = trx_first L UL (r_lchan r) fn /\
       fw_fires (r_task r) K_NB_UL true cur = trx_first_opt L UL (r_sacch r) fn) /\
    (r_mode r = BlockDL ->
       fw_fires (r_task r) K_NB_UL false cur = false /\ fw_fires (r_task r) K_NB_UL true cur = false).
Proof.
  intros r tn cur Hr Hd Hm Htn Hok Hcur.
  destruct (chan_nr_resolves r tn Hr Htn) as [H _]. destruct (H Hd) as [r' [Hin [Ec [Et [El [Es [En Em]]]]]]].
  destruct (block_starts_agree r' tn cur Hin ltac:(rewrite Em; exact Hm) Htn ltac:(rewrite En; exact Hok) Hcur) as [L [HL HB]].
  exists r', L. split; [exact Hin|]. split; [exact Ec|]. split; [exact HL|].
  rewrite Et, El, Es, Em in HB. exact HB.
Qed.

Lemma dch_est_tch_frames : forall r tn cur,
  In r c11_rows -> row_dedicated r = true -> r_mode r = Tch -> 0 <= tn < 8 -> tn_ok (r_tn r) tn = true -> 0 <= cur < 2715648 ->
  exists r' L, In r' c11_rows /\ r_cfg r' = trx_chan_nr2pchan (fw_task_chan_nr (r_task r) tn) /\ row_layout r' tn = Some L /\
    let fn := (cur + 2) mod 2715648 in
    fw_fires (r_task r) K_TCH false cur = trx_owns L DL (r_lchan r) fn /\
    fw_fires (r_task r) K_TCH false cur = trx_owns L UL (r_lchan r) fn /\
    fw_fires (r_task r) K_TCH_A true cur = trx_owns_opt L DL (r_sacch r) fn /\
    fw_fires (r_task r) K_TCH_A true cur = trx_owns_opt L UL (r_sacch r) fn /\
    fw_fires (r_task r) K_TCH_D false cur = trx_owns_opt L DL (other_subchan (r_lchan r)) fn /\
    fw_fires (r_task r) K_TCH_D false cur = trx_owns_opt L UL (other_subchan (r_lchan r)) fn.
Proof.
  intros r tn cur Hr Hd Hm Htn Hok Hcur.
  destruct (chan_nr_resolves r tn Hr Htn) as [H _]. destruct (H Hd) as [r' [Hin [Ec [Et [El [Es [En Em]]]]]]].
  destruct (tch_frames_agree r' tn cur Hin ltac:(rewrite Em; exact Hm) Htn ltac:(rewrite En; exact Hok) Hcur) as [L [HL HB]].
  exists r', L. split; [exact Hin|]. split; [exact Ec|]. split; [exact HL|].
  rewrite Et, El, Es in HB. exact HB.
Qed.
