(* C08, GSM-time one-shot events (Model/SchedGsmtime.v): the active list stays sorted, the 16-slot pool is conserved, -EBUSY leaves
   everything untouched, an event requested for frame F is handed to tdma_schedule_set exactly once, by the sched_gsmtime_execute of
   frame F - 2, and its items then run in frame F - 1 + k (composition with the theorems about the TDMA scheduler); the hyperframe
   wrap is NOT handled by the code (frames 0 and 1 are never reached): refuted statement with witness. *)
From Coq Require Import ZArith List Bool Lia Permutation Sorted ZifyBool.
From OBB Require Import Gen.FwSchedConst Gen.FwGsmtimeConst Model.TdmaSched Model.SchedGsmtime Proofs.TdmaSchedSpec Proofs.TdmaSchedSortP Proofs.TdmaSchedP Proofs.TdmaSchedRefP Proofs.TdmaSchedHistP Proofs.TdmaSchedSpawnP.
Import ListNotations.
Open Scope Z_scope.
Ltac Zify.zify_post_hook ::= Z.to_euclidean_division_equations.

(* ---- vocabulary ---- *)
Definition gs_sorted (gs : gstate) : Prop := StronglySorted (fun a b => e_fn a <= e_fn b) (g_act gs).
(* every one of the 16 slots is on exactly one of the two lists, once *)
Definition gs_pool (gs : gstate) : Prop := Permutation (map e_slot (g_act gs) ++ g_inact gs) (seq 0 16).
Definition gs_ok (gs : gstate) : Prop := gs_sorted gs /\ gs_pool gs.

(* the walk of sched_gsmtime_execute without the TDMA scheduler: (active list afterwards, events handed over in order) *)
Fixpoint gwalk (tgt : Z) (l : list gev) : list gev * list gev :=
  match l with
  | [] => ([], [])
  | e :: r =>
    let keep := if e_fn e =? tgt then [] else [e] in
    let fire := if e_fn e =? tgt then [e] else [] in
    if e_fn e >? tgt then (keep ++ r, fire)
    else let '(a, f) := gwalk tgt r in (keep ++ a, fire ++ f)
  end.

(* handing events over = tdma_schedule_set(off, si, p3) for each, in order; the results are kept beside the events *)
Fixpoint hand_over (off : Z) (ts : sched) (evs : list gev) : res (sched * list (gev * Z)) :=
  match evs with
  | [] => Ok (ts, [])
  | e :: r =>
    match tdma_schedule_set ts off (e_si e) (e_p3 e) with
    | Ok (ts', rc) =>
      match hand_over off ts' r with
      | Ok (ts'', f) => Ok (ts'', (e, rc) :: f)
      | OOB => OOB
      | NullCall => NullCall
      end
    | OOB => OOB
    | NullCall => NullCall
    end
  end.

(* the event scheduler alone: state after a history and, per sched_gsmtime_execute, (fn, events handed over) *)
Definition gs_step (gs : gstate) (o : gop) : gstate * list (Z * list gev) :=
  match o with
  | GT _ => (gs, [])
  | GReq si fn p3 => (fst (sched_gsmtime gs si fn p3), [])
  | GExec fn =>
    ({| g_act := fst (gwalk (gexec_target fn) (g_act gs));
        g_inact := rev (map e_slot (snd (gwalk (gexec_target fn) (g_act gs)))) ++ g_inact gs |},
     [(fn, snd (gwalk (gexec_target fn) (g_act gs)))])
  | GReset => (sched_gsmtime_reset gs, [])
  end.

Fixpoint gs_run (gs : gstate) (ops : list gop) : gstate * list (Z * list gev) :=
  match ops with
  | [] => (gs, [])
  | o :: r => let '(gs1, l1) := gs_step gs o in let '(gs2, l2) := gs_run gs1 r in (gs2, l1 ++ l2)
  end.

(* what the TDMA scheduler sees of a combined history: each sched_gsmtime_execute is the tdma_schedule_set calls of the events it hands over *)
Fixpoint expand (gs : gstate) (ops : list gop) : list op :=
  match ops with
  | [] => []
  | o :: r =>
    (match o with
     | GT o' => [o']
     | GExec fn => map (fun e => OSet gexec_offset (e_si e) (e_p3 e)) (snd (gwalk (gexec_target fn) (g_act gs)))
     | _ => []
     end) ++ expand (fst (gs_step gs o)) r
  end.

Definition exec_fns (ops : list gop) : list Z := flat_map (fun o => match o with GExec fn => [fn] | _ => [] end) ops.

(* ---- constants ---- *)
Lemma gsm_consts_ok :
  c_GSMTIME_NEVENTS = 16 /\ c_SCHEDULE_AHEAD = 2 /\ c_SCHEDULE_LATENCY = 1 /\ c_EBUSY = 16 /\ c_GSM_MAX_FN = 2715648 /\
  c_GSMTIME_FN_BITS = 32 /\ c_GSMTIME_FN_SIGNED = 0 /\ c_GSMTIME_P3_BITS = 16.
Proof. repeat split; reflexivity. Qed.

Lemma gexec_offset_1 : gexec_offset = 1.
Proof. reflexivity. Qed.

Lemma gexec_target_eq fn : gexec_target fn = ((fn + 2) mod 4294967296) mod 2715648.
Proof. reflexivity. Qed.

(* for the frame numbers l1_sync passes the uint32 addition does not wrap: the target is the frame two ahead on the hyperframe clock *)
Lemma target_clock fn : 0 <= fn < 2715648 -> gexec_target fn = (fn + 2) mod 2715648.
Proof. intros H. rewrite gexec_target_eq. lia. Qed.

Lemma target_range fn : 0 <= gexec_target fn < 2715648.
Proof. rewrite gexec_target_eq. lia. Qed.

(* ---- sorted insert ---- *)
Lemma ins_sorted_split e : forall l, exists l1 l2, l = l1 ++ l2 /\ ins_sorted e l = l1 ++ e :: l2 /\
  Forall (fun c => e_fn c <= e_fn e) l1 /\ match l2 with [] => True | c :: _ => e_fn e < e_fn c end.
Proof.
  induction l as [|c r IH]; cbn [ins_sorted].
  - exists [], []. repeat split; constructor.
  - destruct (e_fn c >? e_fn e) eqn:E.
    + exists [], (c :: r). split; [reflexivity|]. split; [reflexivity|]. split; [constructor|lia].
    + destruct IH as (l1 & l2 & -> & E2 & F1 & H2). exists (c :: l1), l2. split; [reflexivity|]. rewrite E2. split; [reflexivity|].
      split; [constructor; [lia|exact F1]|exact H2].
Qed.

Lemma ins_sorted_perm e l : Permutation (ins_sorted e l) (e :: l).
Proof. destruct (ins_sorted_split e l) as (l1 & l2 & -> & -> & _). symmetry. apply Permutation_middle. Qed.

Lemma ins_sorted_sorted e : forall l, StronglySorted (fun a b => e_fn a <= e_fn b) l ->
  StronglySorted (fun a b => e_fn a <= e_fn b) (ins_sorted e l).
Proof.
  induction l as [|c r IH]; intros H; cbn [ins_sorted]; [repeat constructor|].
  apply StronglySorted_inv in H as (Hr & Hc).
  destruct (e_fn c >? e_fn e) eqn:E.
  - constructor; [constructor; assumption|]. constructor; [lia|]. eapply Forall_impl; [|exact Hc]. cbv beta. intros x Hx. lia.
  - constructor; [apply IH; exact Hr|]. eapply Permutation_Forall; [symmetry; apply ins_sorted_perm|]. constructor; [lia|exact Hc].
Qed.

(* ---- sched_gsmtime ---- *)
Lemma gsmtime_ebusy gs si fn p3 : g_inact gs = [] -> sched_gsmtime gs si fn p3 = (gs, -16).
Proof. intros H. unfold sched_gsmtime. rewrite H. reflexivity. Qed.

Lemma gsmtime_accept gs si fn p3 s rest : g_inact gs = s :: rest ->
  sched_gsmtime gs si fn p3 =
    ({| g_act := ins_sorted {| e_slot := s; e_si := si; e_fn := fn; e_p3 := p3 |} (g_act gs); g_inact := rest |}, 0).
Proof. intros H. unfold sched_gsmtime. rewrite H. reflexivity. Qed.

Lemma gsmtime_ok gs si fn p3 : gs_ok gs -> gs_ok (fst (sched_gsmtime gs si fn p3)).
Proof.
  intros (Hs & Hp). unfold sched_gsmtime. destruct (g_inact gs) as [|s rest] eqn:E; cbn [fst]; [split; assumption|].
  split.
  - unfold gs_sorted. cbn [g_act]. apply ins_sorted_sorted. exact Hs.
  - unfold gs_pool in *. cbn [g_act g_inact]. rewrite E in Hp.
    rewrite (Permutation_map e_slot (ins_sorted_perm _ _)). cbn [map e_slot app].
    rewrite <- Hp. apply Permutation_middle.
Qed.

(* ---- the walk ---- *)
Lemma walk_split off : forall tgt l ts inact,
  gexec_walk tgt off l ts inact =
    match hand_over off ts (snd (gwalk tgt l)) with
    | Ok (ts', fired) => Ok (fst (gwalk tgt l), ts', rev (map e_slot (snd (gwalk tgt l))) ++ inact, fired)
    | OOB => OOB
    | NullCall => NullCall
    end.
Proof.
  intros tgt. induction l as [|e r IH]; intros ts inact; [reflexivity|]. cbn [gexec_walk gwalk].
  destruct (e_fn e =? tgt) eqn:Eq.
  - replace (e_fn e >? tgt) with false by lia.
    destruct (tdma_schedule_set ts off (e_si e) (e_p3 e)) as [[ts1 rc]| |] eqn:Es.
    + rewrite IH. destruct (gwalk tgt r) as [a f]. cbn [fst snd app hand_over map rev]. rewrite Es.
      destruct (hand_over off ts1 f) as [[ts2 f2]| |]; try reflexivity. rewrite <- app_assoc. reflexivity.
    + destruct (gwalk tgt r) as [a f]. cbn [fst snd app hand_over]. rewrite Es. reflexivity.
    + destruct (gwalk tgt r) as [a f]. cbn [fst snd app hand_over]. rewrite Es. reflexivity.
  - destruct (e_fn e >? tgt) eqn:Egt.
    + cbn [fst snd hand_over map rev app]. reflexivity.
    + rewrite IH. destruct (gwalk tgt r) as [a f]. cbn [fst snd app].
      destruct (hand_over off ts f) as [[ts2 f2]| |]; reflexivity.
Qed.

(* everything handed over is due, and the walk only removes what it hands over *)
Lemma gwalk_fired_due tgt : forall l, Forall (fun e => e_fn e = tgt) (snd (gwalk tgt l)).
Proof.
  induction l as [|e r IH]; cbn [gwalk]; [constructor|].
  destruct (e_fn e >? tgt); [destruct (e_fn e =? tgt) eqn:E; cbn [snd]; repeat constructor; lia|].
  destruct (gwalk tgt r) as [a f]. cbn [snd] in *. destruct (e_fn e =? tgt) eqn:E; cbn [app]; [constructor; [lia|exact IH]|exact IH].
Qed.

Lemma gwalk_perm tgt : forall l, Permutation (fst (gwalk tgt l) ++ snd (gwalk tgt l)) l.
Proof.
  induction l as [|e r IH]; cbn [gwalk]; [constructor|].
  destruct (e_fn e >? tgt).
  - destruct (e_fn e =? tgt); cbn [fst snd app]; [|rewrite app_nil_r; reflexivity].
    rewrite Permutation_app_comm. reflexivity.
  - destruct (gwalk tgt r) as [a f]. cbn [fst snd] in *. destruct (e_fn e =? tgt); cbn [app].
    + rewrite <- IH. symmetry. apply Permutation_middle.
    + constructor. exact IH.
Qed.

(* on a sorted list the early break loses nothing: exactly the events with fn = target are handed over, the others stay, in order *)
Lemma gwalk_sorted tgt : forall l, StronglySorted (fun a b => e_fn a <= e_fn b) l ->
  gwalk tgt l = (filter (fun e => negb (e_fn e =? tgt)) l, filter (fun e => e_fn e =? tgt) l).
Proof.
  induction l as [|e r IH]; intros H; [reflexivity|]. apply StronglySorted_inv in H as (Hr & He). cbn [gwalk filter].
  destruct (e_fn e >? tgt) eqn:Egt.
  - replace (e_fn e =? tgt) with false by lia. cbn [negb app].
    assert (Hall : Forall (fun x => (e_fn x =? tgt) = false) r) by (eapply Forall_impl; [|exact He]; cbv beta; intros x Hx; lia).
    f_equal.
    + f_equal. symmetry. clear - Hall. induction Hall as [|x r Hx Hr IH]; [reflexivity|]. cbn [filter]. rewrite Hx. cbn [negb]. rewrite IH. reflexivity.
    + symmetry. clear - Hall. induction Hall as [|x r Hx Hr IH]; [reflexivity|]. cbn [filter]. rewrite Hx. exact IH.
  - rewrite (IH Hr). destruct (e_fn e =? tgt); reflexivity.
Qed.

Lemma sorted_filter (f : gev -> bool) : forall l, StronglySorted (fun a b => e_fn a <= e_fn b) l ->
  StronglySorted (fun a b => e_fn a <= e_fn b) (filter f l).
Proof.
  induction l as [|e r IH]; intros H; [constructor|]. apply StronglySorted_inv in H as (Hr & He). cbn [filter].
  destruct (f e); [|apply IH; exact Hr]. constructor; [apply IH; exact Hr|].
  apply Forall_forall. intros x Hx. apply filter_In in Hx as (Hx & _). rewrite Forall_forall in He. apply He. exact Hx.
Qed.

Lemma gs_step_ok gs o : gs_ok gs -> gs_ok (fst (gs_step gs o)).
Proof.
  intros Hok. pose proof Hok as (Hs & Hp). destruct o as [o'|si fn p3|fn|]; cbn [gs_step fst].
  - exact Hok.
  - apply gsmtime_ok. exact Hok.
  - split.
    + unfold gs_sorted. cbn [g_act]. rewrite (gwalk_sorted _ _ Hs). cbn [fst]. apply sorted_filter. exact Hs.
    + unfold gs_pool in *. cbn [g_act g_inact]. eapply perm_trans; [|exact Hp].
      rewrite app_assoc. apply Permutation_app_tail.
      eapply perm_trans; [apply Permutation_app_head; symmetry; apply Permutation_rev|].
      rewrite <- map_app. apply Permutation_map. apply gwalk_perm.
  - split; [constructor|]. unfold gs_pool in *. cbn [sched_gsmtime_reset g_act g_inact map app]. eapply perm_trans; [|exact Hp].
    apply Permutation_app_tail. symmetry. apply Permutation_rev.
Qed.

Lemma gs_run_ok : forall ops gs, gs_ok gs -> gs_ok (fst (gs_run gs ops)).
Proof.
  induction ops as [|o r IH]; intros gs H; [exact H|]. cbn [gs_run].
  pose proof (gs_step_ok gs o H) as H1. destruct (gs_step gs o) as [gs1 l1]. cbn [fst] in H1.
  specialize (IH gs1 H1). destruct (gs_run gs1 r) as [gs2 l2]. exact IH.
Qed.

Lemma gs_init_ok : gs_ok gs_init.
Proof.
  split; [constructor|]. unfold gs_pool, gs_init, sched_gsmtime_init, gs_zero. cbn [g_act g_inact map app].
  rewrite app_nil_r. change (Z.to_nat c_GSMTIME_NEVENTS) with 16%nat. symmetry. apply Permutation_rev.
Qed.

Lemma gs_pool_facts gs : gs_pool gs ->
  NoDup (map e_slot (g_act gs) ++ g_inact gs) /\ (length (g_act gs) + length (g_inact gs) = 16)%nat /\
  forall s, In s (map e_slot (g_act gs) ++ g_inact gs) <-> (s < 16)%nat.
Proof.
  intros H. split; [eapply Permutation_NoDup; [symmetry; exact H|apply seq_NoDup]|]. split.
  - pose proof (Permutation_length H) as L. rewrite app_length, map_length, seq_length in L. exact L.
  - intros s. split; intros Hs.
    + apply (Permutation_in _ H) in Hs. apply in_seq in Hs. lia.
    + apply (Permutation_in _ (Permutation_sym H)). apply in_seq. lia.
Qed.

(* ---- the combined history: the event scheduler runs on its own, the TDMA scheduler sees tdma_schedule_set calls ---- *)
Lemma hand_over_fired off : forall evs ts ts' fired, hand_over off ts evs = Ok (ts', fired) -> map fst fired = evs.
Proof.
  induction evs as [|e r IH]; intros ts ts' fired H; cbn [hand_over] in H; [injection H as _ <-; reflexivity|].
  destruct (tdma_schedule_set ts off (e_si e) (e_p3 e)) as [[ts1 rc]| |]; try discriminate.
  destruct (hand_over off ts1 r) as [[ts2 f]| |] eqn:E; try discriminate. injection H as _ <-. cbn [map fst]. rewrite (IH _ _ _ E). reflexivity.
Qed.

Lemma hand_over_run rcf off : forall evs ts ts' fired, hand_over off ts evs = Ok (ts', fired) ->
  run_sp rcf ts (map (fun e => OSet off (e_si e) (e_p3 e)) evs) = (map (fun p => PRet (snd p)) fired, FOk ts').
Proof.
  induction evs as [|e r IH]; intros ts ts' fired H; cbn [hand_over] in H; [injection H as <- <-; reflexivity|].
  cbn [map run_sp step_sp].
  destruct (tdma_schedule_set ts off (e_si e) (e_p3 e)) as [[ts1 rc]| |]; try discriminate.
  destruct (hand_over off ts1 r) as [[ts2 f]| |] eqn:E; try discriminate. injection H as <- <-.
  rewrite (IH _ _ _ E). reflexivity.
Qed.

Lemma run_sp_app rcf : forall a ts oa ts1 b, run_sp rcf ts a = (oa, FOk ts1) ->
  run_sp rcf ts (a ++ b) = (oa ++ fst (run_sp rcf ts1 b), snd (run_sp rcf ts1 b)).
Proof.
  induction a as [|o r IH]; intros ts oa ts1 b H; cbn [run_sp app] in *.
  - injection H as <- <-. destruct (run_sp rcf ts b); reflexivity.
  - destruct (step_sp rcf ts o) as [[ts2 ob]| |]; try discriminate.
    destruct (run_sp rcf ts2 r) as [bs f] eqn:E. injection H as <- ->.
    rewrite (IH ts2 bs ts1 b E). reflexivity.
Qed.

Definition qlog (obs : list gobs) : list (list gev) :=
  flat_map (fun b => match b with QNum _ f => [map fst f] | _ => [] end) obs.

Lemma qlog_cons b bs : qlog (b :: bs) = qlog [b] ++ qlog bs.
Proof. unfold qlog. cbn [flat_map]. rewrite app_nil_r. reflexivity. Qed.

Lemma g_step_proj rcf ts gs o ts' gs' b : g_step rcf ts gs o = Ok (ts', gs', b) ->
  gs' = fst (gs_step gs o) /\ qlog [b] = map snd (snd (gs_step gs o)) /\
  exists os, run_sp rcf ts (expand gs [o]) = (os, FOk ts').
Proof.
  intros H. destruct o as [o'|si fn p3|fn|]; cbn [g_step gs_step expand fst snd] in *.
  - destruct (step_sp rcf ts o') as [[ts1 ob]| |] eqn:E; try discriminate. injection H as <- <- <-.
    split; [reflexivity|]. split; [reflexivity|]. cbn [app run_sp]. rewrite E. eexists. reflexivity.
  - destruct (sched_gsmtime gs si fn p3) as [gs1 r]. injection H as <- <- <-. split; [reflexivity|]. split; [reflexivity|]. eexists. reflexivity.
  - unfold sched_gsmtime_execute in H. rewrite walk_split in H.
    destruct (hand_over gexec_offset ts (snd (gwalk (gexec_target fn) (g_act gs)))) as [[ts1 fired]| |] eqn:E; try discriminate.
    injection H as <- <- <-. split; [reflexivity|]. split.
    + cbn [qlog flat_map map snd app]. rewrite (hand_over_fired _ _ _ _ _ E). reflexivity.
    + rewrite app_nil_r. eexists. apply hand_over_run. exact E.
  - injection H as <- <- <-. split; [reflexivity|]. split; [reflexivity|]. eexists. reflexivity.
Qed.

Lemma expand_cons gs o r : expand gs (o :: r) = expand gs [o] ++ expand (fst (gs_step gs o)) r.
Proof. cbn [expand]. rewrite app_nil_r. reflexivity. Qed.

Lemma projection rcf : forall ops ts gs obs ts' gs', g_run rcf ts gs ops = (obs, GFOk ts' gs') ->
  gs' = fst (gs_run gs ops) /\ qlog obs = map snd (snd (gs_run gs ops)) /\
  exists os, run_sp rcf ts (expand gs ops) = (os, FOk ts').
Proof.
  induction ops as [|o r IH]; intros ts gs obs ts' gs' H.
  - cbn [g_run] in H. injection H as <- <- <-. split; [reflexivity|]. split; [reflexivity|]. eexists. reflexivity.
  - cbn [g_run] in H. destruct (g_step rcf ts gs o) as [[[ts1 gs1] b]| |] eqn:E; try discriminate.
    destruct (g_run rcf ts1 gs1 r) as [bs f] eqn:Er. injection H as <- ->.
    destruct (g_step_proj _ _ _ _ _ _ _ E) as (-> & Hq & os1 & R1).
    destruct (IH _ _ _ _ _ Er) as (-> & Hq2 & os2 & R2).
    cbn [gs_run]. destruct (gs_step gs o) as [gsa la] eqn:Eg. cbn [fst snd] in *. destruct (gs_run gsa r) as [gsb lb]. cbn [fst snd] in *.
    split; [reflexivity|]. split.
    + rewrite qlog_cons, Hq, Hq2, map_app. reflexivity.
    + rewrite expand_cons, Eg. cbn [fst]. rewrite (run_sp_app rcf _ _ _ _ _ R1). rewrite R2. eexists. reflexivity.
Qed.

(* ---- exactly once, in frame F - 2 ---- *)
Lemma nodup_map_inj {A B} (f : A -> B) : forall l x y, NoDup (map f l) -> In x l -> In y l -> f x = f y -> x = y.
Proof.
  induction l as [|a r IH]; intros x y H Hx Hy E; [destruct Hx|]. cbn [map] in H. apply NoDup_cons_iff in H as (Hn & Hr).
  destruct Hx as [<-|Hx]; destruct Hy as [<-|Hy]; try reflexivity.
  - exfalso. apply Hn. rewrite E. apply in_map. exact Hy.
  - exfalso. apply Hn. rewrite <- E. apply in_map. exact Hx.
  - apply IH; assumption.
Qed.

Lemma nodup_map_filter {A B} (f : A -> B) (g : A -> bool) : forall l, NoDup (map f l) -> NoDup (map f (filter g l)).
Proof.
  induction l as [|a r IH]; intros H; [constructor|]. cbn [map] in H. apply NoDup_cons_iff in H as (Hn & Hr). cbn [filter].
  destruct (g a); [|apply IH; exact Hr]. cbn [map]. constructor; [|apply IH; exact Hr].
  intros Hin. apply Hn. apply in_map_iff in Hin as (x & <- & Hx). apply filter_In in Hx as (Hx & _). apply in_map. exact Hx.
Qed.

Lemma act_slots_nodup gs : gs_pool gs -> NoDup (map e_slot (g_act gs)).
Proof.
  intros H. destruct (gs_pool_facts gs H) as (ND & _). revert ND. generalize (map e_slot (g_act gs)) as l.
  induction l as [|a r IH]; intros ND; [constructor|]. cbn [app] in ND. apply NoDup_cons_iff in ND as (Hn & Hr).
  constructor; [intros Hin; apply Hn; apply in_or_app; left; exact Hin|apply IH; exact Hr].
Qed.

(* an event that is pending stays pending, and is not handed over, by every operation except a reset and an execute whose target is its frame *)
Lemma pending_kept gs e o : gs_ok gs -> In e (g_act gs) -> o <> GReset ->
  (forall fn, o = GExec fn -> gexec_target fn <> e_fn e) ->
  In e (g_act (fst (gs_step gs o))) /\
  forall fn fired, In (fn, fired) (snd (gs_step gs o)) -> ~ In (e_slot e) (map e_slot fired).
Proof.
  intros (Hs & Hp) He Hnr Hfn. destruct o as [o'|si fn p3|fn|]; cbn [gs_step fst snd].
  - split; [exact He|intros ? ? []].
  - split; [|intros ? ? []]. unfold sched_gsmtime. destruct (g_inact gs) as [|s rest]; cbn [fst g_act]; [exact He|].
    apply (Permutation_in _ (Permutation_sym (ins_sorted_perm _ _))). right. exact He.
  - specialize (Hfn fn eq_refl). rewrite (gwalk_sorted _ _ Hs). cbn [fst snd g_act]. split.
    + apply filter_In. split; [exact He|]. lia.
    + intros fn' fired [E|[]]. injection E as _ <-. intros Hin. apply in_map_iff in Hin as (x & Ex & Hx).
      apply filter_In in Hx as (Hx & Hxt).
      assert (x = e) by (eapply (nodup_map_inj e_slot); [apply act_slots_nodup; exact Hp|exact Hx|exact He|exact Ex]). subst x. lia.
  - congruence.
Qed.

Lemma exec_fns_cons o r : exec_fns (o :: r) = (match o with GExec fn => [fn] | _ => [] end) ++ exec_fns r.
Proof. reflexivity. Qed.

Lemma pending_through e : forall mid gs, gs_ok gs -> In e (g_act gs) -> ~ In GReset mid ->
  Forall (fun fn => gexec_target fn <> e_fn e) (exec_fns mid) ->
  In e (g_act (fst (gs_run gs mid))) /\ gs_ok (fst (gs_run gs mid)) /\
  forall fn fired, In (fn, fired) (snd (gs_run gs mid)) -> ~ In (e_slot e) (map e_slot fired).
Proof.
  induction mid as [|o r IH]; intros gs Hok He Hnr HF.
  - cbn [gs_run fst snd]. split; [exact He|]. split; [exact Hok|intros ? ? []].
  - rewrite exec_fns_cons in HF. apply Forall_app in HF as (HF1 & HF2).
    assert (Hno : o <> GReset) by (intros ->; apply Hnr; left; reflexivity).
    assert (Hfn : forall fn, o = GExec fn -> gexec_target fn <> e_fn e) by (intros fn ->; inversion HF1; assumption).
    destruct (pending_kept gs e o Hok He Hno Hfn) as (He1 & Hl1). pose proof (gs_step_ok gs o Hok) as Hok1.
    cbn [gs_run]. destruct (gs_step gs o) as [gs1 l1]. cbn [fst snd] in *.
    destruct (IH gs1 Hok1 He1 ltac:(intros Hin; apply Hnr; right; exact Hin) HF2) as (He2 & Hok2 & Hl2).
    destruct (gs_run gs1 r) as [gs2 l2]. cbn [fst snd] in *. split; [exact He2|]. split; [exact Hok2|].
    intros fn fired Hin. apply in_app_or in Hin as [Hin|Hin]; [eapply Hl1|eapply Hl2]; eassumption.
Qed.

(* the execute whose target is the event's frame hands it over, once; it is no longer pending and its slot is free again *)
Lemma due_fires gs e fn : gs_ok gs -> In e (g_act gs) -> gexec_target fn = e_fn e ->
  let W := snd (gwalk (gexec_target fn) (g_act gs)) in
  In e W /\ count_occ Nat.eq_dec (map e_slot W) (e_slot e) = 1%nat /\ Forall (fun x => e_fn x = e_fn e) W /\
  ~ In e (g_act (fst (gs_step gs (GExec fn)))) /\ In (e_slot e) (g_inact (fst (gs_step gs (GExec fn)))).
Proof.
  intros (Hs & Hp) He Ht. cbn zeta. cbn [gs_step fst g_act g_inact]. rewrite (gwalk_sorted _ _ Hs). cbn [fst snd].
  assert (HinW : In e (filter (fun x => e_fn x =? gexec_target fn) (g_act gs))) by (apply filter_In; split; [exact He|lia]).
  split; [exact HinW|]. split.
  - pose proof (nodup_map_filter e_slot (fun x => e_fn x =? gexec_target fn) _ (act_slots_nodup gs Hp)) as ND.
    rewrite (NoDup_count_occ Nat.eq_dec) in ND. specialize (ND (e_slot e)).
    assert (Hin : In (e_slot e) (map e_slot (filter (fun x => e_fn x =? gexec_target fn) (g_act gs)))) by (apply in_map; exact HinW).
    rewrite (count_occ_In Nat.eq_dec) in Hin. lia.
  - split; [apply Forall_forall; intros x Hx; apply filter_In in Hx; lia|]. split.
    + intros Hin. apply filter_In in Hin. lia.
    + apply in_or_app. left. apply -> in_rev. apply in_map. exact HinW.
Qed.

(* generic form: whatever frame numbers the executes get, as long as none of them targets the event's frame *)
Lemma fires_when_due gs s rest si F p3 mid fnx : gs_ok gs -> g_inact gs = s :: rest ->
  Forall (fun fn => gexec_target fn <> F) (exec_fns mid) -> ~ In GReset mid -> gexec_target fnx = F ->
  let e := {| e_slot := s; e_si := si; e_fn := F; e_p3 := p3 |} in
  let gs2 := fst (gs_run gs (GReq si F p3 :: mid)) in
  let W := snd (gwalk (gexec_target fnx) (g_act gs2)) in
  sched_gsmtime gs si F p3 = (fst (gs_step gs (GReq si F p3)), 0) /\
  (forall fn fired, In (fn, fired) (snd (gs_run gs (GReq si F p3 :: mid))) -> ~ In s (map e_slot fired)) /\
  gs_ok gs2 /\ In e (g_act gs2) /\
  In e W /\ count_occ Nat.eq_dec (map e_slot W) s = 1%nat /\ Forall (fun x => e_fn x = F) W /\
  ~ In e (g_act (fst (gs_step gs2 (GExec fnx)))) /\ In s (g_inact (fst (gs_step gs2 (GExec fnx)))).
Proof.
  intros Hok Hin Hfns Hnr Htx e gs2 W.
  assert (Hacc := gsmtime_accept gs si F p3 s rest Hin).
  assert (He1 : In e (g_act (fst (gs_step gs (GReq si F p3))))).
  { cbn [gs_step fst]. rewrite Hacc. cbn [fst g_act]. apply (Permutation_in _ (Permutation_sym (ins_sorted_perm _ _))). left. reflexivity. }
  pose proof (gs_step_ok gs (GReq si F p3) Hok) as Hok1.
  destruct (pending_through e mid _ Hok1 He1 Hnr Hfns) as (He2 & Hok2 & Hl2).
  assert (Egs2 : gs2 = fst (gs_run (fst (gs_step gs (GReq si F p3))) mid)).
  { unfold gs2. cbn [gs_run]. destruct (gs_step gs (GReq si F p3)) as [ga la]. cbn [fst]. destruct (gs_run ga mid); reflexivity. }
  split. { cbn [gs_step fst]. rewrite Hacc. reflexivity. }
  split.
  { intros fn fired Hl. cbn [gs_run] in Hl. cbn [gs_step] in Hl. cbn [fst snd] in *.
    destruct (gs_run (fst (sched_gsmtime gs si F p3)) mid) as [gb lb] eqn:Eb. cbn [snd app] in Hl.
    cbn [gs_step fst] in Hl2. rewrite Eb in Hl2. cbn [snd] in Hl2. exact (Hl2 fn fired Hl). }
  unfold W. clearbody gs2. subst gs2. split; [exact Hok2|]. split; [exact He2|].
  pose proof (due_fires _ e fnx Hok2 He2 Htx) as D. cbn zeta in D. exact D.
Qed.

(* the hyperframe clock: j consecutive frame numbers from t on, modulo 2715648 *)
Definition clock (t : Z) (j : nat) : list Z := map (fun i => (t + Z.of_nat i) mod 2715648) (seq 0 j).

Lemma clock_no_target t F j : 0 <= t < 2715648 -> 0 <= F < 2715648 -> Z.of_nat j = (F - 2 - t) mod 2715648 ->
  Forall (fun fn => gexec_target fn <> F) (clock t j) /\ gexec_target ((F - 2) mod 2715648) = F /\ (t + Z.of_nat j) mod 2715648 = (F - 2) mod 2715648.
Proof.
  intros Ht HF Hj. split; [|split].
  - unfold clock. apply Forall_forall. intros fn Hin. apply in_map_iff in Hin as (i & <- & Hi). apply in_seq in Hi.
    rewrite target_clock by lia. intros E.
    assert (Hi' : 0 <= Z.of_nat i < Z.of_nat j) by lia. clear Hi. revert E Hj Hi'. generalize (Z.of_nat i) (Z.of_nat j). intros x y E Hj Hx. lia.
  - rewrite target_clock by lia. lia.
  - lia.
Qed.

(* exactly once, on time, on the hyperframe clock - frames 0 and 1 and stale requests included *)
Lemma on_time gs s rest si t F p3 mid j : gs_ok gs -> g_inact gs = s :: rest ->
  0 <= t < 2715648 -> 0 <= F < 2715648 -> Z.of_nat j = (F - 2 - t) mod 2715648 ->
  exec_fns mid = clock t j -> ~ In GReset mid ->
  let e := {| e_slot := s; e_si := si; e_fn := F; e_p3 := p3 |} in
  let gs2 := fst (gs_run gs (GReq si F p3 :: mid)) in
  let fx := (F - 2) mod 2715648 in
  let W := snd (gwalk (gexec_target fx) (g_act gs2)) in
  fx = (t + Z.of_nat j) mod 2715648 /\
  sched_gsmtime gs si F p3 = (fst (gs_step gs (GReq si F p3)), 0) /\
  (forall fn fired, In (fn, fired) (snd (gs_run gs (GReq si F p3 :: mid))) -> ~ In s (map e_slot fired)) /\
  gs_ok gs2 /\ In e (g_act gs2) /\
  In e W /\ count_occ Nat.eq_dec (map e_slot W) s = 1%nat /\ Forall (fun x => e_fn x = F) W /\
  ~ In e (g_act (fst (gs_step gs2 (GExec fx)))) /\ In s (g_inact (fst (gs_step gs2 (GExec fx)))).
Proof.
  intros Hok Hin Ht HF Hj Hfns Hnr e gs2 fx W.
  destruct (clock_no_target t F j Ht HF Hj) as (Hno & Htx & Hfx). rewrite <- Hfns in Hno.
  split; [symmetry; exact Hfx|]. exact (fires_when_due gs s rest si F p3 mid fx Hok Hin Hno Hnr Htx).
Qed.

(* a request with a frame number outside the hyperframe is never handed over *)
Lemma out_of_range_never fn l e : In e (snd (gwalk (gexec_target fn) l)) -> 0 <= e_fn e < 2715648.
Proof.
  intros Hin. pose proof (gwalk_fired_due (gexec_target fn) l) as HF. rewrite Forall_forall in HF. rewrite (HF e Hin). apply target_range.
Qed.

(* ---- -EBUSY exactly when all 16 slots are pending; reset ---- *)
Lemma ebusy_iff gs : gs_pool gs -> (g_inact gs = [] <-> length (g_act gs) = 16%nat).
Proof.
  intros H. destruct (gs_pool_facts gs H) as (_ & L & _). split; intros E.
  - rewrite E in L. cbn [length] in L. lia.
  - destruct (g_inact gs); [reflexivity|cbn [length] in L; lia].
Qed.

Lemma ebusy_untouched gs si fn p3 : gs_pool gs -> length (g_act gs) = 16%nat -> sched_gsmtime gs si fn p3 = (gs, -16).
Proof. intros H L. apply gsmtime_ebusy. apply ebusy_iff; assumption. Qed.

Lemma accepted_when_free gs si fn p3 : gs_pool gs -> (length (g_act gs) < 16)%nat ->
  exists s rest, g_inact gs = s :: rest /\
    sched_gsmtime gs si fn p3 = ({| g_act := ins_sorted {| e_slot := s; e_si := si; e_fn := fn; e_p3 := p3 |} (g_act gs); g_inact := rest |}, 0).
Proof.
  intros H L. destruct (g_inact gs) as [|s rest] eqn:E; [apply ebusy_iff in E; [lia|exact H]|].
  exists s, rest. split; [reflexivity|]. apply gsmtime_accept. exact E.
Qed.

Lemma reset_spec gs : gs_ok gs ->
  g_act (sched_gsmtime_reset gs) = [] /\ gs_ok (sched_gsmtime_reset gs) /\ Permutation (g_inact (sched_gsmtime_reset gs)) (seq 0 16).
Proof.
  intros H. pose proof (gs_step_ok gs GReset H) as H1. cbn [gs_step fst] in H1. split; [reflexivity|]. split; [exact H1|].
  destruct H1 as (_ & P). unfold gs_pool in P. cbn [sched_gsmtime_reset g_act map app] in P. exact P.
Qed.

(* ---- composition with the TDMA scheduler ---- *)
Lemma single_of (e : gev) (W : list gev) : (forall x, In x W -> x = e) -> NoDup (map e_slot W) -> In e W -> W = [e].
Proof.
  intros Hall ND Hin. destruct W as [|a [|b r]]; [destruct Hin| |].
  - rewrite (Hall a (or_introl eq_refl)). reflexivity.
  - exfalso. pose proof (Hall a (or_introl eq_refl)). pose proof (Hall b (or_intror (or_introl eq_refl))). subst a b.
    cbn [map] in ND. apply NoDup_cons_iff in ND as (Hn & _). apply Hn. left. reflexivity.
Qed.

(* the execute of frame F - 2, e the only pending event for frame F: exactly tdma_schedule_set(1, si, p3) happens to the TDMA scheduler *)
Lemma handover_single ts gs e fn : gs_ok gs -> In e (g_act gs) -> gexec_target fn = e_fn e ->
  (forall x, In x (g_act gs) -> e_fn x = e_fn e -> x = e) ->
  sched_gsmtime_execute ts gs fn =
    match tdma_schedule_set ts 1 (e_si e) (e_p3 e) with
    | Ok (ts', rc) => Ok (ts', fst (gs_step gs (GExec fn)), 1, [(e, rc)])
    | OOB => OOB
    | NullCall => NullCall
    end.
Proof.
  intros Hok He Ht Hu. pose proof Hok as (Hs & Hp).
  destruct (due_fires gs e fn Hok He Ht) as (HinW & _ & HallW & _).
  assert (EW : snd (gwalk (gexec_target fn) (g_act gs)) = [e]).
  { apply single_of; [| |exact HinW].
    - intros x Hx. apply Hu; [|rewrite Forall_forall in HallW; apply HallW; exact Hx].
      rewrite (gwalk_sorted _ _ Hs) in Hx. cbn [snd] in Hx. apply filter_In in Hx. apply Hx.
    - rewrite (gwalk_sorted _ _ Hs). cbn [snd]. apply nodup_map_filter. apply act_slots_nodup. exact Hp. }
  unfold sched_gsmtime_execute. rewrite walk_split, EW. cbn [hand_over]. rewrite gexec_offset_1.
  destruct (tdma_schedule_set ts 1 (e_si e) (e_p3 e)) as [[ts1 rc]| |]; try reflexivity.
  cbn [gs_step fst]. rewrite EW. reflexivity.
Qed.

(* ... hence every item of the event's set runs in frame F - 1 + k (k = its frame inside the set): it sits in a slot of the TDMA frame
   1 + k ahead, and the execute that follows exactly 1 + k advances runs that slot exactly once *)
Lemma event_items_on_time rcf ts gs e fn plan ts' k idx it tail :
  wf ts -> cbs_ok ts -> all_st no16 ts -> (forall x, 0 <= rcf x) ->
  gs_ok gs -> In e (g_act gs) -> gexec_target fn = e_fn e -> (forall x, In x (g_act gs) -> e_fn x = e_fn e -> x = e) ->
  set_plan 0 (e_si e) (e_p3 e) = Some plan -> 1 + set_nframes (e_si e) < 25 -> Forall no16 (e_si e) ->
  tdma_schedule_set ts 1 (e_si e) (e_p3 e) = Ok (ts', set_nframes (e_si e)) ->
  0 <= k -> 1 + k < 25 -> nth_error (plan_frame plan k) idx = Some it ->
  let gs' := fst (gs_step gs (GExec fn)) in
  let mid := expand gs' tail in
  Forall op_ok mid -> Forall (all_op no16) mid -> advances mid = 1 + k -> ~ In OReset mid ->
  (forall a b, mid = a ++ OExecute :: b -> advances a < 1 + k) ->
  sched_gsmtime_execute ts gs fn = Ok (ts', gs', 1, [(e, set_nframes (e_si e))]) /\
  exists os s3 s4 lg extra,
    run_sp rcf ts' mid = (os, FOk s3) /\
    nth_error (bucket_due s3 0) (length (bucket_due ts (1 + k)) + idx)%nat = Some it /\
    tdma_sched_execute_sp rcf s3 = SXOk s4 lg (Z.of_nat (length (bucket_due s3 0) + length extra)) /\
    calls lg = exec_order (bucket_due s3 0) ++ extra /\ Forall childlike extra /\
    count_occ Nat.eq_dec (slot_order (bucket_due s3 0)) (length (bucket_due ts (1 + k)) + idx)%nat = 1%nat /\
    bucket_due s4 0 = [].
Proof.
  intros Hwf Hcb Hno Hr Hok He Ht Hu Hp Hnf Hs16 Eset Hk0 Hk Hit gs' mid HF HF16 Hadv Hnr Hex.
  split. { rewrite (handover_single ts gs e fn Hok He Ht Hu), Eset. reflexivity. }
  assert (Hopok : op_ok (OSet 1 (e_si e) (e_p3 e))) by (cbn [op_ok]; split; [lia|split; [lia|exists plan; exact Hp]]).
  destruct (step_sp_ok rcf ts (OSet 1 (e_si e) (e_p3 e)) Hwf Hcb Hopok) as (ts1 & b & Es & W1 & K1).
  cbn [step_sp] in Es. rewrite Eset in Es. injection Es as <- _.
  assert (N1 : all_st no16 ts').
  { unfold tdma_schedule_set in Eset. eapply (sched_set_all no16); [|exact Hno|exact Hs16|exact Eset]. intros x Hx. exact Hx. }
  destruct (set_offsets ts 1 (e_si e) (e_p3 e) plan Hwf ltac:(lia) Hnf Hp) as (_ & Hplace).
  destruct (Hplace ts' Eset) as (_ & Hd).
  assert (Hh : nth_error (bucket_due ts' (1 + k)) (length (bucket_due ts (1 + k)) + idx)%nat = Some it).
  { rewrite (Hd (1 + k) ltac:(lia)). rewrite nth_error_app2 by lia.
    replace (length (bucket_due ts (1 + k)) + idx - length (bucket_due ts (1 + k)))%nat with idx by lia.
    replace (1 + k - 1) with k by lia. exact Hit. }
  exact (held_runs_on_time rcf ts' (1 + k) _ it mid W1 K1 N1 Hr ltac:(lia) Hh HF HF16 Hadv Hnr Hex).
Qed.

(* ---- the hyperframe wrap ---- *)
(* n frame interrupts as l1_sync() does them, the frame number counting modulo the hyperframe *)
Fixpoint frames (n : nat) (fn : Z) : list gop :=
  match n with
  | O => []
  | S m => GT OExecute :: GExec fn :: GT OAdvance :: frames m ((fn + 1) mod 2715648)
  end.

Definition ex_set_b : list item := [ex_item 3 3 33 0 0; ex_item 0 0 0 0 0; ex_item 1 0 0 0 0].
Definition ex_set_a : list item := [ex_item 2 1 11 0 0; ex_item 0 0 0 0 0; ex_item 4 2 22 0 0; ex_item 0 0 0 0 0; ex_item 1 0 0 0 0].

(* what ran in which frame interrupt (index from 0), empty interrupts dropped *)
Fixpoint ran (i : Z) (obs : list gobs) : list (Z * list item) :=
  match obs with
  | [] => []
  | QT (PExec lg _) :: r => (match calls lg with [] => [] | c => [(i, c)] end) ++ ran (i + 1) r
  | _ :: r => ran i r
  end.

(* non-vacuity across the wrap: frame 2715640, events requested for the frames 0, 1, 2 and 2715647 of the clock (8, 9, 10, 7 frames
   ahead): handed over by the executes of the frames 2715646, 2715647, 0, 2715645 (interrupts 6, 7, 8, 5), their items run one interrupt
   later (frame F - 1); a STALE request (frame 2715639, already passed) is still pending after these 40 interrupts and keeps its slot:
   it fires when the clock comes round, a hyperframe later *)
Example ex_gsm_wrap :
  match g_run ex_rcf (init 7) gs_init
          (GReq ex_set_b 0 70 :: GReq ex_set_b 1 71 :: GReq ex_set_b 2 72 :: GReq ex_set_b 2715647 73 :: GReq ex_set_b 2715639 74 :: frames 40 2715640) with
  | (obs, GFOk ts gs) => (ran 0 obs, map (map e_fn) (firstn 10 (qlog obs)), map e_fn (g_act gs), length (g_inact gs))
  | _ => ([], [], [], O)
  end = ([(6, [ex_item 3 3 33 73 0]); (7, [ex_item 3 3 33 70 0]); (8, [ex_item 3 3 33 71 0]); (9, [ex_item 3 3 33 72 0])],
         [[]; []; []; []; []; [2715647]; [0]; [1]; [2]; []], [2715639], 15%nat).
Proof. vm_compute. reflexivity. Qed.

Example ex_gsm_wrap_hypotheses :
  gs_ok gs_init /\ g_inact gs_init = 15%nat :: rev (seq 0 15) /\ Z.of_nat 6 = (0 - 2 - 2715640) mod 2715648 /\
  exec_fns (frames 6 2715640) = clock 2715640 6 /\ ~ In GReset (frames 6 2715640) /\ (0 - 2) mod 2715648 = 2715646.
Proof.
  split; [exact gs_init_ok|]. split; [reflexivity|]. split; [reflexivity|]. split; [reflexivity|]. split; [|reflexivity].
  intros H. vm_compute in H. repeat (destruct H as [H|H]; [discriminate|]). exact H.
Qed.

(* ---- non-vacuity: requests in descending frame order (230, then 220, then one more for 230), 35 frame interrupts from frame 200 ---- *)
Example ex_gsm_descending :
  match g_run ex_rcf (init 23) gs_init
          (GReq ex_set_a 230 771 :: GReq ex_set_b 220 772 :: GReq ex_set_b 230 773 :: frames 35 200) with
  | (obs, GFOk ts gs) => (ran 0 obs, map e_fn (g_act gs), g_inact gs)
  | _ => ([], [], [])
  end = ([(19, [ex_item 3 3 33 772 0]);                                (* frame 219 = 220 - 1 *)
          (29, [ex_item 2 1 11 771 0; ex_item 3 3 33 773 0]);          (* frame 229: both events for 230, request order *)
          (30, [ex_item 4 2 22 771 0])],                               (* frame 230: second frame of set a *)
         [], [13; 15; 14; 12; 11; 10; 9; 8; 7; 6; 5; 4; 3; 2; 1; 0]%nat).
Proof. vm_compute. reflexivity. Qed.

Example ex_gsm_on_time_hypotheses :
  gs_ok gs_init /\ g_inact gs_init = 15%nat :: rev (seq 0 15) /\ Z.of_nat 28 = (230 - 2 - 200) mod 2715648 /\
  exec_fns (GReq ex_set_b 220 772 :: frames 28 200) = clock 200 28 /\ ~ In GReset (GReq ex_set_b 220 772 :: frames 28 200).
Proof.
  split; [exact gs_init_ok|]. split; [reflexivity|]. split; [reflexivity|]. split; [reflexivity|].
  intros H. vm_compute in H. repeat (destruct H as [H|H]; [discriminate|]). exact H.
Qed.

(* 17 requests: the 17th answers -EBUSY and changes nothing *)
Example ex_gsm_ebusy :
  let gs16 := fst (gs_run gs_init (map (fun i => GReq ex_set_b (100 + Z.of_nat i) 5) (seq 0 16))) in
  (length (g_act gs16), g_inact gs16, sched_gsmtime gs16 ex_set_b 50 5) = (16%nat, [], (gs16, -16)).
Proof. vm_compute. reflexivity. Qed.
