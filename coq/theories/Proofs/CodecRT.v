(* C16 stages 2-5, direction encode -> decode: for every definition (flat, bit-field sets, nesting, sequences,
   presence / length callbacks) decoding the encoding of fitting values returns those values and consumes exactly
   the octets of the encoding.  `fits` puts well-formedness, "the values fit" and "what the decoder will store"
   into one inductive relation over the nested definition. *)
From Coq Require Import ZArith List Bool Lia.
From OBB Require Import Base.Bits Model.Codec Proofs.CodecInt Proofs.CodecBits.
Import ListNotations.
Open Scope Z_scope.

(* ---------------------------------------------------------------- small inversion lemmas *)
Lemma bind_ok {A B} (r:res A) (f:A -> res B) b : (x <- r ;; f x) = Ok b -> exists a, r = Ok a /\ f a = Ok b.
Proof. destruct r; cbn [bind]; try discriminate. eauto. Qed.
Lemma wrapE_ok {A} (r:res A) b : wrapE r = Ok b -> r = Ok b.
Proof. destruct r; cbn [wrapE]; try discriminate. auto. Qed.
Lemma wrapD_ok {A} (r:res A) b : wrapD r = Ok b -> r = Ok b.
Proof. destruct r; cbn [wrapD]; try discriminate. auto. Qed.

Lemma firstn_app_len {A} (a b:list A) : firstn (length a) (a ++ b) = a.
Proof. rewrite firstn_app, Nat.sub_diag, firstn_all. cbn. apply app_nil_r. Qed.
Lemma skipn_app_len {A} (a b:list A) : skipn (length a) (a ++ b) = b.
Proof. rewrite skipn_app, Nat.sub_diag, skipn_all. reflexivity. Qed.

Lemma enc_cons_inv k f fs e b : enc (S k) (f :: fs) e = Ok b ->
  exists here br, enc_field (enc k) f e = Ok here /\ enc k fs e = Ok br /\ b = here ++ br.
Proof.
  cbn [enc]. intros H. apply bind_ok in H as [here [Hh H]]. apply bind_ok in H as [br [Hr H]].
  injection H as <-. apply wrapE_ok in Hh. eauto.
Qed.

Lemma enc_field_inv rec f e here : enc_field rec f e = Ok here ->
  (get_pres (fpres f) e = Ok false /\ here = []) \/
  (get_pres (fpres f) e = Ok true /\ enc_payload rec f e = Ok here /\ (fixlen_f f = O \/ fixlen_f f = length here)).
Proof.
  unfold enc_field. intros H. apply bind_ok in H as [pr [Hp H]]. destruct pr; cbn [negb] in H.
  - right. apply bind_ok in H as [data [Hd H]]. destruct (fixlen_f f) as [|n] eqn:En.
    + injection H as <-. auto.
    + destruct (Nat.eqb (length data) (S n)) eqn:E; [|discriminate]. injection H as <-. apply Nat.eqb_eq in E. auto.
  - left. injection H as <-. auto.
Qed.

Lemma get_len_fixlen l e L n : get_len l e L = Ok n -> fixlen l = O \/ fixlen l = n.
Proof. destruct l as [[|m]| | |]; cbn [get_len fixlen]; intros H; try (left; reflexivity). right. congruence. Qed.

Lemma get_len_fix n e L : (1 <= n)%nat -> get_len (LFix n) e L = Ok n.
Proof. destruct n; [lia|reflexivity]. Qed.

(* one present field decoded from exactly its own chunk followed by anything *)
Lemma dec_field_present recd recs f e0 here tail e0' :
  get_pres (fpres f) e0 = Ok true -> get_len_f f e0 (length (here ++ tail)) = Ok (length here) ->
  dec_payload recd recs f e0 here = Ok e0' ->
  dec_field recd recs f e0 (here ++ tail) = Ok (e0', length here).
Proof.
  intros Hp Hl Hd. unfold dec_field. rewrite Hp. cbn [bind negb]. rewrite Hl. cbn [bind].
  replace (Nat.ltb (length (here ++ tail)) (length here)) with false by (symmetry; apply Nat.ltb_ge; rewrite app_length; lia).
  rewrite firstn_app_len, Hd. reflexivity.
Qed.

Lemma dec_step kd f fs e0 here tail e0' r :
  dec_field (dec kd) (dec_seq kd) f e0 (here ++ tail) = Ok (e0', length here) ->
  dec kd fs e0' tail = Ok r ->
  dec (S kd) (f :: fs) e0 (here ++ tail) = Ok (fst r, (length here + snd r)%nat).
Proof. intros H1 H2. cbn [dec]. rewrite H1. cbn [bind fst snd]. rewrite skipn_app_len, H2. reflexivity. Qed.

(* ---------------------------------------------------------------- the fits relation
   fits fs e e0 R cv u : encoding fs from dict e succeeds with u octets, and decoding those octets followed by
   R more, starting from the dict e0, appends cv.  One constructor per field kind; nested bodies are premises. *)
Inductive fits : list field -> env -> env -> nat -> env -> nat -> Prop :=
| fits_nil e e0 R : fits [] e e0 R [] 0
| fits_absent f fs e e0 R cv u :
    get_pres (fpres f) e = Ok false -> get_pres (fpres f) e0 = Ok false ->
    fits fs e e0 R cv u -> fits (f :: fs) e e0 R cv u
| fits_uint nm n p le sg off mult raw fs e e0 R cv u :
    get_pres p e = Ok true -> get_pres p e0 = Ok true ->
    (1 <= n)%nat -> mult <> 0 -> lookup nm e = Some (VInt (raw * mult + off)) -> int_range n sg raw ->
    fits fs e (e0 ++ [(nm, VInt (raw * mult + off))]) R cv u ->
    fits (FUint nm (LFix n) p le sg off mult :: fs) e e0 R ((nm, VInt (raw * mult + off)) :: cv) (n + u)
| fits_buf nm l p b fs e e0 R cv u :
    get_pres p e = Ok true -> get_pres p e0 = Ok true ->
    lookup nm e = Some (VBytes b) -> get_len l e0 (length b + u + R) = Ok (length b) ->
    fits fs e (e0 ++ [(nm, VBytes b)]) R cv u ->
    fits (FBuf nm l p :: fs) e e0 R ((nm, VBytes b) :: cv) (length b + u)
| fits_spare l p filler n fs e e0 R cv u :
    get_pres p e = Ok true -> get_pres p e0 = Ok true ->
    get_len l e O = Ok n -> get_len l e0 (n + u + R) = Ok n ->
    fits fs e e0 R cv u ->
    fits (FSpare l p filler :: fs) e e0 R cv (n + u)
| fits_bits l p lsb bfs bcv fs e e0 R cv u :
    get_pres p e = Ok true -> get_pres p e0 = Ok true ->
    bits_wf l bfs -> bits_fit (bits_order lsb bfs) e bcv ->
    fits fs e (e0 ++ bcv) R cv u ->
    fits (FBits l p lsb bfs :: fs) e e0 R (bcv ++ cv) (bits_len l bfs + u)
| fits_envf nm l p chk body d dcv n fs e e0 R cv u :
    get_pres p e = Ok true -> get_pres p e0 = Ok true ->
    lookup nm e = Some (VDict d) -> fits body d [] 0 dcv n -> NoDup (keys dcv) ->
    get_len l e0 (n + u + R) = Ok n ->
    fits fs e (e0 ++ [(nm, VDict dcv)]) R cv u ->
    fits (FEnv nm l p chk body :: fs) e e0 R ((nm, VDict dcv) :: cv) (n + u)
| fits_seqf nm l p item vs vcs n fs e e0 R cv u :
    get_pres p e = Ok true -> get_pres p e0 = Ok true ->
    lookup nm e = Some (VList vs) -> fits_items item vs vcs n ->
    get_len l e0 (n + u + R) = Ok n ->
    fits fs e (e0 ++ [(nm, VList vcs)]) R cv u ->
    fits (FSeq nm l p item :: fs) e e0 R ((nm, VList vcs) :: cv) (n + u)
(* the items of a sequence: each item is followed by the encodings of the later items and consumes >= 1 octet *)
with fits_items : list field -> list val -> list val -> nat -> Prop :=
| fi_nil item : fits_items item [] [] 0
| fi_cons item d dcv ui vs vcs us :
    fits item d [] us dcv ui -> NoDup (keys dcv) -> (1 <= ui)%nat ->
    fits_items item vs vcs us ->
    fits_items item (VDict d :: vs) (VDict dcv :: vcs) (ui + us).

Scheme fits_min := Minimality for fits Sort Prop
  with fits_items_min := Minimality for fits_items Sort Prop.
Combined Scheme fits_mutind from fits_min, fits_items_min.

Lemma fresh_of_nodup cv : NoDup (keys cv) -> fresh [] cv.
Proof. intros H. split; [exact H|reflexivity]. Qed.

Lemma lsize_cons f fs : lsize (f :: fs) = (fsize f + lsize fs)%nat.
Proof. reflexivity. Qed.
Lemma fsize_pos f : (1 <= fsize f)%nat.
Proof. destruct f; cbn [fsize]; lia. Qed.

Definition P_fits (fs:list field) (e e0:env) (R:nat) (cv:env) (u:nat) : Prop :=
  forall fe b, enc fe fs e = Ok b ->
  length b = u /\
  (fresh e0 cv -> forall fd rest, length rest = R -> (lsize fs + length (b ++ rest) < fd)%nat ->
    dec fd fs e0 (b ++ rest) = Ok (e0 ++ cv, length b)).
Definition P_items (item:list field) (vs vcs:list val) (n:nat) : Prop :=
  forall fe b, enc_items (enc fe item) vs = Ok b ->
  length b = n /\ forall fd, (lsize item + length b + 1 < fd)%nat -> dec_seq fd item b = Ok vcs.

Ltac fuel_S fd Hfd := destruct fd as [|fd]; [exfalso; clear - Hfd; lia|].

Lemma enc_dec_mut :
  (forall fs e e0 R cv u, fits fs e e0 R cv u -> P_fits fs e e0 R cv u) /\
  (forall item vs vcs n, fits_items item vs vcs n -> P_items item vs vcs n).
Proof.
  apply fits_mutind; unfold P_fits, P_items.
  - (* nil *) intros e e0 R fe b Henc. destruct fe; [discriminate|]. cbn [enc] in Henc. injection Henc as <-.
    split; [reflexivity|]. intros _ fd rest _ Hfd. fuel_S fd Hfd. cbn [dec app]. rewrite app_nil_r. reflexivity.
  - (* absent *) intros f fs e e0 R cv u Hpe Hp0 _ IH fe b Henc. destruct fe as [|ke]; [discriminate|].
    apply enc_cons_inv in Henc as [here [br [Hh [Hr ->]]]].
    apply enc_field_inv in Hh as [[_ ->]|[Hc _]]; [|congruence].
    destruct (IH ke br Hr) as [Hlen Hdec]. cbn [app]. split; [exact Hlen|].
    intros Hfr fd rest HR Hfd. fuel_S fd Hfd. cbn [dec]. unfold dec_field. rewrite Hp0. cbn [bind negb fst snd skipn].
    rewrite lsize_cons in Hfd. pose proof (fsize_pos f).
    rewrite (Hdec Hfr fd rest HR) by lia. reflexivity.
  - (* uint *) intros nm n p le sg off mult raw fs e e0 R cv u Hpe Hp0 Hn Hm Hl Hrange _ IH fe b Henc.
    destruct fe as [|ke]; [discriminate|].
    apply enc_cons_inv in Henc as [here [br [Hh [Hr ->]]]].
    apply enc_field_inv in Hh as [[Hc _]|[_ [Hpay _]]]; [cbn [fpres] in Hc; congruence|].
    cbn [enc_payload] in Hpay. rewrite Hl in Hpay. destruct (Z.eqb_spec mult 0) as [|_]; [contradiction|].
    rewrite offmult_rt in Hpay by exact Hm. cbn [fixlen] in Hpay.
    destruct (int_rt _ _ _ _ _ Hn Hpay) as [Hdi [Hlh _]].
    destruct (IH ke br Hr) as [Hlen Hdec]. split; [rewrite app_length; lia|].
    intros Hfr fd rest HR Hfd. destruct (fresh_cons _ _ _ _ Hfr) as [Hk Hfr'].
    fuel_S fd Hfd. rewrite <- app_assoc.
    rewrite lsize_cons in Hfd. cbn [fsize] in Hfd. rewrite <- app_assoc in Hfd. rewrite app_length in Hfd.
    erewrite dec_step; cycle 1.
    + apply dec_field_present; [exact Hp0| |].
      * cbn [get_len_f flen]. rewrite Hlh. apply get_len_fix, Hn.
      * cbn [dec_payload]. rewrite Hdi, eset_fresh by exact Hk. reflexivity.
    + apply Hdec; [exact Hfr'|exact HR|lia].
    + cbn [fst snd]. rewrite <- app_assoc, app_length. reflexivity.
  - (* buf *) intros nm l p bb fs e e0 R cv u Hpe Hp0 Hl Hgl _ IH fe b Henc.
    destruct fe as [|ke]; [discriminate|].
    apply enc_cons_inv in Henc as [here [br [Hh [Hr ->]]]].
    apply enc_field_inv in Hh as [[Hc _]|[_ [Hpay _]]]; [cbn [fpres] in Hc; congruence|].
    cbn [enc_payload] in Hpay. rewrite Hl in Hpay. injection Hpay as <-.
    destruct (IH ke br Hr) as [Hlen Hdec]. split; [rewrite app_length; lia|].
    intros Hfr fd rest HR Hfd. destruct (fresh_cons _ _ _ _ Hfr) as [Hk Hfr'].
    fuel_S fd Hfd. rewrite <- app_assoc.
    rewrite lsize_cons in Hfd. cbn [fsize] in Hfd. rewrite <- app_assoc in Hfd. rewrite app_length in Hfd.
    erewrite dec_step; cycle 1.
    + apply dec_field_present; [exact Hp0| |].
      * cbn [get_len_f flen]. replace (length (bb ++ br ++ rest)) with (length bb + u + R)%nat by (rewrite !app_length; lia). exact Hgl.
      * cbn [dec_payload]. rewrite eset_fresh by exact Hk. reflexivity.
    + apply Hdec; [exact Hfr'|exact HR|lia].
    + cbn [fst snd]. rewrite <- app_assoc, app_length. reflexivity.
  - (* spare *) intros l p filler n fs e e0 R cv u Hpe Hp0 Hge Hg0 _ IH fe b Henc.
    destruct fe as [|ke]; [discriminate|].
    apply enc_cons_inv in Henc as [here [br [Hh [Hr ->]]]].
    apply enc_field_inv in Hh as [[Hc _]|[_ [Hpay _]]]; [cbn [fpres] in Hc; congruence|].
    cbn [enc_payload] in Hpay. rewrite Hge in Hpay. cbn [bind] in Hpay. injection Hpay as <-.
    destruct (IH ke br Hr) as [Hlen Hdec]. split; [rewrite app_length, repeat_length; lia|].
    intros Hfr fd rest HR Hfd. fuel_S fd Hfd. rewrite <- app_assoc.
    rewrite lsize_cons in Hfd. cbn [fsize] in Hfd. rewrite <- app_assoc in Hfd. rewrite app_length in Hfd.
    erewrite dec_step; cycle 1.
    + apply dec_field_present; [exact Hp0| |].
      * cbn [get_len_f flen]. rewrite repeat_length.
        replace (length (repeat filler n ++ br ++ rest)) with (n + u + R)%nat by (rewrite !app_length, repeat_length; lia). exact Hg0.
      * reflexivity.
    + apply Hdec; [exact Hfr|exact HR|lia].
    + cbn [fst snd]. rewrite app_length. reflexivity.
  - (* bits *) intros l p lsb bfs bcv fs e e0 R cv u Hpe Hp0 Hwf Hbf _ IH fe b Henc.
    destruct fe as [|ke]; [discriminate|].
    apply enc_cons_inv in Henc as [here [br [Hh [Hr ->]]]].
    apply enc_field_inv in Hh as [[Hc _]|[_ [Hpay _]]]; [cbn [fpres] in Hc; congruence|].
    destruct (bits_enc l lsb bfs e bcv Hwf Hbf) as [Hb1 [Hb2 _]].
    cbn [enc_payload] in Hpay. rewrite Hb1 in Hpay. cbn [bind] in Hpay. rewrite Hb2 in Hpay.
    assert (Eh : here = to_be (bits_len l bfs) (packed (bits_order lsb bfs) e (8 * Z.of_nat (bits_len l bfs)))) by congruence. subst here. clear Hpay.
    destruct (IH ke br Hr) as [Hlen Hdec]. split; [rewrite app_length, to_be_length; lia|].
    intros Hfr fd rest HR Hfd. destruct (fresh_app _ _ _ Hfr) as [Hfb Hfr'].
    destruct (bits_enc_dec l lsb bfs e bcv e0 Hwf Hbf Hfb) as [blob [bb [Hc1 [Hc2 [Hc3 [_ Hc5]]]]]].
    rewrite Hb1 in Hc1. assert (Eblob : blob = packed (bits_order lsb bfs) e (8 * Z.of_nat (bits_len l bfs))) by congruence. subst blob.
    rewrite Hb2 in Hc2. assert (Ebb : bb = to_be (bits_len l bfs) (packed (bits_order lsb bfs) e (8 * Z.of_nat (bits_len l bfs)))) by congruence. subst bb.
    fuel_S fd Hfd. rewrite <- app_assoc.
    rewrite lsize_cons in Hfd. cbn [fsize] in Hfd. rewrite <- app_assoc in Hfd. rewrite app_length in Hfd.
    erewrite dec_step; cycle 1.
    + apply dec_field_present; [exact Hp0| |].
      * cbn [get_len_f]. rewrite Hc3. reflexivity.
      * cbn [dec_payload]. exact Hc5.
    + apply Hdec; [exact Hfr'|exact HR|lia].
    + cbn [fst snd]. rewrite <- app_assoc, app_length. reflexivity.
  - (* nested envelope *) intros nm l p chk body d dcv n fs e e0 R cv u Hpe Hp0 Hl _ IHb Hnd Hgl _ IH fe b Henc.
    destruct fe as [|ke]; [discriminate|].
    apply enc_cons_inv in Henc as [here [br [Hh [Hr ->]]]].
    apply enc_field_inv in Hh as [[Hc _]|[_ [Hpay _]]]; [cbn [fpres] in Hc; congruence|].
    cbn [enc_payload] in Hpay. rewrite Hl in Hpay. apply wrapE_ok in Hpay.
    destruct (IHb ke here Hpay) as [Hlb Hdb]. specialize (Hdb (fresh_of_nodup _ Hnd)).
    destruct (IH ke br Hr) as [Hlen Hdec]. split; [rewrite app_length; lia|].
    intros Hfr fd rest HR Hfd. destruct (fresh_cons _ _ _ _ Hfr) as [Hk Hfr'].
    fuel_S fd Hfd. rewrite <- app_assoc.
    rewrite lsize_cons in Hfd. cbn [fsize] in Hfd. fold (lsize body) in Hfd. rewrite <- app_assoc in Hfd. rewrite app_length in Hfd.
    erewrite dec_step; cycle 1.
    + apply dec_field_present; [exact Hp0| |].
      * cbn [get_len_f flen]. replace (length (here ++ br ++ rest)) with (n + u + R)%nat by (rewrite !app_length; lia).
        rewrite Hlb. exact Hgl.
      * cbn [dec_payload]. specialize (Hdb fd [] eq_refl). rewrite app_nil_r in Hdb. rewrite Hdb by lia.
        cbn [wrapD bind fst snd app]. rewrite Nat.eqb_refl. cbn [negb]. rewrite andb_false_r.
        rewrite eset_fresh by exact Hk. reflexivity.
    + apply Hdec; [exact Hfr'|exact HR|lia].
    + cbn [fst snd]. rewrite <- app_assoc, app_length. reflexivity.
  - (* sequence *) intros nm l p item vs vcs n fs e e0 R cv u Hpe Hp0 Hl _ IHi Hgl _ IH fe b Henc.
    destruct fe as [|ke]; [discriminate|].
    apply enc_cons_inv in Henc as [here [br [Hh [Hr ->]]]].
    apply enc_field_inv in Hh as [[Hc _]|[_ [Hpay _]]]; [cbn [fpres] in Hc; congruence|].
    cbn [enc_payload] in Hpay. rewrite Hl in Hpay.
    destruct (IHi ke here Hpay) as [Hlb Hdb].
    destruct (IH ke br Hr) as [Hlen Hdec]. split; [rewrite app_length; lia|].
    intros Hfr fd rest HR Hfd. destruct (fresh_cons _ _ _ _ Hfr) as [Hk Hfr'].
    fuel_S fd Hfd. rewrite <- app_assoc.
    rewrite lsize_cons in Hfd. cbn [fsize] in Hfd. fold (lsize item) in Hfd. rewrite <- app_assoc in Hfd. rewrite app_length in Hfd.
    erewrite dec_step; cycle 1.
    + apply dec_field_present; [exact Hp0| |].
      * cbn [get_len_f flen]. replace (length (here ++ br ++ rest)) with (n + u + R)%nat by (rewrite !app_length; lia).
        rewrite Hlb. exact Hgl.
      * cbn [dec_payload]. rewrite Hdb by lia. cbn [bind]. rewrite eset_fresh by exact Hk. reflexivity.
    + apply Hdec; [exact Hfr'|exact HR|lia].
    + cbn [fst snd]. rewrite <- app_assoc, app_length. reflexivity.
  - (* no item *) intros item fe b Henc. cbn [enc_items] in Henc. injection Henc as <-. split; [reflexivity|].
    intros fd Hfd. fuel_S fd Hfd. reflexivity.
  - (* one more item *) intros item d dcv ui vs vcs us _ IHd Hnd Hui _ IHr fe b Henc.
    cbn [enc_items] in Henc. apply bind_ok in Henc as [b1 [H1 Henc]]. apply wrapE_ok in H1.
    apply bind_ok in Henc as [bs [Hs Henc]]. injection Henc as <-.
    destruct (IHd fe b1 H1) as [Hl1 Hd1]. specialize (Hd1 (fresh_of_nodup _ Hnd)).
    destruct (IHr fe bs Hs) as [Hls Hds]. split; [rewrite app_length; lia|].
    intros fd Hfd. fuel_S fd Hfd. rewrite app_length in Hfd.
    cbn [dec_seq]. destruct (b1 ++ bs) as [|x xs] eqn:Eb.
    { apply (f_equal (@length Z)) in Eb. rewrite app_length in Eb. cbn [length] in Eb. lia. }
    rewrite <- Eb. rewrite (Hd1 fd bs Hls) by (rewrite app_length; lia).
    cbn [wrapD bind fst snd app]. destruct (length b1) as [|m] eqn:Em; [lia|].
    rewrite <- Em, skipn_app_len. rewrite Hds by lia. reflexivity.
Qed.

(* ---------------------------------------------------------------- the theorem at the Envelope API *)
Definition wf_values (fs:list field) (e cv:env) (u:nat) : Prop := fits fs e [] 0 cv u /\ NoDup (keys cv).

Lemma enc_dec_fuel fs e cv u fe b : wf_values fs e cv u -> enc fe fs e = Ok b ->
  length b = u /\ forall fd, (lsize fs + length b < fd)%nat -> dec fd fs [] b = Ok (cv, length b).
Proof.
  intros [Hf Hnd] Henc. destruct (proj1 enc_dec_mut _ _ _ _ _ _ Hf fe b Henc) as [Hl Hd].
  split; [exact Hl|]. intros fd Hfd. specialize (Hd (fresh_of_nodup _ Hnd) fd [] eq_refl). rewrite app_nil_r in Hd. apply Hd. exact Hfd.
Qed.

(* decode (encode v) = v, consuming exactly |encoding| octets, with and without the tail check *)
Lemma enc_dec_top fs e cv u b chk : wf_values fs e cv u -> encode fs e = Ok b ->
  decode chk fs b = Ok (cv, length b) /\ length b = u.
Proof.
  intros Hwf Henc. unfold encode in Henc. unfold decode. destruct (proto_ok fs); [|discriminate].
  apply wrapE_ok in Henc. destruct (enc_dec_fuel _ _ _ _ _ _ Hwf Henc) as [Hl Hd]. split; [|exact Hl].
  rewrite Hd by (unfold dec_fuel; lia). cbn [wrapD bind fst snd]. rewrite Nat.eqb_refl. cbn [negb]. rewrite andb_false_r. reflexivity.
Qed.
