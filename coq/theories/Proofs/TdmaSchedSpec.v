(* C08: the notions the property theorems are stated with (definitions only; protocol numbers 25 and 8 are literal here).
   - well-formed scheduler states, the frame-relative view of the ring ("the bucket that is due in d frames"),
   - what a scheduler set means (its plan: which item goes how many frames after the first),
   - valid histories, and
   - the abstract specification: a multiset of (frames-until-due, item). *)
From Coq Require Import ZArith List Bool Lia Permutation Sorted.
From OBB Require Import Model.TdmaSched.
Import ListNotations.
Open Scope Z_scope.

(* ---- states ---- *)
Definition wf (st : sched) : Prop :=
  length (s_bk st) = 25%nat /\ 0 <= s_cur st < 25 /\ Forall (fun b => (length b <= 8)%nat) (s_bk st).

(* no stored NULL callback (tdma_schedule(…, NULL, …) is a caller error: execute would jump to address 0) *)
Definition cbs_ok (st : sched) : Prop := Forall (Forall (fun it => i_cb it <> 0)) (s_bk st).

Definition bucket_abs (st : sched) (j : Z) : list item := nth (Z.to_nat j) (s_bk st) [].
(* the items that will be due in d frames, in the order they were stored *)
Definition bucket_due (st : sched) (d : Z) : list item := bucket_abs st ((s_cur st + d) mod 25).

(* ---- sets: SCHED_END_FRAME (cb = NULL = 0) moves to the next frame, SCHED_END_SET (cb = &tdma_end_set = 1) ends the set ---- *)
Fixpoint set_plan (k : Z) (set : list item) (p3 : Z) : option (list (Z * item)) :=
  match set with
  | [] => None
  | it :: r =>
    if i_cb it =? 1 then Some []
    else if i_cb it =? 0 then set_plan (k + 1) r p3
    else match set_plan k r p3 with Some pl => Some ((k, with_p3 it p3) :: pl) | None => None end
  end.

Fixpoint set_nframes (set : list item) : Z :=
  match set with
  | [] => 0
  | it :: r => if i_cb it =? 1 then 0 else if i_cb it =? 0 then 1 + set_nframes r else set_nframes r
  end.

(* scheduling the items of a plan one by one with tdma_schedule, frame k of the set at offset off + k; stops at the first refusal *)
Fixpoint place (st : sched) (off : Z) (plan : list (Z * item)) (ret : Z) : res (sched * Z) :=
  match plan with
  | [] => Ok (st, ret)
  | (k, it) :: r =>
    match tdma_schedule st (off + k) it with
    | Ok (st', rc) => if rc =? 0 then place st' off r ret else Ok (st', -1)
    | OOB => OOB
    | NullCall => NullCall
    end
  end.

(* ---- histories ---- *)
Definition op_ok (o : op) : Prop :=
  match o with
  | OSched off it => 0 <= off < 25 /\ i_cb it <> 0
  | OSet off set p3 => 0 <= off /\ off + set_nframes set < 25 /\ exists plan, set_plan 0 set p3 = Some plan
  | _ => True
  end.

Fixpoint advances (ops : list op) : Z :=
  match ops with
  | [] => 0
  | OAdvance :: r => 1 + advances r
  | _ :: r => advances r
  end.

Definition no_reset (ops : list op) : Prop := ~ In OReset ops.

Definition ascending (l : list item) : Prop := StronglySorted (fun x y => i_prio x <= i_prio y) l.

(* ---- abstract specification: a multiset (list, order irrelevant) of (frames until due, item) ---- *)
Definition aitem : Type := (Z * item)%type.
Definition due (d : Z) (m : list aitem) : list item := map snd (filter (fun e => fst e =? d) m).

Definition a_schedule (m : list aitem) (N : Z) (it : item) : list aitem * Z :=
  if 8 <=? Z.of_nat (length (due N m)) then (m, -1) else ((N, it) :: m, 0).

Fixpoint a_place (m : list aitem) (N : Z) (plan : list (Z * item)) (ret : Z) : list aitem * Z :=
  match plan with
  | [] => (m, ret)
  | (k, it) :: r => let '(m', rc) := a_schedule m (N + k) it in if rc =? 0 then a_place m' N r ret else (m', -1)
  end.

Definition a_set (m : list aitem) (N : Z) (set : list item) (p3 : Z) : list aitem * Z :=
  match set_plan 0 set p3 with Some plan => a_place m N plan (set_nframes set) | None => (m, -1) end.

Definition a_advance (m : list aitem) : list aitem := map (fun e => ((fst e - 1) mod 25, snd e)) m.
Definition a_execute (m : list aitem) : list item * list aitem := (due 0 m, filter (fun e => negb (fst e =? 0)) m).
Definition a_reset (m : list aitem) : list aitem := filter (fun e => fst e =? 0) m.

Inductive aobs :=
| ARet (r : Z)                 (* schedule / set: 0, number of frames, or -1 *)
| ATick                        (* advance *)
| ARun (due_now : list item)   (* execute: the multiset that is due now *)
| AKeep (n : Z).               (* reset: how many items survive *)

Definition a_step (m : list aitem) (o : op) : list aitem * aobs :=
  match o with
  | OSched N it => let '(m', r) := a_schedule m N it in (m', ARet r)
  | OSet N set p3 => let '(m', r) := a_set m N set p3 in (m', ARet r)
  | OAdvance => (a_advance m, ATick)
  | OExecute => let '(l, m') := a_execute m in (m', ARun l)
  | OReset => (a_reset m, AKeep (Z.of_nat (length (a_reset m))))
  end.

Fixpoint a_run (m : list aitem) (ops : list op) : list aobs * list aitem :=
  match ops with
  | [] => ([], m)
  | o :: r => let '(m', b) := a_step m o in let '(bs, m'') := a_run m' r in (b :: bs, m'')
  end.

(* an implementation observation agrees with the specification's *)
Definition obs_matches (b : obs) (a : aobs) : Prop :=
  match b, a with
  | BRet r, ARet r' => r = r'
  | BCur _, ATick => True
  | BExec lg ret, ARun l => Permutation lg l /\ ascending lg /\ ret = Z.of_nat (length l)
  | BReset n, AKeep n' => n = n'
  | _, _ => False
  end.

(* the ring implements the multiset: the bucket d positions after cur holds exactly the items due in d frames *)
Definition refines (st : sched) (m : list aitem) : Prop :=
  (forall e, In e m -> 0 <= fst e < 25) /\
  forall d, 0 <= d < 25 -> Permutation (bucket_due st d) (due d m).
