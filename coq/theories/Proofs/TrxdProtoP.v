(* C17: the combined statements of Props/C17.v and the non-vacuity examples. *)
From Coq Require Import ZArith List Bool Lia.
From OBB Require Model.Trxd Proofs.TrxdBase Proofs.TrxdTx Proofs.TrxdRx Proofs.TrxdRxRT.
From OBB Require Import Gen.TrxdProto Base.Range Base.Bits Model.Codec Proofs.CodecInt Proofs.CodecBits Proofs.CodecRT Proofs.CodecDE
  Proofs.CodecErr Proofs.CodecGood Proofs.CodecSem Proofs.TrxdProtoSpec Proofs.TrxdProtoBits Proofs.TrxdProtoMsg Proofs.TrxdProtoTop Proofs.TrxdProtoAcc.
Import ListNotations.
Open Scope Z_scope.

Lemma burst_len_all data v n : octets data -> lookup 9 v = Some (VInt 0) ->
  (decode true pdu_v1_rx data = Ok (v, n) \/ decode true pdu_v2_rx data = Ok (v, n) ->
     exists md bits, lookup 10 v = Some (VInt md) /\ lookup 5 v = Some (VBytes bits) /\ assocZ md burst_tab = Some (length bits)) /\
  (decode true pdu_v2_tx data = Ok (v, n) ->
     exists md bits, lookup 10 v = Some (VInt md) /\ lookup 8 v = Some (VBytes bits) /\ assocZ md burst_tab = Some (length bits)).
Proof.
  intros Ho Hn. destruct in_pdus as [_ [_ [I3 [_ [I5 I6]]]]]. split.
  - intros [Hd|Hd]; [exact (burst_len_sem _ 5%nat _ _ _ I3 burst_in_v1rx Ho Hd Hn)|exact (burst_len_sem _ 5%nat _ _ _ I5 burst_in_v2rx Ho Hd Hn)].
  - intros Hd. exact (burst_len_sem _ 8%nat _ _ _ I6 burst_in_v2tx Ho Hd Hn).
Qed.

Lemma nope_no_burst_all data v n : octets data -> lookup 9 v = Some (VInt 1) ->
  (decode true pdu_v1_rx data = Ok (v, n) \/ decode true pdu_v2_rx data = Ok (v, n) -> lookup 5 v = None) /\
  (decode true pdu_v2_tx data = Ok (v, n) -> lookup 8 v = None).
Proof.
  intros Ho Hn. destruct in_pdus as [_ [_ [I3 [_ [I5 I6]]]]]. split.
  - intros [Hd|Hd]; [exact (nope_no_burst_gen _ 5%nat _ _ _ I3 burst_in_v1rx uniq_v1rx Ho Hd Hn)|exact (nope_no_burst_gen _ 5%nat _ _ _ I5 burst_in_v2rx uniq_v2rx Ho Hd Hn)].
  - intros Hd. exact (nope_no_burst_gen _ 8%nat _ _ _ I6 burst_in_v2tx uniq_v2tx Ho Hd Hn).
Qed.

(* burst length by modulation code, literal *)
Lemma burst_len_table m : 0 <= m < 16 ->
  assocZ m burst_tab = (if (0 <=? m) && (m <=? 3) then Some 148%nat else if (4 <=? m) && (m <=? 5) then Some 444%nat else if m =? 6 then Some 148%nat
                        else if (8 <=? m) && (m <=? 9) then Some 592%nat else if (10 <=? m) && (m <=? 11) then Some 740%nat
                        else if (12 <=? m) && (m <=? 15) then Some 296%nat else None).
Proof. exact (burst_tab_spec m). Qed.

(* ---------------------------------------------------------------- non-vacuity *)
Definition ex_sub1 : rxsub := {| s_tn := 3; s_batch := 1; s_shadow := 0; s_trxn := 5; s_nope := 1; s_mod := 0; s_tsc := 0;
                                 s_rssi := -90; s_toa := -1; s_cir := 100; s_bits := [] |}.
Definition ex_sub2 : rxsub := {| s_tn := 4; s_batch := 0; s_shadow := 1; s_trxn := 63; s_nope := 0; s_mod := 6; s_tsc := 7;
                                 s_rssi := -47; s_toa := 32767; s_cir := -1280; s_bits := repeat 127 148 |}.
Definition ex_rx2 : rx2 := {| m_tn := 7; m_batch := 1; m_trxn := 1; m_nope := 0; m_mod := 4; m_tsc := 2; m_rssi := -120; m_toa := -32768; m_cir := 1280;
                              m_fn := 2715647; m_bits := repeat 0 444; m_subs := [ex_sub1; ex_sub2] |}.
Lemma ex_rx2_ok : rx2_ok ex_rx2 /\ length (rx2_layout ex_rx2) = 620%nat.
Proof.
  split; [|reflexivity]. unfold rx2_ok, ex_rx2. cbn [m_tn m_batch m_trxn m_nope m_mod m_tsc m_rssi m_toa m_cir m_fn m_bits m_subs].
  repeat (split; [lia|]). split; [left; split; reflexivity|].
  constructor; [|constructor; [|constructor]]; unfold rxsub_ok, ex_sub1, ex_sub2; cbn [s_tn s_batch s_shadow s_trxn s_nope s_mod s_tsc s_rssi s_toa s_cir s_bits];
    repeat (split; [lia|]); [right; split; reflexivity|left; split; reflexivity].
Qed.
Lemma ex_rx2_accepts : accepts pdu_v2_rx (rx2_fields ex_rx2) (rx2_layout ex_rx2).
Proof. apply rx2_accepts, ex_rx2_ok. Qed.
