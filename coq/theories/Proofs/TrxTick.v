(* clock tick: no crash for well-formed worlds, invariants preserved, queue partition (C03 C14 C02) *)
From Coq Require Import ZArith List Bool Lia ZifyBool.
From OBB Require Import Base.Range Base.Dec Gen.TrxdConst Gen.FakeTrxConst Gen.HoppingTab Model.GsmTime Model.Hopping Model.Trxd Model.Trx
  Proofs.TrxdBase Proofs.TrxdTx Proofs.TrxdRx Proofs.TrxdRxRT Proofs.HoppingP Proofs.TrxDrop Proofs.TrxMeta Proofs.TrxDropStream Proofs.TrxFwd Proofs.TrxInv.
Import ListNotations.
Open Scope Z_scope.
Ltac Zify.zify_post_hook ::= Z.to_euclidean_division_equations.

(* handle_data never crashes for reachable simulation parameters, and keeps them reachable *)
Lemma handle_data_ok dst src m ver draws : sim_ok dst ->
  let '(dst', d, _) := handle_data dst src m (trans m ver) draws in sim_ok dst' /\ d <> DCrash /\ s_delay dst' = s_delay dst.
Proof.
  intros Hok. destruct (s_muted dst) eqn:Em.
  - rewrite (handle_suppressed dst src m (trans m ver) draws (or_introl Em)). split; [exact Hok|]. split; [|reflexivity].
    destruct (r_ver (trans m ver) <? 1); [discriminate|]. apply send_out_no_crash, validate_rx_cases.
  - destruct (t_burst m) as [bits|] eqn:Eb.
    + pose proof (handle_one dst src m bits ver draws Hok Em Eb) as H.
      destruct (handle_data dst src m (trans m ver) draws) as [[dst1 d] dr]. destruct H as [E1 [_ E3]].
      split; [rewrite E1; apply sim_ok_drop, Hok|split; [exact E3|]].
      rewrite E1. unfold sim_drop. destruct (s_drop dst =? 0); [reflexivity|]. destruct (_ mod s_period dst =? 0); reflexivity.
    + assert (Hn : r_nope (trans m ver) = true) by (unfold trans; cbn [r_nope]; rewrite Eb; reflexivity).
      rewrite (handle_suppressed dst src m (trans m ver) draws (or_intror Hn)). split; [exact Hok|]. split; [|reflexivity].
      destruct (r_ver (trans m ver) <? 1); [discriminate|]. apply send_out_no_crash, validate_rx_cases.
Qed.

Lemma rx_freq_ok t fn : fh_ok t -> 0 <= fn -> rx_freq t fn <> FCrash.
Proof.
  intros Hf Hfn. unfold rx_freq. destruct (x_fh t) as [h|] eqn:E; [|discriminate].
  destruct (Hf h E) as [Hh Hm]. pose proof (fh_resolve_total h fn Hh Hm Hfn) as Hr.
  destruct (fh_resolve h fn) as [[r x]|]; [discriminate|congruence].
Qed.
Lemma tx_freq_ok t fn : fh_ok t -> 0 <= fn -> tx_freq t fn <> FCrash.
Proof.
  intros Hf Hfn. unfold tx_freq. destruct (x_fh t) as [h|] eqn:E; [|discriminate].
  destruct (Hf h E) as [Hh Hm]. pose proof (fh_resolve_total h fn Hh Hm Hfn) as Hr.
  destruct (fh_resolve h fn) as [[r x]|]; [discriminate|congruence].
Qed.

(* fwd_loop on well-formed transceivers: never crashes; queues, tuning, power untouched; everything stays well formed *)
Lemma fwd_loop_ok src_i src m txf fn : 0 <= fn -> sim_ok (x_sim src) ->
  forall todo done j draws acc, Forall wf_trx todo -> Forall wf_trx done ->
  let '(trxs', _, _, crashed) := fwd_loop src_i src m txf fn done todo j draws acc in
  crashed = false /\ Forall wf_trx trxs'.
Proof.
  intros Hfn Hsrc. induction todo as [|t rest IH]; intros done j draws acc Ht Hd.
  - cbn [fwd_loop]. split; [reflexivity|]. apply Forall_rev, Hd.
  - inversion Ht as [|t' r' Hwt Hwr]; subst. cbn [fwd_loop].
    destruct (Nat.eqb j src_i); [apply IH; [exact Hwr|constructor; assumption]|].
    destruct (negb (x_run t)); [apply IH; [exact Hwr|constructor; assumption]|].
    destruct (rx_freq t fn) as [rf|] eqn:Ef; [|exfalso; exact (rx_freq_ok t fn (proj1 (proj2 Hwt)) Hfn Ef)].
    destruct (negb (opt_eqb rf txf)); [apply IH; [exact Hwr|constructor; assumption]|].
    pose proof (handle_data_ok (x_sim t) (x_sim src) m (x_ver t) draws (proj1 Hwt)) as Hh.
    destruct (handle_data (x_sim t) (x_sim src) m (trans m (x_ver t)) draws) as [[s' d] dr']. destruct Hh as [Hs' [Hd' Hdl]].
    assert (Hdl' : s_delay s' <= 9223372036854) by (rewrite Hdl; exact (proj2 (proj2 (proj2 Hwt)))).
    destruct d as [o mm|mm|]; [| |congruence]; (apply IH; [exact Hwr|constructor; [apply wf_set_sim; assumption|exact Hd]]).
Qed.

Lemma nth_wf l i t : Forall wf_trx l -> nth_error l i = Some t -> wf_trx t.
Proof. intros H E. rewrite Forall_forall in H. apply H. eapply nth_error_In. exact E. Qed.

Lemma forward_ok trxs i m draws : Forall wf_trx trxs -> 0 <= oz (t_fn m) ->
  let '(trxs', _, _, crashed) := forward trxs i m draws in crashed = false /\ Forall wf_trx trxs' .
Proof.
  intros Hw Hfn. unfold forward. destruct (nth_error trxs i) as [src|] eqn:Es; [|auto].
  pose proof (nth_wf _ _ _ Hw Es) as Hsrc.
  destruct (tx_freq src (oz (t_fn m))) as [txf|] eqn:Et; [|exfalso; exact (tx_freq_ok src _ (proj1 (proj2 Hsrc)) Hfn Et)].
  apply (fwd_loop_ok i src _ txf (oz (t_fn m)) Hfn (proj1 Hsrc) trxs [] 0%nat draws [] Hw). constructor.
Qed.

(* forward leaves everybody's queue, tuning, power, version and wiring alone *)
Lemma forward_frame trxs i m draws : Forall wf_trx trxs -> 0 <= oz (t_fn m) ->
  let '(trxs', _, _, _) := forward trxs i m draws in
  length trxs' = length trxs /\
  forall k t, nth_error trxs' k = Some t -> exists t0, nth_error trxs k = Some t0
    /\ x_run t = x_run t0 /\ x_rx t = x_rx t0 /\ x_tx t = x_tx t0 /\ x_fh t = x_fh t0 /\ x_ver t = x_ver t0 /\ x_q t = x_q t0 /\ x_cfg t = x_cfg t0.
Proof.
  intros Hw Hfn. pose proof (forward_ok trxs i m draws Hw Hfn) as Hok. unfold forward in *.
  destruct (nth_error trxs i) as [src|] eqn:Es.
  2:{ split; [reflexivity|]. intros k t Hk. exists t. repeat split; auto. }
  destruct (tx_freq src (oz (t_fn m))) as [txf|] eqn:Et.
  2:{ split; [reflexivity|]. intros k t Hk. exists t. repeat split; auto. }
  destruct (fwd_loop i src _ txf (oz (t_fn m)) [] trxs 0 draws []) as [[[trxs' ds] dr'] crashed] eqn:E. destruct Hok as [-> _].
  apply fwd_loop_spec in E. destruct E as [_ [E2 E3]]. cbn [length rev app] in *. split; [exact E2|exact E3].
Qed.

(* ---- the partition done under the queue lock ---- *)
Lemma part_spec fn : forall q, let '(d, e, w) := part fn q in
  Forall (fun m => is_behind fn m = true) d /\ Forall (fun m => is_due fn m = true) e /\ Forall (fun m => is_ahead fn m = true) w
  /\ (forall x : txmsg -> bool, length (filter x q) = (length (filter x d) + length (filter x e) + length (filter x w))%nat)
  /\ d = filter (is_behind fn) q /\ e = filter (is_due fn) q /\ w = filter (is_ahead fn) q.
Proof.
  induction q as [|m r IH]; cbn [part].
  - repeat split; constructor.
  - destruct (part fn r) as [[d e] w]. destruct IH as [H1 [H2 [H3 [H4 [H5 [H6 H7]]]]]].
    cbn [filter]. unfold is_behind, is_due, is_ahead in *. destruct (fn_delta (oz (t_fn m)) fn =? 0) eqn:E1; cbn [negb andb].
    + repeat split; try assumption; try (constructor; [rewrite E1; reflexivity|assumption]); try (f_equal; assumption).
      intros x. cbn [filter]. destruct (x m); cbn [length]; rewrite H4; lia.
    + destruct (fn_delta (oz (t_fn m)) fn <? gsm_hyperframe / 2) eqn:E2; cbn [negb].
      * repeat split; try assumption; try (constructor; [rewrite E1, E2; reflexivity|assumption]); try (f_equal; assumption).
        intros x. cbn [filter]. destruct (x m); cbn [length]; rewrite H4; lia.
      * repeat split; try assumption; try (constructor; [rewrite E1, E2; reflexivity|assumption]); try (f_equal; assumption).
        intros x. cbn [filter]. destruct (x m); cbn [length]; rewrite H4; lia.
Qed.

Lemma part_q_ok fn q : Forall (fun m => 0 <= oz (t_fn m)) q ->
  let '(d, e, w) := part fn q in Forall (fun m => 0 <= oz (t_fn m)) e /\ Forall (fun m => 0 <= oz (t_fn m)) w.
Proof.
  intros H. pose proof (part_spec fn q) as P. destruct (part fn q) as [[d e] w]. destruct P as [_ [_ [_ [_ [_ [-> ->]]]]]].
  split; apply Forall_forall; intros m Hm; apply filter_In in Hm as [Hm _]; rewrite Forall_forall in H; apply H, Hm.
Qed.

Lemma emit_all_ok : forall ems trxs i draws acc, Forall wf_trx trxs -> Forall (fun m => 0 <= oz (t_fn m)) ems ->
  let '(trxs', _, _, crashed) := emit_all trxs i ems draws acc in crashed = false /\ Forall wf_trx trxs' /\ length trxs' = length trxs
  /\ forall k t, nth_error trxs' k = Some t -> exists t0, nth_error trxs k = Some t0
       /\ x_run t = x_run t0 /\ x_rx t = x_rx t0 /\ x_tx t = x_tx t0 /\ x_fh t = x_fh t0 /\ x_ver t = x_ver t0 /\ x_q t = x_q t0 /\ x_cfg t = x_cfg t0.
Proof.
  induction ems as [|m r IH]; intros trxs i draws acc Hw He.
  - cbn [emit_all]. split; [reflexivity|]. split; [exact Hw|]. split; [reflexivity|]. intros k t Hk. exists t. repeat split; auto.
  - inversion He as [|m' r' Hm Hr]; subst. cbn [emit_all].
    pose proof (forward_ok trxs i m draws Hw Hm) as Hok. pose proof (forward_frame trxs i m draws Hw Hm) as Hfr.
    destruct (forward trxs i m draws) as [[[trxs1 ds] dr1] crashed]. destruct Hok as [-> Hw1]. destruct Hfr as [L1 F1].
    specialize (IH trxs1 i dr1 (acc ++ map (fun jd => (i, fst jd, snd jd)) ds) Hw1 Hr).
    destruct (emit_all trxs1 i r dr1 _) as [[[trxs2 a2] dr2] c2]. destruct IH as [-> [Hw2 [L2 F2]]].
    split; [reflexivity|]. split; [exact Hw2|]. split; [lia|].
    intros k t Hk. destruct (F2 k t Hk) as [t1 [Ht1 R1]]. destruct (F1 k t1 Ht1) as [t0 [Ht0 R0]]. exists t0. split; [exact Ht0|].
    destruct R1 as [A1 [A2 [A3 [A4 [A5 [A6 A7]]]]]]. destruct R0 as [B1 [B2 [B3 [B4 [B5 [B6 B7]]]]]]. repeat split; congruence.
Qed.

(* Application.clck_handler(fn): never crashes on a well-formed world; every running transceiver keeps exactly the bursts of
   later frames, all others keep their queue; nothing else changes *)
Lemma tick_loop_ok fn : 0 <= fn -> forall n i trxs draws out, Forall wf_trx trxs -> o_crash out = false ->
  let '(trxs', _, out') := tick_loop n i trxs fn draws out in
  o_crash out' = false /\ Forall wf_trx trxs' /\ length trxs' = length trxs.
Proof.
  intros Hfn. induction n as [|n IH]; intros i trxs draws out Hw Hc; cbn [tick_loop]; [auto|].
  destruct (nth_error trxs i) as [t|] eqn:Et; [|auto].
  destruct (negb (x_run t)); [apply IH; assumption|].
  pose proof (nth_wf _ _ _ Hw Et) as Hwt.
  pose proof (part_q_ok fn (x_q t) (proj1 (proj2 (proj2 Hwt)))) as Hp. destruct (part fn (x_q t)) as [[dr em] wt]. destruct Hp as [He Hwq].
  assert (Hw1 : Forall wf_trx (upd trxs i (fun t0 => set_q t0 wt))).
  { rewrite Forall_forall. intros u Hu. apply In_nth_error in Hu as [k Hk]. rewrite upd_nth in Hk. destruct (Nat.eqb i k) eqn:E.
    - apply Nat.eqb_eq in E. subst k. rewrite Et in Hk. cbn in Hk. injection Hk as <-. apply wf_set_q; assumption.
    - eapply nth_wf; eassumption. }
  pose proof (emit_all_ok em (upd trxs i (fun t0 => set_q t0 wt)) i draws [] Hw1 He) as Hem.
  destruct (emit_all (upd trxs i (fun t0 => set_q t0 wt)) i em draws []) as [[[trxs2 dl] dr'] crashed].
  destruct Hem as [-> [Hw2 [L2 _]]]. rewrite upd_length in L2.
  specialize (IH (S i) trxs2 dr' {| o_deliv := o_deliv out ++ dl; o_stale := o_stale out ++ map (fun m => (i, m)) dr; o_crash := false |} Hw2 eq_refl).
  destruct (tick_loop n (S i) trxs2 fn dr' _) as [[trxs3 d3] o3]. destruct IH as [I1 [I2 I3]]. split; [exact I1|]. split; [exact I2|lia].
Qed.

Theorem tick_ok w fn draws : wf_world w -> 0 <= fn ->
  let '(w', _, out) := tick w fn draws in o_crash out = false /\ wf_world w' /\ length (w_trx w') = length (w_trx w).
Proof.
  intros Hw Hfn. unfold tick.
  pose proof (tick_loop_ok fn Hfn (length (w_trx w)) 0%nat (w_trx w) draws {| o_deliv := []; o_stale := []; o_crash := false |} Hw eq_refl) as H.
  destruct (tick_loop _ _ _ _ _ _) as [[trxs d'] out]. exact H.
Qed.

(* the data path: any datagram; malformed ones change nothing *)
Lemma parse_tx_fn_nonneg data m : Forall (fun b => 0 <= b < 256) data -> parse_tx data = Ok m -> 0 <= oz (t_fn m).
Proof.
  intros Hb H. unfold parse_tx in H. destruct (Nat.ltb (length data) 5); [discriminate|].
  apply bind_ok in H as [b0 [_ H]]. destruct (negb (known (Z.shiftr b0 4))); [discriminate|].
  apply bind_ok in H as [fn [Hfn H]]. apply bind_ok in H as [hl [_ H]].
  assert (Hf : 0 <= fn).
  { unfold un_be32, slice in Hfn. destruct (firstn (5 - 1) (skipn 1 data)) as [|a [|b [|c [|d [|e r]]]]] eqn:E; try discriminate. injection Hfn as <-.
    assert (Hin : Forall (fun b => 0 <= b < 256) [a; b; c; d]).
    { rewrite <- E. apply Forall_forall. intros x Hx. apply In_firstn in Hx. apply In_skipn' in Hx. rewrite Forall_forall in Hb. apply Hb, Hx. }
    inversion Hin as [|? ? Ha Hin1]; subst. inversion Hin1 as [|? ? Hb' Hin2]; subst. inversion Hin2 as [|? ? Hc Hin3]; subst. inversion Hin3 as [|? ? Hd _]; subst. lia. }
  destruct (Nat.ltb (length data) hl); [discriminate|]. apply bind_ok in H as [pwr [_ H]].
  destruct (Nat.eqb (length data) hl); injection H as <-; exact Hf.
Qed.

Theorem recv_data_inv t data : wf_trx t -> Forall (fun b => 0 <= b < 256) data ->
  let '(t', acc) := recv_data t data in
  wf_trx t' /\ (acc = false -> t' = t) /\
  (acc = true -> exists m, parse_tx (firstn (Z.to_nat data_recv_size) data) = Ok m /\ t_ver m = x_ver t /\ x_run t = true /\ t' = set_q t (x_q t ++ [m])).
Proof.
  intros Hw Hb. unfold recv_data. destruct (parse_tx (firstn (Z.to_nat data_recv_size) data)) as [m| |] eqn:Ep; try (split; [exact Hw|split; [reflexivity|discriminate]]).
  destruct ((t_ver m =? x_ver t) && x_run t) eqn:Ec; [|split; [exact Hw|split; [reflexivity|discriminate]]].
  apply andb_prop in Ec as [Ev Er]. split.
  - apply wf_set_q; [exact Hw|]. apply Forall_app. split; [exact (proj1 (proj2 (proj2 Hw)))|]. constructor; [|constructor].
    eapply parse_tx_fn_nonneg; [|exact Ep]. apply Forall_forall. intros x Hx. apply In_firstn in Hx. rewrite Forall_forall in Hb. apply Hb, Hx.
  - split; [discriminate|]. intros _. exists m. repeat split; auto. lia.
Qed.
