(* C02: BurstForwarder.forward_msg routes to exactly the running peers whose Rx frequency in that frame equals the sender's Tx frequency *)
From Coq Require Import ZArith List Bool Lia ZifyBool.
From OBB Require Import Base.Range Base.Dec Gen.TrxdConst Gen.FakeTrxConst Gen.HoppingTab Model.GsmTime Model.Hopping Model.Trxd Model.Trx
  Proofs.TrxdBase Proofs.TrxdTx Proofs.TrxdRx Proofs.TrxdRxRT Proofs.HoppingP Proofs.TrxDrop Proofs.TrxMeta Proofs.TrxDropStream.
Import ListNotations.
Open Scope Z_scope.
Ltac Zify.zify_post_hook ::= Z.to_euclidean_division_equations.

(* the routing condition of the property, for the transceiver t at position j *)
Definition is_rcpt (src_i : nat) (txf : option Z) (fn : Z) (j : nat) (t : trx) : bool :=
  negb (Nat.eqb j src_i) && x_run t && match rx_freq t fn with FOk rf => opt_eqb rf txf | FCrash => false end.

Fixpoint rcpts (src_i : nat) (txf : option Z) (fn : Z) (l : list trx) (j : nat) : list nat :=
  match l with
  | [] => []
  | t :: r => if is_rcpt src_i txf fn j t then j :: rcpts src_i txf fn r (S j) else rcpts src_i txf fn r (S j)
  end.

(* handle_data changes nothing the routing decision looks at *)
Lemma set_sim_route t s fn : x_run (set_sim t s) = x_run t /\ rx_freq (set_sim t s) fn = rx_freq t fn /\ tx_freq (set_sim t s) fn = tx_freq t fn.
Proof. unfold rx_freq, tx_freq, set_sim. cbn. auto. Qed.

Lemma fwd_loop_spec src_i src m txf fn : forall todo done j draws acc trxs' ds draws',
  fwd_loop src_i src m txf fn done todo j draws acc = (trxs', ds, draws', false) ->
  map fst ds = map fst (rev acc) ++ rcpts src_i txf fn todo j
  /\ length trxs' = (length done + length todo)%nat
  /\ (forall k t, nth_error trxs' k = Some t -> exists t0, nth_error (rev done ++ todo) k = Some t0
        /\ x_run t = x_run t0 /\ x_rx t = x_rx t0 /\ x_tx t = x_tx t0 /\ x_fh t = x_fh t0 /\ x_ver t = x_ver t0 /\ x_q t = x_q t0 /\ x_cfg t = x_cfg t0).
Proof.
  induction todo as [|t rest IH]; intros done j draws acc trxs' ds draws' H.
  - cbn [fwd_loop] in H. injection H as <- <- <-. cbn [rcpts]. rewrite app_nil_r. split; [reflexivity|].
    split; [rewrite rev_length; cbn; lia|]. intros k t Hk. rewrite app_nil_r. exists t. repeat split; auto.
  - cbn [fwd_loop] in H. cbn [rcpts]. unfold is_rcpt.
    assert (Hlen : forall d', length (t :: d') = S (length d')) by reflexivity.
    assert (Hidx : forall (t' : trx), (forall k u, nth_error (rev (t' :: done) ++ rest) k = Some u ->
              x_run t' = x_run t -> x_rx t' = x_rx t -> x_tx t' = x_tx t -> x_fh t' = x_fh t -> x_ver t' = x_ver t -> x_q t' = x_q t -> x_cfg t' = x_cfg t ->
              exists t0, nth_error (rev done ++ t :: rest) k = Some t0 /\ x_run u = x_run t0 /\ x_rx u = x_rx t0 /\ x_tx u = x_tx t0 /\ x_fh u = x_fh t0 /\ x_ver u = x_ver t0 /\ x_q u = x_q t0 /\ x_cfg u = x_cfg t0)).
    { intros t' k u Hk E1 E2 E3 E4 E5 E6 E7. cbn [rev] in Hk. rewrite <- app_assoc in Hk. cbn [app] in Hk.
      destruct (Nat.lt_ge_cases k (length (rev done))) as [Hl|Hl].
      - rewrite nth_error_app1 in Hk by exact Hl. exists u. rewrite nth_error_app1 by exact Hl. repeat split; auto.
      - rewrite nth_error_app2 in Hk by exact Hl. rewrite nth_error_app2 by exact Hl.
        destruct (k - length (rev done))%nat as [|k'] eqn:Ek; cbn [nth_error] in *.
        + injection Hk as <-. exists t. repeat split; auto.
        + exists u. repeat split; auto. }
    destruct (Nat.eqb j src_i) eqn:Ej; cbn [negb andb].
    { apply IH in H. destruct H as [H1 [H2 H3]]. split; [exact H1|]. split; [cbn [length] in *; lia|].
      intros k u Hk. destruct (H3 k u Hk) as [t0 [Ht0 R]]. destruct (Hidx t k t0 Ht0 eq_refl eq_refl eq_refl eq_refl eq_refl eq_refl eq_refl) as [t1 [Ht1 R1]]. exists t1. split; [exact Ht1|].
      destruct R as [A1 [A2 [A3 [A4 [A5 [A6 A7]]]]]]. destruct R1 as [B1 [B2 [B3 [B4 [B5 [B6 B7]]]]]]. repeat split; congruence. }
    destruct (x_run t) eqn:Er; cbn [negb andb].
    2:{ apply IH in H. destruct H as [H1 [H2 H3]]. split; [exact H1|]. split; [cbn [length] in *; lia|].
      intros k u Hk. destruct (H3 k u Hk) as [t0 [Ht0 R]]. destruct (Hidx t k t0 Ht0 Er eq_refl eq_refl eq_refl eq_refl eq_refl eq_refl) as [t1 [Ht1 R1]]. exists t1. split; [exact Ht1|].
      destruct R as [A1 [A2 [A3 [A4 [A5 [A6 A7]]]]]]. destruct R1 as [B1 [B2 [B3 [B4 [B5 [B6 B7]]]]]]. repeat split; congruence. }
    destruct (rx_freq t fn) as [rf|] eqn:Ef; [|discriminate].
    destruct (opt_eqb rf txf) eqn:Eo; cbn [negb].
    2:{ apply IH in H. destruct H as [H1 [H2 H3]]. split; [exact H1|]. split; [cbn [length] in *; lia|].
      intros k u Hk. destruct (H3 k u Hk) as [t0 [Ht0 R]]. destruct (Hidx t k t0 Ht0 Er eq_refl eq_refl eq_refl eq_refl eq_refl eq_refl) as [t1 [Ht1 R1]]. exists t1. split; [exact Ht1|].
      destruct R as [A1 [A2 [A3 [A4 [A5 [A6 A7]]]]]]. destruct R1 as [B1 [B2 [B3 [B4 [B5 [B6 B7]]]]]]. repeat split; congruence. }
    destruct (handle_data (x_sim t) (x_sim src) m (trans m (x_ver t)) draws) as [[s' d] dr'] eqn:Eh.
    destruct d as [o mm|mm|]; [| |discriminate].
    + apply IH in H. destruct H as [H1 [H2 H3]]. split.
      * rewrite H1. cbn [rev map]. rewrite map_app. cbn [map fst]. rewrite <- app_assoc. reflexivity.
      * split; [cbn [length] in *; lia|].
        intros k u Hk. destruct (H3 k u Hk) as [t0 [Ht0 R]]. destruct (Hidx (set_sim t s') k t0 Ht0 Er eq_refl eq_refl eq_refl eq_refl eq_refl eq_refl) as [t1 [Ht1 R1]]. exists t1. split; [exact Ht1|].
        destruct R as [A1 [A2 [A3 [A4 [A5 [A6 A7]]]]]]. destruct R1 as [B1 [B2 [B3 [B4 [B5 [B6 B7]]]]]]. repeat split; congruence.
    + apply IH in H. destruct H as [H1 [H2 H3]]. split.
      * rewrite H1. cbn [rev map]. rewrite map_app. cbn [map fst]. rewrite <- app_assoc. reflexivity.
      * split; [cbn [length] in *; lia|].
        intros k u Hk. destruct (H3 k u Hk) as [t0 [Ht0 R]]. destruct (Hidx (set_sim t s') k t0 Ht0 Er eq_refl eq_refl eq_refl eq_refl eq_refl eq_refl) as [t1 [Ht1 R1]]. exists t1. split; [exact Ht1|].
        destruct R as [A1 [A2 [A3 [A4 [A5 [A6 A7]]]]]]. destruct R1 as [B1 [B2 [B3 [B4 [B5 [B6 B7]]]]]]. repeat split; congruence.
Qed.

(* membership in rcpts = the property's condition *)
Lemma rcpts_in src_i txf fn : forall l j k, In k (rcpts src_i txf fn l j) <->
  exists t, nth_error l (k - j) = Some t /\ (j <= k)%nat /\ is_rcpt src_i txf fn k t = true.
Proof.
  induction l as [|t r IH]; intros j k; cbn [rcpts].
  - split; [intros []|]. intros [t [H _]]. destruct (k - j)%nat; discriminate.
  - destruct (is_rcpt src_i txf fn j t) eqn:E.
    + cbn [In]. rewrite IH. split.
      * intros [<-|[u [Hu [Hj Hr]]]].
        -- exists t. rewrite Nat.sub_diag. repeat split; auto.
        -- exists u. replace (k - j)%nat with (S (k - S j)) by lia. repeat split; auto; lia.
      * intros [u [Hu [Hj Hr]]]. destruct (Nat.eq_dec j k) as [->|Hne]; [left; reflexivity|right].
        exists u. replace (k - j)%nat with (S (k - S j)) in Hu by lia. repeat split; auto; lia.
    + rewrite IH. split.
      * intros [u [Hu [Hj Hr]]]. exists u. replace (k - j)%nat with (S (k - S j)) by lia. repeat split; auto; lia.
      * intros [u [Hu [Hj Hr]]]. destruct (Nat.eq_dec j k) as [->|Hne].
        -- rewrite Nat.sub_diag in Hu. injection Hu as <-. congruence.
        -- exists u. replace (k - j)%nat with (S (k - S j)) in Hu by lia. repeat split; auto; lia.
Qed.

Lemma rcpts_sorted src_i txf fn : forall l j, Forall (fun k => (j <= k)%nat) (rcpts src_i txf fn l j) /\ NoDup (rcpts src_i txf fn l j).
Proof.
  induction l as [|t r IH]; intros j; cbn [rcpts]; [split; constructor|].
  destruct (IH (S j)) as [F N]. destruct (is_rcpt src_i txf fn j t).
  - split.
    + constructor; [lia|]. eapply Forall_impl; [|exact F]. cbv beta. intros; lia.
    + constructor; [|exact N]. intros I. rewrite Forall_forall in F. apply F in I. lia.
  - split; [|exact N]. eapply Forall_impl; [|exact F]. cbv beta. intros; lia.
Qed.

(* forward: one call of handle_data_msg for exactly the recipients, in list order, each once *)
Theorem forward_routing trxs src_i m draws trxs' ds draws' src txf :
  nth_error trxs src_i = Some src -> tx_freq src (oz (t_fn m)) = FOk txf ->
  forward trxs src_i m draws = (trxs', ds, draws', false) ->
  map fst ds = rcpts src_i txf (oz (t_fn m)) trxs 0
  /\ NoDup (map fst ds)
  /\ (forall k, In k (map fst ds) <-> exists t, nth_error trxs k = Some t /\ k <> src_i /\ x_run t = true
                                      /\ exists rf, rx_freq t (oz (t_fn m)) = FOk rf /\ opt_eqb rf txf = true)
  /\ length trxs' = length trxs.
Proof.
  intros Hs Ht H. unfold forward in H. rewrite Hs, Ht in H. apply fwd_loop_spec in H. destruct H as [H1 [H2 _]].
  cbn [rev map app] in H1. split; [exact H1|]. split; [rewrite H1; apply rcpts_sorted|]. split; [|cbn [length] in H2; exact H2].
  intros k. rewrite H1, rcpts_in. rewrite Nat.sub_0_r. split.
  - intros [t [Hk [_ Hr]]]. exists t. split; [exact Hk|]. unfold is_rcpt in Hr.
    apply andb_prop in Hr as [Hr Hf]. apply andb_prop in Hr as [Hn Hrun]. split; [apply Nat.eqb_neq; destruct (Nat.eqb k src_i); [discriminate|reflexivity]|].
    split; [exact Hrun|]. destruct (rx_freq t (oz (t_fn m))) as [rf|]; [|discriminate]. exists rf. auto.
  - intros [t [Hk [Hne [Hrun [rf [Hf Ho]]]]]]. exists t. split; [exact Hk|]. split; [lia|]. unfold is_rcpt. rewrite Hrun, Hf, Ho.
    apply Nat.eqb_neq in Hne. rewrite Hne. reflexivity.
Qed.

(* nothing goes back to the sender, to a powered-off transceiver or to one tuned elsewhere - corollaries spelled out *)
Corollary forward_not_self trxs src_i m draws trxs' ds draws' src txf :
  nth_error trxs src_i = Some src -> tx_freq src (oz (t_fn m)) = FOk txf -> forward trxs src_i m draws = (trxs', ds, draws', false) ->
  ~ In src_i (map fst ds).
Proof. intros Hs Ht H I. destruct (forward_routing _ _ _ _ _ _ _ _ _ Hs Ht H) as [_ [_ [Hi _]]]. apply Hi in I. destruct I as [t [_ [Hne _]]]. congruence. Qed.

(* a muted sender: every recipient gets the burst stripped (NOPE / nothing), via handle_suppressed *)
Lemma trans_stripped m ver : r_nope (trans (strip_burst m) ver) = true.
Proof. reflexivity. Qed.

(* hopping parameters accepted by SETFH never make frequency resolution fail *)
Lemma fh_resolve_total h fn : 0 <= fh_hsn h <= 63 -> fh_ma h <> [] -> 0 <= fn -> fh_resolve h fn <> None.
Proof.
  intros Hh Hma Hfn. unfold fh_resolve. set (n := Z.of_nat (length (fh_ma h))).
  assert (Hn : 0 < n) by (subst n; destruct (fh_ma h); [congruence|cbn [length]; lia]).
  unfold hop_py, py_fn2gsm_time.
  assert (Hnth : forall mai, 0 <= mai < n -> (if mai <? 0 then None else nth_error (fh_ma h) (Z.to_nat mai)) <> None).
  { intros mai Hm. destruct (mai <? 0) eqn:E; [lia|]. apply nth_error_Some. subst n. lia. }
  destruct (fh_hsn h =? 0) eqn:E0.
  - apply Hnth. apply Z.mod_pos_bound. exact Hn.
  - rewrite tab_py. change (26 * 51) with 1326. rewrite land63 by (apply Z.div_pos; lia).
    pose proof (xor_bound (fh_hsn h) ((fn / 1326) mod 64) ltac:(lia) ltac:(lia)) as Hx.
    destruct (rn_bound (Z.lxor (fh_hsn h) ((fn / 1326) mod 64) + fn mod 51) ltac:(lia)) as [rn [Ern _]].
    rewrite Ern. apply Hnth. apply Z.mod_pos_bound. exact Hn.
Qed.
