(* C15: capture files. Part 1: the file object and records in the abstract (any octet lists that parse back);
   part 2: instantiation with the TRXD codec (C01 round trips). *)
From Coq Require Import ZArith List Bool Lia ZifyBool.
From OBB Require Import Base.Range Gen.TrxdConst Model.Trxd Model.Dump Proofs.TrxdBase Proofs.TrxdTx Proofs.TrxdRx Proofs.TrxdRxRT.
Import ListNotations.
Open Scope Z_scope.
Ltac Zify.zify_post_hook ::= Z.to_euclidean_division_equations.

(* ---- the regenerated constants are the format's ---- *)
Lemma gen_dump : dump_tag_tx = 1 /\ dump_tag_rx = 2 /\ dump_hdr_length = 3.
Proof. repeat split; reflexivity. Qed.
Lemma hl_3 : hl = 3%nat. Proof. reflexivity. Qed.

(* ================= part 1: file object ================= *)

Lemma fread_shift pre f p n : fread (pre ++ f) (length pre + p) n = fread f p n.
Proof.
  unfold fread. rewrite skipn_app. rewrite skipn_all2 by lia.
  replace (length pre + p - length pre)%nat with p by lia. reflexivity.
Qed.

Lemma fread_exact a x : fread (a ++ x) 0 (length a) = a.
Proof. unfold fread. cbn [skipn]. apply firstn_app_exact. reflexivity. Qed.

Lemma fread_beyond f p n : (length f <= p)%nat -> fread f p n = [].
Proof. intros H. unfold fread. rewrite skipn_all2 by exact H. apply firstn_nil. Qed.

Lemma fread_len f p n : (length (fread f p n) <= n)%nat.
Proof. unfold fread. rewrite firstn_length. lia. Qed.

Definition shiftS (d : nat) (r : res (option nat)) : res (option nat) :=
  match r with Ok (Some p) => Ok (Some (d + p)%nat) | x => x end.
Definition shiftO (d : nat) (r : res (one * nat)) : res (one * nat) :=
  match r with Ok (o, p) => Ok (o, (d + p)%nat) | x => x end.

Lemma shiftS_0 r : shiftS 0 r = r.
Proof. destruct r as [[p|]| |]; reflexivity. Qed.
Lemma shiftS_shiftS a b r : shiftS a (shiftS b r) = shiftS (a + b) r.
Proof. destruct r as [[p|]| |]; cbn [shiftS]; try reflexivity. do 2 f_equal. lia. Qed.

Lemma seek_shift pre f : forall n p, seek_loop (pre ++ f) n (length pre + p) = shiftS (length pre) (seek_loop f n p).
Proof.
  induction n as [|k IH]; intros p; [reflexivity|].
  cbn [seek_loop]. rewrite fread_shift.
  destruct (negb (Nat.eqb (length (fread f p hl)) hl)); [reflexivity|].
  destruct (parse_hdr (fread f p hl)) as [[[b len]|]| |]; cbn [bind shiftS]; try reflexivity.
  replace (length pre + p + length (fread f p hl) + len)%nat with (length pre + (p + length (fread f p hl) + len))%nat by lia.
  apply IH.
Qed.

Lemma parse_one_shift pre f p : parse_one (pre ++ f) (length pre + p) = shiftO (length pre) (parse_one f p).
Proof.
  unfold parse_one. cbv zeta. rewrite fread_shift.
  destruct (negb (Nat.eqb (length (fread f p hl)) hl)); [cbn [shiftO]; do 2 f_equal; lia|].
  destruct (parse_hdr (fread f p hl)) as [[[b len]|]| |]; cbn [bind shiftO]; try reflexivity; [|do 2 f_equal; lia].
  replace (length pre + p + length (fread f p hl))%nat with (length pre + (p + length (fread f p hl)))%nat by lia.
  rewrite fread_shift.
  destruct (negb (Nat.eqb _ len)); cbn [shiftO]; do 2 f_equal; lia.
Qed.

Lemma pa_shift pre f count : forall fuel p acc, pa_loop fuel (pre ++ f) (length pre + p) count acc = pa_loop fuel f p count acc.
Proof.
  induction fuel as [|k IH]; intros p acc; [reflexivity|].
  cbn [pa_loop]. rewrite parse_one_shift.
  destruct (parse_one f p) as [[o q]| |]; cbn [shiftO bind]; try reflexivity.
  destruct o as [m| |]; [|reflexivity|apply IH].
  destruct (count_hit count (length (acc ++ [m]))); [reflexivity|apply IH].
Qed.

Lemma seek_add f : forall a b p, seek_loop f (a + b) p = match seek_loop f a p with Ok (Some q) => seek_loop f b q | x => x end.
Proof.
  induction a as [|a IH]; intros b p; [reflexivity|].
  cbn [Nat.add seek_loop].
  destruct (negb (Nat.eqb (length (fread f p hl)) hl)); [reflexivity|].
  destruct (parse_hdr (fread f p hl)) as [[[bb len]|]| |]; cbn [bind]; try reflexivity.
  apply IH.
Qed.

(* reads beyond the end *)
Lemma seek_beyond f k p : (length f <= p)%nat -> seek_loop f (S k) p = Ok None.
Proof. intros H. cbn [seek_loop]. rewrite fread_beyond by exact H. reflexivity. Qed.
Lemma parse_one_beyond f p : (length f <= p)%nat -> exists q, parse_one f p = Ok (ONone, q).
Proof. intros H. unfold parse_one. cbv zeta. rewrite fread_beyond by exact H. eexists. reflexivity. Qed.
Lemma pa_beyond f p count acc k : (length f <= p)%nat -> pa_loop (S k) f p count acc = Ok (PList acc).
Proof. intros H. cbn [pa_loop]. destruct (parse_one_beyond f p H) as [q ->]. reflexivity. Qed.

(* ---- records ---- *)
Definition hdr_of (is_rx : bool) (n : nat) : list Z :=
  [if is_rx then dump_tag_rx else dump_tag_tx; Z.of_nat n / 256; Z.of_nat n mod 256].
Definition good_rec (r : list Z) (m' : msg) : Prop :=
  exists is_rx raw, r = hdr_of is_rx (length raw) ++ raw /\ Z.of_nat (length raw) < 65536 /\ parse_body is_rx raw = OMsg m'.

Lemma hdr_of_len b n : length (hdr_of b n) = hl. Proof. reflexivity. Qed.

Lemma parse_hdr_of b n : Z.of_nat n < 65536 -> parse_hdr (hdr_of b n) = Ok (Some (b, n)).
Proof.
  intros Hn. unfold parse_hdr, hdr_of, slice. cbn [skipn firstn Nat.sub bind].
  replace (Z.to_nat (Z.of_nat n / 256 * 256 + Z.of_nat n mod 256)) with n by lia.
  destruct b; reflexivity.
Qed.

Lemma good_len r m' : good_rec r m' -> (3 <= length r)%nat.
Proof. intros [b [raw [-> _]]]. rewrite app_length. cbn [hdr_of length]. lia. Qed.

Lemma parse_one_good r m' rest : good_rec r m' -> parse_one (r ++ rest) 0 = Ok (OMsg m', length r).
Proof.
  intros [b [raw [-> [Hn Hp]]]]. unfold parse_one. cbv zeta. rewrite <- app_assoc.
  rewrite <- (hdr_of_len b (length raw)). rewrite fread_exact. rewrite Nat.eqb_refl. cbn [negb].
  rewrite parse_hdr_of by exact Hn. cbn [bind].
  replace (0 + length (hdr_of b (length raw)))%nat with (length (hdr_of b (length raw)) + 0)%nat by lia.
  rewrite fread_shift. rewrite fread_exact. rewrite Nat.eqb_refl. cbn [negb]. rewrite Hp.
  rewrite app_length. reflexivity.
Qed.

Lemma seek_good r m' rest k : good_rec r m' -> seek_loop (r ++ rest) (S k) 0 = shiftS (length r) (seek_loop rest k 0).
Proof.
  intros [b [raw [-> [Hn Hp]]]]. cbn [seek_loop]. rewrite <- app_assoc.
  rewrite <- (hdr_of_len b (length raw)). rewrite fread_exact. rewrite Nat.eqb_refl. cbn [negb].
  rewrite parse_hdr_of by exact Hn. cbn [bind]. rewrite app_assoc.
  replace (0 + length (hdr_of b (length raw)) + length raw)%nat with (length (hdr_of b (length raw) ++ raw) + 0)%nat
    by (rewrite app_length; lia).
  apply seek_shift.
Qed.

Lemma pa_good r m' rest fuel count acc : good_rec r m' ->
  pa_loop (S fuel) (r ++ rest) 0 count acc =
  if count_hit count (S (length acc)) then Ok (PList (acc ++ [m'])) else pa_loop fuel rest 0 count (acc ++ [m']).
Proof.
  intros Hg. cbn [pa_loop]. rewrite (parse_one_good _ _ _ Hg). cbn [bind].
  replace (length (acc ++ [m'])) with (S (length acc)) by (rewrite app_length; cbn [length]; lia).
  destruct (count_hit count (S (length acc))); [reflexivity|].
  pose proof (pa_shift r rest count fuel 0%nat (acc ++ [m'])) as E. rewrite Nat.add_0_r in E. exact E.
Qed.

(* ---- what stops a reader: the empty rest, or a strict prefix of a record ---- *)
Definition stops (t : list Z) : Prop :=
  (exists p, parse_one t 0 = Ok (ONone, p)) /\
  ((length t < 3)%nat -> seek_loop t 1 0 = Ok None) /\
  ((3 <= length t)%nat -> exists p, seek_loop t 1 0 = Ok (Some p) /\ (length t < p)%nat).

Lemma stops_nil : stops [].
Proof. split; [eexists; reflexivity|]. split; [reflexivity|]. cbn [length]. lia. Qed.

Lemma short_hdr t : (length t < 3)%nat -> Nat.eqb (length (fread t 0 hl)) hl = false.
Proof. intros H. apply Nat.eqb_neq. unfold fread. cbn [skipn]. rewrite firstn_length, hl_3. lia. Qed.

Lemma stops_short t : (length t < 3)%nat -> stops t.
Proof.
  intros H. split; [|split; [|lia]].
  - unfold parse_one. cbv zeta. rewrite (short_hdr t H). eexists. reflexivity.
  - intros _. cbn [seek_loop]. rewrite (short_hdr t H). reflexivity.
Qed.

Lemma stops_cut r m' k : good_rec r m' -> (k < length r)%nat -> stops (firstn k r).
Proof.
  intros Hg Hk. destruct (Nat.ltb k 3) eqn:E.
  - apply Nat.ltb_lt in E. apply stops_short. rewrite firstn_length. lia.
  - apply Nat.ltb_ge in E. destruct Hg as [b [raw [-> [Hn Hp]]]].
    rewrite app_length in Hk. change (length (hdr_of b (length raw))) with 3%nat in Hk.
    assert (Ef : firstn k (hdr_of b (length raw) ++ raw) = hdr_of b (length raw) ++ firstn (k - 3) raw).
    { rewrite firstn_app. change (length (hdr_of b (length raw))) with 3%nat.
      rewrite firstn_all2 by (cbn [hdr_of length]; lia). reflexivity. }
    rewrite Ef.
    assert (Hl : length (firstn (k - 3) raw) = (k - 3)%nat) by (rewrite firstn_length; lia).
    assert (Hlt : length (hdr_of b (length raw) ++ firstn (k - 3) raw) = k) by (rewrite app_length, Hl; cbn [hdr_of length]; lia).
    split; [|split; [rewrite Hlt; lia|]].
    + unfold parse_one. cbv zeta. rewrite <- (hdr_of_len b (length raw)). rewrite fread_exact. rewrite Nat.eqb_refl. cbn [negb].
      rewrite parse_hdr_of by exact Hn. cbn [bind].
      replace (0 + length (hdr_of b (length raw)))%nat with (length (hdr_of b (length raw)) + 0)%nat by lia.
      rewrite fread_shift.
      assert (Hne : Nat.eqb (length (fread (firstn (k - 3) raw) 0 (length raw))) (length raw) = false).
      { apply Nat.eqb_neq. unfold fread. cbn [skipn]. rewrite firstn_length. lia. }
      rewrite Hne. cbn [negb]. eexists. reflexivity.
    + intros _. cbn [seek_loop]. rewrite <- (hdr_of_len b (length raw)). rewrite fread_exact. rewrite Nat.eqb_refl. cbn [negb].
      rewrite parse_hdr_of by exact Hn. cbn [bind]. eexists. split; [reflexivity|]. rewrite Hlt. cbn [hdr_of length]. lia.
Qed.

(* any further header read behind a stopper fails *)
Lemma seek_stops t j : stops t -> seek_loop t (S (S j)) 0 = Ok None.
Proof.
  intros [_ [Hs Hl]]. change (S (S j)) with (1 + S j)%nat. rewrite seek_add.
  destruct (Nat.ltb (length t) 3) eqn:E.
  - apply Nat.ltb_lt in E. rewrite (Hs E). reflexivity.
  - apply Nat.ltb_ge in E. destruct (Hl E) as [p [-> Hp]]. apply seek_beyond. lia.
Qed.

(* ---- Forall2 / list helpers ---- *)
Lemma Forall2_firstn {A B} (R : A -> B -> Prop) l1 l2 n : Forall2 R l1 l2 -> Forall2 R (firstn n l1) (firstn n l2).
Proof. intros H. revert n. induction H as [|x y l1 l2 Hxy _ IH]; intros [|n]; cbn [firstn]; constructor; auto. Qed.
Lemma Forall2_skipn {A B} (R : A -> B -> Prop) l1 l2 n : Forall2 R l1 l2 -> Forall2 R (skipn n l1) (skipn n l2).
Proof. intros H. revert n. induction H as [|x y l1 l2 Hxy H IH]; intros [|n]; cbn [skipn]; try constructor; auto. Qed.
Lemma Forall_firstn' {A} (P : A -> Prop) l : forall n, Forall P l -> Forall P (firstn n l).
Proof. induction l as [|x l IH]; intros [|n] H; cbn [firstn]; try constructor; inversion H; subst; auto. Qed.
Lemma Forall2_len {A B} (R : A -> B -> Prop) l1 l2 : Forall2 R l1 l2 -> length l1 = length l2.
Proof. induction 1; cbn [length]; congruence. Qed.
Lemma skipn_nth {A} (l : list A) : forall i x r, skipn i l = x :: r -> nth_error l i = Some x.
Proof. induction l as [|y l IH]; intros [|i] x r H; cbn in *; try discriminate; [congruence|eauto]. Qed.
Lemma nth_skipn {A} (l : list A) : forall i x, nth_error l i = Some x -> exists r, skipn i l = x :: r.
Proof. induction l as [|y l IH]; intros [|i] x H; cbn in *; try discriminate; [injection H as ->; eauto|eauto]. Qed.
Lemma concat_split {A} (ls : list (list A)) i : concat ls = concat (firstn i ls) ++ concat (skipn i ls).
Proof. rewrite <- concat_app, firstn_skipn. reflexivity. Qed.

Lemma good_count rs ms : Forall2 good_rec rs ms -> (length rs <= length (concat rs))%nat.
Proof.
  induction 1 as [|r m rs ms Hg _ IH]; cbn [concat length]; [lia|]. rewrite app_length. pose proof (good_len _ _ Hg). lia.
Qed.

(* ---- count semantics: what parse_all keeps of the messages it meets ---- *)
Fixpoint takec (count : option Z) (n : nat) (l : list msg) : list msg :=
  match l with
  | [] => []
  | m :: r => if count_hit count (S n) then [m] else m :: takec count (S n) r
  end.

Lemma takec_none n l : takec None n l = l.
Proof. revert n. induction l as [|m l IH]; intros n; cbn [takec count_hit]; [reflexivity|]. rewrite IH. reflexivity. Qed.
Lemma takec_some c : forall l n, takec (Some c) n l = if c <=? Z.of_nat n then l else firstn (Z.to_nat c - n) l.
Proof.
  induction l as [|m l IH]; intros n.
  - cbn [takec]. rewrite firstn_nil. destruct (_ <=? _); reflexivity.
  - cbn [takec count_hit]. rewrite IH.
    destruct (Z.of_nat (S n) =? c) eqn:E1; destruct (c <=? Z.of_nat n) eqn:E2; destruct (c <=? Z.of_nat (S n)) eqn:E3; try lia.
    + replace (Z.to_nat c - n)%nat with 1%nat by lia. reflexivity.
    + reflexivity.
    + replace (Z.to_nat c - n)%nat with (S (Z.to_nat c - S n)) by lia. reflexivity.
Qed.
(* literal reading: count >= 1 keeps the first count messages; count <= 0 never stops the loop *)
Definition sel (count : option Z) (l : list msg) : list msg :=
  match count with Some c => if 1 <=? c then firstn (Z.to_nat c) l else l | None => l end.
Lemma takec_sel count l : takec count 0 l = sel count l.
Proof.
  destruct count as [c|]; [|apply takec_none]. rewrite takec_some. unfold sel.
  destruct (c <=? Z.of_nat 0) eqn:E1; destruct (1 <=? c) eqn:E2; try lia; [reflexivity|].
  rewrite Nat.sub_0_r. reflexivity.
Qed.

(* ---- files of good records followed by a stopper ---- *)
Lemma seek_file rs ms t j : Forall2 good_rec rs ms ->
  seek_loop (concat rs ++ t) (length rs + j) 0 = shiftS (length (concat rs)) (seek_loop t j 0).
Proof.
  induction 1 as [|r m rs ms Hg _ IH]; cbn [concat length app Nat.add]; [rewrite shiftS_0; reflexivity|].
  rewrite <- app_assoc. rewrite (seek_good _ _ _ _ Hg). rewrite IH. rewrite shiftS_shiftS. rewrite app_length. reflexivity.
Qed.

Lemma pa_file rs ms t count : Forall2 good_rec rs ms -> stops t -> forall fuel acc, (length rs < fuel)%nat ->
  pa_loop fuel (concat rs ++ t) 0 count acc = Ok (PList (acc ++ takec count (length acc) ms)).
Proof.
  intros H Ht. induction H as [|r m rs ms Hg _ IH]; intros fuel acc Hf; (destruct fuel as [|k]; [cbn [length] in Hf; lia|]).
  - cbn [concat app takec]. destruct Ht as [[p Hp] _]. cbn [pa_loop]. rewrite Hp. cbn [bind]. rewrite app_nil_r. reflexivity.
  - cbn [concat]. rewrite <- app_assoc. rewrite (pa_good _ _ _ _ _ _ Hg). cbn [takec].
    destruct (count_hit count (S (length acc))); [reflexivity|].
    rewrite IH by (cbn [length] in Hf; lia). rewrite app_length. cbn [length]. rewrite Nat.add_1_r.
    rewrite <- app_assoc. reflexivity.
Qed.

(* seeking to message i <= n ends at the start of record i *)
Lemma seek_in rs ms t i : Forall2 good_rec rs ms -> (i <= length rs)%nat ->
  seek_loop (concat rs ++ t) i 0 = Ok (Some (length (concat (firstn i rs)) + 0)%nat).
Proof.
  intros H Hi. rewrite (concat_split rs i), <- app_assoc.
  pose proof (seek_file (firstn i rs) (firstn i ms) (concat (skipn i rs) ++ t) 0 (Forall2_firstn _ _ _ i H)) as E.
  rewrite firstn_length, Nat.min_l, Nat.add_0_r in E by exact Hi. rewrite E. reflexivity.
Qed.


(* ---- semantics of the read functions on  concat rs ++ t  (rs good records of ms, t a stopper) ---- *)
Lemma fuel_ok rs ms t i : Forall2 good_rec rs ms -> (length (skipn i rs) < S (length (concat rs ++ t)))%nat.
Proof. intros H. pose proof (good_count _ _ H). rewrite skipn_length, app_length. lia. Qed.

Lemma sem_all_from rs ms t count i : Forall2 good_rec rs ms -> stops t -> (i <= length rs)%nat ->
  pa_loop (S (length (concat rs ++ t))) (concat rs ++ t) (length (concat (firstn i rs)) + 0) count [] =
  Ok (PList (sel count (skipn i ms))).
Proof.
  intros H Ht Hi. pose proof (fuel_ok rs ms t i H) as Hf. revert Hf. generalize (S (length (concat rs ++ t))). intros fuel Hf.
  rewrite (concat_split rs i), <- app_assoc. rewrite pa_shift.
  rewrite (pa_file _ _ _ count (Forall2_skipn _ _ _ i H) Ht fuel [] Hf). cbn [app length]. rewrite takec_sel. reflexivity.
Qed.

Lemma sem_all_none rs ms t count : Forall2 good_rec rs ms -> stops t ->
  parse_all (concat rs ++ t) None count = Ok (PList (sel count ms)).
Proof.
  intros H Ht. unfold parse_all. pose proof (sem_all_from rs ms t count 0 H Ht ltac:(lia)) as E.
  cbn [firstn concat length skipn Nat.add] in E. exact E.
Qed.

Lemma sem_all_skip rs ms t count s : Forall2 good_rec rs ms -> stops t -> s <= Z.of_nat (length rs) ->
  parse_all (concat rs ++ t) (Some s) count = Ok (PList (sel count (skipn (Z.to_nat s) ms))).
Proof.
  intros H Ht Hs. unfold parse_all, seek2msg. rewrite (seek_in rs ms t (Z.to_nat s) H) by lia. cbn [bind].
  apply sem_all_from; [assumption|assumption|lia].
Qed.

(* one record too far, but 3 octets of a further record exist: _seek2msg reads that header, seeks beyond the end and
   reports success; the read loop then finds nothing: [] instead of the range error *)
Lemma sem_all_skip_hdr rs ms t count s : Forall2 good_rec rs ms -> stops t -> s = Z.of_nat (length rs) + 1 -> (3 <= length t)%nat ->
  parse_all (concat rs ++ t) (Some s) count = Ok (PList []).
Proof.
  intros H Ht Hs Hl. unfold parse_all, seek2msg. replace (Z.to_nat s) with (length rs + 1)%nat by lia.
  rewrite (seek_file rs ms t 1 H). destruct Ht as [_ [_ Hh]]. destruct (Hh Hl) as [p [-> Hp]]. cbn [shiftS bind].
  apply pa_beyond. rewrite app_length. lia.
Qed.

Lemma sem_all_range rs ms t count s : Forall2 good_rec rs ms -> stops t -> Z.of_nat (length rs) < s ->
  ((length t < 3)%nat \/ Z.of_nat (length rs) + 1 < s) ->
  parse_all (concat rs ++ t) (Some s) count = Ok PFalse.
Proof.
  intros H Ht Hs Hc. unfold parse_all, seek2msg.
  replace (Z.to_nat s) with (length rs + S (Z.to_nat s - length rs - 1))%nat by lia.
  rewrite (seek_file rs ms t _ H).
  destruct (Z.to_nat s - length rs - 1)%nat as [|j] eqn:Ej.
  - destruct Hc as [Hc|Hc]; [|lia]. destruct Ht as [_ [Hh _]]. rewrite (Hh Hc). reflexivity.
  - rewrite (seek_stops t j Ht). reflexivity.
Qed.

Lemma sem_msg_in rs ms t i m' : Forall2 good_rec rs ms -> nth_error ms (Z.to_nat i) = Some m' ->
  parse_msg (concat rs ++ t) i = Ok (OMsg m').
Proof.
  intros H Hn. unfold parse_msg, seek2msg. set (k := Z.to_nat i) in *.
  assert (Hk : (k < length rs)%nat) by (rewrite (Forall2_len _ _ _ H); apply nth_error_Some; congruence).
  rewrite (seek_in rs ms t k H) by lia. cbn [bind].
  rewrite (concat_split rs k), <- app_assoc. rewrite parse_one_shift.
  destruct (nth_skipn _ _ _ Hn) as [mr Em].
  pose proof (Forall2_skipn _ _ _ k H) as Hs. rewrite Em in Hs. inversion Hs as [|r m0 rr mm Hg Hrest Er Emm]. subst.
  cbn [concat]. rewrite <- app_assoc. rewrite (parse_one_good _ _ _ Hg). reflexivity.
Qed.

Lemma sem_msg_out rs ms t i : Forall2 good_rec rs ms -> stops t -> Z.of_nat (length rs) <= i ->
  parse_msg (concat rs ++ t) i = Ok ONone.
Proof.
  intros H Ht Hi. unfold parse_msg, seek2msg.
  replace (Z.to_nat i) with (length rs + (Z.to_nat i - length rs))%nat by lia.
  rewrite (seek_file rs ms t _ H).
  destruct (Z.to_nat i - length rs)%nat as [|[|j]].
  - cbn [seek_loop shiftS bind]. pose proof (parse_one_shift (concat rs) t 0) as E. rewrite E.
    destruct Ht as [[p ->] _]. reflexivity.
  - destruct (Nat.ltb (length t) 3) eqn:E.
    + apply Nat.ltb_lt in E. destruct Ht as [_ [Hh _]]. rewrite (Hh E). reflexivity.
    + apply Nat.ltb_ge in E. destruct Ht as [_ [_ Hh]]. destruct (Hh E) as [p [-> Hp]]. cbn [shiftS bind].
      destruct (parse_one_beyond (concat rs ++ t) (length (concat rs) + p)) as [q ->]; [rewrite app_length; lia|reflexivity].
  - rewrite (seek_stops t j Ht). reflexivity.
Qed.

(* ---- cutting a file: complete records ++ a stopper ---- *)
Fixpoint ncomplete (rs : list (list Z)) (k : nat) : nat :=
  match rs with
  | [] => 0
  | r :: rest => if Nat.leb (length r) k then S (ncomplete rest (k - length r)) else 0
  end.

Lemma cut_decomp rs ms : Forall2 good_rec rs ms -> forall k,
  exists t, firstn k (concat rs) = concat (firstn (ncomplete rs k) rs) ++ t /\ stops t.
Proof.
  induction 1 as [|r m rs ms Hg _ IH]; intros k.
  - exists []. cbn [concat ncomplete firstn]. rewrite firstn_nil. split; [reflexivity|apply stops_nil].
  - cbn [concat ncomplete]. rewrite firstn_app. destruct (Nat.leb (length r) k) eqn:E.
    + apply Nat.leb_le in E. destruct (IH (k - length r)%nat) as [t [Et Ht]]. exists t. split; [|exact Ht].
      rewrite firstn_all2 by exact E. cbn [firstn concat]. rewrite Et, app_assoc. reflexivity.
    + apply Nat.leb_gt in E. exists (firstn k r). split; [|apply (stops_cut _ _ _ Hg E)].
      replace (k - length r)%nat with 0%nat by lia. cbn [firstn concat app]. apply app_nil_r.
Qed.

Lemma ncomplete_le rs : forall k, (ncomplete rs k <= length rs)%nat.
Proof. induction rs as [|r rs IH]; intros k; cbn [ncomplete length]; [lia|]. destruct (Nat.leb _ _); [specialize (IH (k - length r)%nat)|]; lia. Qed.

(* ncomplete counts exactly the records that end at or before k *)
Lemma ncomplete_spec rs : forall k,
  (length (concat (firstn (ncomplete rs k) rs)) <= k)%nat /\
  ((ncomplete rs k < length rs)%nat -> (k < length (concat (firstn (S (ncomplete rs k)) rs)))%nat).
Proof.
  induction rs as [|r rs IH]; intros k; cbn [ncomplete]; [cbn; lia|].
  destruct (Nat.leb (length r) k) eqn:E.
  - apply Nat.leb_le in E. destruct (IH (k - length r)%nat) as [A B].
    cbn [firstn concat length] in *. rewrite !app_length. split; [lia|]. intros Hlt. specialize (B ltac:(lia)). lia.
  - apply Nat.leb_gt in E. cbn [firstn concat length]. split; [lia|]. intros _. rewrite app_length. lia.
Qed.

(* ================= part 2: TRXD messages ================= *)

(* valid messages: the protocol ranges of C01 / C13; Rx soft bits in [-127, 127] *)
Definition vmsg (m : msg) : Prop :=
  match m with inl t => spec_tx t | inr r => spec_rx r /\ soft_ok r end.
(* the fields a message carries on the wire (all of a TxMsg; 'carried' of an RxMsg) *)
Definition cmsg (m : msg) : msg :=
  match m with inl t => inl t | inr r => inr (carried r) end.
Definition rec_of (m : msg) : list Z := match dump_msg m with Ok r => r | _ => [] end.
Definition file (ms : list msg) : list Z := concat (map rec_of ms).
(* what reading the record of m yields *)
Definition back (m : msg) : msg :=
  match m with
  | inl t => inl t
  | inr r => match gen_rx false r with
             | Ok b => match parse_rx b with Ok r' => inr r' | _ => m end
             | _ => m
             end
  end.

Lemma spec_mod_bl_le i : spec_mod_bl i <= 740.
Proof. unfold spec_mod_bl. do 6 (destruct i as [|i]; [cbn [nth]; lia|]). destruct i; cbn [nth]; lia. Qed.

Lemma gen_rx_len m l b : gen_rx l m = Ok b ->
  (length b <= 13 + match r_burst m with Some bs => length bs | None => 0 end)%nat.
Proof.
  intros H. unfold gen_rx in H. apply bind_ok in H as [[] [_ H]].
  match type of H with Ok ?X = _ => set (xx := X) in H end. injection H as <-. subst xx.
  unfold gen_common, be32, i16. cbv zeta. rewrite !app_length.
  destruct (r_ver m >=? 1); destruct (r_burst m); destruct (l && _); cbn [length app]; rewrite ?map_length; lia.
Qed.

Lemma rx_burst_le m : spec_rx m -> (match r_burst m with Some bs => length bs | None => 0 end <= 740)%nat.
Proof.
  intros [[Hv _] [_ [_ [_ [_ [H0 H1]]]]]]. destruct Hv as [Hv|Hv].
  - destruct (H0 Hv) as [b [-> Hl]]. lia.
  - specialize (H1 Hv). destruct (r_nope m).
    + rewrite H1. lia.
    + destruct H1 as [b [i [-> [_ Hl]]]]. pose proof (spec_mod_bl_le i). lia.
Qed.

Lemma rec_good m : vmsg m ->
  exists raw, (match m with inl t => gen_tx false t | inr r => gen_rx false r end) = Ok raw /\
              (length raw <= 753)%nat /\
              rec_of m = [match m with inl _ => 1 | inr _ => 2 end; Z.of_nat (length raw) / 256; Z.of_nat (length raw) mod 256] ++ raw /\
              dump_msg m = Ok (rec_of m) /\ good_rec (rec_of m) (back m) /\ cmsg (back m) = cmsg m.
Proof.
  destruct m as [t|r]; cbn [vmsg].
  - intros Hs. destruct (tx_encodable t false Hs) as [b Hb]. exists b. split; [exact Hb|].
    assert (Hl : (length b <= 753)%nat).
    { destruct (gen_tx_len _ _ _ Hb) as [bu [Eb ->]]. destruct Hs as [_ [_ [bu' [Eb' Hl]]]]. rewrite Eb in Eb'. injection Eb' as <-.
      cbn [andb]. lia. }
    split; [exact Hl|].
    assert (Ed : dump_msg (inl t) = Ok ([1; Z.of_nat (length b) / 256; Z.of_nat (length b) mod 256] ++ b)).
    { unfold dump_msg. cbv zeta. rewrite Hb. cbn [bind]. destruct (65535 <? Z.of_nat (length b)) eqn:E; [lia|reflexivity]. }
    unfold rec_of. rewrite Ed. split; [reflexivity|]. split; [reflexivity|]. split; [|reflexivity].
    exists false, b. split; [reflexivity|]. split; [lia|]. unfold parse_body. rewrite (tx_roundtrip _ _ _ Hb). reflexivity.
  - intros [Hs Hsoft]. destruct (rx_encodable r false Hs) as [b Hb]. exists b. split; [exact Hb|].
    assert (Hl : (length b <= 753)%nat) by (pose proof (gen_rx_len _ _ _ Hb); pose proof (rx_burst_le _ Hs); lia).
    split; [exact Hl|].
    assert (Ed : dump_msg (inr r) = Ok ([2; Z.of_nat (length b) / 256; Z.of_nat (length b) mod 256] ++ b)).
    { unfold dump_msg. cbv zeta. rewrite Hb. cbn [bind]. destruct (65535 <? Z.of_nat (length b)) eqn:E; [lia|reflexivity]. }
    unfold rec_of. rewrite Ed. split; [reflexivity|]. split; [reflexivity|].
    destruct (rx_roundtrip _ _ _ Hsoft Hb) as [r' [Hp Hc]].
    assert (Eb : back (inr r) = inr r') by (unfold back; rewrite Hb, Hp; reflexivity).
    rewrite Eb. split; [|cbn [cmsg]; rewrite Hc; reflexivity].
    exists true, b. split; [reflexivity|]. split; [lia|]. unfold parse_body. rewrite Hp. reflexivity.
Qed.

Lemma recs_good ms : Forall vmsg ms -> Forall2 good_rec (map rec_of ms) (map back ms) /\ map cmsg (map back ms) = map cmsg ms.
Proof.
  induction 1 as [|m ms Hm _ [IH1 IH2]]; cbn [map]; [split; [constructor|reflexivity]|].
  destruct (rec_good m Hm) as [raw [_ [_ [_ [_ [Hg Hc]]]]]]. split; [constructor; assumption|]. rewrite Hc, IH2. reflexivity.
Qed.

(* ---- writing ---- *)
Lemma append_valid ms : Forall vmsg ms -> forall f0, append_all f0 ms = (f0 ++ file ms, Ok tt).
Proof.
  induction 1 as [|m ms Hm _ IH]; intros f0; cbn [append_all]; [unfold file; cbn [map concat]; rewrite app_nil_r; reflexivity|].
  destruct (rec_good m Hm) as [raw [_ [_ [_ [Ed _]]]]]. unfold append_msg. rewrite Ed. cbn [bind].
  rewrite IH. unfold file. cbn [map concat]. rewrite app_assoc. reflexivity.
Qed.

(* an invalid message raises ValueError out of append_all; the file keeps what was written before it *)
Lemma append_stops_at_invalid ms1 m ms2 f0 : Forall vmsg ms1 -> dump_msg m = VErr ->
  append_all f0 (ms1 ++ m :: ms2) = (f0 ++ file ms1, VErr).
Proof.
  intros H Hm. revert f0. induction H as [|x ms1 Hx _ IH]; intros f0.
  - cbn [app append_all]. unfold append_msg. rewrite Hm. cbn [bind]. unfold file. cbn [map concat]. rewrite app_nil_r. reflexivity.
  - cbn [app append_all]. destruct (rec_good x Hx) as [raw [_ [_ [_ [Ed _]]]]]. unfold append_msg at 1. rewrite Ed. cbn [bind].
    rewrite IH. unfold file. cbn [map concat]. rewrite app_assoc. reflexivity.
Qed.

Lemma dump_invalid_tx t : ~ spec_tx t -> dump_msg (inl t) = VErr.
Proof.
  intros H. unfold dump_msg. cbv zeta. destruct (gen_tx_cases t false) as [[b Hb]|E]; [|rewrite E; reflexivity].
  exfalso. apply H. apply validate_tx_iff. apply (gen_tx_iff t false). eauto.
Qed.
Lemma dump_invalid_rx r : ~ spec_rx r -> dump_msg (inr r) = VErr.
Proof.
  intros H. unfold dump_msg. cbv zeta. destruct (gen_rx_cases r false) as [[b Hb]|E]; [|rewrite E; reflexivity].
  exfalso. apply H. apply validate_rx_iff. apply (gen_rx_iff r false). eauto.
Qed.

(* ---- reading back ---- *)
Definition from_of (skip : option Z) : nat := match skip with Some s => Z.to_nat s | None => 0%nat end.

Lemma file_as_tail ms : file ms = concat (map rec_of ms) ++ [].
Proof. unfold file. rewrite app_nil_r. reflexivity. Qed.

Lemma map_sel {A} (f : msg -> A) count l :
  map f (sel count l) = match count with Some c => if 1 <=? c then firstn (Z.to_nat c) (map f l) else map f l | None => map f l end.
Proof. unfold sel. destruct count as [c|]; [|reflexivity]. destruct (1 <=? c); [symmetry; apply firstn_map|reflexivity]. Qed.

Theorem full_read ms : Forall vmsg ms ->
  exists ms', parse_all (file ms) None None = Ok (PList ms') /\ map cmsg ms' = map cmsg ms.
Proof.
  intros H. destruct (recs_good ms H) as [Hg Hc]. exists (map back ms). split; [|exact Hc].
  rewrite file_as_tail. rewrite (sem_all_none _ _ _ None Hg stops_nil). reflexivity.
Qed.

Theorem index_read ms i : Forall vmsg ms ->
  (0 <= i < Z.of_nat (length ms) ->
     exists m m', nth_error ms (Z.to_nat i) = Some m /\ parse_msg (file ms) i = Ok (OMsg m') /\ cmsg m' = cmsg m) /\
  (Z.of_nat (length ms) <= i -> parse_msg (file ms) i = Ok ONone).
Proof.
  intros H. destruct (recs_good ms H) as [Hg Hc]. rewrite file_as_tail. split.
  - intros Hi. destruct (nth_error ms (Z.to_nat i)) as [m|] eqn:En; [|apply nth_error_None in En; lia].
    exists m, (back m). split; [reflexivity|]. split.
    + apply (sem_msg_in _ _ _ _ _ Hg). rewrite nth_error_map, En. reflexivity.
    + pose proof (f_equal (fun l => nth_error l (Z.to_nat i)) Hc) as E. cbv beta in E.
      rewrite !nth_error_map, En in E. cbn [option_map] in E. congruence.
  - intros Hi. apply (sem_msg_out _ _ _ _ Hg stops_nil). rewrite map_length. exact Hi.
Qed.

Theorem slice_read ms skip count : Forall vmsg ms ->
  (match skip with Some s => s <= Z.of_nat (length ms) | None => True end ->
     exists ms', parse_all (file ms) skip count = Ok (PList ms') /\
                 map cmsg ms' = map cmsg (sel count (skipn (from_of skip) ms))) /\
  (match skip with Some s => Z.of_nat (length ms) < s | None => False end -> parse_all (file ms) skip count = Ok PFalse).
Proof.
  intros H. destruct (recs_good ms H) as [Hg Hc]. rewrite file_as_tail. split.
  - intros Hs. exists (sel count (skipn (from_of skip) (map back ms))). split.
    + destruct skip as [s|]; cbn [from_of skipn].
      * apply (sem_all_skip _ _ _ _ _ Hg stops_nil). rewrite map_length. exact Hs.
      * apply (sem_all_none _ _ _ _ Hg stops_nil).
    + rewrite !map_sel, <- !skipn_map, Hc. reflexivity.
  - destruct skip as [s|]; [|intros []]. intros Hs.
    apply (sem_all_range _ _ _ _ _ Hg stops_nil); [rewrite map_length; exact Hs|left; cbn [length]; lia].
Qed.

(* negative skip / index behave as 0 (range(idx) is empty); skip = 0 is the same as no skip *)
Lemma neg_index f i : i <= 0 -> parse_msg f i = parse_msg f 0.
Proof. intros Hi. unfold parse_msg, seek2msg. replace (Z.to_nat i) with 0%nat by lia. reflexivity. Qed.
Lemma neg_skip f s count : s <= 0 -> parse_all f (Some s) count = parse_all f None count.
Proof. intros Hs. unfold parse_all, seek2msg. replace (Z.to_nat s) with 0%nat by lia. reflexivity. Qed.

(* ---- truncation ---- *)
Definition complete (ms : list msg) (k : nat) : list msg := firstn (ncomplete (map rec_of ms) k) ms.

Lemma cut_file ms k : Forall vmsg ms ->
  exists t, firstn k (file ms) = concat (map rec_of (complete ms k)) ++ t /\ stops t /\
            Forall2 good_rec (map rec_of (complete ms k)) (map back (complete ms k)) /\
            map cmsg (map back (complete ms k)) = map cmsg (complete ms k).
Proof.
  intros H. destruct (recs_good ms H) as [Hg Hc]. destruct (cut_decomp _ _ Hg k) as [t [Et Ht]].
  exists t. unfold complete. rewrite firstn_map in Et. split; [exact Et|]. split; [exact Ht|].
  apply recs_good. apply Forall_firstn'. exact H.
Qed.

Theorem complete_spec ms k :
  exists j, complete ms k = firstn j ms /\ (j <= length ms)%nat /\ (length (file (firstn j ms)) <= k)%nat /\
            ((j < length ms)%nat -> (k < length (file (firstn (S j) ms)))%nat).
Proof.
  exists (ncomplete (map rec_of ms) k). split; [reflexivity|].
  pose proof (ncomplete_le (map rec_of ms) k) as Hle. rewrite map_length in Hle. split; [exact Hle|].
  destruct (ncomplete_spec (map rec_of ms) k) as [A B]. unfold file. rewrite <- !firstn_map. split; [exact A|].
  intros Hj. apply B. rewrite map_length. exact Hj.
Qed.

Theorem truncation_read ms k : Forall vmsg ms ->
  (exists ms', parse_all (firstn k (file ms)) None None = Ok (PList ms') /\ map cmsg ms' = map cmsg (complete ms k)) /\
  (forall i, 0 <= i < Z.of_nat (length (complete ms k)) ->
     exists m m', nth_error (complete ms k) (Z.to_nat i) = Some m /\
                  parse_msg (firstn k (file ms)) i = Ok (OMsg m') /\ cmsg m' = cmsg m) /\
  (forall i, Z.of_nat (length (complete ms k)) <= i -> parse_msg (firstn k (file ms)) i = Ok ONone).
Proof.
  intros H. destruct (cut_file ms k H) as [t [-> [Ht [Hg Hc]]]]. set (cs := complete ms k) in *. clearbody cs. split; [|split].
  - exists (map back cs). split; [|exact Hc]. rewrite (sem_all_none _ _ _ None Hg Ht). reflexivity.
  - intros i Hi. destruct (nth_error cs (Z.to_nat i)) as [m|] eqn:En; [|apply nth_error_None in En; lia].
    exists m, (back m). split; [reflexivity|]. split.
    + apply (sem_msg_in _ _ _ _ _ Hg). rewrite nth_error_map, En. reflexivity.
    + pose proof (f_equal (fun l => nth_error l (Z.to_nat i)) Hc) as E. cbv beta in E.
      rewrite !nth_error_map, En in E. cbn [option_map] in E. congruence.
  - intros i Hi. apply (sem_msg_out _ _ _ _ Hg Ht). rewrite map_length. exact Hi.
Qed.

(* skip / count on a cut file; 'rest' = the octets of the unfinished record that survive the cut *)
Theorem truncation_slice ms k skip count : Forall vmsg ms ->
  let cs := complete ms k in
  let rest := (length (firstn k (file ms)) - length (file cs))%nat in
  (match skip with Some s => s <= Z.of_nat (length cs) | None => True end ->
     exists ms', parse_all (firstn k (file ms)) skip count = Ok (PList ms') /\
                 map cmsg ms' = map cmsg (sel count (skipn (from_of skip) cs))) /\
  (match skip with Some s => s = Z.of_nat (length cs) + 1 /\ (3 <= rest)%nat | None => False end ->
     parse_all (firstn k (file ms)) skip count = Ok (PList [])) /\
  (match skip with Some s => Z.of_nat (length cs) < s /\ ((rest < 3)%nat \/ Z.of_nat (length cs) + 1 < s) | None => False end ->
     parse_all (firstn k (file ms)) skip count = Ok PFalse).
Proof.
  intros H. cbv zeta. destruct (cut_file ms k H) as [t [Ef [Ht [Hg Hc]]]].
  assert (Hrest : (length (firstn k (file ms)) - length (file (complete ms k)))%nat = length t).
  { rewrite Ef. unfold file. rewrite app_length. lia. }
  rewrite Hrest. rewrite Ef. set (cs := complete ms k) in *. clearbody cs. split; [|split].
  - intros Hs. exists (sel count (skipn (from_of skip) (map back cs))). split.
    + destruct skip as [s|]; cbn [from_of skipn].
      * apply (sem_all_skip _ _ _ _ _ Hg Ht). rewrite map_length. exact Hs.
      * apply (sem_all_none _ _ _ _ Hg Ht).
    + rewrite !map_sel, <- !skipn_map, Hc. reflexivity.
  - destruct skip as [s|]; [|intros []]. intros [Hs Hl].
    apply (sem_all_skip_hdr _ _ _ _ _ Hg Ht); [rewrite map_length; exact Hs|exact Hl].
  - destruct skip as [s|]; [|intros []]. intros [Hs Hc'].
    apply (sem_all_range _ _ _ _ _ Hg Ht); rewrite map_length; assumption.
Qed.

(* a record whose body does not parse is skipped by parse_all (the value False of _parse_msg) *)
Lemma pa_skips_unparsable b raw rest fuel count acc : Z.of_nat (length raw) < 65536 -> parse_body b raw = OFalse ->
  pa_loop (S fuel) ((hdr_of b (length raw) ++ raw) ++ rest) 0 count acc = pa_loop fuel rest 0 count acc.
Proof.
  intros Hn Hp. cbn [pa_loop]. unfold parse_one. cbv zeta. rewrite <- app_assoc.
  rewrite <- (hdr_of_len b (length raw)). rewrite fread_exact. rewrite Nat.eqb_refl. cbn [negb].
  rewrite parse_hdr_of by exact Hn. cbn [bind].
  replace (0 + length (hdr_of b (length raw)))%nat with (length (hdr_of b (length raw)) + 0)%nat by lia.
  rewrite fread_shift. rewrite fread_exact. rewrite Nat.eqb_refl. cbn [negb]. rewrite Hp.
  rewrite app_assoc.
  pose proof (pa_shift (hdr_of b (length raw) ++ raw) rest count fuel 0%nat acc) as E.
  rewrite app_length, Nat.add_0_r in E. rewrite <- E. cbn [bind]. f_equal; lia.
Qed.

(* ---- non-vacuity: a mixed capture (Tx v1 8-PSK, Rx v1 NOPE, Rx v1 GMSK-AB, Rx v0) ---- *)
Definition ex_tx : txmsg := {| t_ver := 1; t_fn := Some 2715647; t_tn := Some 7; t_pwr := Some 255; t_burst := Some (repeat 1 444) |}.
Definition ex_nope : rxmsg := {| r_ver := 1; r_fn := Some 0; r_tn := Some 0; r_rssi := Some (-47); r_toa := Some 32767;
                                 r_nope := true; r_mod := None; r_tset := None; r_tsc := None; r_ci := Some 1280; r_burst := None |}.
Definition ex_rx : rxmsg := {| r_ver := 1; r_fn := Some 2715647; r_tn := Some 7; r_rssi := Some (-120); r_toa := Some (-32768);
                               r_nope := false; r_mod := Some 2%nat; r_tset := Some 1; r_tsc := Some 7; r_ci := Some (-1280);
                               r_burst := Some (repeat (-127) 148) |}.
Definition ex_rx0 : rxmsg := {| r_ver := 0; r_fn := Some 65536; r_tn := Some 3; r_rssi := Some (-60); r_toa := Some (-1);
                                r_nope := false; r_mod := Some 0%nat; r_tset := None; r_tsc := None; r_ci := None;
                                r_burst := Some (repeat 127 148) |}.
Definition ex_ms : list msg := [inl ex_tx; inr ex_nope; inr ex_rx; inr ex_rx0].

Lemma soft_repeat x n : -127 <= x <= 127 -> Forall (fun s => -127 <= s <= 127) (repeat x n).
Proof. intros Hx. apply Forall_forall. intros y Hy. apply repeat_spec in Hy. lia. Qed.

Example ex_valid : Forall vmsg ex_ms.
Proof.
  unfold ex_ms. apply Forall_cons; [|apply Forall_cons; [|apply Forall_cons; [|apply Forall_cons; [|apply Forall_nil]]]]; cbn [vmsg].
  - apply validate_tx_iff. vm_compute. reflexivity.
  - split; [apply validate_rx_iff; vm_compute; reflexivity|exact I].
  - split; [apply validate_rx_iff; vm_compute; reflexivity|]. unfold soft_ok, ex_rx. cbn [r_burst]. apply soft_repeat. lia.
  - split; [apply validate_rx_iff; vm_compute; reflexivity|]. unfold soft_ok, ex_rx0. cbn [r_burst]. apply soft_repeat. lia.
Qed.
Example ex_cuts : length (file ex_ms) = 788%nat /\ complete ex_ms 787 = firstn 3 ex_ms /\ complete ex_ms 788 = ex_ms
                  /\ complete ex_ms 452 = [] /\ complete ex_ms 453 = [inl ex_tx].
Proof. vm_compute. repeat split; reflexivity. Qed.

Lemma record_format m : vmsg m ->
  exists raw, (match m with inl t => gen_tx false t | inr r => gen_rx false r end) = Ok raw /\ (length raw <= 753)%nat /\
              dump_msg m = Ok ([match m with inl _ => 1 | inr _ => 2 end; Z.of_nat (length raw) / 256; Z.of_nat (length raw) mod 256] ++ raw).
Proof. intros H. destruct (rec_good m H) as [raw [A [B [C [D _]]]]]. exists raw. rewrite <- C. auto. Qed.
