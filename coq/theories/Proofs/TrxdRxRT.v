(* RxMsg round trip (C01) and layout (C04) *)
From Coq Require Import ZArith List Bool Lia ZifyBool.
From OBB Require Import Base.Range Gen.TrxdConst Model.Trxd Proofs.TrxdBase Proofs.TrxdTx Proofs.TrxdRx.
Import ListNotations.
Open Scope Z_scope.
Ltac Zify.zify_post_hook ::= Z.to_euclidean_division_equations.

Definition soft_ok (m : rxmsg) : Prop :=
  match r_burst m with Some b => Forall (fun s => -127 <= s <= 127) b | None => True end.

(* MTS octet: finite sweep over 6 modulations x 4 sets x 8 TSC under the TSC-set validity guard *)
Definition tset_ok (i : nat) (s : Z) : bool := if Nat.eqb i 0 then (0 <=? s) && (s <? 4) else (0 <=? s) && (s <? 2).
Definition opt4_eqb (x y : bool * option nat * option Z * option Z) : bool :=
  match x, y with
  | (a, Some b, Some c, Some d), (a', Some b', Some c', Some d') => Bool.eqb a a' && Nat.eqb b b' && (c =? c') && (d =? d')
  | _, _ => false end.
Definition mts_val (i : nat) (s t : Z) : Z := Z.lor (Z.lor (Z.land t 7) (Z.shiftl (mod_coding i) 3)) (Z.shiftl s 3).
Lemma sweep_mts : forallb (fun i => forallb (fun s => forallb (fun t =>
    implb (tset_ok (Z.to_nat i) s)
      (opt4_eqb (parse_mts (mts_val (Z.to_nat i) s t)) (false, Some (Z.to_nat i), Some s, Some t)
       && (0 <=? mts_val (Z.to_nat i) s t) && (mts_val (Z.to_nat i) s t <? 128)
       && (mts_val (Z.to_nat i) s t =? t + 8 * (mod_coding (Z.to_nat i) + s))))
    (range 0 8)) (range 0 4)) (range 0 6) = true.
Proof. vm_compute. reflexivity. Qed.
Lemma opt4_eqb_eq x a b c d : opt4_eqb x (a, Some b, Some c, Some d) = true -> x = (a, Some b, Some c, Some d).
Proof.
  destruct x as [[[a' [b'|]] [c'|]] [d'|]]; cbn [opt4_eqb]; try discriminate. intros H.
  apply andb_prop in H as [H Hd]. apply andb_prop in H as [H Hc]. apply andb_prop in H as [Ha Hb].
  apply Bool.eqb_prop in Ha. apply Nat.eqb_eq in Hb. repeat f_equal; try lia; congruence.
Qed.
Lemma mts_rt i s t : (i < 6)%nat -> tset_ok i s = true -> 0 <= s < 4 -> 0 <= t < 8 ->
  parse_mts (mts_val i s t) = (false, Some i, Some s, Some t) /\ 0 <= mts_val i s t < 128
  /\ mts_val i s t = t + 8 * (mod_coding i + s).
Proof.
  intros Hi Hs Hs' Ht. assert (Hi' : 0 <= Z.of_nat i < 6) by lia.
  pose proof (forallb_range _ _ _ (forallb_range _ _ _ (forallb_range _ _ _ sweep_mts _ Hi') s Hs') t Ht) as H.
  cbv beta in H. rewrite Nat2Z.id in H. rewrite Hs in H. cbn [implb] in H.
  apply andb_prop in H as [H H3]. apply andb_prop in H as [H H2]. apply andb_prop in H as [H0 H1].
  split; [apply opt4_eqb_eq, H0|]. lia.
Qed.

Lemma pick_by_bl_v0 n pad : (n = 148%nat \/ n = 444%nat) -> (pad = 0%nat \/ pad = 2%nat) ->
  exists i, (match pick_by_bl (Z.of_nat (n + pad)) with Some i => Some i | None => pick_by_bl (Z.of_nat (n + pad) - 2) end) = Some i
            /\ mod_bl i = Z.of_nat n.
Proof.
  intros [-> | ->] [-> | ->]; [exists 0%nat | exists 0%nat | exists 1%nat | exists 1%nat]; split; reflexivity.
Qed.

Lemma mod_bl_pos i : (i < 6)%nat -> 0 < mod_bl i.
Proof. intros Hi. rewrite mod_bl_spec. unfold spec_mod_bl. do 6 (destruct i as [|i]; [cbn; lia|]). lia. Qed.

(* documented layout of an Rx message: common header, negated RSSI, BE ToA256, (v1: MTS octet, BE C/I), unsigned soft bits 127 - s *)
Definition layout_rx_hdr (ver fn tn rssi toa : Z) : list Z :=
  [ver * 16 + tn; fn / 16777216 mod 256; fn / 65536 mod 256; fn / 256 mod 256; fn mod 256; - rssi;
   toa mod 65536 / 256; toa mod 65536 mod 256].
Definition layout_ci (ci : Z) : list Z := [ci mod 65536 / 256; ci mod 65536 mod 256].
Definition usbits (b : list Z) : list Z := map (fun s => 127 - s) b.

Lemma map_s2us b : Forall (fun s => -128 <= s <= 127) b -> map s2us b = usbits b.
Proof. induction 1 as [|s l Hs _ IH]; cbn [map usbits]; [reflexivity|]. fold (usbits l). rewrite IH, s2us_f by lia. reflexivity. Qed.

Theorem rx_roundtrip m legacy b :
  soft_ok m -> gen_rx legacy m = Ok b -> exists m', parse_rx b = Ok m' /\ carried m' = carried m.
Proof.
  intros Hsoft Hgen. unfold gen_rx in Hgen. apply bind_ok in Hgen as [[] [Hval Hgen]].
  match type of Hgen with Ok ?X = _ => set (xx := X) in Hgen end. injection Hgen as <-. subst xx.
  apply validate_rx_iff in Hval.
  destruct Hval as [[Hver [[f [Ef Hf]] [t [Et Ht]]]] [[r [Er Hr]] [[a [Ea Ha]] [Hmts [Hci Hb]]]]].
  unfold spec_rx_burst, spec_mts in *. destruct m as [v fn0 tn0 rs0 to0 np mt ts tc ci0 bu].
  cbn [r_ver r_fn r_tn r_rssi r_toa r_nope r_mod r_tset r_tsc r_ci r_burst] in *. subst fn0 tn0 rs0 to0.
  unfold gen_common, oz. unfold soft_ok in Hsoft. cbn [r_burst] in Hsoft.
  destruct (b0_rt v t ltac:(lia) ltac:(lia)) as [Hb1 [Hb2 _]].
  set (b0 := Z.lor (Z.shiftl v 4) (Z.land t 7)) in *. clearbody b0.
  assert (Hk : known v = true) by (apply known_iff; exact Hver).
  destruct Hver as [-> | ->].
  - (* version 0 *)
    destruct Hb as [Hb _]. destruct (Hb eq_refl) as [bs [-> Hl]].
    change (0 >=? 1) with false. change (0 =? 0) with true. rewrite andb_true_r. cbv iota.
    set (pad := if legacy then [0; 0] else []).
    assert (Hpl : length pad = 0%nat \/ length pad = 2%nat) by (subst pad; destruct legacy; cbn; auto).
    unfold be32, i16. cbv zeta. cbn [app].
    unfold parse_rx. cbn [length Nat.ltb Nat.leb idx nth_error bind]. rewrite Hb1, Hk. cbn [negb].
    unfold slice. cbn [skipn Nat.sub firstn].
    change [f / 16777216 mod 256; f / 65536 mod 256; f / 256 mod 256; f mod 256] with (be32 f).
    rewrite be32_rt by lia. cbn [bind]. change (rx_hdr_len 0) with (@Ok nat 8%nat). cbn [bind Nat.ltb Nat.leb idx nth_error].
    change [a mod 65536 / 256; a mod 65536 mod 256] with (i16 a). rewrite i16_rt by lia. cbn [bind].
    change (0 >=? 1) with false. cbv iota. cbn [bind Nat.eqb skipn].
    destruct (map s2us bs ++ pad) as [|x xs] eqn:Ebp.
    { exfalso. apply (f_equal (@length Z)) in Ebp. rewrite app_length, map_length in Ebp. cbn in Ebp. lia. }
    cbn [length Nat.eqb]. change (S (length xs)) with (length (x :: xs)). rewrite <- Ebp. change (0 =? 0) with true. cbv iota.
    rewrite app_length, map_length.
    destruct (pick_by_bl_v0 (length bs) (length pad) Hl Hpl) as [i [Hpick Hmb]]. rewrite Hpick.
    eexists. split; [reflexivity|]. unfold carried. cbn [r_ver r_fn r_tn r_rssi r_toa r_nope r_mod r_tset r_tsc r_ci r_burst].
    change (0 =? 0) with true. cbv iota. rewrite Hb2. rewrite Z.opp_involutive.
    rewrite Hmb, Nat2Z.id. rewrite firstn_app_exact by (rewrite map_length; reflexivity). rewrite us_rt by assumption. reflexivity.
  - (* version 1 *)
    destruct (Hci eq_refl) as [c [-> Hc]]. destruct Hb as [_ Hb]. specialize (Hb eq_refl).
    change (1 >=? 1) with true. change (1 =? 0) with false. rewrite andb_false_r. cbv iota. rewrite app_nil_r.
    unfold be32, i16. cbv zeta. cbn [app].
    destruct np.
    + (* NOPE indication *)
      cbn [r_nope] in Hb. cbn [r_burst] in Hb. subst bu.
      unfold gen_mts. cbn [r_nope]. rewrite gen_nope. cbn [app].
      unfold parse_rx. cbn [length Nat.ltb Nat.leb idx nth_error bind]. rewrite Hb1, Hk. cbn [negb].
      unfold slice. cbn [skipn Nat.sub firstn].
      change [f / 16777216 mod 256; f / 65536 mod 256; f / 256 mod 256; f mod 256] with (be32 f).
      rewrite be32_rt by lia. cbn [bind]. change (rx_hdr_len 1) with (@Ok nat 11%nat). cbn [bind Nat.ltb Nat.leb idx nth_error].
      change [a mod 65536 / 256; a mod 65536 mod 256] with (i16 a). rewrite i16_rt by lia. cbn [bind].
      change (1 >=? 1) with true. cbv iota. cbn [bind idx nth_error].
      change [c mod 65536 / 256; c mod 65536 mod 256] with (i16 c). rewrite i16_rt by lia. cbn [bind].
      replace (parse_mts 128) with (true, @None nat, @None Z, @None Z) by (unfold parse_mts; rewrite gen_nope; reflexivity).
      cbn [Nat.eqb]. eexists. split; [reflexivity|]. unfold carried. cbn [r_ver r_nope]. change (1 =? 0) with false. cbv iota.
      cbn [r_fn r_tn r_rssi r_toa r_ci r_burst]. rewrite Hb2, Z.opp_involutive. reflexivity.
    + cbn [r_nope] in Hb. destruct Hb as [bs [i [Ebu [Emt Hlen]]]]. cbn [r_burst r_mod] in Ebu, Emt. subst bu mt.
      destruct (Hmts eq_refl eq_refl) as [i' [s [tc' [Ei [Hi [Es [Etc [Htc Hs]]]]]]]].
      cbn [r_mod r_tset r_tsc] in Ei, Es, Etc. injection Ei as <-. subst ts tc.
      assert (Hts : tset_ok i s = true /\ 0 <= s < 4) by (unfold tset_ok; destruct (Nat.eqb i 0); split; lia).
      destruct Hts as [Hts Hs4].
      unfold gen_mts. cbn [r_nope r_tsc r_mod r_tset]. fold (mts_val i s tc').
      destruct (mts_rt i s tc' Hi Hts Hs4 ltac:(lia)) as [Hpm [Hmr _]].
      set (mts := mts_val i s tc') in *. clearbody mts.
      unfold parse_rx. cbn [length Nat.ltb Nat.leb idx nth_error bind]. rewrite Hb1, Hk. cbn [negb].
      unfold slice. cbn [skipn Nat.sub firstn].
      change [f / 16777216 mod 256; f / 65536 mod 256; f / 256 mod 256; f mod 256] with (be32 f).
      rewrite be32_rt by lia. cbn [bind]. change (rx_hdr_len 1) with (@Ok nat 11%nat). cbn [bind Nat.ltb Nat.leb idx nth_error].
      change [a mod 65536 / 256; a mod 65536 mod 256] with (i16 a). rewrite i16_rt by lia. cbn [bind].
      change (1 >=? 1) with true. cbv iota. cbn [bind idx nth_error].
      change [c mod 65536 / 256; c mod 65536 mod 256] with (i16 c). rewrite i16_rt by lia. cbn [bind].
      rewrite Hpm. cbn [skipn].
      destruct (map s2us bs) as [|x xs] eqn:Ebp.
      { exfalso. apply (f_equal (@length Z)) in Ebp. rewrite map_length in Ebp. cbn in Ebp.
        pose proof (mod_bl_pos i Hi). rewrite mod_bl_spec in *. lia. }
      cbn [length Nat.eqb]. rewrite <- Ebp. change (1 =? 0) with false. cbv iota.
      eexists. split; [reflexivity|]. unfold carried. cbn [r_ver r_nope]. change (1 =? 0) with false. cbv iota.
      rewrite Hb2, Z.opp_involutive, us_rt by assumption. reflexivity.
Qed.

(* legacy padding does not change what a version-0 message decodes to *)
Lemma rx_legacy_same m b1 b2 : soft_ok m -> gen_rx true m = Ok b1 -> gen_rx false m = Ok b2 ->
  exists m1 m2, parse_rx b1 = Ok m1 /\ parse_rx b2 = Ok m2 /\ carried m1 = carried m2.
Proof.
  intros Hs H1 H2. destruct (rx_roundtrip _ _ _ Hs H1) as [m1 [P1 C1]]. destruct (rx_roundtrip _ _ _ Hs H2) as [m2 [P2 C2]].
  exists m1, m2. repeat split; try assumption. congruence.
Qed.

(* C04: the octets are exactly the documented layout *)
Lemma gen_rx_layout m l b : gen_rx l m = Ok b -> (match r_burst m with Some bs => Forall (fun s => -128 <= s <= 127) bs | None => True end) ->
  exists fn tn rssi toa, r_fn m = Some fn /\ r_tn m = Some tn /\ r_rssi m = Some rssi /\ r_toa m = Some toa /\
    b = layout_rx_hdr (r_ver m) fn tn rssi toa
        ++ (if r_ver m =? 1 then [gen_mts m] ++ layout_ci (oz (r_ci m)) else [])
        ++ (match r_burst m with Some bs => usbits bs | None => [] end)
        ++ (if l && (r_ver m =? 0) then [0; 0] else []).
Proof.
  intros Hgen Hbytes. unfold gen_rx in Hgen. apply bind_ok in Hgen as [[] [Hval Hgen]].
  match type of Hgen with Ok ?X = _ => set (xx := X) in Hgen end. injection Hgen as <-. subst xx.
  apply validate_rx_iff in Hval.
  destruct Hval as [[Hver [[f [Ef Hf]] [t [Et Ht]]]] [[r [Er Hr]] [[a [Ea Ha]] _]]].
  exists f, t, r, a. repeat (split; [assumption|]).
  rewrite Ef, Et, Er, Ea. unfold gen_common, layout_rx_hdr, layout_ci, be32, i16, oz at 1 2 3 4. cbv zeta.
  rewrite b0_val by lia.
  assert (E : (r_ver m >=? 1) = (r_ver m =? 1)) by (destruct Hver as [-> | ->]; reflexivity). rewrite E.
  destruct (r_burst m) as [bs|]; [rewrite map_s2us by assumption|]; reflexivity.
Qed.

Example rx_valid_example :
  exists b, gen_rx false {| r_ver := 1; r_fn := Some 2715647; r_tn := Some 7; r_rssi := Some (-120); r_toa := Some (-32768);
                            r_nope := false; r_mod := Some 2%nat; r_tset := Some 1; r_tsc := Some 7; r_ci := Some (-1280);
                            r_burst := Some (repeat (-127) 148) |} = Ok b /\ length b = 159%nat.
Proof. eexists. split; [vm_compute; reflexivity|reflexivity]. Qed.

(* every valid message is encodable, so the round trips are not vacuous *)
Lemma tx_encodable m l : spec_tx m -> exists b, gen_tx l m = Ok b.
Proof. intros H. apply gen_tx_iff, validate_tx_iff, H. Qed.
Lemma rx_encodable m l : spec_rx m -> exists b, gen_rx l m = Ok b.
Proof. intros H. apply gen_rx_iff, validate_rx_iff, H. Qed.

(* DATAInterface.send_msg emits exactly one datagram for a message that validates and nothing otherwise *)
Lemma send_tx_iff m l : (exists b, send_tx l m = Ok [b]) <-> validate_tx m = Ok tt.
Proof.
  unfold send_tx. split.
  - intros [b H]. apply gen_tx_iff with (l := l). destruct (gen_tx l m) as [b'| |]; [eauto|discriminate|discriminate].
  - intros H. apply (gen_tx_iff m l) in H as [b ->]. eauto.
Qed.
Lemma send_tx_none m l : validate_tx m <> Ok tt -> send_tx l m = Ok [].
Proof.
  intros H. unfold send_tx. destruct (gen_tx_cases m l) as [[b E]| ->]; [|reflexivity].
  exfalso. apply H. apply (gen_tx_iff m l). eauto.
Qed.
Lemma send_rx_iff m l : (exists b, send_rx l m = Ok [b]) <-> validate_rx m = Ok tt.
Proof.
  unfold send_rx. split.
  - intros [b H]. apply gen_rx_iff with (l := l). destruct (gen_rx l m) as [b'| |]; [eauto|discriminate|discriminate].
  - intros H. apply (gen_rx_iff m l) in H as [b ->]. eauto.
Qed.
Lemma send_rx_none m l : validate_rx m <> Ok tt -> send_rx l m = Ok [].
Proof.
  intros H. unfold send_rx. destruct (gen_rx_cases m l) as [[b E]| ->]; [|reflexivity].
  exfalso. apply H. apply (gen_rx_iff m l). eauto.
Qed.
