(* C17: the documented structure of the TRXD PDUs, written by hand in the C16 embedding, and the obligation that the
   definitions reflected from trxd_proto.py (Gen/TrxdProto.v) are exactly these.
   Field names: 0 ver, 1 tn, 2 fn, 3 rssi, 4 toa256, 5 soft-bits, 6 pad, 7 pwr, 8 hard-bits, 9 nope, 10 mod, 11 tsc,
   12 cir, 13 batch, 14 shadow, 15 trxn, 16 scpir, 17 bpdu. *)
From Coq Require Import ZArith List Bool Lia.
From OBB Require Import Gen.TrxdProto Base.Range Base.Bits Model.Codec Proofs.CodecInt Proofs.CodecBits Proofs.CodecRT Proofs.CodecDE Proofs.CodecErr.
Import ListNotations.
Open Scope Z_scope.

(* ---------------------------------------------------------------- building blocks *)
(* TRXDv0/v1 header octet: VER(4) RFU(1) TN(3) *)
Definition hdr01_bits (v:Z) : list bitf := [BitF (Some 0%nat) 4 (Some v); BitF None 1 None; BitF (Some 1%nat) 3 None].
Definition hdr01 (v:Z) : field := FBits (LFix 1) PAlways false (hdr01_bits v).
(* TRXDv2 header: VER(4) RFU(1) TN(3) | BATCH(1) RFU(1) TRXN(6) *)
Definition hdr2_bits : list bitf :=
  [BitF (Some 0%nat) 4 (Some 2); BitF None 1 None; BitF (Some 1%nat) 3 None; BitF (Some 13%nat) 1 None; BitF None 1 None; BitF (Some 15%nat) 6 None].
Definition hdr2 : field := FBits (LFix 2) PAlways false hdr2_bits.
(* header of a batched sub-PDU: RFU(4) RFU(1) TN(3) | BATCH(1) SHADOW(1) TRXN(6) *)
Definition hdr2b_bits : list bitf :=
  [BitF None 4 None; BitF None 1 None; BitF (Some 1%nat) 3 None; BitF (Some 13%nat) 1 None; BitF (Some 14%nat) 1 None; BitF (Some 15%nat) 6 None].
Definition hdr2b : field := FBits (LFix 2) PAlways false hdr2b_bits.
(* Modulation and Training Sequence octet: NOPE(1) MOD(4) TSC(3) *)
Definition mts_bits : list bitf := [BitF (Some 9%nat) 1 None; BitF (Some 10%nat) 4 None; BitF (Some 11%nat) 3 None].
Definition mts : field := FBits (LFix 1) PAlways false mts_bits.
(* burst length by the 4 modulation bits: GMSK 148 (0..3), 8-PSK 444 (4,5), GMSK access burst 148 (6), 16QAM 592 (8,9),
   32QAM 740 (10,11), AQPSK 296 (12..15); code 7 has no entry *)
Definition burst_tab : list (Z * nat) :=
  [(0, 148%nat); (1, 148%nat); (2, 148%nat); (3, 148%nat); (4, 444%nat); (5, 444%nat); (6, 148%nat); (8, 592%nat); (9, 592%nat);
   (10, 740%nat); (11, 740%nat); (12, 296%nat); (13, 296%nat); (14, 296%nat); (15, 296%nat)].
(* BurstBits: length by MOD, absent in NOPE indications *)
Definition burst (nm:nat) : field := FBuf nm (LTab 10 burst_tab) (PTab 9 [(0, true); (1, false)]).
Definition u8 (nm:nat) : field := FUint nm (LFix 1) PAlways false false 0 1.
Definition i8 (nm:nat) : field := FUint nm (LFix 1) PAlways false true 0 1.
Definition i16be (nm:nat) : field := FUint nm (LFix 2) PAlways false true 0 1.
Definition u32be (nm:nat) : field := FUint nm (LFix 4) PAlways false false 0 1.
Definition rssi_f : field := FUint 3 (LFix 1) PAlways false false 0 (-1).     (* RSSI is sent negated *)

(* ---------------------------------------------------------------- the PDUs *)
Definition spec_v0_rx (rule:lensrc) : list field := [hdr01 0; u32be 2; rssi_f; i16be 4; FBuf 5 rule PAlways; FBuf 6 LRest PAlways].
Definition spec_v01_tx (v:Z) : list field := [hdr01 v; u32be 2; u8 7; FBuf 8 LRest PAlways].
Definition spec_v1_rx : list field := [hdr01 1; u32be 2; rssi_f; i16be 4; mts; i16be 12; burst 5].
Definition spec_v2_rx_item : list field := [hdr2b; mts; rssi_f; i16be 4; i16be 12; burst 5].
Definition spec_v2_rx : list field := [hdr2; mts; rssi_f; i16be 4; i16be 12; u32be 2; burst 5; FSeq 17 LRest PAlways spec_v2_rx_item].
Definition spec_v2_tx_item : list field := [hdr2b; mts; u8 7; i8 16; FSpare (LFix 3) PAlways 0; burst 8].
Definition spec_v2_tx : list field := [hdr2; mts; u8 7; i8 16; FSpare (LFix 3) PAlways 0; u32be 2; burst 8; FSeq 17 LRest PAlways spec_v2_tx_item].

(* the PDUv0Rx soft-bit length rule is taken from the source as it is (table-driven) *)
Definition v0rx_rule : lensrc := match nth_error pdu_v0_rx 4 with Some f => flen f | None => LRest end.
Definition rule_at (n:nat) : res nat := get_len v0rx_rule [] n.

Lemma defs_eq :
  pdu_v0_rx = spec_v0_rx v0rx_rule /\ (exists thr a b, v0rx_rule = LDataLen thr a b) /\
  pdu_v0_tx = spec_v01_tx 0 /\ pdu_v1_rx = spec_v1_rx /\ pdu_v1_tx = spec_v01_tx 1 /\
  pdu_v2_rx = spec_v2_rx /\ pdu_v2_tx = spec_v2_tx /\
  (pdu_v0_rx_chk = true /\ pdu_v0_tx_chk = true /\ pdu_v1_rx_chk = true /\ pdu_v1_tx_chk = true /\ pdu_v2_rx_chk = true /\ pdu_v2_tx_chk = true) /\
  burst_len_unknown = [7].
Proof.
  split; [reflexivity|]. split; [do 3 eexists; reflexivity|]. do 5 (split; [reflexivity|]).
  split; [repeat split; reflexivity|reflexivity].
Qed.

(* the points of the rule that the message codec's datagrams need: GMSK, legacy-padded GMSK, EDGE, legacy-padded EDGE *)
Lemma rule_points : rule_at 148 = Ok 148%nat /\ rule_at 150 = Ok 148%nat /\ rule_at 444 = Ok 444%nat /\ rule_at 446 = Ok 444%nat.
Proof. repeat split; reflexivity. Qed.
Lemma rule_env e n : get_len v0rx_rule e n = rule_at n.
Proof. unfold rule_at. destruct (proj1 (proj2 defs_eq)) as [thr [a [b E]]]. rewrite E. reflexivity. Qed.

(* ---------------------------------------------------------------- well-formedness: C16 applies *)
Definition all_pdus : list (list field) := [pdu_v0_rx; pdu_v0_tx; pdu_v1_rx; pdu_v1_tx; pdu_v2_rx; pdu_v2_tx].

Lemma pdus_wf : forallb (fun fs => wfb fs && proto_ok fs && seq_ok fs) all_pdus = true.
Proof. vm_compute. reflexivity. Qed.

Lemma pdu_wf fs : In fs all_pdus -> wfb fs = true /\ proto_ok fs = true /\ seq_ok fs = true.
Proof.
  intros Hin. pose proof (forallb_In _ _ pdus_wf fs Hin) as H. cbv beta in H.
  apply andb_true_iff in H as [H H3]. apply andb_true_iff in H as [H1 H2]. auto.
Qed.

(* burst length by modulation code, as a function *)
Definition burst_len_spec (m:Z) : option nat :=
  if (0 <=? m) && (m <=? 3) then Some 148%nat else if (4 <=? m) && (m <=? 5) then Some 444%nat else if m =? 6 then Some 148%nat
  else if (8 <=? m) && (m <=? 9) then Some 592%nat else if (10 <=? m) && (m <=? 11) then Some 740%nat
  else if (12 <=? m) && (m <=? 15) then Some 296%nat else None.
Lemma burst_tab_spec_sweep : forallb (fun m => match assocZ m burst_tab, burst_len_spec m with
    | Some a, Some b => Nat.eqb a b | None, None => true | _, _ => false end) (range 0 16) = true.
Proof. vm_compute. reflexivity. Qed.
Lemma burst_tab_spec m : 0 <= m < 16 -> assocZ m burst_tab = burst_len_spec m.
Proof.
  intros Hm. pose proof (forallb_range _ _ _ burst_tab_spec_sweep m Hm) as H. cbv beta in H.
  destruct (assocZ m burst_tab) as [a|], (burst_len_spec m) as [b|]; try discriminate; [apply Nat.eqb_eq in H; congruence|reflexivity].
Qed.
