(* Lemmas about Model/MobAllocBand.v (C20): the final loop of gsm48_rr_render_ma. *)
From Coq Require Import ZArith List Bool Lia ZifyBool.
From OBB Require Import Base.Range Gen.MobAllocConst Gen.MobAllocSi4Const Model.MobAlloc Model.MobAllocSi4 Model.MobAllocCd Model.MobAllocBand Proofs.MobAllocP Proofs.MobAllocSi4P.
Import ListNotations.
Open Scope Z_scope.
Ltac Zify.zify_post_hook ::= Z.to_euclidean_division_equations.

Lemma band_constants : c_ARFCN_PCS = 32768 /\ c_ARFCN_FLAG_MASK = 61440 /\ c_CAUSE_FREQ_NOT_IMPL = 8 /\ c_FREQ_MAP_SIZE = 166.
Proof. repeat split; reflexivity. Qed.

(* the conversion and the index for every decoded channel number, PCS cell and other cell *)
Lemma pcs_sweep : forallb (fun a =>
    ((if (512 <=? a) && (a <=? 810) then Z.lor a c_ARFCN_PCS else a) =? conv true a) && (arfcn2index (conv true a) =? bidx true a) &&
    (Z.land (conv true a) 1023 =? a) && Bool.eqb (Z.testbit (conv true a) 15) ((512 <=? a) && (a <=? 810)) && (bidx true a <? 1323) && (0 <=? bidx true a)) (range 0 1024) = true.
Proof. vm_compute. reflexivity. Qed.
Lemma dcs_sweep : forallb (fun a =>
    ((if (512 <=? a) && (a <=? 810) then Z.lor a 0 else a) =? conv false a) && (arfcn2index (conv false a) =? bidx false a) &&
    (Z.land (conv false a) 1023 =? a) && negb (Z.testbit (conv false a) 15) && (bidx false a <? 1323) && (0 <=? bidx false a)) (range 0 1024) = true.
Proof. vm_compute. reflexivity. Qed.

Lemma step_facts (pcs : bool) a : 0 <= a < 1024 ->
  (if (512 <=? a) && (a <=? 810) then Z.lor a (if pcs then c_ARFCN_PCS else 0) else a) = conv pcs a /\
  arfcn2index (conv pcs a) = bidx pcs a /\ Z.land (conv pcs a) 1023 = a /\
  Z.testbit (conv pcs a) 15 = pcs && ((512 <=? a) && (a <=? 810)) /\ 0 <= bidx pcs a < 1323.
Proof. intros Ha. destruct pcs.
  - pose proof (forallb_range _ _ _ pcs_sweep a Ha) as S. cbv beta in S. repeat (apply andb_prop in S; destruct S as [S ?]).
    repeat split; try lia. cbn [andb]. apply eqb_prop. assumption.
  - pose proof (forallb_range _ _ _ dcs_sweep a Ha) as S. cbv beta in S. repeat (apply andb_prop in S; destruct S as [S ?]).
    repeat split; try lia. cbn [andb]. destruct (Z.testbit (conv false a) 15); [discriminate|reflexivity]. Qed.

Lemma wr_app pre a x v : wr (pre ++ a :: x) (Zlength pre) v = Some (pre ++ v :: x).
Proof. unfold wr. pose proof (Zlength_nonneg pre). replace (Zlength pre <? 0) with false by lia. rewrite Zlength_correct, Nat2Z.id.
  induction pre as [|p pre IH]; [reflexivity|]. cbn [length app upd_nat]. rewrite IH by apply Zlength_nonneg. reflexivity. Qed.

Lemma band_loop_eq (pcs : bool) fm : Zlength fm = 166 -> forall todo pre post, Forall (fun a => 0 <= a < 1024) todo ->
  band_loop (if pcs then c_ARFCN_PCS else 0) fm (pre ++ todo ++ post) (length todo) (Zlength pre) =
    Some (fst (loop_spec fm pcs todo), pre ++ snd (loop_spec fm pcs todo) ++ post).
Proof. intros Hfm. induction todo as [|a r IH]; intros pre post Ht; [reflexivity|].
  apply Forall_cons_iff in Ht as [Ha Hr]. destruct (step_facts pcs a Ha) as (E1 & E2 & _ & _ & Hb).
  cbn [length band_loop app]. rewrite rd_app_r0. change (rd (a :: r ++ post) 0) with (Some a). cbv iota zeta.
  rewrite E1, wr_app, E2. rewrite rd_ok by (rewrite Z.shiftr_div_pow2 by lia; change (2 ^ 3) with 8; lia).
  cbn [loop_spec]. unfold supported. rewrite Z.shiftr_div_pow2 by lia. change (2 ^ 3) with 8.
  rewrite <- (bit_test (zn fm (bidx pcs a / 8)) (bidx pcs a)) by lia.
  destruct (Z.land (zn fm (bidx pcs a / 8)) (Z.shiftl 1 (Z.land (bidx pcs a) 7)) =? 0); cbn [negb]; [reflexivity|].
  replace (pre ++ conv pcs a :: r ++ post) with ((pre ++ [conv pcs a]) ++ r ++ post) by (rewrite <- app_assoc; reflexivity).
  replace (Zlength pre + 1) with (Zlength (pre ++ [conv pcs a])) by (rewrite Zlength_app, Zlength_cons, Zlength_nil; lia).
  rewrite IH by exact Hr. cbn [fst snd]. rewrite <- app_assoc. reflexivity. Qed.

(* ------------------------------------------------------------------ what the loop does, as list facts *)
Lemma loop_rc fm pcs todo : fst (loop_spec fm pcs todo) = if forallb (supported fm pcs) todo then 0 else 8.
Proof. induction todo as [|a r IH]; [reflexivity|]. cbn [loop_spec forallb]. destruct (supported fm pcs a); cbn [fst andb]; [exact IH|reflexivity]. Qed.

Lemma loop_all fm pcs todo : forallb (supported fm pcs) todo = true -> snd (loop_spec fm pcs todo) = map (conv pcs) todo.
Proof. induction todo as [|a r IH]; [reflexivity|]. cbn [loop_spec forallb map]. destruct (supported fm pcs a); cbn [andb snd]; [|discriminate].
  intros H. rewrite IH by exact H. reflexivity. Qed.

Lemma map_id_in (g : Z -> Z) l : (forall x, In x l -> g x = x) -> map g l = l.
Proof. induction l as [|x l IH]; intros H; [reflexivity|]. cbn [map]. rewrite H by (left; reflexivity). rewrite IH; [reflexivity|]. intros y Hy. apply H. right. exact Hy. Qed.

Lemma loop_numbers fm pcs todo : Forall (fun a => 0 <= a < 1024) todo ->
  map (fun x => Z.land x 1023) (snd (loop_spec fm pcs todo)) = todo.
Proof. induction 1 as [|a r Ha Hr IH]; [reflexivity|]. destruct (step_facts pcs a Ha) as (_ & _ & E3 & _). cbn [loop_spec].
  destruct (supported fm pcs a); cbn [snd map]; rewrite E3; f_equal; [exact IH|].
  apply map_id_in. intros x Hx. rewrite Forall_forall in Hr. specialize (Hr x Hx). change 1023 with (Z.ones 10). rewrite Z.land_ones by lia.
  change (2 ^ 10) with 1024. lia. Qed.

Lemma conv_flag pcs a : 0 <= a < 1024 -> Z.testbit (conv pcs a) 15 = pcs && ((512 <=? a) && (a <=? 810)).
Proof. intros Ha. apply (step_facts pcs a Ha). Qed.

(* ------------------------------------------------------------------ the whole function *)
Lemma render_full_loop pcs fm lv cdlv other freq ma ma_len fr sel rest :
  Zlength fm = 166 -> Forall (fun a => 0 <= a < 1024) sel ->
  render_ma_cd lv cdlv other freq ma ma_len = Ok 0 (mkst fr (sel ++ rest) (Zlength sel)) ->
  render_full pcs fm lv cdlv other freq ma ma_len =
    Ok (if forallb (supported fm pcs) sel then 0 else 8) (mkst fr (snd (loop_spec fm pcs sel) ++ rest) (Zlength sel)).
Proof. intros Hfm Hs E. unfold render_full. rewrite E. change (negb (0 =? 0)) with false. cbv iota. cbn [s_hop s_hlen s_freq].
  rewrite Zlength_correct, Nat2Z.id. pose proof (band_loop_eq pcs fm Hfm sel [] rest Hs) as B. cbn [app] in B. rewrite Zlength_nil in B.
  rewrite B, loop_rc. reflexivity. Qed.

Lemma render_full_pass pcs fm lv cdlv other freq ma ma_len rc s : rc <> 0 ->
  render_ma_cd lv cdlv other freq ma ma_len = Ok rc s -> render_full pcs fm lv cdlv other freq ma ma_len = Ok rc s.
Proof. intros Hrc E. unfold render_full. rewrite E. replace (rc =? 0) with false by lia. reflexivity. Qed.

(* non-vacuity: a PCS cell with the boundary channels 512, 810, 811 in its allocation; every band index supported except PCS 810 in the second case *)
Definition fm_all : list Z := repeat 255 166.
Example ex_band_pcs : match render_full true fm_all [1; 7; 0; 0; 0; 0; 0; 0; 0] (repeat 0 17) [] (tbl [512; 810; 811] 0) (repeat 7 64) 0 with
                      | Ok rc s => rc :: s_hlen s :: firstn 4 (s_hop s) | OOB => [-998] end = [0; 3; 33280; 33578; 811; 7].
Proof. vm_compute. reflexivity. Qed.
Example ex_band_dcs : match render_full false fm_all [1; 7; 0; 0; 0; 0; 0; 0; 0] (repeat 0 17) [] (tbl [512; 810; 811] 0) (repeat 7 64) 0 with
                      | Ok rc s => rc :: s_hlen s :: firstn 4 (s_hop s) | OOB => [-998] end = [0; 3; 512; 810; 811; 7].
Proof. vm_compute. reflexivity. Qed.
(* band index of PCS 810 = 1322 = bit 2 of freq_map[165] cleared: refused with cause 8 *)
Example ex_band_refused : match render_full true (repeat 255 165 ++ [251]) [1; 7; 0; 0; 0; 0; 0; 0; 0] (repeat 0 17) [] (tbl [512; 810; 811] 0) (repeat 7 64) 0 with
                      | Ok rc s => rc :: s_hlen s :: firstn 4 (s_hop s) | OOB => [-998] end = [8; 3; 33280; 33578; 811; 7].
Proof. vm_compute. reflexivity. Qed.
