(* Lemmas about the firmware's running GSM time (Model/GsmTimeRun.v) and the call-site expressions (Gen/GsmTimeSites.v). *)
From Coq Require Import ZArith List Bool Lia ZifyBool.
From OBB Require Import Gen.GsmTimeConst Gen.GsmTimeSites Model.GsmTime Model.GsmTimeRun Proofs.GsmTimeP.
Import ListNotations.
Open Scope Z_scope.
Ltac Zify.zify_post_hook ::= Z.to_euclidean_division_equations.

(* ---- constants of synchronize_tdma / l1s_sbdet_resp as compiled, C widths of the fields *)
Lemma run_consts : c_QBITS_PER_TDMA = 5000 /\ c_SWITCH_TIME = 4990 /\ c_SB2_LATENCY = 2 /\ c_widths = [4; 2; 1; 1; 1; 4; 1; 4; 4].
Proof. repeat split; reflexivity. Qed.

(* ---- the invariant *)
(* g is exactly the (FN, T1, T2, T3, TC) of a frame number of the hyperframe *)
Definition is_frame (g : gt) : Prop := 0 <= g_fn g < 2715648 /\ g = decomp (g_fn g).
Definition TimeOK (st : tstate) : Prop :=
  is_frame (cur st) /\ is_frame (nxt st) /\ g_fn (nxt st) = (g_fn (cur st) + 1) mod 2715648.
(* before the first frame interrupt only this holds *)
Definition TimeWeak (st : tstate) : Prop := is_frame (cur st) /\ is_frame (nxt st).

Lemma timeok_means st : TimeOK st <->
  (0 <= g_fn (cur st) < 2715648 /\
   g_t1 (cur st) = g_fn (cur st) / 1326 /\ g_t2 (cur st) = g_fn (cur st) mod 26 /\ g_t3 (cur st) = g_fn (cur st) mod 51 /\
   g_tc (cur st) = (g_fn (cur st) / 51) mod 8) /\
  (0 <= g_fn (nxt st) < 2715648 /\
   g_t1 (nxt st) = g_fn (nxt st) / 1326 /\ g_t2 (nxt st) = g_fn (nxt st) mod 26 /\ g_t3 (nxt st) = g_fn (nxt st) mod 51 /\
   g_tc (nxt st) = (g_fn (nxt st) / 51) mod 8) /\
  g_fn (nxt st) = (g_fn (cur st) + 1) mod 2715648.
Proof.
  unfold TimeOK, is_frame, decomp. destruct st as [[cf c1 c2 c3 cc] [nf n1 n2 n3 nc] tp]. cbn [cur nxt g_fn g_t1 g_t2 g_t3 g_tc].
  split.
  - intros [[Hc Ec] [[Hn En] Hs]]. injection Ec as E1 E2 E3 E4. injection En as F1 F2 F3 F4. repeat split; try assumption; lia.
  - intros [[Hc [E1 [E2 [E3 E4]]]] [[Hn [F1 [F2 [F3 F4]]]] Hs]]. repeat split; try assumption; try lia; f_equal; assumption.
Qed.

Lemma is_frame_decomp f : 0 <= f < 2715648 -> is_frame (decomp f).
Proof. intros Hf. split; cbn [decomp g_fn]; [exact Hf | reflexivity]. Qed.

Lemma weak_of_ok st : TimeOK st -> TimeWeak st.
Proof. intros [Hc [Hn _]]. split; assumption. Qed.

Lemma mk_ok c tp : 0 <= c < 2715648 ->
  TimeOK {| cur := decomp c; nxt := time_inc (decomp c) 1; tpu := tp |}.
Proof.
  intros Hc. rewrite inc1 by exact Hc. unfold TimeOK. cbn [cur nxt]. unfold H.
  assert (Hm : 0 <= (c + 1) mod 2715648 < 2715648) by lia.
  split; [apply is_frame_decomp; exact Hc|]. split; [apply is_frame_decomp; exact Hm|]. reflexivity.
Qed.

(* ---- frame interrupt *)
Lemma frame_irq_ok st : is_frame (nxt st) ->
  TimeOK (frame_irq st) /\ cur (frame_irq st) = nxt st.
Proof.
  intros [Hn En]. unfold frame_irq. split; [|reflexivity].
  rewrite En. apply mk_ok. exact Hn.
Qed.

Lemma frame_irq_next st : TimeOK st ->
  TimeOK (frame_irq st) /\ g_fn (cur (frame_irq st)) = (g_fn (cur st) + 1) mod 2715648.
Proof.
  intros [Hc [Hn Hs]]. destruct (frame_irq_ok st Hn) as [Hok Hcur]. split; [exact Hok|]. rewrite Hcur. exact Hs.
Qed.

Lemma irq_n_ok n : forall st, TimeOK st ->
  TimeOK (irq_n n st) /\ g_fn (cur (irq_n n st)) = (g_fn (cur st) + Z.of_nat n) mod 2715648.
Proof.
  induction n as [|n IH]; intros st Hok.
  - cbn [irq_n]. split; [exact Hok|]. destruct Hok as [[Hc _] _]. cbn [Z.of_nat]. lia.
  - cbn [irq_n]. destruct (frame_irq_next st Hok) as [Hok' Hf]. destruct (IH _ Hok') as [Hok'' Hf'].
    split; [exact Hok''|]. rewrite Hf', Hf. destruct Hok as [[Hc _] _].
    replace (Z.of_nat (S n)) with (Z.of_nat n + 1) by lia.
    rewrite Zplus_mod_idemp_l. f_equal. lia.
Qed.

Lemma irq_n_weak n : forall st, TimeWeak st -> TimeWeak (irq_n n st) /\ (n <> O -> TimeOK (irq_n n st)).
Proof.
  destruct n as [|n]; intros st Hw.
  - cbn [irq_n]. split; [exact Hw|]. intros Hne. exfalso. apply Hne. reflexivity.
  - cbn [irq_n]. destruct Hw as [_ Hn]. destruct (frame_irq_ok st Hn) as [Hok _].
    destruct (irq_n_ok n _ Hok) as [Hok' _]. split; [apply weak_of_ok; exact Hok'|]. intros _. exact Hok'.
Qed.

(* ---- l1s_time_inc with an int32_t offset handed over as uint32_t *)
Lemma add_modulo_signed f d : 0 <= f < 2715648 -> -2147483648 <= d < 2147483648 -> 0 <= f + d < 2 * 2715648 ->
  add_modulo u32 f (u32 d) 2715648 = (f + d) mod 2715648.
Proof.
  intros Hf Hd Hs. unfold add_modulo, u32. destruct (_ >=? _) eqn:E; lia.
Qed.

Lemma time_inc_signed f d : 0 <= f < 2715648 -> -2147483648 <= d < 2147483648 -> 0 <= f + d < 2 * 2715648 ->
  time_inc (decomp f) (u32 d) = decomp ((f + d) mod 2715648).
Proof.
  intros Hf Hd Hs. destruct (Z.eq_dec d 1) as [->|Hne].
  - change (u32 1) with 1. apply inc1. exact Hf.
  - unfold time_inc. assert (Hu : u32 d =? 1 = false) by (unfold u32; lia). rewrite Hu. rewrite const_c.
    cbn [decomp g_fn]. rewrite add_modulo_signed by assumption. apply fn2gsmtime_decomp. unfold H. lia.
Qed.

(* outside that range the new frame number is NOT the intended one *)
Lemma add_modulo_signed_wrong f d : 0 <= f < 2715648 -> -2147483648 <= d < 2147483648 -> ~ (0 <= f + d < 2 * 2715648) ->
  add_modulo u32 f (u32 d) 2715648 <> (f + d) mod 2715648.
Proof.
  intros Hf Hd Hs. unfold add_modulo, u32. destruct (_ >=? _) eqn:E; lia.
Qed.

Lemma sync_delta_val st fo ta : -2147483648 < fo <= 2147483647 ->
  sync_delta st fo ta = fo - 1 + (if sync_shift st ta <? 4990 then 1 else 0).
Proof.
  intros Hfo. unfold sync_delta. change c_SWITCH_TIME with 4990. unfold s32. destruct (_ <? 4990) eqn:E; lia.
Qed.

Lemma sync_shift_val st ta : 0 <= tpu st -> 0 <= ta ->
  sync_shift st ta = ((tpu st + (ta + 75) mod 4294967296) mod 4294967296) mod 5000.
Proof.
  intros Ht Ha. unfold sync_shift, u32. change c_QBITS_PER_TDMA with 5000. rewrite Z.rem_mod_nonneg; lia.
Qed.

Lemma sync_ok st fo ta : is_frame (cur st) -> -2147483648 < fo <= 2147483647 ->
  0 <= g_fn (cur st) + (fo - 1 + (if sync_shift st ta <? 4990 then 1 else 0)) < 2 * 2715648 ->
  TimeOK (sync_tdma st fo ta) /\
  g_fn (cur (sync_tdma st fo ta)) = (g_fn (cur st) + (fo - 1 + (if sync_shift st ta <? 4990 then 1 else 0))) mod 2715648 /\
  tpu (sync_tdma st fo ta) = sync_shift st ta.
Proof.
  intros [Hc Ec] Hfo Hr. unfold sync_tdma. rewrite sync_delta_val by exact Hfo.
  set (d := fo - 1 + (if sync_shift st ta <? 4990 then 1 else 0)) in *.
  assert (Hd : -2147483648 <= d < 2147483648) by (unfold d; destruct (_ <? 4990); lia).
  rewrite Ec. rewrite time_inc_signed by assumption.
  assert (Hm : 0 <= (g_fn (cur st) + d) mod 2715648 < 2715648) by lia.
  split; [apply mk_ok; exact Hm|]. cbn [cur tpu decomp g_fn]. split; reflexivity.
Qed.

(* a range that does not depend on the state *)
Lemma sync_ok_pos st fo ta : is_frame (cur st) -> 1 <= fo <= 2715648 ->
  TimeOK (sync_tdma st fo ta) /\
  g_fn (cur (sync_tdma st fo ta)) = (g_fn (cur st) + (fo - 1 + (if sync_shift st ta <? 4990 then 1 else 0))) mod 2715648.
Proof.
  intros Hf Hfo. assert (Hc := proj1 Hf).
  destruct (sync_ok st fo ta Hf) as [A [B _]]; [lia | destruct (_ <? 4990); lia | split; assumption].
Qed.

Lemma sync_wrong st fo ta : is_frame (cur st) -> -2147483648 < fo <= 2147483647 ->
  ~ (0 <= g_fn (cur st) + (fo - 1 + (if sync_shift st ta <? 4990 then 1 else 0)) < 2 * 2715648) ->
  g_fn (cur (sync_tdma st fo ta)) <> (g_fn (cur st) + (fo - 1 + (if sync_shift st ta <? 4990 then 1 else 0))) mod 2715648.
Proof.
  intros [Hc Ec] Hfo Hr. unfold sync_tdma. rewrite sync_delta_val by exact Hfo.
  set (d := fo - 1 + (if sync_shift st ta <? 4990 then 1 else 0)) in *.
  assert (Hd : -2147483648 <= d < 2147483648) by (unfold d; destruct (_ <? 4990); lia).
  assert (Hne : d <> 1) by lia.
  cbn [cur]. rewrite Ec. unfold time_inc. assert (Hu : u32 d =? 1 = false) by (unfold u32; lia). rewrite Hu. rewrite const_c.
  cbn [decomp g_fn fn2gsmtime]. apply add_modulo_signed_wrong; assumption.
Qed.

(* witness: re-synchronisation by fn_offset 0 without the compensation frame while the current frame is 0 *)
Example sync_refuted :
  let st := {| cur := decomp 0; nxt := decomp 1; tpu := 0 |} in
  TimeOK st /\ sync_shift st 4915 = 4990 /\ gt_obs (cur (sync_tdma st 0 4915)) = [4292251647; 25728; 21; 0; 5].
Proof.
  cbv zeta. split; [apply (mk_ok 0 0); lia|]. split; vm_compute; reflexivity.
Qed.

(* ---- prim_fbsb.c: l1s_decode_sb and the re-initialisation *)
Lemma fbsb_site_val m aux : 0 <= m < 4294967294 -> site_prim_fbsb_1 m aux = (m + 2) mod 2715648.
Proof. intros Hm. unfold site_prim_fbsb_1, w32. lia. Qed.

Lemma fbsb_ok st m : 0 <= m < 4294967294 ->
  TimeOK (fbsb_reinit st m) /\ g_fn (cur (fbsb_reinit st m)) = (m + 2) mod 2715648 /\ tpu (fbsb_reinit st m) = tpu st.
Proof.
  intros Hm. unfold fbsb_reinit. rewrite fbsb_site_val by exact Hm.
  assert (Hr : 0 <= (m + 2) mod 2715648 < 2715648) by lia.
  rewrite fn2gsmtime_decomp by (unfold H; exact Hr).
  split; [apply mk_ok; exact Hr|]. cbn [cur tpu decomp g_fn]. split; reflexivity.
Qed.

(* bit fields of the burst word *)
Lemma land_lt a m n : 0 <= m < 2 ^ n -> 0 <= n -> 0 <= Z.land a m < 2 ^ n.
Proof.
  intros Hm Hn. assert (H0 : 0 <= Z.land a m) by (apply Z.land_nonneg; right; lia).
  split; [exact H0|].
  destruct (Z.eq_dec (Z.land a m) 0) as [E|E]; [rewrite E; lia|].
  apply Z.log2_lt_pow2; [lia|].
  destruct (Z.eq_dec m 0) as [->|Hm0]; [rewrite Z.land_0_r in E; lia|].
  assert (Hl : Z.log2 m < n) by (apply Z.log2_lt_pow2; lia).
  destruct (Z_lt_le_dec (Z.log2 (Z.land a m)) n) as [L|L]; [exact L|exfalso].
  assert (T : Z.testbit (Z.land a m) (Z.log2 (Z.land a m)) = true) by (apply Z.bit_log2; lia).
  rewrite Z.land_spec in T. rewrite (Z.bits_above_log2 m) in T by lia. rewrite andb_false_r in T. discriminate.
Qed.

Lemma lor_lt a b n : 0 <= a < 2 ^ n -> 0 <= b < 2 ^ n -> 0 < n -> 0 <= Z.lor a b < 2 ^ n.
Proof.
  intros Ha Hb Hn. assert (H0 : 0 <= Z.lor a b) by (apply Z.lor_nonneg; lia).
  split; [exact H0|].
  destruct (Z.eq_dec (Z.lor a b) 0) as [E|E]; [rewrite E; lia|].
  apply Z.log2_lt_pow2; [lia|]. rewrite Z.log2_lor by lia.
  apply Z.max_lub_lt.
  - destruct (Z.eq_dec a 0) as [->|Ha0]; [change (Z.log2 0) with 0; exact Hn|apply Z.log2_lt_pow2; lia].
  - destruct (Z.eq_dec b 0) as [->|Hb0]; [change (Z.log2 0) with 0; exact Hn|apply Z.log2_lt_pow2; lia].
Qed.

Lemma sb_fields_range sb : 0 <= sb_t1 sb < 2048 /\ 0 <= sb_t2 sb < 32 /\ 0 <= sb_t3p sb < 8.
Proof.
  unfold sb_t1, sb_t2, sb_t3p. split; [|split].
  - change 2048 with (2 ^ 11). apply lor_lt; [apply lor_lt|..]; try lia; apply land_lt; lia.
  - change 32 with (2 ^ 5). apply land_lt; lia.
  - change 8 with (2 ^ 3). apply lor_lt; try lia; apply land_lt; lia.
Qed.

(* a (T1, T2, T3') that names an SCH frame decodes to exactly that frame; such a frame lies at least 10 frames before the end *)
Lemma sb_time_ok t1 t2 t3p : 0 <= t1 < 2048 -> 0 <= t2 < 26 -> 0 <= t3p <= 4 ->
  is_frame (sb_time t1 t2 t3p) /\ g_t1 (sb_time t1 t2 t3p) = t1 /\ g_t2 (sb_time t1 t2 t3p) = t2 /\
  g_t3 (sb_time t1 t2 t3p) = 10 * t3p + 1 /\ g_fn (sb_time t1 t2 t3p) <= 2715638.
Proof.
  intros H1 H2 H3. unfold is_frame, sb_time, gsmtime2fn, decomp, u8, u16, u32. cbn [g_fn g_t1 g_t2 g_t3 g_tc].
  set (x := Z.rem (_ - _ + 26) 26).
  assert (Hx : 0 <= x < 26 /\ exists q, (t3p * 10 + 1) mod 256 - t2 mod 256 + 26 = 26 * q + x /\ 0 <= q <= 2).
  { unfold x. split; [lia|]. exists (Z.quot ((t3p * 10 + 1) mod 256 - t2 mod 256 + 26) 26). lia. }
  clearbody x. destruct Hx as [Hx [q [Hq Hq2]]].
  repeat split; try lia. f_equal; lia.
Qed.

Lemma decode_sb_ok sb : sb_t2 sb < 26 -> sb_t3p sb <= 4 ->
  is_frame (decode_sb sb) /\ g_t1 (decode_sb sb) = sb_t1 sb /\ g_t2 (decode_sb sb) = sb_t2 sb /\
  g_t3 (decode_sb sb) = 10 * sb_t3p sb + 1 /\ g_fn (decode_sb sb) <= 2715638.
Proof.
  intros H2 H3. destruct (sb_fields_range sb) as [A [B C]]. unfold decode_sb. apply sb_time_ok; lia.
Qed.

(* whatever the burst word says, the decoded frame number stays below 2^32 - 2 ... *)
Lemma sb_time_small t1 t2 t3p : 0 <= t1 < 2048 -> 0 <= t2 < 32 -> 0 <= t3p < 8 -> 0 <= g_fn (sb_time t1 t2 t3p) < 4294967294.
Proof.
  intros H1 H2 H3. unfold sb_time, gsmtime2fn, u8, u16, u32. cbn [g_fn g_t1 g_t2 g_t3]. lia.
Qed.

Lemma decode_sb_small sb : 0 <= g_fn (decode_sb sb) < 4294967294.
Proof. destruct (sb_fields_range sb) as [A [B C]]. unfold decode_sb. apply sb_time_small; assumption. Qed.

(* ... so that even a burst word outside the coding (T1 = 2047, T2 = 20, T3' = 7, decoded frame number 2715668) leaves a consistent running time *)
Example decode_sb_outside_coding :
  gt_obs (decode_sb 30670595) = [2715668; 2047; 20; 71; 0] /\
  st_obs (step boot (OSb 30670595)) = [22; 0; 22; 22; 0; 23; 0; 23; 23; 0; 0].
Proof. repeat split; vm_compute; reflexivity. Qed.

(* ---- histories *)
Definition op_safe (o : op) : Prop :=
  match o with
  | OIrq _ => True
  | OSync fo _ => 1 <= fo <= 2715648
  | OFbsb m => 0 <= m < 4294967294
  | OSb sb => True
  | ORaw s => TimeOK s
  end.

Lemma step_weak st o : TimeWeak st -> op_safe o -> TimeWeak (step st o) /\ (o <> OIrq O -> TimeOK (step st o)).
Proof.
  intros Hw Hs. destruct o as [n|fo ta|m|sb|s]; cbn [step op_safe] in *.
  - destruct (irq_n_weak n st Hw) as [A B]. split; [exact A|]. intros Hne. apply B. intros ->. apply Hne. reflexivity.
  - destruct (sync_ok_pos st fo ta (proj1 Hw) Hs) as [A _]. split; [apply weak_of_ok; exact A|intros _; exact A].
  - destruct (fbsb_ok st m Hs) as [A _]. split; [apply weak_of_ok; exact A|intros _; exact A].
  - destruct (fbsb_ok st (g_fn (decode_sb sb)) (decode_sb_small sb)) as [A _]. split; [apply weak_of_ok; exact A|intros _; exact A].
  - split; [apply weak_of_ok; exact Hs|intros _; exact Hs].
Qed.

Lemma step_ok st o : TimeOK st -> op_safe o -> TimeOK (step st o).
Proof.
  intros Hok Hs. destruct (step_weak st o (weak_of_ok _ Hok) Hs) as [_ B].
  destruct o as [[|n]| | | |]; try (apply B; discriminate). cbn [step irq_n]. exact Hok.
Qed.

Lemma run_ok ops : forall st, TimeOK st -> Forall op_safe ops -> TimeOK (run st ops).
Proof.
  unfold run. induction ops as [|o r IH]; intros st Hok Hf; cbn [fold_left]; [exact Hok|].
  inversion Hf as [|o' r' Ho Hr]; subst. apply IH; [apply step_ok; assumption|exact Hr].
Qed.

Lemma boot_weak : TimeWeak boot.
Proof. split; split; cbn; try lia; reflexivity. Qed.

Lemma boot_not_ok : ~ TimeOK boot.
Proof. intros [_ [_ E]]. vm_compute in E. discriminate. Qed.

Lemma run_boot o ops : o <> OIrq O -> Forall op_safe (o :: ops) -> TimeOK (run boot (o :: ops)).
Proof.
  intros Hne Hf. inversion Hf as [|o' r' Ho Hr]; subst. unfold run. cbn [fold_left].
  apply run_ok; [|exact Hr]. destruct (step_weak boot o boot_weak Ho) as [_ B]. apply B. exact Hne.
Qed.

(* ---- call-site expressions *)
Lemma site_tch_1 v aux : 0 <= v < 2715648 ->
  site_prim_tch_1 v aux = (v - 1) mod 2715648 /\ fn2gsmtime (site_prim_tch_1 v aux) = decomp ((v - 1) mod 2715648).
Proof.
  intros Hv. assert (E : site_prim_tch_1 v aux = (v - 1) mod 2715648) by (unfold site_prim_tch_1, w32; lia).
  split; [exact E|]. rewrite E. apply fn2gsmtime_decomp. unfold H. lia.
Qed.

Lemma site_tch_2 v aux : 0 <= v < 2715648 ->
  site_prim_tch_2 v aux = (v - 1) mod 2715648 /\ fn2gsmtime (site_prim_tch_2 v aux) = decomp ((v - 1) mod 2715648).
Proof.
  intros Hv. assert (E : site_prim_tch_2 v aux = (v - 1) mod 2715648) by (unfold site_prim_tch_2, w32; lia).
  split; [exact E|]. rewrite E. apply fn2gsmtime_decomp. unfold H. lia.
Qed.

Lemma site_rx_nb_1 v aux : 0 <= v < 2715648 ->
  site_prim_rx_nb_1 v aux = (v - 1) mod 2715648 /\ fn2gsmtime (site_prim_rx_nb_1 v aux) = decomp ((v - 1) mod 2715648).
Proof.
  intros Hv. assert (E : site_prim_rx_nb_1 v aux = (v - 1) mod 2715648) by (unfold site_prim_rx_nb_1, w32; lia).
  split; [exact E|]. rewrite E. apply fn2gsmtime_decomp. unfold H. lia.
Qed.

Lemma site_rx_nb_2 v aux : 0 <= v < 2715648 ->
  site_prim_rx_nb_2 v aux = (v - 4) mod 2715648 /\ fn2gsmtime (site_prim_rx_nb_2 v aux) = decomp ((v - 4) mod 2715648).
Proof.
  intros Hv. assert (E : site_prim_rx_nb_2 v aux = (v - 4) mod 2715648) by (unfold site_prim_rx_nb_2, w32; lia).
  split; [exact E|]. rewrite E. apply fn2gsmtime_decomp. unfold H. lia.
Qed.

(* non-vacuity: the frames right after the hyperframe wrap *)
Example site_rx_nb_wrap :
  gt_obs (fn2gsmtime (site_prim_rx_nb_1 0 0)) = [2715647; 2047; 25; 50; 7] /\ gt_obs (fn2gsmtime (site_prim_rx_nb_2 3 0)) = [2715647; 2047; 25; 50; 7] /\
  site_prim_rx_nb_2 0 0 = 2715644.
Proof. repeat split; vm_compute; reflexivity. Qed.

Lemma site_fbsb_1 m aux : 0 <= m < 4294967294 ->
  site_prim_fbsb_1 m aux = (m + 2) mod 2715648 /\ fn2gsmtime (site_prim_fbsb_1 m aux) = decomp ((m + 2) mod 2715648).
Proof.
  intros Hm. assert (E : site_prim_fbsb_1 m aux = (m + 2) mod 2715648) by (apply fbsb_site_val; exact Hm).
  split; [exact E|]. rewrite E. apply fn2gsmtime_decomp. unfold H. lia.
Qed.

Lemma site_rach_1 v aux : 0 <= v < 2715648 -> 0 <= aux < 65536 ->
  site_prim_rach_1 v aux = (v + aux) mod 2715648.
Proof. intros Hv Ha. unfold site_prim_rach_1, w32. cbv zeta. lia. Qed.

Lemma site_freq_1 v aux : 0 <= v < 2715648 -> 0 <= aux <= 2715648 ->
  site_prim_freq_1 v aux = (v + aux) mod 2715648.
Proof. intros Hv Ha. unfold site_prim_freq_1, w32. cbv zeta. destruct (_ >=? _) eqn:E; lia. Qed.

(* ---- non-vacuity *)
Example wrap_run :
  let st := {| cur := decomp 2715646; nxt := decomp 2715647; tpu := 0 |} in
  TimeOK st /\
  st_obs (frame_irq st) = [2715647; 2047; 25; 50; 7; 0; 0; 0; 0; 0; 0] /\
  st_obs (frame_irq (frame_irq st)) = [0; 0; 0; 0; 0; 1; 0; 1; 1; 0; 0].
Proof. cbv zeta. split; [apply (mk_ok 2715646 0); lia|]. split; vm_compute; reflexivity. Qed.

(* the re-synchronisation that lands on the last frame of the hyperframe: next_time is frame 0 *)
Example sync_lands_on_last :
  let st := {| cur := decomp 2715646; nxt := decomp 2715647; tpu := 0 |} in
  op_safe (OSync 1 0) /\ st_obs (sync_tdma st 1 0) = [2715647; 2047; 25; 50; 7; 0; 0; 0; 0; 0; 75] /\
  st_obs (sync_tdma st 2 4915) = [2715647; 2047; 25; 50; 7; 0; 0; 0; 0; 0; 4990].
Proof. cbv zeta. split; [cbn; lia|]. split; vm_compute; reflexivity. Qed.

Example boot_first_irq : st_obs (frame_irq boot) = [0; 0; 0; 0; 0; 1; 0; 1; 1; 0; 0].
Proof. vm_compute. reflexivity. Qed.

Example history_example :
  Forall op_safe [OIrq 3; OSync 1326 0; OIrq 2; OSb (1024 + 4); OIrq 1] /\
  st_obs (run boot [OIrq 3; OSync 1326 0; OIrq 2]) = [1330; 1; 4; 4; 2; 1331; 1; 5; 5; 2; 75].
Proof.
  split.
  - repeat constructor; cbn; try lia; vm_compute; intuition discriminate.
  - vm_compute. reflexivity.
Qed.
