(* Totality of the capture-file reader on ARBITRARY file content (used by C14): no step of _seek2msg / _parse_msg /
   parse_msg / parse_all can raise, and the read loop ends within the fuel |file| + 1.  No hypothesis on the octets
   (not even 0 <= b < 256).  The message parser sits under the bare 'except:' (parse_body maps every non-Ok to OFalse),
   so its own totality is not needed here. *)
From Coq Require Import ZArith List Bool Lia.
From OBB Require Import Gen.TrxdConst Model.Trxd Model.Dump Proofs.DumpP.
Import ListNotations.
Open Scope Z_scope.

(* a header of exactly HDR_LENGTH = 3 octets: hdr[1:3] has the 2 octets struct.unpack(">H") needs *)
Lemma parse_hdr_total hdr : length hdr = hl -> exists r, parse_hdr hdr = Ok r.
Proof.
  rewrite hl_3. intros H. destruct hdr as [|a [|b [|c [|d r]]]]; try discriminate H.
  unfold parse_hdr, slice. cbn [skipn firstn Nat.sub bind].
  destruct (a =? dump_tag_tx); [eauto|]. destruct (a =? dump_tag_rx); eauto.
Qed.

Lemma hdr_read_len f pos : Nat.eqb (length (fread f pos hl)) hl = true -> (pos + 3 <= length f)%nat.
Proof.
  intros H. apply Nat.eqb_eq in H. unfold fread in H. rewrite firstn_length, skipn_length, hl_3 in H. lia.
Qed.

Lemma seek_total f : forall n pos, exists r, seek_loop f n pos = Ok r.
Proof.
  induction n as [|k IH]; intros pos; [eexists; reflexivity|].
  cbn [seek_loop]. destruct (Nat.eqb (length (fread f pos hl)) hl) eqn:E; cbn [negb]; [|eauto].
  apply Nat.eqb_eq in E. destruct (parse_hdr_total _ E) as [[[b len]|] ->]; cbn [bind]; [apply IH|eauto].
Qed.

(* _parse_msg never raises; when it returns a message or False it has consumed a whole header that lies inside the file *)
Lemma parse_one_total f pos : exists o p, parse_one f pos = Ok (o, p) /\ (o <> ONone -> (pos + 3 <= p)%nat /\ (pos + 3 <= length f)%nat).
Proof.
  unfold parse_one. cbv zeta. destruct (Nat.eqb (length (fread f pos hl)) hl) eqn:E; cbn [negb].
  - pose proof (hdr_read_len f pos E) as Hl. apply Nat.eqb_eq in E.
    destruct (parse_hdr_total _ E) as [[[b len]|] ->]; cbn [bind].
    + destruct (negb (Nat.eqb _ len)); do 2 eexists; (split; [reflexivity|]); [congruence|].
      intros _. rewrite E, hl_3. split; lia.
    + do 2 eexists. split; [reflexivity|congruence].
  - do 2 eexists. split; [reflexivity|congruence].
Qed.

Lemma pa_total f count : forall fuel pos acc, (length f < fuel + pos)%nat -> (0 < fuel)%nat -> exists l, pa_loop fuel f pos count acc = Ok (PList l).
Proof.
  induction fuel as [|k IH]; intros pos acc Hf Hpos; [lia|].
  cbn [pa_loop]. destruct (parse_one_total f pos) as [o [p [-> Hp]]]. cbn [bind].
  destruct o as [m| |].
  - destruct (Hp ltac:(discriminate)) as [A B]. destruct (count_hit count (length (acc ++ [m]))); [eauto|].
    apply IH; lia.
  - eauto.
  - destruct (Hp ltac:(discriminate)) as [A B]. apply IH; lia.
Qed.

Theorem parse_all_total f skip count : exists r, parse_all f skip count = Ok r /\ r <> POutOfFuel.
Proof.
  unfold parse_all. destruct skip as [s|].
  - unfold seek2msg. destruct (seek_total f (Z.to_nat s) 0) as [[pos|] ->]; cbn [bind].
    + destruct (pa_total f count (S (length f)) pos [] ltac:(lia) ltac:(lia)) as [l ->]. eexists. split; [reflexivity|discriminate].
    + eexists. split; [reflexivity|discriminate].
  - destruct (pa_total f count (S (length f)) 0%nat [] ltac:(lia) ltac:(lia)) as [l ->]. eexists. split; [reflexivity|discriminate].
Qed.

Theorem parse_msg_total f idx : exists o, parse_msg f idx = Ok o.
Proof.
  unfold parse_msg, seek2msg. destruct (seek_total f (Z.to_nat idx) 0) as [[pos|] ->]; cbn [bind]; [|eauto].
  destruct (parse_one_total f pos) as [o [p [-> _]]]. cbn [bind fst]. eauto.
Qed.

(* the form asked for by C14: arbitrary content, any skip / count / index *)
Theorem dump_total : forall (f : list Z) (skip count : option Z) (idx : Z),
  parse_all f skip count <> Crash /\ parse_all f skip count <> VErr /\ parse_all f skip count <> Ok POutOfFuel /\
  parse_msg f idx <> Crash /\ parse_msg f idx <> VErr.
Proof.
  intros f skip count idx. destruct (parse_all_total f skip count) as [r [-> Hr]]. destruct (parse_msg_total f idx) as [o ->].
  repeat split; try discriminate. intros H. injection H as H. exact (Hr H).
Qed.
Print Assumptions dump_total.
