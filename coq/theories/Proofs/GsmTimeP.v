From Coq Require Import ZArith List Bool Lia ZifyBool.
From OBB Require Import Gen.GsmTimeConst Model.GsmTime.
Import ListNotations.
Open Scope Z_scope.
Ltac Zify.zify_post_hook ::= Z.to_euclidean_division_equations.

Definition H : Z := 2715648.

Lemma const_c : c_GSM_MAX_FN = 2715648. Proof. reflexivity. Qed.
Lemma const_py : py_GSM_HYPERFRAME = 2715648. Proof. reflexivity. Qed.

(* the decomposition the specification speaks about: T1 = FN div 1326, T2 = FN mod 26, T3 = FN mod 51, TC = (FN div 51) mod 8 *)
Definition decomp (f : Z) : gt := {| g_fn := f; g_t1 := f / 1326; g_t2 := f mod 26; g_t3 := f mod 51; g_tc := (f / 51) mod 8 |}.

Lemma fn2gsmtime_decomp f : 0 <= f < H -> fn2gsmtime f = decomp f.
Proof. unfold fn2gsmtime, decomp, u16, H. intros Hf. f_equal; lia. Qed.

Lemma roundtrip f : 0 <= f < H -> gsmtime2fn (fn2gsmtime f) = f.
Proof. intros Hf. rewrite fn2gsmtime_decomp by exact Hf. unfold gsmtime2fn, decomp, u32, H in *. cbn [g_t1 g_t2 g_t3]. lia. Qed.

Lemma inc1 f : 0 <= f < H -> time_inc (decomp f) 1 = decomp ((f + 1) mod H).
Proof.
  intros Hf. unfold time_inc, decomp, add_modulo, u8, u16, u32, H in *. rewrite const_c. cbn [g_fn g_t1 g_t2 g_t3 g_tc].
  change (1 =? 1) with true. cbv iota.
  repeat match goal with |- context [if ?b then _ else _] => destruct b eqn:? end;
  try (exfalso; lia); f_equal; lia.
Qed.

Lemma incd f d : 0 <= f < H -> 1 <= d <= H -> time_inc (decomp f) d = decomp ((f + d) mod H).
Proof.
  intros Hf Hd. destruct (Z.eq_dec d 1) as [->|Hne]; [apply inc1; exact Hf|].
  unfold time_inc. apply Z.eqb_neq in Hne. rewrite Hne. rewrite const_c.
  assert (E : add_modulo u32 (g_fn (decomp f)) d 2715648 = (f + d) mod H).
  { unfold add_modulo, u32, decomp, H in *. cbn [g_fn]. destruct (_ >=? _) eqn:?; lia. }
  rewrite E. apply fn2gsmtime_decomp. unfold H. lia.
Qed.

Lemma py_eq_c f : 0 <= f < H ->
  py_fn2gsm_time f = (g_t1 (fn2gsmtime f), g_t2 (fn2gsmtime f), g_t3 (fn2gsmtime f), g_tc (fn2gsmtime f)).
Proof. intros Hf. rewrite fn2gsmtime_decomp by exact Hf. reflexivity. Qed.

(* non-vacuity: the wrap point *)
Example wrap_point : time_inc (decomp 2715647) 1 = decomp 0.
Proof. vm_compute. reflexivity. Qed.
