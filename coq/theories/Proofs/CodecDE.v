(* C16, direction decode -> encode: for a well-formed definition (wfb) every successfully decoded message fits
   (so the encode -> decode theorem applies to it), re-encodes successfully to exactly the number of octets that
   were consumed, and the re-encoding decodes to the same message. *)
From Coq Require Import ZArith List Bool Lia.
From OBB Require Import Base.Bits Model.Codec Proofs.CodecInt Proofs.CodecBits Proofs.CodecRT.
Import ListNotations.
Open Scope Z_scope.

(* ---------------------------------------------------------------- lists, names *)
Definition disj (e0:env) (ns:list nat) : Prop := forall k, In k ns -> lookup k e0 = None.

Lemma nodupb_sound l : nodupb l = true -> NoDup l.
Proof.
  induction l as [|x r IH]; cbn [nodupb]; intros H; [constructor|].
  apply andb_true_iff in H as [H1 H2]. constructor; [|auto].
  intros Hin. apply negb_true_iff in H1. assert (existsb (Nat.eqb x) r = true); [|congruence].
  apply existsb_exists. exists x. split; [exact Hin|apply Nat.eqb_refl].
Qed.

Lemma NoDup_app_inv {A} (a b:list A) : NoDup (a ++ b) -> NoDup a /\ NoDup b /\ (forall x, In x a -> ~ In x b).
Proof.
  induction a as [|x a IH]; cbn [app]; intros H; [split; [constructor|split; [exact H|intros x []]]|].
  inversion H as [|? ? Hni Hnd]; subst. destruct (IH Hnd) as [Ha [Hb Hd]]. split; [|split; [exact Hb|]].
  - constructor; [|exact Ha]. intros Hin. apply Hni, in_or_app. left. exact Hin.
  - intros y [<-|Hy] Hyb; [apply Hni, in_or_app; right; exact Hyb|exact (Hd y Hy Hyb)].
Qed.

Lemma NoDup_app_intro {A} (a b:list A) : NoDup a -> NoDup b -> (forall x, In x a -> ~ In x b) -> NoDup (a ++ b).
Proof.
  induction a as [|x a IH]; cbn [app]; intros Ha Hb Hd; [exact Hb|].
  inversion Ha as [|? ? Hni Hnd]; subst. constructor.
  - intros Hin. apply in_app_or in Hin as [Hin|Hin]; [contradiction|]. exact (Hd x (or_introl eq_refl) Hin).
  - apply IH; [exact Hnd|exact Hb|]. intros y Hy. apply Hd. right. exact Hy.
Qed.

Lemma keys_app a b : keys (a ++ b) = keys a ++ keys b.
Proof. unfold keys. apply map_app. Qed.

Lemma lookup_in_nodup k v e : NoDup (keys e) -> In (k, v) e -> lookup k e = Some v.
Proof.
  induction e as [|[k' v'] r IH]; cbn [keys map fst lookup In]; intros Hnd Hin; [destruct Hin|].
  inversion Hnd as [|? ? Hni Hnd']; subst. destruct Hin as [E|Hin].
  - injection E as -> ->. rewrite Nat.eqb_refl. reflexivity.
  - destruct (Nat.eqb_spec k k') as [->|_]; [|auto]. exfalso. apply Hni. unfold keys. apply in_map_iff. exists (k', v). auto.
Qed.

Lemma In_firstn' {A} n (l:list A) x : In x (firstn n l) -> In x l.
Proof. revert l. induction n as [|n IH]; intros l H; [destruct H|]. destruct l; [destruct H|]. destruct H as [->|H]; [left; reflexivity|right; apply IH; exact H]. Qed.
Lemma bytes_ok_firstn n l : bytes_ok l -> bytes_ok (firstn n l).
Proof. unfold bytes_ok. intros H. apply Forall_forall. intros x Hx. rewrite Forall_forall in H. apply H. eapply In_firstn'; eauto. Qed.
Lemma In_skipn {A} n (l:list A) x : In x (skipn n l) -> In x l.
Proof. revert l. induction n as [|n IH]; intros l H; [exact H|]. destruct l; [destruct H|]. right. apply IH. exact H. Qed.
Lemma bytes_ok_skipn n l : bytes_ok l -> bytes_ok (skipn n l).
Proof. unfold bytes_ok. intros H. apply Forall_forall. intros x Hx. rewrite Forall_forall in H. apply H. eapply In_skipn; eauto. Qed.

Lemma disj_app e0 cv ns : disj e0 ns -> (forall k, In k ns -> ~ In k (keys cv)) -> disj (e0 ++ cv) ns.
Proof. intros H1 H2 k Hk. rewrite lookup_app, (H1 k Hk). apply lookup_none_keys. auto. Qed.

(* ---------------------------------------------------------------- callbacks only look at what is already there *)
Lemma tab_get_ext {A B} k (t:list (Z*A)) e0 x (f:A -> res B) r : tab_get k t e0 f = Ok r -> tab_get k t (e0 ++ x) f = Ok r.
Proof.
  unfold tab_get. rewrite lookup_app. destruct (lookup k e0) as [v|]; [auto|discriminate].
Qed.
Lemma get_pres_ext p e0 x b : get_pres p e0 = Ok b -> get_pres p (e0 ++ x) = Ok b.
Proof. destruct p; cbn [get_pres]; [auto|apply tab_get_ext]. Qed.
Lemma get_len_ext l e0 x L n : get_len l e0 L = Ok n -> get_len l (e0 ++ x) L = Ok n.
Proof. destruct l as [[|m]| | |]; cbn [get_len]; auto. apply tab_get_ext. Qed.
Lemma spare_len_indep l e0 x L L' n : spare_len_ok l = true -> get_len l e0 L = Ok n -> get_len l (e0 ++ x) L' = Ok n.
Proof. destruct l as [[|m]| | |]; cbn [spare_len_ok get_len]; try discriminate; auto. intros _. apply tab_get_ext. Qed.

(* ---------------------------------------------------------------- inversion of the decoder *)
Lemma dec_cons_inv k f fs e data e1 n : dec (S k) (f :: fs) e data = Ok (e1, n) ->
  exists e' n1 n2, dec_field (dec k) (dec_seq k) f e data = Ok (e', n1) /\
    dec k fs e' (skipn n1 data) = Ok (e1, n2) /\ n = (n1 + n2)%nat.
Proof.
  cbn [dec]. intros H. apply bind_ok in H as [[e' n1] [H1 H]]. apply bind_ok in H as [[e2 n2] [H2 H]].
  cbn [fst snd] in *. injection H as <- <-. eauto 8.
Qed.

Lemma dec_field_inv recd recs f e data e' n1 : dec_field recd recs f e data = Ok (e', n1) ->
  (get_pres (fpres f) e = Ok false /\ e' = e /\ n1 = O) \/
  (get_pres (fpres f) e = Ok true /\ get_len_f f e (length data) = Ok n1 /\ (n1 <= length data)%nat /\
   dec_payload recd recs f e (firstn n1 data) = Ok e').
Proof.
  unfold dec_field. intros H. apply bind_ok in H as [pr [Hp H]]. destruct pr; cbn [negb] in H.
  - right. apply bind_ok in H as [n [Hn H]]. destruct (Nat.ltb (length data) n) eqn:El; [discriminate|].
    apply Nat.ltb_ge in El. apply bind_ok in H as [e2 [Hd H]]. injection H as <- <-. auto.
  - left. injection H as <- <-. auto.
Qed.

(* ---------------------------------------------------------------- bit-field sets *)
Lemma bf_names_cons f r : bf_names (f :: r) = (match f with BitF (Some k) _ _ => [k] | _ => [] end) ++ bf_names r.
Proof. reflexivity. Qed.
Lemma bf_names_app a b : bf_names (a ++ b) = bf_names a ++ bf_names b.
Proof. unfold bf_names. apply flat_map_app. Qed.
Lemma bf_names_rev l : bf_names (rev l) = rev (bf_names l).
Proof.
  induction l as [|f r IH]; [reflexivity|]. cbn [rev]. rewrite bf_names_app, IH. rewrite (bf_names_cons f r), rev_app_distr.
  f_equal. destruct f as [[k|] bl fx]; reflexivity.
Qed.
Lemma bf_names_order_in lsb l k : In k (bf_names (bits_order lsb l)) <-> In k (bf_names l).
Proof. destruct lsb; cbn [bits_order]; [|tauto]. rewrite bf_names_rev. symmetry. apply in_rev. Qed.
Lemma bf_names_order_nodup lsb l : NoDup (bf_names l) -> NoDup (bf_names (bits_order lsb l)).
Proof. destruct lsb; cbn [bits_order]; [|auto]. rewrite bf_names_rev. apply NoDup_rev. Qed.

Lemma dec_bits_fit fs : forall off blob e0 e1,
  dec_bits (layout fs off) blob e0 = Ok e1 -> disj e0 (bf_names fs) -> NoDup (bf_names fs) ->
  exists bcv, e1 = e0 ++ bcv /\ keys bcv = bf_names fs /\
    forall E, (forall k v, In (k, v) bcv -> lookup k E = Some v) -> bits_fit fs E bcv.
Proof.
  induction fs as [|[nm bl fx] r IH]; intros off blob e0 e1 Hd Hdis Hnd.
  - cbn [layout dec_bits] in Hd. injection Hd as <-. exists []. rewrite app_nil_r. split; [reflexivity|]. split; [reflexivity|].
    intros E _. constructor.
  - cbn [layout dec_bits] in Hd. rewrite bf_names_cons in Hdis, Hnd. destruct nm as [k|].
    + cbv zeta in Hd. remember (Z.land (Z.shiftr blob (off - Z.of_nat bl)) (2 ^ Z.of_nat bl - 1)) as v eqn:Ev.
      assert (Hv : 0 <= v < 2 ^ Z.of_nat bl).
      { rewrite Ev. rewrite mask_trunc by lia. apply Z.mod_pos_bound. apply Z.pow_pos_nonneg; lia. }
      clear Ev.
      cbn [app] in Hdis, Hnd. inversion Hnd as [|? ? Hni Hnd']; subst.
      assert (Hk : lookup k e0 = None) by (apply Hdis; left; reflexivity).
      rewrite (eset_fresh k _ e0 Hk) in Hd.
      assert (Hrec : dec_bits (layout r (off - Z.of_nat bl)) blob (e0 ++ [(k, VInt v)]) = Ok e1 /\
                     (fx = None \/ fx = Some v)).
      { destruct fx as [c|]; [|auto]. destruct (Z.eqb_spec v c) as [Evc|_]; [subst c; auto|discriminate]. }
      destruct Hrec as [Hrec Hfx].
      destruct (IH _ _ _ _ Hrec) as [bcv [He1 [Hkeys Hfit]]].
      { apply disj_app; [intros k' Hk'; apply Hdis; right; exact Hk'|].
        intros k' Hk' [<-|[]]. contradiction. }
      { exact Hnd'. }
      exists ((k, VInt v) :: bcv). split; [rewrite He1, <- app_assoc; reflexivity|].
      split; [cbn [keys map fst]; unfold keys in Hkeys; rewrite Hkeys; reflexivity|].
      intros E HE. assert (Hr : bits_fit r E bcv) by (apply Hfit; intros k' v' Hin; apply HE; right; exact Hin).
      destruct Hfx as [->| ->].
      * rewrite <- (Z.mod_small v (2 ^ Z.of_nat bl)) at 1 by exact Hv. constructor; [apply HE; left; reflexivity|exact Hr].
      * constructor; [exact Hv|exact Hr].
    + cbn [app] in Hdis, Hnd. destruct (IH _ _ _ _ Hd Hdis Hnd) as [bcv [He1 [Hkeys Hfit]]].
      exists bcv. split; [exact He1|]. split; [exact Hkeys|]. intros E HE. constructor. apply Hfit, HE.
Qed.

(* ---------------------------------------------------------------- static facts from wfb *)
Lemma wfb_inv fs : wfb fs = true -> NoDup (lnames fs) /\ forallb wfb_f fs = true.
Proof. unfold wfb. intros H. apply andb_true_iff in H as [H1 H2]. split; [apply nodupb_sound, H1|exact H2]. Qed.

Lemma lnames_cons f fs : lnames (f :: fs) = fnames f ++ lnames fs.
Proof. reflexivity. Qed.

Lemma lookup_mid nm v e0 x y : lookup nm e0 = None -> lookup nm (((e0 ++ [(nm, v)]) ++ x) ++ y) = Some v.
Proof. intros H. rewrite !lookup_app, H. cbn [lookup]. rewrite Nat.eqb_refl. reflexivity. Qed.

(* ---------------------------------------------------------------- every decoded message fits *)
Definition Q_dec (fd:nat) : Prop := forall fs e0 data e1 n,
  dec fd fs e0 data = Ok (e1, n) -> NoDup (lnames fs) -> forallb wfb_f fs = true -> bytes_ok data -> disj e0 (lnames fs) ->
  exists cv, e1 = e0 ++ cv /\ (n <= length data)%nat /\ incl (keys cv) (lnames fs) /\ NoDup (keys cv) /\
    forall ext, fits fs (e1 ++ ext) e0 (length data - n) cv n.
Definition Q_seq (fd:nat) : Prop := forall item data vcs,
  dec_seq fd item data = Ok vcs -> NoDup (lnames item) -> forallb wfb_f item = true -> bytes_ok data ->
  fits_items item vcs vcs (length data).

Lemma disj_nil ns : disj [] ns.
Proof. intros k _. reflexivity. Qed.

Lemma dec_fits_mut : forall fd, Q_dec fd /\ Q_seq fd.
Proof.
  induction fd as [|k [IHd IHs]]; [split; [intros fs e0 data e1 n H|intros item data vcs H]; discriminate|]. split.
  - (* dec *)
    intros fs e0 data e1 n Hdec Hnd Hwf Hb Hdis. destruct fs as [|f fs'].
    { cbn [dec] in Hdec. injection Hdec as <- <-. exists []. rewrite app_nil_r. split; [reflexivity|]. split; [lia|].
      split; [intros x []|]. split; [constructor|]. intros ext. constructor. }
    apply dec_cons_inv in Hdec as [e' [n1 [n2 [Hf [Ht ->]]]]].
    rewrite lnames_cons in Hnd, Hdis. destruct (NoDup_app_inv _ _ Hnd) as [Hndf [Hndr Hsep]].
    cbn [forallb] in Hwf. apply andb_true_iff in Hwf as [Hwff Hwfr].
    assert (Hdisr : disj e0 (lnames fs')) by (intros x Hx; apply Hdis, in_or_app; right; exact Hx).
    (* the tail, once the field produced e' = e0 ++ cvf with names of f *)
    assert (Htail : forall cvf, e' = e0 ++ cvf -> incl (keys cvf) (fnames f) -> NoDup (keys cvf) -> (n1 <= length data)%nat ->
      exists cv', e1 = (e0 ++ cvf) ++ cv' /\ (n1 + n2 <= length data)%nat /\ incl (keys (cvf ++ cv')) (fnames f ++ lnames fs') /\
        NoDup (keys (cvf ++ cv')) /\ forall ext, fits fs' (e1 ++ ext) (e0 ++ cvf) (length data - (n1 + n2)) cv' n2).
    { intros cvf -> Hinc Hndc Hn1.
      destruct (IHd fs' _ _ _ _ Ht Hndr Hwfr (bytes_ok_skipn _ _ Hb)) as [cv' [He1 [Hn2 [Hinc' [Hnd' Hfit]]]]].
      { apply disj_app; [exact Hdisr|]. intros x Hx Hxc. exact (Hsep x (Hinc x Hxc) Hx). }
      rewrite skipn_length in Hn2, Hfit. exists cv'. split; [exact He1|]. split; [lia|]. split; [|split].
      - rewrite keys_app. intros x Hx. apply in_app_or in Hx as [Hx|Hx]; apply in_or_app; [left; auto|right; auto].
      - rewrite keys_app. apply NoDup_app_intro; [exact Hndc|exact Hnd'|]. intros x Hx Hx'. exact (Hsep x (Hinc x Hx) (Hinc' x Hx')).
      - intros ext. replace (length data - (n1 + n2))%nat with (length data - n1 - n2)%nat by lia. apply Hfit. }
    apply dec_field_inv in Hf as [[Hp [-> ->]]|[Hp [Hgl [Hn1 Hpay]]]].
    { (* absent *)
      destruct (Htail [] (eq_sym (app_nil_r e0)) (fun x (H:In x []) => match H with end) (NoDup_nil _) (Nat.le_0_l _))
        as [cv' [He1 [Hn [Hinc [Hndc Hfit]]]]].
      rewrite app_nil_r in He1, Hfit. cbn [app] in Hinc, Hndc. exists cv'. split; [exact He1|]. split; [exact Hn|].
      split; [exact Hinc|]. split; [exact Hndc|]. intros ext. apply fits_absent; [|exact Hp|apply Hfit].
      rewrite He1, <- app_assoc. apply get_pres_ext, Hp. }
    (* present *)
    assert (Hld : length (firstn n1 data) = n1) by (apply firstn_length_le; exact Hn1).
    assert (Hbd : bytes_ok (firstn n1 data)) by (apply bytes_ok_firstn, Hb).
    destruct f as [nm l p le sg off mult|nm l p|l p filler|l p lsb bfs|nm l p chk body|nm l p item];
      cbn [fpres] in Hp; cbn [dec_payload] in Hpay; cbn [get_len_f flen] in Hgl; cbn [fnames] in *.
    + (* uint *)
      cbn [wfb_f] in Hwff. apply andb_true_iff in Hwff as [Hl Hm]. destruct l as [[|m]| | |]; try discriminate.
      apply negb_true_iff in Hm. apply Z.eqb_neq in Hm. cbn [get_len] in Hgl. assert (En1 : n1 = S m) by congruence. subst n1. clear Hgl.
      assert (Hk : lookup nm e0 = None) by (apply Hdis; left; reflexivity).
      rewrite (eset_fresh _ _ _ Hk) in Hpay. injection Hpay as <-.
      set (d := firstn (S m) data) in *. set (v := VInt (dec_int le sg d * mult + off)).
      destruct (Htail [(nm, v)] eq_refl) as [cv' [He1 [Hn [Hinc [Hndc Hfit]]]]];
        [intros x [<-|[]]; left; reflexivity|constructor; [intros []|constructor]|exact Hn1|].
      exists ((nm, v) :: cv'). split; [rewrite He1, <- app_assoc; reflexivity|]. split; [exact Hn|].
      split; [exact Hinc|]. split; [exact Hndc|]. intros ext.
      apply fits_uint; [rewrite He1, <- !app_assoc; apply get_pres_ext, Hp|exact Hp|lia|exact Hm| | |apply Hfit].
      * rewrite He1. apply lookup_mid, Hk.
      * rewrite <- Hld. apply dec_int_range; [exact Hbd|lia].
    + (* buf *)
      assert (Hk : lookup nm e0 = None) by (apply Hdis; left; reflexivity).
      rewrite (eset_fresh _ _ _ Hk) in Hpay. injection Hpay as <-.
      set (d := firstn n1 data) in *.
      destruct (Htail [(nm, VBytes d)] eq_refl) as [cv' [He1 [Hn [Hinc [Hndc Hfit]]]]];
        [intros x [<-|[]]; left; reflexivity|constructor; [intros []|constructor]|exact Hn1|].
      exists ((nm, VBytes d) :: cv'). split; [rewrite He1, <- app_assoc; reflexivity|]. split; [exact Hn|].
      split; [exact Hinc|]. split; [exact Hndc|]. intros ext. rewrite <- Hld at 2.
      apply fits_buf; [rewrite He1, <- !app_assoc; apply get_pres_ext, Hp|exact Hp| | |apply Hfit].
      * rewrite He1. apply lookup_mid, Hk.
      * rewrite Hld. replace (n1 + n2 + (length data - (n1 + n2)))%nat with (length data) by lia. exact Hgl.
    + (* spare *)
      injection Hpay as <-. cbn [wfb_f] in Hwff. apply andb_true_iff in Hwff as [Hwff _]. apply andb_true_iff in Hwff as [Hsl _].
      destruct (Htail [] (eq_sym (app_nil_r e0)) (fun x (H:In x []) => match H with end) (NoDup_nil _) Hn1)
        as [cv' [He1 [Hn [Hinc [Hndc Hfit]]]]].
      rewrite app_nil_r in He1, Hfit. cbn [app] in Hinc, Hndc. exists cv'. split; [exact He1|]. split; [exact Hn|].
      split; [exact Hinc|]. split; [exact Hndc|]. intros ext.
      apply fits_spare; [rewrite He1, <- !app_assoc; apply get_pres_ext, Hp|exact Hp| | |apply Hfit].
      * rewrite He1, <- app_assoc. eapply spare_len_indep; eauto.
      * replace (n1 + n2 + (length data - (n1 + n2)))%nat with (length data) by lia. exact Hgl.
    + (* bits *)
      cbn [get_len_f] in Hgl. assert (En1 : n1 = bits_len l bfs) by congruence. subst n1. clear Hgl.
      cbn [wfb_f] in Hwff. apply andb_true_iff in Hwff as [Hwff _]. apply andb_true_iff in Hwff as [Hw1 Hw2].
      apply Nat.leb_le in Hw1, Hw2. unfold bits_layout in Hpay.
      destruct (dec_bits_fit _ _ _ _ _ Hpay) as [bcv [He' [Hkeys Hbfit]]].
      { intros x Hx. apply Hdis, in_or_app. left. apply (bf_names_order_in lsb bfs x), Hx. }
      { apply bf_names_order_nodup, Hndf. }
      assert (Hkn : NoDup (keys bcv)) by (rewrite Hkeys; apply bf_names_order_nodup, Hndf).
      destruct (Htail bcv He') as [cv' [He1 [Hn [Hinc [Hndc Hfit]]]]];
        [intros x Hx; rewrite Hkeys in Hx; apply (bf_names_order_in lsb bfs x), Hx|exact Hkn|exact Hn1|].
      exists (bcv ++ cv'). split; [rewrite He1, <- app_assoc; reflexivity|]. split; [exact Hn|].
      split; [exact Hinc|]. split; [exact Hndc|]. intros ext.
      apply fits_bits; [rewrite He1, <- !app_assoc; apply get_pres_ext, Hp|exact Hp|split; lia| |apply Hfit].
      apply Hbfit. intros x v Hin. rewrite He1, <- !app_assoc, lookup_app.
      assert (Hx0 : lookup x e0 = None).
      { apply Hdis, in_or_app. left. apply (bf_names_order_in lsb bfs x). rewrite <- Hkeys. unfold keys. apply in_map_iff. exists (x, v). auto. }
      rewrite Hx0, lookup_app, (lookup_in_nodup _ _ _ Hkn Hin). reflexivity.
    + (* nested envelope *)
      cbn [wfb_f] in Hwff. apply andb_true_iff in Hwff as [Hwff Hwb]. apply andb_true_iff in Hwff as [Hchk Hnb]. subst chk.
      apply bind_ok in Hpay as [[dcv m] [Hbody Hpay]]. apply wrapD_ok in Hbody. cbn [fst snd andb] in Hpay.
      destruct (Nat.eqb_spec (length (firstn n1 data)) m) as [Hm|Hm]; cbn [negb] in Hpay; [|discriminate].
      assert (Hk : lookup nm e0 = None) by (apply Hdis; left; reflexivity).
      rewrite (eset_fresh _ _ _ Hk) in Hpay. injection Hpay as <-.
      destruct (IHd body [] _ _ _ Hbody (nodupb_sound _ Hnb) Hwb Hbd (disj_nil _)) as [cvb [Hcvb [_ [_ [Hndb Hfitb]]]]].
      cbn [app] in Hcvb. subst cvb. specialize (Hfitb []). rewrite app_nil_r in Hfitb.
      rewrite Hm, Nat.sub_diag in Hfitb. rewrite Hld in Hm. subst m.
      destruct (Htail [(nm, VDict dcv)] eq_refl) as [cv' [He1 [Hn [Hinc [Hndc Hfit]]]]];
        [intros x [<-|[]]; left; reflexivity|constructor; [intros []|constructor]|exact Hn1|].
      exists ((nm, VDict dcv) :: cv'). split; [rewrite He1, <- app_assoc; reflexivity|]. split; [exact Hn|].
      split; [exact Hinc|]. split; [exact Hndc|]. intros ext.
      apply (fits_envf nm l p true body dcv dcv); [rewrite He1, <- !app_assoc; apply get_pres_ext, Hp|exact Hp| |exact Hfitb|exact Hndb| |apply Hfit].
      * rewrite He1. apply lookup_mid, Hk.
      * replace (n1 + n2 + (length data - (n1 + n2)))%nat with (length data) by lia. exact Hgl.
    + (* sequence *)
      cbn [wfb_f] in Hwff. apply andb_true_iff in Hwff as [Hni Hwi].
      apply bind_ok in Hpay as [vs [Hseq Hpay]].
      assert (Hk : lookup nm e0 = None) by (apply Hdis; left; reflexivity).
      rewrite (eset_fresh _ _ _ Hk) in Hpay. injection Hpay as <-.
      pose proof (IHs item _ _ Hseq (nodupb_sound _ Hni) Hwi Hbd) as Hfi. rewrite Hld in Hfi.
      destruct (Htail [(nm, VList vs)] eq_refl) as [cv' [He1 [Hn [Hinc [Hndc Hfit]]]]];
        [intros x [<-|[]]; left; reflexivity|constructor; [intros []|constructor]|exact Hn1|].
      exists ((nm, VList vs) :: cv'). split; [rewrite He1, <- app_assoc; reflexivity|]. split; [exact Hn|].
      split; [exact Hinc|]. split; [exact Hndc|]. intros ext.
      apply (fits_seqf nm l p item vs vs); [rewrite He1, <- !app_assoc; apply get_pres_ext, Hp|exact Hp| |exact Hfi| |apply Hfit].
      * rewrite He1. apply lookup_mid, Hk.
      * replace (n1 + n2 + (length data - (n1 + n2)))%nat with (length data) by lia. exact Hgl.
  - (* dec_seq *)
    intros item data vcs Hseq Hnd Hwf Hb. cbn [dec_seq] in Hseq. destruct data as [|x xs].
    { injection Hseq as <-. constructor. }
    set (data := x :: xs) in *.
    apply bind_ok in Hseq as [[dcv used] [Hit Hseq]]. apply wrapD_ok in Hit. cbn [fst snd] in Hseq.
    destruct used as [|m]; [discriminate|]. apply bind_ok in Hseq as [vs [Hrest Hseq]]. injection Hseq as <-.
    destruct (IHd item [] _ _ _ Hit Hnd Hwf Hb (disj_nil _)) as [cvb [Hcvb [Hu [_ [Hndb Hfitb]]]]].
    cbn [app] in Hcvb. subst cvb. specialize (Hfitb []). rewrite app_nil_r in Hfitb.
    pose proof (IHs item _ _ Hrest Hnd Hwf (bytes_ok_skipn _ _ Hb)) as Hfi. rewrite skipn_length in Hfi.
    replace (length data) with (S m + (length data - S m))%nat by lia.
    apply fi_cons; [exact Hfitb|exact Hndb|lia|exact Hfi].
Qed.

(* ---------------------------------------------------------------- fitting values always encode *)
Lemma enc_cons_ok k f fs e here br : enc_field (enc k) f e = Ok here -> enc k fs e = Ok br -> enc (S k) (f :: fs) e = Ok (here ++ br).
Proof. intros H1 H2. cbn [enc]. rewrite H1. cbn [wrapE bind]. rewrite H2. reflexivity. Qed.

Lemma enc_field_present_ok rec f e data : get_pres (fpres f) e = Ok true -> enc_payload rec f e = Ok data ->
  (fixlen_f f = O \/ fixlen_f f = length data) -> enc_field rec f e = Ok data.
Proof.
  intros Hp Hd Hl. unfold enc_field. rewrite Hp. cbn [bind negb]. rewrite Hd. cbn [bind].
  destruct Hl as [->| ->]; [reflexivity|]. destruct (length data) eqn:E; [reflexivity|]. rewrite Nat.eqb_refl. reflexivity.
Qed.

Lemma fits_enc_mut :
  (forall fs e e0 R cv u, fits fs e e0 R cv u -> forall fe, (lsize fs < fe)%nat -> exists b, enc fe fs e = Ok b) /\
  (forall item vs vcs n, fits_items item vs vcs n -> forall fe, (lsize item < fe)%nat -> exists b, enc_items (enc fe item) vs = Ok b).
Proof.
  apply fits_mutind.
  - intros e e0 R fe Hfe. destruct fe; [lia|]. exists []. reflexivity.
  - intros f fs e e0 R cv u Hpe _ _ IH fe Hfe. destruct fe as [|ke]; [lia|]. rewrite lsize_cons in Hfe. pose proof (fsize_pos f).
    destruct (IH ke ltac:(lia)) as [br Hbr]. exists ([] ++ br). apply enc_cons_ok; [|exact Hbr].
    unfold enc_field. rewrite Hpe. reflexivity.
  - intros nm n p le sg off mult raw fs e e0 R cv u Hpe _ Hn Hm Hl Hr _ IH fe Hfe. destruct fe as [|ke]; [lia|].
    rewrite lsize_cons in Hfe. cbn [fsize] in Hfe. destruct (IH ke ltac:(lia)) as [br Hbr].
    eexists. apply enc_cons_ok; [|exact Hbr]. apply enc_field_present_ok; [exact Hpe| |].
    + cbn [enc_payload]. rewrite Hl. destruct (Z.eqb_spec mult 0); [contradiction|]. rewrite offmult_rt by exact Hm.
      cbn [fixlen]. apply enc_int_ok; assumption.
    + right. cbn [fixlen_f flen fixlen]. cbv zeta. rewrite rev_if_length, to_be_length. reflexivity.
  - intros nm l p bb fs e e0 R cv u Hpe _ Hl Hgl _ IH fe Hfe. destruct fe as [|ke]; [lia|].
    rewrite lsize_cons in Hfe. cbn [fsize] in Hfe. destruct (IH ke ltac:(lia)) as [br Hbr].
    eexists. apply enc_cons_ok; [|exact Hbr]. apply enc_field_present_ok; [exact Hpe| |].
    + cbn [enc_payload]. rewrite Hl. reflexivity.
    + cbn [fixlen_f flen]. eapply get_len_fixlen, Hgl.
  - intros l p filler n fs e e0 R cv u Hpe _ Hge Hg0 _ IH fe Hfe. destruct fe as [|ke]; [lia|].
    rewrite lsize_cons in Hfe. cbn [fsize] in Hfe. destruct (IH ke ltac:(lia)) as [br Hbr].
    eexists. apply enc_cons_ok; [|exact Hbr]. apply enc_field_present_ok; [exact Hpe| |].
    + cbn [enc_payload]. rewrite Hge. reflexivity.
    + cbn [fixlen_f flen]. rewrite repeat_length. eapply get_len_fixlen, Hge.
  - intros l p lsb bfs bcv fs e e0 R cv u Hpe _ Hwf Hbf _ IH fe Hfe. destruct fe as [|ke]; [lia|].
    rewrite lsize_cons in Hfe. cbn [fsize] in Hfe. destruct (IH ke ltac:(lia)) as [br Hbr].
    destruct (bits_enc l lsb bfs e bcv Hwf Hbf) as [Hb1 [Hb2 _]].
    eexists. apply enc_cons_ok; [|exact Hbr]. apply enc_field_present_ok; [exact Hpe| |].
    + cbn [enc_payload]. rewrite Hb1. cbn [bind]. exact Hb2.
    + right. cbn [fixlen_f]. rewrite to_be_length. reflexivity.
  - intros nm l p chk body d dcv n fs e e0 R cv u Hpe _ Hl Hfb IHb _ Hgl _ IH fe Hfe. destruct fe as [|ke]; [lia|].
    rewrite lsize_cons in Hfe. cbn [fsize] in Hfe. fold (lsize body) in Hfe. destruct (IH ke ltac:(lia)) as [br Hbr].
    destruct (IHb ke ltac:(lia)) as [bd Hbd].
    destruct (proj1 enc_dec_mut _ _ _ _ _ _ Hfb ke bd Hbd) as [Hlen _].
    eexists. apply enc_cons_ok; [|exact Hbr]. apply enc_field_present_ok; [exact Hpe| |].
    + cbn [enc_payload]. rewrite Hl, Hbd. reflexivity.
    + cbn [fixlen_f flen]. rewrite Hlen. eapply get_len_fixlen, Hgl.
  - intros nm l p item vs vcs n fs e e0 R cv u Hpe _ Hl Hfi IHi Hgl _ IH fe Hfe. destruct fe as [|ke]; [lia|].
    rewrite lsize_cons in Hfe. cbn [fsize] in Hfe. fold (lsize item) in Hfe. destruct (IH ke ltac:(lia)) as [br Hbr].
    destruct (IHi ke ltac:(lia)) as [bd Hbd].
    destruct (proj2 enc_dec_mut _ _ _ _ Hfi ke bd Hbd) as [Hlen _].
    eexists. apply enc_cons_ok; [|exact Hbr]. apply enc_field_present_ok; [exact Hpe| |].
    + cbn [enc_payload]. rewrite Hl. exact Hbd.
    + cbn [fixlen_f flen]. rewrite Hlen. eapply get_len_fixlen, Hgl.
  - intros item fe _. exists []. reflexivity.
  - intros item d dcv ui vs vcs us _ IHd _ _ _ IHr fe Hfe.
    destruct (IHd fe Hfe) as [b1 H1]. destruct (IHr fe Hfe) as [bs Hs]. exists (b1 ++ bs).
    cbn [enc_items]. rewrite H1. cbn [wrapE bind]. rewrite Hs. reflexivity.
Qed.

(* ---------------------------------------------------------------- the theorem at the Envelope API *)
Lemma dec_enc_top chk fs data v n : wfb fs = true -> bytes_ok data -> decode chk fs data = Ok (v, n) ->
  (n <= length data)%nat /\ fits fs v [] (length data - n) v n /\ NoDup (keys v) /\
  exists b', encode fs v = Ok b' /\ length b' = n /\ decode chk fs (b' ++ skipn n data) = Ok (v, n).
Proof.
  intros Hwf Hb Hdec. unfold decode in Hdec. destruct (proto_ok fs) eqn:Hpo; [|discriminate].
  apply bind_ok in Hdec as [[v0 n0] [Hd Hchk]]. apply wrapD_ok in Hd. cbn [fst snd] in Hchk.
  destruct (chk && negb (Nat.eqb (length data) n0)) eqn:Etail; [discriminate|]. injection Hchk as <- <-.
  destruct (wfb_inv _ Hwf) as [Hnd Hwff].
  destruct (proj1 (dec_fits_mut _) _ _ _ _ _ Hd Hnd Hwff Hb (disj_nil _)) as [cv [Hcv [Hn [_ [Hndc Hfit]]]]].
  cbn [app] in Hcv. subst cv. specialize (Hfit []). rewrite app_nil_r in Hfit.
  split; [exact Hn|]. split; [exact Hfit|]. split; [exact Hndc|].
  destruct (proj1 fits_enc_mut _ _ _ _ _ _ Hfit (enc_fuel fs) ltac:(unfold enc_fuel; lia)) as [b' Hb'].
  destruct (proj1 enc_dec_mut _ _ _ _ _ _ Hfit _ _ Hb') as [Hlen Hdd].
  specialize (Hdd (fresh_of_nodup _ Hndc) (dec_fuel fs (b' ++ skipn n0 data)) (skipn n0 data)).
  rewrite skipn_length in Hdd. specialize (Hdd eq_refl ltac:(unfold dec_fuel; lia)). cbn [app] in Hdd.
  exists b'. split; [unfold encode; rewrite Hpo, Hb'; reflexivity|]. split; [exact Hlen|].
  unfold decode. rewrite Hpo, Hdd. cbn [wrapD bind fst snd]. rewrite Hlen.
  replace (length (b' ++ skipn n0 data)) with (length data) by (rewrite app_length, skipn_length; lia).
  rewrite Etail. reflexivity.
Qed.
