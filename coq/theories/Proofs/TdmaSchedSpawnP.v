(* C08, re-entrant part: callbacks that call tdma_schedule() / tdma_sched_reset() while tdma_sched_execute() runs
   (Model/TdmaSched.v second part: cb_effect, exec_loop, tdma_sched_execute_sp, run_sp).
   - conservative extension: without such callbacks the re-entrant execute IS the execute of the 13 history theorems;
   - no crash / no fuel exhaustion, whatever the callbacks return;
   - the general shape of one call (effects in sorted order, then the items appended to the running frame, then the clear);
   - a same-frame child runs in the very call, a child N frames ahead lands in frame N and does not run, a full frame refuses. *)
From Coq Require Import ZArith List Bool Lia Permutation Sorted ZifyBool.
From OBB Require Import Gen.FwSchedConst Model.TdmaSched Proofs.TdmaSchedSpec Proofs.TdmaSchedSortP Proofs.TdmaSchedP Proofs.TdmaSchedRefP Proofs.TdmaSchedHistP.
Import ListNotations.
Open Scope Z_scope.
Ltac Zify.zify_post_hook ::= Z.to_euclidean_division_equations.

(* ---- vocabulary ---- *)
(* a callback that does not use the scheduler *)
Definition plain (it : item) : Prop := i_cb it <> 15 /\ i_cb it <> 16.
Definition calls (lg : list xev) : list item :=
  flat_map (fun e => match e with ECall it => [it] | _ => [] end) lg.

Definition lift_x (r : xres) : sxres :=
  match r with
  | XOk st lg ret => SXOk st (map ECall lg) ret
  | XOOB => SXOOB
  | XNull lg => SXNull (map ECall lg)
  end.

Lemma plain_is_spawn it : plain it -> is_spawn (i_cb it) = false.
Proof. intros (H1 & H2). unfold is_spawn, CB_SPAWN, CB_RSPAWN. lia. Qed.

Lemma cb_effect_plain rcf st it : plain it -> cb_effect rcf st it = Ok (st, rcf it, [ECall it]).
Proof.
  intros (H1 & H2). unfold cb_effect, CB_SPAWN, CB_RSPAWN.
  replace (i_cb it =? 15) with false by lia. replace (i_cb it =? 16) with false by lia. reflexivity.
Qed.

Lemma calls_app a b : calls (a ++ b) = calls a ++ calls b.
Proof. unfold calls. apply flat_map_app. Qed.

Lemma calls_map_ECall l : calls (map ECall l) = l.
Proof. induction l as [|x r IH]; [reflexivity|]. cbn [map]. change (calls (ECall x :: map ECall r)) with (x :: calls (map ECall r)). rewrite IH. reflexivity. Qed.

(* ---- the seq[] array: sorted slots of the entry items, then the identity up to TDMASCHED_NUM_CB ---- *)
Lemma bucket_sort_shape b : (length b <= 8)%nat -> bucket_sort b = slot_order b ++ seq (length b) (8 - length b).
Proof.
  intros Hn. rewrite slot_order_ssort by exact Hn. unfold bucket_sort. rewrite num_cb_nat.
  replace 8%nat with (length b + (8 - length b))%nat at 1 by lia.
  rewrite seq_app. cbn [Nat.add].
  pose proof (outer_ssort b (seq 0 (length b)) [] (seq (length b) (8 - length b)) (length b)) as H.
  cbn [app length] in H. rewrite seq_length in H. specialize (H eq_refl). exact H.
Qed.

Lemma slot_order_length b : (length b <= 8)%nat -> length (slot_order b) = length b.
Proof. intros H. rewrite (Permutation_length (slot_order_perm b H)). apply seq_length. Qed.

Lemma slot_order_lt b : (length b <= 8)%nat -> Forall (fun k => (k < length b)%nat) (slot_order b).
Proof.
  intros H. apply Forall_forall. intros k Hk.
  apply (Permutation_in _ (slot_order_perm b H)) in Hk. apply in_seq in Hk. lia.
Qed.

Lemma nth_error_mid {A} (pre : list A) x post : nth_error (pre ++ x :: post) (length pre) = Some x.
Proof. rewrite nth_error_app2 by lia. rewrite Nat.sub_diag. reflexivity. Qed.

Lemma nth_error_nth_lt' {A} (l : list A) n d : (n < length l)%nat -> nth_error l n = Some (nth n l d).
Proof. apply nth_error_nth_lt. Qed.

(* ---- conservative extension ---- *)
Definition fin_plain (st : sched) (c : Z) (i : nat) (r : list item * stop) : sxres :=
  match r with
  | (lg, SDone) => SXOk (set_bucket st c []) (map ECall lg) (Z.of_nat (i + length lg))
  | (lg, SFail rc) => SXOk st (map ECall lg) rc
  | (lg, SNull) => SXNull (map ECall lg)
  end.

Lemma loop_plain rcf c st b : nth_error (s_bk st) (Z.to_nat c) = Some b -> Forall plain b ->
  forall ks pre tail fuel, (length pre + length ks = length b)%nat -> Forall (fun k => (k < length b)%nat) ks ->
  (length ks < fuel)%nat ->
  exec_loop rcf fuel (pre ++ ks ++ tail) c st (length pre) = fin_plain st c (length pre) (run_items rcf (map (fun k => nth k b dflt) ks)).
Proof.
  intros Hb Hpl. induction ks as [|k ks IH]; intros pre tail fuel Hlen Hlt Hf.
  - destruct fuel as [|f]; [cbn [length] in Hf; lia|]. cbn [exec_loop]. rewrite Hb.
    cbn [length] in Hlen. replace (length pre <? length b)%nat with false by lia.
    cbn [map run_items fin_plain length]. rewrite Nat.add_0_r. reflexivity.
  - destruct fuel as [|f]; [cbn [length] in Hf; lia|]. cbn [exec_loop]. rewrite Hb.
    cbn [length] in Hlen, Hf. replace (length pre <? length b)%nat with true by lia.
    cbn [app]. rewrite nth_error_mid.
    inversion Hlt as [|? ? Hk Hlt']; subst.
    rewrite (nth_error_nth_lt b k dflt Hk). cbn [map run_items].
    set (it := nth k b dflt).
    assert (Hit : plain it). { rewrite Forall_forall in Hpl. apply Hpl. apply nth_In. exact Hk. }
    destruct (i_cb it =? CB_NULL); [reflexivity|].
    rewrite (cb_effect_plain rcf st it Hit).
    destruct (rcf it <? 0); [reflexivity|].
    specialize (IH (pre ++ [k]) tail f).
    rewrite app_length in IH. cbn [length] in IH.
    rewrite <- app_assoc in IH. cbn [app] in IH.
    replace (S (length pre)) with (length pre + 1)%nat by lia.
    rewrite IH by (try assumption; lia).
    destruct (run_items rcf (map (fun k0 => nth k0 b dflt) ks)) as [lg [| rc |]]; cbn [fin_plain sx_prepend map app length].
    + f_equal. lia.
    + reflexivity.
    + reflexivity.
Qed.

Lemma conservative rcf st : Forall plain (bucket_abs st (s_cur st)) ->
  tdma_sched_execute_sp rcf st = lift_x (tdma_sched_execute rcf st).
Proof.
  intros Hpl. unfold tdma_sched_execute_sp, tdma_sched_execute.
  destruct (nth_error (s_bk st) (Z.to_nat (s_cur st))) as [b|] eqn:Hb; [|reflexivity].
  assert (Eb : bucket_abs st (s_cur st) = b) by (unfold bucket_abs; apply nth_error_nth; exact Hb).
  rewrite Eb in Hpl. rewrite ni_eq, ncb_eq.
  destruct ((8 <? Z.of_nat (length b)) || (8 <? Z.of_nat (length b))) eqn:E; [reflexivity|].
  assert (Hn : (length b <= 8)%nat) by lia.
  rewrite bucket_sort_shape by exact Hn.
  pose proof (loop_plain rcf (s_cur st) st b Hb Hpl (slot_order b) [] (seq (length b) (8 - length b)) (S (Z.to_nat 8))) as H.
  cbn [app length] in H. rewrite H.
  - unfold exec_order. fold (slot_order b).
    destruct (run_items rcf (map (fun k => nth k b dflt) (slot_order b))) as [lg [| rc |]]; reflexivity.
  - rewrite slot_order_length by exact Hn. reflexivity.
  - apply slot_order_lt. exact Hn.
  - rewrite slot_order_length by exact Hn. lia.
Qed.

(* ---- one callback on a well-formed state ---- *)
Definition childlike (it : item) : Prop := 2 <= i_cb it <= 9.

Lemma child_childlike it : childlike (child_of it).
Proof. unfold childlike, child_of. cbn [i_cb]. lia. Qed.

Lemma childlike_plain it : childlike it -> plain it.
Proof. unfold childlike, plain. lia. Qed.

Lemma wrap_bucket_any cur off : wrap_bucket cur off = (cur + off) mod 25.
Proof. unfold wrap_bucket, u8, u16. rewrite nb_eq. lia. Qed.

(* tdma_schedule for ANY uint8 offset (the callback passes its p2 unchecked) *)
Lemma schedule_spec_any st off it : wf st ->
  tdma_schedule st off it =
    if (8 <=? Z.of_nat (length (bucket_abs st ((s_cur st + off) mod 25)))) then Ok (st, -1)
    else Ok (set_bucket st ((s_cur st + off) mod 25) (bucket_abs st ((s_cur st + off) mod 25) ++ [it]), 0).
Proof.
  intros Hwf. unfold tdma_schedule. rewrite wrap_bucket_any.
  rewrite abs_nth_error by (try assumption; lia). rewrite ni_eq. reflexivity.
Qed.

(* the running frame only grows, by child-like items *)
Definition grows (c : Z) (st st' : sched) : Prop :=
  wf st' /\ cbs_ok st' /\ s_cur st' = s_cur st /\
  exists extra, bucket_abs st' c = bucket_abs st c ++ extra /\ Forall childlike extra.

Lemma grows_refl c st : wf st -> cbs_ok st -> grows c st st.
Proof. intros H1 H2. unfold grows. split; [exact H1|]. split; [exact H2|]. split; [reflexivity|]. exists []. rewrite app_nil_r. split; [reflexivity|constructor]. Qed.

Lemma grows_trans c a b d : grows c a b -> grows c b d -> grows c a d.
Proof.
  intros (_ & _ & C1 & x1 & E1 & F1) (W & K & C2 & x2 & E2 & F2). unfold grows. split; [exact W|]. split; [exact K|]. split; [congruence|].
  exists (x1 ++ x2). rewrite E2, E1, app_assoc. split; [reflexivity|]. apply Forall_app. split; assumption.
Qed.

Lemma schedule_child_grows st off it : wf st -> cbs_ok st -> childlike it ->
  exists st' rc, tdma_schedule st off it = Ok (st', rc) /\ grows (s_cur st) st st'.
Proof.
  intros Hwf Hcb Hch. pose proof Hwf as (Hl & Hc & Hall). rewrite schedule_spec_any by exact Hwf.
  set (B := (s_cur st + off) mod 25). assert (HB : 0 <= B < 25) by (unfold B; lia).
  destruct (8 <=? Z.of_nat (length (bucket_abs st B))) eqn:E.
  - eexists _, _. split; [reflexivity|]. apply grows_refl; assumption.
  - eexists _, _. split; [reflexivity|]. unfold grows. rewrite cur_set_bucket.
    split; [apply wf_set_bucket; [exact Hwf|rewrite app_length; cbn [length]; lia]|].
    split. { apply cbs_set_bucket; [exact Hcb|]. apply Forall_app. split; [apply abs_cbs; exact Hcb|].
             constructor; [unfold childlike in Hch; lia|constructor]. }
    split; [reflexivity|].
    destruct (Z.eq_dec B (s_cur st)) as [->|Hne].
    + exists [it]. rewrite abs_set_bucket_eq by assumption. split; [reflexivity|]. constructor; [exact Hch|constructor].
    + exists []. rewrite abs_set_bucket_neq by lia. rewrite app_nil_r. split; [reflexivity|constructor].
Qed.

Lemma reset_grows st : wf st -> cbs_ok st -> grows (s_cur st) st (tdma_sched_reset st).
Proof.
  intros Hwf Hcb. unfold grows. split; [apply wf_reset; exact Hwf|]. split; [apply cbs_reset; exact Hcb|].
  split; [reflexivity|]. exists []. rewrite app_nil_r. split; [|constructor].
  rewrite reset_abs by apply Hwf. rewrite Z.eqb_refl. reflexivity.
Qed.

(* every callback of the model, on a well-formed state, returns normally; its result is 0 or rcf's *)
Lemma cb_effect_ok rcf st it : wf st -> cbs_ok st ->
  exists st' rc evs, cb_effect rcf st it = Ok (st', rc, evs) /\ grows (s_cur st) st st' /\ (rc = 0 \/ rc = rcf it).
Proof.
  intros Hwf Hcb. unfold cb_effect.
  destruct (i_cb it =? CB_SPAWN).
  - destruct (schedule_child_grows st (i_p2 it) (child_of it) Hwf Hcb (child_childlike it)) as (st' & rc & E & G).
    rewrite E. eexists _, _, _. split; [reflexivity|]. split; [exact G|left; reflexivity].
  - destruct (i_cb it =? CB_RSPAWN).
    + pose proof (reset_grows st Hwf Hcb) as G0. pose proof G0 as (W0 & K0 & C0 & _).
      destruct (schedule_child_grows (tdma_sched_reset st) (i_p2 it) (child_of it) W0 K0 (child_childlike it)) as (st' & rc & E & G).
      rewrite E. eexists _, _, _. split; [reflexivity|]. split; [|left; reflexivity].
      eapply grows_trans; [exact G0|]. rewrite C0 in G. exact G.
    + eexists _, _, _. split; [reflexivity|]. split; [apply grows_refl; assumption|right; reflexivity].
Qed.

(* ---- the loop never crashes and never runs out of fuel, whatever the callbacks return ---- *)
(* seq[] as computed at entry for a bucket of n0 items: entries below n0 point below n0, the others are the identity *)
Definition seq_ok (sq : list nat) (n0 : nat) : Prop :=
  forall j, (j < 8)%nat -> exists k, nth_error sq j = Some k /\ ((j < n0)%nat /\ (k < n0)%nat \/ (n0 <= j)%nat /\ k = j).

Lemma bucket_sort_seq_ok b : (length b <= 8)%nat -> seq_ok (bucket_sort b) (length b).
Proof.
  intros Hn j Hj. rewrite bucket_sort_shape by exact Hn.
  pose proof (slot_order_length b Hn) as HL. pose proof (slot_order_lt b Hn) as HF.
  destruct (lt_dec j (length b)) as [Hlt|Hge].
  - rewrite nth_error_app1 by lia.
    destruct (nth_error (slot_order b) j) as [k|] eqn:E; [|apply nth_error_None in E; lia].
    exists k. split; [reflexivity|]. left. split; [exact Hlt|].
    rewrite Forall_forall in HF. apply HF. eapply nth_error_In. exact E.
  - rewrite nth_error_app2 by lia. rewrite HL.
    exists j. split; [|right; split; [lia|reflexivity]].
    rewrite (nth_error_nth_lt _ _ O) by (rewrite seq_length; lia).
    rewrite seq_nth by lia. f_equal. lia.
Qed.

Lemma loop_total rcf sq n0 : seq_ok sq n0 ->
  forall m fuel st i, wf st -> cbs_ok st -> (n0 <= length (bucket_abs st (s_cur st)))%nat ->
  (8 - i <= m)%nat -> (m < fuel)%nat ->
  exists st' lg r, exec_loop rcf fuel sq (s_cur st) st i = SXOk st' lg r /\ wf st' /\ cbs_ok st' /\ s_cur st' = s_cur st.
Proof.
  intros Hsq. induction m as [|m IH]; intros fuel st i Hwf Hcb Hn0 Hm Hf.
  - destruct fuel as [|f]; [lia|]. cbn [exec_loop]. rewrite abs_nth_error by (try assumption; apply Hwf).
    pose proof (abs_len st (s_cur st) Hwf) as Hlen.
    replace (i <? length (bucket_abs st (s_cur st)))%nat with false by lia.
    eexists _, _, _. split; [reflexivity|]. split; [apply wf_set_bucket; [exact Hwf|cbn; lia]|].
    split; [apply cbs_set_bucket; [exact Hcb|constructor]|reflexivity].
  - destruct fuel as [|f]; [lia|]. cbn [exec_loop]. rewrite abs_nth_error by (try assumption; apply Hwf).
    pose proof (abs_len st (s_cur st) Hwf) as Hlen.
    destruct (i <? length (bucket_abs st (s_cur st)))%nat eqn:Ei.
    + destruct (Hsq i ltac:(lia)) as (k & Ek & Hk). rewrite Ek.
      assert (Hklt : (k < length (bucket_abs st (s_cur st)))%nat) by lia.
      rewrite (nth_error_nth_lt _ k dflt Hklt).
      set (it := nth k (bucket_abs st (s_cur st)) dflt).
      assert (Hnz : i_cb it <> 0).
      { pose proof (abs_cbs st (s_cur st) Hcb) as HF. rewrite Forall_forall in HF. apply HF. apply nth_In. exact Hklt. }
      unfold CB_NULL. replace (i_cb it =? 0) with false by lia.
      destruct (cb_effect_ok rcf st it Hwf Hcb) as (st1 & rc & evs & E & (W1 & K1 & C1 & x & Ex & Fx) & _). rewrite E.
      destruct (rc <? 0).
      * eexists _, _, _. split; [reflexivity|]. auto.
      * destruct (IH f st1 (S i) W1 K1) as (st2 & lg & r & E2 & W2 & K2 & C2); try lia.
        { rewrite C1, Ex, app_length. lia. }
        rewrite C1 in E2. rewrite E2. cbn [sx_prepend]. eexists _, _, _. split; [reflexivity|].
        split; [exact W2|]. split; [exact K2|congruence].
    + eexists _, _, _. split; [reflexivity|]. split; [apply wf_set_bucket; [exact Hwf|cbn; lia]|].
      split; [apply cbs_set_bucket; [exact Hcb|constructor]|reflexivity].
Qed.

Lemma execute_sp_total rcf st : wf st -> cbs_ok st ->
  exists st' lg r, tdma_sched_execute_sp rcf st = SXOk st' lg r /\ wf st' /\ cbs_ok st' /\ s_cur st' = s_cur st.
Proof.
  intros Hwf Hcb. unfold tdma_sched_execute_sp. rewrite abs_nth_error by (try assumption; apply Hwf).
  pose proof (abs_len st (s_cur st) Hwf) as Hlen. rewrite ni_eq, ncb_eq.
  replace ((8 <? Z.of_nat (length (bucket_abs st (s_cur st)))) || (8 <? Z.of_nat (length (bucket_abs st (s_cur st))))) with false by lia.
  apply (loop_total rcf _ _ (bucket_sort_seq_ok _ Hlen) 8%nat); try assumption; try lia.
Qed.

(* histories *)
Lemma step_sp_ok rcf st o : wf st -> cbs_ok st -> op_ok o ->
  exists st' b, step_sp rcf st o = Ok (st', b) /\ wf st' /\ cbs_ok st'.
Proof.
  intros Hwf Hcb Hok. destruct o as [off it|off set p3| | |]; cbn [step_sp op_ok] in *.
  - destruct Hok as (Ho & Hi). destruct (schedule_ext st off it Hwf ltac:(lia)) as (st' & rc & Hs & Hwf' & _ & Hcb').
    rewrite Hs. eexists _, _. split; [reflexivity|]. split; [exact Hwf'|auto].
  - destruct Hok as (H0 & Hb & plan & Hp).
    rewrite (schedule_set_place st off set p3 plan) by (try assumption; try apply Hwf; lia).
    pose proof (plan_ok_of_set off set p3 plan H0 Hb Hp) as HF.
    destruct (place_ext off (set_nframes set) plan st Hwf) as (st' & rc & Hs & Hwf' & _ & Hcb').
    { eapply Forall_impl; [|exact HF]. cbv beta. intros e He. lia. }
    rewrite Hs. eexists _, _. split; [reflexivity|]. split; [exact Hwf'|auto].
  - eexists _, _. split; [reflexivity|]. split; [apply wf_advance; exact Hwf|exact Hcb].
  - destruct (execute_sp_total rcf st Hwf Hcb) as (st' & lg & r & He & W & K & _). rewrite He.
    eexists _, _. split; [reflexivity|]. split; assumption.
  - eexists _, _. split; [reflexivity|]. split; [apply wf_reset; exact Hwf|apply cbs_reset; exact Hcb].
Qed.

Lemma run_sp_ok rcf : forall ops st, wf st -> cbs_ok st -> Forall op_ok ops ->
  exists os st', run_sp rcf st ops = (os, FOk st') /\ wf st' /\ cbs_ok st' /\ length os = length ops.
Proof.
  induction ops as [|o r IH]; intros st Hwf Hcb HF; cbn [run_sp].
  - exists [], st. split; [reflexivity|]. split; [exact Hwf|]. split; [exact Hcb|reflexivity].
  - inversion HF as [|? ? Ho Hr]; subst.
    destruct (step_sp_ok rcf st o Hwf Hcb Ho) as (st1 & b & Hs & Hwf1 & Hcb1). rewrite Hs.
    destruct (IH st1 Hwf1 Hcb1 Hr) as (os & st2 & Hrun & Hwf2 & Hcb2 & Hlen). rewrite Hrun.
    exists (b :: os), st2. split; [reflexivity|]. split; [exact Hwf2|]. split; [exact Hcb2|cbn [length]; lia].
Qed.

(* ---- the general shape of one call when every plain callback reports success ---- *)
(* the callbacks xs invoked one after the other, each on the state its predecessors left: final state and what happened *)
Fixpoint spawn_phase (rcf : item -> Z) (st : sched) (xs : list item) : sched * list xev :=
  match xs with
  | [] => (st, [])
  | it :: r =>
    match cb_effect rcf st it with
    | Ok (st', _, evs) => let '(st2, evs2) := spawn_phase rcf st' r in (st2, evs ++ evs2)
    | _ => (st, [])
    end
  end.

Lemma spawn_phase_grows rcf : forall xs st, wf st -> cbs_ok st -> grows (s_cur st) st (fst (spawn_phase rcf st xs)).
Proof.
  induction xs as [|it r IH]; intros st Hwf Hcb; cbn [spawn_phase].
  - apply grows_refl; assumption.
  - destruct (cb_effect_ok rcf st it Hwf Hcb) as (st1 & rc & evs & E & G & _). rewrite E.
    pose proof G as (W1 & K1 & C1 & _). specialize (IH st1 W1 K1). rewrite C1 in IH.
    destruct (spawn_phase rcf st1 r) as [st2 evs2]. cbn [fst] in *. eapply grows_trans; eassumption.
Qed.

Lemma spawn_phase_plain rcf st : forall xs, Forall plain xs -> spawn_phase rcf st xs = (st, map ECall xs).
Proof.
  induction xs as [|it r IH]; intros H; [reflexivity|]. inversion H as [|? ? Hi Hr]; subst.
  cbn [spawn_phase]. rewrite (cb_effect_plain rcf st it Hi). rewrite (IH Hr). reflexivity.
Qed.

Lemma spawn_phase_app rcf : forall xs ys st, wf st -> cbs_ok st ->
  spawn_phase rcf st (xs ++ ys) =
    (fst (spawn_phase rcf (fst (spawn_phase rcf st xs)) ys), snd (spawn_phase rcf st xs) ++ snd (spawn_phase rcf (fst (spawn_phase rcf st xs)) ys)).
Proof.
  induction xs as [|it r IH]; intros ys st Hwf Hcb.
  - cbn [app spawn_phase fst snd]. destruct (spawn_phase rcf st ys); reflexivity.
  - cbn [app spawn_phase]. destruct (cb_effect_ok rcf st it Hwf Hcb) as (st1 & rc & evs & E & (W1 & K1 & _) & _). rewrite E.
    rewrite (IH ys st1 W1 K1). destruct (spawn_phase rcf st1 r) as [s2 e2]. cbn [fst snd]. rewrite app_assoc. reflexivity.
Qed.

Lemma sx_prepend_app a b r : sx_prepend a (sx_prepend b r) = sx_prepend (a ++ b) r.
Proof. destruct r; cbn [sx_prepend]; rewrite ?app_assoc; reflexivity. Qed.

Lemma loop_segment rcf c bc : (forall x, 0 <= rcf x) ->
  forall ks pre tail f st, wf st -> cbs_ok st -> s_cur st = c ->
  (exists extra, bucket_abs st c = bc ++ extra) ->
  (length pre + length ks <= length bc)%nat -> Forall (fun k => (k < length bc)%nat) ks ->
  exec_loop rcf (length ks + f) (pre ++ ks ++ tail) c st (length pre) =
    sx_prepend (snd (spawn_phase rcf st (map (fun k => nth k bc dflt) ks)))
               (exec_loop rcf f (pre ++ ks ++ tail) c (fst (spawn_phase rcf st (map (fun k => nth k bc dflt) ks))) (length pre + length ks)).
Proof.
  intros Hr. induction ks as [|k ks IH]; intros pre tail f st Hwf Hcb Hc (extra & Hb) Hlen Hlt.
  - cbn [length map spawn_phase fst snd Nat.add]. rewrite Nat.add_0_r.
    destruct (exec_loop rcf f (pre ++ [] ++ tail) c st (length pre)); reflexivity.
  - cbn [length Nat.add map]. cbn [exec_loop].
    assert (Hcr : 0 <= c < 25) by (subst c; apply Hwf).
    rewrite abs_nth_error by assumption. rewrite Hb, app_length.
    cbn [length] in Hlen. replace (length pre <? length bc + length extra)%nat with true by lia.
    cbn [app]. rewrite nth_error_mid.
    apply Forall_cons_iff in Hlt as (Hk & Hlt').
    rewrite nth_error_app1 by exact Hk. rewrite (nth_error_nth_lt bc k dflt Hk).
    set (it := nth k bc dflt).
    assert (Hnz : i_cb it <> 0).
    { pose proof (abs_cbs st c Hcb) as HF. rewrite Hb in HF. apply Forall_app in HF as (HF & _).
      rewrite Forall_forall in HF. apply HF. apply nth_In. exact Hk. }
    unfold CB_NULL. replace (i_cb it =? 0) with false by lia.
    cbn [spawn_phase].
    destruct (cb_effect_ok rcf st it Hwf Hcb) as (st1 & rc & evs & E & (W1 & K1 & C1 & x & Ex & Fx) & Hrc). rewrite E.
    assert (Hrc0 : (rc <? 0) = false) by (specialize (Hr it); lia). rewrite Hrc0.
    specialize (IH (pre ++ [k]) tail f st1 W1 K1 ltac:(congruence)).
    rewrite app_length in IH. cbn [length] in IH. rewrite <- app_assoc in IH. cbn [app] in IH.
    replace (S (length pre)) with (length pre + 1)%nat by lia.
    rewrite IH.
    + destruct (spawn_phase rcf st1 (map (fun k0 => nth k0 bc dflt) ks)) as [st2 evs2]. cbn [fst snd].
      rewrite sx_prepend_app. replace (length pre + 1 + length ks)%nat with (length pre + S (length ks))%nat by lia. reflexivity.
    + exists (extra ++ x). rewrite <- Hc. rewrite Ex. rewrite Hc, Hb. rewrite app_assoc. reflexivity.
    + lia.
    + exact Hlt'.
Qed.

Lemma loop_exit rcf sq c st f : wf st -> s_cur st = c ->
  exec_loop rcf (S f) sq c st (length (bucket_abs st c)) = SXOk (set_bucket st c []) [] (Z.of_nat (length (bucket_abs st c))).
Proof.
  intros Hwf Hc. cbn [exec_loop]. rewrite abs_nth_error by (try assumption; subst c; apply Hwf).
  rewrite Nat.ltb_irrefl. reflexivity.
Qed.

Lemma map_nth_seq_app {A} (d : A) : forall (x b : list A), map (fun k => nth k (b ++ x) d) (seq (length b) (length x)) = x.
Proof.
  induction x as [|a r IH]; intros b; [reflexivity|]. cbn [length seq map]. rewrite nth_middle. f_equal.
  specialize (IH (b ++ [a])). rewrite app_length, <- app_assoc in IH. cbn [length app] in IH.
  replace (length b + 1)%nat with (S (length b)) in IH by lia. exact IH.
Qed.

Lemma execute_sp_shape rcf st : wf st -> cbs_ok st -> (forall x, 0 <= rcf x) ->
  exists extra,
    bucket_due (fst (spawn_phase rcf st (exec_order (bucket_due st 0)))) 0 = bucket_due st 0 ++ extra /\
    Forall childlike extra /\
    tdma_sched_execute_sp rcf st =
      SXOk (set_bucket (fst (spawn_phase rcf st (exec_order (bucket_due st 0)))) (s_cur st) [])
           (snd (spawn_phase rcf st (exec_order (bucket_due st 0))) ++ map ECall extra)
           (Z.of_nat (length (bucket_due st 0) + length extra)).
Proof.
  intros Hwf Hcb Hr. pose proof Hwf as (Hl & Hc & Hall).
  rewrite (bucket_due_0 st Hwf). set (b := bucket_abs st (s_cur st)).
  pose proof (abs_len st (s_cur st) Hwf) as Hlen. fold b in Hlen.
  pose proof (spawn_phase_grows rcf (exec_order b) st Hwf Hcb) as (W1 & K1 & C1 & extra & Ex & Fx).
  set (st1 := fst (spawn_phase rcf st (exec_order b))) in *.
  exists extra. rewrite (bucket_due_0 st1 W1), C1. fold b in Ex. split; [exact Ex|]. split; [exact Fx|].
  unfold tdma_sched_execute_sp. rewrite abs_nth_error by assumption. fold b. rewrite ni_eq, ncb_eq.
  replace ((8 <? Z.of_nat (length b)) || (8 <? Z.of_nat (length b))) with false by lia.
  rewrite bucket_sort_shape by exact Hlen.
  pose proof (abs_len st1 (s_cur st) ltac:(exact W1)) as Hlen1. rewrite Ex, app_length in Hlen1.
  pose proof (slot_order_length b Hlen) as HL.
  (* the sorted entry items *)
  pose proof (loop_segment rcf (s_cur st) b Hr (slot_order b) [] (seq (length b) (8 - length b)) (9 - length b) st Hwf Hcb eq_refl) as S1.
  cbn [app length Nat.add] in S1. rewrite HL in S1.
  replace (S (Z.to_nat 8)) with (length b + (9 - length b))%nat by lia.
  rewrite S1; [|exists []; rewrite app_nil_r; reflexivity|lia|apply slot_order_lt; exact Hlen].
  change (map (fun k => nth k b dflt) (slot_order b)) with (exec_order b). fold st1.
  (* the appended ones: seq[k] = k *)
  replace (8 - length b)%nat with (length extra + (8 - length b - length extra))%nat by lia.
  rewrite seq_app.
  pose proof (loop_segment rcf (s_cur st) (b ++ extra) Hr (seq (length b) (length extra)) (slot_order b)
                (seq (length b + length extra) (8 - length b - length extra)) (9 - length b - length extra) st1 W1 K1 C1) as S2.
  rewrite seq_length, HL in S2.
  replace (9 - length b)%nat with (length extra + (9 - length b - length extra))%nat by lia.
  rewrite S2; [|exists []; rewrite app_nil_r; exact Ex|rewrite app_length; lia|
               apply Forall_forall; intros k Hk; apply in_seq in Hk; rewrite app_length; lia].
  rewrite map_nth_seq_app.
  rewrite (spawn_phase_plain rcf st1 extra) by (eapply Forall_impl; [|exact Fx]; apply childlike_plain).
  cbn [fst snd].
  replace (9 - length b - length extra)%nat with (S (8 - length b - length extra)) by lia.
  replace (length b + length extra)%nat with (length (bucket_abs st1 (s_cur st))) at 2 by (rewrite Ex, app_length; reflexivity).
  rewrite loop_exit by assumption. cbn [sx_prepend]. rewrite app_nil_r, Ex, app_length. reflexivity.
Qed.

(* ---- one scheduler-using callback among plain ones ---- *)
Lemma spawn_phase_single rcf st sp st1 rc evs : cb_effect rcf st sp = Ok (st1, rc, evs) ->
  forall xs1 xs2, Forall plain xs1 -> Forall plain xs2 ->
  spawn_phase rcf st (xs1 ++ sp :: xs2) = (st1, map ECall xs1 ++ evs ++ map ECall xs2).
Proof.
  intros E. induction xs1 as [|x r IH]; intros xs2 H1 H2.
  - cbn [app spawn_phase map]. rewrite E. rewrite (spawn_phase_plain rcf st1 xs2 H2). reflexivity.
  - apply Forall_cons_iff in H1 as (Hx & Hr). cbn [app spawn_phase]. rewrite (cb_effect_plain rcf st x Hx).
    rewrite (IH xs2 Hr H2). reflexivity.
Qed.

Lemma not_plain_15 sp : i_cb sp = 15 \/ i_cb sp = 16 -> ~ plain sp.
Proof. unfold plain. lia. Qed.

Lemma exec_order_split b l1 sp l2 : (length b <= 8)%nat -> b = l1 ++ sp :: l2 -> Forall plain l1 -> Forall plain l2 ->
  exists xs1 xs2, exec_order b = xs1 ++ sp :: xs2 /\ Forall plain xs1 /\ Forall plain xs2.
Proof.
  intros Hn Hb H1 H2. pose proof (exec_order_perm b Hn) as P.
  assert (Hin : In sp (exec_order b)).
  { apply (Permutation_in _ (Permutation_sym P)). rewrite Hb. apply in_or_app. right. left. reflexivity. }
  apply in_split in Hin as (xs1 & xs2 & E). exists xs1, xs2. split; [exact E|].
  rewrite E, Hb in P. apply Permutation_app_inv in P.
  assert (HF : Forall plain (xs1 ++ xs2)).
  { eapply Permutation_Forall; [apply Permutation_sym; exact P|]. apply Forall_app. split; assumption. }
  apply Forall_app in HF. exact HF.
Qed.

(* the common part: whatever the one callback sp does (st1, evs), the call is: the sorted entry items with sp's doings in place,
   then whatever sp appended to the running frame, then the clear *)
Lemma single_exec rcf st l1 sp l2 st1 rc evs : wf st -> cbs_ok st -> (forall x, 0 <= rcf x) ->
  bucket_due st 0 = l1 ++ sp :: l2 -> Forall plain l1 -> Forall plain l2 ->
  cb_effect rcf st sp = Ok (st1, rc, evs) ->
  exists xs1 xs2 extra, exec_order (bucket_due st 0) = xs1 ++ sp :: xs2 /\
    bucket_due st1 0 = bucket_due st 0 ++ extra /\
    tdma_sched_execute_sp rcf st =
      SXOk (set_bucket st1 (s_cur st) []) (map ECall xs1 ++ evs ++ map ECall xs2 ++ map ECall extra)
           (Z.of_nat (length (bucket_due st 0) + length extra)).
Proof.
  intros Hwf Hcb Hr Hb H1 H2 E.
  pose proof (abs_len st (s_cur st) Hwf) as Hlen. rewrite <- (bucket_due_0 st Hwf) in Hlen.
  destruct (exec_order_split _ l1 sp l2 Hlen Hb H1 H2) as (xs1 & xs2 & Eo & P1 & P2).
  destruct (execute_sp_shape rcf st Hwf Hcb Hr) as (extra & Ex & _ & Ee).
  rewrite Eo in Ex, Ee. rewrite (spawn_phase_single rcf st sp st1 rc evs E xs1 xs2 P1 P2) in Ex, Ee. cbn [fst snd] in Ex, Ee.
  exists xs1, xs2, extra. split; [exact Eo|]. split; [exact Ex|]. rewrite Ee. rewrite <- !app_assoc. reflexivity.
Qed.

Lemma cb_effect_spawn rcf st sp : i_cb sp = 15 ->
  cb_effect rcf st sp = match tdma_schedule st (i_p2 sp) (child_of sp) with
                        | Ok (st', rc) => Ok (st', 0, [ECall sp; ESpawn (i_p2 sp) (child_of sp) rc])
                        | OOB => OOB | NullCall => NullCall end.
Proof. intros H. unfold cb_effect, CB_SPAWN. rewrite H. reflexivity. Qed.

Lemma cleared_due st1 c : wf st1 -> s_cur st1 = c ->
  bucket_due (set_bucket st1 c []) 0 = [] /\ s_cur (set_bucket st1 c []) = c /\
  forall d, 0 < d < 25 -> bucket_due (set_bucket st1 c []) d = bucket_due st1 d.
Proof.
  intros W C. pose proof W as (_ & Hc & _). unfold bucket_due. rewrite cur_set_bucket. subst c.
  split; [replace ((s_cur st1 + 0) mod 25) with (s_cur st1) by lia; apply abs_set_bucket_eq; assumption|].
  split; [reflexivity|]. intros d Hd. apply abs_set_bucket_neq; lia.
Qed.

(* (b) same frame: the child runs in this very call, after every entry item, once; it is counted; the frame is empty afterwards *)
Lemma same_frame_child rcf st l1 sp l2 : wf st -> cbs_ok st -> (forall x, 0 <= rcf x) ->
  bucket_due st 0 = l1 ++ sp :: l2 -> Forall plain l1 -> Forall plain l2 -> i_cb sp = 15 -> i_p2 sp = 0 ->
  (length (bucket_due st 0) < 8)%nat ->
  exists st' lg, tdma_sched_execute_sp rcf st = SXOk st' lg (Z.of_nat (length (bucket_due st 0)) + 1) /\
    calls lg = exec_order (bucket_due st 0) ++ [child_of sp] /\
    In (ESpawn 0 (child_of sp) 0) lg /\
    bucket_due st' 0 = [] /\ s_cur st' = s_cur st /\ (forall d, 0 < d < 25 -> bucket_due st' d = bucket_due st d).
Proof.
  intros Hwf Hcb Hr Hb H1 H2 Hsp H0 Hroom.
  destruct (overflow_reported st 0 (child_of sp) Hwf ltac:(lia)) as (_ & Hfit).
  destruct (Hfit Hroom) as (st1 & Es & C1 & D0 & Dn).
  assert (E : cb_effect rcf st sp = Ok (st1, 0, [ECall sp; ESpawn 0 (child_of sp) 0])) by (rewrite cb_effect_spawn, H0, Es; [reflexivity|exact Hsp]).
  destruct (single_exec rcf st l1 sp l2 st1 0 _ Hwf Hcb Hr Hb H1 H2 E) as (xs1 & xs2 & extra & Eo & Ex & Ee).
  rewrite D0 in Ex. apply app_inv_head in Ex. subst extra.
  pose proof (schedule_ext st 0 (child_of sp) Hwf ltac:(lia)) as (st1' & rc' & Es' & W1 & _). rewrite Es in Es'. injection Es' as <- _.
  destruct (cleared_due st1 (s_cur st) W1 C1) as (Z0 & Zc & Zd).
  eexists _, _. split; [rewrite Ee; f_equal; cbn [length]; lia|].
  split. { rewrite !calls_app, !calls_map_ECall, Eo. cbn. rewrite <- app_assoc. reflexivity. }
  split. { apply in_or_app. right. right. left. reflexivity. }
  split; [exact Z0|]. split; [exact Zc|]. intros d Hd. rewrite Zd by exact Hd. apply Dn; lia.
Qed.

(* (c) N frames ahead: the child lands in frame N, behind what is there, nothing else changes, and it does NOT run in this call *)
Lemma child_ahead rcf st l1 sp l2 N : wf st -> cbs_ok st -> (forall x, 0 <= rcf x) ->
  bucket_due st 0 = l1 ++ sp :: l2 -> Forall plain l1 -> Forall plain l2 -> i_cb sp = 15 -> i_p2 sp = N -> 0 < N < 25 ->
  (length (bucket_due st N) < 8)%nat ->
  exists st' lg, tdma_sched_execute_sp rcf st = SXOk st' lg (Z.of_nat (length (bucket_due st 0))) /\
    calls lg = exec_order (bucket_due st 0) /\
    In (ESpawn N (child_of sp) 0) lg /\
    bucket_due st' 0 = [] /\ s_cur st' = s_cur st /\
    bucket_due st' N = bucket_due st N ++ [child_of sp] /\
    (forall d, 0 < d < 25 -> d <> N -> bucket_due st' d = bucket_due st d).
Proof.
  intros Hwf Hcb Hr Hb H1 H2 Hsp H0 HN Hroom.
  destruct (overflow_reported st N (child_of sp) Hwf ltac:(lia)) as (_ & Hfit).
  destruct (Hfit Hroom) as (st1 & Es & C1 & D0 & Dn).
  assert (E : cb_effect rcf st sp = Ok (st1, 0, [ECall sp; ESpawn N (child_of sp) 0])) by (rewrite cb_effect_spawn, H0, Es; [reflexivity|exact Hsp]).
  destruct (single_exec rcf st l1 sp l2 st1 0 _ Hwf Hcb Hr Hb H1 H2 E) as (xs1 & xs2 & extra & Eo & Ex & Ee).
  rewrite (Dn 0 ltac:(lia) ltac:(lia)) in Ex. rewrite <- (app_nil_r (bucket_due st 0)) in Ex at 1. apply app_inv_head in Ex. subst extra.
  pose proof (schedule_ext st N (child_of sp) Hwf ltac:(lia)) as (st1' & rc' & Es' & W1 & _). rewrite Es in Es'. injection Es' as <- _.
  destruct (cleared_due st1 (s_cur st) W1 C1) as (Z0 & Zc & Zd).
  eexists _, _. split; [rewrite Ee; f_equal; cbn [length]; lia|].
  split. { rewrite !calls_app, !calls_map_ECall, Eo. cbn. rewrite app_nil_r. reflexivity. }
  split. { apply in_or_app. right. right. left. reflexivity. }
  split; [exact Z0|]. split; [exact Zc|]. split; [rewrite Zd by exact HN; exact D0|].
  intros d Hd Hne. rewrite Zd by exact Hd. apply Dn; lia.
Qed.

(* (d) full target frame (the running frame itself for N = 0): the callback sees -1, nothing is stored, nothing overwritten *)
Lemma child_refused rcf st l1 sp l2 N : wf st -> cbs_ok st -> (forall x, 0 <= rcf x) ->
  bucket_due st 0 = l1 ++ sp :: l2 -> Forall plain l1 -> Forall plain l2 -> i_cb sp = 15 -> i_p2 sp = N -> 0 <= N < 25 ->
  (length (bucket_due st N) >= 8)%nat ->
  exists st' lg, tdma_sched_execute_sp rcf st = SXOk st' lg (Z.of_nat (length (bucket_due st 0))) /\
    calls lg = exec_order (bucket_due st 0) /\
    In (ESpawn N (child_of sp) (-1)) lg /\
    bucket_due st' 0 = [] /\ s_cur st' = s_cur st /\
    (forall d, 0 < d < 25 -> bucket_due st' d = bucket_due st d).
Proof.
  intros Hwf Hcb Hr Hb H1 H2 Hsp H0 HN Hfull.
  destruct (overflow_reported st N (child_of sp) Hwf ltac:(lia)) as (Hrefuse & _).
  pose proof (Hrefuse Hfull) as Es.
  assert (E : cb_effect rcf st sp = Ok (st, 0, [ECall sp; ESpawn N (child_of sp) (-1)])) by (rewrite cb_effect_spawn, H0, Es; [reflexivity|exact Hsp]).
  destruct (single_exec rcf st l1 sp l2 st 0 _ Hwf Hcb Hr Hb H1 H2 E) as (xs1 & xs2 & extra & Eo & Ex & Ee).
  rewrite <- (app_nil_r (bucket_due st 0)) in Ex at 1. apply app_inv_head in Ex. subst extra.
  destruct (cleared_due st (s_cur st) Hwf eq_refl) as (Z0 & Zc & Zd).
  eexists _, _. split; [rewrite Ee; f_equal; cbn [length]; lia|].
  split. { rewrite !calls_app, !calls_map_ECall, Eo. cbn. rewrite app_nil_r. reflexivity. }
  split. { apply in_or_app. right. right. left. reflexivity. }
  split; [exact Z0|]. split; [exact Zc|]. exact Zd.
Qed.

(* the prim_fbsb.c pattern: the callback resets the scheduler and schedules "right now": the child still runs in this very call,
   and afterwards NO frame holds anything *)
Lemma cb_effect_rspawn rcf st sp : i_cb sp = 16 ->
  cb_effect rcf st sp = match tdma_schedule (tdma_sched_reset st) (i_p2 sp) (child_of sp) with
                        | Ok (st', rc) => Ok (st', 0, [ECall sp; EReset (stored (tdma_sched_reset st)); ESpawn (i_p2 sp) (child_of sp) rc])
                        | OOB => OOB | NullCall => NullCall end.
Proof. intros H. unfold cb_effect, CB_SPAWN, CB_RSPAWN. rewrite H. reflexivity. Qed.

Lemma reset_due st d : wf st -> 0 <= d < 25 -> bucket_due (tdma_sched_reset st) d = if d =? 0 then bucket_due st 0 else [].
Proof.
  intros Hwf Hd. pose proof Hwf as (_ & Hc & _). unfold bucket_due. cbn [tdma_sched_reset s_cur]. rewrite reset_abs by lia.
  destruct (d =? 0) eqn:E.
  - replace ((s_cur st + d) mod 25 =? s_cur st) with true by lia. f_equal. lia.
  - replace ((s_cur st + d) mod 25 =? s_cur st) with false by lia. reflexivity.
Qed.

Lemma reset_then_same_frame_child rcf st l1 sp l2 : wf st -> cbs_ok st -> (forall x, 0 <= rcf x) ->
  bucket_due st 0 = l1 ++ sp :: l2 -> Forall plain l1 -> Forall plain l2 -> i_cb sp = 16 -> i_p2 sp = 0 ->
  (length (bucket_due st 0) < 8)%nat ->
  exists st' lg, tdma_sched_execute_sp rcf st = SXOk st' lg (Z.of_nat (length (bucket_due st 0)) + 1) /\
    calls lg = exec_order (bucket_due st 0) ++ [child_of sp] /\
    In (EReset (Z.of_nat (length (bucket_due st 0)))) lg /\ In (ESpawn 0 (child_of sp) 0) lg /\
    s_cur st' = s_cur st /\ (forall d, 0 <= d < 25 -> bucket_due st' d = []).
Proof.
  intros Hwf Hcb Hr Hb H1 H2 Hsp H0 Hroom.
  set (st0 := tdma_sched_reset st).
  assert (W0 : wf st0) by (apply wf_reset; exact Hwf).
  assert (R0 : bucket_due st0 0 = bucket_due st 0) by (unfold st0; rewrite reset_due by (try assumption; lia); reflexivity).
  destruct (overflow_reported st0 0 (child_of sp) W0 ltac:(lia)) as (_ & Hfit).
  destruct (Hfit ltac:(rewrite R0; exact Hroom)) as (st1 & Es & C1 & D0 & Dn).
  assert (Est : stored st0 = Z.of_nat (length (bucket_due st 0))).
  { unfold st0. rewrite reset_stored by exact Hwf. rewrite bucket_due_0 by exact Hwf. reflexivity. }
  assert (E : cb_effect rcf st sp = Ok (st1, 0, [ECall sp; EReset (Z.of_nat (length (bucket_due st 0))); ESpawn 0 (child_of sp) 0])).
  { rewrite cb_effect_rspawn by exact Hsp. fold st0. rewrite H0, Es, Est. reflexivity. }
  destruct (single_exec rcf st l1 sp l2 st1 0 _ Hwf Hcb Hr Hb H1 H2 E) as (xs1 & xs2 & extra & Eo & Ex & Ee).
  rewrite D0, R0 in Ex. apply app_inv_head in Ex. subst extra.
  pose proof (schedule_ext st0 0 (child_of sp) W0 ltac:(lia)) as (st1' & rc' & Es' & W1 & _). rewrite Es in Es'. injection Es' as <- _.
  assert (C1' : s_cur st1 = s_cur st) by (rewrite C1; reflexivity).
  destruct (cleared_due st1 (s_cur st) W1 C1') as (Z0 & Zc & Zd).
  eexists _, _. split; [rewrite Ee; f_equal; cbn [length]; lia|].
  split. { rewrite !calls_app, !calls_map_ECall, Eo. cbn. rewrite <- app_assoc. reflexivity. }
  split. { apply in_or_app. right. right. left. reflexivity. }
  split. { apply in_or_app. right. right. right. left. reflexivity. }
  split; [exact Zc|]. intros d Hd. destruct (Z.eq_dec d 0) as [->|Hne]; [exact Z0|].
  rewrite Zd by lia. rewrite Dn by lia. unfold st0. rewrite reset_due by assumption. replace (d =? 0) with false by lia. reflexivity.
Qed.

(* ---- conservative extension, whole histories: as long as no item with callback 15 / 16 is ever scheduled, the history with the
   re-entrant execute IS the history the 13 theorems speak about (any state, any callback results, crashes included) ---- *)
Definition all_st (P : item -> Prop) (st : sched) : Prop := Forall (Forall P) (s_bk st).
Definition all_op (P : item -> Prop) (o : op) : Prop :=
  match o with OSched _ it => P it | OSet _ set _ => Forall P set | _ => True end.
Definition plain_st (st : sched) : Prop := all_st plain st.
Definition plain_op (o : op) : Prop := all_op plain o.
Definition lift_obs (b : obs) : obs_sp :=
  match b with BRet r => PRet r | BCur c => PCur c | BExec lg r => PExec (map ECall lg) r | BReset n => PReset n end.

Lemma all_st_abs (P : item -> Prop) st j : all_st P st -> Forall P (bucket_abs st j).
Proof. intros H. unfold bucket_abs. apply Forall_nth_d; [exact H|constructor]. Qed.

Lemma all_st_nth (P : item -> Prop) st n b : all_st P st -> nth_error (s_bk st) n = Some b -> Forall P b.
Proof. intros H E. unfold all_st in H. rewrite Forall_forall in H. apply H. eapply nth_error_In. exact E. Qed.

Lemma all_st_set_bucket (P : item -> Prop) st j b : all_st P st -> Forall P b -> all_st P (set_bucket st j b).
Proof. intros H Hb. unfold all_st, set_bucket. cbn [s_bk]. apply Forall_upd; assumption. Qed.

Lemma schedule_all (P : item -> Prop) st off it st' rc : all_st P st -> P it -> tdma_schedule st off it = Ok (st', rc) -> all_st P st'.
Proof.
  intros H Hi E. unfold tdma_schedule in E.
  destruct (nth_error (s_bk st) (Z.to_nat (wrap_bucket (s_cur st) off))) as [b|] eqn:Eb; [|discriminate].
  destruct (c_NITEMS <=? Z.of_nat (length b)); injection E as <- _; [exact H|].
  apply all_st_set_bucket; [exact H|]. apply Forall_app. split; [eapply all_st_nth; eassumption|constructor; [exact Hi|constructor]].
Qed.

Lemma sched_set_all (P : item -> Prop) p3 : (forall it, P it -> P (with_p3 it p3)) -> forall set st off bnr j st' rc, all_st P st -> Forall P set ->
  sched_set st off bnr j set p3 = Ok (st', rc) -> all_st P st'.
Proof.
  intros HP. induction set as [|it r IH]; intros st off bnr j st' rc H HF E; cbn [sched_set] in E; [discriminate|].
  apply Forall_cons_iff in HF as (Hi & Hr).
  destruct (i_cb it =? CB_END_SET); [injection E as <- _; exact H|].
  destruct (i_cb it =? CB_NULL); [eapply IH; eassumption|].
  destruct (nth_error (s_bk st) (Z.to_nat bnr)) as [b|] eqn:Eb; [|discriminate].
  destruct (c_NITEMS <=? Z.of_nat (length b)); [injection E as <- _; exact H|].
  eapply IH; [|exact Hr|exact E]. apply all_st_set_bucket; [exact H|].
  apply Forall_app. split; [eapply all_st_nth; eassumption|constructor; [apply HP; exact Hi|constructor]].
Qed.

Lemma reset_all (P : item -> Prop) st : all_st P st -> all_st P (tdma_sched_reset st).
Proof. intros H. unfold all_st, tdma_sched_reset. cbn [s_bk]. apply reset_from_Forall; [constructor|exact H]. Qed.

Lemma execute_plain rcf st st' lg r : plain_st st -> tdma_sched_execute rcf st = XOk st' lg r -> plain_st st'.
Proof.
  intros H E. unfold tdma_sched_execute in E.
  destruct (nth_error (s_bk st) (Z.to_nat (s_cur st))) as [b|]; [|discriminate].
  destruct ((c_NITEMS <? Z.of_nat (length b)) || (c_TDMASCHED_NUM_CB <? Z.of_nat (length b))); [discriminate|].
  destruct (run_items rcf (exec_order b)) as [lg' [| rc |]]; try discriminate; injection E as <- _ _; [|exact H].
  apply all_st_set_bucket; [exact H|constructor].
Qed.

Lemma step_conservative rcf st o : plain_st st -> plain_op o ->
  step_sp rcf st o = match step rcf st o with Ok (st', b) => Ok (st', lift_obs b) | OOB => OOB | NullCall => NullCall end /\
  forall st' b, step rcf st o = Ok (st', b) -> plain_st st'.
Proof.
  intros H Ho. destruct o as [off it|off set p3| | |]; cbn [step_sp step plain_op] in *.
  - destruct (tdma_schedule st off it) as [[st1 rc]| |] eqn:E; (split; [reflexivity|]); intros st' b Eq; try discriminate.
    injection Eq as <- _. eapply schedule_all; eassumption.
  - destruct (tdma_schedule_set st off set p3) as [[st1 rc]| |] eqn:E; (split; [reflexivity|]); intros st' b Eq; try discriminate.
    injection Eq as <- _. unfold tdma_schedule_set in E. eapply (sched_set_all plain); [|exact H|exact Ho|exact E]. intros x Hx; exact Hx.
  - split; [reflexivity|]. intros st' b Eq. injection Eq as <- _. exact H.
  - rewrite conservative by (apply all_st_abs; exact H).
    destruct (tdma_sched_execute rcf st) as [st1 lg r| |lg] eqn:E; (split; [reflexivity|]); intros st' b Eq; try discriminate.
    injection Eq as <- _. eapply execute_plain; eassumption.
  - split; [reflexivity|]. intros st' b Eq. injection Eq as <- _.
    apply reset_all. exact H.
Qed.

Lemma run_conservative rcf : forall ops st, plain_st st -> Forall plain_op ops ->
  run_sp rcf st ops = (map lift_obs (fst (run rcf st ops)), snd (run rcf st ops)).
Proof.
  induction ops as [|o r IH]; intros st H HF; [reflexivity|]. apply Forall_cons_iff in HF as (Ho & Hr).
  cbn [run_sp run]. destruct (step_conservative rcf st o H Ho) as (E & Hp). rewrite E.
  destruct (step rcf st o) as [[st1 b]| |]; try reflexivity.
  rewrite (IH st1 (Hp st1 b eq_refl) Hr). destruct (run rcf st1 r) as [bs f]. reflexivity.
Qed.

Lemma init_plain c : plain_st (init c).
Proof. unfold plain_st, all_st, init. cbn [s_bk]. apply Forall_forall. intros b Hb. apply repeat_spec in Hb. subst b. constructor. Qed.

(* ---- exactly once, on time, in histories whose callbacks schedule: an item stored for the frame N ahead - by an operation or by
   a callback - stays in its slot through any valid operations (executes with spawning callbacks included) and is run by the
   execute that follows exactly N advances.  A reset erases other frames by design, whether it is the operation or callback 16:
   both are excluded in [mid]. ---- *)
Definition no16 (it : item) : Prop := i_cb it <> 16.

Lemma childlike_no16 it : childlike it -> no16 it.
Proof. unfold childlike, no16. lia. Qed.

Lemma cb_effect_calls rcf st it st' rc evs : cb_effect rcf st it = Ok (st', rc, evs) -> calls evs = [it].
Proof.
  unfold cb_effect. destruct (i_cb it =? CB_SPAWN).
  - destruct (tdma_schedule st (i_p2 it) (child_of it)) as [[s r]| |]; try discriminate. intros E; injection E as _ _ <-. reflexivity.
  - destruct (i_cb it =? CB_RSPAWN).
    + destruct (tdma_schedule (tdma_sched_reset st) (i_p2 it) (child_of it)) as [[s r]| |]; try discriminate. intros E; injection E as _ _ <-. reflexivity.
    + intros E; injection E as _ _ <-. reflexivity.
Qed.

Lemma calls_spawn_phase rcf : forall xs st, wf st -> cbs_ok st -> calls (snd (spawn_phase rcf st xs)) = xs.
Proof.
  induction xs as [|it r IH]; intros st Hwf Hcb; [reflexivity|]. cbn [spawn_phase].
  destruct (cb_effect_ok rcf st it Hwf Hcb) as (st1 & rc & evs & E & (W1 & K1 & _) & _). rewrite E.
  specialize (IH st1 W1 K1). destruct (spawn_phase rcf st1 r) as [s2 e2]. cbn [snd] in *.
  rewrite calls_app, IH, (cb_effect_calls _ _ _ _ _ _ E). reflexivity.
Qed.

Lemma schedule_ext_any st off it : wf st -> exists st' rc, tdma_schedule st off it = Ok (st', rc) /\ ext st st'.
Proof.
  intros Hwf. pose proof Hwf as (Hl & Hc & Hall). rewrite schedule_spec_any by exact Hwf.
  set (B := (s_cur st + off) mod 25). assert (HB : 0 <= B < 25) by (unfold B; lia).
  destruct (8 <=? Z.of_nat (length (bucket_abs st B))).
  - eexists _, _. split; [reflexivity|apply ext_refl].
  - eexists _, _. split; [reflexivity|]. split; [reflexivity|]. intros j Hj. destruct (Z.eq_dec j B) as [->|Hne].
    + exists [it]. apply abs_set_bucket_eq; assumption.
    + exists []. rewrite app_nil_r. apply abs_set_bucket_neq; lia.
Qed.

Lemma spawn_phase_ext rcf : forall xs st, wf st -> cbs_ok st -> Forall no16 xs -> all_st no16 st ->
  ext st (fst (spawn_phase rcf st xs)) /\ all_st no16 (fst (spawn_phase rcf st xs)).
Proof.
  induction xs as [|it r IH]; intros st Hwf Hcb HF Hno; cbn [spawn_phase]; [split; [apply ext_refl|exact Hno]|].
  apply Forall_cons_iff in HF as (Hi & Hr).
  destruct (cb_effect_ok rcf st it Hwf Hcb) as (st1 & rc & evs & E & (W1 & K1 & _) & _). rewrite E.
  assert (H1 : ext st st1 /\ all_st no16 st1).
  { unfold cb_effect in E. destruct (i_cb it =? CB_SPAWN).
    - destruct (schedule_ext_any st (i_p2 it) (child_of it) Hwf) as (s & r0 & Es & Hext). rewrite Es in E. injection E as <- _ _.
      split; [exact Hext|]. eapply schedule_all; [exact Hno| |exact Es]. apply childlike_no16, child_childlike.
    - unfold no16, CB_RSPAWN in *. replace (i_cb it =? 16) with false in E by lia. injection E as <- _ _. split; [apply ext_refl|exact Hno]. }
  destruct H1 as (Hext & Hno1). destruct (IH st1 W1 K1 Hr Hno1) as (Hext2 & Hno2).
  destruct (spawn_phase rcf st1 r) as [s2 e2]. cbn [fst] in *. split; [eapply ext_trans; eassumption|exact Hno2].
Qed.

Lemma execute_sp_keeps rcf st : wf st -> cbs_ok st -> (forall x, 0 <= rcf x) -> all_st no16 st ->
  exists st' extra, tdma_sched_execute_sp rcf st = SXOk st' (snd (spawn_phase rcf st (exec_order (bucket_due st 0))) ++ map ECall extra)
                                              (Z.of_nat (length (bucket_due st 0) + length extra)) /\
    Forall childlike extra /\ all_st no16 st' /\ s_cur st' = s_cur st /\ bucket_due st' 0 = [] /\
    forall B k it, 0 <= B < 25 -> B <> s_cur st -> holds st B k it -> holds st' B k it.
Proof.
  intros Hwf Hcb Hr Hno. destruct (execute_sp_shape rcf st Hwf Hcb Hr) as (extra & Ex & Fx & Ee).
  pose proof (abs_len st (s_cur st) Hwf) as Hlen. rewrite <- (bucket_due_0 st Hwf) in Hlen.
  assert (HF : Forall no16 (exec_order (bucket_due st 0))).
  { eapply Permutation_Forall; [apply Permutation_sym, exec_order_perm; exact Hlen|]. rewrite bucket_due_0 by exact Hwf. apply all_st_abs. exact Hno. }
  destruct (spawn_phase_ext rcf _ st Hwf Hcb HF Hno) as (Hext & Hno1).
  pose proof (spawn_phase_grows rcf (exec_order (bucket_due st 0)) st Hwf Hcb) as (W1 & K1 & C1 & _).
  set (st1 := fst (spawn_phase rcf st (exec_order (bucket_due st 0)))) in *.
  destruct (cleared_due st1 (s_cur st) W1 C1) as (Z0 & Zc & _).
  eexists _, extra. split; [exact Ee|]. split; [exact Fx|]. split; [apply all_st_set_bucket; [exact Hno1|constructor]|].
  split; [exact Zc|]. split; [exact Z0|]. intros B k it HB Hne Hh.
  unfold holds. rewrite abs_set_bucket_neq; [eapply ext_holds; eassumption|apply Hwf|lia|congruence].
Qed.

Lemma step_sp_keeps rcf st o st' b B k it : wf st -> cbs_ok st -> (forall x, 0 <= rcf x) -> all_st no16 st -> op_ok o -> all_op no16 o ->
  step_sp rcf st o = Ok (st', b) ->
  0 <= B < 25 -> holds st B k it -> (o = OExecute -> s_cur st <> B) -> o <> OReset ->
  holds st' B k it /\ s_cur st' = (if is_adv o then (s_cur st + 1) mod 25 else s_cur st) /\ all_st no16 st'.
Proof.
  intros Hwf Hcb Hr Hno Hok Ho Hs HB Hh Hex Hnr. destruct o as [off it0|off set p3| | |]; cbn [step_sp op_ok all_op is_adv] in *.
  - destruct Hok as (Hoff & Hi). destruct (schedule_ext st off it0 Hwf ltac:(lia)) as (st1 & rc & E & _ & Hext & _).
    rewrite E in Hs. injection Hs as <- <-. split; [eapply ext_holds; eassumption|]. split; [apply Hext|]. eapply schedule_all; eassumption.
  - destruct Hok as (H0 & Hb & plan & Hp).
    destruct (tdma_schedule_set st off set p3) as [[st1 rc]| |] eqn:E0; try discriminate. injection Hs as <- <-.
    assert (Hno1 : all_st no16 st1).
    { unfold tdma_schedule_set in E0. eapply (sched_set_all no16); [|exact Hno|exact Ho|exact E0]. intros x Hx. exact Hx. }
    rewrite (schedule_set_place st off set p3 plan) in E0 by (try assumption; try apply Hwf; lia).
    pose proof (plan_ok_of_set off set p3 plan H0 Hb Hp) as HF.
    destruct (place_ext off (set_nframes set) plan st Hwf) as (st1' & rc' & E & _ & Hext & _).
    { eapply Forall_impl; [|exact HF]. cbv beta. intros e He. lia. }
    rewrite E0 in E. injection E as <- <-. split; [eapply ext_holds; eassumption|]. split; [apply Hext|exact Hno1].
  - injection Hs as <- <-. destruct (advance_spec st Hwf) as (Hc' & Hb'). split; [|split; [exact Hc'|]].
    + unfold holds, bucket_abs in *. rewrite Hb'. exact Hh.
    + unfold all_st. rewrite Hb'. exact Hno.
  - destruct (execute_sp_keeps rcf st Hwf Hcb Hr Hno) as (st1 & extra & E & _ & Hno1 & C1 & _ & Hk). rewrite E in Hs. injection Hs as <- <-.
    split; [apply Hk; [exact HB| |exact Hh]; intros ->; apply Hex; reflexivity|]. split; [exact C1|exact Hno1].
  - congruence.
Qed.

Lemma mid_keeps_sp rcf k it : (forall x, 0 <= rcf x) -> forall mid st n os st', wf st -> cbs_ok st -> all_st no16 st ->
  Forall op_ok mid -> Forall (all_op no16) mid ->
  run_sp rcf st mid = (os, FOk st') -> advances mid = n -> n < 25 -> no_reset mid ->
  (forall a b, mid = a ++ OExecute :: b -> advances a < n) ->
  holds st ((s_cur st + n) mod 25) k it ->
  holds st' (s_cur st') k it /\ s_cur st' = (s_cur st + n) mod 25 /\ wf st' /\ cbs_ok st' /\ all_st no16 st'.
Proof.
  intros Hrcf. induction mid as [|o r IH]; intros st n os st' Hwf Hcb Hno HF HF16 Hrun Hadv Hn Hnr Hex Hh.
  - cbn [run_sp advances] in *. injection Hrun as <- <-. subst n. pose proof Hwf as (_ & Hc & _).
    replace ((s_cur st + 0) mod 25) with (s_cur st) in * by lia. auto.
  - inversion HF as [|? ? Ho Hrest]; subst. apply Forall_cons_iff in HF16 as (Ho16 & Hrest16). cbn [run_sp] in Hrun.
    destruct (step_sp_ok rcf st o Hwf Hcb Ho) as (st1 & b & Hs & Hwf1 & Hcb1). rewrite Hs in Hrun.
    destruct (run_sp rcf st1 r) as [bs f] eqn:Er. injection Hrun as <- ->.
    pose proof Hwf as (_ & Hc & _). pose proof (advances_nonneg r) as Hr0.
    assert (Hnotr : o <> OReset) by (intros ->; apply Hnr; left; reflexivity).
    assert (Hnr' : no_reset r) by (intros Hin; apply Hnr; right; exact Hin).
    assert (Hexo : o = OExecute -> s_cur st <> (s_cur st + advances (o :: r)) mod 25).
    { intros ->. specialize (Hex [] r eq_refl). cbn [advances] in *. clear - Hex Hn Hc. lia. }
    assert (HB : 0 <= (s_cur st + advances (o :: r)) mod 25 < 25) by lia.
    destruct (step_sp_keeps rcf st o st1 b _ k it Hwf Hcb Hrcf Hno Ho Ho16 Hs HB Hh Hexo Hnotr) as (Hh1 & Hc1 & Hno1).
    assert (Hex' : forall a b0, r = a ++ OExecute :: b0 -> advances a < advances r).
    { intros a b0 ->. specialize (Hex (o :: a) b0 eq_refl). destruct o; cbn [advances] in *; lia. }
    assert (Hh1' : holds st1 ((s_cur st1 + advances r) mod 25) k it).
    { rewrite Hc1. destruct o; cbn [is_adv advances] in *; try exact Hh1.
      replace (((s_cur st + 1) mod 25 + advances r) mod 25) with ((s_cur st + (1 + advances r)) mod 25) by lia. exact Hh1. }
    assert (Hn' : advances r < 25) by (destruct o; cbn [advances] in *; lia).
    destruct (IH st1 (advances r) bs st' Hwf1 Hcb1 Hno1 Hrest Hrest16 Er eq_refl Hn' Hnr' Hex' Hh1') as (Hh2 & Hc2 & Rest).
    split; [exact Hh2|]. split; [|exact Rest]. rewrite Hc2, Hc1. destruct o; cbn [is_adv advances] in *; try reflexivity. lia.
Qed.

(* an item held in slot k of the frame N ahead (however it got there) is run by the execute that follows exactly N advances:
   the callbacks invoked are the sorted entry items (slot k exactly once among them: c08_each_slot_once) followed by the items
   the callbacks of that frame appended; the frame is empty afterwards *)
Lemma held_runs_on_time rcf s2 N k it mid :
  wf s2 -> cbs_ok s2 -> all_st no16 s2 -> (forall x, 0 <= rcf x) -> 0 <= N < 25 ->
  nth_error (bucket_due s2 N) k = Some it ->
  Forall op_ok mid -> Forall (all_op no16) mid -> advances mid = N -> no_reset mid ->
  (forall a b, mid = a ++ OExecute :: b -> advances a < N) ->
  exists os s3 s4 lg extra,
    run_sp rcf s2 mid = (os, FOk s3) /\
    nth_error (bucket_due s3 0) k = Some it /\
    tdma_sched_execute_sp rcf s3 = SXOk s4 lg (Z.of_nat (length (bucket_due s3 0) + length extra)) /\
    calls lg = exec_order (bucket_due s3 0) ++ extra /\ Forall childlike extra /\
    count_occ Nat.eq_dec (slot_order (bucket_due s3 0)) k = 1%nat /\
    bucket_due s4 0 = [].
Proof.
  intros Hwf Hcb Hno Hr HN Hh HF HF16 Hadv Hnr Hex.
  destruct (run_sp_ok rcf mid s2 Hwf Hcb HF) as (os & s3 & Hrun & _).
  destruct (mid_keeps_sp rcf k it Hr mid s2 N os s3 Hwf Hcb Hno HF HF16 Hrun Hadv ltac:(lia) Hnr Hex Hh) as (Hh3 & Hc3 & W3 & K3 & Hno3).
  destruct (execute_sp_keeps rcf s3 W3 K3 Hr Hno3) as (s4 & extra & E & Fx & _ & _ & Z0 & _).
  exists os, s3, s4, (snd (spawn_phase rcf s3 (exec_order (bucket_due s3 0))) ++ map ECall extra), extra. split; [exact Hrun|]. unfold holds in Hh3. rewrite <- (bucket_due_0 s3 W3) in Hh3.
  split; [exact Hh3|]. split; [exact E|].
  split; [rewrite calls_app, calls_map_ECall, calls_spawn_phase by assumption; reflexivity|]. split; [exact Fx|].
  split; [|exact Z0].
  pose proof (abs_len s3 (s_cur s3) W3) as Hlen. rewrite <- (bucket_due_0 s3 W3) in Hlen.
  apply slot_once; [exact Hlen|]. apply nth_error_Some. congruence.
Qed.

(* ---- non-vacuity: ring position 23, a frame with a lower-priority item, a spawner and a higher-priority item ---- *)
Definition ex_sp_state (kind p2 : Z) : sched :=
  let st := match tdma_schedule (init 23) 0 (ex_item 5 2 2 2 3) with Ok (s, _) => s | _ => init 0 end in
  let st := match tdma_schedule st 0 (ex_item kind 129 p2 77 0) with Ok (s, _) => s | _ => init 0 end in
  match tdma_schedule st 0 (ex_item 4 1 1 1 (-3)) with Ok (s, _) => s | _ => init 0 end.

Example ex_sp_hypotheses :
  wf (ex_sp_state 15 0) /\ cbs_ok (ex_sp_state 15 0) /\
  bucket_due (ex_sp_state 15 0) 0 = [ex_item 5 2 2 2 3] ++ ex_item 15 129 0 77 0 :: [ex_item 4 1 1 1 (-3)] /\
  Forall plain [ex_item 5 2 2 2 3] /\ Forall plain [ex_item 4 1 1 1 (-3)] /\ (length (bucket_due (ex_sp_state 15 0) 0) < 8)%nat.
Proof.
  split. { split; [reflexivity|]. split; [change (s_cur (ex_sp_state 15 0)) with 23; lia|]. vm_compute. repeat constructor. }
  split. { unfold cbs_ok. vm_compute. repeat (constructor; try discriminate). }
  split; [reflexivity|]. split; [repeat constructor; cbn; lia|]. split; [repeat constructor; cbn; lia|]. vm_compute. lia.
Qed.

(* same frame: the child (cb 2 + 129 mod 8 = 3, prio 129 - 128 = 1) runs last in this very call although the item with prio 3 ran before it *)
Example ex_sp_same_frame :
  match tdma_sched_execute_sp ex_rcf (ex_sp_state 15 0) with
  | SXOk st' lg r => (calls lg, r, bucket_due st' 0)
  | _ => ([], -5, [])
  end = ([ex_item 4 1 1 1 (-3); ex_item 15 129 0 77 0; ex_item 5 2 2 2 3; ex_item 3 129 0 77 1], 4, []).
Proof. vm_compute. reflexivity. Qed.

(* 24 ahead from ring position 23: the child is in bucket (23 + 24) mod 25 = 22 and has not run *)
Example ex_sp_ahead :
  match tdma_sched_execute_sp ex_rcf (ex_sp_state 15 24) with
  | SXOk st' lg r => (calls lg, r, bucket_due st' 0, bucket_abs st' 22)
  | _ => ([], -5, [], [])
  end = ([ex_item 4 1 1 1 (-3); ex_item 15 129 24 77 0; ex_item 5 2 2 2 3], 3, [], [ex_item 3 129 24 77 1]).
Proof. vm_compute. reflexivity. Qed.

(* reset + schedule "right now" (prim_fbsb.c): an item waiting 3 frames ahead is erased, the child runs *)
Example ex_sp_reset :
  let st := match tdma_schedule (ex_sp_state 16 0) 3 (ex_item 9 9 9 9 0) with Ok (s, _) => s | _ => init 0 end in
  match tdma_sched_execute_sp ex_rcf st with
  | SXOk st' lg r => (lg, r, stored st')
  | _ => ([], -5, -5)
  end = ([ECall (ex_item 4 1 1 1 (-3)); ECall (ex_item 16 129 0 77 0); EReset 3; ESpawn 0 (ex_item 3 129 0 77 1) 0;
          ECall (ex_item 5 2 2 2 3); ECall (ex_item 3 129 0 77 1)], 4, 0).
Proof. vm_compute. reflexivity. Qed.

(* a full running frame refuses the same-frame child: 8 callbacks run, the spawner sees -1 *)
Example ex_sp_full :
  let fill := fix fill (n : nat) (st : sched) := match n with O => st | S m => fill m (match tdma_schedule st 0 (ex_item 6 0 0 0 1) with Ok (s, _) => s | _ => st end) end in
  match tdma_sched_execute_sp ex_rcf (fill 5%nat (ex_sp_state 15 0)) with
  | SXOk st' lg r => (length (calls lg), r, existsb (fun e => match e with ESpawn 0 _ (-1) => true | _ => false end) lg, stored st')
  | _ => (O, -5, false, -5)
  end = (8%nat, 8, true, 0).
Proof. vm_compute. reflexivity. Qed.

(* a failing callback (outside C08's quantifier) after a spawner: execute returns at once, the appended child stays stored *)
Example ex_sp_negative_rc_keeps_child :
  let rcf := fun it => if i_cb it =? 5 then -3 else 0 in
  match tdma_sched_execute_sp rcf (ex_sp_state 15 0) with
  | SXOk st' lg r => (r, length (bucket_due st' 0))
  | _ => (-5, O)
  end = (-3, 4%nat).
Proof. vm_compute. reflexivity. Qed.
