(* handle_data (FakeTRX.handle_data_msg) characterised: NOPE/suppression branch (C18) and the normal branch with its metadata (C10) *)
From Coq Require Import ZArith List Bool Lia ZifyBool.
From OBB Require Import Base.Range Base.Dec Gen.TrxdConst Gen.FakeTrxConst Gen.TscTab Model.Trxd Model.Trx
  Proofs.TrxdBase Proofs.TrxdTx Proofs.TrxdRx Proofs.TrxdRxRT Proofs.TrxDrop.
Import ListNotations.
Open Scope Z_scope.
Ltac Zify.zify_post_hook ::= Z.to_euclidean_division_equations.

(* simulation parameters any command history can reach (see sim_ok_preserved in TrxCtrl.v) *)
Definition sim_ok (s : sim) : Prop :=
  0 <= s_toa_thr s /\ 0 <= s_rssi_thr s /\ 0 <= s_ci_thr s /\ 0 <= s_drop s /\ 0 < s_period s.

Lemma randint_range lo hi draws : lo <= hi -> exists v d', randint lo hi draws = Some (v, d') /\ lo <= v <= hi.
Proof.
  intros H. unfold randint. destruct (hi <? lo) eqn:E; [lia|]. destruct draws as [|r rest].
  - exists lo, []. split; [reflexivity|lia].
  - exists (lo + r mod (hi - lo + 1)), rest. split; [reflexivity|]. pose proof (Z.mod_pos_bound r (hi - lo + 1) ltac:(lia)). lia.
Qed.
Lemma draw_range base thr draws : 0 <= thr -> exists v d', draw base thr draws = Some (v, d') /\ base - thr <= v <= base + thr
  /\ (thr = 0 -> v = base /\ d' = draws).
Proof.
  intros H. unfold draw. destruct (thr =? 0) eqn:E.
  - exists base, draws. split; [reflexivity|]. split; [lia|auto].
  - destruct (randint_range (base - thr) (base + thr) draws ltac:(lia)) as [v [d' [E1 E2]]]. exists v, d'. split; [exact E1|]. split; [exact E2|lia].
Qed.

(* the NOPE indication a version >= 1 recipient gets for a suppressed burst *)
Definition nope_msg (msg : rxmsg) : rxmsg :=
  with_meta msg true (Some rssi_noise_default) (Some toa256_noise_default) (r_mod msg) (r_tset msg) (r_tsc msg) (Some ci_noise_default) None.

(* receiver muted, or the burst was stripped by a muted sender: suppressed, the drop counter is not consumed *)
Lemma handle_suppressed dst src sm msg draws : s_muted dst = true \/ r_nope msg = true ->
  handle_data dst src sm msg draws = (dst, if r_ver msg <? 1 then Silent None else send_out false (nope_msg msg), draws).
Proof.
  intros H. unfold handle_data, nope_msg.
  destruct (s_muted dst) eqn:Em.
  - destruct (r_ver msg <? 1); reflexivity.
  - destruct H as [H|H]; [discriminate|]. rewrite H. destruct (r_ver msg <? 1); reflexivity.
Qed.

(* neither muted: the FAKE_DROP counter/filter decides *)
Lemma handle_dropped dst src sm msg draws : s_muted dst = false -> r_nope msg = false -> fst (sim_drop dst (oz (r_fn msg))) = true ->
  handle_data dst src sm msg draws =
    (snd (sim_drop dst (oz (r_fn msg))), if r_ver msg <? 1 then Silent None else send_out false (nope_msg msg), draws).
Proof.
  intros Hm Hn Hd. unfold handle_data, nope_msg. rewrite Hm, Hn.
  destruct (sim_drop dst (oz (r_fn msg))) as [b d1]. cbn [fst snd] in *. subst b. destruct (r_ver msg <? 1); reflexivity.
Qed.

(* a NOPE indication for a valid frame/timeslot number is really emitted: exactly one datagram, no burst, noise-level values *)
Lemma nope_sent msg : r_ver msg = 1 -> (exists f, r_fn msg = Some f /\ 0 <= f <= 2715647) -> (exists t, r_tn msg = Some t /\ 0 <= t <= 7) ->
  exists b, send_out false (nope_msg msg) = Sent b (nope_msg msg) /\
    exists m', parse_rx b = Ok m' /\ r_nope m' = true /\ r_burst m' = None /\ r_rssi m' = Some (-110) /\ r_toa m' = Some 0 /\ r_ci m' = Some (-30)
               /\ r_fn m' = r_fn msg /\ r_tn m' = r_tn msg /\ r_ver m' = 1.
Proof.
  intros Hv Hf Ht.
  assert (Hs : spec_rx (nope_msg msg)).
  { unfold spec_rx, nope_msg, with_meta, spec_common, spec_rx_burst. cbn [r_ver r_fn r_tn r_rssi r_toa r_nope r_ci r_burst r_mod r_tset r_tsc].
    destruct gen_noise as [-> [-> ->]]. rewrite Hv.
    split; [split; [right; reflexivity|split; assumption]|].
    split; [exists (-110); split; [reflexivity|lia]|]. split; [exists 0; split; [reflexivity|lia]|].
    split; [intros _ H; discriminate|]. split; [intros _; exists (-30); split; [reflexivity|lia]|].
    split; [intros H; discriminate|intros _; reflexivity]. }
  destruct (rx_encodable _ false Hs) as [b Hb].
  exists b. unfold send_out. rewrite Hb. split; [reflexivity|].
  assert (Hsoft : soft_ok (nope_msg msg)) by (unfold soft_ok, nope_msg, with_meta; cbn; exact I).
  destruct (rx_roundtrip _ _ _ Hsoft Hb) as [m' [Hp Hc]]. exists m'. split; [exact Hp|].
  destruct gen_noise as [G1 [G2 G3]].
  destruct msg as [v fn0 tn0 rs0 to0 np mt ts tc ci0 bu]. cbn [r_ver r_fn r_tn] in *. subst v.
  unfold nope_msg, with_meta in Hc. cbn [r_ver r_fn r_tn r_mod r_tset r_tsc] in Hc. rewrite G1, G2, G3 in Hc.
  unfold carried in Hc. cbn [r_ver r_nope r_fn r_tn r_rssi r_toa r_ci r_burst] in Hc. change (1 =? 0) with false in Hc. cbv iota in Hc.
  destruct m' as [v' fn' tn' rs' to' np' mt' ts' tc' ci' bu']. cbn [r_ver r_nope r_fn r_tn r_rssi r_toa r_ci r_burst r_mod r_tset r_tsc] in *.
  destruct (v' =? 0) eqn:E0; [injection Hc; intros; discriminate|].
  destruct np'; injection Hc; intros; subst; try discriminate; repeat split; reflexivity.
Qed.

(* ---- the normal branch: the message handed to send_msg(legacy=True) ---- *)
Definition tsc_of (bits : list Z) : Z * Z :=      (* (tsc, tsc_set) picked for a GMSK burst *)
  match ts_pick bits with Some (c, _, s, _) => (c, s) | None => (0, 0) end.

Definition meta_msg (ver : Z) (sm : txmsg) (bits : list Z) (rssi toa ci : Z) : rxmsg :=
  if ver >=? 1 then
    let md := pick_by_bl (Z.of_nat (length bits)) in
    let '(tsc, tset) := match md with Some O => tsc_of bits | _ => (0, 0) end in
    {| r_ver := ver; r_fn := t_fn sm; r_tn := t_tn sm; r_rssi := Some rssi; r_toa := Some toa; r_nope := false;
       r_mod := md; r_tset := Some tset; r_tsc := Some tsc; r_ci := Some ci; r_burst := Some (map u2s bits) |}
  else
    {| r_ver := ver; r_fn := t_fn sm; r_tn := t_tn sm; r_rssi := Some rssi; r_toa := Some toa; r_nope := false;
       r_mod := Some GMSK_IDX; r_tset := None; r_tsc := None; r_ci := None; r_burst := Some (map u2s bits) |}.

Lemma handle_normal dst src sm bits ver draws :
  sim_ok dst -> s_muted dst = false -> t_burst sm = Some bits -> fst (sim_drop dst (oz (t_fn sm))) = false ->
  exists toa rssi ci d',
    handle_data dst src sm (trans sm ver) draws = (dst, send_out true (meta_msg ver sm bits rssi (toa - 256 * s_ta src) ci), d')
    /\ s_toa dst - s_toa_thr dst <= toa <= s_toa dst + s_toa_thr dst
    /\ (s_fake_rssi dst = false -> rssi = s_txp src - s_att src - oz (t_pwr sm) - 110)
    /\ (s_fake_rssi dst = true -> s_rssi dst - s_rssi_thr dst <= rssi <= s_rssi dst + s_rssi_thr dst)
    /\ (ver >=? 1 = true -> s_ci dst - s_ci_thr dst <= ci <= s_ci dst + s_ci_thr dst)
    /\ (s_toa_thr dst = 0 -> toa = s_toa dst) /\ (s_rssi_thr dst = 0 -> s_fake_rssi dst = true -> rssi = s_rssi dst)
    /\ (ver >=? 1 = true -> s_ci_thr dst = 0 -> ci = s_ci dst).
Proof.
  intros [Ht [Hr [Hc [Hd Hp]]]] Hm Hb Hdrop.
  unfold handle_data. rewrite Hm. unfold trans at 1. cbn [r_nope]. rewrite Hb.
  assert (Esd : sim_drop dst (oz (r_fn (trans sm ver))) = (false, dst)).
  { unfold trans. cbn [r_fn]. unfold sim_drop in *. destruct (s_drop dst =? 0); [reflexivity|].
    destruct (oz (t_fn sm) mod s_period dst =? 0); [cbn in Hdrop; discriminate|reflexivity]. }
  rewrite Esd.
  destruct (draw_range (s_toa dst) (s_toa_thr dst) draws Ht) as [toa [d1 [E1 [R1 Z1]]]]. rewrite E1.
  assert (Hrs : exists rssi d2, (if s_fake_rssi dst then draw (s_rssi dst) (s_rssi_thr dst) d1
                                 else Some (s_txp src - s_att src - oz (t_pwr sm) - path_loss_default, d1)) = Some (rssi, d2)
            /\ (s_fake_rssi dst = false -> rssi = s_txp src - s_att src - oz (t_pwr sm) - 110)
            /\ (s_fake_rssi dst = true -> s_rssi dst - s_rssi_thr dst <= rssi <= s_rssi dst + s_rssi_thr dst)
            /\ (s_rssi_thr dst = 0 -> s_fake_rssi dst = true -> rssi = s_rssi dst)).
  { destruct (s_fake_rssi dst).
    - destruct (draw_range (s_rssi dst) (s_rssi_thr dst) d1 Hr) as [v [d2 [E2 [R2 Z2]]]]. exists v, d2. split; [exact E2|].
      split; [discriminate|]. split; [auto|]. intros Hz _. apply Z2, Hz.
    - eexists _, d1. split; [reflexivity|]. split; [intros _; reflexivity|]. split; discriminate. }
  destruct Hrs as [rssi [d2 [E2 [R2a [R2b R2c]]]]]. rewrite E2.
  unfold trans at 1. cbn [r_ver].
  destruct (ver >=? 1) eqn:Ev.
  - destruct (draw_range (s_ci dst) (s_ci_thr dst) d2 Hc) as [ci [d3 [E3 [R3 Z3]]]]. rewrite E3.
    exists toa, rssi, ci, d3. split.
    + unfold meta_msg. rewrite Ev. unfold trans, with_meta, tsc_of. cbn [r_ver r_fn r_tn r_burst]. rewrite ?Hb, ?Ev.
      assert (Eta : (if s_ta src =? 0 then toa else toa - s_ta src * 256) = toa - 256 * s_ta src) by (destruct (s_ta src =? 0) eqn:E; lia).
      rewrite Eta.
      destruct (pick_by_bl (Z.of_nat (length bits))) as [[|k]|]; try reflexivity.
      destruct (ts_pick bits) as [[[[c bt] s] bb]|]; reflexivity.
    + split; [exact R1|]. split; [exact R2a|]. split; [exact R2b|]. split; [intros _; exact R3|]. split; [intros Hz; apply Z1, Hz|]. split; [exact R2c|]. intros _ Hz; apply Z3, Hz.
  - exists toa, rssi, 0, d2. split.
    + unfold meta_msg. rewrite Ev. unfold trans, with_meta. cbn [r_ver r_fn r_tn r_burst r_mod r_tset r_tsc r_ci]. rewrite ?Hb, ?Ev.
      assert (Eta : (if s_ta src =? 0 then toa else toa - s_ta src * 256) = toa - 256 * s_ta src) by (destruct (s_ta src =? 0) eqn:E; lia).
      rewrite Eta. reflexivity.
    + split; [exact R1|]. split; [exact R2a|]. split; [exact R2b|]. split; [discriminate|]. split; [intros Hz; apply Z1, Hz|]. split; [exact R2c|]. discriminate.
Qed.
