(* C16 stage 2: bit-field sets - BitFieldSet packing is a disjoint OR of windows; dec_val reads the windows back. *)
From Coq Require Import ZArith List Bool Lia.
From OBB Require Import Base.Bits Model.Codec Proofs.CodecInt.
Import ListNotations.
Open Scope Z_scope.

(* ---------------------------------------------------------------- dicts as association lists *)
Definition keys (e:env) : list nat := map fst e.
(* the decoder may append cv to e0 with plain `d[k] = v`: all names new and distinct *)
Definition fresh (e0 cv:env) : Prop := NoDup (keys cv) /\ (forall k, In k (keys cv) -> lookup k e0 = None).

Lemma lookup_app k e1 e2 : lookup k (e1 ++ e2) = match lookup k e1 with Some v => Some v | None => lookup k e2 end.
Proof. induction e1 as [|[k' v'] r IH]; cbn [lookup app]; [reflexivity|]. destruct (Nat.eqb k k'); [reflexivity|exact IH]. Qed.

Lemma lookup_none_keys k e : lookup k e = None <-> ~ In k (keys e).
Proof.
  induction e as [|[k' v'] r IH]; cbn [lookup keys map fst In]; [tauto|].
  destruct (Nat.eqb_spec k k') as [->|Hne]; [split; [discriminate|tauto]|]. unfold keys in IH. rewrite IH. split; [intros H [E|I]; [congruence|tauto]|tauto].
Qed.

Lemma eset_fresh k v e : lookup k e = None -> eset k v e = e ++ [(k,v)].
Proof.
  induction e as [|[k' v'] r IH]; cbn [lookup eset app]; [reflexivity|].
  destruct (Nat.eqb k k'); [discriminate|]. intros H. rewrite IH by exact H. reflexivity.
Qed.

Lemma fresh_nil e0 : fresh e0 [].
Proof. split; [constructor|intros k []]. Qed.

Lemma fresh_cons e0 k v cv : fresh e0 ((k,v)::cv) -> lookup k e0 = None /\ fresh (e0 ++ [(k,v)]) cv.
Proof.
  intros [Hnd Hl]. cbn [keys map fst] in *. inversion Hnd as [|? ? Hni Hnd']; subst.
  split; [apply Hl; left; reflexivity|]. split; [exact Hnd'|].
  intros k' Hk'. rewrite lookup_app. rewrite Hl by (right; exact Hk'). cbn [lookup].
  destruct (Nat.eqb_spec k' k) as [->|]; [contradiction|reflexivity].
Qed.

Lemma fresh_app e0 cv1 cv2 : fresh e0 (cv1 ++ cv2) -> fresh e0 cv1 /\ fresh (e0 ++ cv1) cv2.
Proof.
  revert e0. induction cv1 as [|[k v] r IH]; intros e0 H.
  - cbn [app] in *. rewrite app_nil_r. split; [apply fresh_nil|exact H].
  - cbn [app] in H. destruct H as [Hnd Hl].
    assert (Hc := fresh_cons e0 k v (r ++ cv2) (conj Hnd Hl)). destruct Hc as [Hk Hr].
    destruct (IH _ Hr) as [H1 H2]. split.
    + cbn [keys map fst app] in *. inversion Hnd as [|? ? Hni Hnd']; subst. split.
      * constructor; [|apply H1]. intros Hin. apply Hni. unfold keys. rewrite map_app. apply in_or_app. left. exact Hin.
      * intros k' [<-|Hin]; [exact Hk|]. apply Hl. right. unfold keys. rewrite map_app. apply in_or_app. left. exact Hin.
    + replace (e0 ++ (k,v)::r) with ((e0 ++ [(k,v)]) ++ r) by (rewrite <- app_assoc; reflexivity). exact H2.
Qed.

(* ---------------------------------------------------------------- packing *)
Definition bl_of (f:bitf) : nat := match f with BitF _ bl _ => bl end.
Definition bfv (f:bitf) (e:env) : Z := match bf_val f e with Ok v => v | _ => 0 end.
Definition zbl (f:bitf) : Z := Z.of_nat (bl_of f).
(* the integer BitFieldSet._to_bytes builds: every field masked and shifted into its own window *)
Fixpoint packed (fs:list bitf) (e:env) (off:Z) : Z :=
  match fs with [] => 0
  | f :: r => let o := off - zbl f in Z.lor (Z.shiftl (Z.land (bfv f e) (2 ^ zbl f - 1)) o) (packed r e o) end.

Lemma bits_total_cons f r : Z.of_nat (bits_total (f :: r)) = zbl f + Z.of_nat (bits_total r).
Proof. destruct f as [nm bl fx]. unfold bits_total, zbl. cbn [fold_right bl_of]. lia. Qed.

Lemma bits_total_app a b : bits_total (a ++ b) = (bits_total a + bits_total b)%nat.
Proof. induction a as [|[nm bl fx] r IH]; [reflexivity|]. cbn [app]. unfold bits_total in *. cbn [fold_right]. rewrite IH. lia. Qed.

Lemma bits_total_rev l : bits_total (rev l) = bits_total l.
Proof. induction l as [|[nm bl fx] r IH]; [reflexivity|]. cbn [rev]. rewrite bits_total_app, IH. unfold bits_total. cbn [fold_right]. lia. Qed.

Lemma bits_total_order lsb l : bits_total (bits_order lsb l) = bits_total l.
Proof. destruct lsb; [apply bits_total_rev|reflexivity]. Qed.

Lemma zbl_nonneg f : 0 <= zbl f.
Proof. unfold zbl. lia. Qed.

Lemma enc_bits_packed fs e : (forall f, In f fs -> exists v, bf_val f e = Ok v) ->
  forall off blob, enc_bits (layout fs off) e blob = Ok (Z.lor blob (packed fs e off)).
Proof.
  induction fs as [|f r IH]; intros Hv off blob.
  - cbn [layout enc_bits packed]. rewrite Z.lor_0_r. reflexivity.
  - destruct (Hv f (or_introl eq_refl)) as [v Hf]. destruct f as [nm bl fx].
    cbn [layout enc_bits packed]. rewrite Hf. cbn [bind]. rewrite IH by (intros g Hg; apply Hv; right; exact Hg).
    unfold bfv. rewrite Hf. unfold zbl. cbn [bl_of]. rewrite Z.lor_assoc. reflexivity.
Qed.

Lemma packed_nonneg fs e : forall off, 0 <= packed fs e off.
Proof.
  induction fs as [|f r IH]; intros off; cbn [packed]; [lia|].
  apply Z.lor_nonneg. split; [|apply IH]. apply Z.shiftl_nonneg. rewrite mask_trunc by apply zbl_nonneg.
  apply Z.mod_pos_bound. apply Z.pow_pos_nonneg; [lia|apply zbl_nonneg].
Qed.

(* all bits of the packed integer lie inside [off - total, off) *)
Lemma packed_confined fs e : forall off p, Z.of_nat (bits_total fs) <= off ->
  Z.testbit (packed fs e off) p = true -> off - Z.of_nat (bits_total fs) <= p < off.
Proof.
  induction fs as [|f r IH]; intros off p Hoff Hb.
  - cbn [packed] in Hb. rewrite Z.bits_0 in Hb. discriminate.
  - rewrite bits_total_cons in *. pose proof (zbl_nonneg f) as Hz.
    destruct (Z.lt_ge_cases p 0) as [Hneg|Hp]; [rewrite Z.testbit_neg_r in Hb by lia; discriminate|].
    cbn [packed] in Hb. cbv zeta in Hb. rewrite Z.lor_spec in Hb. apply orb_true_iff in Hb as [Hb|Hb].
    + rewrite field_testbit in Hb by lia. lia.
    + apply IH in Hb; lia.
Qed.

Lemma packed_lt fs e off : Z.of_nat (bits_total fs) <= off -> 0 <= packed fs e off < 2 ^ off.
Proof.
  intros Hoff. split; [apply packed_nonneg|]. apply highclear_lt; [lia|apply packed_nonneg|].
  intros p Hp. destruct (Z.testbit (packed fs e off) p) eqn:E; [|reflexivity].
  apply packed_confined in E; lia.
Qed.

(* the window of one field read from any blob that agrees with the packed integer on that window *)
Lemma window_of_packed f r e off blob : Z.of_nat (bits_total (f :: r)) <= off ->
  (forall p, off - Z.of_nat (bits_total (f :: r)) <= p < off -> Z.testbit blob p = Z.testbit (packed (f :: r) e off) p) ->
  Z.land (Z.shiftr blob (off - zbl f)) (2 ^ zbl f - 1) = bfv f e mod 2 ^ zbl f.
Proof.
  intros Hoff Hag. rewrite bits_total_cons in *. pose proof (zbl_nonneg f) as Hz.
  cbn [packed] in Hag. cbv zeta in Hag.
  remember (zbl f) as bl eqn:Ebl. remember (off - bl) as o eqn:Eo. clear Ebl.
  rewrite <- (mask_trunc (bfv f e) bl Hz). apply Z.bits_inj'. intros q Hq.
  rewrite !Z.land_spec, Z.shiftr_spec by lia. rewrite mask_ones, Z.testbit_ones by lia.
  destruct (Z.ltb_spec q bl) as [Hlt|Hge]; [|rewrite !andb_false_r; reflexivity].
  destruct (Z.leb_spec 0 q); [|lia]. cbn [andb]. rewrite !andb_true_r.
  rewrite Hag by lia. rewrite Z.lor_spec. rewrite field_testbit by lia.
  replace (q + o - o) with q by lia.
  destruct (Z.leb_spec o (q + o)); [|lia]. destruct (Z.ltb_spec (q + o) (o + bl)); [|lia]. cbn [andb].
  destruct (Z.testbit (packed r e o) (q + o)) eqn:E; [|apply orb_false_r].
  apply packed_confined in E; lia.
Qed.

(* ---------------------------------------------------------------- values / what the decoder stores
   bits_fit fs e cv: e supplies an integer for every named non-fixed field (ANY integer: an over-wide or negative
   value is reduced modulo 2^bl by the mask), fixed values are inside their width; cv is what dec_val stores, in
   processing order. *)
Inductive bits_fit : list bitf -> env -> env -> Prop :=
| bf_nil e : bits_fit [] e []
| bf_spare bl fx r e cv : bits_fit r e cv -> bits_fit (BitF None bl fx :: r) e cv
| bf_named k bl z r e cv : lookup k e = Some (VInt z) ->
    bits_fit r e cv -> bits_fit (BitF (Some k) bl None :: r) e ((k, VInt (z mod 2 ^ Z.of_nat bl)) :: cv)
| bf_fixed k bl c r e cv : 0 <= c < 2 ^ Z.of_nat bl ->
    bits_fit r e cv -> bits_fit (BitF (Some k) bl (Some c) :: r) e ((k, VInt c) :: cv).

Lemma bits_fit_vals fs e cv : bits_fit fs e cv -> forall f, In f fs -> exists v, bf_val f e = Ok v.
Proof.
  induction 1 as [e|bl fx r e cv Hr IH|k bl z r e cv Hl Hr IH|k bl c r e cv Hc Hr IH]; intros f Hin.
  - destruct Hin.
  - destruct Hin as [<-|Hin]; [exists 0; reflexivity|auto].
  - destruct Hin as [<-|Hin]; [exists z; cbn [bf_val]; rewrite Hl; reflexivity|auto].
  - destruct Hin as [<-|Hin]; [exists c; reflexivity|auto].
Qed.

(* decoding any blob that agrees with the packed integer on the windows of the set gives back the values *)
Lemma dec_bits_packed fs e cv : bits_fit fs e cv ->
  forall off blob e0, Z.of_nat (bits_total fs) <= off ->
  (forall p, off - Z.of_nat (bits_total fs) <= p < off -> Z.testbit blob p = Z.testbit (packed fs e off) p) ->
  fresh e0 cv -> dec_bits (layout fs off) blob e0 = Ok (e0 ++ cv).
Proof.
  induction 1 as [e|bl fx r e cv Hr IH|k bl z r e cv Hl Hr IH|k bl c r e cv Hc Hr IH]; intros off blob e0 Hoff Hag Hfr.
  - cbn [layout dec_bits]. rewrite app_nil_r. reflexivity.
  - cbn [layout dec_bits]. rewrite bits_total_cons in Hoff, Hag. unfold zbl in Hoff, Hag. cbn [bl_of] in Hoff, Hag.
    apply IH; [lia| |exact Hfr]. intros p Hp. rewrite Hag by lia. cbn [packed]. cbv zeta. unfold zbl. cbn [bl_of].
    rewrite Z.lor_spec. destruct (Z.lt_ge_cases p 0) as [Hn|Hp0]; [rewrite !Z.testbit_neg_r by lia; reflexivity|].
    rewrite field_testbit by lia. destruct (Z.leb_spec (off - Z.of_nat bl) p); [lia|]. reflexivity.
  - pose proof (window_of_packed (BitF (Some k) bl None) r e off blob Hoff Hag) as Hw.
    unfold zbl, bfv in Hw. cbn [bl_of bf_val] in Hw. rewrite Hl in Hw.
    cbn [layout dec_bits]. rewrite Hw. destruct (fresh_cons _ _ _ _ Hfr) as [Hk Hfr'].
    rewrite eset_fresh by exact Hk.
    rewrite bits_total_cons in Hoff, Hag. unfold zbl in Hoff, Hag. cbn [bl_of] in Hoff, Hag.
    rewrite IH; [rewrite <- app_assoc; reflexivity|lia| |exact Hfr'].
    intros p Hp. rewrite Hag by lia. cbn [packed]. cbv zeta. unfold zbl. cbn [bl_of].
    rewrite Z.lor_spec. destruct (Z.lt_ge_cases p 0) as [Hn|Hp0]; [rewrite !Z.testbit_neg_r by lia; reflexivity|].
    rewrite field_testbit by lia. destruct (Z.leb_spec (off - Z.of_nat bl) p); [lia|]. reflexivity.
  - pose proof (window_of_packed (BitF (Some k) bl (Some c)) r e off blob Hoff Hag) as Hw.
    unfold zbl, bfv in Hw. cbn [bl_of bf_val] in Hw. rewrite Z.mod_small in Hw by lia.
    cbn [layout dec_bits]. rewrite Hw. rewrite Z.eqb_refl. destruct (fresh_cons _ _ _ _ Hfr) as [Hk Hfr'].
    rewrite eset_fresh by exact Hk.
    rewrite bits_total_cons in Hoff, Hag. unfold zbl in Hoff, Hag. cbn [bl_of] in Hoff, Hag.
    rewrite IH; [rewrite <- app_assoc; reflexivity|lia| |exact Hfr'].
    intros p Hp. rewrite Hag by lia. cbn [packed]. cbv zeta. unfold zbl. cbn [bl_of].
    rewrite Z.lor_spec. destruct (Z.lt_ge_cases p 0) as [Hn|Hp0]; [rewrite !Z.testbit_neg_r by lia; reflexivity|].
    rewrite field_testbit by lia. destruct (Z.leb_spec (off - Z.of_nat bl) p); [lia|]. reflexivity.
Qed.

(* ---------------------------------------------------------------- the whole set: to_bytes then from_bytes *)
Definition bits_wf (l:lensrc) (bfs:list bitf) : Prop :=
  (1 <= bits_len l bfs)%nat /\ (bits_total bfs <= 8 * bits_len l bfs)%nat.

Lemma bits_enc l lsb bfs e cv :
  bits_wf l bfs -> bits_fit (bits_order lsb bfs) e cv ->
  let blob := packed (bits_order lsb bfs) e (8 * Z.of_nat (bits_len l bfs)) in
  enc_bits (bits_layout l lsb bfs) e 0 = Ok blob /\
  enc_int (bits_len l bfs) false false blob = Ok (to_be (bits_len l bfs) blob) /\
  0 <= blob < 256 ^ Z.of_nat (bits_len l bfs).
Proof.
  intros [Hn Ht] Hfit. cbv zeta. unfold bits_layout. set (fs := bits_order lsb bfs) in *. set (n := bits_len l bfs) in *.
  assert (Htot : Z.of_nat (bits_total fs) <= 8 * Z.of_nat n) by (subst fs; rewrite bits_total_order; lia).
  rewrite (enc_bits_packed fs e (bits_fit_vals _ _ _ Hfit)). rewrite Z.lor_0_l.
  pose proof (packed_lt fs e _ Htot) as Hlt.
  assert (Hpow : 2 ^ (8 * Z.of_nat n) = 256 ^ Z.of_nat n).
  { rewrite Z.pow_mul_r by lia. reflexivity. }
  rewrite Hpow in Hlt.
  assert (Hr : int_range n false (packed fs e (8 * Z.of_nat n))) by (unfold int_range; exact Hlt).
  rewrite (enc_int_ok n false false _ Hn Hr). cbv zeta. rewrite Z.mod_small by exact Hlt.
  split; [reflexivity|]. split; [reflexivity|exact Hlt].
Qed.

Lemma bits_enc_dec l lsb bfs e cv e0 :
  bits_wf l bfs -> bits_fit (bits_order lsb bfs) e cv -> fresh e0 cv ->
  exists blob b, enc_bits (bits_layout l lsb bfs) e 0 = Ok blob /\
    enc_int (bits_len l bfs) false false blob = Ok b /\ length b = bits_len l bfs /\ bytes_ok b /\
    dec_bits (bits_layout l lsb bfs) (from_be b) e0 = Ok (e0 ++ cv).
Proof.
  intros Hwf Hfit Hfr. destruct (bits_enc l lsb bfs e cv Hwf Hfit) as [H1 [H2 H3]].
  eexists. eexists. split; [exact H1|]. split; [exact H2|]. split; [apply to_be_length|]. split; [apply to_be_bytes_ok|].
  rewrite from_to_be by exact H3. destruct Hwf as [Hn Ht]. unfold bits_layout.
  apply (dec_bits_packed _ e cv Hfit); [rewrite bits_total_order; lia|reflexivity|exact Hfr].
Qed.

(* over-wide values: only x mod 2^bl enters the blob, whatever x is (negative included) *)
Lemma bf_contrib_mod v bl o : 0 <= bl ->
  Z.shiftl (Z.land v (2 ^ bl - 1)) o = Z.shiftl (Z.land (v mod 2 ^ bl) (2 ^ bl - 1)) o.
Proof. intros. rewrite mask_mod by lia. reflexivity. Qed.
