(* Lemmas about Model/MobAlloc.v (C20). *)
From Coq Require Import ZArith List Bool Lia ZifyBool FinFun Permutation.
From OBB Require Import Base.Range Gen.MobAllocConst Model.MobAlloc.
Import ListNotations.
Open Scope Z_scope.
Ltac Zify.zify_post_hook ::= Z.to_euclidean_division_equations.

(* ------------------------------------------------------------------ constants *)
Lemma constants : c_FREQ_TYPE_SERV = 1 /\ c_FREQ_TYPE_HOPP = 2 /\ c_FREQ_TABLE_SIZE = 1024 /\ c_HOPPING_SIZE = 64 /\
                  c_EINVAL = 22 /\ c_FREQ_ENTRY_SIZE = 1 /\ c_F_CAPACITY = 64.
Proof. repeat split; reflexivity. Qed.

(* ------------------------------------------------------------------ lists, ranges *)
Lemma Zlength_app {A : Type} (l1 l2 : list A) : Zlength (l1 ++ l2) = Zlength l1 + Zlength l2.
Proof. rewrite !Zlength_correct, app_length. lia. Qed.

Lemma Zlength_map {A B : Type} (g : A -> B) l : Zlength (map g l) = Zlength l.
Proof. rewrite !Zlength_correct, map_length. reflexivity. Qed.

Lemma Zlength_nonneg {A : Type} (l : list A) : 0 <= Zlength l.
Proof. rewrite Zlength_correct. lia. Qed.

Lemma Zlength_range a b : Zlength (range a b) = Z.max 0 (b - a).
Proof. unfold range. rewrite Zlength_correct, map_length, seq_length. lia. Qed.

Lemma range_nil a b : b <= a -> range a b = [].
Proof. intros H. unfold range. replace (Z.to_nat (b - a)) with 0%nat by lia. reflexivity. Qed.

Lemma range_cons a b : a < b -> range a b = a :: range (a + 1) b.
Proof. intros H. unfold range. replace (Z.to_nat (b - a)) with (S (Z.to_nat (b - (a + 1)))) by lia.
  cbn [seq map]. f_equal; [lia|]. rewrite <- seq_shift, map_map. apply map_ext. intros k. lia. Qed.

Lemma range_NoDup a b : NoDup (range a b).
Proof. unfold range. apply FinFun.Injective_map_NoDup; [|apply seq_NoDup]. intros x y H. lia. Qed.

Lemma map_nth_seq (t : list Z) d : map (fun k => nth k t d) (seq 0 (length t)) = t.
Proof. induction t as [|x t IH]; [reflexivity|]. cbn [length seq map nth]. f_equal.
  rewrite <- seq_shift, map_map. exact IH. Qed.

Lemma zn_cons x t i : 0 <= i -> zn (x :: t) (1 + i) = zn t i.
Proof. intros H. unfold zn. replace (Z.to_nat (1 + i)) with (S (Z.to_nat i)) by lia. reflexivity. Qed.

Lemma map_zn_tail x t : map (zn (x :: t)) (range 1 (1 + Zlength t)) = t.
Proof. unfold range. rewrite map_map. replace (Z.to_nat (1 + Zlength t - 1)) with (length t) by (rewrite Zlength_correct; lia).
  rewrite <- (map_nth_seq t 0) at 2. apply map_ext. intros k. rewrite zn_cons by lia. unfold zn. f_equal. lia. Qed.

Lemma zn_In l i : 0 <= i < Zlength l -> In (zn l i) l.
Proof. intros H. unfold zn. apply nth_In. rewrite Zlength_correct in H. lia. Qed.

Lemma zn_firstn l n i : 0 <= i < n -> zn (firstn (Z.to_nat n) l) i = zn l i.
Proof. intros H. unfold zn. revert l. generalize (Z.to_nat n) (Z.to_nat i) (proj1 (Z2Nat.inj_lt i n ltac:(lia) ltac:(lia)) (proj2 H)).
  intros c k Hk l. revert c k Hk. induction l as [|x l IH]; intros c k Hk.
  - rewrite firstn_nil. reflexivity.
  - destruct c as [|c]; [lia|]. destruct k as [|k]; [reflexivity|]. cbn [firstn nth]. apply IH. lia. Qed.

Lemma Zlength_firstn (l : list Z) n : 0 <= n -> Zlength (firstn (Z.to_nat n) l) = Z.min n (Zlength l).
Proof. intros H. rewrite !Zlength_correct, firstn_length. lia. Qed.

Lemma rd_ok l i : 0 <= i < Zlength l -> rd l i = Some (zn l i).
Proof. intros H. unfold rd, zn. replace (i <? 0) with false by lia. rewrite Zlength_correct in H.
  apply nth_error_nth'. lia. Qed.

Lemma upd_nat_ok l : forall n v, (n < length l)%nat ->
  exists l', upd_nat l n v = Some l' /\ length l' = length l /\
             forall k d, nth k l' d = if Nat.eqb k n then v else nth k l d.
Proof. induction l as [|x l IH]; intros n v Hn; cbn [length] in Hn; [lia|]. destruct n as [|n]; cbn [upd_nat].
  - exists (v :: l). repeat split. intros [|k] d; reflexivity.
  - destruct (IH n v ltac:(lia)) as (l' & E & Hl & Hk). rewrite E. exists (x :: l'). cbn [option_map length]. repeat split; [lia|].
    intros [|k] d; [reflexivity|]. cbn [nth Nat.eqb]. apply Hk. Qed.

Lemma wr_ok l i v : 0 <= i < Zlength l ->
  exists l', wr l i v = Some l' /\ Zlength l' = Zlength l /\ forall k, 0 <= k -> zn l' k = if k =? i then v else zn l k.
Proof. intros H. unfold wr. replace (i <? 0) with false by lia. rewrite Zlength_correct in H.
  destruct (upd_nat_ok l (Z.to_nat i) v ltac:(lia)) as (l' & E & Hl & Hk). exists l'. repeat split; [exact E|rewrite !Zlength_correct; lia|].
  intros k Hk0. unfold zn. rewrite Hk. destruct (k =? i) eqn:Eki.
  - replace (Z.to_nat k =? Z.to_nat i)%nat with true; [reflexivity|]. symmetry. apply Nat.eqb_eq. f_equal. lia.
  - replace (Z.to_nat k =? Z.to_nat i)%nat with false; [reflexivity|]. symmetry. apply Nat.eqb_neq. lia. Qed.

(* ------------------------------------------------------------------ bit tests *)
Lemma land_pow2 b k : 0 <= k -> Z.land b (2 ^ k) = if Z.testbit b k then 2 ^ k else 0.
Proof. intros Hk. apply Z.bits_inj'. intros n Hn. rewrite Z.land_spec, Z.pow2_bits_eqb by exact Hk.
  destruct (Z.eqb_spec k n) as [->|Hne].
  - destruct (Z.testbit b n); [rewrite Z.pow2_bits_eqb, Z.eqb_refl by exact Hn; reflexivity|rewrite Z.bits_0; reflexivity].
  - rewrite andb_false_r. destruct (Z.testbit b k); [rewrite Z.pow2_bits_eqb by exact Hk; symmetry; apply Z.eqb_neq, Hne|rewrite Z.bits_0; reflexivity]. Qed.

Lemma bit_test b i : 0 <= i -> negb (Z.land b (Z.shiftl 1 (Z.land i 7)) =? 0) = Z.testbit b (i mod 8).
Proof. intros Hi. change 7 with (Z.ones 3). rewrite Z.land_ones by lia. change (2 ^ 3) with 8.
  rewrite Z.shiftl_1_l, land_pow2 by lia. destruct (Z.testbit b (i mod 8)); [|reflexivity].
  assert (0 < 2 ^ (i mod 8)) by (apply Z.pow_pos_nonneg; lia). lia. Qed.

Lemma land1 x : Z.land x 1 = if Z.testbit x 0 then 1 else 0.
Proof. change 1 with (2 ^ 0) at 1. rewrite land_pow2 by lia. reflexivity. Qed.

Lemma is_serv_testbit m : is_serv m = Z.testbit m 0.
Proof. unfold is_serv, c_FREQ_TYPE_SERV. rewrite land1. destruct (Z.testbit m 0); reflexivity. Qed.

Lemma u8_bits x n : 0 <= n -> Z.testbit (u8 x) n = (n <? 8) && Z.testbit x n.
Proof. intros Hn. unfold u8. change 256 with (2 ^ 8). destruct (n <? 8) eqn:E.
  - rewrite Z.mod_pow2_bits_low by lia. reflexivity.
  - rewrite Z.mod_pow2_bits_high by lia. reflexivity. Qed.

Lemma clr_hopp_bits m n : 0 <= n -> Z.testbit (clr_hopp m) n = (n <? 8) && Z.testbit m n && negb (n =? 1).
Proof. intros Hn. unfold clr_hopp, c_FREQ_TYPE_HOPP. rewrite u8_bits, Z.land_spec, Z.lnot_spec by exact Hn.
  change 2 with (2 ^ 1). rewrite Z.pow2_bits_eqb by lia. rewrite (Z.eqb_sym 1 n), andb_assoc. reflexivity. Qed.

Lemma set_hopp_bits m n : 0 <= n -> Z.testbit (set_hopp m) n = (n <? 8) && (Z.testbit m n || (n =? 1)).
Proof. intros Hn. unfold set_hopp, c_FREQ_TYPE_HOPP. rewrite u8_bits, Z.lor_spec by exact Hn.
  change 2 with (2 ^ 1). rewrite Z.pow2_bits_eqb by lia. rewrite (Z.eqb_sym 1 n). reflexivity. Qed.

Lemma is_serv_clr m : is_serv (clr_hopp m) = is_serv m.
Proof. rewrite !is_serv_testbit, clr_hopp_bits by lia. cbn. rewrite andb_true_r. reflexivity. Qed.

Lemma set_hopp_idem m : set_hopp (set_hopp m) = set_hopp m.
Proof. apply Z.bits_inj'. intros n Hn. rewrite !set_hopp_bits by exact Hn.
  destruct (n <? 8), (Z.testbit m n), (n =? 1); reflexivity. Qed.

(* ------------------------------------------------------------------ loop 2: the ordered cell-allocation list *)
Definition servl (l : list (Z * Z)) : list Z := map fst (filter (fun p => is_serv (snd p)) l).

Lemma firstn_exact {A : Type} (l x : list A) : firstn (length l) (l ++ x) = l.
Proof. rewrite firstn_app, firstn_all, Nat.sub_diag. cbn [firstn]. apply app_nil_r. Qed.

Lemma gen_f_ok fcap cap : 0 < cap <= fcap -> forall l f, Zlength f < cap ->
  gen_f fcap cap l f (Zlength f) = Some (firstn (Z.to_nat cap) (f ++ servl l), Z.min cap (Zlength (f ++ servl l))).
Proof. intros Hc. induction l as [|[a m] r IH]; intros f Hf; cbn [gen_f].
  - unfold servl. cbn [filter map]. rewrite app_nil_r, firstn_all2 by (rewrite Zlength_correct in Hf; lia). f_equal. f_equal. lia.
  - unfold servl. cbn [filter snd]. destruct (is_serv m) eqn:Es.
    + cbn [map fst]. fold (servl r). replace (Zlength f <? fcap) with true by lia.
      replace (f ++ a :: servl r) with ((f ++ [a]) ++ servl r) by (rewrite <- app_assoc; reflexivity).
      assert (Hl : Zlength (f ++ [a]) = Zlength f + 1) by (rewrite Zlength_app, Zlength_cons, Zlength_nil; lia).
      destruct (Zlength f + 1 =? cap) eqn:E.
      * assert (Hc' : Z.to_nat cap = length (f ++ [a])) by (rewrite !Zlength_correct in *; lia).
        rewrite Hc', firstn_exact. f_equal. f_equal. rewrite Zlength_app. pose proof (Zlength_nonneg (servl r)). lia.
      * rewrite <- Hl. apply IH. lia.
    + fold (servl r). apply IH, Hf. Qed.

Lemma order_eq : order = range 1 1024 ++ [0].
Proof. vm_compute. reflexivity. Qed.

Lemma servl_combine (g : Z -> Z) l : servl (combine l (map g l)) = filter (fun a => is_serv (g a)) l.
Proof. unfold servl. induction l as [|a l IH]; [reflexivity|]. cbn [map combine filter snd].
  destruct (is_serv (g a)); cbn [map fst]; rewrite IH; reflexivity. Qed.

Lemma combine_map (g : Z -> Z) l : combine l (map g l) = map (fun a => (a, g a)) l.
Proof. induction l as [|a l IH]; [reflexivity|]. cbn [map combine]. rewrite IH. reflexivity. Qed.

Lemma visit_eq fr : Zlength fr = 1024 -> visit fr = combine order (map (zn fr) order).
Proof. intros Hl. unfold visit. rewrite firstn_all2 by (rewrite Zlength_correct in Hl; lia).
  destruct fr as [|x t]; [discriminate Hl|]. rewrite Zlength_cons in Hl. cbn [skipn firstn].
  f_equal. rewrite order_eq, map_app. replace 1024 with (1 + Zlength t) by lia. rewrite map_zn_tail. reflexivity. Qed.

(* the structural traversal is the indexed loop  for (i = 1; i <= 1024; i++) ... freq[i & 1023] *)
Lemma visit_faithful fr : Zlength fr = 1024 ->
  visit fr = map (fun i => (Z.land i 1023, zn fr (Z.land i 1023))) (range 1 1025).
Proof. intros Hl. rewrite visit_eq by exact Hl. rewrite combine_map. unfold order. rewrite map_map. reflexivity. Qed.

Lemma tabula_rasa_eq fr : Zlength fr = 1024 -> tabula_rasa fr = map clr_hopp fr.
Proof. intros Hl. unfold tabula_rasa. rewrite Zlength_correct in Hl. rewrite firstn_all2, skipn_all2 by lia. apply app_nil_r. Qed.

Lemma zn_map_clr fr a : zn (map clr_hopp fr) a = clr_hopp (zn fr a).
Proof. unfold zn. change 0 with (clr_hopp 0) at 1. apply map_nth. Qed.

Lemma serving_is_serv fr a : serving fr a = is_serv (zn fr a).
Proof. reflexivity. Qed.

Lemma servl_visit fr : Zlength fr = 1024 -> servl (visit fr) = cell_alloc fr.
Proof. intros Hl. rewrite visit_eq by exact Hl. rewrite servl_combine, order_eq. reflexivity. Qed.

Lemma servl_visit_tr fr : Zlength fr = 1024 -> servl (visit (tabula_rasa fr)) = cell_alloc fr.
Proof. intros Hl. rewrite tabula_rasa_eq by exact Hl. rewrite visit_eq by (rewrite Zlength_map; exact Hl).
  rewrite servl_combine, order_eq. unfold cell_alloc. apply filter_ext. intros a.
  rewrite zn_map_clr, is_serv_clr. reflexivity. Qed.

Lemma cell_alloc_In fr a : In a (cell_alloc fr) -> 0 <= a < 1024 /\ serving fr a = true.
Proof. unfold cell_alloc. intros H. apply filter_In in H as [H Hs]. split; [|exact Hs].
  apply in_app_or in H as [H|[<-|[]]]; [apply range_in in H|]; lia. Qed.

Lemma cell_alloc_NoDup fr : NoDup (cell_alloc fr).
Proof. unfold cell_alloc. apply NoDup_filter.
  apply (Permutation_NoDup (Permutation_cons_append (range 1 1024) 0)).
  change (0 :: range 1 1024) with (0 :: range (0 + 1) 1024). rewrite <- range_cons by lia. apply range_NoDup. Qed.

(* ------------------------------------------------------------------ loop 3 *)
Lemma zn_cons0 x t : zn (x :: t) 0 = x.
Proof. reflexivity. Qed.

Lemma has_cons a l x : has (a :: l) x = (x =? a) || has l x.
Proof. reflexivity. Qed.

Lemma ma_bit_model ma len i : 0 <= i ->
  negb (Z.land (zn ma (len - 1 - Z.shiftr i 3)) (Z.shiftl 1 (Z.land i 7)) =? 0) = ma_bit ma len i.
Proof. intros Hi. rewrite bit_test by exact Hi. unfold ma_bit. rewrite Z.shiftr_div_pow2 by lia. reflexivity. Qed.

Definition selr (ma : list Z) (len : Z) (f is : list Z) : list Z :=
  map (zn f) (cut (Zlength f) (filter (ma_bit ma len) is)).

Lemma pick_ok ma len fcap f si4 : len <= Zlength ma -> Zlength f <= 8 * len -> 8 * len <= fcap ->
  forall is s,
    Forall (fun i => 0 <= i < 8 * len) is ->
    Forall (fun a => 0 <= a < Zlength (s_freq s)) f ->
    0 <= s_hlen s -> s_hlen s + Zlength is <= Zlength (s_hop s) -> s_hlen s + Zlength is < 256 ->
    exists s', pick ma len fcap f (Zlength f) si4 is s = Some s' /\
      s_hlen s' = s_hlen s + Zlength (selr ma len f is) /\
      Zlength (s_hop s') = Zlength (s_hop s) /\ Zlength (s_freq s') = Zlength (s_freq s) /\
      (forall k, 0 <= k -> zn (s_hop s') k =
         if (s_hlen s <=? k) && (k <? s_hlen s + Zlength (selr ma len f is)) then zn (selr ma len f is) (k - s_hlen s) else zn (s_hop s) k) /\
      (forall a, 0 <= a -> zn (s_freq s') a =
         if si4 && has (selr ma len f is) a then set_hopp (zn (s_freq s) a) else zn (s_freq s) a).
Proof. intros Hma Hfl Hfc. induction is as [|i r IH]; intros s His Hfr Hh0 Hh1 Hh2.
  - exists s. unfold selr. cbn [pick filter cut map]. rewrite Zlength_nil. repeat split; [lia| |].
    + intros k Hk. replace ((s_hlen s <=? k) && (k <? s_hlen s + 0)) with false by lia. reflexivity.
    + intros a Ha. unfold has. cbn [existsb]. rewrite andb_false_r. reflexivity.
  - apply Forall_cons_iff in His as [Hi His]. rewrite Zlength_cons in Hh1, Hh2. pose proof (Zlength_nonneg r) as Hr0.
    cbn [pick]. rewrite rd_ok by (rewrite Z.shiftr_div_pow2 by lia; change (2 ^ 3) with 8; lia).
    rewrite ma_bit_model by lia. unfold selr. cbn [filter]. destruct (ma_bit ma len i) eqn:Eb.
    2:{ fold (selr ma len f r). apply IH; auto; lia. }
    replace (fcap <=? i) with false by lia. cbn [cut]. destruct (Zlength f <=? i) eqn:Ej.
    + replace (i <? Zlength f) with false by lia. cbn [map]. rewrite Zlength_nil. exists s. repeat split; [lia| |].
      * intros k Hk. replace ((s_hlen s <=? k) && (k <? s_hlen s + 0)) with false by lia. reflexivity.
      * intros a Ha. unfold has. cbn [existsb]. rewrite andb_false_r. reflexivity.
    + replace (i <? Zlength f) with true by lia. cbn [map]. fold (selr ma len f r). rewrite Zlength_cons.
      pose proof (Zlength_nonneg (selr ma len f r)) as Hs0.
      rewrite rd_ok by lia.
      assert (Ha : 0 <= zn f i < Zlength (s_freq s)).
      { rewrite Forall_forall in Hfr. apply Hfr, zn_In. lia. }
      destruct (wr_ok (s_hop s) (s_hlen s) (zn f i) ltac:(lia)) as (hop' & Ew & Hl' & Hk'). rewrite Ew.
      assert (Eu : u8 (s_hlen s + 1) = s_hlen s + 1) by (unfold u8; lia). rewrite Eu.
      destruct si4.
      * rewrite rd_ok by exact Ha.
        destruct (wr_ok (s_freq s) (zn f i) (set_hopp (zn (s_freq s) (zn f i))) Ha) as (fr' & Ef & Hfl' & Hfk'). rewrite Ef.
        destruct (IH (mkst fr' hop' (s_hlen s + 1))) as (s' & Ep & H1 & H2 & H3 & H4 & H5); cbn [s_freq s_hop s_hlen]; auto; try lia.
        { rewrite Hfl'. exact Hfr. }
        cbn [s_freq s_hop s_hlen] in *. exists s'. split; [exact Ep|]. split; [lia|]. split; [lia|]. split; [lia|]. split.
        -- intros k Hk. rewrite H4 by exact Hk. rewrite Hk' by exact Hk.
           destruct (Z.eq_dec k (s_hlen s)) as [->|Hne].
           ++ replace ((s_hlen s + 1 <=? s_hlen s) && (s_hlen s <? s_hlen s + 1 + Zlength (selr ma len f r))) with false by lia.
              replace ((s_hlen s <=? s_hlen s) && (s_hlen s <? s_hlen s + Z.succ (Zlength (selr ma len f r)))) with true by lia.
              rewrite Z.sub_diag, Z.eqb_refl. reflexivity.
           ++ replace (k =? s_hlen s) with false by lia.
              destruct ((s_hlen s + 1 <=? k) && (k <? s_hlen s + 1 + Zlength (selr ma len f r))) eqn:Ec.
              ** replace ((s_hlen s <=? k) && (k <? s_hlen s + Z.succ (Zlength (selr ma len f r)))) with true by lia.
                 replace (k - s_hlen s) with (1 + (k - (s_hlen s + 1))) by lia. rewrite zn_cons by lia. reflexivity.
              ** replace ((s_hlen s <=? k) && (k <? s_hlen s + Z.succ (Zlength (selr ma len f r)))) with false by lia. reflexivity.
        -- intros a Ha'. rewrite H5 by exact Ha'. rewrite Hfk' by exact Ha'. rewrite has_cons. cbn [andb].
           destruct (a =? zn f i) eqn:Ea.
           ++ assert (a = zn f i) by lia. subst a. cbn [orb]. destruct (has (selr ma len f r) (zn f i)); [apply set_hopp_idem|reflexivity].
           ++ cbn [orb]. reflexivity.
      * destruct (IH (mkst (s_freq s) hop' (s_hlen s + 1))) as (s' & Ep & H1 & H2 & H3 & H4 & H5); cbn [s_freq s_hop s_hlen]; auto; try lia.
        cbn [s_freq s_hop s_hlen] in *. exists s'. split; [exact Ep|]. split; [lia|]. split; [lia|]. split; [lia|]. split.
        -- intros k Hk. rewrite H4 by exact Hk. rewrite Hk' by exact Hk.
           destruct (Z.eq_dec k (s_hlen s)) as [->|Hne].
           ++ replace ((s_hlen s + 1 <=? s_hlen s) && (s_hlen s <? s_hlen s + 1 + Zlength (selr ma len f r))) with false by lia.
              replace ((s_hlen s <=? s_hlen s) && (s_hlen s <? s_hlen s + Z.succ (Zlength (selr ma len f r)))) with true by lia.
              rewrite Z.sub_diag, Z.eqb_refl. reflexivity.
           ++ replace (k =? s_hlen s) with false by lia.
              destruct ((s_hlen s + 1 <=? k) && (k <? s_hlen s + 1 + Zlength (selr ma len f r))) eqn:Ec.
              ** replace ((s_hlen s <=? k) && (k <? s_hlen s + Z.succ (Zlength (selr ma len f r)))) with true by lia.
                 replace (k - s_hlen s) with (1 + (k - (s_hlen s + 1))) by lia. rewrite zn_cons by lia. reflexivity.
              ** replace ((s_hlen s <=? k) && (k <? s_hlen s + Z.succ (Zlength (selr ma len f r)))) with false by lia. reflexivity.
        -- intros a Ha'. rewrite H5 by exact Ha'. reflexivity.
Qed.

(* ------------------------------------------------------------------ the specification list *)
Lemma firstn_In' {A} n (l : list A) x : In x (firstn n l) -> In x l.
Proof. revert l. induction n as [|n IH]; intros [|a l]; cbn [firstn In]; try tauto. intros [->|H]; auto. Qed.

Lemma cut_In n bits x : In x (cut n bits) -> In x bits /\ x < n.
Proof. induction bits as [|i r IH]; cbn [cut In]; [tauto|]. destruct (i <? n) eqn:E; cbn [In]; [|tauto].
  intros [<-|H]; [split; [auto|lia]|]. destruct (IH H). auto. Qed.

Lemma cut_NoDup n bits : NoDup bits -> NoDup (cut n bits).
Proof. induction 1 as [|i r Hi Hr IH]; cbn [cut]; [constructor|]. destruct (i <? n); constructor; [|exact IH].
  intros H. apply cut_In in H. tauto. Qed.

Lemma Zlength_cut n bits : Zlength (cut n bits) <= Zlength bits.
Proof. induction bits as [|i r IH]; cbn [cut]; [lia|]. destruct (i <? n); rewrite ?Zlength_cons, ?Zlength_nil; pose proof (Zlength_nonneg r); lia. Qed.

Lemma Zlength_filter (p : Z -> bool) l : Zlength (filter p l) <= Zlength l.
Proof. induction l as [|x l IH]; cbn [filter]; [lia|]. destruct (p x); rewrite ?Zlength_cons; lia. Qed.

Lemma cut_firstn cap ca bits : Forall (fun i => 0 <= i < cap) bits ->
  map (zn (firstn (Z.to_nat cap) ca)) (cut (Z.min cap (Zlength ca)) bits) = map (zn ca) (cut (Zlength ca) bits).
Proof. induction 1 as [|i r Hi Hr IH]; [reflexivity|]. cbn [cut]. destruct (i <? Zlength ca) eqn:E.
  - replace (i <? Z.min cap (Zlength ca)) with true by lia. cbn [map]. rewrite IH, zn_firstn by lia. reflexivity.
  - replace (i <? Z.min cap (Zlength ca)) with false by lia. reflexivity. Qed.

Lemma map_zn_NoDup ca idx : NoDup ca -> NoDup idx -> Forall (fun i => 0 <= i < Zlength ca) idx -> NoDup (map (zn ca) idx).
Proof. intros Hca Hidx. induction Hidx as [|i r Hi Hr IH]; intros Hb; cbn [map]; [constructor|].
  apply Forall_cons_iff in Hb as [Hbi Hbr]. constructor; [|apply IH, Hbr].
  intros H. apply in_map_iff in H as (i' & E & Hi'). rewrite Forall_forall in Hbr. specialize (Hbr i' Hi').
  rewrite Zlength_correct in Hbi, Hbr. unfold zn in E. rewrite NoDup_nth in Hca. apply Hca in E; try lia.
  assert (i' = i) by lia. subst i'. contradiction. Qed.

Lemma spec_props freq ma len : 0 <= len <= 8 ->
  Zlength (spec_hopping freq ma len) <= 64 /\ NoDup (spec_hopping freq ma len) /\
  forall x, In x (spec_hopping freq ma len) -> In x (cell_alloc freq).
Proof. intros Hlen. unfold spec_hopping. set (ca := cell_alloc freq). set (bits := filter (ma_bit ma len) (range 0 (8 * len))).
  assert (Hb : forall i, In i bits -> 0 <= i < 8 * len).
  { intros i Hi. apply filter_In in Hi as [Hi _]. apply range_in in Hi. lia. }
  split; [|split].
  - rewrite Zlength_map. pose proof (Zlength_cut (Zlength ca) bits). pose proof (Zlength_filter (ma_bit ma len) (range 0 (8 * len))).
    fold bits in H0. rewrite Zlength_range in H0. lia.
  - apply map_zn_NoDup; [apply cell_alloc_NoDup|apply cut_NoDup, NoDup_filter, range_NoDup|].
    apply Forall_forall. intros i Hi. apply cut_In in Hi as [Hi Hn]. specialize (Hb i Hi). lia.
  - intros x Hx. apply in_map_iff in Hx as (i & <- & Hi). apply cut_In in Hi as [Hi Hn]. specialize (Hb i Hi). apply zn_In. lia. Qed.

(* ------------------------------------------------------------------ the whole function *)
Lemma shiftl3 len : Z.shiftl len 3 = 8 * len.
Proof. rewrite Z.shiftl_mul_pow2 by lia. change (2 ^ 3) with 8. lia. Qed.

Lemma spec_len0 freq ma : spec_hopping freq ma 0 = [].
Proof. reflexivity. Qed.

Lemma decode_ok freq ma len hop hl si4 :
  Zlength freq = 1024 -> 0 <= len <= 8 -> len <= Zlength ma -> 64 <= Zlength hop ->
  exists s, decode freq ma len hop hl si4 = Ok 0 s /\
    s_hlen s = Zlength (spec_hopping freq ma len) /\ Zlength (s_hop s) = Zlength hop /\ Zlength (s_freq s) = 1024 /\
    (forall k, 0 <= k -> zn (s_hop s) k = if k <? Zlength (spec_hopping freq ma len) then zn (spec_hopping freq ma len) k else zn hop k) /\
    (forall a, 0 <= a -> zn (s_freq s) a =
       if si4 =? 0 then zn freq a
       else if has (spec_hopping freq ma len) a then set_hopp (clr_hopp (zn freq a)) else clr_hopp (zn freq a)).
Proof. intros Hfl Hlen Hma Hhop. unfold decode. rewrite shiftl3. replace (8 <? len) with false by lia.
  replace (Zlength freq <? 1024) with false by lia. rewrite andb_false_r.
  set (si4b := negb (si4 =? 0)). set (fr1 := if si4b then tabula_rasa freq else freq).
  assert (Hfl1 : Zlength fr1 = 1024).
  { unfold fr1. destruct si4b; [|exact Hfl]. rewrite tabula_rasa_eq by exact Hfl. rewrite Zlength_map. exact Hfl. }
  assert (Hfr1 : forall a, zn fr1 a = if si4 =? 0 then zn freq a else clr_hopp (zn freq a)).
  { intros a. unfold fr1, si4b. destruct (si4 =? 0); cbn [negb]; [reflexivity|]. rewrite tabula_rasa_eq by exact Hfl. apply zn_map_clr. }
  destruct (len =? 0) eqn:E0.
  { assert (len = 0) by lia. subst len. exists (mkst fr1 hop 0). rewrite spec_len0. cbn [s_freq s_hop s_hlen].
    split; [reflexivity|]. split; [reflexivity|]. split; [reflexivity|]. split; [exact Hfl1|]. split.
    - intros k Hk. rewrite Zlength_nil. replace (k <? 0) with false by lia. reflexivity.
    - intros a Ha. rewrite Hfr1. destruct (si4 =? 0); reflexivity. }
  assert (Hca : servl (visit fr1) = cell_alloc freq).
  { unfold fr1. destruct si4b; [apply servl_visit_tr|apply servl_visit]; exact Hfl. }
  assert (Hcap : c_F_CAPACITY = 64) by reflexivity.
  pose proof (gen_f_ok c_F_CAPACITY (8 * len) ltac:(lia) (visit fr1) [] ltac:(rewrite Zlength_nil; lia)) as G.
  rewrite Zlength_nil in G. cbn [app] in G. rewrite Hca in G. rewrite G. clear G.
  set (ca := cell_alloc freq). set (f := firstn (Z.to_nat (8 * len)) ca).
  assert (Hf : Zlength f = Z.min (8 * len) (Zlength ca)) by (apply Zlength_firstn; lia). rewrite <- Hf.
  destruct (pick_ok ma len c_F_CAPACITY f si4b Hma ltac:(lia) ltac:(lia) (range 0 (8 * len)) (mkst fr1 hop 0)) as (s & Ep & H1 & H2 & H3 & H4 & H5); cbn [s_freq s_hop s_hlen].
  { apply Forall_forall. intros i Hi. apply range_in in Hi. lia. }
  { apply Forall_forall. intros a Ha. apply firstn_In', cell_alloc_In in Ha. lia. }
  { lia. } { rewrite Zlength_range. lia. } { rewrite Zlength_range. lia. }
  rewrite Ep. exists s. split; [reflexivity|]. cbn [s_freq s_hop s_hlen] in *.
  assert (Es : selr ma len f (range 0 (8 * len)) = spec_hopping freq ma len).
  { unfold selr, spec_hopping. rewrite Hf. apply cut_firstn. apply Forall_forall. intros i Hi. apply filter_In in Hi as [Hi _]. apply range_in in Hi. lia. }
  rewrite Es in *. split; [lia|]. split; [exact H2|]. split; [lia|]. split.
  - intros k Hk. rewrite H4 by exact Hk. replace (0 <=? k) with true by lia. rewrite Z.sub_0_r. reflexivity.
  - intros a Ha. rewrite H5 by exact Ha. rewrite Hfr1. unfold si4b. destruct (si4 =? 0); cbn [negb andb]; reflexivity. Qed.

Lemma nth_skipn' {A} (l : list A) : forall k n d, nth n (skipn k l) d = nth (k + n) l d.
Proof. induction l as [|x l IH]; intros [|k] n d; cbn [skipn plus nth]; try reflexivity; [destruct n; reflexivity|apply IH]. Qed.

Lemma pointwise_app sel hop hop' : Zlength hop' = Zlength hop -> Zlength sel <= Zlength hop ->
  (forall k, 0 <= k -> zn hop' k = if k <? Zlength sel then zn sel k else zn hop k) ->
  hop' = sel ++ skipn (length sel) hop.
Proof. intros Hl Hs Hk. rewrite !Zlength_correct in Hl, Hs. apply (nth_ext _ _ 0 0).
  - rewrite app_length, skipn_length. lia.
  - intros n Hn. specialize (Hk (Z.of_nat n) ltac:(lia)). unfold zn in Hk. rewrite Nat2Z.id in Hk. rewrite Hk.
    rewrite Zlength_correct. destruct (Z.of_nat n <? Z.of_nat (length sel)) eqn:E.
    + rewrite app_nth1 by lia. reflexivity.
    + rewrite app_nth2 by lia. rewrite nth_skipn'. f_equal. lia. Qed.

(* flag arithmetic on uint8_t masks: the literal 44.018-independent bit values 0x02 / 0xfd *)
Lemma mask_sweep : forallb (fun m => (clr_hopp m =? Z.land m 253) && (set_hopp (clr_hopp m) =? Z.lor m 2)) (range 0 256) = true.
Proof. vm_compute. reflexivity. Qed.

Lemma mask_lit m : 0 <= m < 256 -> clr_hopp m = Z.land m 253 /\ set_hopp (clr_hopp m) = Z.lor m 2.
Proof. intros H. pose proof (forallb_range _ _ _ mask_sweep m H) as S. cbv beta in S. lia. Qed.

(* ------------------------------------------------------------------ property-level statements (re-exported by Props/C20.v) *)
Lemma spec_thm freq ma len hop hl si4 :
  Zlength freq = 1024 -> 0 <= len <= 8 -> len <= Zlength ma -> Zlength hop = 64 ->
  exists freq', decode freq ma len hop hl si4 =
    Ok 0 (mkst freq' (spec_hopping freq ma len ++ skipn (length (spec_hopping freq ma len)) hop) (Zlength (spec_hopping freq ma len))).
Proof. intros Hfl Hlen Hma Hhop.
  destruct (decode_ok freq ma len hop hl si4 Hfl Hlen Hma ltac:(lia)) as ([fr' hop' hl'] & E & H1 & H2 & H3 & H4 & H5).
  cbn [s_freq s_hop s_hlen] in *. exists fr'. rewrite E. f_equal. f_equal; [|exact H1].
  apply pointwise_app; [exact H2| |exact H4]. pose proof (spec_props freq ma len ltac:(lia)). lia. Qed.

Lemma flags_thm freq ma len hop hl si4 rc s :
  Zlength freq = 1024 -> 0 <= len <= 8 -> len <= Zlength ma -> Zlength hop = 64 ->
  Forall (fun m => 0 <= m < 256) freq ->
  decode freq ma len hop hl si4 = Ok rc s ->
  Zlength (s_freq s) = 1024 /\
  forall a, 0 <= a < 1024 ->
    zn (s_freq s) a = if si4 =? 0 then zn freq a
                      else if has (spec_hopping freq ma len) a then Z.lor (zn freq a) 2 else Z.land (zn freq a) 253.
Proof. intros Hfl Hlen Hma Hhop Hm E.
  destruct (decode_ok freq ma len hop hl si4 Hfl Hlen Hma ltac:(lia)) as (s' & E' & H1 & H2 & H3 & H4 & H5).
  rewrite E' in E. injection E as <- <-. split; [exact H3|]. intros a Ha. rewrite H5 by lia.
  assert (Hr : 0 <= zn freq a < 256). { rewrite Forall_forall in Hm. apply Hm, zn_In. lia. }
  destruct (mask_lit _ Hr) as [-> ->]. reflexivity. Qed.

Lemma firstn_app_exact {A} (l x : list A) : firstn (Z.to_nat (Zlength l)) (l ++ x) = l.
Proof. rewrite Zlength_correct, Nat2Z.id. apply firstn_exact. Qed.

Lemma subset_thm freq ma len hop hl si4 rc s :
  Zlength freq = 1024 -> 0 <= len <= 8 -> len <= Zlength ma -> Zlength hop = 64 ->
  decode freq ma len hop hl si4 = Ok rc s ->
  0 <= s_hlen s <= 64 /\ NoDup (firstn (Z.to_nat (s_hlen s)) (s_hop s)) /\
  forall x, In x (firstn (Z.to_nat (s_hlen s)) (s_hop s)) -> 0 <= x < 1024 /\ serving freq x = true.
Proof. intros Hfl Hlen Hma Hhop E. destruct (spec_thm freq ma len hop hl si4 Hfl Hlen Hma Hhop) as (fr' & E').
  rewrite E' in E. injection E as <- <-. cbn [s_hop s_hlen]. rewrite firstn_app_exact.
  destruct (spec_props freq ma len ltac:(lia)) as (P1 & P2 & P3). split; [pose proof (Zlength_nonneg (spec_hopping freq ma len)); lia|].
  split; [exact P2|]. intros x Hx. apply cell_alloc_In, P3, Hx. Qed.

Lemma long_thm freq ma len hop hl si4 : 8 < len <= 255 ->
  decode freq ma len hop hl si4 = Ok (-22) (mkst freq hop hl).
Proof. intros H. unfold decode. replace (8 <? len) with true by lia. reflexivity. Qed.

Lemma in_bounds_thm freq ma len hop hl si4 :
  Zlength freq = 1024 -> Zlength hop = 64 -> 0 <= len <= 255 -> (len <= 8 -> len <= Zlength ma) ->
  exists rc s, decode freq ma len hop hl si4 = Ok rc s.
Proof. intros Hfl Hhop Hlen Hma. destruct (Z_le_gt_dec len 8) as [Hs|Hl].
  - destruct (spec_thm freq ma len hop hl si4 Hfl ltac:(lia) (Hma Hs) Hhop) as (fr' & E). rewrite E. eauto.
  - rewrite long_thm by lia. eauto. Qed.

Lemma spec_zero_bitmap freq ma len : Forall (fun b => b = 0) ma -> spec_hopping freq ma len = [].
Proof. intros Hz. unfold spec_hopping. replace (filter (ma_bit ma len) (range 0 (8 * len))) with (@nil Z); [reflexivity|].
  symmetry. generalize (range 0 (8 * len)). induction l as [|i r IH]; [reflexivity|]. cbn [filter].
  replace (ma_bit ma len i) with false; [exact IH|]. unfold ma_bit, zn.
  destruct (nth_in_or_default (Z.to_nat (len - 1 - i / 8)) ma 0) as [Hin| ->]; [|rewrite Z.bits_0; reflexivity].
  rewrite Forall_forall in Hz. rewrite (Hz _ Hin), Z.bits_0. reflexivity. Qed.

Lemma zero_bitmap_thm freq ma len hop hl si4 :
  Zlength freq = 1024 -> 0 <= len <= 8 -> len <= Zlength ma -> Zlength hop = 64 -> Forall (fun b => b = 0) ma ->
  exists freq', decode freq ma len hop hl si4 = Ok 0 (mkst freq' hop 0).
Proof. intros Hfl Hlen Hma Hhop Hz. destruct (spec_thm freq ma len hop hl si4 Hfl Hlen Hma Hhop) as (fr' & E).
  rewrite spec_zero_bitmap in E by exact Hz. exists fr'. exact E. Qed.

(* the empty bitmap *)
Lemma empty_thm freq ma hop hl si4 : Zlength freq = 1024 -> Zlength hop = 64 -> Forall (fun m => 0 <= m < 256) freq ->
  decode freq ma 0 hop hl si4 = Ok 0 (mkst (if si4 =? 0 then freq else map (fun m => Z.land m 253) freq) hop 0).
Proof. intros Hfl Hhop Hm. unfold decode. change (8 <? 0) with false. cbv iota. replace (Zlength freq <? 1024) with false by lia.
  rewrite andb_false_r. change (0 =? 0) with true. cbv iota. destruct (si4 =? 0); cbn [negb]; [reflexivity|].
  rewrite tabula_rasa_eq by exact Hfl. f_equal. f_equal. apply map_ext_in. intros m Hin.
  rewrite Forall_forall in Hm. apply mask_lit, Hm, Hin. Qed.

Lemma cut_all n bits : Forall (fun i => i < n) bits -> cut n bits = bits.
Proof. induction 1 as [|i r Hi Hr IH]; [reflexivity|]. cbn [cut]. replace (i <? n) with true by lia. rewrite IH. reflexivity. Qed.

Lemma spec_no_cut freq ma len :
  Forall (fun i => i < Zlength (cell_alloc freq)) (filter (ma_bit ma len) (range 0 (8 * len))) ->
  spec_hopping freq ma len = map (zn (cell_alloc freq)) (filter (ma_bit ma len) (range 0 (8 * len))).
Proof. intros H. unfold spec_hopping. rewrite cut_all by exact H. reflexivity. Qed.

(* ------------------------------------------------------------------ non-vacuity: concrete inputs *)
Definition tbl (ca : list Z) (other : Z) : list Z := map (fun a => if has ca a then 1 + other else other) (range 0 1024).
Definition obs (r : res) : list Z :=
  match r with Ok rc s => [rc; s_hlen s] ++ firstn 5 (s_hop s) ++ [zn (s_freq s) 0; zn (s_freq s) 10; zn (s_freq s) 30; zn (s_freq s) 40] | OOB => [-998] end.

(* cell allocation {0, 10, 20, 30} = ordered (10, 20, 30, 0); bitmap 0b1011 selects indices 0, 1, 3 = ARFCN 10, 20, 0;
   every entry starts with mask 0x42 (+ 0x01 in the cell allocation): the stale HOPP flags are cleared everywhere, 0x40 stays,
   HOPP is set again on ARFCN 0, 10 (and 20) only *)
Example ex_decode : obs (decode (tbl [0; 10; 20; 30] 66) [11] 1 (repeat 7 64) 9 1) = [0; 3; 10; 20; 0; 7; 7; 67; 67; 65; 64].
Proof. vm_compute. reflexivity. Qed.
Example ex_hyp : Zlength (tbl [0; 10; 20; 30] 66) = 1024 /\ Zlength (repeat 7 64) = 64 /\ Forall (fun m => 0 <= m < 256) (tbl [0; 10; 20; 30] 66).
Proof. split; [vm_compute; reflexivity|]. split; [vm_compute; reflexivity|]. apply Forall_forall. intros m Hm. unfold tbl in Hm.
  apply in_map_iff in Hm as (a & <- & _). destruct (has [0; 10; 20; 30] a); lia. Qed.
(* two octets, the set bit 9 lies in octet 0; bit 4 points beyond the 4 channels and ends decoding before bit 9 is reached *)
Example ex_cut : obs (decode (tbl [0; 10; 20; 30] 0) [2; 19] 2 (repeat 7 64) 9 0) = [0; 2; 10; 20; 7; 7; 7; 1; 1; 1; 0].
Proof. vm_compute. reflexivity. Qed.
Example ex_two_octets : obs (decode (tbl [0; 10; 20; 30; 40; 50; 60; 70; 80; 90] 0) [2; 5] 2 (repeat 7 64) 9 0) = [0; 3; 10; 30; 0; 7; 7; 1; 1; 1; 1].
Proof. vm_compute. reflexivity. Qed.
(* len = 0: nothing selected, stale HOPP flags cleared (si4), hopp_len reset *)
Example ex_len0 : obs (decode (tbl [5] 66) [] 0 (repeat 7 64) 9 1) = [0; 0; 7; 7; 7; 7; 7; 64; 64; 64; 64].
Proof. vm_compute. reflexivity. Qed.
Example ex_long : obs (decode (tbl [5] 0) (repeat 255 9) 9 (repeat 7 64) 9 1) = [-22; 9; 7; 7; 7; 7; 7; 0; 0; 0; 0].
Proof. vm_compute. reflexivity. Qed.
