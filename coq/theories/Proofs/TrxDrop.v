(* C18: burst-loss simulation (sim_burst_drop, RF mute, NOPE indications, FAKE_DROP argument validation) *)
From Coq Require Import ZArith List Bool Lia ZifyBool.
From OBB Require Import Base.Dec Gen.TrxdConst Gen.FakeTrxConst Model.Trxd Model.Trx Proofs.TrxdBase Proofs.TrxdTx Proofs.TrxdRx Proofs.TrxdRxRT.
Import ListNotations.
Open Scope Z_scope.
Ltac Zify.zify_post_hook ::= Z.to_euclidean_division_equations.

Lemma gen_noise : rssi_noise_default = -110 /\ toa256_noise_default = 0 /\ ci_noise_default = -30.
Proof. repeat split; reflexivity. Qed.

(* the counter/filter over a stream of frame numbers *)
Fixpoint drop_stream (s : sim) (fns : list Z) : list bool * sim :=
  match fns with
  | [] => ([], s)
  | f :: r => let '(b, s1) := sim_drop s f in let '(bs, s2) := drop_stream s1 r in (b :: bs, s2)
  end.

Definition hits (p : Z) (fns : list Z) : nat := length (filter (fun f => f mod p =? 0) fns).

(* only the counter changes *)
Lemma sim_drop_frame s f : let s' := snd (sim_drop s f) in
  s_period s' = s_period s /\ s_muted s' = s_muted s /\ s_fake_rssi s' = s_fake_rssi s /\ s_txp s' = s_txp s /\ s_att s' = s_att s
  /\ s_toa s' = s_toa s /\ s_toa_thr s' = s_toa_thr s /\ s_rssi s' = s_rssi s /\ s_rssi_thr s' = s_rssi_thr s /\ s_ci s' = s_ci s
  /\ s_ci_thr s' = s_ci_thr s /\ s_ta s' = s_ta s /\ s_delay s' = s_delay s.
Proof. unfold sim_drop. destruct (s_drop s =? 0); [cbn; tauto|]. destruct (f mod s_period s =? 0); cbn; tauto. Qed.

Lemma sim_drop_spec s f : 0 <= s_drop s ->
  sim_drop s f = (if (0 <? s_drop s) && (f mod s_period s =? 0) then true else false, snd (sim_drop s f))
  /\ s_drop (snd (sim_drop s f)) = (if (0 <? s_drop s) && (f mod s_period s =? 0) then s_drop s - 1 else s_drop s).
Proof.
  intros Hn. unfold sim_drop. destruct (s_drop s =? 0) eqn:E0.
  - replace (0 <? s_drop s) with false by lia. cbn. auto.
  - replace (0 <? s_drop s) with true by lia. cbn [andb]. destruct (f mod s_period s =? 0); cbn; auto.
Qed.

(* burst k of the stream is suppressed iff its frame number is a multiple of the period and fewer than n such bursts came before *)
Lemma drop_stream_spec : forall fns s, 0 <= s_drop s ->
  let p := s_period s in
  let n := s_drop s in
  length (fst (drop_stream s fns)) = length fns /\
  (forall k, (k < length fns)%nat ->
     nth k (fst (drop_stream s fns)) false = ((nth k fns 0 mod p =? 0) && (Z.of_nat (hits p (firstn k fns)) <? n))) /\
  s_drop (snd (drop_stream s fns)) = Z.max 0 (n - Z.of_nat (hits p fns)) /\ s_period (snd (drop_stream s fns)) = p.
Proof.
  induction fns as [|f r IH]; intros s Hn p n.
  - cbn. split; [reflexivity|]. split; [intros k Hk; lia|]. split; [lia|reflexivity].
  - cbn [drop_stream]. destruct (sim_drop s f) as [b s1] eqn:E1.
    destruct (drop_stream s1 r) as [bs s2] eqn:E2.
    destruct (sim_drop_spec s f Hn) as [Eb Ec]. rewrite E1 in Eb, Ec. cbn [snd] in Eb, Ec.
    pose proof (sim_drop_frame s f) as Hfr. rewrite E1 in Hfr. cbn [snd] in Hfr. destruct Hfr as [Hp _].
    assert (Hn1 : 0 <= s_drop s1) by (rewrite Ec; destruct (0 <? s_drop s) eqn:?; destruct (f mod s_period s =? 0); cbn [andb]; lia).
    specialize (IH s1 Hn1). rewrite E2 in IH. cbn [fst snd] in IH. destruct IH as [IL [IK [ID IP]]].
    injection Eb as Eb. cbn [fst snd length].
    split; [lia|]. split; [|split].
    + intros k Hk. destruct k as [|k].
      * cbn [nth firstn hits filter length]. subst p n. rewrite Eb. destruct (0 <? s_drop s) eqn:E; destruct (_ =? 0); cbn; lia.
      * cbn [nth firstn]. rewrite IK by (cbn [length] in Hk; lia). rewrite Hp, Ec. subst p n.
        unfold hits. cbn [filter]. destruct (f mod s_period s =? 0) eqn:Ef; cbn [length andb].
        -- rewrite andb_true_r. destruct (0 <? s_drop s) eqn:E; destruct (_ =? 0); lia.
        -- rewrite andb_false_r. reflexivity.
    + rewrite ID, Hp, Ec. subst p n. unfold hits. cbn [filter]. destruct (f mod s_period s =? 0) eqn:Ef; cbn [length andb].
      * rewrite andb_true_r. destruct (0 <? s_drop s) eqn:E; lia.
      * rewrite andb_false_r. lia.
    + rewrite IP, Hp. reflexivity.
Qed.

(* after the n-th suppressed burst everything is forwarded again *)
Lemma drop_stream_exhausted fns s k : 0 <= s_drop s -> (k < length fns)%nat ->
  s_drop s <= Z.of_nat (hits (s_period s) (firstn k fns)) -> nth k (fst (drop_stream s fns)) false = false.
Proof.
  intros Hn Hk Hh. destruct (drop_stream_spec fns s Hn) as [_ [HK _]]. rewrite HK by exact Hk.
  destruct (_ =? 0); cbn [andb]; lia.
Qed.

(* ---- FAKE_DROP argument validation (tokens are the decimal renderings of the integers) ---- *)
Definition is_dig_b (c : Z) : bool := (48 <=? c) && (c <=? 57).
Lemma digits_all : forall l a p, Forall is_dig l -> (l <> [] \/ p = true) -> digits l a p = Some (fold_left (fun a d => 10 * a + (d - 48)) l a).
Proof.
  induction l as [|c r IH]; intros a p Hd Hne.
  - cbn. destruct Hne as [H|H]; [congruence|]. rewrite H. reflexivity.
  - inversion Hd as [|c' r' Hc Hr]; subst. cbn [digits fold_left]. unfold is_dig in Hc. unfold is_digit.
    replace ((48 <=? c) && (c <=? 57)) with true by lia. apply IH; [exact Hr|right; reflexivity].
Qed.

Lemma strip_digits l : Forall is_dig l -> l <> [] -> strip is_ws l = l.
Proof.
  intros Hd Hne. unfold strip.
  assert (H1 : forall m, Forall is_dig m -> lstrip is_ws m = m).
  { intros m Hm. destruct m as [|c r]; [reflexivity|]. inversion Hm as [|c' r' Hc Hr]; subst. cbn [lstrip]. unfold is_dig in Hc. unfold is_ws.
    replace (((9 <=? c) && (c <=? 13)) || ((28 <=? c) && (c <=? 32))) with false by lia. reflexivity. }
  rewrite (H1 l Hd). rewrite (H1 (rev l)) by (apply Forall_rev; exact Hd). apply rev_involutive.
Qed.

Lemma py_int_str a : py_int (py_str a) = Some a.
Proof.
  unfold py_str, dec. destruct (a <? 0) eqn:E.
  - destruct (dec_nat_spec (- a) ltac:(lia)) as [Hd [Hne [Hv _]]].
    unfold py_int, strip. cbn [lstrip]. replace (is_ws 45) with false by reflexivity.
    assert (H1 : lstrip is_ws (rev (45 :: dec_nat (- a))) = rev (45 :: dec_nat (- a))).
    { cbn [rev]. destruct (rev (dec_nat (- a))) as [|c r] eqn:Er.
      - cbn. reflexivity.
      - cbn [app lstrip]. assert (Hc : is_dig c).
        { assert (I : In c (rev (dec_nat (- a)))) by (rewrite Er; left; reflexivity). apply in_rev in I. rewrite Forall_forall in Hd. apply Hd, I. }
        unfold is_dig in Hc. unfold is_ws. replace (((9 <=? c) && (c <=? 13)) || ((28 <=? c) && (c <=? 32))) with false by lia. reflexivity. }
    rewrite H1, rev_involutive. rewrite digits_all by auto. unfold dec_value in Hv. rewrite Hv. f_equal. lia.
  - destruct (dec_nat_spec a ltac:(lia)) as [Hd [Hne [Hv _]]].
    unfold py_int. rewrite strip_digits by assumption.
    destruct (dec_nat a) as [|c r] eqn:Ed; [congruence|].
    assert (Hc : is_dig c) by (inversion Hd; assumption). unfold is_dig in Hc.
    destruct (Z.eq_dec c 45); [lia|]. destruct (Z.eq_dec c 43); [lia|].
    assert (E2 : match c :: r with 45 :: r0 => match digits r0 0 false with Some v => Some (- v) | None => None end | 43 :: r0 => digits r0 0 false | r0 => digits r0 0 false end = digits (c :: r) 0 false).
    { destruct c as [|c|c]; try reflexivity. do 6 (destruct c as [c|c|]; try reflexivity); lia. }
    rewrite E2. rewrite digits_all by (auto; left; discriminate). unfold dec_value in Hv. rewrite Hv. reflexivity.
Qed.

Lemma fake_drop2 s n p : fake_handler s [v_FAKE_DROP; py_str n; py_str p] =
  if (n <? 0) || (p <=? 0) then (s, Some (CStatus (-1) []))
  else (sim_set s (s_muted s) (s_fake_rssi s) (s_txp s) (s_att s) (s_toa s) (s_toa_thr s) (s_rssi s) (s_rssi_thr s) (s_ci s) (s_ci_thr s) (s_ta s) n p (s_delay s),
        Some (CStatus 0 [])).
Proof.
  unfold fake_handler, verb_is. cbn [list_eqb v_FAKE_DROP v_SETTA v_FAKE_TOA v_FAKE_RSSI v_FAKE_CI v_FAKE_TRXC_DELAY length Nat.eqb andb].
  replace (list_eqb v_FAKE_DROP v_SETTA) with false by reflexivity.
  replace (list_eqb v_FAKE_DROP v_FAKE_TOA) with false by reflexivity.
  replace (list_eqb v_FAKE_DROP v_FAKE_RSSI) with false by reflexivity.
  replace (list_eqb v_FAKE_DROP v_FAKE_CI) with false by reflexivity.
  replace (list_eqb v_FAKE_DROP v_FAKE_DROP) with true by reflexivity. cbn [andb].
  unfold arg. cbn [nth_error]. rewrite !py_int_str.
  destruct (n <? 0); [reflexivity|]. destruct (p <=? 0); reflexivity.
Qed.

Lemma fake_drop1 s n : fake_handler s [v_FAKE_DROP; py_str n] =
  if n <? 0 then (s, Some (CStatus (-1) []))
  else (sim_set s (s_muted s) (s_fake_rssi s) (s_txp s) (s_att s) (s_toa s) (s_toa_thr s) (s_rssi s) (s_rssi_thr s) (s_ci s) (s_ci_thr s) (s_ta s) n 1 (s_delay s),
        Some (CStatus 0 [])).
Proof.
  unfold fake_handler, verb_is. cbn [length Nat.eqb].
  replace (list_eqb v_FAKE_DROP v_SETTA) with false by reflexivity.
  replace (list_eqb v_FAKE_DROP v_FAKE_TOA) with false by reflexivity.
  replace (list_eqb v_FAKE_DROP v_FAKE_RSSI) with false by reflexivity.
  replace (list_eqb v_FAKE_DROP v_FAKE_CI) with false by reflexivity.
  replace (list_eqb v_FAKE_DROP v_FAKE_DROP) with true by reflexivity. cbn [andb].
  unfold arg. cbn [nth_error]. rewrite !py_int_str. destruct (n <? 0); reflexivity.
Qed.
