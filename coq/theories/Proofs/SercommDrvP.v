(* Lemmas about the driver glue handle_sercomm_write (Model/SercommDrv.v): C06. *)
From Coq Require Import ZArith List Bool Lia Arith.
From OBB Require Import Gen.SercommConst Model.Sercomm Model.SercommDrv Proofs.SercommP Proofs.SercommTxP Proofs.SercommS.
Import ListNotations.
Open Scope Z_scope.

Lemma drv_buf_val : c_drv_write_buffer = 256 /\ DRV_BUF = 256%nat.
Proof. split; reflexivity. Qed.

Lemma pending_future t : pending t = future t.
Proof. reflexivity. Qed.

Lemma pull_none_same t t1 : pull t = (PNone, t1) -> t1 = t.
Proof.
  unfold pull. destruct (cur t) as [l|].
  - destruct (is_escape (tstate t)); destruct l as [|b r]; try discriminate.
    destruct (needs_esc b); discriminate.
  - destruct (dequeue (queues t)) as [[m qs']|]; [discriminate|]. intros H. inversion H. reflexivity.
Qed.

(* one call = exactly length(o) pulls, state included *)
Lemma drv_loop_run n : forall t t' o r, drv_loop n t = (t', o, r) -> r <> DOob ->
  tx_run t (repeat Pull (length o)) = (t', o) /\ (length o <= n)%nat /\
  (r = DMore -> length o = n) /\ (r = DEnd -> pull t' = (PNone, t') /\ (length o < n)%nat).
Proof.
  induction n as [|n IH]; intros t t' o r H Hr; cbn [drv_loop] in H.
  - inversion H; subst. cbn [length repeat tx_run].
    split; [reflexivity|]. split; [lia|]. split; [reflexivity|]. intros Hd; discriminate Hd.
  - destruct (pull t) as [pr t1] eqn:E. destruct pr as [|c|].
    + inversion H; subst. pose proof (pull_none_same _ _ E) as Hs. subst t'.
      cbn [length repeat tx_run].
      split; [reflexivity|]. split; [lia|]. split; [intros Hd; discriminate Hd|]. intros _. split; [exact E|lia].
    + destruct (drv_loop n t1) as [[t2 o2] r2] eqn:E2. inversion H; subst.
      destruct (IH _ _ _ _ E2 Hr) as (I1 & I2 & I3 & I4).
      cbn [length repeat tx_run]. unfold tx_step. rewrite E, I1. cbn [app].
      split; [reflexivity|]. split; [lia|]. split.
      * intros Hm. rewrite (I3 Hm). reflexivity.
      * intros Hm. destruct (I4 Hm) as [J1 J2]. split; [exact J1|lia].
    + inversion H; subst. congruence.
Qed.

(* closed form of one call on a state without a dangling escape *)
Lemma drv_loop_future n : forall t, tx_ok t ->
  exists t', drv_loop n t = (t', firstn n (future t), if (length (future t) <? n)%nat then DEnd else DMore) /\
             future t' = skipn n (future t) /\ tx_ok t'.
Proof.
  induction n as [|n IH]; intros t Hok.
  - exists t. cbn [drv_loop firstn skipn]. repeat split; assumption.
  - cbn [drv_loop]. pose proof (pull_future t Hok) as Hp. destruct (future t) as [|c f] eqn:Ef.
    + rewrite Hp. exists t. cbn [firstn skipn length]. rewrite Ef. repeat split; assumption.
    + destruct Hp as (t1 & E & Hf & Hok1). rewrite E. destruct (IH t1 Hok1) as (t2 & E2 & Hf2 & Hok2).
      rewrite E2, Hf. exists t2. cbn [firstn skipn length]. rewrite Hf in Hf2.
      replace (S (length f) <? S n)%nat with (length f <? n)%nat by reflexivity.
      repeat split; assumption.
Qed.

Lemma repeat_snoc_more k : DMore :: repeat DMore k ++ [DEnd] = repeat DMore (S k) ++ [DEnd].
Proof. reflexivity. Qed.

(* the select loop until write polling is disabled *)
Lemma drain_future fuel : forall t, tx_ok t -> (length (future t) < fuel * DRV_BUF)%nat ->
  exists t' calls, drain fuel t = (t', calls) /\
    written calls = future t /\
    Forall (fun c => (length (fst c) <= DRV_BUF)%nat) calls /\
    map snd calls = repeat DMore (length calls - 1) ++ [DEnd] /\
    Forall (fun c => snd c = DMore -> length (fst c) = DRV_BUF) calls /\
    length calls = (length (future t) / DRV_BUF + 1)%nat /\
    future t' = [] /\ tx_ok t'.
Proof.
  assert (HB : (DRV_BUF <> 0)%nat) by (rewrite (proj2 drv_buf_val); discriminate).
  induction fuel as [|f IH]; intros t Hok Hlen; [cbn in Hlen; lia|].
  cbn [drain]. unfold drv_write_chunk. destruct (drv_loop_future DRV_BUF t Hok) as (t1 & E & Hf & Hok1).
  rewrite E. destruct (length (future t) <? DRV_BUF)%nat eqn:Elt.
  - apply Nat.ltb_lt in Elt. exists t1, [(firstn DRV_BUF (future t), DEnd)]. unfold written. cbn [map fst snd concat length].
    rewrite firstn_all2 by lia. rewrite app_nil_r. rewrite Nat.div_small by exact Elt.
    split; [reflexivity|]. split; [reflexivity|]. split; [constructor; [cbn [fst]; lia|constructor]|].
    split; [reflexivity|]. split; [constructor; [cbn [snd]; discriminate|constructor]|].
    split; [reflexivity|]. split; [|exact Hok1]. rewrite Hf. apply skipn_all2. lia.
  - apply Nat.ltb_ge in Elt.
    assert (Hsk : length (future t1) = (length (future t) - DRV_BUF)%nat) by (rewrite Hf; apply skipn_length).
    assert (Hlen1 : (length (future t1) < f * DRV_BUF)%nat) by (rewrite Hsk; cbn [Nat.mul] in Hlen; lia).
    destruct (IH t1 Hok1 Hlen1) as (t2 & cs & Ed & Hw & Hle & Hfl & Hex & Hn & Hfin & Hok2).
    rewrite Ed. exists t2, ((firstn DRV_BUF (future t), DMore) :: cs).
    assert (Hfn : length (firstn DRV_BUF (future t)) = DRV_BUF) by (apply firstn_length_le; exact Elt).
    split; [reflexivity|]. split.
    { unfold written in *. cbn [map fst concat]. rewrite Hw, Hf. apply firstn_skipn. }
    split; [constructor; [cbn [fst]; lia|exact Hle]|].
    split.
    { cbn [map snd length]. rewrite Hfl. replace (S (length cs) - 1)%nat with (S (length cs - 1)) by lia.
      apply repeat_snoc_more. }
    split; [constructor; [intros _; exact Hfn|exact Hex]|].
    split; [|split; assumption].
    cbn [length]. rewrite Hn, Hsk.
    replace (length (future t)) with (1 * DRV_BUF + (length (future t) - DRV_BUF))%nat at 2 by lia.
    rewrite Nat.div_add_l by exact HB. lia.
Qed.

Lemma tx_ok_reach h : tx_ok (fst (tx_run tx0 h)).
Proof. apply tx_never_oob. unfold tx_ok, tx0. cbn [cur tstate]. discriminate. Qed.

Lemma future_nil_pull t : tx_ok t -> future t = [] -> pull t = (PNone, t).
Proof. intros Hok Hf. pose proof (pull_future t Hok) as Hp. rewrite Hf in Hp. exact Hp. Qed.

(* ---------------------------------------------------------------- statements with literal numbers *)

Lemma s_drv_constants : c_drv_write_buffer = 256.
Proof. reflexivity. Qed.

Lemma s_drv_pending h n : let t := fst (tx_run tx0 h) in
  snd (tx_run t (repeat Pull n)) = firstn n (pending t) /\
  pending (fst (tx_run t (repeat Pull n))) = skipn n (pending t) /\
  (pending t = [] <-> pull t = (PNone, t)).
Proof.
  intros t. pose proof (tx_ok_reach h) as Hok. fold t in Hok. destruct (pulls_future n t Hok) as [H1 H2].
  split; [exact H1|]. split; [exact H2|]. split.
  - apply future_nil_pull. exact Hok.
  - intros Hp. pose proof (pull_future t Hok) as Hf. unfold pending. fold (future t).
    destruct (future t) as [|c f]; [reflexivity|]. destruct Hf as (t' & E & _). rewrite E in Hp. discriminate.
Qed.

Lemma s_drv_chunk h : let t := fst (tx_run tx0 h) in
  exists t' o r, drv_write_chunk t = (t', o, r) /\
    o = firstn 256 (pending t) /\ pending t' = skipn 256 (pending t) /\
    tx_run t (repeat Pull (length o)) = (t', o) /\ (length o <= 256)%nat /\
    ((r = DMore /\ length o = 256%nat /\ (256 <= length (pending t))%nat) \/
     (r = DEnd /\ (length o < 256)%nat /\ o = pending t /\ pull t' = (PNone, t'))).
Proof.
  intros t. pose proof (tx_ok_reach h) as Hok. fold t in Hok. unfold drv_write_chunk.
  destruct (drv_loop_future DRV_BUF t Hok) as (t' & E & Hf & Hok').
  change DRV_BUF with 256%nat in *. unfold pending. fold (future t). fold (future t').
  eexists t', _, _. split; [exact E|]. split; [reflexivity|]. split; [exact Hf|].
  destruct (length (future t) <? 256)%nat eqn:Elt.
  - apply Nat.ltb_lt in Elt. destruct (drv_loop_run _ _ _ _ _ E) as (I1 & I2 & _ & I4); [discriminate|].
    split; [exact I1|]. split; [exact I2|]. right. destruct (I4 eq_refl) as [P1 P2].
    split; [reflexivity|]. split; [exact P2|]. split; [apply firstn_all2; lia|exact P1].
  - apply Nat.ltb_ge in Elt. destruct (drv_loop_run _ _ _ _ _ E) as (I1 & I2 & I3 & _); [discriminate|].
    split; [exact I1|]. split; [exact I2|]. left. split; [reflexivity|]. split; [exact (I3 eq_refl)|exact Elt].
Qed.

Lemma s_drv_drain h fuel : let t := fst (tx_run tx0 h) in
  (length (pending t) < fuel * 256)%nat ->
  exists t' calls, drain fuel t = (t', calls) /\
    written calls = pending t /\
    (forall n, (length (pending t) <= n)%nat -> written calls = snd (tx_run t (repeat Pull n))) /\
    Forall (fun c => (length (fst c) <= 256)%nat) calls /\
    map snd calls = repeat DMore (length calls - 1) ++ [DEnd] /\
    Forall (fun c => snd c = DMore -> length (fst c) = 256%nat) calls /\
    length calls = (length (pending t) / 256 + 1)%nat /\
    pending t' = [] /\ pull t' = (PNone, t').
Proof.
  intros t Hlen. pose proof (tx_ok_reach h) as Hok. fold t in Hok.
  destruct (drain_future fuel t Hok) as (t' & calls & E & Hw & Hle & Hfl & Hex & Hn & Hfin & Hok');
    [change DRV_BUF with 256%nat; exact Hlen|].
  change DRV_BUF with 256%nat in *. exists t', calls. unfold pending. fold (future t). fold (future t').
  split; [exact E|]. split; [exact Hw|]. split.
  { intros n Hn'. destruct (pulls_future n t Hok) as [H1 _]. rewrite H1, Hw. symmetry. apply firstn_all2. exact Hn'. }
  split; [exact Hle|]. split; [exact Hfl|]. split; [exact Hex|]. split; [exact Hn|]. split; [exact Hfin|].
  apply future_nil_pull; assumption.
Qed.

Lemma sends_silent sd : forall t, snd (tx_run t (map send_of sd)) = [].
Proof.
  induction sd as [|x sd IH]; intros t; [reflexivity|]. cbn [map tx_run]. unfold send_of at 1. cbn [tx_step].
  specialize (IH (match sendmsg t (fst x) (snd x) with Some t' => t' | None => t end)).
  destruct (tx_run _ (map send_of sd)) as [t2 o2]. cbn [snd] in *. rewrite IH. reflexivity.
Qed.

Lemma batch_pending sd : Forall (fun x => 0 <= fst x < 129) sd ->
  pending (fst (tx_run tx0 (map send_of sd))) = concat (map frame' (sorted_by_dlci sd)).
Proof.
  intros Hv. set (t := fst (tx_run tx0 (map send_of sd))). set (F := concat (map frame' (sorted_by_dlci sd))).
  set (n := Nat.max (length F) (length (pending t))).
  assert (Hn : (length F <= n)%nat) by (unfold n; lia).
  pose proof (s_batch_order sd n Hv Hn) as Hb. fold F in Hb. rewrite tx_run_app in Hb.
  pose proof (sends_silent sd tx0) as Hs. pose proof (tx_ok_reach (map send_of sd)) as Hok. fold t in Hok.
  destruct (pulls_future n t Hok) as [H1 _]. unfold t in H1.
  destruct (tx_run tx0 (map send_of sd)) as [t1 o1]. cbn [fst snd] in *. rewrite Hs in Hb.
  destruct (tx_run t1 (repeat Pull n)) as [t2 o2]. cbn [fst snd app] in *. rewrite H1 in Hb.
  rewrite <- Hb. unfold pending. fold (future t1). symmetry. apply firstn_all2.
  unfold n, t, pending. fold (future t1). lia.
Qed.

(* every queued message is delivered intact through the driver glue *)
Lemma s_drv_end_to_end_batch cap sd fuel : 0 < cap ->
  Forall (fun x => 0 <= fst x < 129 /\ escape_free (fst x) /\ len (snd x) < cap) sd ->
  (length (concat (map frame' (sorted_by_dlci sd))) < fuel * 256)%nat ->
  exists t' calls, drain fuel (fst (tx_run tx0 (map send_of sd))) = (t', calls) /\
    written calls = concat (map frame' (sorted_by_dlci sd)) /\
    snd (rx_run cap rx0 (written calls)) = map rmsg (sorted_by_dlci sd) /\
    Forall (fun c => (length (fst c) <= 256)%nat) calls /\
    map snd calls = repeat DMore (length calls - 1) ++ [DEnd] /\
    length calls = (length (concat (map frame' (sorted_by_dlci sd))) / 256 + 1)%nat /\
    pull t' = (PNone, t').
Proof.
  intros Hc Hv Hlen.
  assert (Hv1 : Forall (fun x => 0 <= fst x < 129) sd) by (eapply Forall_impl; [|exact Hv]; intros x (H1 & _); exact H1).
  pose proof (batch_pending sd Hv1) as Hp.
  destruct (s_drv_drain (map send_of sd) fuel) as (t' & calls & E & Hw & _ & Hle & Hfl & _ & Hn & _ & Hpn);
    [rewrite Hp; exact Hlen|].
  exists t', calls. rewrite Hp in Hw, Hn. split; [exact E|]. split; [exact Hw|]. split.
  { rewrite Hw. pose proof (s_end_to_end_batch cap sd _ Hc Hv (le_n _)) as He.
    rewrite (s_batch_order sd _ Hv1 (le_n _)) in He. exact He. }
  split; [exact Hle|]. split; [exact Hfl|]. split; [exact Hn|exact Hpn].
Qed.

(* non-vacuity: one 400-octet message = a pending run of 404 framed octets, more than one buffer *)
Example s_drv_example :
  let t := fst (tx_run tx0 [Send 5 (repeat 65 400)]) in
  length (pending t) = 404%nat /\
  (let '(_, calls) := drain 2 t in
   map (fun c => (length (fst c), snd c)) calls = [(256%nat, DMore); (148%nat, DEnd)] /\
   written calls = frame 5 (repeat 65 400) /\
   snd (rx_run 2048 rx0 (written calls)) = [RMsg 5 (repeat 65 400)]) /\
  (* two messages back to back on different DLCIs, 258 + 5 framed octets: the 257th octet is the first of the second call *)
  (let '(_, calls) := drain 2 (fst (tx_run tx0 [Send 9 [1]; Send 4 (repeat 66 254)])) in
   map (fun c => (length (fst c), snd c)) calls = [(256%nat, DMore); (7%nat, DEnd)] /\
   snd (rx_run 2048 rx0 (written calls)) = [RMsg 4 (repeat 66 254); RMsg 9 [1]]).
Proof. vm_compute. repeat split. Qed.
