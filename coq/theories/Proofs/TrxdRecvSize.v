(* the receive size of DATAInterface.recv_raw_data (probed through a socket on every run, Gen.FakeTrxConst.data_recv_size) holds the
   longest valid L1 -> TRX datagram, so the socket layer never cuts what the encoder / trxcon emits (C04) *)
From Coq Require Import ZArith List Bool Lia.
From OBB Require Import Gen.TrxdConst Gen.FakeTrxConst Model.Trxd Proofs.TrxdBase Proofs.TrxdTx.
Import ListNotations.
Open Scope Z_scope.

Lemma gen_tx_fits m l b : gen_tx l m = Ok b -> Z.of_nat (length b) <= 452 /\ 452 <= data_recv_size.
Proof.
  intros H. split; [|unfold data_recv_size; lia].
  destruct (gen_tx_len _ _ _ H) as [bu [Eb El]].
  assert (Hv : validate_tx m = Ok tt) by (apply (gen_tx_iff m l); exists b; exact H).
  apply validate_tx_iff in Hv. destruct Hv as [_ [_ [bu' [Eb' Hl]]]]. rewrite Eb in Eb'. injection Eb' as <-.
  rewrite El. destruct (l && (t_ver m =? 0)); destruct Hl as [-> | ->]; lia.
Qed.

Lemma firstn_recv_id m l b : gen_tx l m = Ok b -> firstn (Z.to_nat data_recv_size) b = b.
Proof.
  intros H. destruct (gen_tx_fits _ _ _ H) as [H1 H2]. apply firstn_all2. lia.
Qed.
