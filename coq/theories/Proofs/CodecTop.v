(* C16: the statements of Props/C16.v that combine several lemmas, and the refuted strengthening. *)
From Coq Require Import ZArith List Bool Lia.
From OBB Require Import Base.Bits Model.Codec Proofs.CodecInt Proofs.CodecBits Proofs.CodecRT Proofs.CodecDE Proofs.CodecErr Proofs.CodecCanon Proofs.CodecEx.
Import ListNotations.
Open Scope Z_scope.

Lemma int_decode_encode le sg b : bytes_ok b -> (1 <= length b)%nat ->
  enc_int (length b) le sg (dec_int le sg b) = Ok b /\ int_range (length b) sg (dec_int le sg b).
Proof. intros Hb Hn. split; [apply dec_enc_int|apply dec_int_range]; assumption. Qed.

Lemma enc_dec_exact fs v u b : wf_values fs v v u -> encode fs v = Ok b -> decode true fs b = Ok (v, length b).
Proof. intros H E. exact (proj1 (enc_dec_top fs v v u b true H E)). Qed.

Lemma results_closed chk fs data e : dec_result_ok fs (decode chk fs data) /\ enc_result_ok fs (encode fs e).
Proof. split; [apply decode_closed|apply encode_closed]. Qed.

Lemma terminates chk fs data e : encode fs e <> OutOfFuel /\ (seq_ok fs = true -> decode chk fs data <> OutOfFuel).
Proof. split; [apply encode_terminates|apply decode_terminates]. Qed.

Lemma unencodable_int fs e nm n p le sg off mult z :
  proto_ok fs = true -> In (FUint nm (LFix n) p le sg off mult) fs -> (1 <= n)%nat -> get_pres p e = Ok true ->
  lookup nm e = Some (VInt z) -> mult <> 0 -> ~ int_range n sg ((z - off) / mult) -> exists c, encode fs e = EncodeErr c.
Proof. intros Hpo Hin Hn Hp Hl Hm Hr. exact (unencodable fs _ e Hpo Hin (enc_fails_uint nm n p le sg off mult e z Hn Hp Hl Hm Hr)). Qed.

Lemma wrong_length_buffer fs e nm n p b :
  proto_ok fs = true -> In (FBuf nm (LFix (S n)) p) fs -> get_pres p e = Ok true ->
  lookup nm e = Some (VBytes b) -> length b <> S n -> exists c, encode fs e = EncodeErr c.
Proof. intros Hpo Hin Hp Hl Hn. exact (unencodable fs _ e Hpo Hin (enc_fails_buf nm n p e b Hp Hl Hn)). Qed.

Lemma missing_value fs e nm l p le sg off mult :
  proto_ok fs = true -> In (FUint nm l p le sg off mult) fs -> get_pres p e = Ok true -> lookup nm e = None ->
  exists c, encode fs e = EncodeErr c.
Proof. intros Hpo Hin Hp Hl. exact (unencodable fs _ e Hpo Hin (enc_fails_missing_uint nm l p le sg off mult e Hp Hl)). Qed.

Lemma example_all :
  wfb ex_def = true /\ proto_ok ex_def = true /\ seq_ok ex_def = true /\ wf_values ex_def ex_val ex_val 17 /\
  encode ex_def ex_in = Ok ex_bytes /\ encode ex_def ex_val = Ok ex_bytes /\ decode true ex_def ex_bytes = Ok (ex_val, 17%nat).
Proof.
  destruct ex_static as [H1 [H2 H3]]. destruct ex_encode as [H4 H5].
  split; [exact H1|]. split; [exact H2|]. split; [exact H3|]. split; [exact ex_fits|]. split; [exact H4|]. split; [exact H5|exact ex_decode].
Qed.

(* REFUTED strengthening (recorded finding c16-varlen-buf-length-not-enforced): "a buffer whose length disagrees with the
   length its field declares is rejected with EncodeError" holds for fixed-length fields only (wrong_length_buffer).
   Field.to_bytes checks `self.len > 0 and len(data) != self.len`; a length that comes from a get_len callback
   (the BurstBits pattern) is not consulted when encoding.  Witness: m = 1 selects 3 octets, a 2-octet buffer encodes
   without error, and the encoding does not decode. *)
Definition vl_def : list field :=
  [FUint 0 (LFix 1) PAlways false false 0 1; FBuf 1 (LTab 0 [(0, 2%nat); (1, 3%nat)]) PAlways].
Definition vl_val : env := [(0%nat, VInt 1); (1%nat, VBytes [1; 2])].
Lemma varlen_buf_unchecked_refuted :
  wfb vl_def = true /\ get_len (LTab 0 [(0, 2%nat); (1, 3%nat)]) vl_val 0 = Ok 3%nat /\
  encode vl_def vl_val = Ok [1; 1; 2] /\ decode true vl_def [1; 1; 2] = DecodeErr 0 /\
  ~ (forall fs e nm l p b n, wfb fs = true -> In (FBuf nm l p) fs -> get_pres p e = Ok true -> lookup nm e = Some (VBytes b) ->
       get_len l e 0 = Ok n -> length b <> n -> exists c, encode fs e = EncodeErr c).
Proof.
  split; [vm_compute; reflexivity|]. split; [vm_compute; reflexivity|]. split; [vm_compute; reflexivity|]. split; [vm_compute; reflexivity|].
  intros H. destruct (H vl_def vl_val 1%nat (LTab 0 [(0, 2%nat); (1, 3%nat)]) PAlways [1; 2] 3%nat) as [c Hc];
    try reflexivity; [right; left; reflexivity|cbn; lia|]. vm_compute in Hc. discriminate.
Qed.

(* ---------------------------------------------------------------- fixed values, any position *)
Lemma bits_fit_fixed fs e cv : bits_fit fs e cv -> forall k bl c, In (BitF (Some k) bl (Some c)) fs -> In (k, VInt c) cv.
Proof.
  induction 1 as [e|bl0 fx r e cv Hr IH|k0 bl0 z r e cv Hl Hr IH|k0 bl0 c0 r e cv Hc Hr IH]; intros k bl c Hin.
  - destruct Hin.
  - destruct Hin as [E|Hin]; [discriminate|eauto].
  - destruct Hin as [E|Hin]; [discriminate|right; eauto].
  - destruct Hin as [E|Hin]; [injection E as -> -> ->; left; reflexivity|right; eauto].
Qed.

Lemma fits_fixed fs e e0 R cv u : fits fs e e0 R cv u ->
  forall l p lsb bfs k bl c, In (FBits l p lsb bfs) fs -> get_pres p e = Ok true -> In (BitF (Some k) bl (Some c)) bfs ->
  In (k, VInt c) cv.
Proof.
  induction 1 using fits_min with (P0 := fun _ _ _ _ => True); try (intros; exact I); intros l' p' lsb' bfs' k' bl' c' Hin Hp' Hbf.
  - destruct Hin.
  - destruct Hin as [->|Hin]; [cbn [fpres] in *; congruence|eauto].
  - destruct Hin as [E|Hin]; [discriminate|right; eauto].
  - destruct Hin as [E|Hin]; [discriminate|right; eauto].
  - destruct Hin as [E|Hin]; [discriminate|eauto].
  - destruct Hin as [E|Hin]; [|apply in_or_app; right; eauto].
    injection E as -> -> -> ->. apply in_or_app. left. eapply bits_fit_fixed; [eassumption|].
    destruct lsb'; cbn [bits_order]; [apply -> in_rev|]; exact Hbf.
  - destruct Hin as [E|Hin]; [discriminate|right; eauto].
  - destruct Hin as [E|Hin]; [discriminate|right; eauto].
Qed.

(* whenever a well-formed definition decodes, every present fixed-value bit-field of its top level - in whatever
   position - holds its fixed value: a mismatch can never be accepted *)
Lemma fixed_values_hold chk fs data v n l p lsb bfs k bl c :
  wfb fs = true -> bytes_ok data -> decode chk fs data = Ok (v, n) ->
  In (FBits l p lsb bfs) fs -> get_pres p v = Ok true -> In (BitF (Some k) bl (Some c)) bfs -> lookup k v = Some (VInt c).
Proof.
  intros Hwf Hb Hdec Hin Hp Hbf. destruct (dec_enc_top chk fs data v n Hwf Hb Hdec) as [_ [Hfit [Hnd _]]].
  apply lookup_in_nodup; [exact Hnd|]. exact (fits_fixed _ _ _ _ _ _ Hfit _ _ _ _ _ _ _ Hin Hp Hbf).
Qed.
