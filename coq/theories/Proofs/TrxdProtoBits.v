(* C17: the header and MTS bit-field sets of the TRXD PDUs - packed value as arithmetic, by finite sweeps over the
   field values - and the integer leaves as explicit octets. *)
From Coq Require Import ZArith List Bool Lia ZifyBool.
From OBB Require Import Base.Range Base.Bits Model.Codec Proofs.CodecInt Proofs.CodecBits Proofs.CodecRT Proofs.CodecDE Proofs.CodecGood Proofs.TrxdProtoSpec.
Import ListNotations.
Open Scope Z_scope.
Ltac Zify.zify_post_hook ::= Z.to_euclidean_division_equations.

(* enc_bits looks at the dict only through the named, non-fixed fields *)
Lemma enc_bits_ext lay e e' :
  (forall k bl o m, In (BitF (Some k) bl None, o, m) lay -> lookup k e = lookup k e') ->
  forall blob, enc_bits lay e blob = enc_bits lay e' blob.
Proof.
  induction lay as [|[[[nm bl fx] o] m] r IH]; intros H blob; [reflexivity|]. cbn [enc_bits].
  assert (Hv : bf_val (BitF nm bl fx) e = bf_val (BitF nm bl fx) e').
  { destruct nm as [k|]; [|reflexivity]. destruct fx as [c|]; [reflexivity|]. cbn [bf_val]. rewrite (H k bl o m (or_introl eq_refl)). reflexivity. }
  rewrite Hv. destruct (bf_val (BitF nm bl fx) e'); cbn [bind]; try reflexivity.
  apply IH. intros k' bl' o' m' Hin. apply (H k' bl' o' m'). right. exact Hin.
Qed.

Definition ok_is (r:res Z) (x:Z) : bool := match r with Ok y => y =? x | _ => false end.
Lemma ok_is_eq r x : ok_is r x = true -> r = Ok x.
Proof. destruct r; cbn [ok_is]; try discriminate. intros H. apply Z.eqb_eq in H. congruence. Qed.

(* ---- VER(4) RFU(1) TN(3) *)
Lemma hdr01_sweep : forallb (fun v => forallb (fun tn =>
    ok_is (enc_bits (bits_layout (LFix 1) false (hdr01_bits v)) [(1%nat, VInt tn)] 0) (v * 16 + tn)) (range 0 8)) (range 0 16) = true.
Proof. vm_compute. reflexivity. Qed.
Lemma hdr01_blob v tn e : 0 <= v < 16 -> 0 <= tn < 8 -> lookup 1 e = Some (VInt tn) ->
  enc_bits (bits_layout (LFix 1) false (hdr01_bits v)) e 0 = Ok (v * 16 + tn).
Proof.
  intros Hv Ht Hl. rewrite (enc_bits_ext _ e [(1%nat, VInt tn)]).
  - apply ok_is_eq. exact (forallb_range _ _ _ (forallb_range _ _ _ hdr01_sweep v Hv) tn Ht).
  - intros k bl o m Hin. cbn in Hin. destruct Hin as [E|[E|[E|[]]]]; try discriminate. injection E as <- _ _ _. rewrite Hl. reflexivity.
Qed.

(* ---- NOPE(1) MOD(4) TSC(3) *)
Lemma mts_sweep : forallb (fun np => forallb (fun md => forallb (fun tc =>
    ok_is (enc_bits (bits_layout (LFix 1) false mts_bits) [(9%nat, VInt np); (10%nat, VInt md); (11%nat, VInt tc)] 0) (np * 128 + md * 8 + tc))
    (range 0 8)) (range 0 16)) (range 0 2) = true.
Proof. vm_compute. reflexivity. Qed.
Lemma mts_blob np md tc e : 0 <= np < 2 -> 0 <= md < 16 -> 0 <= tc < 8 ->
  lookup 9 e = Some (VInt np) -> lookup 10 e = Some (VInt md) -> lookup 11 e = Some (VInt tc) ->
  enc_bits (bits_layout (LFix 1) false mts_bits) e 0 = Ok (np * 128 + md * 8 + tc).
Proof.
  intros Hn Hm Ht L9 L10 L11. rewrite (enc_bits_ext _ e [(9%nat, VInt np); (10%nat, VInt md); (11%nat, VInt tc)]).
  - apply ok_is_eq. exact (forallb_range _ _ _ (forallb_range _ _ _ (forallb_range _ _ _ mts_sweep np Hn) md Hm) tc Ht).
  - intros k bl o m Hin. cbn in Hin. destruct Hin as [E|[E|[E|[]]]]; injection E as <- _ _ _; [rewrite L9|rewrite L10|rewrite L11]; reflexivity.
Qed.

(* ---- VER=2(4) RFU(1) TN(3) | BATCH(1) RFU(1) TRXN(6) *)
Lemma hdr2_sweep : forallb (fun tn => forallb (fun ba => forallb (fun tr =>
    ok_is (enc_bits (bits_layout (LFix 2) false hdr2_bits) [(1%nat, VInt tn); (13%nat, VInt ba); (15%nat, VInt tr)] 0)
          ((32 + tn) * 256 + (ba * 128 + tr)))
    (range 0 64)) (range 0 2)) (range 0 8) = true.
Proof. vm_compute. reflexivity. Qed.
Lemma hdr2_blob tn ba tr e : 0 <= tn < 8 -> 0 <= ba < 2 -> 0 <= tr < 64 ->
  lookup 1 e = Some (VInt tn) -> lookup 13 e = Some (VInt ba) -> lookup 15 e = Some (VInt tr) ->
  enc_bits (bits_layout (LFix 2) false hdr2_bits) e 0 = Ok ((32 + tn) * 256 + (ba * 128 + tr)).
Proof.
  intros Ht Hb Hr L1 L13 L15. rewrite (enc_bits_ext _ e [(1%nat, VInt tn); (13%nat, VInt ba); (15%nat, VInt tr)]).
  - apply ok_is_eq. exact (forallb_range _ _ _ (forallb_range _ _ _ (forallb_range _ _ _ hdr2_sweep tn Ht) ba Hb) tr Hr).
  - intros k bl o m Hin. cbn in Hin. destruct Hin as [E|[E|[E|[E|[E|[E|[]]]]]]]; try discriminate; injection E as <- _ _ _;
      [rewrite L1|rewrite L13|rewrite L15]; reflexivity.
Qed.

(* ---- RFU(5) TN(3) | BATCH(1) SHADOW(1) TRXN(6) *)
Lemma hdr2b_sweep : forallb (fun tn => forallb (fun ba => forallb (fun sh => forallb (fun tr =>
    ok_is (enc_bits (bits_layout (LFix 2) false hdr2b_bits) [(1%nat, VInt tn); (13%nat, VInt ba); (14%nat, VInt sh); (15%nat, VInt tr)] 0)
          (tn * 256 + (ba * 128 + sh * 64 + tr)))
    (range 0 64)) (range 0 2)) (range 0 2)) (range 0 8) = true.
Proof. vm_compute. reflexivity. Qed.
Lemma hdr2b_blob tn ba sh tr e : 0 <= tn < 8 -> 0 <= ba < 2 -> 0 <= sh < 2 -> 0 <= tr < 64 ->
  lookup 1 e = Some (VInt tn) -> lookup 13 e = Some (VInt ba) -> lookup 14 e = Some (VInt sh) -> lookup 15 e = Some (VInt tr) ->
  enc_bits (bits_layout (LFix 2) false hdr2b_bits) e 0 = Ok (tn * 256 + (ba * 128 + sh * 64 + tr)).
Proof.
  intros Ht Hb Hs Hr L1 L13 L14 L15. rewrite (enc_bits_ext _ e [(1%nat, VInt tn); (13%nat, VInt ba); (14%nat, VInt sh); (15%nat, VInt tr)]).
  - apply ok_is_eq. exact (forallb_range _ _ _ (forallb_range _ _ _ (forallb_range _ _ _ (forallb_range _ _ _ hdr2b_sweep tn Ht) ba Hb) sh Hs) tr Hr).
  - intros k bl o m Hin. cbn in Hin. destruct Hin as [E|[E|[E|[E|[E|[E|[]]]]]]]; try discriminate; injection E as <- _ _ _;
      [rewrite L1|rewrite L13|rewrite L14|rewrite L15]; reflexivity.
Qed.

(* ---------------------------------------------------------------- octets of the leaves *)
Lemma to_be1 x : 0 <= x < 256 -> to_be 1 x = [x].
Proof. intros H. cbn [to_be app]. rewrite Z.mod_small by lia. reflexivity. Qed.
Lemma to_be2 x : to_be 2 x = [x / 256 mod 256; x mod 256].
Proof. reflexivity. Qed.
Lemma enc_u8 x : 0 <= x < 256 -> enc_int 1 false false x = Ok [x].
Proof. intros H. rewrite (enc_int_ok 1 false false x) by (unfold int_range; cbn; lia). cbv zeta. change (256 ^ Z.of_nat 1) with 256. rewrite Z.mod_small by lia. rewrite to_be1 by lia. reflexivity. Qed.
Lemma enc_i8 x : -128 <= x < 128 -> enc_int 1 false true x = Ok [x mod 256].
Proof. intros H. rewrite (enc_int_ok 1 false true x) by (unfold int_range; cbn; lia). cbv zeta. change (256 ^ Z.of_nat 1) with 256. rewrite to_be1 by (apply Z.mod_pos_bound; lia). reflexivity. Qed.
Lemma enc_i16 x : -32768 <= x < 32768 -> enc_int 2 false true x = Ok [x mod 65536 / 256; x mod 65536 mod 256].
Proof.
  intros H. rewrite (enc_int_ok 2 false true x) by (unfold int_range; cbn; lia). cbv zeta. change (256 ^ Z.of_nat 2) with 65536. rewrite to_be2.
  pose proof (Z.mod_pos_bound x 65536 ltac:(lia)) as Hb. set (y := x mod 65536) in *. clearbody y.
  assert (Hq : 0 <= y / 256 < 256) by (split; [apply Z.div_pos; lia|apply Z.div_lt_upper_bound; lia]).
  rewrite (Z.mod_small (y / 256) 256 Hq). reflexivity.
Qed.
Lemma enc_u32 x : 0 <= x < 4294967296 -> enc_int 4 false false x = Ok [x / 16777216 mod 256; x / 65536 mod 256; x / 256 mod 256; x mod 256].
Proof.
  intros H. rewrite (enc_int_ok 4 false false x) by (unfold int_range; cbn; lia). cbv zeta. change (256 ^ Z.of_nat 4) with 4294967296.
  rewrite Z.mod_small by lia. cbn [to_be app]. rewrite !Z.div_div by lia. reflexivity.
Qed.
