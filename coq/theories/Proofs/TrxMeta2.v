(* C10: content of a forwarded burst: bits, version/padding, modulation, training sequence *)
From Coq Require Import ZArith List Bool Lia ZifyBool.
From OBB Require Import Base.Range Base.Dec Gen.TrxdConst Gen.FakeTrxConst Gen.TscTab Model.Trxd Model.Trx
  Proofs.TrxdBase Proofs.TrxdTx Proofs.TrxdRx Proofs.TrxdRxRT Proofs.TrxDrop Proofs.TrxMeta.
Import ListNotations.
Open Scope Z_scope.
Ltac Zify.zify_post_hook ::= Z.to_euclidean_division_equations.

Lemma gen_loss : path_loss_default = 110 /\ nominal_tx_power_default = 50 /\ tx_att_default = 0 /\ toa256_base_default = 0 /\ ci_base_default = 90.
Proof. repeat split; reflexivity. Qed.

(* every transmitted bit arrives as a full-confidence soft bit of the matching sign: 0 -> +127, non-zero -> -127 *)
Lemma hard_to_soft bits : Forall (fun b => 0 <= b < 256) bits -> map u2s bits = map (fun b => if b =? 0 then 127 else -127) bits.
Proof. induction 1 as [|b l Hb _ IH]; cbn [map]; [reflexivity|]. rewrite IH, u2s_f by exact Hb. reflexivity. Qed.

Lemma soft_full_confidence bits : Forall (fun b => 0 <= b < 256) bits -> Forall (fun s => s = 127 \/ s = -127) (map u2s bits).
Proof. intros H. rewrite hard_to_soft by exact H. apply Forall_forall. intros s Hs. apply in_map_iff in Hs as [b [<- _]]. destruct (b =? 0); auto. Qed.

(* the message handed to send_msg keeps frame number, timeslot, carries the recipient's version; nothing else about the sender's
   message is used *)
Lemma meta_msg_fields ver sm bits rssi toa ci :
  let m := meta_msg ver sm bits rssi toa ci in
  r_ver m = ver /\ r_fn m = t_fn sm /\ r_tn m = t_tn sm /\ r_burst m = Some (map u2s bits) /\ r_nope m = false
  /\ r_rssi m = Some rssi /\ r_toa m = Some toa
  /\ (ver >=? 1 = true -> r_ci m = Some ci /\ r_mod m = pick_by_bl (Z.of_nat (length bits))
       /\ (r_mod m = Some GMSK_IDX -> r_tsc m = Some (fst (tsc_of bits)) /\ r_tset m = Some (snd (tsc_of bits)))
       /\ (r_mod m <> Some GMSK_IDX -> r_tsc m = Some 0 /\ r_tset m = Some 0)).
Proof.
  unfold meta_msg. destruct (ver >=? 1) eqn:Ev.
  - destruct (pick_by_bl (Z.of_nat (length bits))) as [[|k]|] eqn:Ep.
    + destruct (tsc_of bits) as [c s] eqn:Et. cbn.
      split; [reflexivity|]. split; [reflexivity|]. split; [reflexivity|]. split; [reflexivity|]. split; [reflexivity|]. split; [reflexivity|]. split; [reflexivity|].
      intros _. split; [reflexivity|]. split; [reflexivity|]. split; [intros _; split; reflexivity|]. intros Hne. exfalso. apply Hne. reflexivity.
    + cbn. split; [reflexivity|]. split; [reflexivity|]. split; [reflexivity|]. split; [reflexivity|]. split; [reflexivity|]. split; [reflexivity|]. split; [reflexivity|].
      intros _. split; [reflexivity|]. split; [reflexivity|]. split; [discriminate|]. intros _. split; reflexivity.
    + cbn. split; [reflexivity|]. split; [reflexivity|]. split; [reflexivity|]. split; [reflexivity|]. split; [reflexivity|]. split; [reflexivity|]. split; [reflexivity|].
      intros _. split; [reflexivity|]. split; [reflexivity|]. split; [discriminate|]. intros _. split; reflexivity.
  - cbn. split; [reflexivity|]. split; [reflexivity|]. split; [reflexivity|]. split; [reflexivity|]. split; [reflexivity|]. split; [reflexivity|]. split; [reflexivity|]. discriminate.
Qed.

(* modulation follows the burst length: 148 -> GMSK, 444 -> 8-PSK *)
Lemma mod_by_len : pick_by_bl 148 = Some 0%nat /\ pick_by_bl 444 = Some 1%nat /\ pick_by_bl 296 = Some 5%nat /\ pick_by_bl 592 = Some 3%nat /\ pick_by_bl 740 = Some 4%nat.
Proof. repeat split; reflexivity. Qed.

(* what reaches the recipient's DATA socket: the recipient's header version; on version 0 the two legacy padding octets *)
Lemma sent_octets l m b : gen_rx l m = Ok b -> (match r_burst m with Some bs => Forall (fun s => -128 <= s <= 127) bs | None => True end) ->
  exists fn tn rssi toa, r_fn m = Some fn /\ r_tn m = Some tn /\ r_rssi m = Some rssi /\ r_toa m = Some toa /\
    b = layout_rx_hdr (r_ver m) fn tn rssi toa
        ++ (if r_ver m =? 1 then [gen_mts m] ++ layout_ci (oz (r_ci m)) else [])
        ++ (match r_burst m with Some bs => usbits bs | None => [] end)
        ++ (if l && (r_ver m =? 0) then [0; 0] else []).
Proof. exact (gen_rx_layout m l b). Qed.

(* the training sequence table as regenerated, against 3GPP TS 45.002 (5.2.7-3/-4, 5.2.5-3, 5.2.3a set 1), typed in by hand *)
Definition bitstr (s : list Z) : list Z := s.
Definition spec_tsc_tab : list (Z * Z * Z * list Z) :=
  [(0,1,0,[0;1;0;0;1;0;1;1;0;1;1;1;1;1;1;1;1;0;0;1;1;0;0;1;1;0;1;0;1;0;1;0;0;0;1;1;1;1;0;0;0]);
   (1,1,0,[0;1;0;1;0;1;0;0;1;1;1;1;1;0;0;0;1;0;0;0;0;1;1;0;0;0;1;0;1;1;1;1;0;0;1;0;0;1;1;0;1]);
   (2,1,0,[1;1;1;0;1;1;1;1;0;0;1;0;0;1;1;1;0;1;0;1;0;1;1;0;0;0;0;0;1;1;0;1;1;0;1;1;1;0;1;1;1]);
   (4,1,0,[1;1;0;0;1;0;0;1;1;1;0;0;0;1;0;0;1;1;1;0;0;0;0;0;0;0;0;0;1;1;0;1;0;1;0;1;1;0;0;1;0]);
   (3,1,0,[1;0;0;0;1;0;0;0;1;1;1;0;1;0;1;1;1;0;1;1;0;1;0;0;0;0;0;1;0;0;0;0;1;0;1;1;0;0;0;1;0]);
   (5,1,0,[0;1;0;1;0;0;0;0;1;1;1;1;1;1;1;1;0;1;0;1;1;1;0;1;0;1;1;0;1;1;0;0;1;1;0;0;1;0;1;0;0]);
   (6,1,0,[0;1;0;1;1;1;1;0;0;1;1;1;0;1;0;1;1;1;1;0;1;1;0;1;0;0;0;1;0;0;1;1;0;0;0;0;1;0;1;1;1]);
   (7,1,0,[0;1;0;0;0;0;1;0;1;1;0;0;0;0;0;1;1;1;0;1;0;0;1;0;1;0;1;1;1;0;1;1;1;0;0;0;1;0;0;0;0]);
   (0,2,0,[1;0;1;1;1;0;0;1;0;1;1;0;0;0;1;0;0;0;0;0;0;1;0;0;0;0;0;0;1;1;1;1;0;0;1;0;1;1;0;1;0;1;0;0;0;1;0;1;0;1;1;1;0;1;1;0;0;0;0;1;1;0;1;1]);
   (1,2,0,[1;1;1;0;1;1;1;0;0;1;1;0;1;0;1;1;0;0;1;0;1;0;0;0;0;0;1;1;1;1;1;0;1;1;1;1;0;1;0;0;0;1;1;1;1;1;1;0;1;1;0;0;1;0;1;1;0;0;0;1;0;1;0;1]);
   (2,2,0,[1;1;1;0;1;1;0;0;0;0;1;1;0;1;1;1;0;1;0;1;0;0;0;1;0;1;0;1;1;0;1;0;0;1;1;1;1;0;0;0;0;0;0;1;0;0;0;0;0;0;1;0;0;0;1;1;0;1;0;0;1;1;1;0]);
   (3,2,0,[1;0;1;1;1;0;1;0;0;0;1;1;1;1;0;1;1;1;0;1;0;1;1;0;1;1;1;1;0;1;0;0;1;0;0;0;1;0;1;1;0;1;0;0;0;0;0;0;1;0;0;0;1;1;1;0;1;0;0;1;1;0;0;0]);
   (0,0,0,[0;0;1;0;0;1;0;1;1;1;0;0;0;0;1;0;0;0;1;0;0;1;0;1;1;1]);
   (1,0,0,[0;0;1;0;1;1;0;1;1;1;0;1;1;1;1;0;0;0;1;0;1;1;0;1;1;1]);
   (2,0,0,[0;1;0;0;0;0;1;1;1;0;1;1;1;0;1;0;0;1;0;0;0;0;1;1;1;0]);
   (3,0,0,[0;1;0;0;0;1;1;1;1;0;1;1;0;1;0;0;0;1;0;0;0;1;1;1;1;0]);
   (4,0,0,[0;0;0;1;1;0;1;0;1;1;1;0;0;1;0;0;0;0;0;1;1;0;1;0;1;1]);
   (5,0,0,[0;1;0;0;1;1;1;0;1;0;1;1;0;0;0;0;0;1;0;0;1;1;1;0;1;0]);
   (6,0,0,[1;0;1;0;0;1;1;1;1;1;0;1;1;0;0;0;1;0;1;0;0;1;1;1;1;1]);
   (7,0,0,[1;1;1;0;1;1;1;1;0;0;0;1;0;0;1;0;1;1;1;0;1;1;1;1;0;0])].
Lemma tsc_tab_spec : tsc_tab = spec_tsc_tab.
Proof. reflexivity. Qed.

Lemma list_eqb_eq : forall a b, list_eqb a b = true <-> a = b.
Proof.
  induction a as [|x r IH]; intros [|y s]; cbn [list_eqb]; split; try discriminate; try reflexivity.
  - intros H. apply andb_prop in H as [H1 H2]. apply IH in H2. f_equal; [lia|exact H2].
  - intros H. injection H as -> ->. rewrite Z.eqb_refl. apply IH. reflexivity.
Qed.

(* soundness of the detection: the reported TSC / TSC set belong to a training sequence that is really present in the burst,
   at the position of its burst type (normal: bits 61..86, access: 8..48, sync: 42..105) *)
Lemma ts_pick_sound burst c bt s bits : ts_pick burst = Some (c, bt, s, bits) ->
  In (c, bt, s, bits) tsc_tab /\
  ((bt = 0 /\ seg burst 61 26 = bits) \/ (bt = 1 /\ seg burst 8 41 = bits) \/ (bt = 2 /\ seg burst 42 64 = bits)).
Proof.
  intros H. unfold ts_pick in H. apply find_some in H as [Hin Hm]. split; [exact Hin|].
  unfold ts_match in Hm. destruct (bt =? 0) eqn:E0; [left; split; [lia|symmetry; apply list_eqb_eq, Hm]|].
  destruct (bt =? 1) eqn:E1; [right; left; split; [lia|symmetry; apply list_eqb_eq, Hm]|].
  destruct (bt =? 2) eqn:E2; [right; right; split; [lia|symmetry; apply list_eqb_eq, Hm]|discriminate].
Qed.

(* no training sequence present anywhere -> (0, 0) is reported *)
Lemma ts_pick_none burst : ts_pick burst = None -> tsc_of burst = (0, 0).
Proof. intros H. unfold tsc_of. rewrite H. reflexivity. Qed.

(* access bursts as the toolkit's generator builds them (8 tail bits, the 41-bit sequence, 36 data bits, 3 + 60 zero bits):
   the sequence's own TSC is detected whatever the data bits are *)
Definition layout_ab (seq data : list Z) : list Z := repeat 0 8 ++ seq ++ data ++ repeat 0 63.
Lemma seg_ab seq data : length seq = 41%nat -> seg (layout_ab seq data) 8 41 = seq.
Proof.
  intros Hl. unfold seg, layout_ab. cbn [repeat app skipn]. apply firstn_app_exact. symmetry. exact Hl.
Qed.

Definition ab_rows : list (Z * Z * Z * list Z) := filter (fun r => match r with (_, bt, _, _) => bt =? 1 end) spec_tsc_tab.

Lemma ab_detected_chk :
  forallb (fun row => match row with (c, bt, s, bits) =>
     match find (fun r => match r with (_, bt', _, bits') =>
                   if bt' =? 0 then false else if bt' =? 1 then list_eqb bits' bits else false end) (firstn 8 spec_tsc_tab) with
     | Some (c', _, s', _) => (c' =? c) && (s' =? s)
     | None => false end end) ab_rows = true.
Proof. vm_compute. reflexivity. Qed.

Lemma ab_detected c s bits data : In (c, 1, s, bits) spec_tsc_tab -> tsc_of (layout_ab bits data) = (c, s).
Proof.
  intros Hin.
  assert (Hrow : In (c, 1, s, bits) ab_rows) by (unfold ab_rows; apply filter_In; split; [exact Hin|reflexivity]).
  assert (Hl : length bits = 41%nat).
  { unfold ab_rows in Hrow. cbn in Hrow. repeat (destruct Hrow as [Hrow|Hrow]; [injection Hrow as _ _ <-; reflexivity|]). contradiction. }
  unfold tsc_of, ts_pick. rewrite tsc_tab_spec.
  (* the access-burst rows are the first eight of the table, so the search ends among them *)
  change spec_tsc_tab with (firstn 8 spec_tsc_tab ++ skipn 8 spec_tsc_tab).
  assert (Hfind : forall l1 l2 (p q : Z * Z * Z * list Z -> bool) x, (forall r, In r l1 -> p r = q r) -> find q l1 = Some x -> find p (l1 ++ l2) = Some x).
  { induction l1 as [|y r IH]; intros l2 p q x Hpq Hf; cbn [find app] in *; [discriminate|].
    rewrite (Hpq y (or_introl eq_refl)). destruct (q y); [exact Hf|]. apply (IH l2 p q x); [intros z Hz; apply Hpq; right; exact Hz|exact Hf]. }
  pose proof (forallb_In _ _ ab_detected_chk _ Hrow) as Hc. cbv beta iota in Hc.
  destruct (find _ (firstn 8 spec_tsc_tab)) as [[[[c' bt'] s'] bits']|] eqn:Ef; [|discriminate].
  rewrite (Hfind _ _ _ _ _ (fun r => eq_refl) Ef) || idtac.
  erewrite Hfind; [| |exact Ef].
  - apply andb_prop in Hc as [H1 H2]. f_equal; lia.
  - intros [[[c0 bt0] s0] bits0] Hr. unfold ts_match. rewrite (seg_ab bits data Hl).
    assert (Hbt : bt0 = 1) by (cbn in Hr; repeat (destruct Hr as [Hr|Hr]; [injection Hr as _ <- _ _; reflexivity|]); contradiction).
    subst bt0. reflexivity.
Qed.
