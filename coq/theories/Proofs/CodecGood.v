(* C16/C17: symbolic evaluation of concrete definitions.  `good fs e e0 R cv b` packages "the values fit" (so that the
   C16 round-trip theorem applies) with "the encoding is exactly b"; one step lemma per field kind lets a concrete
   definition with symbolic field values be walked field by field. *)
From Coq Require Import ZArith List Bool Lia.
From OBB Require Import Base.Bits Model.Codec Proofs.CodecInt Proofs.CodecBits Proofs.CodecRT Proofs.CodecDE.
Import ListNotations.
Open Scope Z_scope.

Definition good (fs:list field) (e e0:env) (R:nat) (cv:env) (b:list Z) : Prop :=
  fits fs e e0 R cv (length b) /\ forall k, (lsize fs < k)%nat -> enc k fs e = Ok b.
Definition items_good (item:list field) (vs vcs:list val) (b:list Z) : Prop :=
  fits_items item vs vcs (length b) /\ forall k, (lsize item < k)%nat -> enc_items (enc k item) vs = Ok b.

Lemma good_nil e e0 R : good [] e e0 R [] [].
Proof. split; [constructor|]. intros k Hk. destruct k; [lia|reflexivity]. Qed.

Ltac good_fuel k Hk := destruct k as [|k]; [exfalso; clear - Hk; lia|].

Lemma good_cons_enc k f fs e here b : enc_field (enc k) f e = Ok here -> enc k fs e = Ok b -> enc (S k) (f :: fs) e = Ok (here ++ b).
Proof. apply enc_cons_ok. Qed.

Lemma good_absent f fs e e0 R cv b :
  get_pres (fpres f) e = Ok false -> get_pres (fpres f) e0 = Ok false -> good fs e e0 R cv b -> good (f :: fs) e e0 R cv b.
Proof.
  intros Hpe Hp0 [Hf He]. split; [apply fits_absent; assumption|]. intros k Hk. good_fuel k Hk.
  rewrite lsize_cons in Hk. pose proof (fsize_pos f). change b with ([] ++ b). apply good_cons_enc; [|apply He; lia].
  unfold enc_field. rewrite Hpe. reflexivity.
Qed.

Lemma good_uint nm n p le sg off mult z raw bs fs e e0 R cv b :
  get_pres p e = Ok true -> get_pres p e0 = Ok true -> (1 <= n)%nat -> mult <> 0 ->
  lookup nm e = Some (VInt z) -> z = raw * mult + off -> enc_int n le sg raw = Ok bs ->
  good fs e (e0 ++ [(nm, VInt z)]) R cv b ->
  good (FUint nm (LFix n) p le sg off mult :: fs) e e0 R ((nm, VInt z) :: cv) (bs ++ b).
Proof.
  intros Hpe Hp0 Hn Hm Hl -> Hbs [Hf He]. destruct (int_rt _ _ _ _ _ Hn Hbs) as [_ [Hlen _]]. split.
  - rewrite app_length, Hlen. apply fits_uint; try assumption. apply (enc_int_inv _ _ _ _ _ Hn Hbs).
  - intros k Hk. good_fuel k Hk. rewrite lsize_cons in Hk. cbn [fsize] in Hk. apply good_cons_enc; [|apply He; lia].
    apply enc_field_present_ok; [exact Hpe| |right; cbn [fixlen_f flen fixlen]; symmetry; exact Hlen].
    cbn [enc_payload]. rewrite Hl. destruct (Z.eqb_spec mult 0); [contradiction|]. rewrite offmult_rt by exact Hm. exact Hbs.
Qed.

Lemma good_buf nm l p bb fs e e0 R cv b :
  get_pres p e = Ok true -> get_pres p e0 = Ok true -> lookup nm e = Some (VBytes bb) ->
  get_len l e0 (length bb + length b + R) = Ok (length bb) ->
  good fs e (e0 ++ [(nm, VBytes bb)]) R cv b ->
  good (FBuf nm l p :: fs) e e0 R ((nm, VBytes bb) :: cv) (bb ++ b).
Proof.
  intros Hpe Hp0 Hl Hgl [Hf He]. split.
  - rewrite app_length. apply fits_buf; assumption.
  - intros k Hk. good_fuel k Hk. rewrite lsize_cons in Hk. cbn [fsize] in Hk. apply good_cons_enc; [|apply He; lia].
    apply enc_field_present_ok; [exact Hpe|cbn [enc_payload]; rewrite Hl; reflexivity|].
    cbn [fixlen_f flen]. eapply get_len_fixlen, Hgl.
Qed.

Lemma good_spare n filler fs e e0 R cv b :
  good fs e e0 R cv b -> good (FSpare (LFix (S n)) PAlways filler :: fs) e e0 R cv (repeat filler (S n) ++ b).
Proof.
  intros [Hf He]. split.
  - rewrite app_length, repeat_length. apply fits_spare; try reflexivity. exact Hf.
  - intros k Hk. good_fuel k Hk. rewrite lsize_cons in Hk. cbn [fsize] in Hk. apply good_cons_enc; [|apply He; lia].
    apply enc_field_present_ok; [reflexivity|reflexivity|right; cbn [fixlen_f flen fixlen]; rewrite repeat_length; reflexivity].
Qed.

(* a bit-field set whose packed integer has been computed: blob *)
Lemma good_bits l p lsb bfs bcv blob fs e e0 R cv b :
  get_pres p e = Ok true -> get_pres p e0 = Ok true -> bits_wf l bfs -> bits_fit (bits_order lsb bfs) e bcv ->
  enc_bits (bits_layout l lsb bfs) e 0 = Ok blob ->
  good fs e (e0 ++ bcv) R cv b ->
  good (FBits l p lsb bfs :: fs) e e0 R (bcv ++ cv) (to_be (bits_len l bfs) blob ++ b).
Proof.
  intros Hpe Hp0 Hwf Hbf Hblob [Hf He]. destruct (bits_enc l lsb bfs e bcv Hwf Hbf) as [Hb1 [Hb2 _]].
  rewrite Hb1 in Hblob. assert (Eb : blob = packed (bits_order lsb bfs) e (8 * Z.of_nat (bits_len l bfs))) by congruence. subst blob. split.
  - rewrite app_length, to_be_length. apply fits_bits; assumption.
  - intros k Hk. good_fuel k Hk. rewrite lsize_cons in Hk. cbn [fsize] in Hk. apply good_cons_enc; [|apply He; lia].
    apply enc_field_present_ok; [exact Hpe| |right; cbn [fixlen_f]; rewrite to_be_length; reflexivity].
    cbn [enc_payload]. rewrite Hb1. cbn [bind]. exact Hb2.
Qed.

Lemma good_seq nm l p item vs vcs bi fs e e0 R cv b :
  get_pres p e = Ok true -> get_pres p e0 = Ok true -> lookup nm e = Some (VList vs) -> items_good item vs vcs bi ->
  get_len l e0 (length bi + length b + R) = Ok (length bi) ->
  good fs e (e0 ++ [(nm, VList vcs)]) R cv b ->
  good (FSeq nm l p item :: fs) e e0 R ((nm, VList vcs) :: cv) (bi ++ b).
Proof.
  intros Hpe Hp0 Hl [Hfi Hei] Hgl [Hf He]. split.
  - rewrite app_length. eapply fits_seqf; eassumption.
  - intros k Hk. good_fuel k Hk. rewrite lsize_cons in Hk. cbn [fsize] in Hk. fold (lsize item) in Hk.
    apply good_cons_enc; [|apply He; lia].
    apply enc_field_present_ok; [exact Hpe|cbn [enc_payload]; rewrite Hl; apply Hei; lia|].
    cbn [fixlen_f flen]. eapply get_len_fixlen, Hgl.
Qed.

Lemma items_good_nil item : items_good item [] [] [].
Proof. split; [constructor|]. intros; reflexivity. Qed.

Lemma items_good_cons item d dcv b1 vs vcs bs :
  good item d [] (length bs) dcv b1 -> NoDup (keys dcv) -> (1 <= length b1)%nat -> items_good item vs vcs bs ->
  items_good item (VDict d :: vs) (VDict dcv :: vcs) (b1 ++ bs).
Proof.
  intros [Hf He] Hnd Hl [Hfi Hei]. split.
  - rewrite app_length. apply fi_cons; assumption.
  - intros k Hk. cbn [enc_items]. rewrite (He k Hk). cbn [wrapE bind]. rewrite (Hei k Hk). reflexivity.
Qed.

(* bit-field values that are inside their width are stored unchanged *)
Lemma bf_named_r k bl z r e cv : lookup k e = Some (VInt z) -> 0 <= z < 2 ^ Z.of_nat bl ->
  bits_fit r e cv -> bits_fit (BitF (Some k) bl None :: r) e ((k, VInt z) :: cv).
Proof. intros Hl Hz Hr. rewrite <- (Z.mod_small z (2 ^ Z.of_nat bl)) at 1 by exact Hz. constructor; assumption. Qed.

(* at the Envelope API *)
Lemma good_top fs e cv b : good fs e [] 0 cv b -> NoDup (keys cv) -> proto_ok fs = true ->
  encode fs e = Ok b /\ decode true fs b = Ok (cv, length b) /\ decode false fs b = Ok (cv, length b).
Proof.
  intros [Hf He] Hnd Hpo. assert (Henc : encode fs e = Ok b).
  { unfold encode. rewrite Hpo, (He (enc_fuel fs)) by (unfold enc_fuel; lia). reflexivity. }
  split; [exact Henc|]. split; [apply (enc_dec_top fs e cv (length b) b true (conj Hf Hnd) Henc)|apply (enc_dec_top fs e cv (length b) b false (conj Hf Hnd) Henc)].
Qed.
