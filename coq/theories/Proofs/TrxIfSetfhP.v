(* trxcon's SETFH composer (trx_if_cmd_setfh, the consumer of the decoded hopping list; C20, C05): the command carries exactly the
   list it was given, or nothing is queued; the text written to ma_buf never exceeds the room *)
From Coq Require Import ZArith List Bool Lia ZifyBool.
From OBB Require Import Base.Range Gen.TrxIfConst Model.Trxd Model.TrxIf Proofs.TrxdBase Proofs.TrxIfP Proofs.TrxIfCtrlP.
Import ListNotations.
Open Scope Z_scope.

(* one channel of the list, as printed: "<rx kHz> <tx kHz> " *)
Definition setfh_pair (a : Z) : list Z := dec_u (arfcn2freq10 a false * 100) ++ [SP] ++ dec_u (arfcn2freq10 a true * 100) ++ [SP].
Definition setfh_pairs (ma : list Z) : list Z := concat (map setfh_pair ma).
Definition freq_defined (a : Z) : Prop := arfcn2freq10 a false <> 65535 /\ arfcn2freq10 a true <> 65535.

Lemma c_setfh_ma_ok ma : forall room acc txt, c_setfh_ma ma room acc = (0, txt) ->
  txt = acc ++ setfh_pairs ma /\ Forall freq_defined ma /\ Z.of_nat (length (setfh_pairs ma)) <= Z.max room 0.
Proof.
  induction ma as [|a ma IH]; intros room acc txt H; cbn [c_setfh_ma] in H.
  - injection H as <-. unfold setfh_pairs. cbn [map concat length]. rewrite app_nil_r. split; [reflexivity|split; [constructor|lia]].
  - destruct ((arfcn2freq10 a false =? 65535) || (arfcn2freq10 a true =? 65535)) eqn:Eu; [unfold E_INVAL in H; discriminate|].
    fold (setfh_pair a) in H.
    destruct (Z.of_nat (length (setfh_pair a)) >? room) eqn:E; [unfold E_NOSPC in H; discriminate|].
    apply IH in H as [Ht [Hf Hl]]. split; [|split].
    + rewrite Ht. unfold setfh_pairs. cbn [map concat]. rewrite app_assoc. reflexivity.
    + constructor; [|exact Hf]. apply orb_false_iff in Eu as [E1 E2]. split; lia.
    + unfold setfh_pairs in *. cbn [map concat]. rewrite app_length. lia.
Qed.

Lemma c_setfh_ma_refused ma : forall room acc rc txt, c_setfh_ma ma room acc = (rc, txt) -> rc <> 0 ->
  (rc = E_INVAL /\ ~ Forall freq_defined ma) \/ (rc = E_NOSPC /\ room < Z.of_nat (length (setfh_pairs ma))).
Proof.
  induction ma as [|a ma IH]; intros room acc rc txt H Hrc; cbn [c_setfh_ma] in H.
  - injection H as <- _. congruence.
  - destruct ((arfcn2freq10 a false =? 65535) || (arfcn2freq10 a true =? 65535)) eqn:Eu.
    + injection H as <- _. left. split; [reflexivity|]. intros Hf. inversion Hf as [|? ? [H1 H2] _]; subst.
      apply orb_true_iff in Eu as [E|E]; lia.
    + fold (setfh_pair a) in H.
      destruct (Z.of_nat (length (setfh_pair a)) >? room) eqn:E.
      * injection H as <- _. right. split; [reflexivity|]. unfold setfh_pairs. cbn [map concat]. rewrite app_length. lia.
      * apply IH in H; [|exact Hrc]. destruct H as [[-> Hn] | [-> Hl]].
        -- left. split; [reflexivity|]. intros Hf. inversion Hf; subst. contradiction.
        -- right. split; [reflexivity|]. unfold setfh_pairs in *. cbn [map concat]. rewrite app_length. lia.
Qed.

(* the whole command: status 0 means exactly ONE queued command whose arguments are HSN, MAIO and the pairs of EVERY channel of the
   list in order (only the trailing space cut); any other status means nothing was queued *)
Theorem setfh_carries_list hsn maio ma rc q :
  c_phyif_cmd (PSetFreqH1 hsn maio ma) = CmdQ rc q ->
  (rc = 0 -> ma <> [] /\ Forall freq_defined ma /\ Z.of_nat (length (setfh_pairs ma)) <= 999 /\
             q = [(true, c_ctrl_cmd v_SETFH (dec_u (u8 hsn) ++ [SP] ++ dec_u (u8 maio) ++ [SP] ++ removelast (setfh_pairs ma)))]) /\
  (rc <> 0 -> q = [] /\ (ma = [] \/ ~ Forall freq_defined ma \/ 999 < Z.of_nat (length (setfh_pairs ma)))).
Proof.
  intros Hc. cbn [c_phyif_cmd] in Hc. destruct ma as [|a ma].
  - injection Hc as <- <-. split; [unfold E_INVAL; discriminate|]. intros _. split; [reflexivity|left; reflexivity].
  - destruct gen_trxif_consts as [Eb _]. rewrite Eb in Hc.
    destruct (c_setfh_ma (a :: ma) (1024 - 24 - 1) []) as [rc' txt] eqn:Em.
    destruct (rc' =? 0) eqn:E0; cbn [negb] in Hc; injection Hc as <- <-.
    + assert (rc' = 0) by lia. subst rc'. apply c_setfh_ma_ok in Em as [Ht [Hf Hl]]. cbn [app] in Ht. subst txt.
      split; [|intros H; congruence]. intros _. split; [discriminate|]. split; [exact Hf|]. split; [lia|reflexivity].
    + split; [intros H; lia|]. intros Hrc. split; [reflexivity|]. right.
      destruct (c_setfh_ma_refused _ _ _ _ _ Em Hrc) as [[_ H] | [_ H]]; [left; exact H|right; lia].
Qed.

(* 62 channels of the DCS band fit, 63 do not (16 characters per pair, 999 characters of room) *)
Example setfh_dcs_62_63 :
  length (setfh_pairs (map (fun i => 512 + Z.of_nat i) (seq 0 62))) = 992%nat /\
  length (setfh_pairs (map (fun i => 512 + Z.of_nat i) (seq 0 63))) = 1008%nat.
Proof. split; vm_compute; reflexivity. Qed.
