(* C17: every version-0/1 datagram the message codec (Model/Trxd.v: gen_tx / gen_rx, legacy padding on or off) produces is
   accepted by the corresponding PDU definition, with the field values of the message. *)
From Coq Require Import ZArith List Bool Lia ZifyBool.
From OBB Require Model.Trxd Proofs.TrxdBase Proofs.TrxdTx Proofs.TrxdRx Proofs.TrxdRxRT.
From OBB Require Import Gen.TrxdProto Base.Range Base.Bits Model.Codec Proofs.CodecInt Proofs.CodecBits Proofs.CodecRT Proofs.CodecDE
  Proofs.CodecErr Proofs.CodecGood Proofs.TrxdProtoSpec Proofs.TrxdProtoBits Proofs.TrxdProtoMsg Proofs.TrxdProtoTop.
Import ListNotations.
Open Scope Z_scope.
Ltac Zify.zify_post_hook ::= Z.to_euclidean_division_equations.

Definition legacy_pad (legacy:bool) (ver:Z) : list Z := if legacy && (ver =? 0) then [0; 0] else [].

(* ---------------------------------------------------------------- Tx *)
Definition pdu_tx (ver:Z) : list field := if ver =? 0 then pdu_v0_tx else pdu_v1_tx.

(* accepted; the burst field holds the burst FOLLOWED BY the legacy padding (PDUv0Tx has no padding field) *)
Lemma acc_tx legacy m b : Trxd.gen_tx legacy m = Trxd.Ok b ->
  exists fn tn pwr bu, Trxd.t_fn m = Some fn /\ Trxd.t_tn m = Some tn /\ Trxd.t_pwr m = Some pwr /\ Trxd.t_burst m = Some bu /\
    decode true (pdu_tx (Trxd.t_ver m)) b
      = Ok (tx_fields (Trxd.t_ver m) tn fn pwr (bu ++ legacy_pad legacy (Trxd.t_ver m)), length b).
Proof.
  intros Hgen. destruct (TrxdTx.gen_tx_layout _ _ _ Hgen) as [fn [tn [pwr [bu [Ef [Et [Ep [Eb ->]]]]]]]].
  assert (Hv : Trxd.validate_tx m = Trxd.Ok tt) by (apply (proj1 (TrxdTx.gen_tx_iff m legacy)); eauto).
  apply TrxdTx.validate_tx_iff in Hv. destruct Hv as [[Hver [[f' [Ef' Hf]] [t' [Et' Ht]]]] [[p' [Ep' Hp]] _]].
  rewrite Ef in Ef'. rewrite Et in Et'. rewrite Ep in Ep'. injection Ef' as <-. injection Et' as <-. injection Ep' as <-.
  exists fn, tn, pwr, bu. repeat (split; [assumption|]). fold (legacy_pad legacy (Trxd.t_ver m)).
  set (pad := legacy_pad legacy (Trxd.t_ver m)).
  assert (El : TrxdTx.layout_tx (Trxd.t_ver m) fn tn pwr bu ++ pad = tx_layout (Trxd.t_ver m) tn fn pwr (bu ++ pad)).
  { unfold TrxdTx.layout_tx, tx_layout, be32. rewrite <- app_assoc. reflexivity. }
  rewrite El. unfold pdu_tx. destruct Hver as [Hv | Hv]; rewrite Hv; cbn [Z.eqb].
  - apply (tx0_accepts tn fn pwr (bu ++ pad)); lia.
  - apply (tx1_accepts tn fn pwr (bu ++ pad)); lia.
Qed.

(* ---------------------------------------------------------------- Rx, version 0 *)
Lemma acc_rx0 legacy m b : Trxd.gen_rx legacy m = Trxd.Ok b -> Trxd.r_ver m = 0 ->
  (match Trxd.r_burst m with Some bs => Forall (fun s => -128 <= s <= 127) bs | None => True end) ->
  exists fn tn rssi toa bs, Trxd.r_fn m = Some fn /\ Trxd.r_tn m = Some tn /\ Trxd.r_rssi m = Some rssi /\ Trxd.r_toa m = Some toa /\
    Trxd.r_burst m = Some bs /\ (length bs = 148%nat \/ length bs = 444%nat) /\
    (rule_at (length bs + length (legacy_pad legacy 0)) = Ok (length bs) ->
     decode true pdu_v0_rx b = Ok (rx0_fields tn fn rssi toa (TrxdRxRT.usbits bs) (legacy_pad legacy 0), length b)).
Proof.
  intros Hgen Hver Hsoft. destruct (TrxdRxRT.gen_rx_layout _ _ _ Hgen Hsoft) as [fn [tn [rssi [toa [Ef [Et [Er [Ea ->]]]]]]]].
  assert (Hv : Trxd.validate_rx m = Trxd.Ok tt) by (apply (proj1 (TrxdRx.gen_rx_iff m legacy)); eauto).
  apply TrxdRx.validate_rx_iff in Hv. destruct Hv as [[_ [[f' [Ef' Hf]] [t' [Et' Ht]]]] [[r' [Er' Hr]] [[a' [Ea' Ha]] [_ [_ Hbb]]]]]. unfold TrxdRx.spec_rx_burst in Hbb. destruct Hbb as [Hb _].
  rewrite Ef in Ef'. rewrite Et in Et'. rewrite Er in Er'. rewrite Ea in Ea'. injection Ef' as <-. injection Et' as <-. injection Er' as <-. injection Ea' as <-.
  destruct (Hb Hver) as [bs [Ebs Hl]]. exists fn, tn, rssi, toa, bs. repeat (split; [assumption|]).
  intros Hrule. rewrite Hver, Ebs. change (0 =? 1) with false. cbv iota. cbn [app]. fold (legacy_pad legacy 0).
  set (pad := legacy_pad legacy 0) in *.
  assert (El : TrxdRxRT.layout_rx_hdr 0 fn tn rssi toa ++ TrxdRxRT.usbits bs ++ pad = rx0_layout tn fn rssi toa (TrxdRxRT.usbits bs) pad) by reflexivity.
  rewrite El. apply (rx0_accepts tn fn rssi toa (TrxdRxRT.usbits bs) pad); try lia.
  unfold TrxdRxRT.usbits. rewrite map_length. exact Hrule.
Qed.

(* the length rule of the source answers |burst| for GMSK and EDGE, with and without the two legacy padding octets *)
Lemma acc_rx0_rule legacy n : (n = 148%nat \/ n = 444%nat) -> rule_at (n + length (legacy_pad legacy 0)) = Ok n.
Proof.
  destruct rule_points as [R1 [R2 [R3 R4]]]. intros [-> | ->]; destruct legacy; cbn [legacy_pad andb Z.eqb length Nat.add]; assumption.
Qed.

(* every version-0 Rx datagram of the message codec, legacy padding on or off, GMSK or EDGE *)
Lemma acc_rx0_all legacy m b : Trxd.gen_rx legacy m = Trxd.Ok b -> Trxd.r_ver m = 0 ->
  (match Trxd.r_burst m with Some bs => Forall (fun s => -128 <= s <= 127) bs | None => True end) ->
  exists fn tn rssi toa bs, Trxd.r_fn m = Some fn /\ Trxd.r_tn m = Some tn /\ Trxd.r_rssi m = Some rssi /\ Trxd.r_toa m = Some toa /\
    Trxd.r_burst m = Some bs /\
    decode true pdu_v0_rx b = Ok (rx0_fields tn fn rssi toa (TrxdRxRT.usbits bs) (legacy_pad legacy 0), length b).
Proof.
  intros Hg Hv Hs. destruct (acc_rx0 legacy m b Hg Hv Hs) as [fn [tn [rssi [toa [bs [E1 [E2 [E3 [E4 [E5 [Hl Hacc]]]]]]]]]]].
  exists fn, tn, rssi, toa, bs. repeat (split; [assumption|]). apply Hacc. apply acc_rx0_rule. exact Hl.
Qed.

(* ---------------------------------------------------------------- Rx, version 1 *)
Lemma mod_tab_sweep : forallb (fun i => forallb (fun s =>
    implb (TrxdRxRT.tset_ok (Z.to_nat i) s && negb ((i =? 2) && (s =? 1)))
      (match assocZ (Trxd.mod_coding (Z.to_nat i) + s) burst_tab with
       | Some n => (Z.of_nat n =? TrxdRx.spec_mod_bl (Z.to_nat i)) && (Trxd.mod_coding (Z.to_nat i) + s <? 16) && (0 <=? Trxd.mod_coding (Z.to_nat i) + s)
       | None => false end)) (range 0 4)) (range 0 6) = true.
Proof. vm_compute. reflexivity. Qed.

(* the modulation table of trxd_proto agrees with the message codec for every MTS code the codec emits, except GMSK-AB with TSC set 1 *)
Lemma mod_tab_agrees i s : (i < 6)%nat -> TrxdRxRT.tset_ok i s = true -> 0 <= s < 4 -> ~ (i = 2%nat /\ s = 1) ->
  exists n, assocZ (Trxd.mod_coding i + s) burst_tab = Some n /\ Z.of_nat n = TrxdRx.spec_mod_bl i /\ 0 <= Trxd.mod_coding i + s < 16.
Proof.
  intros Hi Hts Hs Hne. assert (Hi' : 0 <= Z.of_nat i < 6) by lia.
  pose proof (forallb_range _ _ _ (forallb_range _ _ _ mod_tab_sweep _ Hi') s Hs) as H. cbv beta in H. rewrite Nat2Z.id in H. rewrite Hts in H.
  assert (Hn : negb ((Z.of_nat i =? 2) && (s =? 1)) = true).
  { destruct (Z.eqb_spec (Z.of_nat i) 2) as [E1|E1]; [|reflexivity]. destruct (Z.eqb_spec s 1) as [E2|E2]; [|reflexivity]. exfalso. apply Hne. split; lia. }
  rewrite Hn in H. cbn [andb implb] in H. destruct (assocZ (Trxd.mod_coding i + s) burst_tab) as [n|]; [|discriminate].
  exists n. split; [reflexivity|]. lia.
Qed.

Lemma acc_rx1 m b : Trxd.gen_rx false m = Trxd.Ok b \/ Trxd.gen_rx true m = Trxd.Ok b -> Trxd.r_ver m = 1 ->
  (match Trxd.r_burst m with Some bs => Forall (fun s => -128 <= s <= 127) bs | None => True end) ->
  exists fn tn rssi toa ci, Trxd.r_fn m = Some fn /\ Trxd.r_tn m = Some tn /\ Trxd.r_rssi m = Some rssi /\ Trxd.r_toa m = Some toa /\ Trxd.r_ci m = Some ci /\
    if Trxd.r_nope m
    then decode true pdu_v1_rx b = Ok (rx1_fields tn fn rssi toa 1 0 0 ci [], length b)
    else exists i s t bs, Trxd.r_mod m = Some i /\ Trxd.r_tset m = Some s /\ Trxd.r_tsc m = Some t /\ Trxd.r_burst m = Some bs /\
         (~ (i = 2%nat /\ s = 1) ->
          decode true pdu_v1_rx b = Ok (rx1_fields tn fn rssi toa 0 (Trxd.mod_coding i + s) t ci (TrxdRxRT.usbits bs), length b)).
Proof.
  intros Hgen Hver Hsoft.
  assert (Hlay : exists l, Trxd.gen_rx l m = Trxd.Ok b) by (destruct Hgen; eauto). destruct Hlay as [l Hg].
  destruct (TrxdRxRT.gen_rx_layout _ _ _ Hg Hsoft) as [fn [tn [rssi [toa [Ef [Et [Er [Ea ->]]]]]]]].
  assert (Hv : Trxd.validate_rx m = Trxd.Ok tt) by (apply (proj1 (TrxdRx.gen_rx_iff m l)); eauto).
  apply TrxdRx.validate_rx_iff in Hv. destruct Hv as [[_ [[f' [Ef' Hf]] [t' [Et' Ht]]]] [[r' [Er' Hr]] [[a' [Ea' Ha]] [Hmts [Hci Hbb]]]]]. unfold TrxdRx.spec_rx_burst in Hbb. destruct Hbb as [_ Hb].
  rewrite Ef in Ef'. rewrite Et in Et'. rewrite Er in Er'. rewrite Ea in Ea'. injection Ef' as <-. injection Et' as <-. injection Er' as <-. injection Ea' as <-.
  destruct (Hci Hver) as [ci [Eci Hc]]. specialize (Hb Hver). exists fn, tn, rssi, toa, ci. repeat (split; [assumption|]).
  rewrite Hver. change (1 =? 1) with true. change (1 =? 0) with false. rewrite andb_false_r. cbv iota. rewrite app_nil_r. rewrite Eci. cbn [Trxd.oz].
  destruct (Trxd.r_nope m) eqn:En.
  - rewrite Hb. unfold Trxd.gen_mts. rewrite En, TrxdBase.gen_nope. rewrite app_nil_r.
    assert (El : TrxdRxRT.layout_rx_hdr 1 fn tn rssi toa ++ [128] ++ TrxdRxRT.layout_ci ci = rx1_layout tn fn rssi toa 1 0 0 ci []).
    { unfold rx1_layout. rewrite app_nil_r. reflexivity. }
    rewrite El. apply (rx1_accepts tn fn rssi toa 1 0 0 ci []); try lia. right. auto.
  - destruct Hb as [bs [i [Ebs [Emod Hlen]]]]. destruct (Hmts Hver eq_refl) as [i' [s [t [Ei [Hi [Es [Etc [Htc Hs]]]]]]]].
    rewrite Emod in Ei. injection Ei as <-. exists i, s, t, bs. repeat (split; [assumption|]). intros Hne.
    assert (Hts : TrxdRxRT.tset_ok i s = true /\ 0 <= s < 4) by (unfold TrxdRxRT.tset_ok; destruct (Nat.eqb i 0); split; lia).
    destruct Hts as [Hts Hs4]. destruct (mod_tab_agrees i s Hi Hts Hs4 Hne) as [n [Htab [Hn Hmd]]].
    destruct (TrxdRxRT.mts_rt i s t Hi Hts Hs4 ltac:(lia)) as [_ [_ Hval]].
    rewrite Ebs. unfold Trxd.gen_mts. rewrite En, Etc, Emod, Es. fold (TrxdRxRT.mts_val i s t). rewrite Hval.
    assert (El : TrxdRxRT.layout_rx_hdr 1 fn tn rssi toa ++ ([t + 8 * (Trxd.mod_coding i + s)] ++ TrxdRxRT.layout_ci ci) ++ TrxdRxRT.usbits bs
                 = rx1_layout tn fn rssi toa 0 (Trxd.mod_coding i + s) t ci (TrxdRxRT.usbits bs)).
    { unfold rx1_layout. replace (0 * 128 + (Trxd.mod_coding i + s) * 8 + t) with (t + 8 * (Trxd.mod_coding i + s)) by lia. rewrite <- !app_assoc. reflexivity. }
    rewrite El. apply (rx1_accepts tn fn rssi toa 0 (Trxd.mod_coding i + s) t ci (TrxdRxRT.usbits bs)); try lia.
    left. split; [reflexivity|]. unfold TrxdRxRT.usbits. rewrite map_length, Htab. f_equal. lia.
Qed.

(* ---------------------------------------------------------------- the recorded defects, as refuted strengthenings *)
(* (a) c17-v0rx-legacy-gmsk-rejected was repaired in the source (rule `> 148 + 2`): see acc_rx0_all *)
(* (b) MTS code 7 = GMSK access burst with TSC set 1, which the message codec emits as valid, has no burst length *)
Lemma mts_0111_unknown_refuted :
  assocZ (Trxd.mod_coding 2 + 1) burst_tab = None /\ burst_len_unknown = [7] /\
  decode true pdu_v1_rx ([16; 0; 0; 0; 0; 60; 0; 0; 56; 0; 0] ++ repeat 127 148) = DecodeErr 1.
Proof. split; [|split]; vm_compute; reflexivity. Qed.
(* (c) the legacy padding of a version-0 Tx datagram ends up inside the burst field *)
Lemma v0tx_legacy_pad_refuted :
  decode true pdu_v0_tx ([0; 0; 0; 0; 0; 10] ++ repeat 1 148 ++ [0; 0]) = Ok (tx_fields 0 0 0 10 (repeat 1 148 ++ [0; 0]), 156%nat).
Proof. vm_compute. reflexivity. Qed.
