(* C14: whole sessions - any sequence of control datagrams, data datagrams and clock ticks never crashes the transceivers;
   malformed input has no effect beyond an error reply *)
From Coq Require Import ZArith List Bool Lia ZifyBool.
From OBB Require Import Base.Range Base.Dec Gen.TrxdConst Gen.FakeTrxConst Model.Trxd Model.Trx
  Proofs.TrxdBase Proofs.TrxdTotal Proofs.TrxMeta Proofs.TrxMeta2 Proofs.TrxInv Proofs.TrxTick Proofs.TrxCtrl.
Import ListNotations.
Open Scope Z_scope.

Inductive sop := OCtrl (i : nat) (data : list Z) | OData (i : nat) (data : list Z) | OTick (fn : Z) | ODraws (l : list Z).

Definition op_ok (n : nat) (o : sop) : Prop :=
  match o with
  | OCtrl i d => (i < n)%nat
  | OData i d => (i < n)%nat /\ Forall (fun b => 0 <= b < 256) d
  | OTick fn => 0 <= fn
  | ODraws _ => True
  end.

(* one operation: (world, draws, crashed?) *)
Definition sstep (st : world * list Z * bool) (o : sop) : world * list Z * bool :=
  let '(w, draws, crashed) := st in
  if crashed then st else
  match o with
  | OCtrl i d => let '(w', out, d') := handle_rx w i d draws in (w', d', match out with RCrashed => true | _ => false end)
  | OData i d => match nth_error (w_trx w) i with
                 | Some t => (upd_trx w i (fun _ => fst (recv_data t d)), draws, false)
                 | None => (w, draws, true)
                 end
  | OTick fn => let '(w', d', out) := tick w fn draws in (w', d', o_crash out)
  | ODraws l => (w, draws ++ l, false)
  end.

Lemma sstep_ok w draws o : wf_world w -> op_ok (length (w_trx w)) o ->
  let '(w', _, crashed) := sstep (w, draws, false) o in crashed = false /\ wf_world w' /\ length (w_trx w') = length (w_trx w).
Proof.
  intros Hw Ho. destruct o as [i d|i d|fn|l]; cbn [sstep op_ok] in *.
  - pose proof (handle_rx_inv w i d draws Hw Ho) as H. destruct (handle_rx w i d draws) as [[w' out] d']. destruct H as [H1 [H2 H3]].
    split; [destruct out; [reflexivity|reflexivity|congruence]|auto].
  - destruct Ho as [Hi Hb]. destruct (nth_error (w_trx w) i) as [t|] eqn:Et; [|apply nth_error_None in Et; lia].
    pose proof (recv_data_inv t d (nth_wf _ _ _ Hw Et) Hb) as H. destruct (recv_data t d) as [t' acc]. destruct H as [H1 _]. cbn [fst].
    split; [reflexivity|]. split; [apply wf_upd_trx; [exact Hw|intros; exact H1]|]. unfold upd_trx, set_trxs. cbn [w_trx]. apply upd_length.
  - pose proof (tick_ok w fn draws Hw Ho) as H. destruct (tick w fn draws) as [[w' d'] out]. exact H.
  - auto.
Qed.

(* from the freshly constructed application (any configuration) NO history of datagrams and ticks crashes anything *)
Theorem no_history_crashes cfgs ops :
  let w0 := {| w_trx := map trx0 cfgs; w_links := []; w_gen := false |} in
  Forall (op_ok (length cfgs)) ops ->
  let '(w, _, crashed) := fold_left sstep ops (w0, [], false) in crashed = false /\ wf_world w /\ length (w_trx w) = length cfgs.
Proof.
  cbv zeta. intros Hops.
  assert (G : forall ops w draws, wf_world w -> length (w_trx w) = length cfgs -> Forall (op_ok (length cfgs)) ops ->
              let '(w', _, crashed) := fold_left sstep ops (w, draws, false) in crashed = false /\ wf_world w' /\ length (w_trx w') = length cfgs).
  { induction ops0 as [|o r IH]; intros w draws Hw Hl Ho; cbn [fold_left]; [auto|].
    inversion Ho as [|o' r' Ho1 Hor]; subst. rewrite <- Hl in Ho1.
    pose proof (sstep_ok w draws o Hw Ho1) as H. destruct (sstep (w, draws, false) o) as [[w1 d1] c1]. destruct H as [-> [Hw1 Hl1]].
    apply IH; [exact Hw1|congruence|exact Hor]. }
  apply G; [|cbn [w_trx]; apply map_length|exact Hops].
  unfold wf_world. cbn [w_trx]. apply Forall_forall. intros t Ht. apply in_map_iff in Ht as [c [<- _]]. apply trx0_wf.
Qed.

(* a control datagram that is not a command, and a command with an unparsable argument: no state change at all (the latter is answered -1) *)
Lemma fake_handler_badint s req s' : fake_handler s req = (s', Some CBadInt) -> s' = s.
Proof.
  unfold fake_handler.
  repeat match goal with
  | |- context [if verb_is ?r ?v ?n then _ else _] => destruct (verb_is r v n)
  | |- context [match arg ?r ?i with _ => _ end] => destruct (arg r i)
  | |- context [if ?a <? ?b then _ else _] => destruct (a <? b)
  | |- context [if ?a <=? ?b then _ else _] => destruct (a <=? b)
  end; intros H; injection H as <-; try discriminate; try reflexivity.
Qed.

Theorem bad_argument_no_effect w i req draws w' d' : (i < length (w_trx w))%nat ->
  parse_cmd w i req draws = (w', CBadInt, d') -> w' = w /\ d' = draws.
Proof.
  intros Hi. unfold parse_cmd. destruct (nth_error (w_trx w) i) as [t|] eqn:Et; [|discriminate].
  destruct (fake_handler (x_sim t) req) as [s' r] eqn:Ef.
  destruct r as [res|].
  - intros H. injection H as <- -> <-. apply fake_handler_badint in Ef. subst s'. split; [apply (upd_trx_same w i t Et)|reflexivity].
  - assert (Es : s' = x_sim t \/ exists a, verb_is req v_FAKE_TRXC_DELAY 1 = true /\ arg req 1 = Some a).
    { revert Ef. unfold fake_handler.
      repeat match goal with
      | |- context [if verb_is ?r ?v ?n then _ else _] => destruct (verb_is r v n) eqn:?
      | |- context [match arg ?r ?i with _ => _ end] => destruct (arg r i) eqn:?
      | |- context [if ?a <? ?b then _ else _] => destruct (a <? b)
      | |- context [if ?a <=? ?b then _ else _] => destruct (a <=? b)
      end; intros H; injection H as <-; try discriminate; eauto. }
    destruct Es as [-> | [a [Hv Ha]]].
    + rewrite (upd_trx_same w i t Et), set_sim_same.
      repeat match goal with
      | |- context [if verb_is ?r ?v ?n then _ else _] => destruct (verb_is r v n)
      | |- context [if verb_va ?r ?v ?n then _ else _] => destruct (verb_va r v n)
      | |- context [match arg ?r ?i with _ => _ end] => destruct (arg r i)
      | |- context [if x_run ?t then _ else _] => destruct (x_run t)
      | |- context [if negb ?b then _ else _] => destruct (negb b)
      | |- context [match all_ints ?l with _ => _ end] => destruct (all_ints l) as [[|? [|? ?]]|]
      | |- context [if (?a || ?b) then _ else _] => destruct (a || b)
      | |- context [if known ?v then _ else _] => destruct (known v)
      | |- context [if (?a =? ?b)%nat then _ else _] => destruct (a =? b)%nat
      | |- context [if pm_match ?a ?b then _ else _] => destruct (pm_match a b)
      | |- context [match randint ?a ?b ?c with _ => _ end] => destruct (randint a b c) as [[? ?]|]
      end; intros H; try discriminate; injection H as <- <-; auto.
    + (* FAKE_TRXC_DELAY with a parsable argument falls through to 'unknown verb': status 0, never CBadInt *)
      assert (Hne : forall v n, v <> v_FAKE_TRXC_DELAY -> verb_is req v n = true -> False).
      { intros v n Hv' H1. unfold verb_is in *. destruct req as [|v0 args]; [discriminate|].
        apply andb_prop in Hv as [Hv _]. apply andb_prop in H1 as [H1 _]. apply list_eqb_eq in Hv. apply list_eqb_eq in H1. congruence. }
      intros H. exfalso. revert H.
      repeat match goal with
      | |- context [if verb_is ?r ?v ?n then _ else _] => let E := fresh in destruct (verb_is r v n) eqn:E; [exfalso; eapply (Hne v n); [discriminate|exact E]|]
      end.
      destruct (verb_va req v_SETFH 4) eqn:Eva.
      { exfalso. unfold verb_va, verb_is in *. destruct req as [|v0 args]; [discriminate|]. apply andb_prop in Hv as [Hv _]. apply andb_prop in Eva as [Eva _].
        apply list_eqb_eq in Hv. apply list_eqb_eq in Eva. subst v0. discriminate. }
      repeat match goal with
      | |- context [if verb_is ?r ?v ?n then _ else _] => let E := fresh in destruct (verb_is r v n) eqn:E; [exfalso; eapply (Hne v n); [discriminate|exact E]|]
      end. discriminate.
Qed.

(* a REFUSED command (negative status, whatever the verb) changes nothing at all: neither the addressed transceiver nor any
   other, nor the random draws.  (An unsupported but in-range SETFORMAT is answered with the highest supported lower version,
   a non-negative status, and changes nothing either: c05_setformat.) *)
Lemma fake_handler_refused s req s' rc ex : fake_handler s req = (s', Some (CStatus rc ex)) -> rc < 0 -> s' = s.
Proof.
  unfold fake_handler.
  repeat match goal with
  | |- context [if verb_is ?r ?v ?n then _ else _] => destruct (verb_is r v n)
  | |- context [match arg ?r ?i with _ => _ end] => destruct (arg r i)
  | |- context [if ?a <? ?b then _ else _] => destruct (a <? b)
  | |- context [if ?a <=? ?b then _ else _] => destruct (a <=? b)
  end; intros H0 Hrc; try discriminate; inversion H0; subst; try reflexivity; lia.
Qed.

Theorem refused_no_effect w i req draws w' rc ex d' : (i < length (w_trx w))%nat ->
  parse_cmd w i req draws = (w', CStatus rc ex, d') -> rc < 0 -> w' = w /\ d' = draws.
Proof.
  intros Hi. unfold parse_cmd. destruct (nth_error (w_trx w) i) as [t|] eqn:Et; [|discriminate].
  destruct (fake_handler (x_sim t) req) as [s' r] eqn:Ef.
  destruct r as [res|].
  - intros H Hrc. injection H as <- -> <-. apply fake_handler_refused in Ef; [|exact Hrc]. subst s'. split; [apply (upd_trx_same w i t Et)|reflexivity].
  - assert (Es : s' = x_sim t \/ exists a, verb_is req v_FAKE_TRXC_DELAY 1 = true /\ arg req 1 = Some a).
    { revert Ef. unfold fake_handler.
      repeat match goal with
      | |- context [if verb_is ?r ?v ?n then _ else _] => destruct (verb_is r v n) eqn:?
      | |- context [match arg ?r ?i with _ => _ end] => destruct (arg r i) eqn:?
      | |- context [if ?a <? ?b then _ else _] => destruct (a <? b)
      | |- context [if ?a <=? ?b then _ else _] => destruct (a <=? b)
      end; intros H; injection H as <-; try discriminate; eauto. }
    destruct Es as [-> | [a [Hv Ha]]].
    + rewrite (upd_trx_same w i t Et), set_sim_same.
      repeat match goal with
      | |- context [if verb_is ?r ?v ?n then _ else _] => destruct (verb_is r v n)
      | |- context [if verb_va ?r ?v ?n then _ else _] => destruct (verb_va r v n)
      | |- context [match arg ?r ?i with _ => _ end] => destruct (arg r i)
      | |- context [if x_run ?t then _ else _] => destruct (x_run t)
      | |- context [if negb ?b then _ else _] => destruct (negb b)
      | |- context [match all_ints ?l with _ => _ end] => destruct (all_ints l) as [[|? [|? ?]]|]
      | |- context [if (?a || ?b) then _ else _] => destruct (a || b) eqn:?
      | |- context [if known ?v then _ else _] => destruct (known v) eqn:?
      | |- context [if (?a =? ?b)%nat then _ else _] => destruct (a =? b)%nat
      | |- context [if pm_match ?a ?b then _ else _] => destruct (pm_match a b)
      | |- context [match randint ?a ?b ?c with _ => _ end] => destruct (randint a b c) as [[? ?]|]
      end; intros H0 Hrc; try discriminate; inversion H0; subst; auto; try lia.
    + assert (Hne : forall v n, v <> v_FAKE_TRXC_DELAY -> verb_is req v n = true -> False).
      { intros v n Hv' H1. unfold verb_is in *. destruct req as [|v0 args]; [discriminate|].
        apply andb_prop in Hv as [Hv _]. apply andb_prop in H1 as [H1 _]. apply list_eqb_eq in Hv. apply list_eqb_eq in H1. congruence. }
      intros H Hrc. exfalso. revert H.
      repeat match goal with
      | |- context [if verb_is ?r ?v ?n then _ else _] => let E := fresh in destruct (verb_is r v n) eqn:E; [exfalso; eapply (Hne v n); [discriminate|exact E]|]
      end.
      destruct (verb_va req v_SETFH 4) eqn:Eva.
      { exfalso. unfold verb_va, verb_is in *. destruct req as [|v0 args]; [discriminate|]. apply andb_prop in Hv as [Hv _]. apply andb_prop in Eva as [Eva _].
        apply list_eqb_eq in Hv. apply list_eqb_eq in Eva. subst v0. discriminate. }
      repeat match goal with
      | |- context [if verb_is ?r ?v ?n then _ else _] => let E := fresh in destruct (verb_is r v n) eqn:E; [exfalso; eapply (Hne v n); [discriminate|exact E]|]
      end. intros Hfin. inversion Hfin; subst. lia.
Qed.

(* ---- the artificial TRXC delay (FAKE_TRXC_DELAY <ms>, slept before every reply): time.sleep() takes at most 2^63-1 ns ---- *)
Lemma sleep_boundary : forall ms, sleep_overflows ms = true <-> 9223372036855 <= ms.
Proof. intros ms. unfold sleep_overflows. split; intros H; [|apply andb_true_intro; split]; lia. Qed.

Lemma delay_too_long_refused s a : 9223372036854 < a ->
  fake_handler s [v_FAKE_TRXC_DELAY; py_str a] = (s, Some (CStatus (-1) [])).
Proof.
  intros Ha. unfold fake_handler. vb. rewrite arg1. unfold trxc_delay_ms_max.
  destruct (9223372036854 <? a) eqn:E; [reflexivity|lia].
Qed.

Lemma delay_accepted_sleepable s a : a <= 9223372036854 ->
  s_delay (fst (fake_handler s [v_FAKE_TRXC_DELAY; py_str a])) = a /\ snd (fake_handler s [v_FAKE_TRXC_DELAY; py_str a]) = None /\ sleep_overflows a = false.
Proof.
  intros Ha. unfold fake_handler. vb. rewrite arg1. unfold trxc_delay_ms_max.
  destruct (9223372036854 <? a) eqn:E; [lia|]. cbn [fst snd sim_set s_delay]. split; [reflexivity|split; [reflexivity|]].
  apply not_true_is_false. intros H. apply sleep_boundary in H. lia.
Qed.

(* the whole datagram, on the freshly started transceiver: refused with -1, nothing changes, and the NEXT command is served *)
Example delay_overflow_refused_fresh :
  let w0 := {| w_trx := [trx0 {| c_idx := 0; c_mgt := true; c_clock := true; c_pm := true; c_children := [] |}]; w_links := []; w_gen := false |} in
  let cmd := [67;77;68;32] ++ v_FAKE_TRXC_DELAY ++ [32] ++ py_str 9223372036855 ++ [0] in
  let '(w1, out, _) := handle_rx w0 0%nat cmd [] in
  w1 = w0 /\ out = RReply ([82;83;80;32] ++ v_FAKE_TRXC_DELAY ++ [32;45;49;32] ++ py_str 9223372036855 ++ [0]).
Proof. vm_compute. split; reflexivity. Qed.
