(* Lemmas about Model/MobAllocHist.v (C20): SI4 stored and re-decoded when SI1 arrives. *)
From Coq Require Import ZArith List Bool Lia ZifyBool.
From OBB Require Import Base.Range Gen.MobAllocConst Gen.MobAllocSi4Const Model.MobAlloc Model.MobAllocSi4 Model.MobAllocHist Proofs.MobAllocP Proofs.MobAllocSi4P.
Import ListNotations.
Open Scope Z_scope.
Ltac Zify.zify_post_hook ::= Z.to_euclidean_division_equations.

Lemma hist_constants : c_SI4_MSG_SIZE = 23 /\ c_SI4_HDR_SIZE = 13.
Proof. split; reflexivity. Qed.

(* ------------------------------------------------------------------ lists *)
Lemma octets_app a b : octets (a ++ b) <-> octets a /\ octets b.
Proof. unfold octets. apply Forall_app. Qed.

Lemma octets_firstn n l : octets l -> octets (firstn n l).
Proof. unfold octets. rewrite !Forall_forall. intros H x Hx. apply H. eapply In_firstn, Hx. Qed.

Lemma octets_skipn n l : octets l -> octets (skipn n l).
Proof. unfold octets. rewrite !Forall_forall. intros H x Hx. apply H. eapply In_skipn', Hx. Qed.

Lemma Zlength_firstn' {A : Type} (l : list A) n : 0 <= n -> Zlength (firstn (Z.to_nat n) l) = Z.min n (Zlength l).
Proof. intros H. rewrite !Zlength_correct, firstn_length. lia. Qed.

Lemma Zlength_skipn' {A : Type} (l : list A) n : 0 <= n -> Zlength (skipn (Z.to_nat n) l) = Z.max 0 (Zlength l - n).
Proof. intros H. rewrite !Zlength_correct, skipn_length. lia. Qed.

Lemma Zlength_app' {A : Type} (a b : list A) : Zlength (a ++ b) = Zlength a + Zlength b.
Proof. rewrite !Zlength_correct, app_length. lia. Qed.

(* ------------------------------------------------------------------ the memcpy *)
Lemma store_some buf msg : Zlength buf = 23 ->
  store buf msg = Some (firstn (Z.to_nat (Z.min (Zlength msg) 23)) msg ++ skipn (Z.to_nat (Z.min (Zlength msg) 23)) buf).
Proof. intros Hb. unfold store, c_SI4_MSG_SIZE. cbv zeta. replace (Zlength buf <? Z.min (Zlength msg) 23) with false by lia. reflexivity. Qed.

Lemma store_length buf msg buf' : Zlength buf = 23 -> store buf msg = Some buf' -> Zlength buf' = 23.
Proof. intros Hb E. rewrite store_some in E by exact Hb. injection E as <-. pose proof (Zlength_nonneg msg).
  rewrite Zlength_app', Zlength_firstn', Zlength_skipn' by lia. lia. Qed.

Lemma store_octets buf msg buf' : octets buf -> octets msg -> store buf msg = Some buf' -> octets buf'.
Proof. intros Hb Hm E. unfold store in E. cbv zeta in E. destruct (Zlength buf <? _); [discriminate|]. injection E as <-.
  apply octets_app. split; [apply octets_firstn, Hm|apply octets_skipn, Hb]. Qed.

Lemma store_fit buf msg : Zlength buf = 23 -> Zlength msg <= 23 -> store buf msg = Some (msg ++ skipn (length msg) buf).
Proof. intros Hb Hm. rewrite store_some by exact Hb. pose proof (Zlength_nonneg msg). replace (Z.min (Zlength msg) 23) with (Zlength msg) by lia.
  rewrite Zlength_correct, Nat2Z.id, firstn_all. reflexivity. Qed.

Lemma store_self buf : Zlength buf = 23 -> store buf (firstn (Z.to_nat 23) buf) = Some buf.
Proof. intros Hb. rewrite firstn_all2 by (rewrite Zlength_correct in Hb; lia). rewrite store_fit by lia.
  rewrite skipn_all, app_nil_r. reflexivity. Qed.

(* ------------------------------------------------------------------ lengths of the tables are kept *)
Lemma decode_lengths freq ma len hop hl si4 rc s : Zlength freq = 1024 -> Zlength hop = 64 -> 0 <= len <= 255 ->
  (len <= 8 -> len <= Zlength ma) -> decode freq ma len hop hl si4 = Ok rc s -> Zlength (s_freq s) = 1024 /\ Zlength (s_hop s) = 64.
Proof. intros Hf Hh Hl Hm E. destruct (Z_le_gt_dec len 8) as [Hs|Hg].
  - destruct (decode_ok freq ma len hop hl si4 Hf ltac:(lia) (Hm Hs) ltac:(lia)) as (s' & E' & _ & H2 & H3 & _).
    rewrite E' in E. injection E as _ <-. lia.
  - rewrite long_thm in E by lia. injection E as _ <-. cbn [s_freq s_hop]. lia. Qed.

Lemma ma_part_lengths d si1 s c off plen rc s' c' off' lft : octets d -> 0 <= off -> off + plen = Zlength d ->
  Zlength (s_freq s) = 1024 -> Zlength (s_hop s) = 64 ->
  ma_part d si1 s c off plen = SRet rc s' c' off' lft -> Zlength (s_freq s') = 1024 /\ Zlength (s_hop s') = 64.
Proof. intros Ho Hoff Hsum Hf Hh. unfold ma_part. destruct (1 <=? plen) eqn:E1; [|intros E; injection E as _ <- _ _ _; auto].
  rewrite rd_ok by lia. destruct (zn d off =? c_IE_CBCH_MOB_AL); [|intros E; injection E as _ <- _ _ _; auto].
  destruct (plen <? 2) eqn:E2; [intros E; injection E as _ <- _ _ _; auto|].
  rewrite rd_ok by lia. pose proof (octets_zn d (off + 1) Ho ltac:(lia)) as Hl. set (l := zn d (off + 1)) in *. clearbody l.
  destruct (plen <? 2 + l) eqn:E3; [intros E; injection E as _ <- _ _ _; auto|].
  destruct (si1 =? 0); [intros E; injection E as _ <- _ _ _; auto|].
  destruct (decode (s_freq s) (skipn (Z.to_nat (off + 2)) d) l (s_hop s) (s_hlen s) 1) as [rc1 s1|] eqn:Ed; [|discriminate].
  intros E. injection E as _ <- _ _ _. apply (decode_lengths (s_freq s) (skipn (Z.to_nat (off + 2)) d) l (s_hop s) (s_hlen s) 1 rc1 s1 Hf Hh ltac:(lia)) in Ed; [exact Ed|].
  intros _. rewrite Zlength_skipn by lia. lia. Qed.

Lemma si4_lengths d si1 s c rc s' c' off lft : octets d -> Zlength (s_freq s) = 1024 -> Zlength (s_hop s) = 64 ->
  si4_tail d si1 s c = SRet rc s' c' off lft -> Zlength (s_freq s') = 1024 /\ Zlength (s_hop s') = 64.
Proof. intros Ho Hf Hh. pose proof (Zlength_nonneg d) as Hd. unfold si4_tail. cbv zeta.
  destruct (1 <=? Zlength d) eqn:E1; [|apply ma_part_lengths; auto; lia].
  rewrite rd_ok by lia. destruct (zn d 0 =? c_IE_CBCH_CHAN_DESC); [|apply ma_part_lengths; auto; lia].
  destruct (Zlength d <? 4) eqn:E4; [intros E; injection E as _ <- _ _ _; auto|].
  destruct (chan_desc d 0 c); [|discriminate]. apply ma_part_lengths; auto; lia. Qed.

(* ------------------------------------------------------------------ (b) in bounds: one SI4 of any length, the re-decode at SI1 *)
Lemma sysinfo4_safe msg x : octets msg -> 13 <= Zlength msg -> cell_ok x ->
  exists rc x', sysinfo4 msg x = CRet rc x' /\ cell_ok x' /\ c_si1 x' = c_si1 x /\
    c_buf x' = firstn (Z.to_nat (Z.min (Zlength msg) 23)) msg ++ skipn (Z.to_nat (Z.min (Zlength msg) 23)) (c_buf x) /\
    ((rc = 0 /\ c_si4 x' = 1) \/ (rc = -5 /\ c_st x' = c_st x /\ c_si4 x' = c_si4 x)).
Proof. intros Hm Hl (Hb & Hbo & Hf & Hh). unfold sysinfo4.
  destruct (store (c_buf x) msg) as [buf'|] eqn:Es; [|rewrite store_some in Es by exact Hb; discriminate].
  replace (Zlength msg <? c_SI4_HDR_SIZE) with false by (unfold c_SI4_HDR_SIZE; lia).
  assert (Hp : octets (skipn (Z.to_nat c_SI4_HDR_SIZE) msg)) by (apply octets_skipn, Hm).
  destruct (si4_safe _ (c_si1 x) (c_st x) (c_cb x) Hp Hf Hh) as (rc & s' & c' & off & lft & E & _ & _ & _ & Hrc).
  rewrite E. destruct (si4_lengths _ _ _ _ _ _ _ _ _ Hp Hf Hh E) as [Hf' Hh'].
  exists rc. eexists. split; [reflexivity|]. cbn [c_st c_cb c_si1 c_si4 c_buf]. split.
  { split; [exact (store_length _ _ _ Hb Es)|]. split; [exact (store_octets _ _ _ Hbo Hm Es)|]. split; assumption. }
  split; [reflexivity|]. split.
  { rewrite store_some in Es by exact Hb. injection Es as <-. reflexivity. }
  destruct Hrc as [->|[-> ->]]; [left; split; reflexivity|right; split; [reflexivity|split; reflexivity]]. Qed.

(* the re-decode is the SI4 tail on the octets si4_msg[13 .. 22], with si1 = 1 and the new table; its result is ignored *)
Lemma sysinfo1_redecode freq1 x : Zlength (c_buf x) = 23 -> c_si4 x <> 0 ->
  sysinfo1 freq1 x =
    match si4_tail (skipn 13 (c_buf x)) 1 (mkst freq1 (s_hop (c_st x)) (s_hlen (c_st x))) (c_cb x) with
    | SOOB => COOB
    | SRet rc s c _ _ => CRet 0 (mkcell s c 1 (if rc =? 0 then 1 else c_si4 x) (c_buf x))
    end.
Proof. intros Hb H4. unfold sysinfo1. cbv zeta. replace (c_si4 x =? 0) with false by lia.
  replace (Zlength (c_buf x) <? c_SI4_MSG_SIZE) with false by (unfold c_SI4_MSG_SIZE; lia).
  unfold sysinfo4. cbn [c_st c_cb c_si1 c_si4 c_buf]. change (Z.to_nat c_SI4_MSG_SIZE) with (Z.to_nat 23).
  rewrite store_self by exact Hb. rewrite firstn_all2 by (rewrite Zlength_correct in Hb; lia).
  replace (Zlength (c_buf x) <? c_SI4_HDR_SIZE) with false by (unfold c_SI4_HDR_SIZE; lia).
  change (Z.to_nat c_SI4_HDR_SIZE) with 13%nat.
  destruct (si4_tail _ _ _ _) as [rc s c off lft|]; reflexivity. Qed.

Lemma sysinfo1_safe freq1 x : cell_ok x -> Zlength freq1 = 1024 ->
  exists x', sysinfo1 freq1 x = CRet 0 x' /\ cell_ok x' /\ c_si1 x' = 1 /\ c_buf x' = c_buf x.
Proof. intros (Hb & Hbo & Hf & Hh) H1. destruct (Z.eq_dec (c_si4 x) 0) as [E0|E0].
  - unfold sysinfo1. cbv zeta. rewrite E0. change (0 =? 0) with true. cbv iota. eexists. split; [reflexivity|].
    cbn [c_st c_cb c_si1 c_si4 c_buf]. split; [|split; reflexivity]. repeat split; assumption.
  - rewrite sysinfo1_redecode by assumption.
    assert (Hp : octets (skipn 13 (c_buf x))) by (apply octets_skipn, Hbo).
    destruct (si4_safe _ 1 (mkst freq1 (s_hop (c_st x)) (s_hlen (c_st x))) (c_cb x) Hp H1 Hh) as (rc & s' & c' & off & lft & E & _).
    rewrite E. destruct (si4_lengths _ 1 (mkst freq1 (s_hop (c_st x)) (s_hlen (c_st x))) (c_cb x) rc s' c' off lft Hp H1 Hh E) as [Hf' Hh'].
    eexists. split; [reflexivity|]. cbn [c_st c_cb c_si1 c_si4 c_buf]. split; [|split; reflexivity]. repeat split; assumption. Qed.

(* ------------------------------------------------------------------ (a) the order of SI4 and SI1 does not matter *)
Lemma cd_fields_idem pre c : cd_fields pre (cd_fields pre c) = cd_fields pre c.
Proof. destruct pre as [|t [|a [|b2 [|b3 [|? ?]]]]]; try reflexivity. cbn [cd_fields].
  destruct ((b2 / 16) mod 2 =? 1); reflexivity. Qed.

Lemma firstn_app_ge {A : Type} (a b : list A) n : (length a <= n)%nat -> firstn n (a ++ b) = a ++ firstn (n - length a) b.
Proof. intros H. rewrite firstn_app, firstn_all2 by exact H. reflexivity. Qed.

Lemma order_thm hdr pre l v tail x0 freq1 :
  Zlength hdr = 13 -> octets (hdr ++ pre ++ 114 :: l :: v ++ tail) -> cd_ie pre -> Zlength v = l ->
  Zlength (hdr ++ pre ++ 114 :: l :: v) <= 23 ->
  cell_ok x0 -> c_si1 x0 = 0 -> c_si4 x0 = 0 -> Zlength freq1 = 1024 ->
  exists rc s' x1 x1',
    decode freq1 v l (s_hop (c_st x0)) (s_hlen (c_st x0)) 1 = Ok rc s' /\
    let msg := hdr ++ pre ++ 114 :: l :: v ++ tail in
    let n := Z.to_nat (Z.min (Zlength msg) 23) in
    let xe := mkcell s' (cd_fields pre (c_cb x0)) 1 1 (firstn n msg ++ skipn n (c_buf x0)) in
    sysinfo4 msg x0 = CRet 0 x1 /\ c_st x1 = c_st x0 /\ sysinfo1 freq1 x1 = CRet 0 xe /\
    sysinfo1 freq1 x0 = CRet 0 x1' /\ sysinfo4 msg x1' = CRet 0 xe.
Proof. intros Hh13 Hoct Hpre Hv Hlen (Hb & Hbo & Hf & Hh) H1 H4 Hf1.
  apply octets_app in Hoct as [Hoh Hop]. pose proof Hop as Hop'. apply octets_app in Hop' as [Hopre Hoie].
  assert (Hl : 0 <= l < 256). { unfold octets in Hoie. apply Forall_cons_iff in Hoie as [_ Hoie]. apply Forall_cons_iff in Hoie as [Hl _]. exact Hl. }
  set (P := pre ++ 114 :: l :: v ++ tail) in *. set (msg := hdr ++ P) in *. set (K := hdr ++ pre ++ 114 :: l :: v) in *.
  assert (HK : msg = K ++ tail) by (unfold msg, P, K; rewrite <- !app_assoc; reflexivity).
  assert (Hsk : skipn (Z.to_nat c_SI4_HDR_SIZE) msg = P).
  { unfold msg. change (Z.to_nat c_SI4_HDR_SIZE) with 13%nat. replace 13%nat with (length hdr + 0)%nat by (rewrite Zlength_correct in Hh13; lia).
    rewrite skipn_app_plus. reflexivity. }
  assert (Hml : 13 <= Zlength msg) by (unfold msg; rewrite Zlength_app'; pose proof (Zlength_nonneg P); lia).
  destruct (in_bounds_thm freq1 v l (s_hop (c_st x0)) (s_hlen (c_st x0)) 1 Hf1 Hh ltac:(lia) ltac:(lia)) as (rc & s' & Ed).
  set (n := Z.to_nat (Z.min (Zlength msg) 23)). set (bufA := firstn n msg ++ skipn n (c_buf x0)).
  assert (Est : forall buf, Zlength buf = 23 -> store buf msg = Some (firstn n msg ++ skipn n buf)) by (intros buf Hbuf; apply store_some, Hbuf).
  assert (HbA : Zlength bufA = 23) by (exact (store_length _ _ _ Hb (Est _ Hb))).
  assert (HKn : (length K <= n)%nat).
  { unfold n. rewrite HK, Zlength_app'. rewrite Zlength_correct in Hlen. pose proof (Zlength_nonneg tail). rewrite (Zlength_correct K). lia. }
  assert (HbufA : exists tailX, bufA = hdr ++ pre ++ 114 :: l :: v ++ tailX).
  { exists (firstn (n - length K) tail ++ skipn n (c_buf x0)). unfold bufA. rewrite HK, firstn_app_ge by exact HKn.
    unfold K. rewrite <- !app_assoc. reflexivity. }
  destruct HbufA as (tailX & HbufA).
  exists rc, s', (mkcell (c_st x0) (cd_fields pre (c_cb x0)) 0 1 bufA),
         (mkcell (mkst freq1 (s_hop (c_st x0)) (s_hlen (c_st x0))) (c_cb x0) 1 0 (c_buf x0)).
  split; [exact Ed|]. cbv zeta. fold msg. fold n. fold bufA.
  (* SI4 before SI1 *)
  assert (EA : sysinfo4 msg x0 = CRet 0 (mkcell (c_st x0) (cd_fields pre (c_cb x0)) 0 1 bufA)).
  { unfold sysinfo4. rewrite (Est _ Hb). fold bufA.
    replace (Zlength msg <? c_SI4_HDR_SIZE) with false by (unfold c_SI4_HDR_SIZE; lia). rewrite Hsk, H1. unfold P.
    rewrite si4_before_si1 by assumption. reflexivity. }
  split; [exact EA|]. split; [reflexivity|]. split.
  { rewrite sysinfo1_redecode by (cbn [c_buf c_si4]; first [exact HbA|lia]). cbn [c_st c_cb c_si4 c_buf].
    assert (Hsk2 : skipn 13 bufA = pre ++ 114 :: l :: v ++ tailX).
    { rewrite HbufA. replace 13%nat with (length hdr + 0)%nat by (rewrite Zlength_correct in Hh13; lia).
      rewrite skipn_app_plus. reflexivity. }
    rewrite Hsk2, si4_complete by assumption. change (1 =? 0) with false. cbv iota. cbn [s_freq s_hop s_hlen].
    rewrite Ed, cd_fields_idem. reflexivity. }
  (* SI1 before SI4 *)
  split.
  { unfold sysinfo1. cbv zeta. rewrite H4. reflexivity. }
  unfold sysinfo4. cbn [c_st c_cb c_si1 c_si4 c_buf]. rewrite (Est _ Hb). fold bufA.
  replace (Zlength msg <? c_SI4_HDR_SIZE) with false by (unfold c_SI4_HDR_SIZE; lia). rewrite Hsk. unfold P.
  rewrite si4_complete by assumption. change (1 =? 0) with false. cbv iota. cbn [s_freq s_hop s_hlen]. rewrite Ed. reflexivity. Qed.

Lemma order_spec hdr pre l v tail x0 freq1 :
  Zlength hdr = 13 -> octets (hdr ++ pre ++ 114 :: l :: v ++ tail) -> cd_ie pre -> Zlength v = l -> l <= 8 ->
  Zlength (hdr ++ pre ++ 114 :: l :: v) <= 23 ->
  cell_ok x0 -> c_si1 x0 = 0 -> c_si4 x0 = 0 -> Zlength freq1 = 1024 ->
  exists freq' xe x1 x1',
    let msg := hdr ++ pre ++ 114 :: l :: v ++ tail in
    let sel := spec_hopping freq1 v l in
    c_st xe = mkst freq' (sel ++ skipn (length sel) (s_hop (c_st x0))) (Zlength sel) /\
    sysinfo4 msg x0 = CRet 0 x1 /\ sysinfo1 freq1 x1 = CRet 0 xe /\
    sysinfo1 freq1 x0 = CRet 0 x1' /\ sysinfo4 msg x1' = CRet 0 xe.
Proof. intros Hh13 Hoct Hpre Hv Hl8 Hlen Hok H1 H4 Hf1.
  destruct (order_thm hdr pre l v tail x0 freq1 Hh13 Hoct Hpre Hv Hlen Hok H1 H4 Hf1) as (rc & s' & x1 & x1' & Ed & EA & _ & EA2 & EB & EB2).
  destruct Hok as (_ & _ & _ & Hh). pose proof (Zlength_nonneg v) as Hv0.
  destruct (spec_thm freq1 v l (s_hop (c_st x0)) (s_hlen (c_st x0)) 1 Hf1 ltac:(lia) ltac:(lia) Hh) as (fr' & Es).
  rewrite Es in Ed. injection Ed as _ <-. eexists fr', _, x1, x1'. cbv zeta.
  split; [|split; [exact EA|split; [exact EA2|split; [exact EB|exact EB2]]]]. reflexivity. Qed.

(* ------------------------------------------------------------------ (c) what the buffer does to other messages: concrete histories *)
Definition hobs (r : cres) : list Z :=
  match r with CRet rc x => [rc; c_si1 x; c_si4 x; s_hlen (c_st x)] ++ firstn 4 (s_hop (c_st x)) | COOB => [-998] end.
Definition after (r : cres) (f : cell -> cres) : cres := match r with CRet _ x => f x | COOB => COOB end.
(* cell allocation {0, 10, 20, 30} brought by SI1; before SI1 no SERV flag; an all-zero buffer; empty list *)
Definition T1 : list Z := tbl [0; 10; 20; 30] 64.
Definition x00 (buf : list Z) : cell := mkcell (mkst (map (fun m => Z.land m 254) T1) (repeat 7 64) 0) cb0 0 0 buf.
Definition hdr0 : list Z := repeat 0 13.

(* a 22-octet message (channel description + mobile allocation 0b1011 + 2 rest octets): both orders give 10 20 0 *)
Definition msg22 : list Z := hdr0 ++ [100; 33; 181; 218; 114; 1; 11; 43; 43].
Example ex_order_a : hobs (after (sysinfo4 msg22 (x00 (repeat 0 23))) (sysinfo1 T1)) = [0; 1; 1; 3; 10; 20; 0; 7].
Proof. vm_compute. reflexivity. Qed.
Example ex_order_b : hobs (after (sysinfo1 T1 (x00 (repeat 0 23))) (sysinfo4 msg22)) = [0; 1; 1; 3; 10; 20; 0; 7].
Proof. vm_compute. reflexivity. Qed.
Example ex_order_hyp : Zlength msg22 <= 23 /\ cell_ok (x00 (repeat 0 23)) /\ Zlength T1 = 1024.
Proof. split; [vm_compute; discriminate|]. split; [|vm_compute; reflexivity]. split; [vm_compute; reflexivity|].
  split; [apply Forall_forall; intros b Hb; apply repeat_spec in Hb; lia|]. split; vm_compute; reflexivity. Qed.

(* a 25-octet message whose Mobile Allocation IE (6 octets) ends behind octet 23: the buffer keeps 23 octets, the re-decode at SI1
   finds the IE cut (-EIO, ignored) and the list stays empty, although SI1 first / SI4 second builds 10 20 0 *)
Definition msg25 : list Z := hdr0 ++ [100; 33; 181; 218; 114; 6; 0; 0; 0; 0; 0; 11].
Lemma order_long_refuted :
  Zlength msg25 = 25 /\
  hobs (after (sysinfo4 msg25 (x00 (repeat 0 23))) (sysinfo1 T1)) = [0; 1; 1; 0; 7; 7; 7; 7] /\
  hobs (after (sysinfo1 T1 (x00 (repeat 0 23))) (sysinfo4 msg25)) = [0; 1; 1; 3; 10; 20; 0; 7].
Proof. split; [vm_compute; reflexivity|]. split; vm_compute; reflexivity. Qed.

(* a 13-octet message (fixed part only, no IE at all) into a buffer that still holds '72 01 0b' of an earlier message at octets 13..15:
   the re-decode at SI1 takes the old octets for a Mobile Allocation IE and builds 10 20 0; SI1 first / SI4 second leaves the list empty *)
Definition stale_buf : list Z := repeat 0 13 ++ [114; 1; 11] ++ repeat 0 7.
Lemma short_stale_refuted :
  Zlength hdr0 = 13 /\ cell_ok (x00 stale_buf) /\
  hobs (after (sysinfo4 hdr0 (x00 stale_buf)) (sysinfo1 T1)) = [0; 1; 1; 3; 10; 20; 0; 7] /\
  hobs (after (sysinfo1 T1 (x00 stale_buf)) (sysinfo4 hdr0)) = [0; 1; 1; 0; 7; 7; 7; 7].
Proof. split; [vm_compute; reflexivity|]. split.
  { split; [vm_compute; reflexivity|]. split; [|split; vm_compute; reflexivity].
    apply Forall_forall. intros b Hb. unfold stale_buf in Hb. apply in_app_or in Hb as [Hb|Hb]; [apply repeat_spec in Hb; lia|].
    apply in_app_or in Hb as [Hb|Hb]; [cbn [In] in Hb; lia|apply repeat_spec in Hb; lia]. }
  split; vm_compute; reflexivity. Qed.
