(* C06 - the theorems in the literal form used by Props/C06.v (protocol numbers written out) *)
From Coq Require Import ZArith List Bool Lia ZifyBool.
From OBB Require Import Gen.SercommConst Model.Sercomm Proofs.SercommP Proofs.SercommTxP.
Import ListNotations.
Open Scope Z_scope.

Definition escape_free (d : Z) : Prop := d <> 126 /\ d <> 125 /\ d <> 0.

Lemma escape_free_ok d : escape_free d -> needs_esc d = false.
Proof. intros H. apply needs_esc_spec. exact H. Qed.

Lemma s_frame_shape d p : frame d p = 126 :: escape (d :: 3 :: p) ++ [126].
Proof. reflexivity. Qed.

Lemma s_escape_shape b l :
  escape [] = [] /\
  escape (b :: l) = if (b =? 126) || (b =? 125) || (b =? 0) then 125 :: Z.lxor b 32 :: escape l else b :: escape l.
Proof. split; reflexivity. Qed.

Lemma s_no_raw_flag_or_zero d p :
  Forall (fun b => b <> 126 /\ b <> 0) (escape (d :: 3 :: p)) /\ esc_followed (escape (d :: 3 :: p)).
Proof. split; [apply (escape_clean (d :: 3 :: p))|apply escape_esc_followed]. Qed.

Lemma s_transparent cap d p : escape_free d -> len p < cap ->
  rx_run cap rx0 (frame d p) = ({| st := WAIT; dlci := d; ctrl := 3; buf := []; blen := 0 |}, [RMsg d p]).
Proof. intros Hd Hl. apply (rx_frame_idle cap 0 0 d p (escape_free_ok d Hd) Hl). Qed.

Fixpoint good_stream_lit (cap : Z) (its : list item) : Prop :=
  match its with
  | [] => True
  | Noise n :: r => Forall (fun b => b <> 126) n /\ good_stream_lit cap r
  | Frame d p :: r => escape_free d /\ len p < cap /\ good_stream_lit cap r
  end.

Lemma good_stream_of_lit cap its : good_stream_lit cap its -> good_stream cap its.
Proof.
  induction its as [|[n|d p] its IH]; cbn [good_stream_lit good_stream]; [auto| |].
  - intros [Hn Hg]. split; [exact Hn|auto].
  - intros (Hd & Hl & Hg). split; [apply escape_free_ok, Hd|auto].
Qed.

Lemma s_stream cap its : 0 < cap -> good_stream_lit cap its ->
  exists d1 c1, rx_run cap rx0 (render its) =
    ({| st := WAIT; dlci := d1; ctrl := c1; buf := []; blen := 0 |}, map rmsg (frames_of its)).
Proof. intros Hc Hg. apply (rx_stream cap Hc its 0 0 (good_stream_of_lit cap its Hg)). Qed.

Lemma s_stream_delivered cap reg its : 0 < cap -> good_stream_lit cap its ->
  Forall (fun x => fst x < 129 /\ In (fst x) reg) (frames_of its) ->
  delivered reg (msgs (snd (rx_run cap rx0 (render its)))) = frames_of its.
Proof.
  intros Hc Hg Hr. apply rx_stream_delivered; [exact Hc|apply good_stream_of_lit, Hg|].
  eapply Forall_impl; [|exact Hr]. intros x [H1 H2]. unfold registered. apply andb_true_iff. split.
  - rewrite handler_max_val. lia.
  - apply existsb_exists. exists (fst x). split; [exact H2|apply Z.eqb_refl].
Qed.

Lemma s_rx_memory_safe cap l : 0 <= cap ->
  0 <= blen (fst (rx_run cap rx0 l)) <= cap /\
  blen (fst (rx_run cap rx0 l)) = len (buf (fst (rx_run cap rx0 l))) /\
  ~ In RAbort (snd (rx_run cap rx0 l)) /\
  (forall d p, In (d, p) (msgs (snd (rx_run cap rx0 l))) -> len p < cap).
Proof.
  intros Hc. destruct (rx_run_inv cap l Hc rx0 (rx0_inv cap Hc)) as ([H1 H2] & H3 & H4). auto.
Qed.

Lemma s_overlong_resync cap pre d p d1 p1 post :
  0 < cap -> good_stream_lit cap pre -> escape_free d -> cap <= len p ->
  escape_free d1 -> len p1 < cap -> good_stream_lit cap post ->
  exists s evs,
    rx_run cap rx0 (render (pre ++ Frame d p :: Frame d1 p1 :: post)) = (s, evs) /\ ~ In RAbort evs /\
    filter (fun x => negb (fst x =? 126)) (msgs evs) =
      frames_of pre ++ (if cap <? len p then [] else [(d1, p1)]) ++ frames_of post.
Proof.
  intros Hc Hpre Hd Hp Hd1 Hp1 Hpost.
  apply (overlong_resync cap pre d p d1 p1 post Hc (good_stream_of_lit _ _ Hpre) (escape_free_ok _ Hd) Hp
           (escape_free_ok _ Hd1) Hp1 (good_stream_of_lit _ _ Hpost)).
Qed.

(* general form: any mix of in-size and over-long frames; noise only where the receiver is in sync *)
Fixpoint wf_stream_lit (cap : Z) (skew : bool) (its : list item) : Prop :=
  match its with
  | [] => True
  | Noise n :: r => Forall (fun b => b <> 126) n /\ (skew = true -> n = []) /\ wf_stream_lit cap skew r
  | Frame d p :: r =>
      escape_free d /\ wf_stream_lit cap (if len p <? cap then false else skew || (cap <? len p)) r
  end.

Lemma wf_stream_of_lit cap its : forall skew, wf_stream_lit cap skew its -> wf_stream cap skew its.
Proof.
  induction its as [|[n|d p] its IH]; intros skew; cbn [wf_stream_lit wf_stream]; [auto| |].
  - intros (Hn & Hs & Hw). auto.
  - intros (Hd & Hw). split; [apply escape_free_ok, Hd|auto].
Qed.

Lemma s_stream_general cap its : 0 < cap -> wf_stream_lit cap false its ->
  exists s evs, rx_run cap rx0 (render its) = (s, evs) /\ ~ In RAbort evs /\
    filter (fun x => negb (fst x =? 126)) (msgs evs) = expect cap false its.
Proof.
  intros Hc Hw. destruct (rx_stream_gen cap Hc its false 0 0 (wf_stream_of_lit _ _ _ Hw)) as (d1 & c1 & sk & evs & E & Hf & Ha).
  cbn [st_of] in E. change (mk WAIT 0 0 [] 0) with rx0 in E. eexists _, evs. split; [exact E|]. split; [exact Ha|exact Hf].
Qed.

Definition valid_hist (h : list op) : Prop :=
  Forall (fun o => match o with Send d _ => 0 <= d < 129 | Pull => True end) h.

Lemma valid_hist_ok h : valid_hist h -> Forall valid_op h.
Proof. intros H. eapply Forall_impl; [|exact H]. intros [d p|] Ho; [exact Ho|exact I]. Qed.

Lemma s_pull_refines_frames h : valid_hist h ->
  exists started,
    snd (tx_run tx0 h) ++ remaining (fst (tx_run tx0 h)) = concat (map frame' started) /\
    (forall d, 0 <= d < 129 ->
       map hdr' (filter (on_dlci d) started) ++ qget (queues (fst (tx_run tx0 h))) d = map hdr' (filter (on_dlci d) (sends h))) /\
    (forall x, In x started -> In x (sends h)).
Proof. intros Hv. apply (pull_refines_frames h (valid_hist_ok h Hv)). Qed.

Lemma s_pull_priority h : valid_hist h -> let t := fst (tx_run tx0 h) in
  (cur t = None ->
    (pull t = (PNone, t) /\ forall i, nth i (queues t) [] = []) \/
    (exists i m t', pull t = (PCh 126, t') /\ cur t' = Some m /\ (i < 129)%nat /\
                    nth i (queues t) [] = m :: nth i (queues t') [] /\
                    (forall j, (j < i)%nat -> nth j (queues t) [] = []) /\
                    (forall j, j <> i -> nth j (queues t') [] = nth j (queues t) []))) /\
  (forall l, cur t = Some l -> exists c t', pull t = (PCh c, t') /\ remaining t = c :: remaining t' /\ queues t' = queues t) /\
  (forall d p t', sendmsg t d p = Some t' -> cur t' = cur t /\ tstate t' = tstate t /\ remaining t' = remaining t).
Proof.
  intros Hv t.
  destruct (tx_run_inv h [] tx0 [] [] (valid_hist_ok h Hv) tx_inv_init) as (started & Hok & Hlen & _).
  fold t in Hok, Hlen. split; [|split].
  - intros Hc. destruct (pull_priority t Hc) as [H|(i & m & t' & H1 & H2 & H3 & H4)]; [left; exact H|right].
    exists i, m, t'. rewrite Hlen in H3. unfold NQ in H3. rewrite dlci_max_val in H3. split; [exact H1|]. split; [exact H2|].
    split; [lia|exact H4].
  - intros l Hl. destruct (pull_busy t l Hl Hok) as (c & t' & H1 & H2 & H3 & _). eauto.
  - intros d p t' H. destruct (sendmsg_keeps_cur t d p t' H) as (H1 & H2 & H3 & _). auto.
Qed.

Lemma s_tx_never_oob h : fst (pull (fst (tx_run tx0 h))) <> POOB.
Proof.
  apply pull_no_oob. apply tx_never_oob. unfold tx_ok, tx0. cbn [cur tstate]. discriminate.
Qed.

Lemma s_send_ok t d p : 0 <= d < 129 -> exists t', sendmsg t d p = Some t'.
Proof. intros H. eexists. apply sendmsg_valid. rewrite dlci_max_val. exact H. Qed.

Lemma s_send_oob t d p : d < 0 \/ 129 <= d -> sendmsg t d p = None.
Proof.
  intros H. unfold sendmsg. replace (HEADROOM <? 2) with false by reflexivity. rewrite dlci_max_val.
  destruct ((0 <=? d) && (d <? 129)) eqn:E; [lia|reflexivity].
Qed.

Lemma s_batch_order sd n : Forall (fun x => 0 <= fst x < 129) sd ->
  (length (concat (map frame' (sorted_by_dlci sd))) <= n)%nat ->
  snd (tx_run tx0 (map send_of sd ++ repeat Pull n)) = concat (map frame' (sorted_by_dlci sd)).
Proof. intros Hv Hn. apply batch_order; assumption. Qed.

Lemma s_sorted_by_dlci sd :
  sorted_by_dlci sd = flat_map (fun i => filter (fun x => fst x =? Z.of_nat i) sd) (seq 0 129).
Proof. reflexivity. Qed.

Definition valid_hist_e2e (cap : Z) (h : list op) : Prop :=
  Forall (fun o => match o with Send d p => 0 <= d < 129 /\ escape_free d /\ len p < cap | Pull => True end) h.

Lemma valid_hist_e2e_ok cap h : valid_hist_e2e cap h -> Forall (valid_op_e2e cap) h.
Proof.
  intros H. eapply Forall_impl; [|exact H]. intros [d p|] Ho; [|exact I].
  destruct Ho as (H1 & H2 & H3). unfold valid_op_e2e, valid_msg. cbn [fst snd]. rewrite dlci_max_val.
  split; [exact H1|]. split; [apply escape_free_ok, H2|exact H3].
Qed.

Lemma s_end_to_end cap h : 0 < cap -> valid_hist_e2e cap h ->
  exists started rest,
    snd (rx_run cap rx0 (snd (tx_run tx0 h))) ++ rest = map rmsg started /\
    (remaining (fst (tx_run tx0 h)) = [] -> rest = []) /\
    (forall d, 0 <= d < 129 ->
       map hdr' (filter (on_dlci d) started) ++ qget (queues (fst (tx_run tx0 h))) d = map hdr' (filter (on_dlci d) (sends h))).
Proof. intros Hc Hv. apply (end_to_end cap h Hc (valid_hist_e2e_ok cap h Hv)). Qed.

Lemma s_end_to_end_batch cap sd n : 0 < cap ->
  Forall (fun x => 0 <= fst x < 129 /\ escape_free (fst x) /\ len (snd x) < cap) sd ->
  (length (concat (map frame' (sorted_by_dlci sd))) <= n)%nat ->
  snd (rx_run cap rx0 (snd (tx_run tx0 (map send_of sd ++ repeat Pull n)))) = map rmsg (sorted_by_dlci sd).
Proof.
  intros Hc Hv Hn. apply end_to_end_batch; [exact Hc| |exact Hn].
  eapply Forall_impl; [|exact Hv]. intros x (H1 & H2 & H3). unfold valid_msg. rewrite dlci_max_val.
  split; [exact H1|]. split; [apply escape_free_ok, H2|exact H3].
Qed.

Lemma s_dlci0_refuted :
  ~ escape_free 0 /\ 0 <= 0 < 129 /\ len [65] < 2048 /\
  frame 0 [65] = [126; 125; 32; 3; 65; 126] /\
  msgs (snd (rx_run 2048 rx0 (frame 0 [65]))) = [(125, [3; 65])] /\
  msgs (snd (rx_run 2048 rx0 (frame 0 [65]))) <> [(0, [65])].
Proof.
  destruct dlci0_refuted as (_ & _ & H3 & H4 & H5).
  split; [unfold escape_free; lia|]. split; [lia|]. split; [exact H3|]. split; [reflexivity|]. split; assumption.
Qed.

Lemma s_dlci0_general cap p : 1 + len p < cap ->
  rx_run cap rx0 (frame 0 p) = ({| st := WAIT; dlci := 125; ctrl := 32; buf := []; blen := 0 |}, [RMsg 125 (3 :: p)]).
Proof. apply rx_frame_dlci0. Qed.

Lemma s_noise_after_overlong_refuted :
  wf_stream_lit 2048 false [Frame 5 (repeat 65 2049); Frame 5 [1]; Frame 5 [2]; Frame 5 [3]] /\
  expect 2048 false [Frame 5 (repeat 65 2049); Frame 5 [1]; Frame 5 [2]; Frame 5 [3]] = [(5, [2]); (5, [3])] /\
  Forall (fun b => b <> 126) [9; 1; 2] /\
  msgs (snd (rx_run 2048 rx0 (render [Frame 5 (repeat 65 2049); Noise [9; 1; 2]; Frame 5 [1]; Frame 5 [2]; Frame 5 [3]])))
  = [(9, [2]); (126, [3; 2]); (5, [3])].
Proof.
  split; [|split; [vm_compute; reflexivity|split; [repeat constructor; discriminate|exact noise_after_overlong_refuted_host]]].
  cbn [wf_stream_lit]. unfold escape_free.
  replace (len (repeat 65 2049)) with 2049 by (vm_compute; reflexivity).
  replace (len [1]) with 1 by reflexivity. replace (len [2]) with 1 by reflexivity. replace (len [3]) with 1 by reflexivity.
  cbn. repeat split; lia.
Qed.
