(* Lemmas about Model/MobAllocAss.v (C20): message -> cd_now.mob_alloc_lv -> gsm48_rr_render_ma. *)
From Coq Require Import ZArith List Bool Lia ZifyBool.
From OBB Require Import Base.Range Gen.MobAllocConst Gen.MobAllocSi4Const Model.MobAlloc Model.MobAllocSi4 Model.MobAllocAss Proofs.MobAllocP Proofs.MobAllocSi4P Proofs.MobAllocHistP.
Import ListNotations.
Open Scope Z_scope.
Ltac Zify.zify_post_hook ::= Z.to_euclidean_division_equations.

Lemma zero_lv_eq : zero_lv = [0; 0; 0; 0; 0; 0; 0; 0; 0].
Proof. reflexivity. Qed.

Lemma firstn_cons_app (l : Z) (v rest : list Z) : Zlength v = l -> firstn (Z.to_nat (l + 1)) (l :: v ++ rest) = l :: v.
Proof. intros Hv. pose proof (Zlength_nonneg v). replace (Z.to_nat (l + 1)) with (S (length v)) by (rewrite Zlength_correct in Hv; lia).
  cbn [firstn]. f_equal. apply firstn_exact. Qed.

(* nothing lost, nothing else written *)
Lemma lv_copy_ok limit slack l v rest lv0 : Zlength v = l -> l <= limit -> 0 <= slack <= Zlength rest -> l + 1 <= Zlength lv0 ->
  lv_copy limit slack (l :: v ++ rest) lv0 = ACopied (l :: v ++ skipn (Z.to_nat (l + 1)) lv0).
Proof. intros Hv Hl Hs Hlv. pose proof (Zlength_nonneg v). unfold lv_copy. cbv zeta.
  assert (HL : Zlength (l :: v ++ rest) = 1 + l + Zlength rest) by (rewrite Zlength_cons, Zlength_app; lia). rewrite HL.
  replace (1 + l + Zlength rest - 1 <? 0) with false by lia. change (rd (l :: v ++ rest) 0) with (Some l). cbv iota.
  replace (1 + l + Zlength rest - 1 <? l + slack) with false by lia. replace (limit <? l) with false by lia.
  replace ((1 + l + Zlength rest <? l + 1) || (Zlength lv0 <? l + 1)) with false by lia.
  rewrite firstn_cons_app by exact Hv. reflexivity. Qed.

Lemma lv_copy_zero limit slack l v rest : Zlength v = l -> l <= limit -> limit <= 8 -> 0 <= slack <= Zlength rest ->
  lv_copy limit slack (l :: v ++ rest) zero_lv = ACopied (l :: v ++ map (fun _ => 0) (range 0 (8 - l))).
Proof. intros Hv Hl H8 Hs. pose proof (Zlength_nonneg v). rewrite lv_copy_ok by (try assumption; rewrite zero_lv_eq; change (Zlength _) with 9; lia).
  f_equal. f_equal. f_equal. rewrite zero_lv_eq. assert (Hc : l = 0 \/ l = 1 \/ l = 2 \/ l = 3 \/ l = 4 \/ l = 5 \/ l = 6 \/ l = 7 \/ l = 8) by lia.
  destruct Hc as [->|[->|[->|[->|[->|[->|[->|[->| ->]]]]]]]]; reflexivity. Qed.

Lemma lv_copy_too_large limit slack tl lv0 l : rd tl 0 = Some l -> limit < l -> lv_copy limit slack tl lv0 = ARefuse (-22).
Proof. intros Hr Hl. unfold lv_copy. cbv zeta. destruct (Zlength tl - 1 <? 0); [reflexivity|]. rewrite Hr.
  destruct (Zlength tl - 1 <? l + slack); [reflexivity|]. replace (limit <? l) with true by lia. reflexivity. Qed.

Lemma lv_copy_short limit slack l v' lv0 : Zlength v' < l + slack -> lv_copy limit slack (l :: v') lv0 = ARefuse (-22).
Proof. intros Hv. pose proof (Zlength_nonneg v'). unfold lv_copy. cbv zeta. rewrite Zlength_cons.
  replace (Z.succ (Zlength v') - 1 <? 0) with false by lia. change (rd (l :: v') 0) with (Some l). cbv iota.
  replace (Z.succ (Zlength v') - 1 <? l + slack) with true by lia. reflexivity. Qed.

Lemma lv_copy_nil limit slack lv0 : lv_copy limit slack [] lv0 = ARefuse (-22).
Proof. reflexivity. Qed.

(* in bounds for every message and every limit up to the capacity of the array *)
Lemma lv_copy_safe limit slack tl lv0 : octets tl -> octets lv0 -> Zlength lv0 = 9 -> limit <= 8 -> 0 <= slack ->
  lv_copy limit slack tl lv0 = ARefuse (-22) \/
  exists lv, lv_copy limit slack tl lv0 = ACopied lv /\ Zlength lv = 9 /\ octets lv /\ 0 <= zn lv 0 <= limit /\ zn lv 0 = zn tl 0.
Proof. intros Ho Ho0 Hlv Hlim Hs. unfold lv_copy. cbv zeta. destruct (Zlength tl - 1 <? 0) eqn:E0; [left; reflexivity|].
  rewrite rd_ok by lia. pose proof (octets_zn tl 0 Ho ltac:(lia)) as Hl. set (l := zn tl 0) in *.
  destruct (Zlength tl - 1 <? l + slack) eqn:E1; [left; reflexivity|]. destruct (limit <? l) eqn:E2; [left; reflexivity|].
  replace ((Zlength tl <? l + 1) || (Zlength lv0 <? l + 1)) with false by lia. right. eexists. split; [reflexivity|].
  split; [rewrite Zlength_app, Zlength_firstn, Zlength_skipn by lia; lia|].
  split; [apply octets_app; split; [apply octets_firstn, Ho|apply octets_skipn, Ho0]|].
  assert (Hz : zn (firstn (Z.to_nat (l + 1)) tl ++ skipn (Z.to_nat (l + 1)) lv0) 0 = l).
  { destruct tl as [|t r]; [rewrite Zlength_nil in E0; lia|]. replace (Z.to_nat (l + 1)) with (S (Z.to_nat l)) by lia. reflexivity. }
  rewrite Hz. split; [lia|reflexivity]. Qed.

(* the copied array rendered: the specified list for the bitmap IN THE MESSAGE *)
Lemma render_copied l v z freq ma ma_len : Zlength v = l -> render_ma (l :: v ++ z) freq ma ma_len = render_ma (l :: v) freq ma ma_len.
Proof. intros Hv. pose proof (Zlength_nonneg v). unfold render_ma. change (rd (l :: v ++ z) 0) with (Some l). change (rd (l :: v) 0) with (Some l). cbv iota.
  destruct (l =? 0); [reflexivity|]. cbn [skipn].
  rewrite (decode_ext freq (v ++ z) v) by (try lia; intros k Hk; apply rd_app_l; lia). reflexivity. Qed.

Lemma imm_spec limit ours l v rest freq ma ma_len : (limit = 8 \/ limit = 4) -> ours <> 0 ->
  Zlength v = l -> 1 <= l <= limit -> Zlength freq = 1024 -> Zlength ma = 64 ->
  exists freq', imm_handler limit ours 1 (l :: v ++ rest) freq ma ma_len =
    AsEst (l :: v ++ map (fun _ => 0) (range 0 (8 - l)))
          (Ok (if Zlength (spec_hopping freq v l) <? 1 then 101 else 0)
              (mkst freq' (spec_hopping freq v l ++ skipn (length (spec_hopping freq v l)) ma) (Zlength (spec_hopping freq v l)))).
Proof. intros Hlim Ho Hv Hl Hf Hm. unfold imm_handler. pose proof (Zlength_nonneg rest).
  rewrite lv_copy_zero by (try assumption; lia). replace (ours =? 0) with false by lia. change (1 =? 0) with false. cbv iota.
  rewrite render_copied by exact Hv. destruct (render_spec l v freq ma ma_len ltac:(lia) ltac:(lia) Hf Hm) as (fr' & E). rewrite E.
  exists fr'. reflexivity. Qed.

Lemma imm_safe limit ours h tl freq ma ma_len : (limit = 8 \/ limit = 4) -> octets tl -> Zlength freq = 1024 -> Zlength ma = 64 ->
  imm_handler limit ours h tl freq ma ma_len = AsRefused (-22) \/ imm_handler limit ours h tl freq ma ma_len = AsNotOurs \/
  exists lv rc s, imm_handler limit ours h tl freq ma ma_len = AsEst lv (Ok rc s) /\ Zlength lv = 9 /\ zn lv 0 <= limit.
Proof. intros Hlim Ho Hf Hm. unfold imm_handler.
  assert (Hoz : octets zero_lv) by (rewrite zero_lv_eq; repeat constructor; lia).
  destruct (lv_copy_safe limit 0 tl zero_lv Ho Hoz ltac:(reflexivity) ltac:(lia) ltac:(lia)) as [->|(lv & -> & Hl9 & Holv & Hl0 & Hz)]; [left; reflexivity|].
  destruct (ours =? 0); [right; left; reflexivity|]. right. right. destruct (h =? 0); [exists lv, 0, (mkst freq ma 0); split; [reflexivity|split; [exact Hl9|lia]]|].
  destruct (render_safe lv freq ma ma_len Hl9 Holv Hf Hm) as (rc & s & E). rewrite E. exists lv, rc, s. split; [reflexivity|]. split; [exact Hl9|lia]. Qed.

(* non-vacuity: IMM ASS EXT (limit 4), two bitmap octets 0f ff + a starting-time IE behind; cell allocation of 12 channels *)
Example ex_imm : match imm_handler 4 1 1 [2; 15; 255; 124; 1; 2] (tbl [512; 519; 526; 533; 540; 547; 554; 561; 568; 575; 582; 589] 0) (repeat 7 64) 9 with
                 | AsEst lv (Ok rc s) => lv ++ [rc; s_hlen s] ++ firstn 3 (s_hop s) | _ => [-1] end
                 = [2; 15; 255; 0; 0; 0; 0; 0; 0; 0; 12; 512; 519; 526].
Proof. vm_compute. reflexivity. Qed.
Example ex_imm_refused : imm_handler 4 1 1 [5; 1; 2; 3; 4; 5] [] [] 0 = AsRefused (-22).
Proof. vm_compute. reflexivity. Qed.
