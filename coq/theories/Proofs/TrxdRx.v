(* RxMsg: validation = protocol ranges, encoding layout, round trip, legacy padding *)
From Coq Require Import ZArith List Bool Lia ZifyBool.
From OBB Require Import Base.Range Gen.TrxdConst Model.Trxd Proofs.TrxdBase Proofs.TrxdTx.
Import ListNotations.
Open Scope Z_scope.
Ltac Zify.zify_post_hook ::= Z.to_euclidean_division_equations.

(* burst length of the i-th modulation (GMSK, 8-PSK, GMSK-AB, 16QAM, 32QAM, AQPSK), literal *)
Definition spec_mod_bl (i : nat) : Z := nth i [148; 444; 148; 592; 740; 296] 0.
Lemma mod_bl_spec i : mod_bl i = spec_mod_bl i.
Proof. unfold mod_bl, spec_mod_bl. rewrite gen_mods. do 6 (destruct i as [|i]; [reflexivity|]). destruct i; reflexivity. Qed.

Definition spec_mts (m : rxmsg) : Prop :=
  exists i s t, r_mod m = Some i /\ (i < 6)%nat /\ r_tset m = Some s /\ r_tsc m = Some t /\ 0 <= t <= 7 /\
                (if Nat.eqb i 0 then 0 <= s <= 3 else 0 <= s <= 1).
Definition spec_rx_burst (m : rxmsg) : Prop :=
  (r_ver m = 0 -> exists b, r_burst m = Some b /\ (length b = 148%nat \/ length b = 444%nat)) /\
  (r_ver m = 1 -> if r_nope m then r_burst m = None
                  else exists b i, r_burst m = Some b /\ r_mod m = Some i /\ Z.of_nat (length b) = spec_mod_bl i).
Definition spec_rx (m : rxmsg) : Prop :=
  spec_common (r_ver m) (r_fn m) (r_tn m)
  /\ (exists r, r_rssi m = Some r /\ -120 <= r <= -47)
  /\ (exists a, r_toa m = Some a /\ -32768 <= a <= 32767)
  /\ (r_ver m = 1 -> r_nope m = false -> spec_mts m)
  /\ (r_ver m = 1 -> exists c, r_ci m = Some c /\ -1280 <= c <= 1280)
  /\ spec_rx_burst m.

Definition mts_part (m : rxmsg) : res unit :=
  if (r_ver m >=? 1) && negb (r_nope m) then
    match r_mod m with
    | None => VErr
    | Some i =>
      if Nat.ltb i (length mods) then
        _ <- (match r_tset m with
              | None => VErr
              | Some s => if Nat.eqb i GMSK_IDX then (if (0 <=? s) && (s <? 4) then Ok tt else VErr)
                          else (if (0 <=? s) && (s <? 2) then Ok tt else VErr)
              end) ;;
        in_rng tsc_min tsc_max (r_tsc m)
      else VErr
    end
  else Ok tt.

Lemma mts_part_iff m : (r_ver m = 0 \/ r_ver m = 1) ->
  (mts_part m = Ok tt <-> (r_ver m = 1 -> r_nope m = false -> spec_mts m)).
Proof.
  intros Hv. unfold mts_part, spec_mts. destruct gen_tsc as [-> ->]. rewrite gen_mods. cbn [length].
  destruct Hv as [-> | ->].
  - change (0 >=? 1) with false. cbn [andb]. split; [intros _ H; discriminate|reflexivity].
  - change (1 >=? 1) with true. cbn [andb]. destruct (r_nope m); cbn [negb].
    + split; [intros _ _ H; discriminate|reflexivity].
    + split.
      * intros H _ _. destruct (r_mod m) as [i|]; [|discriminate].
        destruct (Nat.ltb i 6) eqn:Hi; [|discriminate]. apply Nat.ltb_lt in Hi.
        apply bind_ok in H as [[] [H1 H2]]. apply in_rng_ok in H2 as [t [Et Ht]].
        destruct (r_tset m) as [s|]; [|discriminate].
        exists i, s, t. split; [reflexivity|]. split; [exact Hi|]. split; [reflexivity|]. split; [exact Et|]. split; [exact Ht|].
        unfold GMSK_IDX in H1. destruct (Nat.eqb i 0); destruct (_ && _) eqn:E in H1; try discriminate; lia.
      * intros H. destruct (H eq_refl eq_refl) as [i [s [t [-> [Hi [-> [-> [Ht Hs]]]]]]]].
        apply Nat.ltb_lt in Hi. rewrite Hi. unfold GMSK_IDX.
        assert (E : in_rng 0 7 (Some t) = Ok tt) by (apply in_rng_iff; eauto).
        destruct (Nat.eqb i 0); destruct (_ && _) eqn:E2; cbn [bind]; try exact E; lia.
Qed.

Lemma mts_part_cases m : mts_part m = Ok tt \/ mts_part m = VErr.
Proof.
  unfold mts_part. destruct (_ && _); [|auto]. destruct (r_mod m) as [i|]; [|auto]. destruct (Nat.ltb _ _); [|auto].
  destruct (r_tset m) as [s|]; [|auto].
  destruct (Nat.eqb i GMSK_IDX); destruct (_ && _); cbn [bind]; auto; apply in_rng_cases.
Qed.

Lemma validate_burst_rx_iff m : (r_ver m = 0 \/ r_ver m = 1) -> (r_ver m = 1 -> r_nope m = false -> exists i, r_mod m = Some i) ->
  (validate_burst_rx m = Ok tt <-> spec_rx_burst m).
Proof.
  intros Hv Hm. unfold validate_burst_rx, spec_rx_burst. destruct gen_bl as [-> ->].
  destruct Hv as [E | E]; rewrite E in *.
  - change (0 =? 0) with true. cbv iota. split.
    + intros H. split; [|intros; discriminate]. intros _. destruct (r_burst m) as [b|]; [|discriminate]. exists b. split; [reflexivity|].
      destruct (_ || _) eqn:E2 in H; [lia|discriminate].
    + intros [H _]. destruct (H eq_refl) as [b [-> Hl]]. destruct (_ || _) eqn:E2; [reflexivity|lia].
  - change (1 =? 0) with false. change (1 >=? 1) with true. cbv iota. split.
    + intros H. split; [intros; discriminate|]. intros _. destruct (r_nope m).
      * destruct (r_burst m); [discriminate|reflexivity].
      * destruct (r_burst m) as [b|]; [|discriminate]. destruct (r_mod m) as [i|]; [|discriminate].
        exists b, i. repeat split. rewrite <- mod_bl_spec. destruct (_ =? _) eqn:E2 in H; [lia|discriminate].
    + intros [_ H]. specialize (H eq_refl). destruct (r_nope m).
      * rewrite H. reflexivity.
      * destruct H as [b [i [-> [-> Hl]]]]. rewrite mod_bl_spec. destruct (_ =? _) eqn:E2; [reflexivity|lia].
Qed.

Lemma validate_rx_unfold m : validate_rx m =
  (_ <- validate_common (r_ver m) (r_fn m) (r_tn m) ;;
   _ <- in_rng rssi_min rssi_max (r_rssi m) ;;
   _ <- in_rng toa256_min toa256_max (r_toa m) ;;
   _ <- mts_part m ;;
   _ <- (if r_ver m >=? 1 then in_rng ci_min ci_max (r_ci m) else Ok tt) ;;
   validate_burst_rx m).
Proof. reflexivity. Qed.

Lemma validate_rx_iff m : validate_rx m = Ok tt <-> spec_rx m.
Proof.
  rewrite validate_rx_unfold. unfold spec_rx.
  destruct gen_rssi as [-> ->]. destruct gen_toa as [-> ->]. destruct gen_ci as [-> ->].
  split.
  - intros H. apply bind_ok in H as [[] [H1 H]]. apply bind_ok in H as [[] [H2 H]]. apply bind_ok in H as [[] [H3 H]].
    apply bind_ok in H as [[] [H4 H]]. apply bind_ok in H as [[] [H5 H]].
    apply validate_common_iff in H1. pose proof H1 as [Hv _]. apply in_rng_ok in H2, H3.
    pose proof (proj1 (mts_part_iff m Hv) H4) as H4'. clear H4. rename H4' into H4.
    split; [exact H1|]. split; [exact H2|]. split; [exact H3|]. split; [exact H4|].
    split.
    + intros E. rewrite E in H5. change (1 >=? 1) with true in H5. apply in_rng_ok in H5. exact H5.
    + apply validate_burst_rx_iff; [exact Hv| |exact H]. intros E1 E2. destruct (H4 E1 E2) as [i [_ [_ [Ei _]]]]. eauto.
  - intros [H1 [H2 [H3 [H4 [H5 H6]]]]]. pose proof H1 as [Hv _].
    apply validate_common_iff in H1. apply in_rng_iff in H2, H3. rewrite H1, H2, H3. cbn [bind].
    pose proof H4 as H4'. pose proof (proj2 (mts_part_iff m Hv) H4) as H4m. rewrite H4m. cbn [bind].
    assert (E5 : (if r_ver m >=? 1 then in_rng (-1280) 1280 (r_ci m) else Ok tt) = Ok tt).
    { destruct Hv as [E | E]; rewrite E; [reflexivity|]. change (1 >=? 1) with true. apply in_rng_iff, H5, E. }
    rewrite E5. cbn [bind]. apply validate_burst_rx_iff; [exact Hv| |exact H6].
    intros E1 E2. destruct (H4' E1 E2) as [i [_ [_ [Ei _]]]]. eauto.
Qed.

Lemma validate_burst_rx_cases m : (r_ver m >=? 1 = true -> r_nope m = false -> r_mod m <> None) ->
  validate_burst_rx m = Ok tt \/ validate_burst_rx m = VErr.
Proof.
  intros Hm. unfold validate_burst_rx. destruct (r_ver m =? 0).
  - destruct (r_burst m); [destruct (_ || _)|]; auto.
  - destruct (r_ver m >=? 1) eqn:E; [|auto]. destruct (r_nope m); destruct (r_burst m); auto.
    destruct (r_mod m) as [i|]; [destruct (_ =? _); auto|]. exfalso. apply Hm; auto.
Qed.

(* validation never raises anything but ValueError *)
Lemma validate_rx_cases m : validate_rx m = Ok tt \/ validate_rx m = VErr.
Proof.
  rewrite validate_rx_unfold.
  destruct (validate_common_cases (r_ver m) (r_fn m) (r_tn m)) as [->| ->]; cbn [bind]; [|auto].
  destruct (in_rng_cases rssi_min rssi_max (r_rssi m)) as [->| ->]; cbn [bind]; [|auto].
  destruct (in_rng_cases toa256_min toa256_max (r_toa m)) as [->| ->]; cbn [bind]; [|auto].
  destruct (mts_part_cases m) as [E| ->]; cbn [bind]; [|auto]. rewrite E. cbn [bind].
  assert (Hc : forall x, (if r_ver m >=? 1 then in_rng ci_min ci_max x else Ok tt) = Ok tt \/ (if r_ver m >=? 1 then in_rng ci_min ci_max x else Ok tt) = VErr)
    by (intros x; destruct (_ >=? _); [apply in_rng_cases|auto]).
  destruct (Hc (r_ci m)) as [->| ->]; cbn [bind]; [|auto].
  apply validate_burst_rx_cases. intros Hv Hn. unfold mts_part in E. rewrite Hv, Hn in E. cbn [andb negb] in E.
  destruct (r_mod m); [discriminate|discriminate].
Qed.

Lemma gen_rx_iff m l : (exists b, gen_rx l m = Ok b) <-> validate_rx m = Ok tt.
Proof.
  unfold gen_rx. split.
  - intros [b H]. apply bind_ok in H as [[] [H _]]. exact H.
  - intros ->. cbn [bind]. eauto.
Qed.
Lemma gen_rx_cases m l : (exists b, gen_rx l m = Ok b) \/ gen_rx l m = VErr.
Proof. unfold gen_rx. destruct (validate_rx_cases m) as [->| ->]; cbn [bind]; eauto. Qed.
