(* basic facts about the TRXD model: Gen constants equal the protocol numbers, octet codecs, translate tables *)
From Coq Require Import ZArith List Bool Lia ZifyBool.
From OBB Require Import Base.Range Gen.TrxdConst Model.Trxd.
Import ListNotations.
Open Scope Z_scope.
Ltac Zify.zify_post_hook ::= Z.to_euclidean_division_equations.

(* ---- the regenerated constants are the protocol's ---- *)
Lemma gen_mods : mods = [(0,148); (4,444); (6,148); (8,592); (10,740); (12,296)]. Proof. reflexivity. Qed.
Lemma gen_versions : known_versions = [0; 1]. Proof. reflexivity. Qed.
Lemma gen_hyper : gsm_hyperframe = 2715648. Proof. reflexivity. Qed.
Lemma gen_bl : gmsk_burst_len = 148 /\ edge_burst_len = 444. Proof. split; reflexivity. Qed.
Lemma gen_pwr : pwr_min = 0 /\ pwr_max = 255. Proof. split; reflexivity. Qed.
Lemma gen_rssi : rssi_min = -120 /\ rssi_max = -47. Proof. split; reflexivity. Qed.
Lemma gen_toa : toa256_min = -32768 /\ toa256_max = 32767. Proof. split; reflexivity. Qed.
Lemma gen_tsc : tsc_min = 0 /\ tsc_max = 7. Proof. split; reflexivity. Qed.
Lemma gen_ci : ci_min = -1280 /\ ci_max = 1280. Proof. split; reflexivity. Qed.
Lemma gen_nope : nope_ind = 128. Proof. reflexivity. Qed.
Lemma gen_hdr_lens : hdr_lens = [(0,6,8); (1,6,11)] /\ chdr_len = 5. Proof. split; reflexivity. Qed.

Lemma known_iff v : known v = true <-> v = 0 \/ v = 1.
Proof. unfold known. rewrite gen_versions. cbn [existsb]. lia. Qed.

(* ---- octet codecs ---- *)
Lemma be32_rt x : 0 <= x < 4294967296 -> un_be32 (be32 x) = Ok x.
Proof. intros. unfold be32, un_be32. f_equal. lia. Qed.
Lemma i16_rt x : -32768 <= x < 32768 -> un_i16 (i16 x) = Ok x.
Proof. intros. unfold i16, un_i16. cbv zeta. f_equal. destruct (_ <? _) eqn:E; lia. Qed.
Lemma be32_bytes x : Forall (fun b => 0 <= b < 256) (be32 x).
Proof. unfold be32. repeat constructor; lia. Qed.
Lemma i16_bytes x : Forall (fun b => 0 <= b < 256) (i16 x).
Proof. unfold i16. cbv zeta. repeat constructor; lia. Qed.

(* ---- translate tables: finite sweeps over the whole octet range, lifted ---- *)
Lemma sweep_s2us : forallb (fun s => s2us s =? 127 - s) (range (-128) 128) = true.
Proof. vm_compute. reflexivity. Qed.
Lemma s2us_f s : -128 <= s < 128 -> s2us s = 127 - s.
Proof. intros Hs. pose proof (forallb_range _ _ _ sweep_s2us s Hs) as E. cbv beta in E. lia. Qed.

Lemma sweep_us2s : forallb (fun u => us2s u =? (if u =? 255 then -127 else 127 - u)) (range 0 256) = true.
Proof. vm_compute. reflexivity. Qed.
Lemma us2s_f u : 0 <= u < 256 -> us2s u = (if u =? 255 then -127 else 127 - u).
Proof. intros Hu. pose proof (forallb_range _ _ _ sweep_us2s u Hu) as E. cbv beta in E. lia. Qed.

Lemma sweep_u2s : forallb (fun u => u2s u =? (if u =? 0 then 127 else -127)) (range 0 256) = true.
Proof. vm_compute. reflexivity. Qed.
Lemma u2s_f u : 0 <= u < 256 -> u2s u = (if u =? 0 then 127 else -127).
Proof. intros Hu. pose proof (forallb_range _ _ _ sweep_u2s u Hu) as E. cbv beta in E. lia. Qed.

Lemma sweep_s2u : forallb (fun s => s2u s =? (if s <? 0 then 1 else 0)) (range (-128) 128) = true.
Proof. vm_compute. reflexivity. Qed.
Lemma s2u_f s : -128 <= s < 128 -> s2u s = (if s <? 0 then 1 else 0).
Proof. intros Hs. pose proof (forallb_range _ _ _ sweep_s2u s Hs) as E. cbv beta in E. lia. Qed.

Lemma us_rt l : Forall (fun s => -127 <= s <= 127) l -> map us2s (map s2us l) = l.
Proof.
  induction 1 as [|s l Hs _ IH]; cbn [map]; [reflexivity|]. rewrite IH. f_equal.
  rewrite s2us_f by lia. rewrite us2s_f by lia. destruct (127 - s =? 255) eqn:E; lia.
Qed.

Lemma s2us_bytes l : Forall (fun s => -128 <= s <= 127) l -> Forall (fun b => 0 <= b < 256) (map s2us l).
Proof. induction 1 as [|s l Hs _ IH]; cbn [map]; constructor; [rewrite s2us_f; lia|exact IH]. Qed.

(* a -128 soft bit validates but is not preserved: it is outside the property's [-127,127] *)
Example soft_m128_not_injective : us2s (s2us (-128)) = -127.
Proof. vm_compute. reflexivity. Qed.

(* ---- version nibble / timeslot octet ---- *)
Lemma sweep_b0 : forallb (fun v => forallb (fun t =>
    let b0 := Z.lor (Z.shiftl v 4) (Z.land t 7) in (Z.shiftr b0 4 =? v) && (Z.land b0 7 =? t) && (0 <=? b0) && (b0 <? 256)) (range 0 8)) (range 0 2) = true.
Proof. vm_compute. reflexivity. Qed.
Lemma b0_rt v t : 0 <= v < 2 -> 0 <= t < 8 ->
  Z.shiftr (Z.lor (Z.shiftl v 4) (Z.land t 7)) 4 = v /\ Z.land (Z.lor (Z.shiftl v 4) (Z.land t 7)) 7 = t
  /\ 0 <= Z.lor (Z.shiftl v 4) (Z.land t 7) < 256.
Proof. intros Hv Ht. pose proof (forallb_range _ _ _ (forallb_range _ _ _ sweep_b0 v Hv) t Ht) as E. cbv beta zeta in E. lia. Qed.

(* ---- result monad ---- *)
Lemma bind_ok {A B} (r : res A) (f : A -> res B) b : bind r f = Ok b -> exists a, r = Ok a /\ f a = Ok b.
Proof. destruct r; cbn; [eauto|discriminate|discriminate]. Qed.
Lemma in_rng_ok lo hi o : in_rng lo hi o = Ok tt -> exists x, o = Some x /\ lo <= x <= hi.
Proof. unfold in_rng. destruct o as [x|]; [|discriminate]. destruct (_ || _) eqn:E; [discriminate|]. intros _. exists x. split; [reflexivity|lia]. Qed.
Lemma in_rng_iff lo hi o : in_rng lo hi o = Ok tt <-> exists x, o = Some x /\ lo <= x <= hi.
Proof.
  split; [apply in_rng_ok|]. intros [x [-> Hx]]. unfold in_rng. destruct (_ || _) eqn:E; [lia|reflexivity].
Qed.
Lemma in_rng_cases lo hi o : in_rng lo hi o = Ok tt \/ in_rng lo hi o = VErr.
Proof. unfold in_rng. destruct o; [destruct (_ || _)|]; auto. Qed.

Lemma firstn_app_exact {A} (l1 l2 : list A) n : n = length l1 -> firstn n (l1 ++ l2) = l1.
Proof. intros ->. rewrite firstn_app, Nat.sub_diag, firstn_all. cbn. apply app_nil_r. Qed.
