(* C08: the bucket sort of tdma_sched.c (_tdma_sched_bucket_sort, on the seq[] index array) is a selection sort:
   its result is a permutation of the slot indices 0..n-1, ascending in priority. *)
From Coq Require Import ZArith List Bool Lia Permutation Sorted.
From OBB Require Import Gen.FwSchedConst Model.TdmaSched.
Import ListNotations.
Open Scope Z_scope.

(* ---- upd / nth on lists ---- *)
Lemma upd_length {A} (l : list A) n v : length (upd l n v) = length l.
Proof. revert n. induction l as [|x r IH]; intros [|n]; cbn [upd length]; auto. Qed.

Lemma upd_middle {A} (l l' : list A) a v : upd (l ++ a :: l') (length l) v = l ++ v :: l'.
Proof. induction l as [|x r IH]; cbn [upd length app]; [reflexivity|]. rewrite IH. reflexivity. Qed.

Lemma nth_error_upd_eq {A} (l : list A) n v : (n < length l)%nat -> nth_error (upd l n v) n = Some v.
Proof. revert n. induction l as [|x r IH]; intros [|n] H; cbn [length] in H; cbn [upd nth_error]; try lia; [reflexivity|]. apply IH. lia. Qed.

Lemma nth_error_upd_neq {A} (l : list A) n k v : n <> k -> nth_error (upd l n v) k = nth_error l k.
Proof. revert n k. induction l as [|x r IH]; intros [|n] [|k] H; cbn [upd nth_error]; try reflexivity; try congruence. apply IH. congruence. Qed.

Lemma map_nth_seq {A} (l : list A) d : map (fun k => nth k l d) (seq 0 (length l)) = l.
Proof.
  induction l as [|x r IH]; cbn [length seq map nth]; [reflexivity|].
  f_equal. rewrite <- seq_shift, map_map. exact IH.
Qed.

(* ---- the sort seen on the list of elements in seq order: position i holds the current candidate,
        a strictly smaller later element is swapped into position i and the scan continues with it ---- *)
Fixpoint scan (key : nat -> Z) (x : nat) (rest : list nat) : nat * list nat :=
  match rest with
  | [] => (x, [])
  | y :: r => if key x >? key y then let '(m, r') := scan key y r in (m, x :: r')
              else let '(m, r') := scan key x r in (m, y :: r')
  end.

Fixpoint ssort (key : nat -> Z) (fuel : nat) (l : list nat) : list nat :=
  match fuel, l with
  | S k, x :: rest => let '(m, r') := scan key x rest in m :: ssort key k r'
  | _, _ => l
  end.

Lemma scan_spec key x rest : let '(m, r') := scan key x rest in
  Permutation (x :: rest) (m :: r') /\ key m <= key x /\ Forall (fun y => key m <= key y) r' /\ length r' = length rest.
Proof.
  revert x. induction rest as [|y r IH]; intros x; cbn [scan].
  - repeat split; auto. lia.
  - destruct (key x >? key y) eqn:E.
    + specialize (IH y). destruct (scan key y r) as [m r']. destruct IH as (P & Hle & Hall & Hlen).
      repeat split.
      * apply perm_trans with (x :: m :: r'); [constructor; exact P|apply perm_swap].
      * lia.
      * constructor; [lia|exact Hall].
      * cbn [length]. lia.
    + specialize (IH x). destruct (scan key x r) as [m r']. destruct IH as (P & Hle & Hall & Hlen).
      repeat split.
      * apply perm_trans with (y :: x :: r); [apply perm_swap|].
        apply perm_trans with (y :: m :: r'); [constructor; exact P|apply perm_swap].
      * lia.
      * constructor; [lia|exact Hall].
      * cbn [length]. lia.
Qed.

Lemma ssort_perm key fuel : forall l, Permutation l (ssort key fuel l).
Proof.
  induction fuel as [|k IH]; intros l; cbn [ssort]; [reflexivity|]. destruct l as [|x rest]; [reflexivity|].
  pose proof (scan_spec key x rest) as H. destruct (scan key x rest) as [m r']. destruct H as (P & _).
  rewrite P. constructor. apply IH.
Qed.

Lemma ssort_sorted key fuel : forall l, (length l <= fuel)%nat -> StronglySorted (fun a b => key a <= key b) (ssort key fuel l).
Proof.
  induction fuel as [|k IH]; intros l Hl; cbn [ssort].
  - destruct l; [constructor|cbn [length] in Hl; lia].
  - destruct l as [|x rest]; [constructor|].
    pose proof (scan_spec key x rest) as H. destruct (scan key x rest) as [m r']. destruct H as (P & Hle & Hall & Hlen).
    constructor.
    + apply IH. cbn [length] in Hl. lia.
    + eapply Permutation_Forall; [apply ssort_perm|exact Hall].
Qed.

(* ---- the index-array loops compute exactly that ---- *)
Lemma inner_scan b : forall rest pre x mid tail,
  sort_inner b (pre ++ x :: mid ++ rest ++ tail) (length pre) (prio_at b x)
             (seq (length pre + 1 + length mid) (length rest))
  = let '(m, r') := scan (prio_at b) x rest in pre ++ m :: mid ++ r' ++ tail.
Proof.
  induction rest as [|y r IH]; intros pre x mid tail.
  - cbn [length seq sort_inner scan app]. reflexivity.
  - cbn [length seq sort_inner scan].
    assert (Ej : (length pre + 1 + length mid)%nat = length (pre ++ x :: mid)) by (rewrite app_length; cbn [length]; lia).
    assert (Hnj : nth (length pre + 1 + length mid) (pre ++ x :: mid ++ (y :: r) ++ tail) O = y).
    { rewrite Ej. replace (pre ++ x :: mid ++ (y :: r) ++ tail) with ((pre ++ x :: mid) ++ y :: (r ++ tail))
        by (rewrite <- app_assoc; reflexivity). apply nth_middle. }
    assert (Hni : nth (length pre) (pre ++ x :: mid ++ (y :: r) ++ tail) O = x) by apply nth_middle.
    rewrite Hnj, Hni.
    destruct (prio_at b x >? prio_at b y) eqn:E.
    + rewrite upd_middle.
      replace (pre ++ y :: mid ++ (y :: r) ++ tail) with ((pre ++ y :: mid) ++ y :: (r ++ tail))
        by (rewrite <- app_assoc; reflexivity).
      replace (length pre + 1 + length mid)%nat with (length (pre ++ y :: mid)) by (rewrite app_length; cbn [length]; lia).
      rewrite upd_middle.
      replace ((pre ++ y :: mid) ++ x :: r ++ tail) with (pre ++ y :: (mid ++ [x]) ++ r ++ tail)
        by (rewrite <- !app_assoc; reflexivity).
      replace (S (length (pre ++ y :: mid))) with (length pre + 1 + length (mid ++ [x]))%nat
        by (rewrite !app_length; cbn [length]; lia).
      rewrite IH. destruct (scan (prio_at b) y r) as [m r']. rewrite <- !app_assoc. reflexivity.
    + replace (pre ++ x :: mid ++ (y :: r) ++ tail) with (pre ++ x :: (mid ++ [y]) ++ r ++ tail)
        by (rewrite <- !app_assoc; reflexivity).
      replace (S (length pre + 1 + length mid)) with (length pre + 1 + length (mid ++ [y]))%nat
        by (rewrite !app_length; cbn [length]; lia).
      rewrite IH. destruct (scan (prio_at b) x r) as [m r']. rewrite <- !app_assoc. reflexivity.
Qed.

Lemma outer_ssort_k b : forall k l pre tail n, length l = k -> n = (length pre + length l)%nat ->
  sort_outer b (pre ++ l ++ tail) n (seq (length pre) (length l)) = pre ++ ssort (prio_at b) (length l) l ++ tail.
Proof.
  induction k as [|k IH]; intros l pre tail n Hk Hn.
  - destruct l; [|discriminate Hk]. cbn [length seq sort_outer ssort app]. reflexivity.
  - destruct l as [|x rest]; [discriminate Hk|]. cbn [length] in Hk. injection Hk as Hk.
    cbn [length seq sort_outer ssort].
    assert (Hni : nth (length pre) (pre ++ (x :: rest) ++ tail) O = x) by apply nth_middle.
    rewrite Hni.
    replace (n - S (length pre))%nat with (length rest) by (cbn [length] in Hn; lia).
    pose proof (inner_scan b rest pre x [] tail) as HI. cbn [length app] in HI.
    replace (length pre + 1 + 0)%nat with (S (length pre)) in HI by lia.
    cbn [app]. rewrite HI.
    pose proof (scan_spec (prio_at b) x rest) as HS.
    destruct (scan (prio_at b) x rest) as [m r']. destruct HS as (_ & _ & _ & Hlen).
    replace (pre ++ m :: r' ++ tail) with ((pre ++ [m]) ++ r' ++ tail) by (rewrite <- app_assoc; reflexivity).
    replace (S (length pre)) with (length (pre ++ [m])) by (rewrite app_length; cbn [length]; lia).
    rewrite <- Hlen. rewrite IH.
    + rewrite <- app_assoc. reflexivity.
    + lia.
    + rewrite app_length. cbn [length] in *. lia.
Qed.

Lemma outer_ssort b l pre tail n : n = (length pre + length l)%nat ->
  sort_outer b (pre ++ l ++ tail) n (seq (length pre) (length l)) = pre ++ ssort (prio_at b) (length l) l ++ tail.
Proof. intros Hn. apply (outer_ssort_k b (length l)); [reflexivity|exact Hn]. Qed.

Lemma num_cb_nat : Z.to_nat c_TDMASCHED_NUM_CB = 8%nat.
Proof. reflexivity. Qed.

Lemma firstn_app_l {A} (l l' : list A) : firstn (length l) (l ++ l') = l.
Proof. induction l as [|x r IH]; cbn [length firstn app]; [reflexivity|]. rewrite IH. reflexivity. Qed.

(* the order in which tdma_sched_execute visits the slots of a bucket with n <= 8 items *)
Definition slot_order (b : list item) : list nat := firstn (length b) (bucket_sort b).

Lemma slot_order_ssort b : (length b <= 8)%nat -> slot_order b = ssort (prio_at b) (length b) (seq 0 (length b)).
Proof.
  intros Hn. unfold slot_order, bucket_sort. rewrite num_cb_nat.
  replace 8%nat with (length b + (8 - length b))%nat at 1 by lia.
  rewrite seq_app. cbn [Nat.add].
  pose proof (outer_ssort b (seq 0 (length b)) [] (seq (length b) (8 - length b)) (length b)) as H.
  cbn [app length] in H. rewrite seq_length in H. specialize (H eq_refl).
  rewrite H.
  assert (L : length (ssort (prio_at b) (length b) (seq 0 (length b))) = length b).
  { rewrite <- (Permutation_length (ssort_perm (prio_at b) (length b) (seq 0 (length b)))). apply seq_length. }
  rewrite <- L at 1. apply firstn_app_l.
Qed.

Lemma slot_order_perm b : (length b <= 8)%nat -> Permutation (slot_order b) (seq 0 (length b)).
Proof. intros H. rewrite slot_order_ssort by exact H. symmetry. apply ssort_perm. Qed.

Lemma slot_order_sorted b : (length b <= 8)%nat ->
  StronglySorted (fun j k => prio_at b j <= prio_at b k) (slot_order b).
Proof. intros H. rewrite slot_order_ssort by exact H. apply ssort_sorted. rewrite seq_length. lia. Qed.

Lemma slot_once b k : (length b <= 8)%nat -> (k < length b)%nat -> count_occ Nat.eq_dec (slot_order b) k = 1%nat.
Proof.
  intros H Hk.
  pose proof (slot_order_perm b H) as P. rewrite (Permutation_count_occ Nat.eq_dec) in P. rewrite P.
  assert (ND : NoDup (seq 0 (length b))) by apply seq_NoDup.
  rewrite (NoDup_count_occ Nat.eq_dec) in ND. specialize (ND k).
  assert (IN : In k (seq 0 (length b))) by (apply in_seq; lia).
  rewrite (count_occ_In Nat.eq_dec) in IN. lia.
Qed.

Lemma exec_order_slots b : exec_order b = map (fun k => nth k b dflt) (slot_order b).
Proof. reflexivity. Qed.

Lemma exec_order_perm b : (length b <= 8)%nat -> Permutation (exec_order b) b.
Proof.
  intros H. rewrite exec_order_slots. rewrite <- (map_nth_seq b dflt) at 2.
  apply Permutation_map. apply slot_order_perm. exact H.
Qed.

Lemma StronglySorted_map {A B} (R : A -> A -> Prop) (S : B -> B -> Prop) (f : A -> B) l :
  (forall x y, R x y -> S (f x) (f y)) -> StronglySorted R l -> StronglySorted S (map f l).
Proof.
  intros HRS H. induction H as [|a l Hs IH Hall]; cbn [map]; constructor; [exact IH|].
  rewrite Forall_map. eapply Forall_impl; [|exact Hall]. intros y Hy. apply HRS. exact Hy.
Qed.

Lemma exec_order_sorted b : (length b <= 8)%nat ->
  StronglySorted (fun x y => i_prio x <= i_prio y) (exec_order b).
Proof.
  intros H. rewrite exec_order_slots.
  apply StronglySorted_map with (R := fun j k => prio_at b j <= prio_at b k); [|apply slot_order_sorted; exact H].
  intros x y Hxy. exact Hxy.
Qed.
