(* trxcon TRXD paths (trx_data_rx_cb, trx_if_handle_phyif_burst_req): bounds, and agreement with the Python codec (C04, C14) *)
From Coq Require Import ZArith List Bool Lia ZifyBool.
From OBB Require Import Base.Range Gen.TrxdConst Gen.TrxIfConst Model.Trxd Model.TrxIf Proofs.TrxdBase Proofs.TrxdTx Proofs.TrxdRx Proofs.TrxdRxRT.
Import ListNotations.
Open Scope Z_scope.
Ltac Zify.zify_post_hook ::= Z.to_euclidean_division_equations.

(* ---- the regenerated constants are the ones the protocol / the headers state ---- *)
Lemma gen_trxif_consts :
  trxc_buf_size = 1024 /\ trxd_buf_size = 512 /\ trxdv0_hdr_len = 8 /\ c_tdma_hyperframe = 2715648
  /\ nb_gmsk_burst = 148 /\ nb_8psk_burst = 444 /\ ctrl_cmd_size = 1024.
Proof. repeat split; reflexivity. Qed.

(* both sides of the link use the same hyperframe and burst lengths *)
Lemma consts_agree : c_tdma_hyperframe = gsm_hyperframe /\ nb_gmsk_burst = gmsk_burst_len /\ nb_8psk_burst = edge_burst_len.
Proof. repeat split; reflexivity. Qed.

Lemma in_firstn {A} (l : list A) n x : In x (firstn n l) -> In x l.
Proof. intros H. rewrite <- (firstn_skipn n l). apply in_or_app. left. exact H. Qed.

Lemma wrap8_range x : -128 <= wrap8 x <= 127.
Proof. unfold wrap8. cbv zeta. destruct (x mod 256 <? 128) eqn:E; lia. Qed.
Lemma wrap16_range x : -32768 <= wrap16 x <= 32767.
Proof. unfold wrap16. cbv zeta. destruct (x mod 65536 <? 32768) eqn:E; lia. Qed.
Lemma wrap32_range x : -2147483648 <= wrap32 x <= 2147483647.
Proof. unfold wrap32. cbv zeta. destruct (x mod 4294967296 <? 2147483648) eqn:E; lia. Qed.
Lemma wrap8_id x : -128 <= x <= 127 -> wrap8 x = x.
Proof. intros H. unfold wrap8. cbv zeta. destruct (x mod 256 <? 128) eqn:E; lia. Qed.
Lemma wrap16_id x : -32768 <= x <= 32767 -> wrap16 x = x.
Proof. intros H. unfold wrap16. cbv zeta. destruct (x mod 65536 <? 32768) eqn:E; lia. Qed.
Lemma wrap32_id x : -2147483648 <= x <= 2147483647 -> wrap32 x = x.
Proof. intros H. unfold wrap32. cbv zeta. destruct (x mod 4294967296 <? 2147483648) eqn:E; lia. Qed.

(* ---- checked reads ---- *)
Lemma nth_error_skipn {A} (l : list A) k x : nth_error l k = Some x -> skipn k l = x :: skipn (S k) l.
Proof.
  revert l. induction k as [|k IH]; intros [|y l] H; cbn in H; try discriminate.
  - injection H as ->. reflexivity.
  - cbn [skipn]. apply IH in H. exact H.
Qed.

Lemma conv_bits_ok buf n : forall i, (8 + i + n <= length buf)%nat ->
  conv_bits buf i n = Some (map c_us2s (firstn n (skipn (8 + i) buf))).
Proof.
  induction n as [|n IH]; intros i Hl; [reflexivity|].
  cbn [conv_bits]. destruct (nth_error buf (8 + i)) as [b|] eqn:E.
  - rewrite (nth_error_skipn _ _ _ E). rewrite IH by lia. replace (8 + S i)%nat with (S (8 + i)) by lia. reflexivity.
  - apply nth_error_None in E. lia.
Qed.

(* trx_data_rx_cb on a datagram that fits the buffer and has at least the 8 header octets *)
Definition rx_spec (b0 b1 b2 b3 b4 b5 b6 b7 : Z) (payload : list Z) : rx_res :=
  if negb (Z.shiftr b0 4 =? 0) then RxBadVer else
  match rx_payload_len (Z.of_nat (length payload)) with
  | None => RxBadLen
  | Some bl =>
    let fn := ((b1 * 256 + b2) * 256 + b3) * 256 + b4 in
    if fn >=? c_tdma_hyperframe then RxBadFn
    else RxInd (Z.land b0 7) fn (wrap8 (- wrap8 b5)) (wrap16 (Z.lor (wrap16 (Z.shiftl b6 8)) b7)) (map c_us2s (firstn (Z.to_nat bl) payload))
  end.

Lemma rx_payload_len_bound pl bl : rx_payload_len pl = Some bl -> 0 <= bl <= pl.
Proof.
  unfold rx_payload_len. destruct gen_trxif_consts as [_ [_ [_ [_ [-> [-> _]]]]]].
  destruct ((pl =? 148 + 2) || (pl =? 444 + 2)) eqn:E1; cbv iota; [intros H; injection H as <-; lia|].
  destruct ((pl =? 148) || (pl =? 444)) eqn:E2; cbv iota; [intros H; injection H as <-; lia|discriminate].
Qed.

Lemma c_data_rx_spec b0 b1 b2 b3 b4 b5 b6 b7 payload :
  (length payload <= 504)%nat ->
  c_data_rx (b0 :: b1 :: b2 :: b3 :: b4 :: b5 :: b6 :: b7 :: payload) = rx_spec b0 b1 b2 b3 b4 b5 b6 b7 payload.
Proof.
  intros Hl. unfold c_data_rx, rx_spec. destruct gen_trxif_consts as [_ [-> [-> _]]].
  set (d := b0 :: b1 :: b2 :: b3 :: b4 :: b5 :: b6 :: b7 :: payload).
  assert (Hf : firstn (Z.to_nat 512) d = d) by (apply firstn_all2; subst d; cbn [length]; lia).
  rewrite Hf. clear Hf.
  assert (Hlen : Z.of_nat (length d) = 8 + Z.of_nat (length payload)) by (subst d; cbn [length]; lia).
  rewrite Hlen.
  destruct (8 + Z.of_nat (length payload) <=? 0) eqn:E0; [lia|].
  destruct (8 + Z.of_nat (length payload) <? 8) eqn:E1; [lia|].
  subst d. cbn [nth_error].
  destruct (negb (Z.shiftr b0 4 =? 0)); [reflexivity|].
  replace (8 + Z.of_nat (length payload) - 8) with (Z.of_nat (length payload)) by lia.
  destruct (rx_payload_len (Z.of_nat (length payload))) as [bl|] eqn:Ebl; [|reflexivity].
  apply rx_payload_len_bound in Ebl.
  rewrite conv_bits_ok by (cbn [length]; lia).
  cbn [Nat.add skipn]. reflexivity.
Qed.

Lemma c_data_rx_trunc d : c_data_rx d = c_data_rx (firstn (Z.to_nat trxd_buf_size) d).
Proof. unfold c_data_rx. rewrite firstn_firstn, Nat.min_id. reflexivity. Qed.

(* C04 / C14: whatever octets arrive, trx_data_rx_cb reads only octets it received *)
Theorem c_data_rx_safe : forall d, c_data_rx d <> RxOOB.
Proof.
  intros d. rewrite c_data_rx_trunc. destruct gen_trxif_consts as [_ [E _]]. rewrite E.
  set (buf := firstn (Z.to_nat 512) d).
  assert (Hb : (length buf <= 512)%nat) by (subst buf; rewrite firstn_length; lia).
  clearbody buf.
  destruct buf as [|b0 [|b1 [|b2 [|b3 [|b4 [|b5 [|b6 [|b7 payload]]]]]]]];
    try (unfold c_data_rx; rewrite E; cbn; discriminate).
  rewrite c_data_rx_spec by (cbn [length] in Hb; lia).
  unfold rx_spec. destruct (negb _); [discriminate|]. destruct (rx_payload_len _); [|discriminate].
  cbv zeta. destruct (_ >=? _); discriminate.
Qed.

(* every outcome other than an indication leaves no trace; an indication carries burst_len in {148, 444} soft bits in [-127,127] *)
Lemma c_us2s_range b : 0 <= b < 256 -> -127 <= c_us2s b <= 127.
Proof. intros H. unfold c_us2s. destruct (b =? 255) eqn:E; lia. Qed.

Lemma c_data_rx_ind_shape d tn fn rssi toa bits : Forall (fun b => 0 <= b < 256) d -> c_data_rx d = RxInd tn fn rssi toa bits ->
  0 <= tn <= 7 /\ 0 <= fn < 2715648 /\ -128 <= rssi <= 127 /\ -32768 <= toa <= 32767
  /\ (length bits = 148%nat \/ length bits = 444%nat) /\ Forall (fun s => -127 <= s <= 127) bits.
Proof.
  intros Hd. rewrite c_data_rx_trunc. destruct gen_trxif_consts as [_ [E _]]. rewrite E.
  assert (Hd' : Forall (fun b => 0 <= b < 256) (firstn (Z.to_nat 512) d)).
  { apply Forall_forall. intros x Hx. rewrite Forall_forall in Hd. apply Hd. eapply in_firstn. exact Hx. }
  set (buf := firstn (Z.to_nat 512) d) in *.
  assert (Hb : (length buf <= 512)%nat) by (subst buf; rewrite firstn_length; lia).
  clearbody buf.
  destruct buf as [|b0 [|b1 [|b2 [|b3 [|b4 [|b5 [|b6 [|b7 payload]]]]]]]];
    try (unfold c_data_rx; rewrite E; cbn; discriminate).
  rewrite c_data_rx_spec by (cbn [length] in Hb; lia).
  unfold rx_spec. destruct (negb _); [discriminate|]. destruct (rx_payload_len _) as [bl|] eqn:Ebl; [|discriminate].
  cbv zeta. destruct (_ >=? _) eqn:Efn; [discriminate|]. intros H. injection H as <- <- <- <- <-.
  repeat match goal with H : Forall _ (_ :: _) |- _ => inversion H; clear H; subst end.
  destruct gen_trxif_consts as [_ [_ [_ [Eh _]]]]. rewrite Eh in Efn.
  split; [|split; [|split; [|split; [|split]]]].
  - assert (Hm : Z.land b0 7 = b0 mod 8) by (change 7 with (Z.ones 3); rewrite Z.land_ones by lia; reflexivity). rewrite Hm. lia.
  - lia.
  - apply wrap8_range.
  - apply wrap16_range.
  - pose proof (rx_payload_len_bound _ _ Ebl) as Hbl. rewrite map_length, firstn_length.
    unfold rx_payload_len in Ebl. destruct gen_trxif_consts as [_ [_ [_ [_ [Eg [Ee _]]]]]]. rewrite Eg, Ee in Ebl.
    set (pl := Z.of_nat (length payload)) in *.
    destruct ((pl =? 148 + 2) || (pl =? 444 + 2)) eqn:E1; cbv iota in Ebl; [injection Ebl as <-; lia|].
    destruct ((pl =? 148) || (pl =? 444)) eqn:E2; cbv iota in Ebl; [injection Ebl as <-; lia|discriminate].
  - apply Forall_forall. intros s Hs. apply in_map_iff in Hs as [b [<- Hb']]. apply c_us2s_range.
    match goal with H : Forall _ payload |- _ => rewrite Forall_forall in H; apply H end. eapply in_firstn. exact Hb'.
Qed.

(* ================= Python -> C: what the toolkit encodes is what trxcon hands to its scheduler ================= *)
Lemma sweep_toa : forallb (fun b6 => forallb (fun b7 =>
    wrap16 (Z.lor (wrap16 (Z.shiftl b6 8)) b7) =? wrap16 (b6 * 256 + b7)) (range 0 256)) (range 0 256) = true.
Proof. vm_compute. reflexivity. Qed.
Lemma toa_compose b6 b7 : 0 <= b6 < 256 -> 0 <= b7 < 256 -> wrap16 (Z.lor (wrap16 (Z.shiftl b6 8)) b7) = wrap16 (b6 * 256 + b7).
Proof. intros H6 H7. pose proof (forallb_range _ _ _ (forallb_range _ _ _ sweep_toa b6 H6) b7 H7) as E. cbv beta in E. lia. Qed.

Lemma sweep_tn : forallb (fun t => (Z.shiftr t 4 =? 0) && (Z.land t 7 =? t)) (range 0 8) = true.
Proof. vm_compute. reflexivity. Qed.
Lemma tn_octet t : 0 <= t < 8 -> Z.shiftr t 4 = 0 /\ Z.land t 7 = t.
Proof. intros Ht. pose proof (forallb_range _ _ _ sweep_tn t Ht) as E. cbv beta in E. lia. Qed.

(* the soft bit trxcon delivers for an encoded soft bit s: s itself, except that -128 comes out as -127 *)
Definition clip (s : Z) : Z := if s =? -128 then -127 else s.
Lemma conv_usbits bs : Forall (fun s => -128 <= s <= 127) bs -> map c_us2s (usbits bs) = map clip bs.
Proof.
  induction 1 as [|s l Hs _ IH]; [reflexivity|]. unfold usbits in *. cbn [map]. rewrite IH. f_equal.
  unfold c_us2s, clip. destruct (127 - s =? 255) eqn:E1; destruct (s =? -128) eqn:E2; lia.
Qed.
Lemma clip_id bs : Forall (fun s => -127 <= s <= 127) bs -> map clip bs = bs.
Proof. induction 1 as [|s l Hs _ IH]; [reflexivity|]. cbn [map]. rewrite IH. unfold clip. destruct (s =? -128) eqn:E; [lia|reflexivity]. Qed.

Lemma rx_payload_len_v0 n pad : (n = 148%nat \/ n = 444%nat) -> (pad = 0%nat \/ pad = 2%nat) ->
  rx_payload_len (Z.of_nat (n + pad)) = Some (Z.of_nat n).
Proof. intros [-> | ->] [-> | ->]; reflexivity. Qed.

Theorem py_to_c_gen m l b :
  gen_rx l m = Ok b -> r_ver m = 0 ->
  (match r_burst m with Some bs => Forall (fun s => -128 <= s <= 127) bs | None => True end) ->
  exists fn tn rssi toa bs, r_fn m = Some fn /\ r_tn m = Some tn /\ r_rssi m = Some rssi /\ r_toa m = Some toa /\ r_burst m = Some bs
    /\ c_data_rx b = RxInd tn fn rssi toa (map clip bs).
Proof.
  intros Hgen Hver Hbytes.
  assert (Hval : validate_rx m = Ok tt) by (apply (proj1 (gen_rx_iff m l)); eauto).
  apply validate_rx_iff in Hval.
  destruct Hval as [[_ [[f [Ef Hf]] [t [Et Ht]]]] [[r [Er Hr]] [[a [Ea Ha]] [_ [_ [Hb _]]]]]].
  destruct (Hb Hver) as [bs [Eb Hl]].
  destruct (gen_rx_layout _ _ _ Hgen Hbytes) as [f' [t' [r' [a' [Ef' [Et' [Er' [Ea' ->]]]]]]]].
  rewrite Ef in Ef'. rewrite Et in Et'. rewrite Er in Er'. rewrite Ea in Ea'.
  injection Ef' as <-. injection Et' as <-. injection Er' as <-. injection Ea' as <-.
  exists f, t, r, a, bs. repeat (split; [assumption|]).
  rewrite Hver, Eb. change (0 =? 1) with false. change (0 =? 0) with true. rewrite andb_true_r. cbv iota. cbn [app].
  rewrite Eb in Hbytes.
  set (pad := if l then [0; 0] else []).
  assert (Hpl : length pad = 0%nat \/ length pad = 2%nat) by (subst pad; destruct l; cbn; auto).
  unfold layout_rx_hdr. cbn [app].
  assert (Hlen : length (usbits bs ++ pad) = (length bs + length pad)%nat) by (unfold usbits; rewrite app_length, map_length; reflexivity).
  rewrite c_data_rx_spec by (rewrite Hlen; lia).
  unfold rx_spec. replace (0 * 16 + t) with t by lia.
  destruct (tn_octet t ltac:(lia)) as [-> ->]. change (negb (0 =? 0)) with false. cbv iota.
  rewrite Hlen, (rx_payload_len_v0 _ _ Hl Hpl). cbv zeta.
  assert (Efn : ((f / 16777216 mod 256 * 256 + f / 65536 mod 256) * 256 + f / 256 mod 256) * 256 + f mod 256 = f) by lia.
  rewrite Efn. destruct gen_trxif_consts as [_ [_ [_ [-> _]]]].
  destruct (f >=? 2715648) eqn:E; [lia|].
  rewrite Nat2Z.id. rewrite firstn_app_exact by (unfold usbits; rewrite map_length; reflexivity).
  rewrite conv_usbits by assumption.
  rewrite (wrap8_id (- r)) by lia. rewrite Z.opp_involutive, wrap8_id by lia.
  rewrite toa_compose by lia.
  assert (Etoa : wrap16 (a mod 65536 / 256 * 256 + a mod 65536 mod 256) = a).
  { replace (a mod 65536 / 256 * 256 + a mod 65536 mod 256) with (a mod 65536) by lia. unfold wrap16. cbv zeta. destruct (_ <? _) eqn:E2; lia. }
  rewrite Etoa. reflexivity.
Qed.

(* the statement's domain: soft bits in [-127,127] arrive unchanged *)
Theorem py_to_c m l b :
  gen_rx l m = Ok b -> r_ver m = 0 -> soft_ok m ->
  exists fn tn rssi toa bs, r_fn m = Some fn /\ r_tn m = Some tn /\ r_rssi m = Some rssi /\ r_toa m = Some toa /\ r_burst m = Some bs
    /\ c_data_rx b = RxInd tn fn rssi toa bs.
Proof.
  intros Hgen Hver Hsoft. unfold soft_ok in Hsoft.
  assert (Hbytes : match r_burst m with Some bs => Forall (fun s => -128 <= s <= 127) bs | None => True end).
  { destruct (r_burst m) as [bs|]; [|exact I]. eapply Forall_impl; [|exact Hsoft]. cbv beta. intros; lia. }
  destruct (py_to_c_gen m l b Hgen Hver Hbytes) as [fn [tn [rssi [toa [bs [E1 [E2 [E3 [E4 [E5 E6]]]]]]]]]].
  exists fn, tn, rssi, toa, bs. repeat (split; [assumption|]).
  rewrite E5 in Hsoft. rewrite clip_id in E6 by assumption. exact E6.
Qed.

(* non-vacuity + the -128 corner, concretely *)
Example py_to_c_example :
  match gen_rx true {| r_ver := 0; r_fn := Some 2715647; r_tn := Some 7; r_rssi := Some (-120); r_toa := Some (-32768);
                       r_nope := false; r_mod := Some 0%nat; r_tset := None; r_tsc := None; r_ci := None;
                       r_burst := Some (repeat (-127) 147 ++ [-128]) |} with
  | Ok b => c_data_rx b = RxInd 7 2715647 (-120) (-32768) (repeat (-127) 148) /\ length b = 158%nat
  | _ => False
  end.
Proof. vm_compute. split; reflexivity. Qed.


(* a version-1 datagram is refused by trxcon (it only speaks TRXDv0), whatever follows the first octet *)
Lemma c_rx_bad_version b0 rest : (7 <= length rest)%nat -> Z.shiftr b0 4 <> 0 -> c_data_rx (b0 :: rest) = RxBadVer.
Proof.
  intros Hl Hv. unfold c_data_rx. destruct gen_trxif_consts as [_ [-> [-> _]]].
  change (Z.to_nat 512) with (S 511). rewrite firstn_cons.
  assert (Hfl : (7 <= length (firstn 511 rest))%nat) by (rewrite firstn_length; lia).
  set (tl := firstn 511 rest) in *. clearbody tl. cbn [length nth_error].
  destruct (Z.of_nat (S _) <=? 0) eqn:E0; [lia|]. destruct (Z.of_nat (S _) <? 8) eqn:E1; [lia|].
  destruct (Z.shiftr b0 4 =? 0) eqn:E2; [apply Z.eqb_eq in E2; contradiction|]. reflexivity.
Qed.

Lemma c_rx_v1_refused m l b : gen_rx l m = Ok b -> r_ver m = 1 -> c_data_rx b = RxBadVer.
Proof.
  intros Hgen Hver. unfold gen_rx in Hgen. apply bind_ok in Hgen as [[] [Hval Hgen]].
  apply validate_rx_iff in Hval. destruct Hval as [[_ [[f [Ef Hf]] [t [Et Ht]]]] [[r [Er Hr]] [[a [Ea Ha]] [_ [Hci _]]]]].
  destruct (Hci Hver) as [c [Ec Hc]].
  rewrite Hver, Ef, Et, Er, Ea, Ec in Hgen. change (1 >=? 1) with true in Hgen. cbv iota in Hgen.
  destruct (b0_rt 1 t ltac:(lia) ltac:(lia)) as [Hs _].
  unfold gen_common, be32, i16, oz in Hgen. cbv zeta in Hgen.
  set (b0 := Z.lor (Z.shiftl 1 4) (Z.land t 7)) in *. clearbody b0.
  cbn [app] in Hgen. injection Hgen as <-.
  apply c_rx_bad_version; [|rewrite Hs; lia].
  cbn [length]. lia.
Qed.

(* ================= C -> Python: what trxcon sends is parsed by the toolkit to the values trxcon was given ================= *)
Lemma parse_tx_layout v f t p bu : (v = 0 \/ v = 1) -> 0 <= t <= 7 -> 0 <= f < 4294967296 ->
  parse_tx (layout_tx v f t p bu) =
  Ok {| t_ver := v; t_fn := Some f; t_tn := Some t; t_pwr := Some p;
        t_burst := match bu with [] => None | _ :: _ => Some (tx_parse_burst bu) end |}.
Proof.
  intros Hver Ht Hf. unfold layout_tx. cbn [app].
  unfold parse_tx. cbn [length Nat.ltb Nat.leb idx nth_error bind].
  assert (Hsh : Z.shiftr (v * 16 + t) 4 = v /\ Z.land (v * 16 + t) 7 = t).
  { rewrite <- b0_val by lia. destruct (b0_rt v t ltac:(lia) ltac:(lia)) as [A [B _]]. auto. }
  destruct Hsh as [-> ->].
  assert (Hk : known v = true) by (apply known_iff; exact Hver). rewrite Hk. cbn [negb].
  unfold slice. cbn [skipn Nat.sub firstn].
  change [f / 16777216 mod 256; f / 65536 mod 256; f / 256 mod 256; f mod 256] with (be32 f).
  rewrite be32_rt by lia. cbn [bind].
  assert (Hhl : tx_hdr_len v = Ok 6%nat) by (unfold tx_hdr_len; destruct Hver as [-> | ->]; reflexivity).
  rewrite Hhl. cbn [bind Nat.ltb Nat.leb Nat.eqb skipn].
  destruct bu as [|x xs]; reflexivity.
Qed.

Lemma map_u8_id l : Forall (fun b => 0 <= b < 256) l -> map u8 l = l.
Proof. induction 1 as [|x l Hx _ IH]; [reflexivity|]. cbn [map]. rewrite IH. unfold u8. f_equal. lia. Qed.

Lemma c_burst_req_layout tn fn pwr burst :
  0 <= tn <= 255 -> 0 <= fn < 4294967296 -> 0 <= pwr <= 255 -> Forall (fun b => 0 <= b < 256) burst -> (length burst <= 506)%nat ->
  c_burst_req tn fn pwr burst = TxSent (layout_tx 0 fn tn pwr burst).
Proof.
  intros Ht Hf Hp Hb Hl. unfold c_burst_req. destruct gen_trxif_consts as [_ [-> _]].
  destruct (6 + Z.of_nat (length burst) >? 512) eqn:E; [lia|].
  rewrite map_u8_id by assumption. unfold u8, u32, layout_tx, be32.
  replace (tn mod 256) with (0 * 16 + tn) by lia. replace (fn mod 4294967296) with fn by lia. replace (pwr mod 256) with pwr by lia.
  reflexivity.
Qed.

Lemma c_burst_req_oob tn fn pwr burst : (506 < length burst)%nat <-> c_burst_req tn fn pwr burst = TxOOB.
Proof.
  unfold c_burst_req. destruct gen_trxif_consts as [_ [-> _]].
  destruct (6 + Z.of_nat (length burst) >? 512) eqn:E; split; intros H; try reflexivity; try lia; discriminate.
Qed.

Theorem c_to_py_gen tn fn pwr burst :
  0 <= tn <= 7 -> 0 <= fn < 4294967296 -> 0 <= pwr <= 255 -> Forall (fun b => 0 <= b < 256) burst -> (length burst <= 506)%nat ->
  exists o, c_burst_req tn fn pwr burst = TxSent o /\ o = layout_tx 0 fn tn pwr burst /\
    parse_tx o = Ok {| t_ver := 0; t_fn := Some fn; t_tn := Some tn; t_pwr := Some pwr;
                       t_burst := match burst with [] => None | _ :: _ => Some (tx_parse_burst burst) end |}.
Proof.
  intros Ht Hf Hp Hb Hl. eexists. split; [apply c_burst_req_layout; try assumption; lia|]. split; [reflexivity|].
  apply parse_tx_layout; auto.
Qed.

Theorem c_to_py tn fn pwr burst :
  0 <= tn <= 7 -> 0 <= fn < 4294967296 -> 0 <= pwr <= 255 -> Forall (fun b => 0 <= b < 256) burst ->
  (length burst = 148%nat \/ length burst = 444%nat) ->
  exists o, c_burst_req tn fn pwr burst = TxSent o /\
    parse_tx o = Ok {| t_ver := 0; t_fn := Some fn; t_tn := Some tn; t_pwr := Some pwr; t_burst := Some burst |}.
Proof.
  intros Ht Hf Hp Hb Hl.
  destruct (c_to_py_gen tn fn pwr burst Ht Hf Hp Hb ltac:(lia)) as [o [E1 [_ E2]]].
  exists o. split; [exact E1|]. rewrite E2.
  destruct burst as [|x xs]; [cbn in Hl; lia|].
  pose proof (tx_parse_burst_pad (x :: xs) [] Hl (or_introl eq_refl)) as Hp'. rewrite app_nil_r in Hp'. rewrite Hp'. reflexivity.
Qed.

(* other burst lengths: the toolkit's parser cuts a burst of 149..443 octets to 148 and one of 445..506 to 444, keeps a shorter one
   as it is (TxMsg.validate refuses it later) and reports "no burst" for an empty one *)
Lemma tx_parse_burst_cases bu :
  let n := length bu in
  tx_parse_burst bu = if (444 <? Z.of_nat n) then firstn 444 bu else if (148 <? Z.of_nat n) && (Z.of_nat n <? 444) then firstn 148 bu else bu.
Proof.
  cbv zeta. unfold tx_parse_burst. destruct gen_bl as [-> ->].
  destruct (Z.of_nat (length bu) >=? 444) eqn:E1; destruct (Z.of_nat (length bu) >? 444) eqn:E2;
  destruct (Z.of_nat (length bu) >? 148) eqn:E3; destruct (444 <? Z.of_nat (length bu)) eqn:E4;
  destruct (148 <? Z.of_nat (length bu)) eqn:E5; destruct (Z.of_nat (length bu) <? 444) eqn:E6; cbn [andb]; try reflexivity; lia.
Qed.

(* the timeslot octet is sent unmasked: a timeslot number above 7 would be read back as another timeslot / version *)
Example c_tx_tn_unmasked :
  (match c_burst_req 9 5 0 (repeat 1 148) with TxSent o => parse_tx o | TxOOB => Crash end)
   = Ok {| t_ver := 0; t_fn := Some 5; t_tn := Some 1; t_pwr := Some 0; t_burst := Some (repeat 1 148) |}
  /\ (match c_burst_req 23 5 0 (repeat 1 148) with TxSent o => parse_tx o | TxOOB => Crash end)
   = Ok {| t_ver := 1; t_fn := Some 5; t_tn := Some 7; t_pwr := Some 0; t_burst := Some (repeat 1 148) |}.
Proof. split; vm_compute; reflexivity. Qed.

Example c_to_py_example :
  exists o, c_burst_req 7 2715647 255 (repeat 1 444) = TxSent o /\ length o = 450%nat.
Proof. eexists. split; [vm_compute; reflexivity|reflexivity]. Qed.

(* the unchecked memcpy: a burst request longer than 506 octets overruns uint8_t buf[512] *)
Lemma c_burst_req_oob_refuted : c_burst_req 0 0 0 (repeat 0 507) = TxOOB.
Proof. vm_compute. reflexivity. Qed.

(* what trxcon sends always fits the 512 octets the toolkit's DATAInterface.recv_raw_data() asks for *)
Lemma c_burst_req_fits tn fn pwr burst o : c_burst_req tn fn pwr burst = TxSent o -> (length o <= 512)%nat /\ length o = (6 + length burst)%nat.
Proof.
  unfold c_burst_req. destruct gen_trxif_consts as [_ [-> _]].
  destruct (6 + Z.of_nat (length burst) >? 512) eqn:E; [discriminate|]. intros H. injection H as <-.
  unfold be32. repeat (rewrite app_length || rewrite map_length || cbn [length app]). lia.
Qed.
