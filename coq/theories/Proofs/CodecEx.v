(* C16: the Gen tie (class defaults of codec.py as imported) and non-vacuity examples - one definition that uses every
   construct (MSB and LSB bit-field sets with a fixed value, spare bits and padding bits; little-endian signed integer
   with offset and multiplier; optional table-length buffer keyed on bit-fields; spare octet; nested envelope with a
   rest buffer; sequence of TLV-like items).  The octets were cross-checked against the real codec. *)
From Coq Require Import ZArith List Bool Lia.
From OBB Require Import Gen.CodecConst Base.Bits Model.Codec Proofs.CodecInt Proofs.CodecBits Proofs.CodecRT Proofs.CodecDE Proofs.CodecErr Proofs.CodecCanon.
Import ListNotations.
Open Scope Z_scope.

Lemma codec_consts :
  py_field_def_len = 0 /\ py_uint_def_len = 1 /\ py_uint16_len = 2 /\ py_uint32_len = 4 /\ py_int16_len = 2 /\ py_int32_len = 4 /\
  py_uint_def_offset = 0 /\ py_uint_def_mult = 1 /\ py_spare_filler = 0 /\ py_bits_def_order_msb = 1.
Proof. repeat split; reflexivity. Qed.

Definition ex_def : list field :=
 [ FBits LRest PAlways false [BitF (Some 0%nat) 4 (Some 2); BitF None 1 None; BitF (Some 1%nat) 3 None];
   FUint 2 (LFix 2) PAlways true true (-10) 3;
   FBits (LFix 2) PAlways true [BitF (Some 3%nat) 1 None; BitF (Some 4%nat) 4 None; BitF (Some 5%nat) 7 None];
   FBuf 6 (LTab 4 [(0,2%nat);(1,3%nat)]) (PTab 3 [(0,true);(1,false)]);
   FSpare (LFix 1) PAlways 171;
   FEnv 7 (LFix 3) PAlways true [FUint 0 (LFix 1) PAlways false false 0 1; FBuf 1 LRest PAlways];
   FSeq 8 LRest PAlways [FUint 0 (LFix 1) PAlways false false 0 1; FBuf 1 (LTab 0 [(1,1%nat);(2,2%nat)]) PAlways] ].
(* a user dict: different key order, no value for the fixed field, an over-wide value 5 + 3*8 for the 3-bit field 1 *)
Definition ex_in : env :=
 [(8%nat, VList [VDict [(0%nat, VInt 2); (1%nat, VBytes [7;7])]; VDict [(1%nat, VBytes [6]); (0%nat, VInt 1)]]);
  (1%nat, VInt 29); (2%nat, VInt (-1000)); (3%nat, VInt 0); (4%nat, VInt 1); (5%nat, VInt 100); (6%nat, VBytes [1;2;3]);
  (7%nat, VDict [(0%nat, VInt 200); (1%nat, VBytes [9;8])])].
Definition ex_val : env :=
 [(0%nat, VInt 2); (1%nat, VInt 5); (2%nat, VInt (-1000)); (5%nat, VInt 100); (4%nat, VInt 1); (3%nat, VInt 0);
  (6%nat, VBytes [1;2;3]); (7%nat, VDict [(0%nat, VInt 200); (1%nat, VBytes [9;8])]);
  (8%nat, VList [VDict [(0%nat, VInt 2); (1%nat, VBytes [7;7])]; VDict [(0%nat, VInt 1); (1%nat, VBytes [6])]])].
Definition ex_bytes : list Z := [37; 182; 254; 200; 32; 1; 2; 3; 171; 200; 9; 8; 2; 7; 7; 1; 6].

Lemma ex_bytes_ok : bytes_ok ex_bytes.
Proof. unfold ex_bytes. repeat constructor; lia. Qed.

Lemma ex_static : wfb ex_def = true /\ proto_ok ex_def = true /\ seq_ok ex_def = true.
Proof. vm_compute. auto. Qed.
Lemma ex_encode : encode ex_def ex_in = Ok ex_bytes /\ encode ex_def ex_val = Ok ex_bytes.
Proof. vm_compute. auto. Qed.
Lemma ex_decode : decode true ex_def ex_bytes = Ok (ex_val, 17%nat).
Proof. vm_compute. reflexivity. Qed.
(* the hypothesis of the round-trip theorem is met by this message *)
Lemma ex_fits : wf_values ex_def ex_val ex_val 17.
Proof.
  destruct (dec_enc_top true ex_def ex_bytes ex_val 17 (proj1 ex_static) ex_bytes_ok ex_decode) as [_ [Hf [Hnd _]]].
  split; [exact Hf|exact Hnd].
Qed.
Lemma ex_errors :
  decode true ex_def (firstn 16 ex_bytes) = DecodeErr 0 /\                      (* short input *)
  decode true ex_def (ex_bytes ++ [0]) = DecodeErr 1 /\                         (* one more item with unknown tag 0: KeyError wrapped *)
  decode true ex_def (21 :: tl ex_bytes) = DecodeErr 0 /\                       (* fixed value 1 instead of 2 *)
  decode true ex_def (firstn 4 ex_bytes ++ [160] ++ skipn 5 ex_bytes) = DecodeErr 1 /\ (* table key 5 unknown: KeyError wrapped *)
  encode ex_def (eset 2%nat (VInt 100000) ex_val) = EncodeErr 2 /\              (* OverflowError wrapped *)
  encode ex_def (eset 6%nat (VBytes [1;2]) ex_val) = Ok (firstn 7 ex_bytes ++ skipn 8 ex_bytes) /\ (* a table length is not enforced by the encoder *)
  encode ex_def (tl ex_val) = Ok ex_bytes /\                                    (* the fixed field needs no value *)
  encode ex_def (tl (tl ex_val)) = EncodeErr 1.                                 (* missing value: KeyError wrapped *)
Proof. vm_compute. repeat split; reflexivity. Qed.

(* a spare-free definition (every consumed bit is looked at): LSB bit-field set filling 2 octets, signed LE integer, nested
   envelope, sequence - for the literal re-encoding theorem *)
Definition ex2_def : list field :=
 [ FBits LRest PAlways true [BitF (Some 0%nat) 3 None; BitF (Some 1%nat) 5 (Some 17); BitF (Some 2%nat) 8 None];
   FUint 3 (LFix 3) PAlways true true 7 (-2);
   FEnv 4 (LTab 0 [(5, 2%nat); (6, 3%nat)]) PAlways true [FBuf 0 LRest PAlways];
   FSeq 5 LRest PAlways [FUint 0 (LFix 1) PAlways false false 0 1; FBuf 1 (LTab 0 [(1,1%nat);(2,2%nat)]) PAlways] ].
Definition ex2_bytes : list Z := [171; 141; 1; 2; 255; 9; 9; 2; 7; 7; 1; 6].
Lemma ex2_static : wfb ex2_def = true /\ spare_free ex2_def = true /\ Forall (fun o => 0 <= o < 256) ex2_bytes.
Proof. split; [reflexivity|]. split; [reflexivity|]. unfold ex2_bytes. repeat constructor; lia. Qed.
Definition ex2_val : env :=
 [(2%nat, VInt 171); (1%nat, VInt 17); (0%nat, VInt 5); (3%nat, VInt 130053); (4%nat, VDict [(0%nat, VBytes [9; 9])]);
  (5%nat, VList [VDict [(0%nat, VInt 2); (1%nat, VBytes [7; 7])]; VDict [(0%nat, VInt 1); (1%nat, VBytes [6])]])].
Lemma ex2_decode : decode true ex2_def ex2_bytes = Ok (ex2_val, 12%nat).
Proof. vm_compute. reflexivity. Qed.
Lemma ex2_encode : encode ex2_def ex2_val = Ok ex2_bytes.
Proof. vm_compute. reflexivity. Qed.
Lemma ex2_all : wfb ex2_def = true /\ spare_free ex2_def = true /\ Forall (fun o => 0 <= o < 256) ex2_bytes /\
  decode true ex2_def ex2_bytes = Ok (ex2_val, 12%nat) /\ encode ex2_def ex2_val = Ok ex2_bytes.
Proof.
  destruct ex2_static as [H1 [H2 H3]]. split; [exact H1|]. split; [exact H2|]. split; [exact H3|]. split; [exact ex2_decode|exact ex2_encode].
Qed.
