(* C03 (sequential histories): every accepted burst is emitted exactly once in its own frame, or reported stale, or cleared by power-off, or still queued *)
From Coq Require Import ZArith List Bool Lia ZifyBool.
From OBB Require Import Base.Range Base.Dec Gen.TrxdConst Gen.FakeTrxConst Model.Trxd Model.Trx
  Proofs.TrxdBase Proofs.TrxMeta Proofs.TrxFwd Proofs.TrxInv Proofs.TrxTick.
Import ListNotations.
Open Scope Z_scope.
Ltac Zify.zify_post_hook ::= Z.to_euclidean_division_equations.

(* the transmit path of ONE transceiver, as a history machine over the model's own functions *)
Inductive qop := QArrive (octets : list Z) | QTick (fn : Z) | QPowerOn | QPowerOff | QSetVer (v : Z).

Record qhist := { h_trx : trx;
                  h_accepted : list txmsg;            (* enqueued by recv_data_msg *)
                  h_emitted : list (Z * txmsg);       (* (tick frame number, burst) handed to forward_msg *)
                  h_stale : list (Z * txmsg);         (* (tick frame number, burst) logged as stale *)
                  h_cleared : list txmsg }.           (* discarded by power-off *)

Definition qstep (h : qhist) (op : qop) : qhist :=
  let t := h_trx h in
  match op with
  | QArrive d =>
    let '(t', acc) := recv_data t d in
    {| h_trx := t'; h_accepted := if acc then h_accepted h ++ skipn (length (x_q t)) (x_q t') else h_accepted h;
       h_emitted := h_emitted h; h_stale := h_stale h; h_cleared := h_cleared h |}
  | QTick fn =>
    if x_run t then
      let '(d, e, w) := part fn (x_q t) in
      {| h_trx := set_q t w; h_accepted := h_accepted h; h_emitted := h_emitted h ++ map (fun m => (fn, m)) e;
         h_stale := h_stale h ++ map (fun m => (fn, m)) d; h_cleared := h_cleared h |}
    else h
  | QPowerOn => {| h_trx := power_one true t; h_accepted := h_accepted h; h_emitted := h_emitted h; h_stale := h_stale h; h_cleared := h_cleared h |}
  | QPowerOff => {| h_trx := power_one false t; h_accepted := h_accepted h; h_emitted := h_emitted h; h_stale := h_stale h;
                    h_cleared := h_cleared h ++ x_q t |}
  | QSetVer v => {| h_trx := set_ver t v; h_accepted := h_accepted h; h_emitted := h_emitted h; h_stale := h_stale h; h_cleared := h_cleared h |}
  end.

Definition qinit (t : trx) : qhist := {| h_trx := set_q t []; h_accepted := []; h_emitted := []; h_stale := []; h_cleared := [] |}.

Definition cnt (x : txmsg -> bool) (l : list txmsg) : nat := length (filter x l).
Lemma cnt_app x a b : cnt x (a ++ b) = (cnt x a + cnt x b)%nat.
Proof. unfold cnt. rewrite filter_app, app_length. reflexivity. Qed.
Lemma cnt_map_snd x (f : Z) l : cnt x (map snd (map (fun m : txmsg => (f, m)) l)) = cnt x l.
Proof. rewrite map_map. cbn [snd]. rewrite map_id. reflexivity. Qed.

(* no loss, no duplication: for EVERY class x of bursts (e.g. "this very burst") the counts balance *)
Definition conserved (h : qhist) : Prop :=
  forall x, cnt x (h_accepted h) = (cnt x (map snd (h_emitted h)) + cnt x (map snd (h_stale h)) + cnt x (h_cleared h) + cnt x (x_q (h_trx h)))%nat.

Lemma qstep_conserved h op : conserved h -> conserved (qstep h op).
Proof.
  intros H x. specialize (H x). destruct op as [d|fn| | |v]; cbn [qstep].
  - unfold recv_data. destruct (parse_tx _) as [m| |]; cbn [h_trx h_accepted h_emitted h_stale h_cleared]; try exact H.
    destruct ((t_ver m =? x_ver (h_trx h)) && x_run (h_trx h)); cbn [h_trx h_accepted h_emitted h_stale h_cleared]; [|exact H].
    cbn [x_q set_q]. rewrite skipn_app, skipn_all, Nat.sub_diag. cbn [skipn app]. rewrite !cnt_app. lia.
  - destruct (x_run (h_trx h)); [|exact H].
    pose proof (part_spec fn (x_q (h_trx h))) as P. destruct (part fn (x_q (h_trx h))) as [[d e] w]. destruct P as [_ [_ [_ [P _]]]].
    cbn [h_trx h_accepted h_emitted h_stale h_cleared x_q set_q]. rewrite !map_app, !cnt_app, !cnt_map_snd.
    specialize (P x). unfold cnt in *. lia.
  - cbn [h_trx h_accepted h_emitted h_stale h_cleared]. exact H.
  - cbn [h_trx h_accepted h_emitted h_stale h_cleared]. rewrite cnt_app. unfold power_one. cbn [x_q set_fh set_q]. change (cnt x []) with 0%nat. lia.
  - cbn [h_trx h_accepted h_emitted h_stale h_cleared]. exact H.
Qed.

Theorem conservation t ops : conserved (fold_left qstep ops (qinit t)).
Proof.
  assert (G : forall ops h, conserved h -> conserved (fold_left qstep ops h)).
  { induction ops0 as [|op r IH]; intros h H; cbn [fold_left]; [exact H|]. apply IH, qstep_conserved, H. }
  apply G. intros x. unfold qinit, cnt. cbn. reflexivity.
Qed.

(* never earlier, never later: a burst is emitted only during the tick of its own frame; stale ones are strictly in the past *)
Definition timely (h : qhist) : Prop :=
  Forall (fun fm => is_due (fst fm) (snd fm) = true) (h_emitted h) /\ Forall (fun fm => is_behind (fst fm) (snd fm) = true) (h_stale h).
Lemma qstep_timely h op : timely h -> timely (qstep h op).
Proof.
  intros [H1 H2]. destruct op as [d|fn| | |v]; cbn [qstep]; try (split; assumption).
  - destruct (recv_data (h_trx h) d) as [t' acc]. split; assumption.
  - destruct (x_run (h_trx h)); [|split; assumption].
    pose proof (part_spec fn (x_q (h_trx h))) as P. destruct (part fn (x_q (h_trx h))) as [[d e] w]. destruct P as [Pd [Pe _]].
    split; cbn [h_emitted h_stale]; apply Forall_app; split; try assumption; apply Forall_forall; intros [f m] Hin; apply in_map_iff in Hin as [m' [E Hm]];
      injection E as <- <-; cbn [fst snd]; [rewrite Forall_forall in Pe; apply Pe, Hm|rewrite Forall_forall in Pd; apply Pd, Hm].
Qed.
Theorem timeliness t ops : timely (fold_left qstep ops (qinit t)).
Proof.
  assert (G : forall ops h, timely h -> timely (fold_left qstep ops h)).
  { induction ops0 as [|op r IH]; intros h H; cbn [fold_left]; [exact H|]. apply IH, qstep_timely, H. }
  apply G. split; constructor.
Qed.

(* a tick of a running transceiver: exactly the bursts of that frame are emitted (each one, in queue order), the past ones are reported,
   the future ones - and only they - stay queued *)
Theorem tick_exact h fn : x_run (h_trx h) = true ->
  let h' := qstep h (QTick fn) in
  h_emitted h' = h_emitted h ++ map (fun m => (fn, m)) (filter (is_due fn) (x_q (h_trx h)))
  /\ h_stale h' = h_stale h ++ map (fun m => (fn, m)) (filter (is_behind fn) (x_q (h_trx h)))
  /\ x_q (h_trx h') = filter (is_ahead fn) (x_q (h_trx h)).
Proof.
  intros Hr. cbn [qstep]. rewrite Hr. pose proof (part_spec fn (x_q (h_trx h))) as P.
  destruct (part fn (x_q (h_trx h))) as [[d e] w]. destruct P as [_ [_ [_ [_ [-> [-> ->]]]]]]. cbn. auto.
Qed.

(* arrivals: enqueued iff it parses, the header version matches and the transceiver is running; otherwise no effect at all *)
Theorem arrive_exact h d :
  let h' := qstep h (QArrive d) in
  (forall m, parse_tx (firstn (Z.to_nat data_recv_size) d) = Ok m -> t_ver m = x_ver (h_trx h) -> x_run (h_trx h) = true ->
     x_q (h_trx h') = x_q (h_trx h) ++ [m] /\ h_accepted h' = h_accepted h ++ [m]) /\
  ((forall m, parse_tx (firstn (Z.to_nat data_recv_size) d) <> Ok m) \/ x_run (h_trx h) = false
     \/ (exists m, parse_tx (firstn (Z.to_nat data_recv_size) d) = Ok m /\ t_ver m <> x_ver (h_trx h)) -> h' = h).
Proof.
  cbn [qstep]. unfold recv_data. split.
  - intros m Hp Hv Hr. rewrite Hp. replace ((t_ver m =? x_ver (h_trx h)) && x_run (h_trx h)) with true by (rewrite Hr; lia).
    cbn [h_trx h_accepted x_q set_q]. rewrite skipn_app, skipn_all, Nat.sub_diag. cbn [skipn app]. auto.
  - intros H. destruct (parse_tx _) as [m| |] eqn:Ep; try (destruct h; reflexivity).
    assert (E : (t_ver m =? x_ver (h_trx h)) && x_run (h_trx h) = false).
    { destruct H as [H|[H|[m' [Hm' Hne]]]]; [exfalso; exact (H m eq_refl)|rewrite H; apply andb_false_r|].
      injection Hm' as <-. apply andb_false_intro1. lia. }
    rewrite E. destruct h; reflexivity.
Qed.

(* power-off discards everything still queued (and reports it as cleared); the queue is empty afterwards *)
Theorem poweroff_clears h : let h' := qstep h QPowerOff in
  x_q (h_trx h') = [] /\ h_cleared h' = h_cleared h ++ x_q (h_trx h) /\ x_run (h_trx h') = false.
Proof. cbn. auto. Qed.

(* the world-level tick applies exactly this per-transceiver step to every transceiver: queues after Application.clck_handler(fn) *)
Lemma tick_loop_queue fn : 0 <= fn -> forall n i trxs draws out, Forall wf_trx trxs -> (n + i = length trxs)%nat ->
  let '(trxs', _, _) := tick_loop n i trxs fn draws out in
  forall k t, nth_error trxs k = Some t ->
    exists t', nth_error trxs' k = Some t' /\
      x_q t' = (if (i <=? k)%nat && x_run t then filter (is_ahead fn) (x_q t) else x_q t)
      /\ x_run t' = x_run t /\ x_ver t' = x_ver t /\ x_rx t' = x_rx t /\ x_tx t' = x_tx t /\ x_fh t' = x_fh t /\ x_cfg t' = x_cfg t.
Proof.
  intros Hfn. induction n as [|n IH]; intros i trxs draws out Hw Hlen; cbn [tick_loop].
  - intros k t Hk. exists t. split; [exact Hk|]. assert (k < length trxs)%nat by (apply nth_error_Some; congruence).
    replace (i <=? k)%nat with false by (symmetry; apply Nat.leb_gt; lia). cbn [andb]. repeat split; reflexivity.
  - destruct (nth_error trxs i) as [ti|] eqn:Ei; [|apply nth_error_None in Ei; lia].
    destruct (x_run ti) eqn:Eri; cbn [negb].
    2:{ specialize (IH (S i) trxs draws out Hw ltac:(lia)). destruct (tick_loop n (S i) trxs fn draws out) as [[trxs' d'] o'].
        intros k t Hk. destruct (IH k t Hk) as [t' [Hk' [Q R]]]. exists t'. split; [exact Hk'|]. split; [|exact R]. rewrite Q.
        destruct (Nat.eq_dec k i) as [->|Hne].
        - rewrite Ei in Hk. injection Hk as <-. rewrite Eri, !andb_false_r. reflexivity.
        - destruct (Nat.leb_spec (S i) k); destruct (Nat.leb_spec i k); try lia; reflexivity. }
    pose proof (nth_wf _ _ _ Hw Ei) as Hwt.
    pose proof (part_spec fn (x_q ti)) as P. pose proof (part_q_ok fn (x_q ti) (proj1 (proj2 (proj2 Hwt)))) as Hp.
    destruct (part fn (x_q ti)) as [[dr em] wt]. destruct Hp as [He Hwq]. destruct P as [_ [_ [_ [_ [_ [_ Ewt]]]]]].
    assert (Hw1 : Forall wf_trx (upd trxs i (fun t0 => set_q t0 wt))).
    { rewrite Forall_forall. intros u Hu. apply In_nth_error in Hu as [k Hk]. rewrite upd_nth in Hk. destruct (Nat.eqb i k) eqn:E.
      - apply Nat.eqb_eq in E. subst k. rewrite Ei in Hk. cbn in Hk. injection Hk as <-. apply wf_set_q; assumption.
      - eapply nth_wf; eassumption. }
    pose proof (emit_all_ok em (upd trxs i (fun t0 => set_q t0 wt)) i draws [] Hw1 He) as Hem.
    destruct (emit_all (upd trxs i (fun t0 => set_q t0 wt)) i em draws []) as [[[trxs2 dl] dr'] crashed].
    destruct Hem as [-> [Hw2 [L2 F2]]]. rewrite upd_length in L2.
    specialize (IH (S i) trxs2 dr' {| o_deliv := o_deliv out ++ dl; o_stale := o_stale out ++ map (fun m => (i, m)) dr; o_crash := false |} Hw2 ltac:(lia)).
    destruct (tick_loop n (S i) trxs2 fn dr' _) as [[trxs3 d3] o3].
    intros k t Hk.
    assert (Hk2 : exists t2, nth_error trxs2 k = Some t2).
    { destruct (nth_error trxs2 k) eqn:E; [eauto|]. apply nth_error_None in E. assert (k < length trxs)%nat by (apply nth_error_Some; congruence). lia. }
    destruct Hk2 as [t2 Hk2]. destruct (F2 k t2 Hk2) as [t1 [Hk1 [A1 [A2 [A3 [A4 [A5 [A6 A7]]]]]]]].
    rewrite upd_nth in Hk1. destruct (IH k t2 Hk2) as [t' [Hk' [Q [R1 [R2 [R3 [R4 [R5 R6]]]]]]]].
    exists t'. split; [exact Hk'|].
    destruct (Nat.eqb i k) eqn:Eik.
    + apply Nat.eqb_eq in Eik. subst k. rewrite Ei in Hk. injection Hk as <-. rewrite Ei in Hk1. cbn in Hk1. injection Hk1 as <-.
      cbn [set_q x_q x_run x_ver x_rx x_tx x_fh x_cfg] in *. rewrite Q.
      replace (S i <=? i)%nat with false by (symmetry; apply Nat.leb_gt; lia). rewrite Nat.leb_refl, Eri. cbn [andb].
      split; [congruence|]. repeat split; congruence.
    + apply Nat.eqb_neq in Eik. rewrite Hk in Hk1. injection Hk1 as <-. rewrite Q. split.
      * rewrite A1, A6. destruct (Nat.leb_spec (S i) k); destruct (Nat.leb_spec i k); try lia; reflexivity.
      * repeat split; congruence.
Qed.

Theorem tick_queues w fn draws : wf_world w -> 0 <= fn ->
  let '(w', _, _) := tick w fn draws in
  forall k t, nth_error (w_trx w) k = Some t ->
    exists t', nth_error (w_trx w') k = Some t' /\
      x_q t' = (if x_run t then filter (is_ahead fn) (x_q t) else x_q t)
      /\ x_run t' = x_run t /\ x_ver t' = x_ver t /\ x_rx t' = x_rx t /\ x_tx t' = x_tx t /\ x_fh t' = x_fh t /\ x_cfg t' = x_cfg t.
Proof.
  intros Hw Hfn. unfold tick.
  pose proof (tick_loop_queue fn Hfn (length (w_trx w)) 0%nat (w_trx w) draws {| o_deliv := []; o_stale := []; o_crash := false |} Hw ltac:(lia)) as H.
  destruct (tick_loop _ _ _ _ _ _) as [[trxs d'] out]. intros k t Hk. destruct (H k t Hk) as [t' [H1 H2]]. exists t'. split; [exact H1|exact H2].
Qed.
