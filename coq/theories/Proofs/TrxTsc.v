(* C10: TSC detection on normal and sync bursts as the toolkit's generator builds them *)
From Coq Require Import ZArith List Bool Lia.
From OBB Require Import Base.Range Gen.TscTab Model.Trxd Model.Trx Proofs.TrxdBase Proofs.TrxMeta Proofs.TrxMeta2.
Import ListNotations.
Open Scope Z_scope.

Lemma skipn_app_len {A} (a b : list A) n : n = length a -> skipn n (a ++ b) = b.
Proof. intros ->. rewrite skipn_app, skipn_all, Nat.sub_diag. reflexivity. Qed.

Lemma seg_mid (pre mid post : list Z) n k : length pre = n -> length mid = k -> seg (pre ++ mid ++ post) n k = mid.
Proof. intros Hn Hk. unfold seg. rewrite skipn_app_len by (symmetry; exact Hn). apply firstn_app_exact. symmetry. exact Hk. Qed.

Lemma skipn_add {A} : forall a b (l : list A), skipn b (skipn a l) = skipn (a + b) l.
Proof. induction a as [|a IH]; intros b l; [reflexivity|]. destruct l as [|x r]; [rewrite !skipn_nil; reflexivity|]. cbn [skipn Nat.add]. apply IH. Qed.

Lemma seg_seg (l : list Z) a n b k : (b + k <= n)%nat -> seg (seg l a n) b k = seg l (a + b) k.
Proof.
  intros H. unfold seg. rewrite skipn_firstn_comm, firstn_firstn, Nat.min_l by lia. rewrite skipn_add. reflexivity.
Qed.

Lemma find_app_skip {A} (p : A -> bool) : forall l1 l2, (forall x, In x l1 -> p x = false) -> find p (l1 ++ l2) = find p l2.
Proof.
  induction l1 as [|y r IH]; intros l2 H; cbn [app find]; [reflexivity|].
  rewrite (H y (or_introl eq_refl)). apply IH. intros x Hx. apply H. right. exact Hx.
Qed.

Definition row_bt (r : Z * Z * Z * list Z) : Z := match r with (_, bt, _, _) => bt end.
Definition row_bits (r : Z * Z * Z * list Z) : list Z := match r with (_, _, _, b) => b end.

(* side condition of the property for normal/sync bursts: no access-burst sequence happens to sit at bits 8..48 of the payload *)
Definition no_ab_match (burst : list Z) : Prop :=
  forall r, In r spec_tsc_tab -> row_bt r = 1 -> ts_match burst r = false.

(* the table is: 8 access rows, 4 sync rows, 8 normal rows *)
Lemma tab_split : spec_tsc_tab = firstn 8 spec_tsc_tab ++ (firstn 4 (skipn 8 spec_tsc_tab) ++ skipn 12 spec_tsc_tab).
Proof. reflexivity. Qed.
Lemma tab_kinds : forallb (fun r => row_bt r =? 1) (firstn 8 spec_tsc_tab) && forallb (fun r => row_bt r =? 2) (firstn 4 (skipn 8 spec_tsc_tab))
                  && forallb (fun r => row_bt r =? 0) (skipn 12 spec_tsc_tab) = true.
Proof. vm_compute. reflexivity. Qed.

(* no sync sequence contains a normal-burst sequence at the offset where a normal burst carries it (bits 61..86 = offset 19 of 42..105) *)
Lemma sb_never_nb : forallb (fun sb => forallb (fun nb => negb (list_eqb (seg (row_bits sb) 19 26) (row_bits nb))) (skipn 12 spec_tsc_tab))
                      (firstn 4 (skipn 8 spec_tsc_tab)) = true.
Proof. vm_compute. reflexivity. Qed.

(* within one burst type the sequences are pairwise distinct: the first row with these bits is the row itself *)
Lemma nb_first : forallb (fun r => match find (fun r' => list_eqb (row_bits r') (row_bits r)) (skipn 12 spec_tsc_tab) with
                                   | Some (c, _, s, _) => match r with (c0, _, s0, _) => (c =? c0) && (s =? s0) end | None => false end)
                   (skipn 12 spec_tsc_tab) = true.
Proof. vm_compute. reflexivity. Qed.
Lemma sb_first : forallb (fun r => match find (fun r' => list_eqb (row_bits r') (row_bits r)) (firstn 4 (skipn 8 spec_tsc_tab)) with
                                   | Some (c, _, s, _) => match r with (c0, _, s0, _) => (c =? c0) && (s =? s0) end | None => false end)
                   (firstn 4 (skipn 8 spec_tsc_tab)) = true.
Proof. vm_compute. reflexivity. Qed.
Lemma seq_lengths : forallb (fun r => Nat.eqb (length (row_bits r)) (if row_bt r =? 0 then 26 else if row_bt r =? 1 then 41 else 64)) spec_tsc_tab = true.
Proof. vm_compute. reflexivity. Qed.

Lemma find_ext {A} (p q : A -> bool) l : (forall x, In x l -> p x = q x) -> find p l = find q l.
Proof. induction l as [|y r IH]; intros H; cbn [find]; [reflexivity|]. rewrite (H y (or_introl eq_refl)). destruct (q y); [reflexivity|]. apply IH. intros x Hx. apply H. right. exact Hx. Qed.

(* normal burst: 3 tail bits, 57 data bits, steal flag, 26-bit sequence, steal flag, 57 data bits, 3 tail bits *)
Definition layout_nb (seq d1 d2 : list Z) (s1 s2 : Z) : list Z := repeat 0 3 ++ d1 ++ [s1] ++ seq ++ [s2] ++ d2 ++ repeat 0 3.

Theorem nb_detected c s bits d1 d2 s1 s2 : In (c, 0, s, bits) spec_tsc_tab -> length d1 = 57%nat ->
  no_ab_match (layout_nb bits d1 d2 s1 s2) -> tsc_of (layout_nb bits d1 d2 s1 s2) = (c, s).
Proof.
  intros Hin Hd1 Hab. set (burst := layout_nb bits d1 d2 s1 s2).
  assert (Hrow : In (c, 0, s, bits) (skipn 12 spec_tsc_tab)).
  { rewrite tab_split in Hin. apply in_app_or in Hin as [H|H]; [|apply in_app_or in H as [H|H]; [|exact H]].
    - pose proof tab_kinds as K. apply andb_prop in K as [K _]. apply andb_prop in K as [K _]. pose proof (forallb_In _ _ K _ H) as E. cbn in E. discriminate.
    - pose proof tab_kinds as K. apply andb_prop in K as [K _]. apply andb_prop in K as [_ K]. pose proof (forallb_In _ _ K _ H) as E. cbn in E. discriminate. }
  assert (Hl : length bits = 26%nat) by (pose proof (forallb_In _ _ seq_lengths _ Hin) as E; cbn in E; apply Nat.eqb_eq in E; exact E).
  assert (Hseg : seg burst 61 26 = bits).
  { subst burst. unfold layout_nb. replace (repeat 0 3 ++ d1 ++ [s1] ++ bits ++ [s2] ++ d2 ++ repeat 0 3)
      with ((repeat 0 3 ++ d1 ++ [s1]) ++ bits ++ ([s2] ++ d2 ++ repeat 0 3)) by (rewrite <- !app_assoc; reflexivity).
    apply seg_mid; [rewrite !app_length; cbn [length repeat]; lia|exact Hl]. }
  unfold tsc_of, ts_pick. rewrite tsc_tab_spec, tab_split.
  pose proof tab_kinds as K. apply andb_prop in K as [K K3]. apply andb_prop in K as [K1 K2].
  rewrite find_app_skip.
  2:{ intros r Hr. apply Hab; [rewrite tab_split; apply in_or_app; left; exact Hr|]. pose proof (forallb_In _ _ K1 _ Hr) as E. cbv beta in E. lia. }
  rewrite find_app_skip.
  2:{ intros [[[c' bt'] s'] bits'] Hr. pose proof (forallb_In _ _ K2 _ Hr) as E. cbn in E. assert (bt' = 2) by lia. subst bt'.
      unfold ts_match. cbn [Z.eqb]. change (2 =? 0) with false. change (2 =? 1) with false. change (2 =? 2) with true. cbv iota.
      destruct (list_eqb bits' (seg burst 42 64)) eqn:Eb; [|reflexivity]. exfalso.
      apply list_eqb_eq in Eb. assert (E2 : seg bits' 19 26 = bits) by (rewrite Eb, seg_seg by lia; exact Hseg).
      pose proof (forallb_In _ _ (forallb_In _ _ sb_never_nb _ Hr) _ Hrow) as N. cbn [row_bits] in N. rewrite E2 in N.
      assert (list_eqb bits bits = true) by (apply list_eqb_eq; reflexivity). rewrite H in N. discriminate. }
  rewrite (find_ext (ts_match burst) (fun r' => list_eqb (row_bits r') bits)).
  2:{ intros [[[c' bt'] s'] bits'] Hr. pose proof (forallb_In _ _ K3 _ Hr) as E. cbn in E. assert (bt' = 0) by lia. subst bt'.
      unfold ts_match. change (0 =? 0) with true. cbv iota. rewrite Hseg. reflexivity. }
  pose proof (forallb_In _ _ nb_first _ Hrow) as F. cbn [row_bits] in F.
  destruct (find _ (skipn 12 spec_tsc_tab)) as [[[[c' bt'] s'] bits']|]; [|discriminate]. apply andb_prop in F as [F1 F2]. f_equal; lia.
Qed.

(* sync burst: 3 tail bits, 39 data bits, 64-bit sequence, 39 data bits, 3 tail bits *)
Definition layout_sb (seq d1 d2 : list Z) : list Z := repeat 0 3 ++ d1 ++ seq ++ d2 ++ repeat 0 3.

Theorem sb_detected c s bits d1 d2 : In (c, 2, s, bits) spec_tsc_tab -> length d1 = 39%nat ->
  no_ab_match (layout_sb bits d1 d2) -> tsc_of (layout_sb bits d1 d2) = (c, s).
Proof.
  intros Hin Hd1 Hab. set (burst := layout_sb bits d1 d2).
  pose proof tab_kinds as K. apply andb_prop in K as [K K3]. apply andb_prop in K as [K1 K2].
  assert (Hrow : In (c, 2, s, bits) (firstn 4 (skipn 8 spec_tsc_tab))).
  { rewrite tab_split in Hin. apply in_app_or in Hin as [H|H]; [|apply in_app_or in H as [H|H]; [exact H|]].
    - pose proof (forallb_In _ _ K1 _ H) as E. cbn in E. discriminate.
    - pose proof (forallb_In _ _ K3 _ H) as E. cbn in E. discriminate. }
  assert (Hl : length bits = 64%nat) by (pose proof (forallb_In _ _ seq_lengths _ Hin) as E; cbn in E; apply Nat.eqb_eq in E; exact E).
  assert (Hseg : seg burst 42 64 = bits).
  { subst burst. unfold layout_sb. replace (repeat 0 3 ++ d1 ++ bits ++ d2 ++ repeat 0 3) with ((repeat 0 3 ++ d1) ++ bits ++ (d2 ++ repeat 0 3)) by (rewrite <- !app_assoc; reflexivity).
    apply seg_mid; [rewrite !app_length; cbn [length repeat]; lia|exact Hl]. }
  unfold tsc_of, ts_pick. rewrite tsc_tab_spec, tab_split.
  rewrite find_app_skip.
  2:{ intros r Hr. apply Hab; [rewrite tab_split; apply in_or_app; left; exact Hr|]. pose proof (forallb_In _ _ K1 _ Hr) as E. cbv beta in E. lia. }
  pose proof (forallb_In _ _ sb_first _ Hrow) as F. cbn [row_bits] in F.
  assert (Hf : find (ts_match burst) (firstn 4 (skipn 8 spec_tsc_tab)) = find (fun r' => list_eqb (row_bits r') bits) (firstn 4 (skipn 8 spec_tsc_tab))).
  { apply find_ext. intros [[[c' bt'] s'] bits'] Hr. pose proof (forallb_In _ _ K2 _ Hr) as E. cbn in E. assert (bt' = 2) by lia. subst bt'.
    unfold ts_match. change (2 =? 0) with false. change (2 =? 1) with false. change (2 =? 2) with true. cbv iota. rewrite Hseg. reflexivity. }
  destruct (find (fun r' => list_eqb (row_bits r') bits) (firstn 4 (skipn 8 spec_tsc_tab))) as [[[[c' bt'] s'] bits']|] eqn:Ef; [|discriminate].
  assert (Hfa : forall (l1 l2 : list (Z * Z * Z * list Z)) p x, find p l1 = Some x -> find p (l1 ++ l2) = Some x).
  { induction l1 as [|y r IH]; intros l2 p x H; cbn [find app] in *; [discriminate|]. destruct (p y); [exact H|]. apply IH, H. }
  rewrite (Hfa _ _ _ _ Hf). apply andb_prop in F as [F1 F2]. f_equal; lia.
Qed.
