(* invariants of the session model over ALL datagram / tick histories, and absence of crashes (C14, used by C02 C03 C05 C12) *)
From Coq Require Import ZArith List Bool Lia ZifyBool.
From OBB Require Import Base.Range Base.Dec Gen.TrxdConst Gen.FakeTrxConst Gen.HoppingTab Model.GsmTime Model.Hopping Model.Trxd Model.Trx
  Proofs.TrxdBase Proofs.TrxdTx Proofs.TrxdRx Proofs.TrxdRxRT Proofs.HoppingP Proofs.TrxDrop Proofs.TrxMeta Proofs.TrxDropStream Proofs.TrxFwd.
Import ListNotations.
Open Scope Z_scope.
Ltac Zify.zify_post_hook ::= Z.to_euclidean_division_equations.

Definition fh_ok (t : trx) : Prop := forall h, x_fh t = Some h -> 0 <= fh_hsn h <= 63 /\ fh_ma h <> [].
Definition q_ok (t : trx) : Prop := Forall (fun m => 0 <= oz (t_fn m)) (x_q t).
(* the artificial TRXC delay a FAKE_TRXC_DELAY history can leave behind is one time.sleep() takes (fake_trx.py refuses longer ones) *)
Definition dl_ok (t : trx) : Prop := s_delay (x_sim t) <= 9223372036854.
Definition wf_trx (t : trx) : Prop := sim_ok (x_sim t) /\ fh_ok t /\ q_ok t /\ dl_ok t.
Definition wf_world (w : world) : Prop := Forall wf_trx (w_trx w).

Lemma sim0_ok : sim_ok sim0.
Proof. unfold sim_ok, sim0. cbn. lia. Qed.
Lemma trx0_wf c : wf_trx (trx0 c).
Proof. split; [exact sim0_ok|]. split; [intros h H; discriminate|]. split; [constructor|unfold dl_ok; cbn; lia]. Qed.

Lemma upd_Forall {A} (P : A -> Prop) f : forall l i, Forall P l -> (forall x, P x -> P (f x)) -> Forall P (upd l i f).
Proof.
  induction l as [|x r IH]; intros i Hl Hf; [destruct i; constructor|].
  inversion Hl as [|x' r' Hx Hr]; subst. destruct i; cbn [upd]; constructor; auto.
Qed.
Lemma upd_length {A} (f : A -> A) : forall l i, length (upd l i f) = length l.
Proof. induction l as [|x r IH]; intros [|i]; cbn [upd length]; auto. Qed.
Lemma upd_nth {A} (f : A -> A) : forall l i k, nth_error (upd l i f) k = if Nat.eqb i k then option_map f (nth_error l k) else nth_error l k.
Proof.
  induction l as [|x r IH]; intros [|i] [|k]; cbn [upd nth_error Nat.eqb option_map]; try reflexivity.
  - destruct (Nat.eqb i k); reflexivity.
  - apply IH.
Qed.

(* ---- the FAKE_* handler keeps the simulation parameters in their reachable region, whatever the tokens are ---- *)
Lemma sim_set_ok s m f txp att toa tt rs rt ci ct ta dr pe de :
  0 <= tt -> 0 <= rt -> 0 <= ct -> 0 <= dr -> 0 < pe -> sim_ok (sim_set s m f txp att toa tt rs rt ci ct ta dr pe de).
Proof. intros. unfold sim_ok, sim_set. cbn. lia. Qed.

Lemma fake_handler_ok s req : sim_ok s -> sim_ok (fst (fake_handler s req)).
Proof.
  intros Hs. pose proof Hs as [H1 [H2 [H3 [H4 H5]]]]. unfold fake_handler.
  repeat match goal with
  | |- context [if verb_is ?r ?v ?n then _ else _] => destruct (verb_is r v n)
  | |- context [match arg ?r ?i with _ => _ end] => destruct (arg r i)
  | |- context [if ?a <? ?b then _ else _] => destruct (a <? b) eqn:?
  | |- context [if ?a <=? ?b then _ else _] => destruct (a <=? b) eqn:?
  end; cbn [fst]; try exact Hs; apply sim_set_ok; lia.
Qed.

Lemma fake_handler_delay s req : s_delay s <= 9223372036854 -> s_delay (fst (fake_handler s req)) <= 9223372036854.
Proof.
  intros Hs. unfold fake_handler.
  repeat match goal with
  | |- context [if verb_is ?r ?v ?n then _ else _] => destruct (verb_is r v n)
  | |- context [match arg ?r ?i with _ => _ end] => destruct (arg r i)
  | |- context [if ?a <? ?b then _ else _] => destruct (a <? b) eqn:?
  | |- context [if ?a <=? ?b then _ else _] => destruct (a <=? b) eqn:?
  end; cbn [fst sim_set s_delay]; try exact Hs.
  unfold trxc_delay_ms_max in *. lia.
Qed.

Lemma fake_handler_no_crash s req : snd (fake_handler s req) <> Some CCrash.
Proof.
  unfold fake_handler.
  repeat match goal with
  | |- context [if verb_is ?r ?v ?n then _ else _] => destruct (verb_is r v n)
  | |- context [match arg ?r ?i with _ => _ end] => destruct (arg r i)
  | |- context [if ?a <? ?b then _ else _] => destruct (a <? b) eqn:?
  | |- context [if ?a <=? ?b then _ else _] => destruct (a <=? b) eqn:?
  end; cbn [snd]; discriminate.
Qed.

(* ---- per-transceiver setters ---- *)
Lemma wf_set_sim t s : wf_trx t -> sim_ok s -> s_delay s <= 9223372036854 -> wf_trx (set_sim t s).
Proof. intros [_ [H2 [H3 _]]] Hs Hd. split; [exact Hs|]. split; [exact H2|split; [exact H3|exact Hd]]. Qed.
Lemma wf_set_rx t f : wf_trx t -> wf_trx (set_rx t f).  Proof. intros [H1 [H2 H3]]. split; [exact H1|split; [exact H2|exact H3]]. Qed.
Lemma wf_set_tx t f : wf_trx t -> wf_trx (set_tx t f).  Proof. intros [H1 [H2 H3]]. split; [exact H1|split; [exact H2|exact H3]]. Qed.
Lemma wf_set_ver t v : wf_trx t -> wf_trx (set_ver t v). Proof. intros [H1 [H2 H3]]. split; [exact H1|split; [exact H2|exact H3]]. Qed.
Lemma wf_set_run t b : wf_trx t -> wf_trx (set_run t b). Proof. intros [H1 [H2 H3]]. split; [exact H1|split; [exact H2|exact H3]]. Qed.
Lemma wf_set_q t q : wf_trx t -> Forall (fun m => 0 <= oz (t_fn m)) q -> wf_trx (set_q t q).
Proof. intros [H1 [H2 [_ H4]]] Hq. split; [exact H1|split; [exact H2|split; [exact Hq|exact H4]]]. Qed.
Lemma wf_set_fh_none t : wf_trx t -> wf_trx (set_fh t None).
Proof. intros [H1 [_ H3]]. split; [exact H1|split; [intros h H; discriminate|exact H3]]. Qed.
Lemma wf_set_fh t h : wf_trx t -> 0 <= fh_hsn h <= 63 -> fh_ma h <> [] -> wf_trx (set_fh t (Some h)).
Proof. intros [H1 [_ H3]] Hh Hm. split; [exact H1|split; [|exact H3]]. intros h' E. cbn in E. injection E as <-. auto. Qed.
Lemma wf_power_one on t : wf_trx t -> wf_trx (power_one on t).
Proof. intros H. unfold power_one. destruct on; [apply wf_set_run, H|]. apply wf_set_fh_none, wf_set_q; [apply wf_set_run, H|constructor]. Qed.

Lemma wf_fold_power on : forall idxs l, Forall wf_trx l -> Forall wf_trx (fold_left (fun l j => upd l j (power_one on)) idxs l).
Proof. induction idxs as [|j r IH]; intros l H; cbn [fold_left]; [exact H|]. apply IH, upd_Forall; [exact H|apply wf_power_one]. Qed.
Lemma fold_power_length on : forall idxs l, length (fold_left (fun l j => upd l j (power_one on)) idxs l) = length l.
Proof. induction idxs as [|j r IH]; intros l; cbn [fold_left]; [reflexivity|]. rewrite IH. apply upd_length. Qed.

Lemma wf_power_event w i on : wf_world w -> wf_world (power_event w i on).
Proof.
  intros H. unfold power_event. destruct (nth_error (w_trx w) i) as [t|]; [|exact H].
  destruct (c_clock (x_cfg t)); unfold wf_world; cbn [w_trx]; apply wf_fold_power, H.
Qed.
Lemma power_event_length w i on : length (w_trx (power_event w i on)) = length (w_trx w).
Proof.
  unfold power_event. destruct (nth_error (w_trx w) i) as [t|]; [|reflexivity].
  destruct (c_clock (x_cfg t)); cbn [w_trx]; apply fold_power_length.
Qed.

Lemma wf_upd_trx w i f : wf_world w -> (forall t, wf_trx t -> wf_trx (f t)) -> wf_world (upd_trx w i f).
Proof. intros H Hf. unfold wf_world, upd_trx, set_trxs. cbn [w_trx]. apply upd_Forall; assumption. Qed.

Lemma pairs_nonempty : forall l, (2 <= length l)%nat -> pairs l <> [].
Proof. intros [|a [|b r]] H; cbn in *; try lia. discriminate. Qed.

Lemma pm_ranges : pm_trx_min <= pm_trx_max /\ pm_noise_min <= pm_noise_max.
Proof. split; vm_compute; discriminate. Qed.

(* ---- parse_cmd: never crashes, keeps the world well formed, keeps the number of transceivers ---- *)
Lemma parse_cmd_inv w i req draws : wf_world w -> (i < length (w_trx w))%nat ->
  let '(w', r, _) := parse_cmd w i req draws in
  wf_world w' /\ length (w_trx w') = length (w_trx w) /\ r <> CCrash.
Proof.
  intros Hw Hi. unfold parse_cmd.
  destruct (nth_error (w_trx w) i) as [t|] eqn:Et; [|apply nth_error_None in Et; lia].
  assert (Ht : wf_trx t) by (unfold wf_world in Hw; rewrite Forall_forall in Hw; apply Hw; eapply nth_error_In; exact Et).
  pose proof (fake_handler_ok (x_sim t) req (proj1 Ht)) as Hs'. pose proof (fake_handler_no_crash (x_sim t) req) as Hnc.
  pose proof (fake_handler_delay (x_sim t) req (proj2 (proj2 (proj2 Ht)))) as Hd'.
  destruct (fake_handler (x_sim t) req) as [s' r]. cbn [fst snd] in Hs', Hnc, Hd'.
  assert (Hw1 : wf_world (upd_trx w i (fun t0 => set_sim t0 s'))) by (apply wf_upd_trx; [exact Hw|intros t0 H0; apply wf_set_sim; assumption]).
  assert (Hl1 : length (w_trx (upd_trx w i (fun t0 => set_sim t0 s'))) = length (w_trx w)) by (unfold upd_trx, set_trxs; cbn [w_trx]; apply upd_length).
  set (w1 := upd_trx w i (fun t0 => set_sim t0 s')) in *. clearbody w1.
  destruct r as [res|]; [split; [exact Hw1|split; [exact Hl1|congruence]]|].
  destruct (verb_is req v_POWERON 0).
  { destruct (x_run (set_sim t s')); [split; [exact Hw1|split; [exact Hl1|discriminate]]|].
    destruct (negb (ready (set_sim t s'))); [split; [exact Hw1|split; [exact Hl1|discriminate]]|].
    split; [apply wf_power_event, Hw1|]. split; [rewrite power_event_length; exact Hl1|discriminate]. }
  destruct (verb_is req v_POWEROFF 0).
  { split; [apply wf_power_event, Hw1|]. split; [rewrite power_event_length; exact Hl1|discriminate]. }
  destruct (verb_is req v_RXTUNE 1).
  { destruct (arg req 1); [|split; [exact Hw1|split; [exact Hl1|discriminate]]].
    split; [apply wf_upd_trx; [exact Hw1|intros; apply wf_set_rx; assumption]|]. split; [unfold upd_trx, set_trxs; cbn [w_trx]; rewrite upd_length; exact Hl1|discriminate]. }
  destruct (verb_is req v_TXTUNE 1).
  { destruct (arg req 1); [|split; [exact Hw1|split; [exact Hl1|discriminate]]].
    split; [apply wf_upd_trx; [exact Hw1|intros; apply wf_set_tx; assumption]|]. split; [unfold upd_trx, set_trxs; cbn [w_trx]; rewrite upd_length; exact Hl1|discriminate]. }
  destruct (verb_is req v_MEASURE 1).
  { destruct (negb (c_pm (x_cfg (set_sim t s')))); [split; [exact Hw1|split; [exact Hl1|discriminate]]|].
    destruct (arg req 1) as [a|]; [|split; [exact Hw1|split; [exact Hl1|discriminate]]].
    destruct pm_ranges as [P1 P2].
    destruct (pm_match (w_trx w1) (a * 1000)).
    + destruct (randint_range pm_trx_min pm_trx_max draws P1) as [v [d' [E _]]]. rewrite E. split; [exact Hw1|split; [exact Hl1|discriminate]].
    + destruct (randint_range pm_noise_min pm_noise_max draws P2) as [v [d' [E _]]]. rewrite E. split; [exact Hw1|split; [exact Hl1|discriminate]]. }
  destruct (verb_va req v_SETFH 4) eqn:Heqb.
  { destruct (all_ints (tl req)) as [ints|] eqn:Ea; [|split; [exact Hw1|split; [exact Hl1|discriminate]]].
    assert (Hlen : (4 <= length ints)%nat).
    { unfold verb_va in *. destruct req as [|v args]; [discriminate|]. cbn [tl] in Ea.
      match goal with H : _ && Nat.leb 4 (length args) = true |- _ => apply andb_prop in H as [_ H]; apply Nat.leb_le in H end.
      assert (Hal : forall l o, all_ints l = Some o -> length o = length l).
      { induction l as [|x r IH]; intros o Ho; cbn [all_ints] in Ho; [injection Ho as <-; reflexivity|].
        destruct (py_int x); [|discriminate]. destruct (all_ints r) as [vs|] eqn:Er; [|discriminate]. injection Ho as <-. cbn [length]. f_equal. apply IH. reflexivity. }
      rewrite (Hal _ _ Ea). lia. }
    destruct ints as [|hsn [|maio fs]]; [cbn in Hlen; lia|cbn in Hlen; lia|].
    destruct (length (pairs (map (fun f => (f * 1000)%Z) fs)) =? 0)%nat eqn:El; [split; [exact Hw1|split; [exact Hl1|discriminate]]|].
    destruct ((hsn <? 0) || (63 <? hsn)) eqn:Eh; [split; [exact Hw1|split; [exact Hl1|discriminate]]|].
    split; [|split; [unfold upd_trx, set_trxs; cbn [w_trx]; rewrite upd_length; exact Hl1|discriminate]].
    apply wf_upd_trx; [exact Hw1|]. intros t0 H0. apply wf_set_fh; [exact H0|cbn; lia|].
    cbn [fh_ma]. intros E. rewrite E in El. cbn in El. discriminate. }
  destruct (verb_is req v_SETFORMAT 1).
  { destruct (arg req 1) as [v|]; [|split; [exact Hw1|split; [exact Hl1|discriminate]]].
    destruct ((v <? 0) || (v >? chdr_version_max)); [split; [exact Hw1|split; [exact Hl1|discriminate]]|].
    destruct (known v); [|split; [exact Hw1|split; [exact Hl1|discriminate]]].
    split; [apply wf_upd_trx; [exact Hw1|intros; apply wf_set_ver; assumption]|]. split; [unfold upd_trx, set_trxs; cbn [w_trx]; rewrite upd_length; exact Hl1|discriminate]. }
  destruct (verb_is req v_SETPOWER 1).
  { destruct (arg req 1); [|split; [exact Hw1|split; [exact Hl1|discriminate]]].
    split; [|split; [unfold upd_trx, set_trxs; cbn [w_trx]; rewrite upd_length; exact Hl1|discriminate]].
    apply wf_upd_trx; [exact Hw1|]. intros t0 H0. apply wf_set_sim; [exact H0| |cbn [sim_set s_delay]; exact Hd']. destruct Hs' as [A [B [C [D E]]]]. apply sim_set_ok; assumption. }
  destruct (verb_is req v_NOMTXPOWER 0).
  { split; [exact Hw1|split; [exact Hl1|discriminate]]. }
  destruct (verb_is req v_RFMUTE 1).
  { destruct (arg req 1); [|split; [exact Hw1|split; [exact Hl1|discriminate]]].
    split; [|split; [unfold upd_trx, set_trxs; cbn [w_trx]; rewrite upd_length; exact Hl1|discriminate]].
    apply wf_upd_trx; [exact Hw1|]. intros t0 H0. apply wf_set_sim; [exact H0| |cbn [sim_set s_delay]; exact Hd']. destruct Hs' as [A [B [C [D E]]]]. apply sim_set_ok; assumption. }
  split; [exact Hw1|split; [exact Hl1|discriminate]].
Qed.


(* send_response after the artificial delay: a delay held by a well-formed transceiver never overflows time.sleep(), the reply goes out *)
Lemma send_reply w' i b : wf_world w' ->
  match nth_error (w_trx w') i with
  | Some t' => if sleep_overflows (s_delay (x_sim t')) then RCrashed else RReply b
  | None => RReply b end = RReply b.
Proof.
  intros H1. destruct (nth_error (w_trx w') i) as [t'|] eqn:Et; [|reflexivity].
  assert (Ht' : wf_trx t') by (unfold wf_world in H1; rewrite Forall_forall in H1; apply H1; eapply nth_error_In; exact Et).
  destruct Ht' as [_ [_ [_ Hd]]]. unfold dl_ok in Hd. unfold sleep_overflows.
  destruct ((0 <? s_delay (x_sim t')) && (9223372036854775807 <? s_delay (x_sim t') * 1000000)) eqn:E; [lia|reflexivity].
Qed.

(* CTRLInterface.handle_rx: no datagram (ASCII or not) crashes it, the world stays well formed *)
Theorem handle_rx_inv w i data draws : wf_world w -> (i < length (w_trx w))%nat ->
  let '(w', out, _) := handle_rx w i data draws in
  wf_world w' /\ length (w_trx w') = length (w_trx w) /\ out <> RCrashed.
Proof.
  intros Hw Hi. unfold handle_rx.
  destruct (existsb _ _); [split; [exact Hw|split; [reflexivity|discriminate]]|].
  destruct (negb _); [split; [exact Hw|split; [reflexivity|discriminate]]|].
  pose proof (parse_cmd_inv w i (split_sp (strip is_nul (strip is_ws (skipn 4 (firstn (Z.to_nat ctrl_recv_size) data)))) []) draws Hw Hi) as H.
  destruct (parse_cmd w i _ draws) as [[w' r] d']. destruct H as [H1 [H2 H3]].
  (* the reply is sent after the delay the command left behind: a delay a well-formed transceiver holds never overflows time.sleep() *)
  assert (Hsend : forall b, match nth_error (w_trx w') i with
                            | Some t' => if sleep_overflows (s_delay (x_sim t')) then RCrashed else RReply b
                            | None => RReply b end <> RCrashed).
  { intros b. destruct (nth_error (w_trx w') i) as [t'|] eqn:Et; [|discriminate].
    assert (Ht' : wf_trx t') by (unfold wf_world in H1; rewrite Forall_forall in H1; apply H1; eapply nth_error_In; exact Et).
    destruct Ht' as [_ [_ [_ Hd]]]. unfold dl_ok in Hd. unfold sleep_overflows.
    destruct ((0 <? s_delay (x_sim t')) && (9223372036854775807 <? s_delay (x_sim t') * 1000000)) eqn:E; [lia|discriminate]. }
  destruct r; [split; [exact H1|split; [exact H2|apply Hsend]]|split; [exact H1|split; [exact H2|apply Hsend]]|congruence].
Qed.
