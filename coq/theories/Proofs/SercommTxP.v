(* C06 - transmit side of sercomm: the octet machine emits whole frames, non-preemptive priority
   (lowest DLCI first, chosen at frame boundaries only), FIFO and exactly-once per DLCI; end to end Tx -> Rx. *)
From Coq Require Import ZArith List Bool Lia ZifyBool.
From OBB Require Import Gen.SercommConst Model.Sercomm Proofs.SercommP.
Import ListNotations.
Open Scope Z_scope.
Ltac Zify.zify_post_hook ::= Z.to_euclidean_division_equations.

(* ---------------------------------------------------------------- queues *)

Lemma enq_length qs : forall n m, length (enq qs n m) = length qs.
Proof. induction qs as [|q qs IH]; intros [|n] m; cbn [enq length]; auto. Qed.

Lemma enq_same qs : forall n m, (n < length qs)%nat -> nth n (enq qs n m) [] = nth n qs [] ++ [m].
Proof.
  induction qs as [|q qs IH]; intros [|n] m H; cbn [length] in H; try lia; cbn [enq nth]; [reflexivity|].
  apply IH. lia.
Qed.

Lemma enq_other qs : forall n j m, j <> n -> nth j (enq qs n m) [] = nth j qs [].
Proof.
  induction qs as [|q qs IH]; intros [|n] [|j] m H; cbn [enq nth]; try reflexivity; try congruence.
  apply IH. congruence.
Qed.

Lemma dequeue_none qs : dequeue qs = None -> forall i, nth i qs [] = [].
Proof.
  induction qs as [|q qs IH]; intros H i.
  - destruct i; reflexivity.
  - cbn [dequeue] in H. destruct q as [|m q]; [|discriminate].
    destruct (dequeue qs) as [[m1 r1]|] eqn:E; [discriminate|].
    destruct i; [reflexivity|]. cbn [nth]. apply IH. reflexivity.
Qed.

(* the message taken is the head of the lowest non-empty queue; nothing else changes *)
Lemma dequeue_some qs : forall m qs', dequeue qs = Some (m, qs') ->
  exists i, (i < length qs)%nat /\ nth i qs [] = m :: nth i qs' [] /\
            (forall j, (j < i)%nat -> nth j qs [] = []) /\
            (forall j, j <> i -> nth j qs' [] = nth j qs []) /\ length qs' = length qs.
Proof.
  induction qs as [|q qs IH]; intros m qs' H; [discriminate|].
  cbn [dequeue] in H. destruct q as [|m0 q].
  - destruct (dequeue qs) as [[m1 r1]|] eqn:E; [|discriminate]. inversion H; subst m1 qs'.
    destruct (IH m r1 eq_refl) as (i & Hi & Hn & Hlo & Hot & Hlen).
    exists (S i). cbn [length nth]. split; [lia|]. split; [exact Hn|]. split; [|split].
    + intros [|j] Hj; [reflexivity|]. apply Hlo. lia.
    + intros [|j] Hj; [reflexivity|]. apply Hot. congruence.
    + congruence.
  - inversion H; subst m0 qs'. exists 0%nat. cbn [length nth]. split; [lia|]. split; [reflexivity|].
    split; [intros j Hj; lia|]. split; [|reflexivity]. intros [|j] Hj; [congruence|reflexivity].
Qed.

Lemma dequeue_concat_none qs : dequeue qs = None -> concat qs = [].
Proof.
  induction qs as [|q qs IH]; intros H; [reflexivity|]. cbn [dequeue] in H.
  destruct q as [|m q]; [|discriminate]. destruct (dequeue qs) as [[m1 r1]|] eqn:E; [discriminate|].
  cbn [concat app]. apply IH. reflexivity.
Qed.

Lemma dequeue_concat_some qs : forall m qs', dequeue qs = Some (m, qs') -> concat qs = m :: concat qs'.
Proof.
  induction qs as [|q qs IH]; intros m qs' H; [discriminate|]. cbn [dequeue] in H.
  destruct q as [|m0 q].
  - destruct (dequeue qs) as [[m1 r1]|] eqn:E; [|discriminate]. inversion H; subst m1 qs'.
    cbn [concat app]. apply IH. reflexivity.
  - inversion H; subst m0 qs'. reflexivity.
Qed.

(* ---------------------------------------------------------------- one pull *)

(* tx.state == RX_ST_ESCAPE only while a flipped octet is waiting at next_char *)
Definition tx_ok (t : tx) : Prop :=
  match cur t with
  | None => tstate t <> ESCAPE
  | Some [] => tstate t <> ESCAPE
  | Some (_ :: _) => True
  end.

Lemma is_escape_false s : s <> ESCAPE -> is_escape s = false.
Proof. destruct s; intros H; try reflexivity. congruence. Qed.

Lemma pull_busy t l : cur t = Some l -> tx_ok t ->
  exists c t', pull t = (PCh c, t') /\ remaining t = c :: remaining t' /\ queues t' = queues t /\ tx_ok t'.
Proof.
  destruct t as [qs cu ts]. cbn [cur]. intros -> Hok. unfold tx_ok in Hok. cbn [cur tstate] in Hok.
  unfold pull, remaining. cbn [cur tstate queues].
  destruct (is_escape ts) eqn:Ee.
  - destruct l as [|b r].
    + destruct ts; try discriminate. congruence.
    + eexists _, _. split; [reflexivity|]. cbn [cur tstate queues is_escape]. repeat split.
      unfold tx_ok. cbn [cur tstate]. destruct r; [discriminate|exact I].
  - destruct l as [|b r].
    + eexists _, _. split; [reflexivity|]. cbn [cur tstate queues escape app]. repeat split.
      unfold tx_ok. cbn [cur tstate]. exact Hok.
    + destruct (needs_esc b) eqn:En.
      * eexists _, _. split; [reflexivity|]. cbn [cur tstate queues is_escape escape]. rewrite En.
        repeat split.
      * eexists _, _. split; [reflexivity|]. cbn [cur tstate queues escape]. rewrite En, Ee.
        repeat split. unfold tx_ok. cbn [cur tstate]. destruct r; [|exact I].
        destruct ts; try discriminate.
Qed.

Lemma pull_idle_none t : cur t = None -> dequeue (queues t) = None -> pull t = (PNone, t).
Proof. intros Hc Hd. unfold pull. rewrite Hc, Hd. reflexivity. Qed.

Lemma pull_idle_some t m qs' : cur t = None -> dequeue (queues t) = Some (m, qs') ->
  pull t = (PCh FLAG, {| queues := qs'; cur := Some m; tstate := tstate t |}).
Proof. intros Hc Hd. unfold pull. rewrite Hc, Hd. reflexivity. Qed.

(* the read past msg->tail never happens *)
Lemma pull_no_oob t : tx_ok t -> fst (pull t) <> POOB /\ tx_ok (snd (pull t)).
Proof.
  intros Hok. destruct (cur t) as [l|] eqn:Ec.
  - destruct (pull_busy t l Ec Hok) as (c & t' & E & _ & _ & Hok'). rewrite E. split; [discriminate|exact Hok'].
  - destruct (dequeue (queues t)) as [[m qs']|] eqn:Ed.
    + rewrite (pull_idle_some t m qs' Ec Ed). cbn [fst snd]. split; [discriminate|].
      unfold tx_ok in *. cbn [cur tstate]. rewrite Ec in Hok. destruct m; [exact Hok|exact I].
    + rewrite (pull_idle_none t Ec Ed). cbn [fst snd]. split; [discriminate|exact Hok].
Qed.

(* priority and non-preemption, as single-step facts *)
Lemma pull_priority t : cur t = None ->
  (pull t = (PNone, t) /\ forall i, nth i (queues t) [] = []) \/
  (exists i m t', pull t = (PCh FLAG, t') /\ cur t' = Some m /\ (i < length (queues t))%nat /\
                  nth i (queues t) [] = m :: nth i (queues t') [] /\
                  (forall j, (j < i)%nat -> nth j (queues t) [] = []) /\
                  (forall j, j <> i -> nth j (queues t') [] = nth j (queues t) [])).
Proof.
  intros Hc. destruct (dequeue (queues t)) as [[m qs']|] eqn:Ed.
  - right. destruct (dequeue_some _ _ _ Ed) as (i & Hi & Hn & Hlo & Hot & _).
    exists i, m, {| queues := qs'; cur := Some m; tstate := tstate t |}.
    rewrite (pull_idle_some t m qs' Hc Ed). cbn [cur queues]. auto 10.
  - left. split; [apply pull_idle_none; assumption|apply dequeue_none; exact Ed].
Qed.

Lemma sendmsg_keeps_cur t d p t' : sendmsg t d p = Some t' ->
  cur t' = cur t /\ tstate t' = tstate t /\ remaining t' = remaining t /\ length (queues t') = length (queues t).
Proof.
  unfold sendmsg. destruct (HEADROOM <? 2); [discriminate|]. destruct ((0 <=? d) && (d <? DLCI_MAX)); [|discriminate].
  intros H. inversion H; subst t'. unfold remaining. cbn [cur tstate queues]. rewrite enq_length. auto.
Qed.

Lemma sendmsg_valid t d p : 0 <= d < DLCI_MAX ->
  sendmsg t d p = Some {| queues := enq (queues t) (Z.to_nat d) (hdr d p); cur := cur t; tstate := tstate t |}.
Proof.
  intros H. unfold sendmsg. replace (HEADROOM <? 2) with false by reflexivity.
  destruct ((0 <=? d) && (d <? DLCI_MAX)) eqn:E; [reflexivity|lia].
Qed.

(* ---------------------------------------------------------------- histories *)

Lemma tx_run_app h1 : forall t h2, tx_run t (h1 ++ h2) =
  let '(t1, o1) := tx_run t h1 in let '(t2, o2) := tx_run t1 h2 in (t2, o1 ++ o2).
Proof.
  induction h1 as [|o h1 IH]; intros t h2; cbn [app tx_run].
  - destruct (tx_run t h2); reflexivity.
  - destruct (tx_step t o) as [t1 o1]. rewrite IH. destruct (tx_run t1 h1) as [t2 o2].
    destruct (tx_run t2 h2) as [t3 o3]. rewrite app_assoc. reflexivity.
Qed.

Definition NQ : nat := Z.to_nat DLCI_MAX.

(* sd = messages sent so far, out = octets pulled so far, started = messages whose opening flag was pulled *)
Definition tx_inv (sd : list (Z * list Z)) (t : tx) (out : list Z) (started : list (Z * list Z)) : Prop :=
  tx_ok t /\ length (queues t) = NQ /\
  out ++ remaining t = concat (map frame' started) /\
  (forall i, (i < NQ)%nat ->
     map hdr' (filter (on_dlci (Z.of_nat i)) started) ++ nth i (queues t) [] = map hdr' (filter (on_dlci (Z.of_nat i)) sd)) /\
  (forall x, In x started -> In x sd).

Lemma nth_repeat_nil {A} n i : nth i (repeat (@nil A) n) [] = [].
Proof. revert i. induction n as [|n IH]; intros [|i]; cbn [repeat nth]; auto. Qed.

Lemma tx_inv_init : tx_inv [] tx0 [] [].
Proof.
  unfold tx_inv, tx0, tx_ok, remaining. cbn [cur tstate queues]. split; [discriminate|].
  split; [apply repeat_length|]. split; [reflexivity|]. split; [|intros x []].
  intros i _. cbn [filter map app]. apply nth_repeat_nil.
Qed.

Lemma filter_snoc {A} (f : A -> bool) l x : filter f (l ++ [x]) = if f x then filter f l ++ [x] else filter f l.
Proof. rewrite filter_app. cbn [filter]. destruct (f x); [reflexivity|apply app_nil_r]. Qed.

Lemma tx_inv_send sd t out started d p : 0 <= d < DLCI_MAX -> tx_inv sd t out started ->
  exists t', sendmsg t d p = Some t' /\ tx_inv (sd ++ [(d, p)]) t' out started.
Proof.
  intros Hd (Hok & Hlen & Hout & Hq & Hin).
  eexists. split; [apply sendmsg_valid; exact Hd|].
  unfold tx_inv, tx_ok, remaining in *. cbn [cur tstate queues].
  split; [exact Hok|]. split; [rewrite enq_length; exact Hlen|]. split; [exact Hout|].
  split; [|intros x Hx; apply in_or_app; left; apply Hin; exact Hx].
  intros i Hi. rewrite filter_snoc.
  destruct (Nat.eq_dec i (Z.to_nat d)) as [Ei|Ei].
  - subst i. replace (on_dlci (Z.of_nat (Z.to_nat d)) (d, p)) with true by (unfold on_dlci; cbn [fst]; lia).
    rewrite enq_same by (unfold NQ in *; lia). rewrite map_app. cbn [map]. rewrite app_assoc, Hq by exact Hi.
    reflexivity.
  - replace (on_dlci (Z.of_nat i) (d, p)) with false by (unfold on_dlci; cbn [fst]; lia). rewrite enq_other by exact Ei. apply Hq. exact Hi.
Qed.

Lemma frame'_hdr' x : frame' x = FLAG :: escape (hdr' x) ++ [FLAG].
Proof. reflexivity. Qed.

Lemma tx_inv_pull sd t out started : tx_inv sd t out started ->
  exists started', tx_inv sd (snd (pull t)) (out ++ match fst (pull t) with PCh c => [c] | _ => [] end) started' /\
                   (started' = started \/ exists x, started' = started ++ [x]).
Proof.
  intros (Hok & Hlen & Hout & Hq & Hin).
  destruct (cur t) as [l|] eqn:Ec.
  - destruct (pull_busy t l Ec Hok) as (c & t' & E & Hr & Hqs & Hok'). rewrite E. cbn [fst snd].
    exists started. split; [|left; reflexivity]. unfold tx_inv. rewrite Hqs.
    split; [exact Hok'|]. split; [exact Hlen|]. split; [|split; assumption].
    rewrite <- Hout, Hr, <- app_assoc. reflexivity.
  - assert (Hrem : remaining t = []) by (unfold remaining; rewrite Ec; reflexivity).
    assert (Hts : tstate t <> ESCAPE) by (unfold tx_ok in Hok; rewrite Ec in Hok; exact Hok).
    destruct (dequeue (queues t)) as [[m qs']|] eqn:Ed.
    + rewrite (pull_idle_some t m qs' Ec Ed). cbn [fst snd].
      destruct (dequeue_some _ _ _ Ed) as (i & Hi & Hn & Hlo & Hot & Hl').
      rewrite Hlen in Hi. pose proof (Hq i Hi) as Hqi. rewrite Hn in Hqi.
      assert (Hm : In m (map hdr' (filter (on_dlci (Z.of_nat i)) sd))).
      { rewrite <- Hqi. apply in_or_app. right. left. reflexivity. }
      apply in_map_iff in Hm as (x & Hx & Hxin). apply filter_In in Hxin as [Hxsd Hxd].
      exists (started ++ [x]). split; [|right; exists x; reflexivity].
      unfold tx_inv, tx_ok, remaining. cbn [cur tstate queues].
      split; [destruct m; [exact Hts|exact I]|]. split; [congruence|]. split; [|split].
      * rewrite (is_escape_false _ Hts), map_app, concat_app. cbn [map concat]. rewrite app_nil_r.
        rewrite <- Hout, Hrem, app_nil_r, frame'_hdr', Hx, <- app_assoc. reflexivity.
      * intros j Hj. rewrite filter_snoc. destruct (Nat.eq_dec j i) as [Ej|Ej].
        -- subst j. rewrite Hxd, map_app. cbn [map]. rewrite Hx, <- app_assoc. cbn [app]. exact Hqi.
        -- unfold on_dlci in Hxd |- *. replace (fst x =? Z.of_nat j) with false by lia.
           rewrite Hot by exact Ej. apply Hq. exact Hj.
      * intros y Hy. apply in_app_or in Hy as [Hy|[Hy|[]]]; [apply Hin; exact Hy|subst y; exact Hxsd].
    + rewrite (pull_idle_none t Ec Ed). cbn [fst snd]. rewrite app_nil_r.
      exists started. split; [|left; reflexivity]. unfold tx_inv. auto.
Qed.

Lemma sends_app h1 h2 : sends (h1 ++ h2) = sends h1 ++ sends h2.
Proof. induction h1 as [|[d p|] h1 IH]; cbn [app sends]; rewrite ?IH; reflexivity. Qed.

Lemma tx_run_inv h : forall sd t out started, Forall valid_op h -> tx_inv sd t out started ->
  exists started', tx_inv (sd ++ sends h) (fst (tx_run t h)) (out ++ snd (tx_run t h)) started'.
Proof.
  induction h as [|o h IH]; intros sd t out started Hv Hinv.
  - exists started. cbn [tx_run sends fst snd]. rewrite !app_nil_r. exact Hinv.
  - inversion Hv as [|? ? Ho Hv']; subst. cbn [tx_run]. destruct o as [d p|].
    + cbn [valid_op] in Ho. destruct (tx_inv_send sd t out started d p Ho Hinv) as (t' & Es & Hinv').
      unfold tx_step. rewrite Es.
      destruct (IH (sd ++ [(d, p)]) t' out started Hv' Hinv') as (st' & Hst').
      destruct (tx_run t' h) as [t2 o2]. cbn [fst snd app] in *. exists st'.
      cbn [sends]. change ((d, p) :: sends h) with ([(d, p)] ++ sends h). rewrite app_assoc. exact Hst'.
    + destruct (tx_inv_pull sd t out started Hinv) as (st1 & Hinv1 & _).
      unfold tx_step. destruct (pull t) as [r t1]. cbn [fst snd] in Hinv1.
      destruct (IH sd t1 _ st1 Hv' Hinv1) as (st' & Hst').
      cbn [sends]. destruct r; destruct (tx_run t1 h) as [t2 o2]; cbn [fst snd app] in *; exists st';
        rewrite <- ?app_assoc in Hst'; cbn [app] in Hst'; exact Hst'.
Qed.

(* for every history whose sends address an existing queue *)
Lemma pull_refines_frames h : Forall valid_op h ->
  exists started,
    snd (tx_run tx0 h) ++ remaining (fst (tx_run tx0 h)) = concat (map frame' started) /\
    (forall d, 0 <= d < DLCI_MAX ->
       map hdr' (filter (on_dlci d) started) ++ qget (queues (fst (tx_run tx0 h))) d = map hdr' (filter (on_dlci d) (sends h))) /\
    (forall x, In x started -> In x (sends h)).
Proof.
  intros Hv. destruct (tx_run_inv h [] tx0 [] [] Hv tx_inv_init) as (started & _ & _ & Hout & Hq & Hin).
  cbn [app] in *. exists started. split; [exact Hout|]. split; [|exact Hin].
  intros d Hd. unfold qget. specialize (Hq (Z.to_nat d)). rewrite Z2Nat.id in Hq by lia. apply Hq. unfold NQ. lia.
Qed.

(* no history at all (valid or not) makes the octet machine read past msg->tail *)
Lemma tx_never_oob h : forall t, tx_ok t -> tx_ok (fst (tx_run t h)).
Proof.
  induction h as [|o h IH]; intros t Hok; [exact Hok|]. cbn [tx_run]. destruct o as [d p|]; unfold tx_step.
  - destruct (sendmsg t d p) as [t'|] eqn:E.
    + destruct (sendmsg_keeps_cur _ _ _ _ E) as (Hc & Hs & _ & _).
      specialize (IH t'). destruct (tx_run t' h). cbn [fst] in *. apply IH. unfold tx_ok in *. rewrite Hc, Hs. exact Hok.
    + specialize (IH t Hok). destruct (tx_run t h). exact IH.
  - destruct (pull_no_oob t Hok) as [_ Hok']. destruct (pull t) as [r t1]. cbn [snd] in Hok'.
    specialize (IH t1 Hok'). destruct r; destruct (tx_run t1 h); exact IH.
Qed.

(* ---------------------------------------------------------------- draining: the closed form *)

Definition future (t : tx) : list Z := remaining t ++ concat (map frame_of (concat (queues t))).

Lemma pull_future t : tx_ok t ->
  match future t with
  | [] => pull t = (PNone, t)
  | c :: f => exists t', pull t = (PCh c, t') /\ future t' = f /\ tx_ok t'
  end.
Proof.
  intros Hok. unfold future. destruct (cur t) as [l|] eqn:Ec.
  - destruct (pull_busy t l Ec Hok) as (c & t' & E & Hr & Hqs & Hok'). rewrite Hr. cbn [app].
    exists t'. rewrite Hqs. auto.
  - assert (Hrem : remaining t = []) by (unfold remaining; rewrite Ec; reflexivity).
    assert (Hts : tstate t <> ESCAPE) by (unfold tx_ok in Hok; rewrite Ec in Hok; exact Hok).
    rewrite Hrem. cbn [app]. destruct (dequeue (queues t)) as [[m qs']|] eqn:Ed.
    + rewrite (dequeue_concat_some _ _ _ Ed). cbn [map concat]. unfold frame_of at 1. cbn [app].
      eexists. split; [exact (pull_idle_some t m qs' Ec Ed)|]. unfold remaining. cbn [cur tstate queues].
      rewrite (is_escape_false _ Hts). split; [rewrite <- app_assoc; reflexivity|].
      unfold tx_ok. cbn [cur tstate]. destruct m; [exact Hts|exact I].
    + rewrite (dequeue_concat_none _ Ed). cbn [map concat]. apply pull_idle_none; assumption.
Qed.

Lemma pulls_future n : forall t, tx_ok t ->
  snd (tx_run t (repeat Pull n)) = firstn n (future t) /\
  future (fst (tx_run t (repeat Pull n))) = skipn n (future t).
Proof.
  induction n as [|n IH]; intros t Hok; [split; reflexivity|].
  cbn [repeat tx_run]. unfold tx_step. pose proof (pull_future t Hok) as Hp.
  destruct (future t) as [|c f] eqn:Ef.
  - rewrite Hp. destruct (IH t Hok) as [I1 I2]. destruct (tx_run t (repeat Pull n)) as [t2 o2]. cbn [fst snd app] in *.
    rewrite I1, I2, Ef. destruct n; split; reflexivity.
  - destruct Hp as (t' & E & Hf & Hok'). rewrite E. destruct (IH t' Hok') as [I1 I2].
    destruct (tx_run t' (repeat Pull n)) as [t2 o2]. cbn [fst snd app firstn skipn] in *. rewrite I1, I2, Hf. split; reflexivity.
Qed.

Lemma list_as_nths {A} (l : list (list A)) : l = map (fun i => nth i l []) (seq 0 (length l)).
Proof.
  induction l as [|a l IH]; [reflexivity|]. cbn [length seq map nth]. f_equal.
  rewrite <- seq_shift, map_map. exact IH.
Qed.

Lemma concat_map_map {A B} (f : A -> B) (ls : list (list A)) : concat (map (map f) ls) = map f (concat ls).
Proof. symmetry. apply concat_map. Qed.

(* everything queued first, then drained: lowest DLCI first, FIFO within a DLCI *)
Lemma batch_order sd n : Forall (fun x => 0 <= fst x < DLCI_MAX) sd ->
  (length (concat (map frame' (sorted_by_dlci sd))) <= n)%nat ->
  snd (tx_run tx0 (map send_of sd ++ repeat Pull n)) = concat (map frame' (sorted_by_dlci sd)).
Proof.
  intros Hv Hn.
  assert (Hvo : Forall valid_op (map send_of sd)).
  { apply Forall_forall. intros o Ho. apply in_map_iff in Ho as (x & <- & Hx). cbn [send_of valid_op].
    rewrite Forall_forall in Hv. apply Hv. exact Hx. }
  assert (Hsends : sends (map send_of sd) = sd).
  { clear. induction sd as [|[d p] sd IH]; [reflexivity|]. cbn [map send_of sends fst snd]. rewrite IH. reflexivity. }
  assert (Hquiet : forall l t, snd (tx_run t (map send_of l)) = [] /\ cur (fst (tx_run t (map send_of l))) = cur t /\
                               tstate (fst (tx_run t (map send_of l))) = tstate t).
  { induction l as [|x l IH]; intros t; [auto|]. cbn [map tx_run send_of tx_step].
    destruct (sendmsg t (fst x) (snd x)) as [t'|] eqn:E.
    - destruct (sendmsg_keeps_cur _ _ _ _ E) as (Hc & Hs & _). destruct (IH t') as (I1 & I2 & I3).
      destruct (tx_run t' (map send_of l)). cbn [fst snd app] in *. rewrite I1, I2, I3. auto.
    - destruct (IH t) as (I1 & I2 & I3). destruct (tx_run t (map send_of l)). cbn [fst snd app] in *. auto. }
  destruct (tx_run_inv (map send_of sd) [] tx0 [] [] Hvo tx_inv_init) as (started & Hok & Hlen & Hout & Hq & Hin).
  destruct (Hquiet sd tx0) as (Q1 & Q2 & Q3).
  rewrite tx_run_app. destruct (tx_run tx0 (map send_of sd)) as [t1 o1] eqn:E1. cbn [fst snd app] in *.
  subst o1. rewrite Hsends in *.
  assert (Hrem : remaining t1 = []) by (unfold remaining; rewrite Q2; reflexivity).
  assert (Hst : started = []).
  { rewrite Hrem in Hout. destruct started as [|x st]; [reflexivity|]. discriminate Hout. }
  subst started.
  destruct (pulls_future n t1 Hok) as [P1 _]. destruct (tx_run t1 (repeat Pull n)) as [t2 o2]. cbn [fst snd app] in *.
  rewrite P1. unfold future. rewrite Hrem. cbn [app].
  assert (Hcq : concat (queues t1) = map hdr' (sorted_by_dlci sd)).
  { rewrite (list_as_nths (queues t1)) at 1. rewrite Hlen. unfold sorted_by_dlci. fold NQ.
    rewrite flat_map_concat_map, <- concat_map_map, map_map. f_equal.
    apply map_ext_in. intros i Hi. apply in_seq in Hi. specialize (Hq i). cbn [filter map app] in Hq. apply Hq. lia. }
  rewrite Hcq, map_map.
  replace (map (fun x => frame_of (hdr' x)) (sorted_by_dlci sd)) with (map frame' (sorted_by_dlci sd)) by reflexivity.
  apply firstn_all2. exact Hn.
Qed.

(* ---------------------------------------------------------------- end to end: Tx -> wire -> Rx *)

Lemma render_frames l : render (map (fun x => Frame (fst x) (snd x)) l) = concat (map frame' l).
Proof. unfold render. rewrite map_map. reflexivity. Qed.

Lemma good_frames cap l : Forall (valid_msg cap) l -> good_stream cap (map (fun x => Frame (fst x) (snd x)) l).
Proof.
  induction 1 as [|x l (H1 & H2 & H3) Hl IH]; [exact I|]. cbn [map good_stream]. auto.
Qed.

Lemma frames_of_frames l : frames_of (map (fun x => Frame (fst x) (snd x)) l) = l.
Proof. induction l as [|[d p] l IH]; [reflexivity|]. cbn [map frames_of fst snd]. rewrite IH. reflexivity. Qed.

Lemma rx_frames cap l : 0 < cap -> Forall (valid_msg cap) l ->
  snd (rx_run cap rx0 (concat (map frame' l))) = map rmsg l.
Proof.
  intros Hc Hl. destruct (rx_stream cap Hc _ 0 0 (good_frames cap l Hl)) as (d1 & c1 & E).
  rewrite render_frames, frames_of_frames in E. change (mk WAIT 0 0 [] 0) with rx0 in E. rewrite E. reflexivity.
Qed.

Definition valid_op_e2e (cap : Z) (o : op) : Prop :=
  match o with Send d p => valid_msg cap (d, p) | Pull => True end.

Lemma valid_e2e_valid cap h : Forall (valid_op_e2e cap) h -> Forall valid_op h /\ Forall (valid_msg cap) (sends h).
Proof.
  induction 1 as [|o h Ho Hh [IH1 IH2]]; [split; constructor|]. destruct o as [d p|]; cbn [sends].
  - split; constructor; auto. destruct Ho as (H & _). exact H.
  - split; [constructor|]; auto.
Qed.

(* any interleaving of sendmsg and pull, every pulled octet fed to the receiver: the receiver has dispatched
   a prefix of the started messages (all of them when no frame is in transmission), unchanged *)
Lemma end_to_end cap h : 0 < cap -> Forall (valid_op_e2e cap) h ->
  exists started rest,
    snd (rx_run cap rx0 (snd (tx_run tx0 h))) ++ rest = map rmsg started /\
    (remaining (fst (tx_run tx0 h)) = [] -> rest = []) /\
    (forall d, 0 <= d < DLCI_MAX ->
       map hdr' (filter (on_dlci d) started) ++ qget (queues (fst (tx_run tx0 h))) d = map hdr' (filter (on_dlci d) (sends h))).
Proof.
  intros Hc Hv. destruct (valid_e2e_valid cap h Hv) as [Hv1 Hv2].
  destruct (pull_refines_frames h Hv1) as (started & Hout & Hq & Hin).
  assert (Hvs : Forall (valid_msg cap) started).
  { apply Forall_forall. intros x Hx. rewrite Forall_forall in Hv2. apply Hv2, Hin, Hx. }
  pose proof (rx_frames cap started Hc Hvs) as Hrx. rewrite <- Hout, rx_run_app in Hrx.
  destruct (rx_run cap rx0 (snd (tx_run tx0 h))) as [s1 e1]. cbn [snd] in *.
  destruct (rx_run cap s1 (remaining (fst (tx_run tx0 h)))) as [s2 e2] eqn:E2. cbn [snd] in Hrx.
  exists started, e2. split; [exact Hrx|]. split; [|exact Hq].
  intros Hr. rewrite Hr in E2. cbn [rx_run] in E2. inversion E2. reflexivity.
Qed.

Lemma sorted_in sd x : In x (sorted_by_dlci sd) -> In x sd.
Proof.
  unfold sorted_by_dlci. intros H. apply in_flat_map in H as (i & _ & H). apply filter_In in H. tauto.
Qed.

(* the batch: queue everything, drain, feed to the receiver *)
Lemma end_to_end_batch cap sd n : 0 < cap -> Forall (valid_msg cap) sd ->
  (length (concat (map frame' (sorted_by_dlci sd))) <= n)%nat ->
  snd (rx_run cap rx0 (snd (tx_run tx0 (map send_of sd ++ repeat Pull n)))) = map rmsg (sorted_by_dlci sd).
Proof.
  intros Hc Hv Hn. rewrite batch_order.
  - apply rx_frames; [exact Hc|]. apply Forall_forall. intros x Hx. rewrite Forall_forall in Hv. apply Hv, sorted_in, Hx.
  - eapply Forall_impl; [|exact Hv]. intros x (H & _). exact H.
  - exact Hn.
Qed.

(* non-vacuity *)
Example batch_example :
  Forall (valid_msg 2048) [(10, [1]); (5, [126; 0]); (10, [2]); (4, []); (5, [125])] /\
  sorted_by_dlci [(10, [1]); (5, [126; 0]); (10, [2]); (4, []); (5, [125])] = [(4, []); (5, [126; 0]); (5, [125]); (10, [1]); (10, [2])] /\
  snd (tx_run tx0 (map send_of [(10, [1]); (5, [126; 0]); (10, [2]); (4, []); (5, [125])] ++ repeat Pull 40)) =
    [126; 4; 3; 126;  126; 5; 3; 125; 94; 125; 32; 126;  126; 5; 3; 125; 93; 126;  126; 10; 3; 1; 126;  126; 10; 3; 2; 126].
Proof.
  split; [|split; vm_compute; reflexivity].
  repeat constructor; vm_compute; congruence.
Qed.

(* a message queued while another is in transmission waits for the closing flag, even with a lower DLCI *)
Example interleave_example :
  snd (tx_run tx0 [Send 10 [1]; Pull; Pull; Send 4 [2]; Send 10 [3]; Pull; Pull; Pull; Pull; Pull; Pull; Pull; Pull; Pull; Pull; Pull; Pull; Pull; Pull]) =
    [126; 10; 3; 1; 126;  126; 4; 3; 2; 126;  126; 10; 3; 3; 126].
Proof. vm_compute. reflexivity. Qed.
