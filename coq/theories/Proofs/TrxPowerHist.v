(* C12 over histories: running = last effective power command; clock links invariant under arbitrary control datagrams *)
From Coq Require Import ZArith List Bool Lia ZifyBool.
From OBB Require Import Base.Range Base.Dec Gen.TrxdConst Gen.FakeTrxConst Model.Trxd Model.Trx Proofs.TrxMeta Proofs.TrxInv Proofs.TrxPower.
Import ListNotations.
Open Scope Z_scope.

(* two worlds with the same power state, wiring and clock distribution *)
Definition same_power (w w' : world) : Prop :=
  w_links w' = w_links w /\ w_gen w' = w_gen w /\ length (w_trx w') = length (w_trx w) /\
  forall k t', nth_error (w_trx w') k = Some t' -> exists t, nth_error (w_trx w) k = Some t /\ x_run t' = x_run t /\ x_cfg t' = x_cfg t.

Lemma same_power_refl w : same_power w w.
Proof. repeat split; auto. intros k t' H. exists t'. auto. Qed.
Lemma same_power_trans a b c : same_power a b -> same_power b c -> same_power a c.
Proof.
  intros [A1 [A2 [A3 A4]]] [B1 [B2 [B3 B4]]]. repeat split; try congruence.
  intros k t' H. destruct (B4 k t' H) as [t1 [H1 [R1 C1]]]. destruct (A4 k t1 H1) as [t0 [H0 [R0 C0]]]. exists t0. repeat split; congruence.
Qed.
Lemma same_power_upd w i f : (forall t, x_run (f t) = x_run t /\ x_cfg (f t) = x_cfg t) -> same_power w (upd_trx w i f).
Proof.
  intros Hf. unfold upd_trx, set_trxs. repeat split; cbn [w_links w_gen w_trx]; [apply upd_length|].
  intros k t' H. rewrite upd_nth in H. destruct (Nat.eqb i k).
  - destruct (nth_error (w_trx w) k) as [t|]; [|discriminate]. cbn in H. injection H as <-. exists t. split; [reflexivity|apply Hf].
  - exists t'. auto.
Qed.

Lemma links_inv_same w w' : same_power w w' -> links_inv w -> links_inv w'.
Proof.
  intros [S1 [S2 [S3 S4]]] [Hn [Hl Hg]]. unfold links_inv. rewrite S1, S2. split; [exact Hn|]. split; [|exact Hg].
  intros k. rewrite Hl. split.
  - intros [t [Ht [Hr Hc]]]. assert (Hk : (k < length (w_trx w'))%nat) by (rewrite S3; apply nth_error_Some; congruence).
    destruct (nth_error (w_trx w') k) as [t'|] eqn:E; [|apply nth_error_None in E; lia]. exists t'. split; [reflexivity|].
    destruct (S4 k t' E) as [t0 [Ht0 [R C]]]. rewrite Ht in Ht0. injection Ht0 as <-. split; congruence.
  - intros [t' [Ht' [Hr Hc]]]. destruct (S4 k t' Ht') as [t0 [Ht0 [R C]]]. exists t0. repeat split; congruence.
Qed.
Lemma cfg_ok_same w w' : same_power w w' -> cfg_ok w -> cfg_ok w'.
Proof.
  intros [_ [_ [S3 S4]]] H p tp c tc Hp Hc Htc. destruct (S4 p tp Hp) as [tp0 [Hp0 [_ Cp]]]. destruct (S4 c tc Htc) as [tc0 [Hc0 [_ Cc]]].
  rewrite Cp in Hc. rewrite Cc. exact (H p tp0 c tc0 Hp0 Hc Hc0).
Qed.

(* parse_cmd touches the power state only through power_event (successful POWERON, any POWEROFF) *)
Lemma parse_cmd_power w i req draws : (i < length (w_trx w))%nat ->
  let '(w', r, _) := parse_cmd w i req draws in
  same_power w w' \/ (exists w1 on, same_power w w1 /\ w' = power_event w1 i on /\ r = CStatus 0 [] /\
                      (on = true -> exists t1, nth_error (w_trx w1) i = Some t1 /\ x_run t1 = false /\ ready t1 = true)).
Proof.
  intros Hi. unfold parse_cmd.
  destruct (nth_error (w_trx w) i) as [t|] eqn:Et; [|left; apply same_power_refl].
  destruct (fake_handler (x_sim t) req) as [s' r].
  assert (S1 : same_power w (upd_trx w i (fun t0 => set_sim t0 s'))) by (apply same_power_upd; intros; split; reflexivity).
  assert (Et1 : nth_error (w_trx (upd_trx w i (fun t0 => set_sim t0 s'))) i = Some (set_sim t s')).
  { unfold upd_trx, set_trxs. cbn [w_trx]. rewrite upd_nth, Nat.eqb_refl, Et. reflexivity. }
  set (w1 := upd_trx w i (fun t0 => set_sim t0 s')) in *. clearbody w1.
  assert (U : forall f, (forall t0, x_run (f t0) = x_run t0 /\ x_cfg (f t0) = x_cfg t0) -> same_power w (upd_trx w1 i f)).
  { intros f Hf. eapply same_power_trans; [exact S1|apply same_power_upd, Hf]. }
  destruct r as [res|]; [left; exact S1|].
  destruct (verb_is req v_POWERON 0).
  { destruct (x_run (set_sim t s')) eqn:Er; [left; exact S1|]. destruct (negb (ready (set_sim t s'))) eqn:Erd; [left; exact S1|].
    right. exists w1, true. split; [exact S1|]. split; [reflexivity|]. split; [reflexivity|]. intros _. exists (set_sim t s'). split; [exact Et1|]. split; [exact Er|].
    destruct (ready (set_sim t s')); [reflexivity|discriminate]. }
  destruct (verb_is req v_POWEROFF 0).
  { right. exists w1, false. split; [exact S1|]. split; [reflexivity|]. split; [reflexivity|]. discriminate. }
  destruct (verb_is req v_RXTUNE 1). { destruct (arg req 1); left; [apply U; intros; split; reflexivity|exact S1]. }
  destruct (verb_is req v_TXTUNE 1). { destruct (arg req 1); left; [apply U; intros; split; reflexivity|exact S1]. }
  destruct (verb_is req v_MEASURE 1).
  { destruct (negb (c_pm (x_cfg (set_sim t s')))); [left; exact S1|]. destruct (arg req 1); [|left; exact S1].
    destruct (pm_match _ _); destruct (randint _ _ _) as [[v d']|]; left; exact S1. }
  destruct (verb_va req v_SETFH 4).
  { destruct (all_ints (tl req)) as [[|hsn [|maio fs]]|]; try (left; exact S1).
    destruct (length _ =? 0)%nat; [left; exact S1|]. destruct (_ || _); left; [exact S1|apply U; intros; split; reflexivity]. }
  destruct (verb_is req v_SETFORMAT 1).
  { destruct (arg req 1); [|left; exact S1]. destruct (_ || _); [left; exact S1|]. destruct (known _); left; [apply U; intros; split; reflexivity|exact S1]. }
  destruct (verb_is req v_SETPOWER 1). { destruct (arg req 1); left; [apply U; intros; split; reflexivity|exact S1]. }
  destruct (verb_is req v_NOMTXPOWER 0). { left; exact S1. }
  destruct (verb_is req v_RFMUTE 1). { destruct (arg req 1); left; [apply U; intros; split; reflexivity|exact S1]. }
  left; exact S1.
Qed.

(* every control datagram, well formed or not, keeps: children never own clocks; clock indications go to exactly the clock links of
   running clock-owning transceivers (no duplicates); the generator runs iff there is at least one *)
Theorem handle_rx_links w i data draws : cfg_ok w -> links_inv w -> (i < length (w_trx w))%nat ->
  let '(w', _, _) := handle_rx w i data draws in cfg_ok w' /\ links_inv w'.
Proof.
  intros Hc Hl Hi. unfold handle_rx.
  destruct (existsb _ _); [auto|]. destruct (negb _); [auto|].
  pose proof (parse_cmd_power w i (split_sp (strip is_nul (strip is_ws (skipn 4 (firstn (Z.to_nat ctrl_recv_size) data)))) []) draws Hi) as H.
  destruct (parse_cmd w i _ draws) as [[w' r] d'].
  assert (G : cfg_ok w' /\ links_inv w').
  { destruct H as [S|[w1 [on [S [-> _]]]]].
    - split; [eapply cfg_ok_same; eassumption|eapply links_inv_same; eassumption].
    - split; [apply cfg_ok_power; eapply cfg_ok_same; eassumption|].
      apply links_inv_power; [eapply cfg_ok_same; eassumption|eapply links_inv_same; eassumption|]. destruct S as [_ [_ [S3 _]]]. lia. }
  destruct r; exact G.
Qed.

(* ---- running = outcome of the last effective power event ---- *)
Definition aff_cfg (c : cfg) (i : nat) : list nat := if c_mgt c && (c_idx c =? 0) then i :: c_children c else [i].
Definition eff_run (cfgs : list cfg) (r0 : bool) (hist : list (nat * bool)) (j : nat) : bool :=
  fold_left (fun r e => match nth_error cfgs (fst e) with
                        | Some c => if mem_nat j (aff_cfg c (fst e)) then snd e else r
                        | None => r end) hist r0.

Lemma power_events_run : forall hist w j t,
  nth_error (w_trx w) j = Some t ->
  exists t', nth_error (w_trx (fold_left (fun w e => power_event w (fst e) (snd e)) hist w)) j = Some t'
             /\ x_cfg t' = x_cfg t
             /\ x_run t' = eff_run (map x_cfg (w_trx w)) (x_run t) hist j
             /\ map x_cfg (w_trx (fold_left (fun w e => power_event w (fst e) (snd e)) hist w)) = map x_cfg (w_trx w).
Proof.
  induction hist as [|[i on] r IH]; intros w j t Ht; cbn [fold_left].
  - exists t. repeat split; auto.
  - cbn [fst snd].
    assert (Hcfg : map x_cfg (w_trx (power_event w i on)) = map x_cfg (w_trx w)).
    { apply nth_ext with (d := x_cfg t) (d' := x_cfg t); [rewrite !map_length; apply power_event_length|].
      intros k Hk. rewrite !map_length in Hk. rewrite power_event_length in Hk.
      destruct (nth_error (w_trx w) i) as [ti|] eqn:Ei; [|unfold power_event; rewrite Ei; reflexivity].
      destruct (nth_error (w_trx w) k) as [tk|] eqn:Ek; [|apply nth_error_None in Ek; lia].
      assert (E1 : nth_error (map x_cfg (w_trx w)) k = Some (x_cfg tk)) by (rewrite nth_error_map, Ek; reflexivity).
      assert (E2 : nth_error (map x_cfg (w_trx (power_event w i on))) k = Some (x_cfg tk)).
      { rewrite nth_error_map, (power_event_nth w i on ti k Ei), Ek. destruct (mem_nat k (affected ti i)); cbn [option_map]; [|reflexivity].
        f_equal. apply power_one_fields. }
      rewrite (nth_error_nth _ _ _ E1), (nth_error_nth _ _ _ E2). reflexivity. }
    destruct (nth_error (w_trx w) i) as [ti|] eqn:Ei.
    + assert (Hj : exists tj, nth_error (w_trx (power_event w i on)) j = Some tj /\ x_cfg tj = x_cfg t
                              /\ x_run tj = if mem_nat j (affected ti i) then on else x_run t).
      { rewrite (power_event_nth w i on ti j Ei), Ht. destruct (mem_nat j (affected ti i)); cbn [option_map].
        - eexists. split; [reflexivity|]. destruct (power_one_fields on t) as [A [_ [_ [_ [_ [B _]]]]]]. auto.
        - exists t. auto. }
      destruct Hj as [tj [Hj [Cj Rj]]]. destruct (IH (power_event w i on) j tj Hj) as [t' [H1 [H2 [H3 H4]]]].
      exists t'. split; [exact H1|]. split; [congruence|]. split; [|congruence].
      rewrite H3, Hcfg. unfold eff_run at 2. cbn [fold_left fst snd]. rewrite nth_error_map, Ei. cbn [option_map].
      unfold affected in Rj. unfold aff_cfg. rewrite Rj. reflexivity.
    + assert (Ew : power_event w i on = w) by (unfold power_event; rewrite Ei; reflexivity). rewrite Ew.
      destruct (IH w j t Ht) as [t' [H1 [H2 [H3 H4]]]]. exists t'. repeat split; auto.
      rewrite H3. unfold eff_run at 2. cbn [fold_left fst snd]. rewrite nth_error_map, Ei. reflexivity.
Qed.

(* documented port plan: transceiver with child index idx binds base+0 (clock, parent only) / base+2*idx+1 (control) / base+2*idx+2 (data)
   and talks to the same numbers + 100 *)
Definition port_ctrl (base idx : Z) : Z := base + 2 * idx + 1.
Definition port_data (base idx : Z) : Z := base + 2 * idx + 2.
Definition port_clck (base : Z) : Z := base.
Lemma ports_distinct base i j : 0 <= i -> 0 <= j ->
  port_ctrl base i <> port_data base j /\ port_clck base <> port_ctrl base i /\ port_clck base <> port_data base i
  /\ (i <> j -> port_ctrl base i <> port_ctrl base j /\ port_data base i <> port_data base j).
Proof. unfold port_ctrl, port_data, port_clck. lia. Qed.
