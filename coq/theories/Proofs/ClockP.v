(* Lemmas about the clock source model (C09). *)
From Coq Require Import ZArith List Bool Lia ZifyBool.
From OBB Require Import Base.Range Gen.ClockConst Model.Clock.
Import ListNotations.
Open Scope Z_scope.
Ltac Zify.zify_post_hook ::= Z.to_euclidean_division_equations.

(* ------------------------------------------------------------------ constants regenerated from the source *)
Lemma const_hyper : c_hyperframe = 2715648 /\ c_hyperframe_shared = 2715648.
Proof. split; reflexivity. Qed.
Lemma const_tick : 0 < c_tick /\ Z.abs (c_tick - 4615000) <= 1000 /\ c_first_tick = c_tick.
Proof. vm_compute. intuition discriminate. Qed.
Lemma const_defaults : c_default_period = 102 /\ c_default_start = 0.
Proof. split; reflexivity. Qed.

(* the configuration the theorems speak about: any tick, the hyperframe of the source *)
Definition mkcfg (tk per : Z) (nl : nat) (h : bool) : cfg :=
  {| tick := tk; hyper := c_hyperframe; period := per; nlinks := nl; handler := h |}.

Lemma impl_cfg_mk per nl h : impl_cfg per nl h = mkcfg c_tick per nl h.
Proof. reflexivity. Qed.

(* ------------------------------------------------------------------ decimal rendering *)
Definition is_digit (d : Z) : Prop := 48 <= d <= 57.
Definition dec_value (ds : list Z) : Z := fold_left (fun a d => 10 * a + (d - 48)) ds 0.

Lemma dec_value_app ds d : dec_value (ds ++ [d]) = 10 * dec_value ds + (d - 48).
Proof. unfold dec_value. rewrite fold_left_app. reflexivity. Qed.

Lemma dec_fuel_spec : forall fuel n acc, (0 < fuel)%nat -> 0 <= n < 2 ^ Z.of_nat fuel ->
  exists ds, dec_fuel fuel n acc = ds ++ acc /\ Forall is_digit ds /\ ds <> [] /\ dec_value ds = n
             /\ (0 < n -> hd 0 ds <> 48) /\ (n = 0 -> ds = [48]).
Proof.
  induction fuel as [|f IH]; intros n acc Hf Hn.
  - lia.
  - cbn [dec_fuel]. destruct (n <? 10) eqn:E.
    + exists [48 + n mod 10]. repeat split.
      * constructor; [unfold is_digit; lia | constructor].
      * discriminate.
      * unfold dec_value. cbn [fold_left]. lia.
      * cbn [hd]. lia.
      * intros ->. reflexivity.
    + rewrite Nat2Z.inj_succ, Z.pow_succ_r in Hn by lia.
      assert (Hf' : (0 < f)%nat).
      { destruct f; [|lia]. cbn in Hn. lia. }
      destruct (IH (n / 10) ((48 + n mod 10) :: acc)) as [ds [E1 [E2 [E3 [E4 [E5 E6]]]]]]; [exact Hf'|lia|].
      exists (ds ++ [48 + n mod 10]). repeat split.
      * rewrite E1, <- app_assoc. reflexivity.
      * apply Forall_app. split; [exact E2|]. constructor; [unfold is_digit; lia | constructor].
      * destruct ds; discriminate.
      * rewrite dec_value_app, E4. lia.
      * intros _. destruct ds as [|d ds']; [congruence|]. cbn [app hd]. cbn [hd] in E5. apply E5. lia.
      * intros ->. discriminate.
Qed.

Lemma dec_nat_spec n : 0 <= n ->
  Forall is_digit (dec_nat n) /\ dec_nat n <> [] /\ dec_value (dec_nat n) = n /\ (0 < n -> hd 0 (dec_nat n) <> 48) /\ (n = 0 -> dec_nat n = [48]).
Proof.
  intros Hn. unfold dec_nat.
  assert (B : 0 <= n < 2 ^ Z.of_nat (S (Z.to_nat (Z.log2 n)))).
  { rewrite Nat2Z.inj_succ, Z2Nat.id by apply Z.log2_nonneg.
    destruct (Z.eq_dec n 0) as [->|Hz]; [cbn; lia|].
    pose proof (Z.log2_spec n ltac:(lia)) as L. lia. }
  destruct (dec_fuel_spec _ n [] (Nat.lt_0_succ _) B) as [ds [E1 [E2 [E3 [E4 [E5 E6]]]]]].
  rewrite app_nil_r in E1. rewrite E1. auto.
Qed.

Lemma dec_nonneg n : 0 <= n -> dec n = dec_nat n.
Proof. intros Hn. unfold dec. destruct (n <? 0) eqn:E; [lia|reflexivity]. Qed.

Lemma digit_nonzero ds : Forall is_digit ds -> ~ In 0 ds.
Proof. intros F I. rewrite Forall_forall in F. apply F in I. unfold is_digit in I. lia. Qed.

(* the payload of frame fn >= 0: the ten octets of "IND CLOCK ", the canonical decimal digits of fn, one NUL *)
Lemma payload_spec fn : 0 <= fn ->
  payload fn = [73; 78; 68; 32; 67; 76; 79; 67; 75; 32] ++ dec fn ++ [0]
  /\ Forall is_digit (dec fn) /\ dec fn <> [] /\ dec_value (dec fn) = fn
  /\ (0 < fn -> hd 0 (dec fn) <> 48) /\ (fn = 0 -> dec fn = [48])
  /\ ~ In 0 ([73; 78; 68; 32; 67; 76; 79; 67; 75; 32] ++ dec fn).
Proof.
  intros Hn. split; [reflexivity|]. rewrite dec_nonneg by exact Hn.
  destruct (dec_nat_spec fn Hn) as [E2 [E3 [E4 [E5 E6]]]].
  split; [exact E2|]. split; [exact E3|]. split; [exact E4|]. split; [exact E5|]. split; [exact E6|].
  intros I. apply in_app_or in I. destruct I as [I|I].
  - cbn in I. lia.
  - exact (digit_nonzero _ E2 I).
Qed.

(* "%u" of a negative number (clck_start < 0 only): '-' and the digits of -n *)
Lemma dec_negative n : n < 0 -> dec n = 45 :: dec_nat (- n).
Proof. intros Hn. unfold dec. destruct (n <? 0) eqn:E; [reflexivity|lia]. Qed.

(* ------------------------------------------------------------------ one iteration in closed form *)
Definition over_of (c : cfg) (s : wst) : bool := tnext s + tick c <? now s.
Definition deadline_of (c : cfg) (s : wst) (e : Z) : Z := if over_of c s then now s + e else tnext s + tick c.
Definition next_state (c : cfg) (s : wst) (i : itin) : wst :=
  {| now := deadline_of c s (i_e i) + i_j i + dur c i; tnext := deadline_of c s (i_e i); src := (src s + 1) mod hyper c |}.
Definition obs_of (c : cfg) (s : wst) (i : itin) : obs :=
  {| o_over := over_of c s; o_deadline := deadline_of c s (i_e i); o_fn := src s; o_time := deadline_of c s (i_e i) + i_j i;
     o_sends := ind_sends c (src s); o_called := handler c |}.

Lemma step_eq c s i : period c <> 0 -> step c s i = Some (next_state c s i, obs_of c s i).
Proof.
  intros Hp. unfold step, head_iter, send_clck_ind, next_state, obs_of, deadline_of, over_of.
  destruct (period c =? 0) eqn:Ep; [lia|].
  destruct (tnext s + tick c - now s <? 0) eqn:E1; destruct (tnext s + tick c <? now s) eqn:E2; try lia.
  - do 2 f_equal; f_equal; lia.
  - do 2 f_equal; f_equal; lia.
Qed.

Lemma step_crash c s i : period c = 0 -> step c s i = None.
Proof. intros Hp. unfold step, head_iter, send_clck_ind. rewrite Hp. cbn [Z.eqb]. destruct (_ <? 0); reflexivity. Qed.

Definition run_obs c s ins := fst (fst (run c s ins)).
Definition run_state c s ins := snd (fst (run c s ins)).
Definition run_crashed c s ins := snd (run c s ins).

Lemma run_cons c s i rest : period c <> 0 ->
  run c s (i :: rest) = (obs_of c s i :: run_obs c (next_state c s i) rest, run_state c (next_state c s i) rest, run_crashed c (next_state c s i) rest).
Proof.
  intros Hp. cbn [run]. rewrite step_eq by exact Hp. unfold run_obs, run_state, run_crashed.
  destruct (run c (next_state c s i) rest) as [[os sf] cr]. reflexivity.
Qed.

Lemma run_ok c : period c <> 0 -> forall ins s, run_crashed c s ins = false /\ length (run_obs c s ins) = length ins.
Proof.
  intros Hp. induction ins as [|i rest IH]; intros s.
  - split; reflexivity.
  - unfold run_crashed, run_obs. rewrite run_cons by exact Hp. cbn [fst snd length]. destruct (IH (next_state c s i)) as [A B]. split; [exact A|]. f_equal. exact B.
Qed.

(* state before iteration k *)
Fixpoint state_at (c : cfg) (s : wst) (ins : list itin) (k : nat) : wst :=
  match k, ins with
  | S k', i :: rest => state_at c (next_state c s i) rest k'
  | _, _ => s
  end.

Lemma obs_at c : period c <> 0 -> forall ins s k i, nth_error ins k = Some i ->
  nth_error (run_obs c s ins) k = Some (obs_of c (state_at c s ins k) i).
Proof.
  intros Hp. induction ins as [|i0 rest IH]; intros s k i Hk.
  - destruct k; discriminate.
  - unfold run_obs. rewrite run_cons by exact Hp. cbn [fst]. destruct k as [|k].
    + cbn in Hk. injection Hk as ->. reflexivity.
    + cbn [nth_error state_at]. cbn [nth_error] in Hk. apply IH. exact Hk.
Qed.

Lemma state_succ c : forall ins s k i, nth_error ins k = Some i ->
  state_at c s ins (S k) = next_state c (state_at c s ins k) i.
Proof.
  induction ins as [|i0 rest IH]; intros s k i Hk.
  - destruct k; discriminate.
  - destruct k as [|k].
    + cbn in Hk. injection Hk as ->. cbn [state_at]. destruct rest; reflexivity.
    + cbn [nth_error] in Hk. change (state_at c s (i0 :: rest) (S (S k))) with (state_at c (next_state c s i0) rest (S k)).
      rewrite (IH _ _ _ Hk). reflexivity.
Qed.

Lemma obs_inv c : period c <> 0 -> forall ins s k o, nth_error (run_obs c s ins) k = Some o ->
  exists i, nth_error ins k = Some i /\ o = obs_of c (state_at c s ins k) i.
Proof.
  intros Hp ins s k o Ho.
  destruct (nth_error ins k) as [i|] eqn:Ei.
  - exists i. split; [reflexivity|]. rewrite (obs_at c Hp _ _ _ _ Ei) in Ho. congruence.
  - exfalso. apply nth_error_None in Ei. destruct (run_ok c Hp ins s) as [_ L].
    assert (nth_error (run_obs c s ins) k = None) by (apply nth_error_None; lia). congruence.
Qed.

(* ------------------------------------------------------------------ frame numbers *)
Definition fnseq (start : Z) (k : nat) : Z := match k with O => start | S _ => (start + Z.of_nat k) mod c_hyperframe end.

Lemma src_at c : hyper c = c_hyperframe -> forall ins s k, (k <= length ins)%nat -> src (state_at c s ins k) = fnseq (src s) k.
Proof.
  intros Hh. induction ins as [|i rest IH]; intros s k Hk.
  - cbn in Hk. assert (k = O) by lia. subst k. reflexivity.
  - destruct k as [|k]; [reflexivity|]. cbn [state_at]. cbn [length] in Hk. rewrite IH by lia.
    unfold next_state. cbn [src]. rewrite Hh. unfold fnseq. destruct k as [|k].
    + reflexivity.
    + rewrite !Nat2Z.inj_succ. rewrite Zplus_mod_idemp_l. f_equal. lia.
Qed.

Lemma fnseq_inrange start k : 0 <= start < 2715648 -> fnseq start k = (start + Z.of_nat k) mod 2715648.
Proof.
  intros Hs. unfold fnseq. destruct k as [|k].
  - rewrite Z.add_0_r, Z.mod_small; lia.
  - reflexivity.
Qed.

(* ------------------------------------------------------------------ the worker *)
Definition s0 (start t0 : Z) : wst := {| now := t0; tnext := t0; src := start |}.

Lemma worker_obs c start t0 ins e : period c <> 0 ->
  r_obs (worker c start t0 ins e) = run_obs c (s0 start t0) ins /\ r_crashed (worker c start t0 ins e) = false.
Proof.
  intros Hp. unfold worker. fold (s0 start t0). destruct (run_ok c Hp ins (s0 start t0)) as [A _].
  unfold run_crashed, run_obs in *. destruct (run c (s0 start t0) ins) as [[os sf] cr]. cbn [snd fst] in *. subst cr.
  destruct (stop_iter c sf e). split; reflexivity.
Qed.

Lemma worker_len c start t0 ins e : period c <> 0 -> length (r_obs (worker c start t0 ins e)) = length ins.
Proof. intros Hp. destruct (worker_obs c start t0 ins e Hp) as [-> _]. apply run_ok. exact Hp. Qed.

(* T1: one send_clck_ind per completed wait, handler called iff attached, frame numbers consecutive modulo the hyperframe *)
Lemma fn_sequence_gen tk per nl h start t0 ins e : per <> 0 ->
  let r := worker (mkcfg tk per nl h) start t0 ins e in
  r_crashed r = false /\ length (r_obs r) = length ins /\
  forall k o, nth_error (r_obs r) k = Some o ->
    o_called o = h /\ o_fn o = match k with O => start | S _ => (start + Z.of_nat k) mod 2715648 end.
Proof.
  intros Hp r. subst r. set (c := mkcfg tk per nl h).
  assert (Hp' : period c <> 0) by exact Hp.
  destruct (worker_obs c start t0 ins e Hp') as [E1 E2]. split; [exact E2|]. split; [apply worker_len; exact Hp'|].
  intros k o Ho. rewrite E1 in Ho. destruct (obs_inv c Hp' _ _ _ _ Ho) as [i [Ei ->]].
  cbn [obs_of o_called o_fn]. split; [reflexivity|].
  rewrite src_at; [|reflexivity|]. 2:{ apply Nat.lt_le_incl. apply nth_error_Some. congruence. }
  cbn [s0 src]. unfold fnseq. destruct k; [reflexivity|]. destruct const_hyper as [-> _]. reflexivity.
Qed.

Lemma fn_sequence tk per nl h start t0 ins e : per <> 0 -> 0 <= start < 2715648 ->
  let r := worker (mkcfg tk per nl h) start t0 ins e in
  r_crashed r = false /\ length (r_obs r) = length ins /\
  forall k o, nth_error (r_obs r) k = Some o -> o_called o = h /\ o_fn o = (start + Z.of_nat k) mod 2715648.
Proof.
  intros Hp Hs r. destruct (fn_sequence_gen tk per nl h start t0 ins e Hp) as [A [B C]]. fold r in A, B, C.
  split; [exact A|]. split; [exact B|]. intros k o Ho. destruct (C k o Ho) as [C1 C2]. split; [exact C1|].
  rewrite C2. destruct k; [|reflexivity]. cbn [Z.of_nat]. rewrite Z.add_0_r, Z.mod_small; lia.
Qed.

(* T2: indications *)
Lemma ind_exact tk per nl h start t0 ins e : per <> 0 ->
  forall k o, nth_error (r_obs (worker (mkcfg tk per nl h) start t0 ins e)) k = Some o ->
    (o_fn o mod per = 0 -> o_sends o = map (fun l => (l, payload (o_fn o))) (map Z.of_nat (seq 0 nl))) /\
    (o_fn o mod per <> 0 -> o_sends o = []).
Proof.
  intros Hp k o Ho. set (c := mkcfg tk per nl h) in *. assert (Hp' : period c <> 0) by exact Hp.
  destruct (worker_obs c start t0 ins e Hp') as [E1 _]. rewrite E1 in Ho.
  destruct (obs_inv c Hp' _ _ _ _ Ho) as [i [Ei ->]]. cbn [obs_of o_fn o_sends]. unfold ind_sends, link_ids. cbn [period nlinks c mkcfg].
  destruct (_ mod per =? 0) eqn:E; split; intros Hm; try lia; reflexivity.
Qed.

(* ind_period = 0: ZeroDivisionError in the first send_clck_ind, the thread dies without any tick *)
Lemma period0_crash tk nl h start t0 i ins e :
  let r := worker (mkcfg tk 0 nl h) start t0 (i :: ins) e in r_crashed r = true /\ r_obs r = [].
Proof. intros r. subst r. unfold worker. cbn [run]. rewrite step_crash by reflexivity. split; reflexivity. Qed.

(* ------------------------------------------------------------------ timing *)
(* T3a: the handler is entered when the wait returns: deadline + oversleep; first deadline is one tick after the start *)
Lemma timing_basic tk per nl h start t0 ins e : per <> 0 -> 0 <= tk ->
  let c := mkcfg tk per nl h in
  forall k o i, nth_error (r_obs (worker c start t0 ins e)) k = Some o -> nth_error ins k = Some i ->
    o_time o = o_deadline o + i_j i /\ (k = O -> o_over o = false /\ o_deadline o = t0 + tk).
Proof.
  intros Hp Htk c k o i Ho Hi. assert (Hp' : period c <> 0) by exact Hp.
  destruct (worker_obs c start t0 ins e Hp') as [E1 _]. rewrite E1 in Ho.
  rewrite (obs_at c Hp' _ _ _ _ Hi) in Ho. injection Ho as <-. cbn [obs_of o_time o_deadline o_over]. split; [reflexivity|].
  intros ->. cbn [state_at]. assert (state_at c (s0 start t0) ins 0 = s0 start t0) as -> by (destruct ins; reflexivity).
  unfold deadline_of, over_of. cbn [s0 now tnext c mkcfg tick]. destruct (t0 + tk <? t0) eqn:E; [lia|]. split; reflexivity.
Qed.

(* T3b: consecutive iterations: the next one is an overrun iff oversleep + handler time of this one exceeds the tick;
   then t_next is reset to the clock value read after the warning, otherwise it advances by exactly one tick *)
Lemma timing_step tk per nl h start t0 ins e : per <> 0 ->
  let c := mkcfg tk per nl h in
  forall k o o' i i', nth_error (r_obs (worker c start t0 ins e)) k = Some o -> nth_error (r_obs (worker c start t0 ins e)) (S k) = Some o' ->
    nth_error ins k = Some i -> nth_error ins (S k) = Some i' ->
    (i_j i + dur c i <= tk -> o_over o' = false /\ o_deadline o' = o_deadline o + tk) /\
    (tk < i_j i + dur c i -> o_over o' = true /\ o_deadline o' = o_time o + dur c i + i_e i').
Proof.
  intros Hp c k o o' i i' Ho Ho' Hi Hi'. assert (Hp' : period c <> 0) by exact Hp.
  destruct (worker_obs c start t0 ins e Hp') as [E1 _]. rewrite E1 in Ho, Ho'.
  rewrite (obs_at c Hp' _ _ _ _ Hi) in Ho. injection Ho as <-.
  rewrite (obs_at c Hp' _ _ _ _ Hi') in Ho'. injection Ho' as <-.
  rewrite (state_succ c _ _ _ _ Hi). set (s := state_at c (s0 start t0) ins k).
  cbn [obs_of o_over o_deadline o_time]. unfold deadline_of at 1 3. unfold over_of at 1 2 3 4. unfold next_state. cbn [now tnext].
  change (tick c) with tk.
  destruct (deadline_of c s (i_e i) + tk <? deadline_of c s (i_e i) + i_j i + dur c i) eqn:E; split; intros Hc; try lia; split; try reflexivity; lia.
Qed.

Lemma both_exist c start t0 ins e k : period c <> 0 -> (k < length ins)%nat ->
  exists o i, nth_error (r_obs (worker c start t0 ins e)) k = Some o /\ nth_error ins k = Some i.
Proof.
  intros Hp Hk. destruct (nth_error ins k) as [i|] eqn:Ei; [|apply nth_error_None in Ei; lia].
  destruct (worker_obs c start t0 ins e Hp) as [E1 _]. rewrite E1, (obs_at c Hp _ _ _ _ Ei). eauto.
Qed.

Lemma obs_lt c start t0 ins e k o : period c <> 0 -> nth_error (r_obs (worker c start t0 ins e)) k = Some o -> (k < length ins)%nat.
Proof. intros Hp Ho. rewrite <- (worker_len c start t0 ins e Hp). apply nth_error_Some. congruence. Qed.

(* T3c: a stretch of iterations a .. a+m-1 that all fit into the tick: the deadlines advance by exactly one tick each,
   whatever happened before a *)
Lemma anchor tk per nl h start t0 ins e : per <> 0 ->
  let c := mkcfg tk per nl h in
  forall a m oa om, nth_error (r_obs (worker c start t0 ins e)) a = Some oa -> nth_error (r_obs (worker c start t0 ins e)) (a + m) = Some om ->
    (forall q i, (a <= q < a + m)%nat -> nth_error ins q = Some i -> i_j i + dur c i <= tk) ->
    o_deadline om = o_deadline oa + Z.of_nat m * tk /\ ((0 < m)%nat -> o_over om = false).
Proof.
  intros Hp c a. assert (Hp' : period c <> 0) by exact Hp. induction m as [|m IH]; intros oa om Ha Hm Hfit.
  - rewrite Nat.add_0_r in Hm. assert (om = oa) by congruence. subst om. split; [cbn; lia|lia].
  - pose proof (obs_lt c _ _ _ _ _ _ Hp' Hm) as Hlt.
    destruct (both_exist c start t0 ins e (a + m) Hp' ltac:(lia)) as [omid [imid [Homid Himid]]].
    destruct (both_exist c start t0 ins e (a + S m) Hp' Hlt) as [om' [im [Hom' Him]]].
    assert (om' = om) by congruence. subst om'.
    destruct (IH oa omid Ha Homid) as [D _]. { intros q i Hq. apply Hfit. lia. }
    replace (a + S m)%nat with (S (a + m)) in Hm, Him by lia.
    destruct (timing_step tk per nl h start t0 ins e Hp (a + m)%nat omid om imid im Homid Hm Himid Him) as [F _].
    destruct F as [F1 F2]. { apply (Hfit (a + m)%nat); [lia|exact Himid]. }
    split; [|intros _; exact F1]. rewrite F2, D, Nat2Z.inj_succ. lia.
Qed.

(* T3: no accumulated drift *)
Lemma no_drift tk per nl h start t0 ins e : per <> 0 -> 0 <= tk ->
  let c := mkcfg tk per nl h in
  forall k o i, nth_error (r_obs (worker c start t0 ins e)) k = Some o -> nth_error ins k = Some i ->
    (forall q iq, (q < k)%nat -> nth_error ins q = Some iq -> i_j iq + dur c iq <= tk) ->
    o_over o = false /\ o_deadline o = t0 + (Z.of_nat k + 1) * tk /\ o_time o = t0 + (Z.of_nat k + 1) * tk + i_j i.
Proof.
  intros Hp Htk c k o i Ho Hi Hfit. assert (Hp' : period c <> 0) by exact Hp.
  destruct (both_exist c start t0 ins e 0 Hp') as [o0 [i0 [Ho0 Hi0]]]. { assert (k < length ins)%nat by (apply nth_error_Some; congruence). lia. }
  destruct (timing_basic tk per nl h start t0 ins e Hp Htk 0%nat o0 i0 Ho0 Hi0) as [_ B]. destruct (B eq_refl) as [B1 B2].
  destruct (timing_basic tk per nl h start t0 ins e Hp Htk k o i Ho Hi) as [T _].
  destruct (anchor tk per nl h start t0 ins e Hp 0%nat k o0 o Ho0 Ho) as [D V]. { intros q iq Hq. apply Hfit. lia. }
  assert (Dk : o_deadline o = t0 + (Z.of_nat k + 1) * tk) by (rewrite D, B2; lia).
  split; [|split; [exact Dk|rewrite T, Dk; reflexivity]].
  destruct k as [|k]; [congruence|]. apply V. lia.
Qed.

(* T4: resynchronisation after an overrun *)
Lemma resync tk per nl h start t0 ins e : per <> 0 -> 0 <= tk ->
  let c := mkcfg tk per nl h in
  forall k o i o1 i1, nth_error (r_obs (worker c start t0 ins e)) k = Some o -> nth_error ins k = Some i ->
    nth_error (r_obs (worker c start t0 ins e)) (S k) = Some o1 -> nth_error ins (S k) = Some i1 ->
    tk < i_j i + dur c i ->
    o_over o1 = true /\ o_deadline o1 = o_time o + dur c i + i_e i1 /\ o_time o1 = o_deadline o1 + i_j i1 /\
    forall m om im, nth_error (r_obs (worker c start t0 ins e)) (S k + m) = Some om -> nth_error ins (S k + m) = Some im ->
      (forall q iq, (S k <= q < S k + m)%nat -> nth_error ins q = Some iq -> i_j iq + dur c iq <= tk) ->
      o_deadline om = o_deadline o1 + Z.of_nat m * tk /\ o_time om = o_deadline o1 + Z.of_nat m * tk + i_j im /\ ((0 < m)%nat -> o_over om = false).
Proof.
  intros Hp Htk c k o i o1 i1 Ho Hi Ho1 Hi1 Hov.
  destruct (timing_step tk per nl h start t0 ins e Hp k o o1 i i1 Ho Ho1 Hi Hi1) as [_ F]. destruct (F Hov) as [F1 F2].
  destruct (timing_basic tk per nl h start t0 ins e Hp Htk (S k) o1 i1 Ho1 Hi1) as [T1 _].
  split; [exact F1|]. split; [exact F2|]. split; [exact T1|].
  intros m om im Hom Him Hfit.
  destruct (anchor tk per nl h start t0 ins e Hp (S k) m o1 om Ho1 Hom Hfit) as [D V].
  destruct (timing_basic tk per nl h start t0 ins e Hp Htk (S k + m)%nat om im Hom Him) as [Tm _].
  split; [exact D|]. split; [rewrite Tm, D; reflexivity|exact V].
Qed.

(* T5: deadlines are at least one tick apart, always (overrun or not) *)
Lemma spacing1 tk per nl h start t0 ins e : per <> 0 -> 0 <= tk -> Forall (fun i => 0 <= i_e i) ins ->
  let c := mkcfg tk per nl h in
  forall k o o', nth_error (r_obs (worker c start t0 ins e)) k = Some o -> nth_error (r_obs (worker c start t0 ins e)) (S k) = Some o' ->
    o_deadline o + tk <= o_deadline o'.
Proof.
  intros Hp Htk He c k o o' Ho Ho'. assert (Hp' : period c <> 0) by exact Hp.
  pose proof (obs_lt c _ _ _ _ _ _ Hp' Ho') as Hlt.
  destruct (both_exist c start t0 ins e k Hp' ltac:(lia)) as [o2 [i [Ho2 Hi]]]. assert (o2 = o) by congruence. subst o2.
  destruct (both_exist c start t0 ins e (S k) Hp' Hlt) as [o3 [i' [Ho3 Hi']]]. assert (o3 = o') by congruence. subst o3.
  destruct (timing_step tk per nl h start t0 ins e Hp k o o' i i' Ho Ho' Hi Hi') as [F G].
  destruct (timing_basic tk per nl h start t0 ins e Hp Htk k o i Ho Hi) as [T _].
  assert (E' : 0 <= i_e i'). { rewrite Forall_forall in He. apply He. eapply nth_error_In. exact Hi'. }
  destruct (Z_le_gt_dec (i_j i + dur c i) tk) as [Hc|Hc].
  - destruct (F Hc) as [_ ->]. lia.
  - apply Z.gt_lt in Hc. destruct (G Hc) as [_ ->]. unfold c in Hc. lia.
Qed.

Lemma spacing tk per nl h start t0 ins e : per <> 0 -> 0 <= tk -> Forall (fun i => 0 <= i_e i) ins ->
  let c := mkcfg tk per nl h in
  forall k m o o' i i', nth_error (r_obs (worker c start t0 ins e)) k = Some o -> nth_error (r_obs (worker c start t0 ins e)) (k + m) = Some o' ->
    nth_error ins k = Some i -> nth_error ins (k + m) = Some i' ->
    o_deadline o + Z.of_nat m * tk <= o_deadline o' /\ o_time o - i_j i + Z.of_nat m * tk <= o_time o' - i_j i'.
Proof.
  intros Hp Htk He c k m. assert (Hp' : period c <> 0) by exact Hp.
  assert (D : forall o o', nth_error (r_obs (worker c start t0 ins e)) k = Some o -> nth_error (r_obs (worker c start t0 ins e)) (k + m) = Some o' ->
              o_deadline o + Z.of_nat m * tk <= o_deadline o').
  { induction m as [|m IH]; intros o o' Ho Ho'.
    - rewrite Nat.add_0_r in Ho'. assert (o' = o) by congruence. subst o'. cbn. lia.
    - pose proof (obs_lt c _ _ _ _ _ _ Hp' Ho') as Hlt.
      destruct (both_exist c start t0 ins e (k + m) Hp' ltac:(lia)) as [om [im [Hom _]]].
      pose proof (IH o om Ho Hom) as I1. replace (k + S m)%nat with (S (k + m)) in Ho' by lia.
      pose proof (spacing1 tk per nl h start t0 ins e Hp Htk He (k + m)%nat om o' Hom Ho') as I2. rewrite Nat2Z.inj_succ. lia. }
  intros o o' i i' Ho Ho' Hi Hi'. pose proof (D o o' Ho Ho') as Dd. split; [exact Dd|].
  destruct (timing_basic tk per nl h start t0 ins e Hp Htk k o i Ho Hi) as [-> _].
  destruct (timing_basic tk per nl h start t0 ins e Hp Htk (k + m)%nat o' i' Ho' Hi') as [-> _]. lia.
Qed.

(* ---- no burst: with an ideal wait the number of ticks in any window of length w is at most w / tick + 1 *)
Fixpoint spaced (tk : Z) (l : list Z) : Prop :=
  match l with
  | x :: l' => match l' with y :: _ => x + tk <= y | [] => True end /\ spaced tk l'
  | [] => True
  end.

Definition count_in (a w : Z) (l : list Z) : Z := Z.of_nat (length (filter (fun t => (a <=? t) && (t <? a + w)) l)).

Lemma count_cons a w x l : count_in a w (x :: l) = (if (a <=? x) && (x <? a + w) then 1 else 0) + count_in a w l.
Proof. unfold count_in. cbn [filter]. destruct ((a <=? x) && (x <? a + w)); [cbn [length]; lia|lia]. Qed.

Lemma count_nonneg a w l : 0 <= count_in a w l.
Proof. unfold count_in. lia. Qed.

Lemma count_above tk a w : 0 < tk -> forall l x, spaced tk (x :: l) -> a + w <= x -> count_in a w (x :: l) = 0.
Proof.
  intros Htk. induction l as [|y l IH]; intros x Hs Hx.
  - rewrite count_cons. change (count_in a w []) with 0. destruct ((a <=? x) && (x <? a + w)) eqn:E; lia.
  - rewrite count_cons. destruct Hs as [H1 H2]. rewrite (IH y H2) by lia. destruct ((a <=? x) && (x <? a + w)) eqn:E; lia.
Qed.

Lemma count_from tk a w : 0 < tk -> forall l x, spaced tk (x :: l) -> a <= x -> x < a + w ->
  count_in a w (x :: l) * tk <= a + w - 1 - x + tk.
Proof.
  intros Htk. induction l as [|y l IH]; intros x Hs Hx Hx'.
  - rewrite count_cons. change (count_in a w []) with 0. destruct ((a <=? x) && (x <? a + w)) eqn:E; lia.
  - rewrite count_cons. destruct Hs as [H1 H2]. destruct ((a <=? x) && (x <? a + w)) eqn:E; [|lia].
    destruct (Z_lt_ge_dec y (a + w)) as [Hy|Hy].
    + pose proof (IH y H2 ltac:(lia) Hy) as I. rewrite Z.mul_add_distr_r. lia.
    + rewrite (count_above tk a w Htk l y H2) by lia. lia.
Qed.

Lemma count_spaced tk a w l : 0 < tk -> 0 <= w -> spaced tk l -> count_in a w l <= w / tk + 1.
Proof.
  intros Htk Hw Hs.
  assert (B : count_in a w l * tk <= w - 1 + tk).
  { induction l as [|x l IH].
    - unfold count_in. cbn. lia.
    - destruct (Z_lt_ge_dec x a) as [Hx|Hx].
      + rewrite count_cons. destruct Hs as [_ H2]. specialize (IH H2). destruct ((a <=? x) && (x <? a + w)) eqn:E; lia.
      + destruct (Z_lt_ge_dec x (a + w)) as [Hx'|Hx'].
        * pose proof (count_from tk a w Htk l x Hs ltac:(lia) Hx'). lia.
        * rewrite (count_above tk a w Htk l x Hs) by lia. lia. }
  assert (C : count_in a w l <= (w - 1 + tk) / tk) by (apply Z.div_le_lower_bound; lia).
  assert (E : (w - 1 + tk) / tk <= (w + 1 * tk) / tk) by (apply Z.div_le_mono; lia).
  rewrite Z.div_add in E by lia. lia.
Qed.

Lemma run_spaced c : period c <> 0 -> 0 <= tick c -> forall ins s, Forall (fun i => 0 <= i_e i /\ i_j i = 0) ins ->
  spaced (tick c) (map o_time (run_obs c s ins)) /\
  match map o_time (run_obs c s ins) with t :: _ => tnext s + tick c <= t | [] => True end.
Proof.
  intros Hp Htk. induction ins as [|i rest IH]; intros s Hf.
  - cbn. auto.
  - unfold run_obs. rewrite run_cons by exact Hp. cbn [fst map]. inversion Hf as [|? ? [He Hj] Hrest]. subst.
    destruct (IH (next_state c s i) Hrest) as [I1 I2]. cbn [obs_of o_time]. rewrite Hj.
    assert (L : tnext s + tick c <= deadline_of c s (i_e i)).
    { unfold deadline_of, over_of. destruct (tnext s + tick c <? now s) eqn:E; lia. }
    split; [|lia]. cbn [spaced]. split; [|exact I1].
    destruct (map o_time (run_obs c (next_state c s i) rest)) as [|t ?]; [exact I|]. cbn [next_state tnext] in I2. lia.
Qed.

Lemma no_burst tk per nl h start t0 ins e : per <> 0 -> 0 < tk -> Forall (fun i => 0 <= i_e i /\ i_j i = 0) ins ->
  forall a w, 0 <= w ->
  count_in a w (map o_time (r_obs (worker (mkcfg tk per nl h) start t0 ins e))) <= w / tk + 1.
Proof.
  intros Hp Htk Hf a w Hw. set (c := mkcfg tk per nl h). assert (Hp' : period c <> 0) by exact Hp.
  destruct (worker_obs c start t0 ins e Hp') as [-> _].
  apply count_spaced; [exact Htk|exact Hw|]. apply (run_spaced c Hp' ltac:(cbn; lia) ins (s0 start t0) Hf).
Qed.

(* ------------------------------------------------------------------ stop() / start() *)
Lemma session_inv c start : forall runs t n r, nth_error (session c start t runs) n = Some r ->
  exists gap e ins t0, nth_error runs n = Some (gap, e, ins) /\ r = worker c start t0 ins e /\
    match n with O => t0 = t + gap | S n' => exists rp, nth_error (session c start t runs) n' = Some rp /\ t0 = now (r_final rp) + gap end.
Proof.
  induction runs as [|[[gap e] ins] rest IH]; intros t n r Hn.
  - destruct n; discriminate.
  - cbn [session] in Hn. destruct n as [|n].
    + cbn in Hn. injection Hn as <-. exists gap, e, ins, (t + gap). repeat split.
    + cbn [nth_error] in Hn. destruct (IH _ _ _ Hn) as [g' [e' [ins' [t0 [A [B C]]]]]].
      exists g', e', ins', t0. split; [exact A|]. split; [exact B|].
      destruct n as [|n'].
      * eexists. split; [cbn [session nth_error]; reflexivity|]. exact C.
      * destruct C as [rp [C1 C2]]. exists rp. split; [|exact C2]. cbn [session]. cbn [nth_error]. exact C1.
Qed.

Lemma session_len c start : forall runs t, length (session c start t runs) = length runs.
Proof. induction runs as [|[[gap e] ins] rest IH]; intros t; [reflexivity|]. cbn [session length]. f_equal. apply IH. Qed.

(* T6: every start() after a stop() begins again at the start frame and is timed from its own start instant *)
Lemma restart tk per nl h start t runs : per <> 0 -> 0 <= tk -> 0 <= start < 2715648 ->
  let c := mkcfg tk per nl h in
  length (session c start t runs) = length runs /\
  forall n r, nth_error (session c start t runs) n = Some r ->
    exists gap e ins t0, nth_error runs n = Some (gap, e, ins) /\ r = worker c start t0 ins e /\
      match n with O => t0 = t + gap | S n' => exists rp, nth_error (session c start t runs) n' = Some rp /\ t0 = now (r_final rp) + gap end /\
      r_crashed r = false /\ length (r_obs r) = length ins /\
      (forall k o, nth_error (r_obs r) k = Some o -> o_fn o = (start + Z.of_nat k) mod 2715648) /\
      (forall o, nth_error (r_obs r) 0 = Some o -> o_fn o = start /\ o_over o = false /\ o_deadline o = t0 + tk).
Proof.
  intros Hp Htk Hs c. split; [apply session_len|]. intros n r Hn.
  destruct (session_inv c start runs t n r Hn) as [gap [e [ins [t0 [A [B C]]]]]].
  exists gap, e, ins, t0. split; [exact A|]. split; [exact B|]. split; [exact C|]. subst r.
  destruct (fn_sequence tk per nl h start t0 ins e Hp Hs) as [F1 [F2 F3]].
  split; [exact F1|]. split; [exact F2|]. split.
  - intros k o Ho. apply (F3 k o Ho).
  - intros o Ho. destruct (F3 0%nat o Ho) as [_ F]. rewrite Z.add_0_r, Z.mod_small in F by lia. split; [exact F|].
    assert (Hp' : period c <> 0) by exact Hp.
    pose proof (obs_lt c _ _ _ _ _ _ Hp' Ho) as Hlt.
    destruct (both_exist c start t0 ins e 0 Hp' Hlt) as [o' [i [Ho' Hi]]]. assert (o' = o) by (unfold c in *; congruence). subst o'.
    destruct (timing_basic tk per nl h start t0 ins e Hp Htk 0%nat o i Ho Hi) as [_ Bq]. apply Bq. reflexivity.
Qed.

(* ------------------------------------------------------------------ non-vacuity: a concrete run with an overrun at the hyperframe wrap
   (the same script was executed on the real CLCKGen under the virtual clock: identical numbers) *)
Definition ex_ins : list itin :=
  [{| i_e := 3; i_j := 1; i_d := 100 |}; {| i_e := 3; i_j := 0; i_d := 5000000 |}; {| i_e := 11; i_j := 2; i_d := 0 |}; {| i_e := 0; i_j := 0; i_d := 0 |}].

Example ex_run :
  map (fun o => (o_over o, o_deadline o, o_fn o, o_time o, length (o_sends o))) (r_obs (worker (mkcfg 4614999 1 2 true) 2715646 5 ex_ins 7))
  = [(false, 4615004, 2715646, 4615005, 2%nat); (false, 9230003, 2715647, 9230003, 2%nat); (true, 14230014, 0, 14230016, 2%nat); (false, 18845013, 1, 18845013, 2%nat)].
Proof. vm_compute. reflexivity. Qed.

Example ex_payload : payload 2715647 = [73; 78; 68; 32; 67; 76; 79; 67; 75; 32; 50; 55; 49; 53; 54; 52; 55; 0] /\ payload 0 = [73; 78; 68; 32; 67; 76; 79; 67; 75; 32; 48; 0].
Proof. vm_compute. split; reflexivity. Qed.

(* the hypotheses of no_drift / resync are satisfiable on the same run: iteration 0 fits (1 + 100 <= tick), iteration 1 overruns (5000000 > tick) *)
Example ex_hyp : (i_j (nth 0 ex_ins {| i_e := 0; i_j := 0; i_d := 0 |}) + i_d (nth 0 ex_ins {| i_e := 0; i_j := 0; i_d := 0 |}) <= 4614999) /\
                 4614999 < i_j (nth 1 ex_ins {| i_e := 0; i_j := 0; i_d := 0 |}) + i_d (nth 1 ex_ins {| i_e := 0; i_j := 0; i_d := 0 |}).
Proof. vm_compute. split; [discriminate|reflexivity]. Qed.

Example ex_period : map (fun o => (o_fn o, length (o_sends o))) (r_obs (worker (mkcfg 4614999 51 3 false) 2715647 0 (repeat {| i_e := 0; i_j := 0; i_d := 0 |} 4) 0))
  = [(2715647, 0%nat); (0, 3%nat); (1, 0%nat); (2, 0%nat)].
Proof. vm_compute. reflexivity. Qed.
