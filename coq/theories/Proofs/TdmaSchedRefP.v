(* C08: every operation preserves well-formedness, never crashes on a valid history, only ever appends to buckets
   (nothing is overwritten), and the ring refines the multiset specification of TdmaSchedSpec.v. *)
From Coq Require Import ZArith List Bool Lia Permutation Sorted ZifyBool.
From OBB Require Import Gen.FwSchedConst Model.TdmaSched Proofs.TdmaSchedSpec Proofs.TdmaSchedSortP Proofs.TdmaSchedP.
Import ListNotations.
Open Scope Z_scope.
Ltac Zify.zify_post_hook ::= Z.to_euclidean_division_equations.

(* ---- frame-relative view ---- *)
Lemma bucket_due_0 st : wf st -> bucket_due st 0 = bucket_abs st (s_cur st).
Proof. intros (_ & Hc & _). unfold bucket_due. f_equal. lia. Qed.

Lemma ring_inj c d e : 0 <= c < 25 -> 0 <= d < 25 -> 0 <= e < 25 -> (c + d) mod 25 = (c + e) mod 25 -> d = e.
Proof. lia. Qed.

(* ---- append-only extension of a state: same position, every bucket keeps what it had, in place ---- *)
Definition ext (st st' : sched) : Prop :=
  s_cur st' = s_cur st /\ forall j, 0 <= j < 25 -> exists extra, bucket_abs st' j = bucket_abs st j ++ extra.

Lemma ext_refl st : ext st st.
Proof. split; [reflexivity|]. intros j _. exists []. rewrite app_nil_r. reflexivity. Qed.

Lemma ext_trans a b c : ext a b -> ext b c -> ext a c.
Proof.
  intros (C1 & E1) (C2 & E2). split; [congruence|]. intros j Hj.
  destruct (E1 j Hj) as (x1 & H1). destruct (E2 j Hj) as (x2 & H2). exists (x1 ++ x2). rewrite H2, H1, app_assoc. reflexivity.
Qed.

Lemma schedule_ext st off it : wf st -> 0 <= off < 256 ->
  exists st' rc, tdma_schedule st off it = Ok (st', rc) /\ wf st' /\ ext st st' /\ (cbs_ok st -> i_cb it <> 0 -> cbs_ok st').
Proof.
  intros Hwf Ho. pose proof Hwf as (Hl & Hc & Hall). rewrite schedule_spec by assumption.
  set (B := (s_cur st + off) mod 25). assert (HB : 0 <= B < 25) by (unfold B; lia).
  destruct (8 <=? Z.of_nat (length (bucket_abs st B))) eqn:E.
  - exists st, (-1). split; [reflexivity|]. split; [exact Hwf|]. split; [apply ext_refl|auto].
  - eexists _, _. split; [reflexivity|]. split; [|split; [split; [reflexivity|]|]].
    + apply wf_set_bucket; [exact Hwf|]. rewrite app_length. cbn [length]. lia.
    + intros j Hj. destruct (Z.eq_dec j B) as [->|Hne].
      * exists [it]. apply abs_set_bucket_eq; assumption.
      * exists []. rewrite app_nil_r. apply abs_set_bucket_neq; lia.
    + intros Hcb Hi. apply cbs_set_bucket; [exact Hcb|]. apply Forall_app. split; [apply abs_cbs; exact Hcb|constructor; [exact Hi|constructor]].
Qed.

Lemma place_ext off ret : forall plan st, wf st ->
  Forall (fun e => 0 <= off + fst e < 256 /\ i_cb (snd e) <> 0) plan ->
  exists st' rc, place st off plan ret = Ok (st', rc) /\ wf st' /\ ext st st' /\ (cbs_ok st -> cbs_ok st').
Proof.
  induction plan as [|[k it] r IH]; intros st Hwf HF; cbn [place].
  - exists st, ret. split; [reflexivity|]. split; [exact Hwf|]. split; [apply ext_refl|auto].
  - inversion HF as [|? ? (Hk & Hi) Hr]; subst. cbn [fst snd] in *.
    destruct (schedule_ext st (off + k) it Hwf Hk) as (st1 & rc & Hs & Hwf1 & Hext1 & Hcb1). rewrite Hs.
    destruct (rc =? 0).
    + destruct (IH st1 Hwf1 Hr) as (st2 & rc2 & Hp & Hwf2 & Hext2 & Hcb2).
      exists st2, rc2. split; [exact Hp|]. split; [exact Hwf2|]. split; [eapply ext_trans; eassumption|auto].
    + exists st1, (-1). split; [reflexivity|]. split; [exact Hwf1|]. split; [exact Hext1|auto].
Qed.

Lemma plan_ok_of_set off set p3 plan : 0 <= off -> off + set_nframes set < 25 -> set_plan 0 set p3 = Some plan ->
  Forall (fun e => 0 <= off + fst e < 25 /\ i_cb (snd e) <> 0) plan.
Proof.
  intros H0 Hb Hp. destruct (set_plan_frames p3 set 0 plan Hp) as (HF & Hn).
  eapply Forall_impl; [|exact HF]. cbv beta. intros e He. lia.
Qed.

(* ---- one operation of a valid history: no crash, invariants kept ---- *)
Lemma step_ok rcf st o : wf st -> cbs_ok st -> op_ok o ->
  exists st' b, step rcf st o = Ok (st', b) /\ wf st' /\ cbs_ok st'.
Proof.
  intros Hwf Hcb Hok. destruct o as [off it|off set p3| | |]; cbn [step op_ok] in *.
  - destruct Hok as (Ho & Hi). destruct (schedule_ext st off it Hwf ltac:(lia)) as (st' & rc & Hs & Hwf' & _ & Hcb').
    rewrite Hs. eexists _, _. split; [reflexivity|]. split; [exact Hwf'|auto].
  - destruct Hok as (H0 & Hb & plan & Hp).
    rewrite (schedule_set_place st off set p3 plan) by (try assumption; try apply Hwf; lia).
    pose proof (plan_ok_of_set off set p3 plan H0 Hb Hp) as HF.
    destruct (place_ext off (set_nframes set) plan st Hwf) as (st' & rc & Hs & Hwf' & _ & Hcb').
    { eapply Forall_impl; [|exact HF]. cbv beta. intros e He. lia. }
    rewrite Hs. eexists _, _. split; [reflexivity|]. split; [exact Hwf'|auto].
  - eexists _, _. split; [reflexivity|]. split; [apply wf_advance; exact Hwf|exact Hcb].
  - destruct (execute_total rcf st Hwf Hcb) as (st' & lg & r & He & Hst). rewrite He.
    eexists _, _. split; [reflexivity|]. destruct Hst as [->| ->]; [split; assumption|].
    split; [apply wf_set_bucket; [exact Hwf|cbn; lia]|apply cbs_set_bucket; [exact Hcb|constructor]].
  - eexists _, _. split; [reflexivity|]. split; [apply wf_reset; exact Hwf|apply cbs_reset; exact Hcb].
Qed.

Lemma run_ok rcf : forall ops st, wf st -> cbs_ok st -> Forall op_ok ops ->
  exists os st', run rcf st ops = (os, FOk st') /\ wf st' /\ cbs_ok st' /\ length os = length ops.
Proof.
  induction ops as [|o r IH]; intros st Hwf Hcb HF; cbn [run].
  - exists [], st. split; [reflexivity|]. split; [exact Hwf|]. split; [exact Hcb|reflexivity].
  - inversion HF as [|? ? Ho Hr]; subst.
    destruct (step_ok rcf st o Hwf Hcb Ho) as (st1 & b & Hs & Hwf1 & Hcb1). rewrite Hs.
    destruct (IH st1 Hwf1 Hcb1 Hr) as (os & st2 & Hrun & Hwf2 & Hcb2 & Hlen). rewrite Hrun.
    exists (b :: os), st2. split; [reflexivity|]. split; [exact Hwf2|]. split; [exact Hcb2|cbn [length]; lia].
Qed.

(* ---- the multiset view ---- *)
Lemma due_cons d N it m : due d ((N, it) :: m) = if N =? d then it :: due d m else due d m.
Proof. unfold due. cbn [filter fst]. destruct (N =? d); reflexivity. Qed.

Lemma due_advance m : (forall e, In e m -> 0 <= fst e < 25) -> forall d, 0 <= d < 25 -> due d (a_advance m) = due ((d + 1) mod 25) m.
Proof.
  induction m as [|[x it] r IH]; intros Hr d Hd; [reflexivity|].
  unfold a_advance. cbn [map fst snd]. fold (a_advance r). rewrite !due_cons.
  rewrite IH by (try assumption; intros e He; apply Hr; right; exact He).
  pose proof (Hr (x, it) (or_introl eq_refl)) as Hx. cbn [fst] in Hx.
  destruct ((x - 1) mod 25 =? d) eqn:E1; destruct (x =? (d + 1) mod 25) eqn:E2; try reflexivity; exfalso; lia.
Qed.

Lemma due_exec m d : due d (filter (fun e => negb (fst e =? 0)) m) = if d =? 0 then [] else due d m.
Proof.
  induction m as [|[x it] r IH]; cbn [filter fst].
  - destruct (d =? 0); reflexivity.
  - destruct (x =? 0) eqn:Ex; cbn [negb].
    + rewrite IH, due_cons. destruct (d =? 0) eqn:Ed; [reflexivity|]. replace (x =? d) with false by lia. reflexivity.
    + rewrite !due_cons, IH. destruct (d =? 0) eqn:Ed; [|reflexivity]. replace (x =? d) with false by lia. reflexivity.
Qed.

Lemma due_reset m d : due d (a_reset m) = if d =? 0 then due 0 m else [].
Proof.
  unfold a_reset. induction m as [|[x it] r IH]; cbn [filter fst].
  - destruct (d =? 0); reflexivity.
  - destruct (x =? 0) eqn:Ex.
    + rewrite !due_cons, IH. destruct (d =? 0) eqn:Ed.
      * replace (x =? d) with true by lia. rewrite Ex. reflexivity.
      * replace (x =? d) with false by lia. reflexivity.
    + rewrite IH, due_cons. rewrite Ex. reflexivity.
Qed.

Lemma a_reset_length m : length (a_reset m) = length (due 0 m).
Proof. unfold due, a_reset. rewrite map_length. reflexivity. Qed.

Lemma in_filter_range (f : aitem -> bool) m : (forall e, In e m -> 0 <= fst e < 25) -> forall e, In e (filter f m) -> 0 <= fst e < 25.
Proof. intros H e He. apply filter_In in He. apply H, He. Qed.

(* ---- simulation, operation by operation ---- *)
Lemma sched_sim st m N it st' rc : wf st -> refines st m -> 0 <= N < 25 ->
  tdma_schedule st N it = Ok (st', rc) ->
  refines st' (fst (a_schedule m N it)) /\ rc = snd (a_schedule m N it).
Proof.
  intros Hwf (Hrange & HR) HN Hs. pose proof Hwf as (Hl & Hc & Hall).
  rewrite schedule_spec in Hs by (try assumption; lia). unfold a_schedule.
  pose proof (HR N HN) as HP. unfold bucket_due in HP. rewrite <- (Permutation_length HP).
  set (B := (s_cur st + N) mod 25) in *. assert (HB : 0 <= B < 25) by (unfold B; lia).
  destruct (8 <=? Z.of_nat (length (bucket_abs st B))) eqn:E; injection Hs as <- <-; cbn [fst snd].
  - split; [split; assumption|reflexivity].
  - split; [|reflexivity]. split.
    + intros e [<-|He]; [cbn [fst]; lia|apply Hrange, He].
    + intros d Hd. rewrite due_cons. unfold bucket_due. rewrite cur_set_bucket.
      destruct (N =? d) eqn:End.
      * assert (d = N) by lia. subst d. fold B. rewrite abs_set_bucket_eq by assumption.
        rewrite Permutation_app_comm. cbn [app]. constructor. exact HP.
      * rewrite abs_set_bucket_neq; [apply HR; exact Hd|lia|lia|].
        intros Heq. unfold B in Heq. apply ring_inj in Heq; lia.
Qed.

Lemma place_sim N ret : forall plan st m st' rc, wf st -> refines st m ->
  Forall (fun e => 0 <= N + fst e < 25 /\ i_cb (snd e) <> 0) plan ->
  place st N plan ret = Ok (st', rc) ->
  refines st' (fst (a_place m N plan ret)) /\ rc = snd (a_place m N plan ret).
Proof.
  induction plan as [|[k it] r IH]; intros st m st' rc Hwf HR HF Hp; cbn [place a_place] in *.
  - injection Hp as <- <-. split; [exact HR|reflexivity].
  - inversion HF as [|? ? (Hk & Hi) Hr]; subst. cbn [fst snd] in *.
    destruct (schedule_ext st (N + k) it Hwf ltac:(lia)) as (st1 & rc1 & Hs & Hwf1 & _ & _). rewrite Hs in Hp.
    destruct (sched_sim st m (N + k) it st1 rc1 Hwf HR Hk Hs) as (HR1 & Hrc).
    destruct (a_schedule m (N + k) it) as [m1 rc1']. cbn [fst snd] in *. subst rc1'.
    destruct (rc1 =? 0).
    + apply (IH st1 m1 st' rc Hwf1 HR1 Hr Hp).
    + injection Hp as <- <-. split; [exact HR1|reflexivity].
Qed.

Lemma advance_sim st m : wf st -> refines st m -> refines (tdma_sched_advance st) (a_advance m).
Proof.
  intros Hwf (Hrange & HR). destruct (advance_spec st Hwf) as (Hc' & Hb'). pose proof Hwf as (Hl & Hc & Hall). split.
  - intros e He. unfold a_advance in He. apply in_map_iff in He as (x & <- & Hx). cbn [fst]. lia.
  - intros d Hd. rewrite due_advance by assumption. unfold bucket_due, bucket_abs. rewrite Hc', Hb'.
    specialize (HR ((d + 1) mod 25) ltac:(lia)). unfold bucket_due, bucket_abs in HR.
    replace (((s_cur st + 1) mod 25 + d) mod 25) with ((s_cur st + (d + 1) mod 25) mod 25) by lia. exact HR.
Qed.

Lemma execute_sim st m : wf st -> refines st m -> refines (set_bucket st (s_cur st) []) (snd (a_execute m)).
Proof.
  intros Hwf (Hrange & HR). pose proof Hwf as (Hl & Hc & Hall). unfold a_execute. cbn [snd]. split.
  - apply in_filter_range. exact Hrange.
  - intros d Hd. rewrite due_exec. unfold bucket_due. rewrite cur_set_bucket.
    destruct (d =? 0) eqn:Ed.
    + replace ((s_cur st + d) mod 25) with (s_cur st) by lia. rewrite abs_set_bucket_eq by assumption. constructor.
    + rewrite abs_set_bucket_neq; [apply HR; exact Hd|lia|lia|lia].
Qed.

Lemma reset_sim st m : wf st -> refines st m -> refines (tdma_sched_reset st) (a_reset m).
Proof.
  intros Hwf (Hrange & HR). pose proof Hwf as (Hl & Hc & Hall). split.
  - apply in_filter_range. exact Hrange.
  - intros d Hd. rewrite due_reset. unfold bucket_due. cbn [tdma_sched_reset s_cur]. rewrite reset_abs by lia.
    destruct (d =? 0) eqn:Ed.
    + replace ((s_cur st + d) mod 25 =? s_cur st) with true by lia.
      specialize (HR 0 ltac:(lia)). unfold bucket_due in HR. replace ((s_cur st + d) mod 25) with ((s_cur st + 0) mod 25) by lia. exact HR.
    + replace ((s_cur st + d) mod 25 =? s_cur st) with false by lia. constructor.
Qed.

Lemma step_refines rcf st m o st' b : wf st -> cbs_ok st -> (forall x, 0 <= rcf x) -> refines st m -> op_ok o ->
  step rcf st o = Ok (st', b) ->
  refines st' (fst (a_step m o)) /\ obs_matches b (snd (a_step m o)).
Proof.
  intros Hwf Hcb Hr HR Hok Hs. destruct o as [off it|off set p3| | |]; cbn [step op_ok a_step] in *.
  - destruct Hok as (Ho & Hi).
    destruct (tdma_schedule st off it) as [[st1 rc]| |] eqn:E; try discriminate. injection Hs as <- <-.
    destruct (sched_sim st m off it st1 rc Hwf HR Ho E) as (HR1 & Hrc).
    destruct (a_schedule m off it) as [m1 rc']. cbn [fst snd] in *. split; [exact HR1|exact Hrc].
  - destruct Hok as (H0 & Hb & plan & Hp).
    rewrite (schedule_set_place st off set p3 plan) in Hs by (try assumption; try apply Hwf; lia).
    destruct (place st off plan (set_nframes set)) as [[st1 rc]| |] eqn:E; try discriminate. injection Hs as <- <-.
    pose proof (plan_ok_of_set off set p3 plan H0 Hb Hp) as HF.
    destruct (place_sim off (set_nframes set) plan st m st1 rc Hwf HR HF E) as (HR1 & Hrc).
    unfold a_set. rewrite Hp. destruct (a_place m off plan (set_nframes set)) as [m1 rc']. cbn [fst snd] in *.
    split; [exact HR1|exact Hrc].
  - injection Hs as <- <-. cbn [fst snd obs_matches]. split; [apply advance_sim; assumption|exact I].
  - rewrite execute_spec in Hs by assumption. injection Hs as <- <-.
    pose proof (execute_sim st m Hwf HR) as HR1. unfold a_execute in *. cbn [fst snd obs_matches] in *.
    split; [exact HR1|]. pose proof (abs_len st (s_cur st) Hwf) as Hlen.
    destruct HR as (_ & HR). specialize (HR 0 ltac:(lia)). rewrite bucket_due_0 in HR by exact Hwf.
    repeat split.
    + rewrite (exec_order_perm _ Hlen). exact HR.
    + apply exec_order_sorted. exact Hlen.
    + rewrite (Permutation_length HR). reflexivity.
  - injection Hs as <- <-. cbn [fst snd obs_matches]. split; [apply reset_sim; assumption|].
    rewrite reset_stored by exact Hwf. rewrite a_reset_length.
    destruct HR as (_ & HR). specialize (HR 0 ltac:(lia)). rewrite bucket_due_0 in HR by exact Hwf.
    rewrite (Permutation_length HR). reflexivity.
Qed.

Lemma run_refines rcf : (forall x, 0 <= rcf x) -> forall ops st m, wf st -> cbs_ok st -> refines st m -> Forall op_ok ops ->
  exists os st', run rcf st ops = (os, FOk st') /\ wf st' /\ cbs_ok st' /\
                 refines st' (snd (a_run m ops)) /\ Forall2 obs_matches os (fst (a_run m ops)).
Proof.
  intros Hr. induction ops as [|o r IH]; intros st m Hwf Hcb HR HF; cbn [run a_run].
  - exists [], st. split; [reflexivity|]. split; [exact Hwf|]. split; [exact Hcb|]. split; [exact HR|constructor].
  - inversion HF as [|? ? Ho Hrest]; subst.
    destruct (step_ok rcf st o Hwf Hcb Ho) as (st1 & b & Hs & Hwf1 & Hcb1). rewrite Hs.
    destruct (step_refines rcf st m o st1 b Hwf Hcb Hr HR Ho Hs) as (HR1 & Hobs).
    destruct (a_step m o) as [m1 a]. cbn [fst snd] in *.
    destruct (IH st1 m1 Hwf1 Hcb1 HR1 Hrest) as (os & st2 & Hrun & Hwf2 & Hcb2 & HR2 & Hall). rewrite Hrun.
    destruct (a_run m1 r) as [as' m2]. cbn [fst snd] in *.
    exists (b :: os), st2. split; [reflexivity|]. split; [exact Hwf2|]. split; [exact Hcb2|]. split; [exact HR2|constructor; assumption].
Qed.

(* the empty scheduler, at any ring position, refines the empty multiset *)
Lemma init_wf c : 0 <= c < 25 -> wf (init c) /\ cbs_ok (init c).
Proof.
  intros Hc. unfold init, wf, cbs_ok. cbn [s_bk s_cur]. rewrite nb_eq. change (Z.to_nat 25) with 25%nat.
  repeat split; try lia; try reflexivity; apply Forall_forall; intros b Hb; apply repeat_spec in Hb; subst; [cbn; lia|constructor].
Qed.

Lemma init_refines c : 0 <= c < 25 -> refines (init c) [].
Proof.
  intros Hc. split; [intros e []|]. intros d Hd. unfold bucket_due, bucket_abs, init. cbn [s_bk s_cur due filter map].
  rewrite nb_eq. change (Z.to_nat 25) with 25%nat.
  assert (E : nth (Z.to_nat ((c + d) mod 25)) (repeat (@nil item) 25) [] = []).
  { destruct (nth_in_or_default (Z.to_nat ((c + d) mod 25)) (repeat (@nil item) 25) []) as [Hin|Hd']; [|exact Hd'].
    apply repeat_spec in Hin. exact Hin. }
  rewrite E. constructor.
Qed.
