(* Lemmas about Model/MobAllocCd.v (C20): the Cell Channel Description sub-branch of gsm48_rr_render_ma. *)
From Coq Require Import ZArith List Bool Lia ZifyBool.
From OBB Require Import Base.Range Gen.MobAllocConst Gen.MobAllocSi4Const Model.MobAlloc Model.MobAllocSi4 Model.MobAllocCd Proofs.MobAllocP Proofs.MobAllocSi4P.
Import ListNotations.
Open Scope Z_scope.
Ltac Zify.zify_post_hook ::= Z.to_euclidean_division_equations.

Lemma cd_constants : c_CAUSE_ABNORMAL_UNSPEC = 1 /\ c_CELL_DESC_LV_SIZE = 17 /\ c_CAUSE_NO_CELL_ALLOC_A = 101 /\ c_FREQ_TYPE_SERV = 1.
Proof. repeat split; reflexivity. Qed.

(* ------------------------------------------------------------------ indexed view of the two table functions *)
Lemma range_nth a b k d : (k < Z.to_nat (b - a))%nat -> nth k (range a b) d = a + Z.of_nat k.
Proof. intros H. unfold range. rewrite (nth_indep _ d (a + Z.of_nat 0)) by (rewrite map_length, seq_length; exact H).
  rewrite (map_nth (fun i => a + Z.of_nat i) (seq 0 (Z.to_nat (b - a))) 0%nat k), seq_nth by exact H. reflexivity. Qed.

Lemma mapi_zn (g : Z * Z -> Z) freq a : Zlength freq = 1024 -> 0 <= a < 1024 ->
  zn (map g (combine (range 0 1024) freq)) a = g (a, zn freq a).
Proof. intros Hl Ha. unfold zn. rewrite Zlength_correct in Hl.
  assert (Hr : length (range 0 1024) = 1024%nat) by (unfold range; rewrite map_length, seq_length; reflexivity).
  rewrite (nth_indep _ 0 (g (0, 0))) by (rewrite map_length, combine_length; lia).
  rewrite (map_nth g (combine (range 0 1024) freq) (0, 0)), combine_nth by lia. rewrite range_nth by lia. f_equal. f_equal. lia. Qed.

Lemma mapi_length (g : Z * Z -> Z) freq : Zlength freq = 1024 -> Zlength (map g (combine (range 0 1024) freq)) = 1024.
Proof. intros Hl. rewrite Zlength_correct in *. rewrite map_length, combine_length.
  assert (Hr : length (range 0 1024) = 1024%nat) by (unfold range; rewrite map_length, seq_length; reflexivity). lia. Qed.

Lemma bm0_table_length freq cd : Zlength freq = 1024 -> Zlength (bm0_table freq cd) = 1024.
Proof. apply mapi_length. Qed.
Lemma other_table_length freq o : Zlength freq = 1024 -> Zlength (other_table freq o) = 1024.
Proof. apply mapi_length. Qed.

(* ------------------------------------------------------------------ bits *)
Lemma bm0_bit_spec cd a : 1 <= a -> bm0_bit cd a = Z.testbit (zn cd (15 - (a - 1) / 8)) ((a - 1) mod 8).
Proof. intros Ha. unfold bm0_bit. rewrite bit_test by lia. rewrite Z.shiftr_div_pow2 by lia. reflexivity. Qed.

Lemma clr_serv_bit0 m : Z.testbit (clr_serv m) 0 = false.
Proof. unfold clr_serv, c_FREQ_TYPE_SERV. rewrite u8_bits, Z.land_spec, Z.lnot_spec by lia. cbn. apply andb_false_r. Qed.
Lemma set_serv_bit0 m : Z.testbit (set_serv m) 0 = true.
Proof. unfold set_serv, c_FREQ_TYPE_SERV. rewrite u8_bits, Z.lor_spec by lia. cbn. apply orb_true_r. Qed.

Lemma serv_sweep : forallb (fun m => (clr_serv m =? Z.land m 254) && (set_serv (clr_serv m) =? Z.lor (Z.land m 254) 1)) (range 0 256) = true.
Proof. vm_compute. reflexivity. Qed.
Lemma format_sweep : forallb (fun b => Bool.eqb (Z.land (Z.land b 192) 206 =? 0) (b <? 64)) (range 0 256) = true.
Proof. vm_compute. reflexivity. Qed.
Lemma format_bm0 b : 0 <= b < 256 -> (Z.land (Z.land b 192) 206 =? 0) = (b <? 64).
Proof. intros H. pose proof (forallb_range _ _ _ format_sweep b H) as S. cbv beta in S. apply eqb_prop in S. exact S. Qed.

(* the cell allocation in force after the call is the description's set: the previous allocation is cleared *)
Lemma bm0_serving freq cd a : Zlength freq = 1024 -> 0 <= a < 1024 -> serving (bm0_table freq cd) a = bm0_has cd a.
Proof. intros Hl Ha. rewrite serving_is_serv, is_serv_testbit. unfold bm0_table. rewrite mapi_zn by assumption. cbn [fst snd]. unfold bm0_has.
  destruct ((1 <=? a) && (a <=? 124)) eqn:E; cbn [andb].
  - rewrite bm0_bit_spec by lia. destruct (Z.testbit (zn cd (15 - (a - 1) / 8)) ((a - 1) mod 8)); [apply set_serv_bit0|apply clr_serv_bit0].
  - apply clr_serv_bit0. Qed.

Lemma bm0_masks freq cd a : Zlength freq = 1024 -> 0 <= a < 1024 -> 0 <= zn freq a < 256 ->
  zn (bm0_table freq cd) a = if bm0_has cd a then Z.lor (Z.land (zn freq a) 254) 1 else Z.land (zn freq a) 254.
Proof. intros Hl Ha Hm. unfold bm0_table. rewrite mapi_zn by assumption. cbn [fst snd]. unfold bm0_has.
  pose proof (forallb_range _ _ _ serv_sweep (zn freq a) Hm) as S. cbv beta in S.
  assert (E1 : clr_serv (zn freq a) = Z.land (zn freq a) 254) by lia.
  assert (E2 : set_serv (clr_serv (zn freq a)) = Z.lor (Z.land (zn freq a) 254) 1) by lia. clear S.
  destruct ((1 <=? a) && (a <=? 124)) eqn:E; cbn [andb]; [|exact E1].
  rewrite bm0_bit_spec by lia. destruct (Z.testbit _ _); assumption. Qed.

(* ------------------------------------------------------------------ the decoder with si4 = 0 leaves the table as it is *)
Lemma decode0_freq fr ma l hop hl rc s : Zlength fr = 1024 -> 0 <= l <= 8 -> l <= Zlength ma -> Zlength hop = 64 ->
  decode fr ma l hop hl 0 = Ok rc s -> s_freq s = fr.
Proof. intros Hf Hl Hm Hh E. destruct (decode_ok fr ma l hop hl 0 Hf Hl Hm ltac:(lia)) as (s' & E' & _ & _ & H3 & _ & H5).
  rewrite E' in E. injection E as _ <-. apply list_eq_zn; [lia|]. intros k Hk. rewrite H5 by exact Hk. reflexivity. Qed.

Lemma go_spec fr l v ma ma_len : 1 <= l <= 8 -> l <= Zlength v -> Zlength fr = 1024 -> Zlength ma = 64 ->
  match decode fr v l ma ma_len 0 with
  | OOB => OOB
  | Ok _ s' => if s_hlen s' <? 1 then Ok c_CAUSE_NO_CELL_ALLOC_A s' else Ok 0 s'
  end = Ok (if Zlength (spec_hopping fr v l) <? 1 then 101 else 0)
           (mkst fr (spec_hopping fr v l ++ skipn (length (spec_hopping fr v l)) ma) (Zlength (spec_hopping fr v l))).
Proof. intros Hl Hv Hf Hm. destruct (spec_thm fr v l ma ma_len 0 Hf ltac:(lia) Hv Hm) as (fr' & E).
  pose proof (decode0_freq fr v l ma ma_len _ _ Hf ltac:(lia) Hv Hm E) as Hfr. cbn [s_freq] in Hfr. subst fr'.
  rewrite E. cbn [s_hlen]. destruct (Zlength (spec_hopping fr v l) <? 1); reflexivity. Qed.

(* ------------------------------------------------------------------ property-level statements *)
Lemma render_cd_absent lv x other freq ma ma_len : render_ma_cd lv (0 :: x) other freq ma ma_len = render_ma lv freq ma ma_len.
Proof. unfold render_ma_cd, render_ma. destruct (rd lv 0) as [l|]; [|reflexivity]. destruct (l =? 0); [reflexivity|].
  change (rd (0 :: x) 0) with (Some 0). reflexivity. Qed.

Lemma render_cd_wrong_len l v cl x other freq ma ma_len : l <> 0 -> cl <> 0 -> cl <> 16 ->
  render_ma_cd (l :: v) (cl :: x) other freq ma ma_len = Ok 1 (mkst freq ma ma_len).
Proof. intros H0 H1 H2. unfold render_ma_cd. change (rd (l :: v) 0) with (Some l). cbv iota. replace (l =? 0) with false by lia.
  change (rd (cl :: x) 0) with (Some cl). cbv iota zeta. replace (cl =? 0) with false by lia. replace (cl =? 16) with false by lia. reflexivity. Qed.

Lemma render_cd_bm0 l v cd other freq ma ma_len : 1 <= l <= 8 -> l <= Zlength v -> Zlength cd = 16 -> 0 <= zn cd 0 < 64 ->
  Zlength freq = 1024 -> Zlength ma = 64 ->
  render_ma_cd (l :: v) (16 :: cd) other freq ma ma_len =
    Ok (if Zlength (spec_hopping (bm0_table freq cd) v l) <? 1 then 101 else 0)
       (mkst (bm0_table freq cd)
             (spec_hopping (bm0_table freq cd) v l ++ skipn (length (spec_hopping (bm0_table freq cd) v l)) ma)
             (Zlength (spec_hopping (bm0_table freq cd) v l))).
Proof. intros Hl Hv Hc Hb Hf Hm. unfold render_ma_cd. change (rd (l :: v) 0) with (Some l). cbv iota. replace (l =? 0) with false by lia.
  change (rd (16 :: cd) 0) with (Some 16). cbv iota zeta. change (16 =? 0) with false. change (16 =? 16) with true. cbn [negb skipn].
  unfold freq_list16. replace (Zlength freq <? 1024) with false by lia. rewrite rd_ok by lia.
  rewrite format_bm0 by lia. replace (zn cd 0 <? 64) with true by lia. replace (Zlength cd <? 16) with false by lia.
  apply go_spec; try assumption. apply bm0_table_length, Hf. Qed.

Lemma render_cd_other l v cd other freq ma ma_len : 1 <= l <= 8 -> l <= Zlength v -> 1 <= Zlength cd -> 64 <= zn cd 0 < 256 ->
  Zlength freq = 1024 -> Zlength ma = 64 ->
  render_ma_cd (l :: v) (16 :: cd) other freq ma ma_len =
    Ok (if Zlength (spec_hopping (other_table freq other) v l) <? 1 then 101 else 0)
       (mkst (other_table freq other)
             (spec_hopping (other_table freq other) v l ++ skipn (length (spec_hopping (other_table freq other) v l)) ma)
             (Zlength (spec_hopping (other_table freq other) v l))).
Proof. intros Hl Hv Hc Hb Hf Hm. unfold render_ma_cd. change (rd (l :: v) 0) with (Some l). cbv iota. replace (l =? 0) with false by lia.
  change (rd (16 :: cd) 0) with (Some 16). cbv iota zeta. change (16 =? 0) with false. change (16 =? 16) with true. cbn [negb skipn].
  unfold freq_list16. replace (Zlength freq <? 1024) with false by lia. rewrite rd_ok by lia.
  rewrite format_bm0 by lia. replace (zn cd 0 <? 64) with false by lia.
  apply go_spec; try assumption. apply other_table_length, Hf. Qed.

Lemma render_cd_safe lv cdlv other freq ma ma_len : Zlength lv = 9 -> Zlength cdlv = 17 -> octets lv -> octets cdlv ->
  Zlength freq = 1024 -> Zlength ma = 64 -> exists rc s, render_ma_cd lv cdlv other freq ma ma_len = Ok rc s.
Proof. intros Hl Hc Ho Hoc Hf Hm. unfold render_ma_cd. rewrite rd_ok by lia. pose proof (octets_zn lv 0 Ho ltac:(lia)) as H0.
  destruct (zn lv 0 =? 0); [eauto|]. rewrite rd_ok by lia. cbv zeta.
  assert (G : forall fr, Zlength fr = 1024 -> exists rc s,
             match decode fr (skipn 1 lv) (zn lv 0) ma ma_len 0 with
             | OOB => OOB | Ok _ s' => if s_hlen s' <? 1 then Ok c_CAUSE_NO_CELL_ALLOC_A s' else Ok 0 s' end = Ok rc s).
  { intros fr Hfr. destruct (in_bounds_thm fr (skipn 1 lv) (zn lv 0) ma ma_len 0 Hfr Hm ltac:(lia)) as (rc & s & E).
    { intros H8. change 1%nat with (Z.to_nat 1). rewrite Zlength_skipn by lia. lia. }
    rewrite E. destruct (s_hlen s <? 1); eauto. }
  destruct (zn cdlv 0 =? 0); [apply G, Hf|]. destruct (negb (zn cdlv 0 =? 16)); [eauto|].
  unfold freq_list16. replace (Zlength freq <? 1024) with false by lia.
  assert (Hs : Zlength (skipn 1 cdlv) = 16) by (change 1%nat with (Z.to_nat 1); rewrite Zlength_skipn by lia; lia).
  rewrite rd_ok by lia. destruct (Z.land _ 206 =? 0).
  - replace (Zlength (skipn 1 cdlv) <? 16) with false by lia. apply G, bm0_table_length, Hf.
  - apply G, other_table_length, Hf. Qed.

(* ------------------------------------------------------------------ non-vacuity: the serving cell has {5, 15, 25, 35}, the assignment's
   Cell Channel Description (bit map 0) lists {10, 20, 30, 40}, the Mobile Allocation 0f selects its four channels *)
Definition cd_10_20_30_40 : list Z := [0; 0; 0; 0; 0; 0; 0; 0; 0; 0; 0; 128; 32; 8; 2; 0].
Example ex_cd : match render_ma_cd [1; 15; 0; 0; 0; 0; 0; 0; 0] (16 :: cd_10_20_30_40) [] (tbl [5; 15; 25; 35] 64) (repeat 7 64) 9 with
                | Ok rc s => rc :: s_hlen s :: firstn 5 (s_hop s) ++ [zn (s_freq s) 5; zn (s_freq s) 10] | OOB => [-998] end
                = [0; 4; 10; 20; 30; 40; 7; 64; 65].
Proof. vm_compute. reflexivity. Qed.
Example ex_cd_set : filter (bm0_has cd_10_20_30_40) (range 0 1024) = [10; 20; 30; 40].
Proof. vm_compute. reflexivity. Qed.
(* without the description the same Mobile Allocation selects the serving cell's channels *)
Example ex_cd_absent : match render_ma_cd [1; 15; 0; 0; 0; 0; 0; 0; 0] (repeat 0 17) [] (tbl [5; 15; 25; 35] 64) (repeat 7 64) 9 with
                | Ok rc s => rc :: s_hlen s :: firstn 5 (s_hop s) | OOB => [-998] end = [0; 4; 5; 15; 25; 35; 7].
Proof. vm_compute. reflexivity. Qed.
(* a description of 15 octets: abnormal, nothing touched *)
Example ex_cd_15 : match render_ma_cd [1; 15; 0; 0; 0; 0; 0; 0; 0] (15 :: cd_10_20_30_40) [] (tbl [5; 15; 25; 35] 64) (repeat 7 64) 9 with
                | Ok rc s => rc :: s_hlen s :: firstn 2 (s_hop s) ++ [zn (s_freq s) 5; zn (s_freq s) 10] | OOB => [-998] end = [1; 9; 7; 7; 65; 64].
Proof. vm_compute. reflexivity. Qed.
