(* C17: statements about the reflected definitions (Gen/TrxdProto.v) at the Envelope API: layout and round trip of every
   typed message, burst length by modulation, NOPE, reserved bits, wrong version. *)
From Coq Require Import ZArith List Bool Lia ZifyBool.
From OBB Require Import Gen.TrxdProto Base.Range Base.Bits Model.Codec Proofs.CodecInt Proofs.CodecBits Proofs.CodecRT Proofs.CodecDE
  Proofs.CodecErr Proofs.CodecGood Proofs.CodecSem Proofs.TrxdProtoSpec Proofs.TrxdProtoBits Proofs.TrxdProtoMsg.
Import ListNotations.
Open Scope Z_scope.
Ltac Zify.zify_post_hook ::= Z.to_euclidean_division_equations.

Lemma in_pdus : In pdu_v0_rx all_pdus /\ In pdu_v0_tx all_pdus /\ In pdu_v1_rx all_pdus /\ In pdu_v1_tx all_pdus /\ In pdu_v2_rx all_pdus /\ In pdu_v2_tx all_pdus.
Proof. unfold all_pdus. cbn [In]. tauto. Qed.

Definition accepts (pdu:list field) (e:env) (b:list Z) : Prop :=
  encode pdu e = Ok b /\ decode true pdu b = Ok (e, length b) /\ decode false pdu b = Ok (e, length b).

Lemma nodup_small (l:list nat) : nodupb l = true -> NoDup l.
Proof. apply nodupb_sound. Qed.

(* ---------------------------------------------------------------- layout + round trip of every typed message *)
Lemma tx0_accepts tn fn pwr bits : 0 <= tn < 8 -> 0 <= fn < 4294967296 -> 0 <= pwr < 256 ->
  accepts pdu_v0_tx (tx_fields 0 tn fn pwr bits) (tx_layout 0 tn fn pwr bits).
Proof.
  intros Ht Hf Hp. destruct defs_eq as [_ [_ [E _]]]. rewrite E.
  apply good_top; [apply tx_good; lia|apply nodup_small; reflexivity|rewrite <- E; apply (pdu_wf _ (proj1 (proj2 in_pdus)))].
Qed.
Lemma tx1_accepts tn fn pwr bits : 0 <= tn < 8 -> 0 <= fn < 4294967296 -> 0 <= pwr < 256 ->
  accepts pdu_v1_tx (tx_fields 1 tn fn pwr bits) (tx_layout 1 tn fn pwr bits).
Proof.
  intros Ht Hf Hp. destruct defs_eq as [_ [_ [_ [_ [E _]]]]]. rewrite E.
  apply good_top; [apply tx_good; lia|apply nodup_small; reflexivity|rewrite <- E; apply (pdu_wf _ (proj1 (proj2 (proj2 (proj2 in_pdus)))))].
Qed.
(* PDUv0Rx: the soft-bit length rule of the source must answer |sb| when |sb| + |pad| octets are left *)
Lemma rx0_accepts tn fn rssi toa sb pad : 0 <= tn < 8 -> 0 <= fn < 4294967296 -> -255 <= rssi <= 0 -> -32768 <= toa < 32768 ->
  rule_at (length sb + length pad) = Ok (length sb) ->
  accepts pdu_v0_rx (rx0_fields tn fn rssi toa sb pad) (rx0_layout tn fn rssi toa sb pad).
Proof.
  intros Ht Hf Hr Ha Hrule. destruct defs_eq as [E _]. rewrite E.
  apply good_top; [apply rx0_good; try lia; intros e; rewrite rule_env; exact Hrule|apply nodup_small; reflexivity|rewrite <- E; apply (pdu_wf _ (proj1 in_pdus))].
Qed.
Lemma rx1_nodup tn fn rssi toa np md tc cir sb : NoDup (keys (rx1_fields tn fn rssi toa np md tc cir sb)).
Proof.
  unfold rx1_fields. rewrite keys_app, burst_entry_keys. cbn [keys map fst].
  destruct (np =? 0); cbn [app]; repeat (constructor; [cbn [In]; intuition discriminate|]); constructor.
Qed.
Lemma rx1_accepts tn fn rssi toa np md tc cir sb : 0 <= tn < 8 -> 0 <= fn < 4294967296 -> -255 <= rssi <= 0 -> -32768 <= toa < 32768 ->
  0 <= md < 16 -> 0 <= tc < 8 -> -32768 <= cir < 32768 -> burst_ok np md sb ->
  accepts pdu_v1_rx (rx1_fields tn fn rssi toa np md tc cir sb) (rx1_layout tn fn rssi toa np md tc cir sb).
Proof.
  intros Ht Hf Hr Ha Hm Hc Hi Hb. destruct defs_eq as [_ [_ [_ [E _]]]]. rewrite E.
  apply good_top; [apply rx1_good; assumption|apply rx1_nodup|rewrite <- E; apply (pdu_wf _ (proj1 (proj2 (proj2 in_pdus))))].
Qed.
(* TRXDv2, any number of batched sub-PDUs *)
Lemma rx2_accepts m : rx2_ok m -> accepts pdu_v2_rx (rx2_fields m) (rx2_layout m).
Proof.
  intros Hm. destruct defs_eq as [_ [_ [_ [_ [_ [E _]]]]]]. rewrite E.
  apply good_top; [apply rx2_good, Hm|apply rx2_nodup|rewrite <- E; apply (pdu_wf _ (proj1 (proj2 (proj2 (proj2 (proj2 in_pdus))))))].
Qed.
Lemma tx2_accepts m : tx2_ok m -> accepts pdu_v2_tx (tx2_fields m) (tx2_layout m).
Proof.
  intros Hm. destruct defs_eq as [_ [_ [_ [_ [_ [_ [E _]]]]]]]. rewrite E.
  apply good_top; [apply tx2_good, Hm|apply tx2_nodup|rewrite <- E; apply (pdu_wf _ (proj2 (proj2 (proj2 (proj2 (proj2 in_pdus))))))].
Qed.

(* ---------------------------------------------------------------- C16 instantiated: whatever decodes re-encodes *)
Lemma decode_true_len fs data v n : decode true fs data = Ok (v, n) -> n = length data.
Proof.
  unfold decode. destruct (proto_ok fs); [|discriminate]. intros H. apply bind_ok in H as [[v0 n0] [_ H]]. cbn [fst snd andb] in H.
  destruct (Nat.eqb_spec (length data) n0) as [E|E]; cbn [negb] in H; [|discriminate]. injection H as _ <-. auto.
Qed.

Lemma pdu_roundtrip pdu data v n : In pdu all_pdus -> octets data -> decode true pdu data = Ok (v, n) ->
  n = length data /\ exists b', encode pdu v = Ok b' /\ length b' = n /\ decode true pdu b' = Ok (v, n).
Proof.
  intros Hin Ho Hd. destruct (pdu_wf _ Hin) as [Hwf _]. pose proof (decode_true_len _ _ _ _ Hd) as Hn. split; [exact Hn|].
  destruct (dec_enc_top true pdu data v n Hwf Ho Hd) as [_ [_ [_ [b' [H1 [H2 H3]]]]]]. exists b'. split; [exact H1|]. split; [exact H2|].
  rewrite Hn, skipn_all, app_nil_r in H3. rewrite Hn. exact H3.
Qed.

Lemma pdu_closed chk pdu data : In pdu all_pdus ->
  (exists r, decode chk pdu data = Ok r) \/ (exists c, decode chk pdu data = DecodeErr c).
Proof.
  intros Hin. destruct (pdu_wf _ Hin) as [_ [Hpo Hso]]. pose proof (decode_closed chk pdu data) as Hc.
  pose proof (decode_terminates chk pdu data Hso) as Ht.
  destruct (decode chk pdu data) as [r|c|c| |c]; cbn [dec_result_ok] in Hc; eauto; try contradiction. destruct Hc; congruence.
Qed.

(* ---------------------------------------------------------------- burst length by modulation, NOPE *)
Definition burst_name (pdu:list field) : option nat :=
  if list_eq_dec Nat.eq_dec (lnames pdu) (lnames pdu_v2_tx) then Some 8%nat else Some 5%nat.

Lemma burst_in_v1rx : In (burst 5) pdu_v1_rx. Proof. destruct defs_eq as [_ [_ [_ [E _]]]]. rewrite E. cbn. tauto. Qed.
Lemma burst_in_v2rx : In (burst 5) pdu_v2_rx. Proof. destruct defs_eq as [_ [_ [_ [_ [_ [E _]]]]]]. rewrite E. cbn. tauto. Qed.
Lemma burst_in_v2tx : In (burst 8) pdu_v2_tx. Proof. destruct defs_eq as [_ [_ [_ [_ [_ [_ [E _]]]]]]]. rewrite E. cbn. tauto. Qed.

(* any accepted datagram with NOPE = 0 carries a burst whose length is the table entry of its MOD bits *)
Lemma burst_len_sem pdu nm data v n : In pdu all_pdus -> In (burst nm) pdu -> octets data ->
  decode true pdu data = Ok (v, n) -> lookup 9 v = Some (VInt 0) ->
  exists md bits, lookup 10 v = Some (VInt md) /\ lookup nm v = Some (VBytes bits) /\ assocZ md burst_tab = Some (length bits).
Proof.
  intros Hin Hb Ho Hd Hn. destruct (pdu_wf _ Hin) as [Hwf _].
  destruct (dec_enc_top true pdu data v n Hwf Ho Hd) as [_ [Hfit _]].
  assert (Hp : get_pres (PTab 9 [(0, true); (1, false)]) v = Ok true) by (apply (tab_pres _ _ _ 0 true Hn); reflexivity).
  destruct (fits_buf_in _ _ _ _ _ _ Hfit nm _ _ Hb Hp) as [bb [pre [post [L [H1 [H2 H3]]]]]].
  cbn [app] in H3. apply tab_len_inv in H3 as [z [Hz1 Hz2]]. exists z, bb. split; [|split; assumption].
  rewrite H2, lookup_app, Hz1. reflexivity.
Qed.

(* ... and with NOPE = 1 it carries no burst field at all *)
Lemma nope_no_burst_gen pdu nm data v n : In pdu all_pdus -> In (burst nm) pdu ->
  (forall f, In f pdu -> In nm (fnames f) -> f = burst nm) -> octets data ->
  decode true pdu data = Ok (v, n) -> lookup 9 v = Some (VInt 1) -> lookup nm v = None.
Proof.
  intros Hin Hb Huniq Ho Hd Hn. destruct (pdu_wf _ Hin) as [Hwf _].
  destruct (dec_enc_top true pdu data v n Hwf Ho Hd) as [_ [Hfit _]].
  apply lookup_none_keys. intros Hk. destruct (fits_keys _ _ _ _ _ _ Hfit nm Hk) as [f [Hf1 [Hf2 Hf3]]].
  rewrite (Huniq f Hf1 Hf2) in Hf3. cbn [fpres burst] in Hf3.
  rewrite (tab_pres _ _ _ 1 false Hn) in Hf3 by reflexivity. discriminate.
Qed.
Lemma uniq_v1rx f : In f pdu_v1_rx -> In 5%nat (fnames f) -> f = burst 5.
Proof. destruct defs_eq as [_ [_ [_ [E _]]]]. rewrite E. cbn. intuition (subst; cbn in *; intuition discriminate). Qed.
Lemma uniq_v2rx f : In f pdu_v2_rx -> In 5%nat (fnames f) -> f = burst 5.
Proof. destruct defs_eq as [_ [_ [_ [_ [_ [E _]]]]]]. rewrite E. cbn. intuition (subst; cbn in *; intuition discriminate). Qed.
Lemma uniq_v2tx f : In f pdu_v2_tx -> In 8%nat (fnames f) -> f = burst 8.
Proof. destruct defs_eq as [_ [_ [_ [_ [_ [_ [E _]]]]]]]. rewrite E. cbn. intuition (subst; cbn in *; intuition discriminate). Qed.

(* ---------------------------------------------------------------- wrong version *)
Lemma from_be1 h : from_be [h] = h.
Proof. unfold from_be. cbn [fold_left]. lia. Qed.
Lemma from_be2 h h2 : from_be [h; h2] = h * 256 + h2.
Proof. unfold from_be. cbn [fold_left]. lia. Qed.

Lemma wrong_version01 chk v fs h rest : 0 <= v < 16 -> proto_ok (hdr01 v :: fs) = true ->
  Z.land (Z.shiftr h 4) 15 <> v -> decode chk (hdr01 v :: fs) (h :: rest) = DecodeErr 0.
Proof.
  intros Hv Hpo Hne. unfold hdr01. apply (fixed_mismatch chk (LFix 1) false (hdr01_bits v) fs (h :: rest) 0%nat 4%nat v 4 15); [exact Hpo|cbn; lia|left; reflexivity|].
  change (firstn (bits_len (LFix 1) (hdr01_bits v)) (h :: rest)) with [h]. rewrite from_be1. exact Hne.
Qed.
Lemma shiftr_hi h h2 : 0 <= h2 < 256 -> Z.shiftr (h * 256 + h2) 12 = Z.shiftr h 4.
Proof. intros H. rewrite !Z.shiftr_div_pow2 by lia. change (2 ^ 12) with 4096. change (2 ^ 4) with 16. lia. Qed.
Lemma wrong_version2 chk fs h h2 rest : 0 <= h2 < 256 -> proto_ok (hdr2 :: fs) = true ->
  Z.land (Z.shiftr h 4) 15 <> 2 -> decode chk (hdr2 :: fs) (h :: h2 :: rest) = DecodeErr 0.
Proof.
  intros H2 Hpo Hne. unfold hdr2. apply (fixed_mismatch chk (LFix 2) false hdr2_bits fs (h :: h2 :: rest) 0%nat 4%nat 2 12 15); [exact Hpo|cbn; lia|left; reflexivity|].
  change (firstn (bits_len (LFix 2) hdr2_bits) (h :: h2 :: rest)) with [h; h2]. rewrite from_be2, shiftr_hi by lia. exact Hne.
Qed.

Lemma wrong_version_all chk h h2 rest : 0 <= h2 < 256 ->
  (Z.land (Z.shiftr h 4) 15 <> 0 -> decode chk pdu_v0_rx (h :: rest) = DecodeErr 0 /\ decode chk pdu_v0_tx (h :: rest) = DecodeErr 0) /\
  (Z.land (Z.shiftr h 4) 15 <> 1 -> decode chk pdu_v1_rx (h :: rest) = DecodeErr 0 /\ decode chk pdu_v1_tx (h :: rest) = DecodeErr 0) /\
  (Z.land (Z.shiftr h 4) 15 <> 2 -> decode chk pdu_v2_rx (h :: h2 :: rest) = DecodeErr 0 /\ decode chk pdu_v2_tx (h :: h2 :: rest) = DecodeErr 0).
Proof.
  intros H2. destruct in_pdus as [I1 [I2 [I3 [I4 [I5 I6]]]]].
  pose proof (proj1 (proj2 (pdu_wf _ I1))) as P1. pose proof (proj1 (proj2 (pdu_wf _ I2))) as P2. pose proof (proj1 (proj2 (pdu_wf _ I3))) as P3.
  pose proof (proj1 (proj2 (pdu_wf _ I4))) as P4. pose proof (proj1 (proj2 (pdu_wf _ I5))) as P5. pose proof (proj1 (proj2 (pdu_wf _ I6))) as P6.
  destruct defs_eq as [E1 [_ [E2 [E3 [E4 [E5 [E6 _]]]]]]]. rewrite E1 in *. rewrite E2 in *. rewrite E3 in *. rewrite E4 in *. rewrite E5 in *. rewrite E6 in *.
  split; [|split]; intros Hne; split.
  - apply wrong_version01; [lia|exact P1|exact Hne].
  - apply wrong_version01; [lia|exact P2|exact Hne].
  - apply wrong_version01; [lia|exact P3|exact Hne].
  - apply wrong_version01; [lia|exact P4|exact Hne].
  - apply wrong_version2; [exact H2|exact P5|exact Hne].
  - apply wrong_version2; [exact H2|exact P6|exact Hne].
Qed.

(* ---------------------------------------------------------------- reserved bits *)
(* sent as zero: the layouts have 0 in the reserved positions *)
Lemma reserved_zero_sweep :
  forallb (fun v => forallb (fun tn => Z.land (v * 16 + tn) 8 =? 0) (range 0 8)) (range 0 16) = true /\
  forallb (fun ba => forallb (fun tr => Z.land (ba * 128 + tr) 64 =? 0) (range 0 64)) (range 0 2) = true /\
  forallb (fun tn => Z.land tn 248 =? 0) (range 0 8) = true.
Proof. vm_compute. auto. Qed.
Lemma reserved_zero v tn ba tr : 0 <= v < 16 -> 0 <= tn < 8 -> 0 <= ba < 2 -> 0 <= tr < 64 ->
  Z.land (v * 16 + tn) 8 = 0 /\ Z.land (ba * 128 + tr) 64 = 0 /\ Z.land tn 248 = 0.
Proof.
  intros Hv Ht Hb Hr. destruct reserved_zero_sweep as [S1 [S2 S3]]. split; [|split].
  - apply Z.eqb_eq. exact (forallb_range _ _ _ (forallb_range _ _ _ S1 v Hv) tn Ht).
  - apply Z.eqb_eq. exact (forallb_range _ _ _ (forallb_range _ _ _ S2 ba Hb) tr Hr).
  - apply Z.eqb_eq. exact (forallb_range _ _ _ S3 tn Ht).
Qed.

(* ignored on receipt: dec_bits only looks at the windows of named fields *)
Lemma dec_bits_ext lay blob blob' :
  (forall k bl fx o m, In (BitF (Some k) bl fx, o, m) lay -> Z.land (Z.shiftr blob o) m = Z.land (Z.shiftr blob' o) m) ->
  forall e, dec_bits lay blob e = dec_bits lay blob' e.
Proof.
  induction lay as [|[[[nm bl fx] o] m] r IH]; intros H e; [reflexivity|]. cbn [dec_bits]. destruct nm as [k|].
  - cbv zeta. rewrite (H k bl fx o m (or_introl eq_refl)).
    assert (Hr : forall e', dec_bits r blob e' = dec_bits r blob' e') by (apply IH; intros k' bl' fx' o' m' Hin; apply (H k' bl' fx' o' m'); right; exact Hin).
    destruct fx as [c|]; [destruct (_ =? c); [apply Hr|reflexivity]|apply Hr].
  - apply IH. intros k' bl' fx' o' m' Hin. apply (H k' bl' fx' o' m'). right. exact Hin.
Qed.

Lemma dec_first_bits1 k lsb bfs fs e h rest : bits_len (LFix 1) bfs = 1%nat ->
  dec (S k) (FBits (LFix 1) PAlways lsb bfs :: fs) e (h :: rest) =
  (e' <- dec_bits (bits_layout (LFix 1) lsb bfs) h e ;; r <- dec k fs e' rest ;; Ok (fst r, (1 + snd r)%nat)).
Proof.
  intros _. cbn [dec]. unfold dec_field. cbn [fpres get_pres bind negb get_len_f bits_len length Nat.ltb Nat.leb firstn dec_payload].
  rewrite from_be1. destruct (dec_bits (bits_layout (LFix 1) lsb bfs) h e); reflexivity.
Qed.
Lemma dec_first_bits2 k lsb bfs fs e h h2 rest :
  dec (S k) (FBits (LFix 2) PAlways lsb bfs :: fs) e (h :: h2 :: rest) =
  (e' <- dec_bits (bits_layout (LFix 2) lsb bfs) (h * 256 + h2) e ;; r <- dec k fs e' rest ;; Ok (fst r, (2 + snd r)%nat)).
Proof.
  cbn [dec]. unfold dec_field. cbn [fpres get_pres bind negb get_len_f bits_len length Nat.ltb Nat.leb firstn dec_payload].
  rewrite from_be2. destruct (dec_bits (bits_layout (LFix 2) lsb bfs) (h * 256 + h2) e); reflexivity.
Qed.

Lemma rfu_windows_sweep :
  forallb (fun h => (Z.land (Z.shiftr (Z.lor h 8) 4) 15 =? Z.land (Z.shiftr h 4) 15) && (Z.land (Z.shiftr (Z.lor h 8) 0) 7 =? Z.land (Z.shiftr h 0) 7)) (range 0 256) = true.
Proof. vm_compute. reflexivity. Qed.

(* TRXDv0/v1: the RFU bit of the header octet does not influence the decoder *)
Lemma rfu_ignored01 chk v fs h rest : 0 <= h < 256 ->
  decode chk (hdr01 v :: fs) (Z.lor h 8 :: rest) = decode chk (hdr01 v :: fs) (h :: rest).
Proof.
  intros Hh. unfold decode. destruct (proto_ok (hdr01 v :: fs)); [|reflexivity].
  unfold dec_fuel. cbn [length]. unfold hdr01. rewrite !dec_first_bits1 by reflexivity.
  pose proof (forallb_range _ _ _ rfu_windows_sweep h Hh) as Hs. cbv beta in Hs. apply andb_true_iff in Hs as [S1 S2].
  apply Z.eqb_eq in S1, S2.
  rewrite (dec_bits_ext _ (Z.lor h 8) h); [reflexivity|].
  intros k bl fx o m Hin. cbn in Hin. destruct Hin as [E|[E|[E|[]]]]; try discriminate; injection E as _ _ _ <- <-; assumption.
Qed.

(* TRXDv2 header: RFU bit 3 of the first octet and RFU bit 6 of the second *)
Lemma rfu2_windows_sweep :
  forallb (fun h => forallb (fun h2 =>
    (Z.land (Z.shiftr (Z.lor h 8 * 256 + Z.lor h2 64) 12) 15 =? Z.land (Z.shiftr (h * 256 + h2) 12) 15) && (Z.land (Z.shiftr (Z.lor h 8 * 256 + Z.lor h2 64) 8) 7 =? Z.land (Z.shiftr (h * 256 + h2) 8) 7) &&
    (Z.land (Z.shiftr (Z.lor h 8 * 256 + Z.lor h2 64) 7) 1 =? Z.land (Z.shiftr (h * 256 + h2) 7) 1) && (Z.land (Z.shiftr (Z.lor h 8 * 256 + Z.lor h2 64) 0) 63 =? Z.land (Z.shiftr (h * 256 + h2) 0) 63)) (range 0 256)) (range 0 256) = true.
Proof. vm_compute. reflexivity. Qed.
Lemma rfu_ignored2 chk fs h h2 rest : 0 <= h < 256 -> 0 <= h2 < 256 ->
  decode chk (hdr2 :: fs) (Z.lor h 8 :: Z.lor h2 64 :: rest) = decode chk (hdr2 :: fs) (h :: h2 :: rest).
Proof.
  intros Hh Hh2. unfold decode. destruct (proto_ok (hdr2 :: fs)); [|reflexivity].
  unfold dec_fuel. cbn [length]. unfold hdr2. rewrite !dec_first_bits2.
  pose proof (forallb_range _ _ _ (forallb_range _ _ _ rfu2_windows_sweep h Hh) h2 Hh2) as Hs. cbv beta in Hs.
  apply andb_true_iff in Hs as [Hs S4]. apply andb_true_iff in Hs as [Hs S3]. apply andb_true_iff in Hs as [S1 S2].
  apply Z.eqb_eq in S1, S2, S3, S4.
  rewrite (dec_bits_ext _ (Z.lor h 8 * 256 + Z.lor h2 64) (h * 256 + h2)); [reflexivity|].
  intros k bl fx o m Hin. cbn in Hin. (destruct Hin as [E|[E|[E|[E|[E|[E|[]]]]]]]; try discriminate; injection E as _ _ _ <- <-; assumption).
Qed.

Lemma rfu_ignored_all chk h h2 rest : 0 <= h < 256 -> 0 <= h2 < 256 ->
  decode chk pdu_v0_rx (Z.lor h 8 :: rest) = decode chk pdu_v0_rx (h :: rest) /\
  decode chk pdu_v0_tx (Z.lor h 8 :: rest) = decode chk pdu_v0_tx (h :: rest) /\
  decode chk pdu_v1_rx (Z.lor h 8 :: rest) = decode chk pdu_v1_rx (h :: rest) /\
  decode chk pdu_v1_tx (Z.lor h 8 :: rest) = decode chk pdu_v1_tx (h :: rest) /\
  decode chk pdu_v2_rx (Z.lor h 8 :: Z.lor h2 64 :: rest) = decode chk pdu_v2_rx (h :: h2 :: rest) /\
  decode chk pdu_v2_tx (Z.lor h 8 :: Z.lor h2 64 :: rest) = decode chk pdu_v2_tx (h :: h2 :: rest).
Proof.
  intros Hh Hh2. destruct defs_eq as [E1 [_ [E2 [E3 [E4 [E5 [E6 _]]]]]]]. rewrite E1, E2, E3, E4, E5, E6.
  do 4 (split; [apply rfu_ignored01; exact Hh|]). split; apply rfu_ignored2; assumption.
Qed.

(* batched sub-PDU: the five RFU bits of its first octet, and the three spare octets of a Tx (sub-)PDU, are not looked at *)
Lemma sub_windows_sweep : forallb (fun h => forallb (fun h2 =>
    (Z.land (Z.shiftr (h * 256 + h2) 8) 7 =? Z.land h 7) && (Z.land (Z.shiftr (h * 256 + h2) 7) 1 =? Z.land (Z.shiftr h2 7) 1) &&
    (Z.land (Z.shiftr (h * 256 + h2) 6) 1 =? Z.land (Z.shiftr h2 6) 1) && (Z.land (Z.shiftr (h * 256 + h2) 0) 63 =? Z.land h2 63)) (range 0 256)) (range 0 256) = true.
Proof. vm_compute. reflexivity. Qed.
Lemma sub_windows h h2 : 0 <= h < 256 -> 0 <= h2 < 256 ->
  Z.land (Z.shiftr (h * 256 + h2) 8) 7 = Z.land h 7 /\ Z.land (Z.shiftr (h * 256 + h2) 7) 1 = Z.land (Z.shiftr h2 7) 1 /\
  Z.land (Z.shiftr (h * 256 + h2) 6) 1 = Z.land (Z.shiftr h2 6) 1 /\ Z.land (Z.shiftr (h * 256 + h2) 0) 63 = Z.land h2 63.
Proof.
  intros Hh Hh2. pose proof (forallb_range _ _ _ (forallb_range _ _ _ sub_windows_sweep h Hh) h2 Hh2) as Hs. cbv beta in Hs.
  apply andb_true_iff in Hs as [Hs S4]. apply andb_true_iff in Hs as [Hs S3]. apply andb_true_iff in Hs as [S1 S2].
  apply Z.eqb_eq in S1, S2, S3, S4. auto.
Qed.
Lemma sub_rfu_windows h h' h2 : 0 <= h < 256 -> 0 <= h' < 256 -> 0 <= h2 < 256 -> Z.land h 7 = Z.land h' 7 ->
  forall o m, In (o, m) [(8, 7); (7, 1); (6, 1); (0, 63)] -> Z.land (Z.shiftr (h' * 256 + h2) o) m = Z.land (Z.shiftr (h * 256 + h2) o) m.
Proof.
  intros Hh Hh' Hh2 E o m Hin. destruct (sub_windows h h2 Hh Hh2) as [A1 [A2 [A3 A4]]]. destruct (sub_windows h' h2 Hh' Hh2) as [B1 [B2 [B3 B4]]].
  cbn [In] in Hin. destruct Hin as [P|[P|[P|[P|[]]]]]; injection P as <- <-; congruence.
Qed.

Lemma sub_rfu_ignored recd recs e h h' h2 rest : 0 <= h < 256 -> 0 <= h' < 256 -> 0 <= h2 < 256 -> Z.land h 7 = Z.land h' 7 ->
  dec_field recd recs hdr2b e (h' :: h2 :: rest) = dec_field recd recs hdr2b e (h :: h2 :: rest).
Proof.
  intros Hh Hh' Hh2 E. unfold dec_field, hdr2b. cbn [fpres get_pres bind negb get_len_f bits_len length Nat.ltb Nat.leb firstn dec_payload].
  rewrite !from_be2. rewrite (dec_bits_ext _ (h' * 256 + h2) (h * 256 + h2)); [reflexivity|].
  intros k bl fx o m Hin. apply (sub_rfu_windows h h' h2 Hh Hh' Hh2 E). cbn in Hin.
  destruct Hin as [P|[P|[P|[P|[P|[P|[]]]]]]]; try discriminate; injection P as _ _ _ <- <-; cbn [In]; tauto.
Qed.

Lemma spare_octets_ignored recd recs e a b c a' b' c' rest :
  dec_field recd recs (FSpare (LFix 3) PAlways 0) e (a :: b :: c :: rest) = Ok (e, 3%nat) /\
  dec_field recd recs (FSpare (LFix 3) PAlways 0) e (a' :: b' :: c' :: rest) = Ok (e, 3%nat).
Proof. split; reflexivity. Qed.
