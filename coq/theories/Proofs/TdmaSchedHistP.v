(* C08: history-level theorems - an item scheduled N < 25 frames ahead sits untouched in its slot until the execute that
   follows exactly N advances, which runs every slot of the current bucket exactly once in ascending priority and empties it;
   capacity overflow; where the items of a set go; non-vacuity examples; what a failing callback does (outside C08). *)
From Coq Require Import ZArith List Bool Lia Permutation Sorted ZifyBool.
From OBB Require Import Gen.FwSchedConst Model.TdmaSched Proofs.TdmaSchedSpec Proofs.TdmaSchedSortP Proofs.TdmaSchedP Proofs.TdmaSchedRefP.
Import ListNotations.
Open Scope Z_scope.
Ltac Zify.zify_post_hook ::= Z.to_euclidean_division_equations.

(* slot k of the bucket with absolute index B holds it *)
Definition holds (st : sched) (B : Z) (k : nat) (it : item) : Prop := nth_error (bucket_abs st B) k = Some it.

Lemma ext_holds st st' B k it : ext st st' -> 0 <= B < 25 -> holds st B k it -> holds st' B k it.
Proof.
  intros (_ & E) HB H. unfold holds in *. destruct (E B HB) as (x & ->).
  rewrite nth_error_app1; [exact H|]. apply nth_error_Some. congruence.
Qed.

Definition is_adv (o : op) : bool := match o with OAdvance => true | _ => false end.

Lemma step_keeps rcf st o st' b B k it : wf st -> cbs_ok st -> op_ok o -> step rcf st o = Ok (st', b) ->
  0 <= B < 25 -> holds st B k it -> (o = OExecute -> s_cur st <> B) -> o <> OReset ->
  holds st' B k it /\ s_cur st' = (if is_adv o then (s_cur st + 1) mod 25 else s_cur st).
Proof.
  intros Hwf Hcb Hok Hs HB Hh Hex Hnr. destruct o as [off it0|off set p3| | |]; cbn [step op_ok is_adv] in *.
  - destruct Hok as (Ho & Hi). destruct (schedule_ext st off it0 Hwf ltac:(lia)) as (st1 & rc & E & _ & Hext & _).
    rewrite E in Hs. injection Hs as <- <-. split; [eapply ext_holds; eassumption|apply Hext].
  - destruct Hok as (H0 & Hb & plan & Hp).
    rewrite (schedule_set_place st off set p3 plan) in Hs by (try assumption; try apply Hwf; lia).
    pose proof (plan_ok_of_set off set p3 plan H0 Hb Hp) as HF.
    destruct (place_ext off (set_nframes set) plan st Hwf) as (st1 & rc & E & _ & Hext & _).
    { eapply Forall_impl; [|exact HF]. cbv beta. intros e He. lia. }
    rewrite E in Hs. injection Hs as <- <-. split; [eapply ext_holds; eassumption|apply Hext].
  - injection Hs as <- <-. destruct (advance_spec st Hwf) as (Hc' & Hb'). split; [|exact Hc'].
    unfold holds, bucket_abs in *. rewrite Hb'. exact Hh.
  - destruct (execute_total rcf st Hwf Hcb) as (st1 & lg & r & E & Hst). rewrite E in Hs. injection Hs as <- <-.
    destruct Hst as [->| ->]; [split; [exact Hh|reflexivity]|]. split; [|reflexivity].
    unfold holds. rewrite abs_set_bucket_neq; [exact Hh|apply Hwf|lia|apply Hex; reflexivity].
  - congruence.
Qed.

Lemma advances_nonneg ops : 0 <= advances ops.
Proof. induction ops as [|[| | | |] r IH]; cbn [advances]; lia. Qed.

Lemma mid_keeps rcf k it : forall mid st n os st', wf st -> cbs_ok st -> Forall op_ok mid ->
  run rcf st mid = (os, FOk st') -> advances mid = n -> n < 25 -> no_reset mid ->
  (forall a b, mid = a ++ OExecute :: b -> advances a < n) ->
  holds st ((s_cur st + n) mod 25) k it ->
  holds st' (s_cur st') k it /\ s_cur st' = (s_cur st + n) mod 25.
Proof.
  induction mid as [|o r IH]; intros st n os st' Hwf Hcb HF Hrun Hadv Hn Hnr Hex Hh.
  - cbn [run advances] in *. injection Hrun as <- <-. subst n. pose proof Hwf as (_ & Hc & _).
    replace ((s_cur st + 0) mod 25) with (s_cur st) in * by lia. split; [exact Hh|reflexivity].
  - inversion HF as [|? ? Ho Hrest]; subst. cbn [run] in Hrun.
    destruct (step_ok rcf st o Hwf Hcb Ho) as (st1 & b & Hs & Hwf1 & Hcb1). rewrite Hs in Hrun.
    destruct (run rcf st1 r) as [bs f] eqn:Er. injection Hrun as <- ->.
    pose proof Hwf as (_ & Hc & _). pose proof (advances_nonneg r) as Hr0.
    assert (Hno : o <> OReset) by (intros ->; apply Hnr; left; reflexivity).
    assert (Hnr' : no_reset r) by (intros Hin; apply Hnr; right; exact Hin).
    assert (Hexo : o = OExecute -> s_cur st <> (s_cur st + advances (o :: r)) mod 25).
    { intros ->. specialize (Hex [] r eq_refl). cbn [advances] in *. clear - Hex Hn Hc. lia. }
    assert (HB : 0 <= (s_cur st + advances (o :: r)) mod 25 < 25) by lia.
    destruct (step_keeps rcf st o st1 b _ k it Hwf Hcb Ho Hs HB Hh Hexo Hno) as (Hh1 & Hc1).
    assert (Hex' : forall a b0, r = a ++ OExecute :: b0 -> advances a < advances r).
    { intros a b0 ->. specialize (Hex (o :: a) b0 eq_refl). destruct o; cbn [advances] in *; lia. }
    assert (Hh1' : holds st1 ((s_cur st1 + advances r) mod 25) k it).
    { rewrite Hc1. destruct o; cbn [is_adv advances] in *; try exact Hh1.
      replace (((s_cur st + 1) mod 25 + advances r) mod 25) with ((s_cur st + (1 + advances r)) mod 25) by lia. exact Hh1. }
    assert (Hn' : advances r < 25) by (destruct o; cbn [advances] in *; lia).
    destruct (IH st1 (advances r) bs st' Hwf1 Hcb1 Hrest Er eq_refl Hn' Hnr' Hex' Hh1') as (Hh2 & Hc2).
    split; [exact Hh2|]. rewrite Hc2, Hc1. destruct o; cbn [is_adv advances] in *; try reflexivity. lia.
Qed.

(* ---- exactly once, on time ---- *)
Lemma exactly_once_on_time rcf s1 N it mid :
  wf s1 -> cbs_ok s1 -> (forall x, 0 <= rcf x) -> 0 <= N < 25 -> i_cb it <> 0 ->
  (length (bucket_due s1 N) < 8)%nat ->
  Forall op_ok mid -> advances mid = N -> no_reset mid ->
  (forall a b, mid = a ++ OExecute :: b -> advances a < N) ->
  exists s2 os s3 s4 order,
    tdma_schedule s1 N it = Ok (s2, 0) /\
    run rcf s2 mid = (os, FOk s3) /\
    nth_error (bucket_due s3 0) (length (bucket_due s1 N)) = Some it /\
    tdma_sched_execute rcf s3 = XOk s4 (map (fun j => nth j (bucket_due s3 0) dflt) order) (Z.of_nat (length (bucket_due s3 0))) /\
    Permutation order (seq 0 (length (bucket_due s3 0))) /\
    count_occ Nat.eq_dec order (length (bucket_due s1 N)) = 1%nat /\
    ascending (map (fun j => nth j (bucket_due s3 0) dflt) order) /\
    bucket_due s4 0 = [].
Proof.
  intros Hwf Hcb Hr HN Hi Hroom HF Hadv Hnr Hex. pose proof Hwf as (Hl & Hc & Hall).
  set (B := (s_cur s1 + N) mod 25). assert (HB : 0 <= B < 25) by (unfold B; lia).
  unfold bucket_due in Hroom. fold B in Hroom.
  pose proof (schedule_spec s1 N it Hwf ltac:(lia)) as Hs. fold B in Hs.
  replace (8 <=? Z.of_nat (length (bucket_abs s1 B))) with false in Hs by lia.
  set (s2 := set_bucket s1 B (bucket_abs s1 B ++ [it])) in *.
  assert (Hwf2 : wf s2) by (apply wf_set_bucket; [exact Hwf|rewrite app_length; cbn [length]; lia]).
  assert (Hcb2 : cbs_ok s2).
  { apply cbs_set_bucket; [exact Hcb|]. apply Forall_app. split; [apply abs_cbs; exact Hcb|constructor; [exact Hi|constructor]]. }
  destruct (run_ok rcf mid s2 Hwf2 Hcb2 HF) as (os & s3 & Hrun & Hwf3 & Hcb3 & _).
  assert (Hh2 : holds s2 ((s_cur s2 + N) mod 25) (length (bucket_abs s1 B)) it).
  { unfold holds. assert (Hc2 : s_cur s2 = s_cur s1) by reflexivity. rewrite Hc2. fold B. unfold s2. rewrite abs_set_bucket_eq by assumption.
    rewrite nth_error_app2 by lia. rewrite Nat.sub_diag. reflexivity. }
  destruct (mid_keeps rcf _ it mid s2 N os s3 Hwf2 Hcb2 HF Hrun Hadv ltac:(lia) Hnr Hex Hh2) as (Hh3 & Hc3).
  pose proof (execute_spec rcf s3 Hwf3 Hcb3 Hr) as He.
  pose proof (abs_len s3 (s_cur s3) Hwf3) as Hlen3.
  exists s2, os, s3, (set_bucket s3 (s_cur s3) []), (slot_order (bucket_abs s3 (s_cur s3))).
  assert (Hwf4 : wf (set_bucket s3 (s_cur s3) [])) by (apply wf_set_bucket; [exact Hwf3|cbn; lia]).
  assert (E1 : bucket_due s1 N = bucket_abs s1 B) by reflexivity.
  rewrite E1, (bucket_due_0 s3 Hwf3), (bucket_due_0 _ Hwf4).
  split; [exact Hs|]. split; [exact Hrun|]. split; [exact Hh3|]. split; [rewrite He; reflexivity|].
  split; [apply slot_order_perm; exact Hlen3|].
  split; [apply slot_once; [exact Hlen3|]; apply nth_error_Some; unfold holds in Hh3; congruence|].
  split; [rewrite <- exec_order_slots; apply exec_order_sorted; exact Hlen3|].
  rewrite cur_set_bucket. apply abs_set_bucket_eq; [exact Hwf3|apply Hwf3].
Qed.

(* ---- execute: sorted permutation of the current bucket; that bucket is emptied, no other bucket changes ---- *)
Lemma sorted_perm rcf st : wf st -> cbs_ok st -> (forall x, 0 <= rcf x) ->
  exists st' lg, tdma_sched_execute rcf st = XOk st' lg (Z.of_nat (length lg)) /\
    Permutation lg (bucket_due st 0) /\ ascending lg /\
    bucket_due st' 0 = [] /\ s_cur st' = s_cur st /\ (forall d, 0 < d < 25 -> bucket_due st' d = bucket_due st d).
Proof.
  intros Hwf Hcb Hr. pose proof Hwf as (Hl & Hc & Hall). pose proof (abs_len st (s_cur st) Hwf) as Hlen.
  rewrite execute_spec by assumption. eexists _, _. rewrite bucket_due_0 by exact Hwf.
  split; [rewrite (Permutation_length (exec_order_perm _ Hlen)); reflexivity|].
  split; [apply exec_order_perm; exact Hlen|]. split; [apply exec_order_sorted; exact Hlen|].
  split; [unfold bucket_due; rewrite cur_set_bucket; replace ((s_cur st + 0) mod 25) with (s_cur st) by lia; apply abs_set_bucket_eq; assumption|].
  split; [reflexivity|]. intros d Hd. unfold bucket_due. rewrite cur_set_bucket. apply abs_set_bucket_neq; lia.
Qed.

(* ---- capacity ---- *)
Lemma overflow_reported st N it : wf st -> 0 <= N < 25 ->
  ((length (bucket_due st N) >= 8)%nat -> tdma_schedule st N it = Ok (st, -1)) /\
  ((length (bucket_due st N) < 8)%nat -> exists st', tdma_schedule st N it = Ok (st', 0) /\ s_cur st' = s_cur st /\
      bucket_due st' N = bucket_due st N ++ [it] /\ forall d, 0 <= d < 25 -> d <> N -> bucket_due st' d = bucket_due st d).
Proof.
  intros Hwf HN. pose proof Hwf as (Hl & Hc & Hall). rewrite schedule_spec by (try assumption; lia). unfold bucket_due.
  split; intros Hlen.
  - replace (8 <=? _) with true by lia. reflexivity.
  - replace (8 <=? _) with false by lia. eexists. split; [reflexivity|]. rewrite cur_set_bucket. split; [reflexivity|].
    split; [apply abs_set_bucket_eq; [exact Hwf|lia]|]. intros d Hd Hne. apply abs_set_bucket_neq; lia.
Qed.

(* a set never overwrites either: whatever it returns, every bucket keeps its old content as a prefix *)
Lemma set_appends st off set p3 plan : wf st -> 0 <= off -> off + set_nframes set < 25 -> set_plan 0 set p3 = Some plan ->
  exists st' rc, tdma_schedule_set st off set p3 = Ok (st', rc) /\ (rc = -1 \/ rc = set_nframes set) /\ s_cur st' = s_cur st /\
    forall d, 0 <= d < 25 -> exists extra, bucket_due st' d = bucket_due st d ++ extra.
Proof.
  intros Hwf H0 Hb Hp. rewrite (schedule_set_place st off set p3 plan) by (try assumption; try apply Hwf; lia).
  pose proof (plan_ok_of_set off set p3 plan H0 Hb Hp) as HF.
  destruct (place_ext off (set_nframes set) plan st Hwf) as (st' & rc & E & _ & (Hc' & Hext) & _).
  { eapply Forall_impl; [|exact HF]. cbv beta. intros e He. lia. }
  exists st', rc. split; [exact E|]. split.
  - clear - E. revert st E. induction plan as [|[k it] r IH]; intros st E; cbn [place] in E.
    + injection E as _ <-. right; reflexivity.
    + destruct (tdma_schedule st (off + k) it) as [[st1 rc1]| |]; try discriminate.
      destruct (rc1 =? 0); [eapply IH; exact E|]. injection E as _ <-. left; reflexivity.
  - split; [exact Hc'|]. intros d Hd. unfold bucket_due. rewrite Hc'. apply Hext. pose proof Hwf as (_ & Hc & _). lia.
Qed.

(* ---- where the items of a set go: frame k of the set is due k frames after the first ---- *)
Definition plan_frame (plan : list (Z * item)) (k : Z) : list item := map snd (filter (fun e => fst e =? k) plan).

Lemma place_all_due off ret : forall plan st st', wf st -> 0 <= off ->
  Forall (fun e => 0 <= fst e /\ off + fst e < 25 /\ i_cb (snd e) <> 0) plan ->
  place st off plan ret = Ok (st', ret) -> ret <> -1 ->
  forall d, 0 <= d < 25 -> bucket_due st' d = bucket_due st d ++ plan_frame plan (d - off).
Proof.
  induction plan as [|[k it] r IH]; intros st st' Hwf H0 HF Hp Hret d Hd; cbn [place] in Hp.
  - injection Hp as <-. unfold plan_frame. cbn [filter map]. rewrite app_nil_r. reflexivity.
  - inversion HF as [|? ? (Hk0 & Hk & Hi) Hr]; subst. cbn [fst snd] in *.
    destruct (overflow_reported st (off + k) it Hwf ltac:(lia)) as (Hfull & Hroom).
    destruct (le_lt_dec 8 (length (bucket_due st (off + k)))) as [Hge|Hlt].
    + rewrite (Hfull ltac:(lia)) in Hp. change (-1 =? 0) with false in Hp. cbv iota in Hp. injection Hp as _ Hp. congruence.
    + destruct (Hroom Hlt) as (st1 & E & Hc1 & Hd1 & Hother). rewrite E in Hp. change (0 =? 0) with true in Hp. cbv iota in Hp.
      destruct (schedule_ext st (off + k) it Hwf ltac:(lia)) as (st1' & rc' & E' & Hwf1 & _ & _).
      rewrite E in E'. injection E' as <- <-.
      rewrite (IH st1 st' Hwf1 H0 Hr Hp Hret d Hd). unfold plan_frame. cbn [filter fst].
      destruct (k =? d - off) eqn:Ek.
      * assert (d = off + k) by lia. subst d. rewrite Hd1. cbn [map snd]. rewrite <- app_assoc. reflexivity.
      * rewrite Hother by lia. reflexivity.
Qed.

Lemma set_offsets st off set p3 plan : wf st -> 0 <= off -> off + set_nframes set < 25 -> set_plan 0 set p3 = Some plan ->
  tdma_schedule_set st off set p3 = place st off plan (set_nframes set) /\
  forall st', tdma_schedule_set st off set p3 = Ok (st', set_nframes set) ->
     s_cur st' = s_cur st /\
     forall d, 0 <= d < 25 -> bucket_due st' d = bucket_due st d ++ plan_frame plan (d - off).
Proof.
  intros Hwf H0 Hb Hp. pose proof (schedule_set_place st off set p3 plan) as E.
  rewrite E by (try assumption; try apply Hwf; lia). split; [reflexivity|]. intros st' Hs.
  destruct (set_plan_frames p3 set 0 plan Hp) as (HF & Hn).
  split.
  - destruct (place_ext off (set_nframes set) plan st Hwf) as (st2 & rc & E2 & _ & (Hc' & _) & _).
    { eapply Forall_impl; [|exact HF]. cbv beta. intros e He. lia. }
    rewrite Hs in E2. injection E2 as <- _. exact Hc'.
  - apply (place_all_due off (set_nframes set) plan st st' Hwf H0); [|exact Hs|lia].
    eapply Forall_impl; [|exact HF]. cbv beta. intros e He. lia.
Qed.

(* ---- non-vacuity and behaviour outside the quantifier ---- *)
Definition ex_item (cb p1 p2 p3 prio : Z) : item := {| i_cb := cb; i_p1 := p1; i_p2 := p2; i_p3 := p3; i_prio := prio |}.
Definition ex_rcf (_ : item) : Z := 0.

(* ring position 23, an item 24 frames ahead (crosses the ring end), other traffic in between, equal and unequal priorities *)
Definition ex_mid : list op :=
  [OSched 24 (ex_item 3 1 1 1 5); OExecute; OAdvance; OSched 23 (ex_item 4 2 2 2 (-7));
   OSet 0 [ex_item 5 9 9 0 1; ex_item 0 0 0 0 0; ex_item 6 8 8 0 1; ex_item 1 0 0 0 0] 77]
  ++ repeat OAdvance 23.

Example ex_hypotheses :
  wf (init 23) /\ cbs_ok (init 23) /\ Forall op_ok ex_mid /\ advances ex_mid = 24 /\ no_reset ex_mid /\
  (forall a b, ex_mid = a ++ OExecute :: b -> advances a < 24).
Proof.
  split; [apply init_wf; lia|]. split; [apply init_wf; lia|].
  split.
  { unfold ex_mid. cbn [app repeat].
    repeat (constructor; [cbn [op_ok]; first [exact I | split; [lia|cbn; lia] | split; [lia|split; [cbn; lia|eexists; reflexivity]]]|]).
    constructor. }
  split; [reflexivity|]. split.
  { unfold no_reset, ex_mid. cbn [app]. intros [H|[H|[H|[H|[H|H]]]]]; try discriminate. apply repeat_spec in H. discriminate. }
  intros a b E. unfold ex_mid in E. cbn [app] in E.
  destruct a as [|o1 a]; [discriminate|]. injection E as <- E.
  destruct a as [|o2 a]; [cbn; lia|]. injection E as <- E.
  destruct a as [|o3 a]; [discriminate|]. injection E as <- E.
  destruct a as [|o4 a]; [discriminate|]. injection E as <- E.
  destruct a as [|o5 a]; [discriminate|]. injection E as <- E.
  exfalso. assert (Hin : In OExecute (a ++ OExecute :: b)) by (apply in_or_app; right; left; reflexivity).
  rewrite <- E in Hin. cbn [In] in Hin. repeat (destruct Hin as [Hin|Hin]; [discriminate|]). exact Hin.
Qed.

Example ex_run :
  let s2 := match tdma_schedule (init 23) 24 (ex_item 2 7 7 7 5) with Ok (s, _) => s | _ => init 0 end in
  match run ex_rcf s2 ex_mid with
  | (_, FOk s3) => match tdma_sched_execute ex_rcf s3 with
                   | XOk s4 lg r => (lg, r, bucket_due s4 0)
                   | _ => ([], -5, [])
                   end
  | _ => ([], -6, [])
  end = ([ex_item 4 2 2 2 (-7); ex_item 3 1 1 1 5; ex_item 2 7 7 7 5], 3, []).
  (* note the two priority-5 items: the swap-based selection sort is not stable, they run in reverse scheduling order here *)
Proof. vm_compute. reflexivity. Qed.

(* outside C08's quantifier: a callback that reports failure makes tdma_sched_execute return at once WITHOUT clearing the
   bucket, so the items already run stay stored and run again on the next execute of that frame *)
Example negative_rc_reruns :
  let rcf := fun it => if i_cb it =? 9 then -3 else 0 in
  let st := match tdma_schedule (init 0) 0 (ex_item 2 1 1 1 0) with Ok (s, _) => s | _ => init 0 end in
  let st := match tdma_schedule st 0 (ex_item 9 2 2 2 1) with Ok (s, _) => s | _ => init 0 end in
  match tdma_sched_execute rcf st with
  | XOk st' lg r => (lg, r, bucket_due st' 0) = ([ex_item 2 1 1 1 0; ex_item 9 2 2 2 1], -3, [ex_item 2 1 1 1 0; ex_item 9 2 2 2 1])
  | _ => False
  end.
Proof. vm_compute. reflexivity. Qed.

(* outside C08's quantifier: offsets at or beyond the ring depth alias an earlier frame (N = 25 is due immediately) *)
Example offset_25_aliases_0 :
  match tdma_schedule (init 3) 25 (ex_item 2 1 1 1 0) with Ok (st, _) => bucket_due st 0 = [ex_item 2 1 1 1 0] | _ => False end.
Proof. vm_compute. reflexivity. Qed.

(* ---- projections used by Props/C08.v ---- *)
Lemma executed_empty rcf st : wf st -> cbs_ok st -> (forall x, 0 <= rcf x) ->
  exists st' lg r, tdma_sched_execute rcf st = XOk st' lg r /\
    bucket_due st' 0 = [] /\ s_cur st' = s_cur st /\ (forall d, 0 < d < 25 -> bucket_due st' d = bucket_due st d).
Proof.
  intros Hwf Hcb Hr. destruct (sorted_perm rcf st Hwf Hcb Hr) as (st' & lg & E & _ & _ & H1 & H2 & H3).
  exists st', lg, (Z.of_nat (length lg)). auto.
Qed.

Lemma slots_once b : (length b <= 8)%nat ->
  exec_order b = map (fun k => nth k b dflt) (slot_order b) /\
  Permutation (slot_order b) (seq 0 (length b)) /\
  (forall k, (k < length b)%nat -> count_occ Nat.eq_dec (slot_order b) k = 1%nat) /\
  StronglySorted (fun j k => i_prio (nth j b dflt) <= i_prio (nth k b dflt)) (slot_order b).
Proof.
  intros H. split; [reflexivity|]. split; [apply slot_order_perm; exact H|]. split; [intros k Hk; apply slot_once; assumption|].
  apply slot_order_sorted. exact H.
Qed.
