(* Frequency redefinition (C07): after l1s_freq_cmd the firmware tunes to the channel TS 45.002 6.2.3 selects from the STAGED
   parameters; staging alone does not change the channel in use. Composes with HoppingP.c_spec / pick_in. *)
From Coq Require Import ZArith List Lia.
From OBB Require Import Model.GsmTime Model.Hopping Proofs.HoppingP Model.FreqRedef.
Import ListNotations.
Open Scope Z_scope.

(* a hopping set read by rfch_get_params: MA[MAI] with the standard's MAI *)
Lemma set_arfcn_hop hsn maio ma fn : 0 <= hsn < 64 -> 0 <= maio -> (1 <= length ma <= 64)%nat -> 0 <= fn < 2715648 ->
  exists mai a, hop_spec hsn maio (Z.of_nat (length ma)) fn = Some mai /\ 0 <= mai < Z.of_nat (length ma)
                /\ nth_error ma (Z.to_nat mai) = Some a /\ set_arfcn (Hop hsn maio ma) fn = a.
Proof.
  intros Hh Hm Hl Hf.
  destruct (c_spec hsn maio (Z.of_nat (length ma)) fn Hh Hm ltac:(lia) Hf) as [Ec [mai [Es Hmai]]].
  destruct (pick_in ma mai Hmai) as [a [Ep En]].
  exists mai, a. repeat split; try assumption; try lia.
  unfold set_arfcn. rewrite Ec, Es, Ep. reflexivity.
Qed.

(* (a) after the command: hopping *)
Lemma cmd_hop d hsn maio ma fn : st d = Hop hsn maio ma ->
  0 <= hsn < 64 -> 0 <= maio -> (1 <= length ma <= 64)%nat -> 0 <= fn < 2715648 ->
  exists mai a, hop_spec hsn maio (Z.of_nat (length ma)) fn = Some mai /\ 0 <= mai < Z.of_nat (length ma)
                /\ nth_error ma (Z.to_nat mai) = Some a /\ ded_arfcn (freq_cmd d) fn = a.
Proof.
  intros Hs Hh Hm Hl Hf. unfold ded_arfcn, freq_cmd. cbn [act]. rewrite Hs.
  apply set_arfcn_hop; assumption.
Qed.

(* (a) after the command: single ARFCN, and the training sequence *)
Lemma cmd_fixed d a fn : st d = Fixed a -> ded_arfcn (freq_cmd d) fn = a.
Proof. intros Hs. unfold ded_arfcn, freq_cmd. cbn [act]. rewrite Hs. reflexivity. Qed.

Lemma cmd_tsc d : ded_tsc (freq_cmd d) = st_tsc d.
Proof. reflexivity. Qed.

(* (b) *)
Lemma cmd_keeps_staged d : st (freq_cmd d) = st d /\ st_tsc (freq_cmd d) = st_tsc d.
Proof. split; reflexivity. Qed.

Lemma cmd_idem d : freq_cmd (freq_cmd d) = freq_cmd d.
Proof. reflexivity. Qed.

(* (c) staging does not touch the channel in use; the command then activates exactly what was staged *)
Lemma stage_keeps_active d s t : act (stage d s t) = act d /\ ded_tsc (stage d s t) = ded_tsc d
  /\ forall fn, ded_arfcn (stage d s t) fn = ded_arfcn d fn.
Proof. repeat split. Qed.

Lemma stage_cmd d s t : act (freq_cmd (stage d s t)) = s /\ ded_tsc (freq_cmd (stage d s t)) = t.
Proof. split; reflexivity. Qed.

(* old MA of 3 channels, staged MA of 5 channels: the frames whose MAI is 3 or 4 use the NEW entries 43 / 44 (no old entry exists
   there), the frames with MAI 0..2 the new 40..42 and not the old 10..12; until the command the old channel is used *)
Definition ex_old := {| act := Hop 0 0 [10; 11; 12]; act_tsc := 1; st := Hop 0 0 [10; 11; 12]; st_tsc := 1 |}.
Definition ex_staged := stage ex_old (Hop 17 2 [40; 41; 42; 43; 44]) 5.
Example redef_n5 :
  map (ded_arfcn ex_staged) [0; 1; 2; 3; 7; 8] = [10; 11; 12; 10; 11; 12]
  /\ map (hop_spec 17 2 5) [0; 1; 2; 3; 7; 8] = [Some 4; Some 3; Some 0; Some 2; Some 3; Some 2]
  /\ map (ded_arfcn (freq_cmd ex_staged)) [0; 1; 2; 3; 7; 8] = [44; 43; 40; 42; 43; 42]
  /\ ded_tsc ex_staged = 1 /\ ded_tsc (freq_cmd ex_staged) = 5.
Proof. vm_compute. repeat split; reflexivity. Qed.
