(* Histories of appends and reads on one capture: the state is always the file of everything stored so far, and every read
   answers for exactly that list (composition with index_read / full_read / slice_read of DumpP.v). *)
From Coq Require Import ZArith List Lia.
From OBB Require Import Model.Trxd Model.Dump Model.DumpHist Proofs.DumpP.
Import ListNotations.
Open Scope Z_scope.

Lemma file_app a b : file (a ++ b) = file a ++ file b.
Proof. unfold file. rewrite map_app, concat_app. reflexivity. Qed.

Lemma appended_app a b : appended (a ++ b) = appended a ++ appended b.
Proof. unfold appended. apply flat_map_app. Qed.

Lemma dstep_valid ms o : Forall vmsg (appended [o]) ->
  fst (dstep (file ms) o) = file (ms ++ appended [o]).
Proof.
  intros H. destruct o as [m|i|s c]; cbn [dstep appended flat_map app fst]; try (rewrite app_nil_r; reflexivity).
  cbn [appended flat_map app] in H. inversion H as [|x l Hm _]; subst.
  destruct (rec_good m Hm) as [raw [_ [_ [_ [Ed _]]]]]. unfold append_msg. rewrite Ed. cbn [bind fst].
  rewrite file_app. unfold file at 3. cbn [map concat]. rewrite app_nil_r. reflexivity.
Qed.

(* the state after any history: the file of the initial messages followed by every appended message, in order *)
Theorem hist_state ops : forall ms0, Forall vmsg (appended ops) ->
  fst (drun (file ms0) ops) = file (ms0 ++ appended ops).
Proof.
  induction ops as [|o ops IH]; intros ms0 H.
  - cbn [drun fst appended flat_map]. rewrite app_nil_r. reflexivity.
  - change (o :: ops) with ([o] ++ ops) in H. rewrite appended_app in H. apply Forall_app in H. destruct H as [Ho Hr].
    cbn [drun]. pose proof (dstep_valid ms0 o Ho) as E.
    destruct (dstep (file ms0) o) as [f' x] eqn:Es. cbn [fst] in E. subst f'.
    specialize (IH (ms0 ++ appended [o]) Hr).
    destruct (drun (file (ms0 ++ appended [o])) ops) as [f'' xs] eqn:Er. cbn [fst] in IH |- *.
    rewrite IH. change (o :: ops) with ([o] ++ ops). rewrite appended_app, app_assoc. reflexivity.
Qed.

Lemma drun_app f a b : drun f (a ++ b) =
  let '(f1, x1) := drun f a in let '(f2, x2) := drun f1 b in (f2, x1 ++ x2).
Proof.
  revert f. induction a as [|o a IH]; intros f.
  - cbn [app drun]. destruct (drun f b); reflexivity.
  - cbn [app drun]. destruct (dstep f o) as [f' x]. rewrite IH. destruct (drun f' a) as [f1 x1]. destruct (drun f1 b) as [f2 x2]. reflexivity.
Qed.

Lemma drun_len f ops : length (snd (drun f ops)) = length ops.
Proof.
  revert f. induction ops as [|o ops IH]; intros f; [reflexivity|]. cbn [drun]. destruct (dstep f o) as [f' x].
  specialize (IH f'). destruct (drun f' ops) as [f'' xs]. cbn [snd length] in *. rewrite IH. reflexivity.
Qed.

(* the answer of the operation that follows the history 'pre' is the answer of that operation on the file of everything stored so far *)
Theorem hist_answer pre o post ms0 : Forall vmsg (appended pre) ->
  nth_error (snd (drun (file ms0) (pre ++ o :: post))) (length pre) = Some (snd (dstep (file (ms0 ++ appended pre)) o)).
Proof.
  intros H. rewrite drun_app. pose proof (hist_state pre ms0 H) as Es. pose proof (drun_len (file ms0) pre) as El.
  destruct (drun (file ms0) pre) as [f1 x1]. cbn [fst snd] in Es, El. subst f1.
  cbn [drun]. destruct (dstep (file (ms0 ++ appended pre)) o) as [f' x]. destruct (drun f' post) as [f2 x2]. cbn [snd].
  rewrite nth_error_app2 by lia. rewrite El, Nat.sub_diag. reflexivity.
Qed.

(* random access after any history of appends and reads: index i gives the i-th of (initial ++ appended so far), None beyond *)
Theorem hist_index pre i post ms0 : Forall vmsg ms0 -> Forall vmsg (appended pre) ->
  let ms := ms0 ++ appended pre in
  let ans := nth_error (snd (drun (file ms0) (pre ++ DIndex i :: post))) (length pre) in
  (0 <= i < Z.of_nat (length ms) -> exists m m', nth_error ms (Z.to_nat i) = Some m /\ ans = Some (OIndex (Ok (OMsg m'))) /\ cmsg m' = cmsg m) /\
  (Z.of_nat (length ms) <= i -> ans = Some (OIndex (Ok ONone))).
Proof.
  intros H0 Hp ms ans. subst ans. rewrite (hist_answer pre (DIndex i) post ms0 Hp). cbn [dstep snd]. fold ms.
  assert (Hv : Forall vmsg ms) by (apply Forall_app; split; assumption).
  destruct (index_read ms i Hv) as [A B]. split.
  - intros Hi. destruct (A Hi) as [m [m' [E1 [E2 E3]]]]. exists m, m'. rewrite E2. repeat split; assumption.
  - intros Hi. rewrite (B Hi). reflexivity.
Qed.

(* a full read after any history returns everything stored so far, in order *)
Theorem hist_full pre post ms0 : Forall vmsg ms0 -> Forall vmsg (appended pre) ->
  let ms := ms0 ++ appended pre in
  exists ms', nth_error (snd (drun (file ms0) (pre ++ DAll None None :: post))) (length pre) = Some (OAll (Ok (PList ms'))) /\ map cmsg ms' = map cmsg ms.
Proof.
  intros H0 Hp ms. rewrite (hist_answer pre (DAll None None) post ms0 Hp). cbn [dstep snd]. fold ms.
  assert (Hv : Forall vmsg ms) by (apply Forall_app; split; assumption).
  destruct (full_read ms Hv) as [ms' [E1 E2]]. exists ms'. rewrite E1. split; [reflexivity|exact E2].
Qed.

(* an append of a valid message is acknowledged and changes nothing but the end of the file; reads change nothing *)
Theorem hist_reads_pure f o : (forall m, o <> DAppend m) -> fst (dstep f o) = f.
Proof. destruct o as [m|i|s c]; intros H; [exfalso; apply (H m); reflexivity|reflexivity|reflexivity]. Qed.

(* non-vacuity: on the example capture (4 stored messages) - read, append, read the appended one by its index, full read *)
Example hist_example :
  exists m, nth_error ex_ms 0 = Some m /\ Forall vmsg (appended [DIndex 0; DAppend m]) /\
    (match nth_error (snd (drun (file ex_ms) ([DIndex 0; DAppend m] ++ DIndex 4 :: [DAll None None]))) 2 with
     | Some (OIndex (Ok (OMsg m'))) => cmsg m' = cmsg m
     | _ => False
     end) /\
    length (fst (drun (file ex_ms) [DIndex 0; DAppend m; DIndex 4])) = (length (file ex_ms) + length (rec_of m))%nat.
Proof.
  destruct (nth_error ex_ms 0) as [m|] eqn:E; [|vm_compute in E; discriminate].
  exists m. vm_compute in E. injection E as <-. split; [reflexivity|]. split.
  - cbn [appended flat_map app]. constructor; [|constructor]. pose proof ex_valid as H. inversion H; assumption.
  - split; vm_compute; reflexivity.
Qed.
