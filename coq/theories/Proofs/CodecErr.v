(* C16: error behaviour of the codec model - which results the Envelope API can produce, termination, short input,
   trailing octets, fixed-value mismatch, unencodable values. *)
From Coq Require Import ZArith List Bool Lia.
From OBB Require Import Base.Bits Model.Codec Proofs.CodecInt Proofs.CodecBits Proofs.CodecRT Proofs.CodecDE.
Import ListNotations.
Open Scope Z_scope.

(* ---------------------------------------------------------------- results of the Envelope API are closed *)
Definition dec_result_ok {A} (fs:list field) (r:res A) : Prop :=
  match r with Ok _ | DecodeErr _ | OutOfFuel => True | EncodeErr _ => False | Crash c => c = 9 /\ proto_ok fs = false end.
Definition enc_result_ok {A} (fs:list field) (r:res A) : Prop :=
  match r with Ok _ | EncodeErr _ | OutOfFuel => True | DecodeErr _ => False | Crash c => c = 9 /\ proto_ok fs = false end.

Lemma decode_closed chk fs data : dec_result_ok fs (decode chk fs data).
Proof.
  unfold decode. destruct (proto_ok fs) eqn:E; [|cbn; auto].
  destruct (dec (dec_fuel fs data) fs [] data) as [[v n]| | | |]; cbn [wrapD bind dec_result_ok fst snd]; auto.
  destruct (chk && negb (Nat.eqb (length data) n)); cbn; auto.
Qed.
Lemma encode_closed fs e : enc_result_ok fs (encode fs e).
Proof. unfold encode. destruct (proto_ok fs) eqn:E; [|cbn; auto]. destruct (enc (enc_fuel fs) fs e); cbn; auto. Qed.

(* ---------------------------------------------------------------- OutOfFuel is only the non-terminating loop *)
Definition noof {A} (r:res A) : Prop := r <> OutOfFuel.
Lemma bind_noof {A B} (a:res A) (f:A -> res B) : noof a -> (forall x, a = Ok x -> noof (f x)) -> noof (x <- a ;; f x).
Proof. unfold noof. destruct a; cbn [bind]; intros H1 H2; try discriminate; auto. Qed.
Lemma wrapE_noof {A} (r:res A) : noof r -> noof (wrapE r).
Proof. unfold noof. destruct r; cbn [wrapE]; intros H; try discriminate; auto. Qed.
Lemma wrapD_noof {A} (r:res A) : noof r -> noof (wrapD r).
Proof. unfold noof. destruct r; cbn [wrapD]; intros H; try discriminate; auto. Qed.
Lemma ok_noof {A} (a:A) : noof (Ok a). Proof. discriminate. Qed.
Lemma tab_get_noof {A B} k (t:list (Z*A)) e (f:A -> res B) : (forall a, noof (f a)) -> noof (tab_get k t e f).
Proof. intros H. unfold tab_get. destruct (lookup k e) as [[z|b|d|l]|]; try discriminate. destruct (assocZ z t); [apply H|discriminate]. Qed.
Lemma get_pres_noof p e : noof (get_pres p e).
Proof. destruct p; cbn [get_pres]; [discriminate|]. apply tab_get_noof. intros; discriminate. Qed.
Lemma get_len_noof l e L : noof (get_len l e L).
Proof. destruct l as [[|n]| | |]; cbn [get_len]; try discriminate. apply tab_get_noof. intros; discriminate. Qed.
Lemma get_len_f_noof f e L : noof (get_len_f f e L).
Proof. destruct f; cbn [get_len_f]; try apply get_len_noof. discriminate. Qed.
Lemma enc_int_noof n le sg x : noof (enc_int n le sg x).
Proof. unfold enc_int. destruct (match n with O => _ | _ => _ end); discriminate. Qed.
Lemma bf_val_noof f e : noof (bf_val f e).
Proof. destruct f as [[k|] bl [c|]]; cbn [bf_val]; try discriminate. destruct (lookup k e) as [[| | |]|]; discriminate. Qed.
Lemma enc_bits_noof lay e : forall blob, noof (enc_bits lay e blob).
Proof. induction lay as [|[[f o] m] r IH]; intros blob; cbn [enc_bits]; [discriminate|]. apply bind_noof; [apply bf_val_noof|intros; apply IH]. Qed.
Lemma dec_bits_noof lay blob : forall e, noof (dec_bits lay blob e).
Proof.
  induction lay as [|[[[nm bl fx] o] m] r IH]; intros e; cbn [dec_bits]; [discriminate|].
  destruct nm as [k|]; [|apply IH]. cbv zeta. destruct fx as [c|]; [|apply IH]. destruct (_ =? c); [apply IH|discriminate].
Qed.

Lemma enc_items_noof g vs : (forall d, noof (g d)) -> noof (enc_items g vs).
Proof.
  intros Hg. induction vs as [|v r IH]; cbn [enc_items]; [discriminate|]. destruct v; try discriminate.
  apply bind_noof; [apply wrapE_noof, Hg|]. intros b _. apply bind_noof; [exact IH|]. intros; discriminate.
Qed.

Lemma enc_field_noof rec f e : (forall fs' d, (S (lsize fs') <= fsize f)%nat -> noof (rec fs' d)) -> noof (enc_field rec f e).
Proof.
  intros Hrec. unfold enc_field. apply bind_noof; [apply get_pres_noof|]. intros pr _. destruct pr; cbn [negb]; [|discriminate].
  apply bind_noof.
  - destruct f as [nm l p le sg off mult|nm l p|l p filler|l p lsb bfs|nm l p chk body|nm l p item]; cbn [enc_payload].
    + destruct (lookup nm e) as [[z| | |]|]; try discriminate. destruct (mult =? 0); [discriminate|apply enc_int_noof].
    + destruct (lookup nm e) as [[| | |]|]; discriminate.
    + apply bind_noof; [apply get_len_noof|intros; discriminate].
    + apply bind_noof; [apply enc_bits_noof|intros; apply enc_int_noof].
    + destruct (lookup nm e) as [[| |d|]|]; try discriminate. apply wrapE_noof, Hrec. cbn [fsize]. unfold lsize. lia.
    + destruct (lookup nm e) as [[| | |vs]|]; try discriminate. apply enc_items_noof. intros d. apply Hrec. cbn [fsize]. unfold lsize. lia.
  - intros data _. destruct (fixlen_f f); [discriminate|]. destruct (Nat.eqb _ _); discriminate.
Qed.

(* encoding never runs out of fuel *)
Lemma enc_total : forall fe fs e, (lsize fs < fe)%nat -> noof (enc fe fs e).
Proof.
  induction fe as [|k IH]; intros fs e Hfe; [lia|]. destruct fs as [|f fs']; cbn [enc]; [discriminate|].
  rewrite lsize_cons in Hfe. pose proof (fsize_pos f).
  apply bind_noof; [apply wrapE_noof, enc_field_noof; intros fs2 d H2; apply IH; lia|].
  intros here _. apply bind_noof; [apply IH; lia|intros; discriminate].
Qed.

(* decoding: octets consumed never exceed the buffer *)
Lemma dec_used_le : forall fd fs e data e1 n, dec fd fs e data = Ok (e1, n) -> (n <= length data)%nat.
Proof.
  induction fd as [|k IH]; intros fs e data e1 n H; [discriminate|]. destruct fs as [|f fs'].
  - cbn [dec] in H. injection H as <- <-. lia.
  - apply dec_cons_inv in H as [e' [n1 [n2 [Hf [Ht ->]]]]]. apply IH in Ht. rewrite skipn_length in Ht.
    apply dec_field_inv in Hf as [[_ [_ ->]]|[_ [_ [Hn1 _]]]]; lia.
Qed.

Lemma cons_f_used recd recs f e data e' n1 : cons_f f = true -> dec_field recd recs f e data = Ok (e', n1) -> (1 <= n1)%nat.
Proof.
  intros Hc Hf. apply dec_field_inv in Hf as [[Hp _]|[_ [Hgl _]]].
  - destruct f as [nm l p le sg off mult|nm l p|l p filler|l p lsb bfs|nm l p chk body|nm l p item]; cbn [cons_f fpres] in *;
      destruct p; try discriminate; destruct l as [[|m]| | |]; discriminate.
  - destruct f as [nm l p le sg off mult|nm l p|l p filler|l p lsb bfs|nm l p chk body|nm l p item]; cbn [cons_f get_len_f flen] in *.
    all: try (destruct l as [[|m]| | |]; try discriminate; destruct p; try discriminate; cbn [get_len] in Hgl; injection Hgl as <-; lia).
    destruct p; try discriminate. apply Nat.leb_le in Hc. injection Hgl as <-. exact Hc.
Qed.

Lemma consumes_used : forall fs fd e data e1 n, consumes fs = true -> dec fd fs e data = Ok (e1, n) -> (1 <= n)%nat.
Proof.
  induction fs as [|f fs' IH]; intros fd e data e1 n Hc H; [discriminate|]. destruct fd as [|k]; [discriminate|].
  apply dec_cons_inv in H as [e' [n1 [n2 [Hf [Ht ->]]]]]. unfold consumes in Hc. cbn [existsb] in Hc.
  apply orb_true_iff in Hc as [Hc|Hc].
  - pose proof (cons_f_used _ _ _ _ _ _ _ Hc Hf). lia.
  - pose proof (IH _ _ _ _ _ Hc Ht). lia.
Qed.

Lemma dec_field_noof recd recs f e data : seq_ok_f f = true ->
  (forall body d, seq_ok body = true -> (S (lsize body) <= fsize f)%nat -> (length d <= length data)%nat -> noof (recd body [] d)) ->
  (forall item d, consumes item = true -> seq_ok item = true -> (S (S (lsize item)) <= fsize f)%nat -> (length d <= length data)%nat -> noof (recs item d)) ->
  noof (dec_field recd recs f e data).
Proof.
  intros Hok Hd Hs. unfold dec_field. apply bind_noof; [apply get_pres_noof|]. intros pr _. destruct pr; cbn [negb]; [|discriminate].
  apply bind_noof; [apply get_len_f_noof|]. intros n _. destruct (Nat.ltb (length data) n); [discriminate|].
  apply bind_noof; [|intros; discriminate].
  assert (Hl : (length (firstn n data) <= length data)%nat) by (rewrite firstn_length; lia).
  destruct f as [nm l p le sg off mult|nm l p|l p filler|l p lsb bfs|nm l p chk body|nm l p item]; cbn [dec_payload]; try discriminate.
  - apply dec_bits_noof.
  - cbn [seq_ok_f] in Hok. apply bind_noof.
    + apply wrapD_noof, Hd; [exact Hok|cbn [fsize]; unfold lsize; lia|exact Hl].
    + intros r _. destruct (chk && _); discriminate.
  - cbn [seq_ok_f] in Hok. apply andb_true_iff in Hok as [Hc Hi]. apply bind_noof; [|intros; discriminate].
    apply Hs; [exact Hc|exact Hi|cbn [fsize]; unfold lsize; lia|exact Hl].
Qed.

(* with enough fuel the decoder only reports OutOfFuel for a sequence item that consumed nothing; if every sequence
   item has an always-present fixed-length field that cannot happen *)
Lemma dec_total : forall fd,
  (forall fs e data, seq_ok fs = true -> (lsize fs + length data < fd)%nat -> noof (dec fd fs e data)) /\
  (forall item data, consumes item = true -> seq_ok item = true -> (lsize item + length data + 1 < fd)%nat -> noof (dec_seq fd item data)).
Proof.
  induction fd as [|k [IHd IHs]]; [split; intros; lia|]. split.
  - intros fs e data Hok Hfd. destruct fs as [|f fs']; cbn [dec]; [discriminate|].
    rewrite lsize_cons in Hfd. pose proof (fsize_pos f). unfold seq_ok in Hok. cbn [forallb] in Hok. apply andb_true_iff in Hok as [Hf Hr].
    apply bind_noof.
    + apply dec_field_noof; [exact Hf| |].
      * intros body d Hb Hsz Hl. apply IHd; [exact Hb|lia].
      * intros item d Hc Hi Hsz Hl. apply IHs; [exact Hc|exact Hi|lia].
    + intros [e' n1] Hf1. cbn [fst snd]. apply bind_noof; [|intros; discriminate].
      apply IHd; [exact Hr|]. rewrite skipn_length. lia.
  - intros item data Hc Hok Hfd. cbn [dec_seq]. destruct data as [|x xs]; [discriminate|]. set (data := x :: xs) in *.
    apply bind_noof; [apply wrapD_noof, IHd; [exact Hok|lia]|].
    intros [dcv used] Hr. apply wrapD_ok in Hr. cbn [fst snd]. pose proof (consumes_used _ _ _ _ _ _ Hc Hr) as Hu.
    destruct used as [|m]; [lia|]. apply bind_noof; [|intros; discriminate].
    apply IHs; [exact Hc|exact Hok|]. rewrite skipn_length. subst data. cbn [length] in *. lia.
Qed.

Lemma decode_terminates chk fs data : seq_ok fs = true -> decode chk fs data <> OutOfFuel.
Proof.
  intros Hok. unfold decode. destruct (proto_ok fs); [|discriminate].
  pose proof (proj1 (dec_total (dec_fuel fs data)) fs [] data Hok ltac:(unfold dec_fuel; lia)) as Hn.
  destruct (dec (dec_fuel fs data) fs [] data) as [[v n]| | | |]; cbn [wrapD bind fst snd]; try discriminate; [|contradiction].
  destruct (chk && _); discriminate.
Qed.
Lemma encode_terminates fs e : encode fs e <> OutOfFuel.
Proof.
  unfold encode. destruct (proto_ok fs); [|discriminate].
  pose proof (enc_total (enc_fuel fs) fs e ltac:(unfold enc_fuel; lia)) as Hn.
  destruct (enc (enc_fuel fs) fs e); cbn [wrapE]; try discriminate. contradiction.
Qed.

(* ---------------------------------------------------------------- short input *)
(* Field.from_bytes: "Short read" exactly when the buffer is shorter than the field *)
Lemma short_field recd recs f e data n : get_pres (fpres f) e = Ok true -> get_len_f f e (length data) = Ok n ->
  (length data < n)%nat -> dec_field recd recs f e data = DecodeErr 0.
Proof. intros Hp Hl Hn. unfold dec_field. rewrite Hp. cbn [bind negb]. rewrite Hl. cbn [bind]. apply Nat.ltb_lt in Hn. rewrite Hn. reflexivity. Qed.

Lemma static_f_used recd recs f e data e' n1 a : static_len_f f = Some a -> dec_field recd recs f e data = Ok (e', n1) -> n1 = a.
Proof.
  intros Hs Hf. apply dec_field_inv in Hf as [[Hp _]|[_ [Hgl _]]].
  - destruct f as [nm l p le sg off mult|nm l p|l p filler|l p lsb bfs|nm l p chk body|nm l p item]; cbn [static_len_f fpres] in *;
      destruct p; try discriminate; destruct l as [[|m]| | |]; discriminate.
  - destruct f as [nm l p le sg off mult|nm l p|l p filler|l p lsb bfs|nm l p chk body|nm l p item]; cbn [static_len_f get_len_f flen] in *.
    all: try (destruct l as [[|m]| | |]; try discriminate; destruct p; try discriminate; cbn [get_len] in Hgl; congruence).
Qed.

(* a definition of static size consumes exactly that size whenever it decodes *)
Lemma static_used : forall fs fd e data e1 n a, static_len fs = Some a -> dec fd fs e data = Ok (e1, n) -> n = a.
Proof.
  induction fs as [|f fs' IH]; intros fd e data e1 n a Hs H; destruct fd as [|k]; try discriminate.
  - cbn [dec] in H. cbn [static_len] in Hs. congruence.
  - apply dec_cons_inv in H as [e' [n1 [n2 [Hf [Ht ->]]]]]. cbn [static_len] in Hs.
    destruct (static_len_f f) as [a1|] eqn:E1; [|discriminate]. destruct (static_len fs') as [a2|] eqn:E2; [|discriminate].
    injection Hs as <-. rewrite (static_f_used _ _ _ _ _ _ _ _ E1 Hf). rewrite (IH _ _ _ _ _ _ eq_refl Ht). reflexivity.
Qed.

Lemma short_input chk fs data a : proto_ok fs = true -> seq_ok fs = true -> static_len fs = Some a -> (length data < a)%nat ->
  exists c, decode chk fs data = DecodeErr c.
Proof.
  intros Hpo Hok Hs Hlt. pose proof (decode_closed chk fs data) as Hcl. pose proof (decode_terminates chk fs data Hok) as Hterm.
  destruct (decode chk fs data) as [[v n]|c|c| |c] eqn:E; cbn [dec_result_ok] in Hcl; try contradiction; [|eauto|destruct Hcl; congruence].
  exfalso. unfold decode in E. rewrite Hpo in E. apply bind_ok in E as [[v0 n0] [Hd _]]. apply wrapD_ok in Hd.
  pose proof (static_used _ _ _ _ _ _ _ Hs Hd). pose proof (dec_used_le _ _ _ _ _ _ Hd). lia.
Qed.

(* ---------------------------------------------------------------- trailing octets *)
Lemma trailing fs e cv u b t : fits fs e [] (length t) cv u -> NoDup (keys cv) -> encode fs e = Ok b -> t <> [] ->
  decode true fs (b ++ t) = DecodeErr 0 /\ decode false fs (b ++ t) = Ok (cv, length b).
Proof.
  intros Hfit Hnd Henc Ht. unfold encode in Henc. unfold decode. destruct (proto_ok fs); [|discriminate]. apply wrapE_ok in Henc.
  destruct (proj1 enc_dec_mut _ _ _ _ _ _ Hfit _ _ Henc) as [_ Hd].
  specialize (Hd (fresh_of_nodup _ Hnd) (dec_fuel fs (b ++ t)) t eq_refl ltac:(unfold dec_fuel; lia)). cbn [app] in Hd.
  rewrite Hd. cbn [wrapD bind fst snd andb]. split; [|reflexivity].
  destruct (Nat.eqb_spec (length (b ++ t)) (length b)) as [E|_]; [|reflexivity].
  rewrite app_length in E. destruct t; [contradiction|cbn [length] in E; lia].
Qed.

(* ---------------------------------------------------------------- fixed-value mismatch *)
Lemma dec_bits_result lay blob : forall e, (exists e', dec_bits lay blob e = Ok e') \/ dec_bits lay blob e = DecodeErr 0.
Proof.
  induction lay as [|[[[nm bl fx] o] m] r IH]; intros e; cbn [dec_bits]; [left; eauto|].
  destruct nm as [k|]; [|apply IH]. cbv zeta. destruct fx as [c|]; [|apply IH]. destruct (_ =? c); [apply IH|right; reflexivity].
Qed.

Lemma dec_bits_mismatch lay blob k bl c o m : In (BitF (Some k) bl (Some c), o, m) lay -> Z.land (Z.shiftr blob o) m <> c ->
  forall e, dec_bits lay blob e = DecodeErr 0.
Proof.
  induction lay as [|[[[nm' bl' fx'] o'] m'] r IH]; intros Hin Hne e; [destruct Hin|]. destruct Hin as [E|Hin].
  - injection E as -> -> -> -> ->. cbn [dec_bits]. cbv zeta. destruct (Z.eqb_spec (Z.land (Z.shiftr blob o) m) c); [contradiction|reflexivity].
  - cbn [dec_bits]. destruct nm' as [k'|]; [|apply IH; assumption]. cbv zeta.
    destruct fx' as [c'|]; [|apply IH; assumption]. destruct (_ =? c'); [apply IH; assumption|reflexivity].
Qed.

(* a definition that starts with an always-present bit-field set (the TRXD header with its fixed version field):
   any mismatch of a fixed value is the codec's own DecodeError *)
Lemma fixed_mismatch chk l lsb bfs fs data k bl c o m :
  proto_ok (FBits l PAlways lsb bfs :: fs) = true -> (bits_len l bfs <= length data)%nat ->
  In (BitF (Some k) bl (Some c), o, m) (bits_layout l lsb bfs) ->
  Z.land (Z.shiftr (from_be (firstn (bits_len l bfs) data)) o) m <> c ->
  decode chk (FBits l PAlways lsb bfs :: fs) data = DecodeErr 0.
Proof.
  intros Hpo Hlen Hin Hne. unfold decode. rewrite Hpo. unfold dec_fuel. cbn [dec]. unfold dec_field. cbn [fpres get_pres bind negb get_len_f].
  replace (Nat.ltb (length data) (bits_len l bfs)) with false by (symmetry; apply Nat.ltb_ge; exact Hlen).
  cbn [dec_payload]. rewrite (dec_bits_mismatch _ _ _ _ _ _ _ Hin Hne). reflexivity.
Qed.

(* ---------------------------------------------------------------- unencodable values *)
Definition enc_fails (f:field) (e:env) : Prop := forall rec, exists c, wrapE (enc_field rec f e) = EncodeErr c.

Lemma enc_fails_uint nm n p le sg off mult e z : (1 <= n)%nat -> get_pres p e = Ok true -> lookup nm e = Some (VInt z) -> mult <> 0 ->
  ~ int_range n sg ((z - off) / mult) -> enc_fails (FUint nm (LFix n) p le sg off mult) e.
Proof.
  intros Hn Hp Hl Hm Hr rec. exists 2. unfold enc_field. cbn [fpres]. rewrite Hp. cbn [bind negb enc_payload]. rewrite Hl.
  destruct (Z.eqb_spec mult 0); [contradiction|]. cbn [fixlen]. rewrite (enc_int_overflow _ _ _ _ Hn Hr). reflexivity.
Qed.
Lemma enc_fails_buf nm n p e b : get_pres p e = Ok true -> lookup nm e = Some (VBytes b) -> length b <> S n ->
  enc_fails (FBuf nm (LFix (S n)) p) e.
Proof.
  intros Hp Hl Hn rec. exists 0. unfold enc_field. cbn [fpres]. rewrite Hp. cbn [bind negb enc_payload]. rewrite Hl. cbn [bind fixlen_f flen fixlen].
  destruct (Nat.eqb_spec (length b) (S n)); [contradiction|reflexivity].
Qed.
Lemma enc_fails_missing_uint nm l p le sg off mult e : get_pres p e = Ok true -> lookup nm e = None -> enc_fails (FUint nm l p le sg off mult) e.
Proof. intros Hp Hl rec. exists 1. unfold enc_field. cbn [fpres]. rewrite Hp. cbn [bind negb enc_payload]. rewrite Hl. reflexivity. Qed.
Lemma enc_fails_missing_buf nm l p e : get_pres p e = Ok true -> lookup nm e = None -> enc_fails (FBuf nm l p) e.
Proof. intros Hp Hl rec. exists 1. unfold enc_field. cbn [fpres]. rewrite Hp. cbn [bind negb enc_payload]. rewrite Hl. reflexivity. Qed.

Lemma enc_in_fails : forall fs fe f e, In f fs -> enc_fails f e -> (lsize fs < fe)%nat -> exists c, enc fe fs e = EncodeErr c.
Proof.
  induction fs as [|f0 fs' IH]; intros fe f e Hin Hf Hfe; [destruct Hin|]. destruct fe as [|k]; [lia|].
  rewrite lsize_cons in Hfe. pose proof (fsize_pos f0). cbn [enc].
  assert (Hn : noof (wrapE (enc_field (enc k) f0 e))).
  { apply wrapE_noof, enc_field_noof. intros fs2 d H2. apply enc_total. lia. }
  destruct (wrapE (enc_field (enc k) f0 e)) as [here|c|c| |c] eqn:E.
  - cbn [bind]. destruct Hin as [->|Hin]; [destruct (Hf (enc k)) as [c Hc]; congruence|].
    destruct (IH k f e Hin Hf ltac:(lia)) as [c Hc]. rewrite Hc. cbn [bind]. eauto.
  - destruct (enc_field (enc k) f0 e); discriminate.
  - cbn [bind]. eauto.
  - contradiction.
  - destruct (enc_field (enc k) f0 e); discriminate.
Qed.

Lemma unencodable fs f e : proto_ok fs = true -> In f fs -> enc_fails f e -> exists c, encode fs e = EncodeErr c.
Proof.
  intros Hpo Hin Hf. unfold encode. rewrite Hpo. destruct (enc_in_fails fs (enc_fuel fs) f e Hin Hf ltac:(unfold enc_fuel; lia)) as [c Hc].
  rewrite Hc. cbn [wrapE]. eauto.
Qed.
