(* Lemmas for C11, part 2: the consumers of trxcon's frame lookup in sched_trx.c - l1sched_handle_rx_burst() with the loss
   substitution subst_frame_loss(), l1sched_pull_burst(), l1sched_handle_rx_probe() (Model/Mframe.v: rx_burst, tx_pull, rx_probe).
   Everything rests on the table facts of Proofs/MframeP.v (layout_table / lookup_in_table / mask_covers, themselves finite sweeps
   over the regenerated tables) plus two small sweeps below. *)
From Coq Require Import ZArith List Bool Lia ZifyBool.
From OBB Require Import Base.Range Gen.MframeFw Gen.MframeTrxcon Model.Mframe Proofs.MframeP.
Import ListNotations.
Open Scope Z_scope.
Ltac Zify.zify_post_hook ::= Z.to_euclidean_division_equations.

(* ------------------------------------------------------------------ finite sweeps over the regenerated tables *)

Lemma sweep_hyper : forallb (fun l => chk_hyper l) tx_layouts = true.
Proof. vm_compute. reflexivity. Qed.

Lemma desc_facts : Z.of_nat (length tx_desc) = tx_CHAN_MAX /\ 0 < tx_CHAN_MAX.
Proof. vm_compute. split; reflexivity. Qed.

(* ------------------------------------------------------------------ table accesses made by the three functions stay inside *)

Lemma desc_row_some c : 0 <= c < tx_CHAN_MAX ->
  exists r, desc_row c = Some r /\ nth (Z.to_nat c) tx_desc (-1, -1, 0, 0) = r.
Proof.
  intros Hc. destruct desc_facts as [Hlen _]. unfold desc_row.
  replace ((0 <=? c) && (c <? tx_CHAN_MAX)) with true by (symmetry; apply andb_true_intro; split; [apply Z.leb_le | apply Z.ltb_lt]; lia).
  destruct (nth_error tx_desc (Z.to_nat c)) as [r|] eqn:E.
  - exists r. split; [reflexivity|]. apply nth_error_nth. exact E.
  - exfalso. apply nth_error_None in E. lia.
Qed.

Lemma chan_in_range L fr d : In L tx_layouts -> In fr (ly_frames L) -> 0 <= fr_chan d fr < tx_CHAN_MAX.
Proof.
  intros HL Hfr. destruct desc_facts as [_ Hpos].
  destruct (Z.eq_dec (fr_chan d fr) tx_L1SCHED_IDLE) as [E|N].
  - rewrite E. destruct consts as [_ [_ [_ [_ [_ [_ [HI _]]]]]]]. rewrite HI. lia.
  - destruct (mask_covers L fr d HL Hfr N) as [H _]. exact H.
Qed.

Lemma lookup_ok L fn : In L tx_layouts -> ly_cfg L <> tx_GSM_PCHAN_NONE -> 0 <= fn < 4294967296 ->
  exists fr, trx_frame L fn = FrOk fr /\ trx_frame_rx L fn = FrOk fr /\ In fr (ly_frames L).
Proof.
  intros HL Hc Hfn. destruct (lookup_in_table L fn HL Hc Hfn) as [_ [_ [fr [Hn [H1 H2]]]]].
  exists fr. split; [exact H1|]. split; [exact H2|]. apply (nth_error_In _ _ Hn).
Qed.

Lemma handler_of_row c a b rx tx : desc_row c = Some (a, b, rx, tx) -> 0 <= c < tx_CHAN_MAX ->
  desc_has_handler DL c = negb (rx =? 0) /\ desc_has_handler UL c = negb (tx =? 0).
Proof.
  intros E Hc. destruct (desc_row_some c Hc) as [r [E2 Hn]]. rewrite E in E2. injection E2 as <-.
  unfold desc_has_handler. rewrite Hn. split; reflexivity.
Qed.

(* ------------------------------------------------------------------ GSM_TDMA_FN_INC and the walk of the loss substitution *)

Lemma fn_inc_range f : 0 <= fn_inc f < 2715648.
Proof. unfold fn_inc. apply Z.mod_pos_bound. lia. Qed.

Lemma fn_inc_valid f : 0 <= f < 2715648 -> fn_inc f = (f + 1) mod 2715648.
Proof. intros H. unfold fn_inc, u32. rewrite (Z.mod_small (f + 1) 4294967296) by lia. reflexivity. Qed.

Lemma fn_walk_range n : forall f x, In x (fn_walk n f) -> 0 <= x < 2715648.
Proof.
  induction n as [|n IH]; intros f x H; cbn [fn_walk] in H; [contradiction|].
  destruct H as [<-|H]; [apply fn_inc_range | exact (IH _ _ H)].
Qed.

Lemma fn_walk_length n : forall f, length (fn_walk n f) = n.
Proof. induction n as [|n IH]; intros f; cbn [fn_walk length]; [reflexivity | rewrite IH; reflexivity]. Qed.

(* for a valid frame number the walk is f+1, f+2, ... modulo the hyperframe *)
Lemma fn_walk_nth n : forall f k, 0 <= f < 2715648 -> (k < n)%nat ->
  nth k (fn_walk n f) 0 = (f + 1 + Z.of_nat k) mod 2715648.
Proof.
  induction n as [|n IH]; intros f k Hf Hk; [lia|].
  cbn [fn_walk]. destruct k as [|k]; cbn [nth].
  - rewrite (fn_inc_valid f Hf). f_equal. lia.
  - rewrite (IH (fn_inc f) k (fn_inc_range f) ltac:(lia)). rewrite (fn_inc_valid f Hf).
    rewrite <- Zplus_assoc, Zplus_mod_idemp_l. f_equal. lia.
Qed.

Lemma fn_walk_spec : forall n f, 0 <= f < 2715648 ->
  length (fn_walk n f) = n /\ forall k, (k < n)%nat -> nth k (fn_walk n f) 0 = (f + 1 + Z.of_nat k) mod 2715648.
Proof. intros n f Hf. split; [apply fn_walk_length | intros k Hk; apply fn_walk_nth; assumption]. Qed.

(* elapsed on valid frame numbers: the forward distance modulo the hyperframe, read as negative from half a hyperframe on *)
Lemma rx_elapsed_valid fn lp : 0 <= fn < 2715648 -> 0 <= lp < 2715648 ->
  rx_elapsed fn lp = let e := (fn - lp) mod 2715648 in if e <? 1357824 then e else e - 2715648.
Proof.
  intros Hfn Hlp. unfold rx_elapsed, s32, u32. cbv zeta.
  assert (U : (0 <= fn - lp -> (fn - lp) mod 4294967296 = fn - lp) /\ (fn - lp < 0 -> (fn - lp) mod 4294967296 = fn - lp + 4294967296)).
  { split; intros H; [apply Z.mod_small; lia|]. symmetry. apply (Z.mod_unique_pos _ _ (-1)); lia. }
  assert (M : (0 <= fn - lp -> (fn - lp) mod 2715648 = fn - lp) /\ (fn - lp < 0 -> (fn - lp) mod 2715648 = fn - lp + 2715648)).
  { split; intros H; [apply Z.mod_small; lia|]. symmetry. apply (Z.mod_unique_pos _ _ (-1)); lia. }
  destruct U as [U1 U2]. destruct M as [M1 M2].
  destruct (Z_lt_le_dec (fn - lp) 0) as [Hd|Hd]; [rewrite (U2 Hd), (M2 Hd) | rewrite (U1 Hd), (M1 Hd)]; clear U1 U2 M1 M2.
  - replace (fn - lp + 4294967296 <? 2147483648) with false by (symmetry; apply Z.ltb_ge; lia).
    replace (fn - lp + 4294967296 - 4294967296) with (fn - lp) by lia.
    replace (fn - lp >=? 1357824) with false by (symmetry; rewrite Z.geb_leb; apply Z.leb_gt; lia).
    destruct (fn - lp <? -1357824) eqn:E3; destruct (fn - lp + 2715648 <? 1357824) eqn:E4;
      try apply Z.ltb_lt in E3; try apply Z.ltb_ge in E3; try apply Z.ltb_lt in E4; try apply Z.ltb_ge in E4; lia.
  - replace (fn - lp <? 2147483648) with true by (symmetry; apply Z.ltb_lt; lia).
    destruct (fn - lp >=? 1357824) eqn:E2; destruct (fn - lp <? 1357824) eqn:E4;
      try (rewrite Z.geb_leb in E2); try apply Z.leb_le in E2; try apply Z.leb_gt in E2;
      try apply Z.ltb_lt in E4; try apply Z.ltb_ge in E4; try lia.
    replace (fn - lp <? -1357824) with false by (symmetry; apply Z.ltb_ge; lia). reflexivity.
Qed.

(* the period of every layout with frames divides the hyperframe: rows continue through the wrap 2715647 -> 0 *)
Lemma hyper_rows L x : In L tx_layouts -> ly_cfg L <> tx_GSM_PCHAN_NONE ->
  2715648 mod ly_period L = 0 /\ (x mod 2715648) mod ly_period L = x mod ly_period L.
Proof.
  intros HL Hc. destruct (layout_table L HL Hc) as [Hp _].
  pose proof (forallb_In _ _ sweep_hyper L HL) as H. cbv beta in H. unfold chk_hyper, has_frames_cfg in H.
  destruct (ly_cfg L =? tx_GSM_PCHAN_NONE) eqn:E; [apply Z.eqb_eq in E; contradiction|].
  apply (orb_negb_false _ _ eq_refl) in H. apply Z.eqb_eq in H. split; [exact H|].
  symmetry. apply (mod_cycle x (x mod 2715648) 2715648 (ly_period L) Hp ltac:(lia) H).
  rewrite Z.mod_mod by lia. reflexivity.
Qed.

(* ------------------------------------------------------------------ the loop of subst_frame_loss() *)

Lemma subst_loop_ok L c : In L tx_layouts -> ly_cfg L <> tx_GSM_PCHAN_NONE ->
  forall n f, exists cs, subst_loop L c n f = Some cs.
Proof.
  intros HL Hc. induction n as [|n IH]; intros f; cbn [subst_loop]; [eexists; reflexivity|].
  pose proof (fn_inc_range f) as Hr.
  destruct (lookup_ok L (fn_inc f) HL Hc ltac:(lia)) as [fr [E _]]. rewrite E.
  destruct (IH (fn_inc f)) as [cs Ecs]. rewrite Ecs. eexists; reflexivity.
Qed.

Definition subst_calls (L : layout) (c : Z) (n : nat) (f : Z) : list rxcall :=
  map (fun f' => (c, f', dl_bid_at L f')) (filter (fun f' => trx_owns L DL c f') (fn_walk n f)).

Lemma subst_loop_spec L c : forall n f cs, subst_loop L c n f = Some cs -> cs = subst_calls L c n f.
Proof.
  unfold subst_calls.
  induction n as [|n IH]; intros f cs H; cbn [subst_loop] in H; cbn [fn_walk filter map].
  - injection H as <-. reflexivity.
  - destruct (trx_frame L (fn_inc f)) as [| |fr] eqn:E; try discriminate.
    destruct (subst_loop L c n (fn_inc f)) as [r|] eqn:E2; try discriminate.
    injection H as <-.
    assert (Ho : trx_owns L DL c (fn_inc f) = (fr_chan DL fr =? c)) by (unfold trx_owns; rewrite E; reflexivity).
    assert (Hb : dl_bid_at L (fn_inc f) = fr_bid DL fr) by (unfold dl_bid_at; rewrite E; reflexivity).
    rewrite Ho, (IH _ _ E2).
    destruct (fr_chan DL fr =? c); [cbn [map]; rewrite Hb; reflexivity | reflexivity].
Qed.

Lemma subst_calls_owned L c n f0 : forall c' f b, In (c', f, b) (subst_calls L c n f0) ->
  c' = c /\ 0 <= f < 2715648 /\ In f (fn_walk n f0) /\
  exists fr, trx_frame L f = FrOk fr /\ fr_chan DL fr = c /\ fr_bid DL fr = b.
Proof.
  intros c' f b H. unfold subst_calls in H. apply in_map_iff in H as [f' [E Hin]].
  injection E as <- <- <-. apply filter_In in Hin as [Hw Ho].
  split; [reflexivity|]. split; [exact (fn_walk_range _ _ _ Hw)|]. split; [exact Hw|].
  unfold trx_owns in Ho. unfold dl_bid_at. destruct (trx_frame L f') as [| |fr]; try discriminate.
  exists fr. apply Z.eqb_eq in Ho. auto.
Qed.

(* ------------------------------------------------------------------ l1sched_handle_rx_burst(): normal form without any out-of-table case *)

Definition rx_spec (L : layout) (s : tsst) (fn : Z) (fr : Z*Z*Z*Z) : rxres :=
  let c := fr_chan DL fr in
  let bid := fr_bid DL fr in
  if negb (desc_has_handler DL c) then RxOk (-19) bid [] None s
  else
    match find_st c s with
    | None => RxOk (-19) bid [] None s
    | Some st =>
        if negb (cs_active st) then RxOk 0 bid [] None s
        else if cs_nproc st =? 0 then RxOk 0 bid [] (Some (c, fn, bid)) (set_st c (st_after_direct st fn) s)
        else
          let e := rx_elapsed fn (cs_last st) in
          if e <? 0 then RxOk (-114) bid [] None s
          else if (e >? ly_period L) || (e =? 0) then RxOk 0 bid [] (Some (c, fn, bid)) (set_st c (st_after_direct st fn) s)
          else
            let sub := subst_calls L c (Z.to_nat (e - 1)) (cs_last st) in
            RxOk 0 bid sub (Some (c, fn, bid)) (set_st c (st_after_direct (st_after_subst st sub) fn) s)
    end.

Lemma rx_burst_eq L s fn : In L tx_layouts -> ly_cfg L <> tx_GSM_PCHAN_NONE -> 0 <= fn < 4294967296 ->
  exists fr, trx_frame L fn = FrOk fr /\ In fr (ly_frames L) /\ rx_burst L s fn = rx_spec L s fn fr.
Proof.
  intros HL Hc Hfn. destruct (lookup_ok L fn HL Hc Hfn) as [fr [E1 [E2 Hin]]].
  exists fr. split; [exact E1|]. split; [exact Hin|].
  unfold rx_burst, rx_spec. rewrite E2. cbv zeta.
  pose proof (chan_in_range L fr DL HL Hin) as Hr.
  destruct (desc_row_some _ Hr) as [[[[a b] rx] tx] [ED _]]. rewrite ED.
  destruct (handler_of_row _ _ _ _ _ ED Hr) as [HH _]. rewrite HH. rewrite negb_involutive.
  destruct (rx =? 0); [reflexivity|].
  destruct (find_st (fr_chan DL fr) s) as [st|]; [|reflexivity].
  destruct (negb (cs_active st)); [reflexivity|].
  unfold subst_frame_loss. destruct (cs_nproc st =? 0); [reflexivity|]. cbv zeta.
  destruct (rx_elapsed fn (cs_last st) <? 0); [reflexivity|].
  destruct (rx_elapsed fn (cs_last st) >? ly_period L); [reflexivity|]. rewrite orb_false_l.
  destruct (rx_elapsed fn (cs_last st) =? 0); [reflexivity|].
  destruct (subst_loop_ok L (fr_chan DL fr) HL Hc (Z.to_nat (rx_elapsed fn (cs_last st) - 1)) (cs_last st)) as [cs Ecs].
  rewrite Ecs. rewrite (subst_loop_spec _ _ _ _ _ Ecs). reflexivity.
Qed.

(* (a) no lookup of the downlink path - the direct one or one inside the loss substitution - leaves a table *)
Lemma rx_in_table : forall L s fn, In L tx_layouts -> ly_cfg L <> tx_GSM_PCHAN_NONE -> 0 <= fn < 4294967296 ->
  exists rc bid sub dir s', rx_burst L s fn = RxOk rc bid sub dir s'.
Proof.
  intros L s fn HL Hc Hfn. destruct (rx_burst_eq L s fn HL Hc Hfn) as [fr [_ [_ E]]]. rewrite E. unfold rx_spec. cbv zeta.
  destruct (negb (desc_has_handler DL (fr_chan DL fr))); [do 5 eexists; reflexivity|].
  destruct (find_st (fr_chan DL fr) s) as [st|]; [|do 5 eexists; reflexivity].
  destruct (negb (cs_active st)); [do 5 eexists; reflexivity|].
  destruct (cs_nproc st =? 0); [do 5 eexists; reflexivity|].
  destruct (rx_elapsed fn (cs_last st) <? 0); [do 5 eexists; reflexivity|].
  destruct ((rx_elapsed fn (cs_last st) >? ly_period L) || (rx_elapsed fn (cs_last st) =? 0)); do 5 eexists; reflexivity.
Qed.

(* (b) every handler call - substituted or direct - is for a frame whose row gives that channel, with that row's burst id;
   all calls of one burst go to the channel that owns the burst's own frame *)
Lemma rx_calls_owned : forall L s fn rc bid sub dir s',
  In L tx_layouts -> ly_cfg L <> tx_GSM_PCHAN_NONE -> 0 <= fn < 4294967296 ->
  rx_burst L s fn = RxOk rc bid sub dir s' ->
  exists fr0, trx_frame L fn = FrOk fr0 /\ bid = fr_bid DL fr0 /\
    (dir = None \/ dir = Some (fr_chan DL fr0, fn, fr_bid DL fr0)) /\
    forall c f b, In (c, f, b) (rx_calls sub dir) ->
      c = fr_chan DL fr0 /\ 0 <= f < 4294967296 /\
      exists fr, trx_frame L f = FrOk fr /\ fr_chan DL fr = c /\ fr_bid DL fr = b.
Proof.
  intros L s fn rc bid sub dir s' HL Hc Hfn H.
  destruct (rx_burst_eq L s fn HL Hc Hfn) as [fr [E1 [_ E]]]. rewrite E in H. clear E.
  exists fr. split; [exact E1|].
  assert (Dir : forall c f b, In (c, f, b) (rx_calls [] (Some (fr_chan DL fr, fn, fr_bid DL fr))) ->
                c = fr_chan DL fr /\ 0 <= f < 4294967296 /\ exists fr', trx_frame L f = FrOk fr' /\ fr_chan DL fr' = c /\ fr_bid DL fr' = b).
  { intros c f b Hin. cbn [rx_calls app In] in Hin. destruct Hin as [Hin|[]]. injection Hin as <- <- <-.
    split; [reflexivity|]. split; [exact Hfn|]. exists fr. auto. }
  assert (Nil : forall c f b, In (c, f, b) (rx_calls [] None) -> c = fr_chan DL fr /\ 0 <= f < 4294967296 /\
                exists fr', trx_frame L f = FrOk fr' /\ fr_chan DL fr' = c /\ fr_bid DL fr' = b).
  { intros c f b Hin. cbn [rx_calls app In] in Hin. contradiction. }
  unfold rx_spec in H. cbv zeta in H.
  destruct (negb (desc_has_handler DL (fr_chan DL fr))); [injection H as <- <- <- <- <-; auto|].
  destruct (find_st (fr_chan DL fr) s) as [st|]; [|injection H as <- <- <- <- <-; auto].
  destruct (negb (cs_active st)); [injection H as <- <- <- <- <-; auto|].
  destruct (cs_nproc st =? 0); [injection H as <- <- <- <- <-; auto|].
  destruct (rx_elapsed fn (cs_last st) <? 0); [injection H as <- <- <- <- <-; auto|].
  destruct ((rx_elapsed fn (cs_last st) >? ly_period L) || (rx_elapsed fn (cs_last st) =? 0)); [injection H as <- <- <- <- <-; auto|].
  injection H as <- <- <- <- <-. split; [reflexivity|]. split; [right; reflexivity|].
  intros c f b Hin. unfold rx_calls in Hin. apply in_app_or in Hin as [Hin|Hin].
  - destruct (subst_calls_owned _ _ _ _ _ _ _ Hin) as [-> [Hf [_ Hfr]]]. split; [reflexivity|]. split; [lia | exact Hfr].
  - apply (Dir c f b). cbn [rx_calls app]. exact Hin.
Qed.

(* the complete case analysis of one downlink burst, stated forwards (hypotheses on the state -> the exact result) *)

(* frames without handler (IDLE), without channel state, or of an inactive channel: nothing is called, nothing changes *)
Lemma rx_no_call : forall L s fn fr,
  In L tx_layouts -> ly_cfg L <> tx_GSM_PCHAN_NONE -> 0 <= fn < 4294967296 -> trx_frame L fn = FrOk fr ->
  desc_has_handler DL (fr_chan DL fr) = false \/ st_active s (fr_chan DL fr) = false ->
  exists rc, rx_burst L s fn = RxOk rc (fr_bid DL fr) [] None s /\ (rc = 0 \/ rc = -19).
Proof.
  intros L s fn fr HL Hc Hfn Hfr Hno.
  destruct (rx_burst_eq L s fn HL Hc Hfn) as [fr' [E1 [_ E]]]. rewrite Hfr in E1. injection E1 as <-. rewrite E.
  unfold rx_spec. cbv zeta. unfold st_active in Hno.
  destruct (desc_has_handler DL (fr_chan DL fr)); cbn [negb]; [|eexists; split; [reflexivity | right; reflexivity]].
  destruct Hno as [Hno|Hno]; [discriminate|].
  destruct (find_st (fr_chan DL fr) s) as [st|]; [|eexists; split; [reflexivity | right; reflexivity]].
  rewrite Hno. cbn [negb]. eexists; split; [reflexivity | left; reflexivity].
Qed.

(* an older burst (elapsed < 0) after at least one processed frame is dropped: -EALREADY, no call, no change *)
Lemma rx_dropped : forall L s fn fr st,
  In L tx_layouts -> ly_cfg L <> tx_GSM_PCHAN_NONE -> 0 <= fn < 4294967296 -> trx_frame L fn = FrOk fr ->
  desc_has_handler DL (fr_chan DL fr) = true -> find_st (fr_chan DL fr) s = Some st -> cs_active st = true ->
  cs_nproc st <> 0 -> rx_elapsed fn (cs_last st) < 0 ->
  rx_burst L s fn = RxOk (-114) (fr_bid DL fr) [] None s.
Proof.
  intros L s fn fr st HL Hc Hfn Hfr Hh Hst Ha Hn He.
  destruct (rx_burst_eq L s fn HL Hc Hfn) as [fr' [E1 [_ E]]]. rewrite Hfr in E1. injection E1 as <-. rewrite E.
  unfold rx_spec. cbv zeta. rewrite Hh, Hst, Ha. cbn [negb].
  replace (cs_nproc st =? 0) with false by (symmetry; apply Z.eqb_neq; exact Hn).
  replace (rx_elapsed fn (cs_last st) <? 0) with true by (symmetry; apply Z.ltb_lt; exact He). reflexivity.
Qed.

(* first burst of a channel, a repeated frame, or more than one period since the last processed frame: the burst itself only *)
Lemma rx_direct_only : forall L s fn fr st,
  In L tx_layouts -> ly_cfg L <> tx_GSM_PCHAN_NONE -> 0 <= fn < 4294967296 -> trx_frame L fn = FrOk fr ->
  desc_has_handler DL (fr_chan DL fr) = true -> find_st (fr_chan DL fr) s = Some st -> cs_active st = true ->
  cs_nproc st = 0 \/ rx_elapsed fn (cs_last st) = 0 \/ rx_elapsed fn (cs_last st) > ly_period L ->
  rx_burst L s fn = RxOk 0 (fr_bid DL fr) [] (Some (fr_chan DL fr, fn, fr_bid DL fr))
                         (set_st (fr_chan DL fr) (st_after_direct st fn) s).
Proof.
  intros L s fn fr st HL Hc Hfn Hfr Hh Hst Ha Hcase.
  destruct (rx_burst_eq L s fn HL Hc Hfn) as [fr' [E1 [_ E]]]. rewrite Hfr in E1. injection E1 as <-. rewrite E.
  destruct (layout_table L HL Hc) as [Hp _].
  unfold rx_spec. cbv zeta. rewrite Hh, Hst, Ha. cbn [negb].
  destruct (cs_nproc st =? 0) eqn:En; [reflexivity|]. apply Z.eqb_neq in En.
  destruct Hcase as [H0|Hcase]; [contradiction|].
  replace (rx_elapsed fn (cs_last st) <? 0) with false by (symmetry; apply Z.ltb_ge; lia).
  replace ((rx_elapsed fn (cs_last st) >? ly_period L) || (rx_elapsed fn (cs_last st) =? 0)) with true; [reflexivity|].
  symmetry. apply orb_true_iff. destruct Hcase as [H|H]; [right; apply Z.eqb_eq; exact H | left; apply Z.gtb_lt; lia].
Qed.

(* 1 .. period frames since the last processed one: the handler gets a dummy burst for exactly the frames of the walk
   last_proc+1 .. fn-1 that the layout gives to the channel, in order, each with the burst id of its row, then the burst itself *)
Lemma rx_substitutes : forall L s fn fr st,
  In L tx_layouts -> ly_cfg L <> tx_GSM_PCHAN_NONE -> 0 <= fn < 4294967296 -> trx_frame L fn = FrOk fr ->
  desc_has_handler DL (fr_chan DL fr) = true -> find_st (fr_chan DL fr) s = Some st -> cs_active st = true ->
  cs_nproc st <> 0 -> 0 < rx_elapsed fn (cs_last st) <= ly_period L ->
  let c := fr_chan DL fr in
  let sub := map (fun f => (c, f, dl_bid_at L f))
                 (filter (fun f => trx_owns L DL c f) (fn_walk (Z.to_nat (rx_elapsed fn (cs_last st) - 1)) (cs_last st))) in
  rx_burst L s fn = RxOk 0 (fr_bid DL fr) sub (Some (c, fn, fr_bid DL fr))
                         (set_st c (st_after_direct (st_after_subst st sub) fn) s).
Proof.
  intros L s fn fr st HL Hc Hfn Hfr Hh Hst Ha Hn He c sub. subst sub c.
  destruct (rx_burst_eq L s fn HL Hc Hfn) as [fr' [E1 [_ E]]]. rewrite Hfr in E1. injection E1 as <-. rewrite E.
  unfold rx_spec, subst_calls. cbv zeta. rewrite Hh, Hst, Ha. cbn [negb].
  replace (cs_nproc st =? 0) with false by (symmetry; apply Z.eqb_neq; exact Hn).
  replace (rx_elapsed fn (cs_last st) <? 0) with false by (symmetry; apply Z.ltb_ge; lia).
  replace (rx_elapsed fn (cs_last st) >? ly_period L) with false by (symmetry; rewrite Z.gtb_ltb; apply Z.ltb_ge; lia).
  replace (rx_elapsed fn (cs_last st) =? 0) with false by (symmetry; apply Z.eqb_neq; lia).
  cbn [orb]. reflexivity.
Qed.

(* ------------------------------------------------------------------ l1sched_pull_burst() *)

Lemma tx_pull_spec : forall L s fn, In L tx_layouts -> ly_cfg L <> tx_GSM_PCHAN_NONE -> 0 <= fn < 4294967296 ->
  exists fr, trx_frame L fn = FrOk fr /\
    tx_pull L s fn = TxOk (fr_bid UL fr)
                          (if desc_has_handler UL (fr_chan UL fr) && st_active s (fr_chan UL fr) then [fr_chan UL fr] else []).
Proof.
  intros L s fn HL Hc Hfn. destruct (lookup_ok L fn HL Hc Hfn) as [fr [E1 [_ Hin]]].
  exists fr. split; [exact E1|]. unfold tx_pull. rewrite E1. cbv zeta.
  pose proof (chan_in_range L fr UL HL Hin) as Hr.
  destruct (desc_row_some _ Hr) as [[[[a b] rx] tx] [ED _]]. rewrite ED.
  destruct (handler_of_row _ _ _ _ _ ED Hr) as [_ HH]. rewrite HH. reflexivity.
Qed.

(* ------------------------------------------------------------------ l1sched_handle_rx_probe() *)

Lemma rx_probe_spec : forall L s fn fl, In L tx_layouts -> ly_cfg L <> tx_GSM_PCHAN_NONE -> 0 <= fn < 4294967296 ->
  exists fr, trx_frame L fn = FrOk fr /\
    rx_probe L s fn fl =
      match (if desc_has_handler DL (fr_chan DL fr) then find_st (fr_chan DL fr) s else None) with
      | Some st => PrOk 0 (if cs_active st then Z.lor fl 1 else fl)
      | None => PrOk (-19) fl
      end.
Proof.
  intros L s fn fl HL Hc Hfn. destruct (lookup_ok L fn HL Hc Hfn) as [fr [E1 [_ Hin]]].
  exists fr. split; [exact E1|]. unfold rx_probe. rewrite E1. cbv zeta.
  pose proof (chan_in_range L fr DL HL Hin) as Hr.
  destruct (desc_row_some _ Hr) as [[[[a b] rx] tx] [ED _]]. rewrite ED.
  destruct (handler_of_row _ _ _ _ _ ED Hr) as [HH _]. rewrite HH.
  destruct (rx =? 0); cbn [negb]; [reflexivity|].
  destruct (find_st (fr_chan DL fr) s); reflexivity.
Qed.

(* both depend on the frame number through fn mod period only (what lets the correspondence run over one period per layout) *)
Lemma tx_probe_periodic : forall L s fl x y, 0 < ly_period L -> 0 <= x < 4294967296 -> 0 <= y < 4294967296 ->
  x mod ly_period L = y mod ly_period L -> tx_pull L s x = tx_pull L s y /\ rx_probe L s x fl = rx_probe L s y fl.
Proof.
  intros L s fl x y Hp Hx Hy Hxy.
  assert (E : trx_frame L x = trx_frame L y).
  { apply (trx_frame_cycle L (ly_period L) Hp Hp (Z_mod_same_full _) x y Hx Hy Hxy). }
  unfold tx_pull, rx_probe. rewrite E. split; reflexivity.
Qed.

(* ------------------------------------------------------------------ non-vacuity: CCCH on the non-combined layout (51 frames), last processed
   frame 2715643 (row 46), next burst in frame 7 of the next hyperframe: 12 frames elapsed, the walk crosses the period boundary and the
   hyperframe wrap; the channel owns 2715644..2715646 (rows 47..49) and 6 (row 6) of the 11 frames in between *)
Example ex_ccch_loss_across_wrap :
  match nth_error tx_layouts 1 with
  | Some L =>
      ly_cfg L = tx_GSM_PCHAN_CCCH /\ rx_elapsed 7 2715643 = 12 /\
      rx_burst L [(tx_L1SCHED_CCCH, mkst true 1 0 2715643)] 7 =
        RxOk 0 1 [(5, 2715644, 1); (5, 2715645, 2); (5, 2715646, 3); (5, 6, 0)] (Some (5, 7, 1)) [(5, mkst true 6 4 7)] /\
      tx_pull L [(tx_L1SCHED_RACH, mkst true 0 0 0)] 2715647 = TxOk 0 [4] /\
      rx_probe L [(tx_L1SCHED_CCCH, mkst true 0 0 0)] 2715646 0 = PrOk 0 1 /\ rx_probe L [] 2715646 0 = PrOk (-19) 0
  | None => False
  end.
Proof. vm_compute. repeat split; reflexivity. Qed.

(* ------------------------------------------------------------------ the main case read on valid frame numbers *)

Lemma range_length a b : length (range a b) = Z.to_nat (b - a).
Proof. unfold range. rewrite map_length, seq_length. reflexivity. Qed.

Lemma range_nth a b k : (k < Z.to_nat (b - a))%nat -> nth k (range a b) 0 = a + Z.of_nat k.
Proof.
  intros Hk. unfold range.
  pose proof (map_nth (fun i => a + Z.of_nat i) (seq 0 (Z.to_nat (b - a))) 0%nat k) as M. cbv beta in M.
  rewrite (nth_indep _ 0 (a + Z.of_nat 0)) by (rewrite map_length, seq_length; exact Hk).
  rewrite M. rewrite seq_nth by exact Hk. reflexivity.
Qed.

Lemma fn_walk_between n f : 0 <= f < 2715648 ->
  fn_walk n f = map (fun k => (f + k) mod 2715648) (range 1 (1 + Z.of_nat n)).
Proof.
  intros Hf. apply (nth_ext _ _ 0 0).
  - rewrite fn_walk_length, map_length, range_length. lia.
  - intros k Hk. rewrite fn_walk_length in Hk. rewrite (fn_walk_nth n f k Hf Hk).
    pose proof (map_nth (fun k => (f + k) mod 2715648) (range 1 (1 + Z.of_nat n)) 0 k) as M. cbv beta in M.
    rewrite (nth_indep _ 0 ((f + 0) mod 2715648)) by (rewrite map_length, range_length; lia).
    rewrite M. rewrite range_nth by lia. f_equal. lia.
Qed.

(* both frame numbers inside the hyperframe, d = (fn - last_proc) mod 2715648 with 0 < d <= period: the handler gets a dummy burst for
   exactly those of the frames last_proc + 1, .., last_proc + d - 1 (mod 2715648; last_proc + d = fn) that the layout gives to the channel *)
Lemma rx_substitutes_between : forall L s fn fr st,
  In L tx_layouts -> ly_cfg L <> tx_GSM_PCHAN_NONE -> 0 <= fn < 2715648 -> trx_frame L fn = FrOk fr ->
  desc_has_handler DL (fr_chan DL fr) = true -> find_st (fr_chan DL fr) s = Some st -> cs_active st = true ->
  cs_nproc st <> 0 -> 0 <= cs_last st < 2715648 ->
  let d := (fn - cs_last st) mod 2715648 in
  0 < d <= ly_period L ->
  let c := fr_chan DL fr in
  let sub := map (fun f => (c, f, dl_bid_at L f))
                 (filter (fun f => trx_owns L DL c f) (map (fun k => (cs_last st + k) mod 2715648) (range 1 d))) in
  rx_burst L s fn = RxOk 0 (fr_bid DL fr) sub (Some (c, fn, fr_bid DL fr))
                         (set_st c (st_after_direct (st_after_subst st sub) fn) s).
Proof.
  intros L s fn fr st HL Hc Hfn Hfr Hh Hst Ha Hn Hl d Hd c sub. subst sub c.
  destruct (layout_table L HL Hc) as [_ [_ [H8 _]]].
  assert (He : rx_elapsed fn (cs_last st) = d).
  { rewrite (rx_elapsed_valid fn (cs_last st) Hfn Hl). cbv zeta. fold d.
    replace (d <? 1357824) with true by (symmetry; apply Z.ltb_lt; lia). reflexivity. }
  pose proof (rx_substitutes L s fn fr st HL Hc ltac:(lia) Hfr Hh Hst Ha Hn ltac:(rewrite He; exact Hd)) as H.
  cbv zeta in H. rewrite He in H. rewrite (fn_walk_between _ _ Hl) in H.
  replace (1 + Z.of_nat (Z.to_nat (d - 1))) with d in H by lia. exact H.
Qed.
