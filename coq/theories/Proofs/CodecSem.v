(* C16/C17: what `fits` says about individual fields of the (decoded) message: which names can occur, and the length
   of a present buffer. *)
From Coq Require Import ZArith List Bool Lia.
From OBB Require Import Base.Bits Model.Codec Proofs.CodecInt Proofs.CodecBits Proofs.CodecRT Proofs.CodecDE.
Import ListNotations.
Open Scope Z_scope.

Lemma bits_fit_keys fs e cv : bits_fit fs e cv -> forall k, In k (keys cv) -> In k (bf_names fs).
Proof.
  induction 1 as [e|bl fx r e cv Hr IH|k0 bl z r e cv Hl Hr IH|k0 bl c r e cv Hc Hr IH]; intros k Hin.
  - destruct Hin.
  - rewrite bf_names_cons. cbn [app]. auto.
  - rewrite bf_names_cons. cbn [keys map fst In app] in *. destruct Hin as [<-|Hin]; [left; reflexivity|right; auto].
  - rewrite bf_names_cons. cbn [keys map fst In app] in *. destruct Hin as [<-|Hin]; [left; reflexivity|right; auto].
Qed.

(* every name of the decoded dict is bound by a field of the definition that is present *)
Lemma fits_keys fs e e0 R cv u : fits fs e e0 R cv u ->
  forall k, In k (keys cv) -> exists f, In f fs /\ In k (fnames f) /\ get_pres (fpres f) e = Ok true.
Proof.
  induction 1 using fits_min with (P0 := fun _ _ _ _ => True); try (intros; exact I); intros k Hin.
  - destruct Hin.
  - match goal with IH : _ |- _ => destruct (IH k Hin) as [g [Hg1 Hg2]] end. exists g. split; [right; exact Hg1|exact Hg2].
  - cbn [keys map fst In] in Hin. destruct Hin as [<-|Hin].
    + eexists. split; [left; reflexivity|]. split; [left; reflexivity|assumption].
    + match goal with IH : _ |- _ => destruct (IH k Hin) as [g [Hg1 Hg2]] end. exists g. split; [right; exact Hg1|exact Hg2].
  - cbn [keys map fst In] in Hin. destruct Hin as [<-|Hin].
    + eexists. split; [left; reflexivity|]. split; [left; reflexivity|assumption].
    + match goal with IH : _ |- _ => destruct (IH k Hin) as [g [Hg1 Hg2]] end. exists g. split; [right; exact Hg1|exact Hg2].
  - match goal with IH : _ |- _ => destruct (IH k Hin) as [g [Hg1 Hg2]] end. exists g. split; [right; exact Hg1|exact Hg2].
  - rewrite keys_app in Hin. apply in_app_or in Hin as [Hin|Hin].
    + eexists. split; [left; reflexivity|]. split; [|assumption]. cbn [fnames].
      apply (bf_names_order_in lsb bfs k). eapply bits_fit_keys; eassumption.
    + match goal with IH : _ |- _ => destruct (IH k Hin) as [g [Hg1 Hg2]] end. exists g. split; [right; exact Hg1|exact Hg2].
  - cbn [keys map fst In] in Hin. destruct Hin as [<-|Hin].
    + eexists. split; [left; reflexivity|]. split; [left; reflexivity|assumption].
    + match goal with IH : _ |- _ => destruct (IH k Hin) as [g [Hg1 Hg2]] end. exists g. split; [right; exact Hg1|exact Hg2].
  - cbn [keys map fst In] in Hin. destruct Hin as [<-|Hin].
    + eexists. split; [left; reflexivity|]. split; [left; reflexivity|assumption].
    + match goal with IH : _ |- _ => destruct (IH k Hin) as [g [Hg1 Hg2]] end. exists g. split; [right; exact Hg1|exact Hg2].
Qed.

(* a present buffer: its value, and the length the decoder computed from the dict it had built up to that field *)
Lemma fits_buf_in fs e e0 R cv u : fits fs e e0 R cv u ->
  forall nm l p, In (FBuf nm l p) fs -> get_pres p e = Ok true ->
  exists bb pre post L, lookup nm e = Some (VBytes bb) /\ cv = pre ++ post /\ get_len l (e0 ++ pre) L = Ok (length bb).
Proof.
  induction 1 using fits_min with (P0 := fun _ _ _ _ => True); try (intros; exact I); intros nm' l' p' Hin Hp'.
  - destruct Hin.
  - destruct Hin as [->|Hin]; [cbn [fpres] in *; congruence|]. match goal with IH : forall (nm0:nat) (l0:lensrc) (p0:pressrc), In (FBuf nm0 l0 p0) _ -> _ |- _ => exact (IH _ _ _ Hin Hp') end.
  - destruct Hin as [E|Hin]; [discriminate|]. match goal with IH : forall (nm0:nat) (l0:lensrc) (p0:pressrc), In (FBuf nm0 l0 p0) _ -> _ |- _ => destruct (IH _ _ _ Hin Hp') as [bb [pre [post [L [Hx1 [Hx2 Hx3]]]]]] end.
    exists bb, ((nm, VInt (raw * mult + off)) :: pre), post, L. split; [exact Hx1|]. split; [rewrite Hx2; reflexivity|].
    rewrite <- app_assoc in Hx3. exact Hx3.
  - destruct Hin as [E|Hin].
    + injection E as -> -> ->. exists b, [], ((nm', VBytes b) :: cv), (length b + u + R)%nat.
      split; [assumption|]. split; [reflexivity|]. rewrite app_nil_r. assumption.
    + match goal with IH : forall (nm0:nat) (l0:lensrc) (p0:pressrc), In (FBuf nm0 l0 p0) _ -> _ |- _ => destruct (IH _ _ _ Hin Hp') as [bb [pre [post [L [Hx1 [Hx2 Hx3]]]]]] end.
      exists bb, ((nm, VBytes b) :: pre), post, L. split; [exact Hx1|]. split; [rewrite Hx2; reflexivity|].
      rewrite <- app_assoc in Hx3. exact Hx3.
  - destruct Hin as [E|Hin]; [discriminate|]. match goal with IH : forall (nm0:nat) (l0:lensrc) (p0:pressrc), In (FBuf nm0 l0 p0) _ -> _ |- _ => exact (IH _ _ _ Hin Hp') end.
  - destruct Hin as [E|Hin]; [discriminate|]. match goal with IH : forall (nm0:nat) (l0:lensrc) (p0:pressrc), In (FBuf nm0 l0 p0) _ -> _ |- _ => destruct (IH _ _ _ Hin Hp') as [bb [pre [post [L [Hx1 [Hx2 Hx3]]]]]] end.
    exists bb, (bcv ++ pre), post, L. split; [exact Hx1|]. split; [rewrite Hx2, app_assoc; reflexivity|].
    rewrite <- app_assoc in Hx3. exact Hx3.
  - destruct Hin as [E|Hin]; [discriminate|]. match goal with IH : forall (nm0:nat) (l0:lensrc) (p0:pressrc), In (FBuf nm0 l0 p0) _ -> _ |- _ => destruct (IH _ _ _ Hin Hp') as [bb [pre [post [L [Hx1 [Hx2 Hx3]]]]]] end.
    exists bb, ((nm, VDict dcv) :: pre), post, L. split; [exact Hx1|]. split; [rewrite Hx2; reflexivity|].
    rewrite <- app_assoc in Hx3. exact Hx3.
  - destruct Hin as [E|Hin]; [discriminate|]. match goal with IH : forall (nm0:nat) (l0:lensrc) (p0:pressrc), In (FBuf nm0 l0 p0) _ -> _ |- _ => destruct (IH _ _ _ Hin Hp') as [bb [pre [post [L [Hx1 [Hx2 Hx3]]]]]] end.
    exists bb, ((nm, VList vcs) :: pre), post, L. split; [exact Hx1|]. split; [rewrite Hx2; reflexivity|].
    rewrite <- app_assoc in Hx3. exact Hx3.
Qed.

Lemma tab_len_inv k tab e L n : get_len (LTab k tab) e L = Ok n -> exists z, lookup k e = Some (VInt z) /\ assocZ z tab = Some n.
Proof.
  cbn [get_len]. unfold tab_get. destruct (lookup k e) as [[z| | |]|]; try discriminate.
  destruct (assocZ z tab) as [a|] eqn:E; [|discriminate]. intros H. injection H as <-. eauto.
Qed.
