(* Lemmas about Model/MobAllocSi4.v (C20): the callers of gsm48_decode_mobile_alloc. *)
From Coq Require Import ZArith List Bool Lia ZifyBool.
From OBB Require Import Base.Range Gen.MobAllocConst Gen.MobAllocSi4Const Model.MobAlloc Model.MobAllocSi4 Proofs.MobAllocP.
Import ListNotations.
Open Scope Z_scope.
Ltac Zify.zify_post_hook ::= Z.to_euclidean_division_equations.

Lemma si4_constants : c_EIO = 5 /\ c_IE_CBCH_CHAN_DESC = 100 /\ c_IE_CBCH_MOB_AL = 114 /\ c_SI4_HDR_SIZE = 13 /\
                      c_CHAN_DESC_SIZE = 3 /\ c_MOB_ALLOC_LV_SIZE = 9 /\ c_CAUSE_NO_CELL_ALLOC_A = 101.
Proof. repeat split; reflexivity. Qed.

(* ------------------------------------------------------------------ checked reads on composed lists *)
Lemma rd_app_l l x k : 0 <= k < Zlength l -> rd (l ++ x) k = rd l k.
Proof. intros H. unfold rd. replace (k <? 0) with false by lia. apply nth_error_app1. rewrite Zlength_correct in H. lia. Qed.

Lemma rd_app_r l x k : 0 <= k -> rd (l ++ x) (Zlength l + k) = rd x k.
Proof. intros H. unfold rd. pose proof (Zlength_nonneg l). replace (Zlength l + k <? 0) with false by lia. replace (k <? 0) with false by lia.
  rewrite nth_error_app2 by (rewrite Zlength_correct; lia). f_equal. rewrite Zlength_correct. lia. Qed.

Lemma rd_app_r0 l x : rd (l ++ x) (Zlength l) = rd x 0.
Proof. rewrite <- (rd_app_r l x 0) by lia. f_equal. lia. Qed.

Lemma skipn_app_plus {A : Type} (l x : list A) n : skipn (length l + n) (l ++ x) = skipn n x.
Proof. induction l as [|a l IH]; [reflexivity|exact IH]. Qed.

Lemma Zlength_skipn (l : list Z) n : 0 <= n -> Zlength (skipn (Z.to_nat n) l) = Z.max 0 (Zlength l - n).
Proof. intros H. rewrite !Zlength_correct, skipn_length. lia. Qed.

Lemma octets_zn d k : octets d -> 0 <= k < Zlength d -> 0 <= zn d k < 256.
Proof. intros H Hk. unfold octets in H. rewrite Forall_forall in H. apply H, zn_In, Hk. Qed.

Lemma list_eq_zn (a b : list Z) : Zlength a = Zlength b -> (forall k, 0 <= k -> zn a k = zn b k) -> a = b.
Proof. intros Hl Hk. rewrite !Zlength_correct in Hl. apply (nth_ext _ _ 0 0); [lia|]. intros n _.
  specialize (Hk (Z.of_nat n) ltac:(lia)). unfold zn in Hk. rewrite Nat2Z.id in Hk. exact Hk. Qed.

(* ------------------------------------------------------------------ the decoder reads ma[0 .. len-1] only *)
Lemma pick_ext ma ma' len fcap f j si4 : (forall k, 0 <= k < len -> rd ma k = rd ma' k) ->
  forall is s, Forall (fun i => 0 <= i < 8 * len) is -> pick ma len fcap f j si4 is s = pick ma' len fcap f j si4 is s.
Proof. intros Hx. induction is as [|i r IH]; intros s His; [reflexivity|].
  apply Forall_cons_iff in His as [Hi Hr]. cbn [pick].
  rewrite (Hx (len - 1 - Z.shiftr i 3)) by (rewrite Z.shiftr_div_pow2 by lia; change (2 ^ 3) with 8; lia).
  destruct (rd ma' (len - 1 - Z.shiftr i 3)) as [b|]; [|reflexivity].
  destruct (negb (Z.land b (Z.shiftl 1 (Z.land i 7)) =? 0)); [|apply IH, Hr].
  destruct (fcap <=? i); [reflexivity|]. destruct (j <=? i); [reflexivity|].
  destruct (rd f i) as [a|]; [|reflexivity]. destruct (wr (s_hop s) (s_hlen s) a) as [hop'|]; [|reflexivity].
  destruct si4; [|apply IH, Hr]. destruct (rd (s_freq s) a) as [m|]; [|reflexivity].
  destruct (wr (s_freq s) a (set_hopp m)) as [fr'|]; [|reflexivity]. apply IH, Hr. Qed.

Lemma decode_ext freq ma ma' len hop hl si4 : 0 <= len -> (forall k, 0 <= k < len -> rd ma k = rd ma' k) ->
  decode freq ma len hop hl si4 = decode freq ma' len hop hl si4.
Proof. intros Hl Hx. unfold decode. rewrite shiftl3. cbv zeta. destruct (8 <? len); [reflexivity|].
  destruct (negb (si4 =? 0) && (Zlength freq <? 1024)); [reflexivity|]. destruct (len =? 0); [reflexivity|].
  destruct (Zlength freq <? 1024); [reflexivity|].
  destruct (gen_f c_F_CAPACITY (8 * len) (visit (if negb (si4 =? 0) then tabula_rasa freq else freq)) [] 0) as [[f j]|]; [|reflexivity].
  rewrite (pick_ext ma ma'); [reflexivity|exact Hx|]. apply Forall_forall. intros i Hi. apply range_in in Hi. lia. Qed.

(* ------------------------------------------------------------------ the channel description bit-fields *)
(* single-octet identities (256 cases each) and the two compositions over their small domains: shifts and masks = div / mod *)
Lemma b2_sweep : forallb (fun b2 => (Z.land (Z.shiftr b2 4) 1 =? (b2 / 16) mod 2) && (Z.land (Z.shiftr b2 5) 7 =? b2 / 32) &&
                                    (Z.land b2 15 =? b2 mod 16) && (Z.land b2 3 =? b2 mod 4)) (range 0 256) = true.
Proof. vm_compute. reflexivity. Qed.
Lemma b3_sweep : forallb (fun b3 => (Z.land b3 63 =? b3 mod 64) && (Z.land (Z.shiftr b3 6) 3 =? b3 / 64)) (range 0 256) = true.
Proof. vm_compute. reflexivity. Qed.
Lemma maio_sweep : forallb (fun x => forallb (fun y => u8 (Z.lor y (Z.shiftl x 2)) =? 4 * x + y) (range 0 4)) (range 0 16) = true.
Proof. vm_compute. reflexivity. Qed.
Lemma arfcn_sweep : forallb (fun hi => forallb (fun b3 => Z.lor b3 (Z.shiftl hi 8) =? 256 * hi + b3) (range 0 256)) (range 0 4) = true.
Proof. vm_compute. reflexivity. Qed.

Lemma chan_desc_ok a b2 b3 rest c : 0 <= b2 < 256 -> 0 <= b3 < 256 ->
  chan_desc (100 :: a :: b2 :: b3 :: rest) 0 c = Some (cd_fields [100; a; b2; b3] c).
Proof. intros H2 H3. unfold chan_desc.
  change (rd (100 :: a :: b2 :: b3 :: rest) (0 + 1)) with (Some a).
  change (rd (100 :: a :: b2 :: b3 :: rest) (0 + 2)) with (Some b2).
  change (rd (100 :: a :: b2 :: b3 :: rest) (0 + 3)) with (Some b3). cbv iota beta zeta.
  pose proof (forallb_range _ _ _ b2_sweep b2 H2) as S2. cbv beta in S2.
  pose proof (forallb_range _ _ _ b3_sweep b3 H3) as S3. cbv beta in S3.
  assert (E1 : Z.land (Z.shiftr b2 4) 1 = (b2 / 16) mod 2) by lia.
  assert (E2 : Z.land (Z.shiftr b2 5) 7 = b2 / 32) by lia.
  assert (E3 : Z.land b2 15 = b2 mod 16) by lia.
  assert (E4 : Z.land b2 3 = b2 mod 4) by lia.
  assert (E5 : Z.land b3 63 = b3 mod 64) by lia.
  assert (E6 : Z.land (Z.shiftr b3 6) 3 = b3 / 64) by lia.
  rewrite E1, E2, E3, E4, E5, E6. clear S2 S3 E1 E2 E3 E4 E5 E6.
  pose proof (forallb_range _ _ _ maio_sweep (b2 mod 16) ltac:(lia)) as M1. cbv beta in M1.
  pose proof (forallb_range _ _ _ M1 (b3 / 64) ltac:(lia)) as M. cbv beta in M. clear M1.
  pose proof (forallb_range _ _ _ arfcn_sweep (b2 mod 4) ltac:(lia)) as A1. cbv beta in A1.
  pose proof (forallb_range _ _ _ A1 b3 H3) as A. cbv beta in A. clear A1.
  assert (E7 : u8 (Z.lor (b3 / 64) (Z.shiftl (b2 mod 16) 2)) = 4 * (b2 mod 16) + b3 / 64) by lia.
  assert (E8 : Z.lor b3 (Z.shiftl (b2 mod 4) 8) = 256 * (b2 mod 4) + b3) by lia.
  rewrite E7, E8. clear M A E7 E8. unfold cd_fields.
  destruct ((b2 / 16) mod 2 =? 1) eqn:E.
  - replace ((b2 / 16) mod 2 =? 0) with false by lia. cbn [negb]. f_equal. f_equal. lia.
  - replace ((b2 / 16) mod 2 =? 0) with true by lia. cbn [negb]. f_equal. f_equal. lia. Qed.

(* ------------------------------------------------------------------ si4_tail = channel description step, then ma_part *)
Lemma si4_tail_pre pre rest si1 s c : cd_ie pre -> octets pre -> (pre = [] -> hd 0 rest <> 100) ->
  si4_tail (pre ++ rest) si1 s c = ma_part (pre ++ rest) si1 s (cd_fields pre c) (Zlength pre) (Zlength rest).
Proof. intros [->|(a & b2 & b3 & ->)] Ho Hh.
  - cbn [app cd_fields]. unfold si4_tail. cbv zeta. rewrite Zlength_nil. destruct rest as [|t r].
    + reflexivity.
    + rewrite Zlength_cons. pose proof (Zlength_nonneg r). replace (1 <=? Z.succ (Zlength r)) with true by lia.
      change (rd (t :: r) 0) with (Some t). cbv iota. cbn [hd] in Hh. specialize (Hh eq_refl).
      replace (t =? c_IE_CBCH_CHAN_DESC) with false by (unfold c_IE_CBCH_CHAN_DESC; lia). reflexivity.
  - cbn [app]. unfold octets in Ho. apply Forall_cons_iff in Ho as [_ Ho]. apply Forall_cons_iff in Ho as [Ha Ho].
    apply Forall_cons_iff in Ho as [H2 Ho]. apply Forall_cons_iff in Ho as [H3 _].
    assert (HL : Zlength (100 :: a :: b2 :: b3 :: rest) = 4 + Zlength rest) by (rewrite !Zlength_cons; lia).
    pose proof (Zlength_nonneg rest) as Hr.
    unfold si4_tail. cbv zeta. rewrite HL. replace (1 <=? 4 + Zlength rest) with true by lia.
    change (rd (100 :: a :: b2 :: b3 :: rest) 0) with (Some 100). change (100 =? c_IE_CBCH_CHAN_DESC) with true. cbv iota.
    replace (4 + Zlength rest <? 4) with false by lia. rewrite chan_desc_ok by assumption.
    replace (4 + Zlength rest - 4) with (Zlength rest) by lia. reflexivity. Qed.

(* ------------------------------------------------------------------ a complete Mobile Allocation IE *)
Lemma ma_part_complete pre l v tail si1 s c : 0 <= l < 256 -> Zlength v = l ->
  ma_part (pre ++ 114 :: l :: v ++ tail) si1 s c (Zlength pre) (2 + l + Zlength tail) =
    if si1 =? 0 then SRet 0 s c (Zlength pre + (2 + l)) (Zlength tail)
    else match decode (s_freq s) v l (s_hop s) (s_hlen s) 1 with
         | OOB => SOOB
         | Ok _ s' => SRet 0 s' c (Zlength pre + (2 + l)) (Zlength tail)
         end.
Proof. intros Hl Hv. pose proof (Zlength_nonneg tail) as Ht. pose proof (Zlength_nonneg pre) as Hp.
  unfold ma_part. replace (1 <=? 2 + l + Zlength tail) with true by lia.
  rewrite rd_app_r0. change (rd (114 :: l :: v ++ tail) 0) with (Some 114). change (114 =? c_IE_CBCH_MOB_AL) with true. cbv iota.
  replace (2 + l + Zlength tail <? 2) with false by lia.
  rewrite rd_app_r by lia. change (rd (114 :: l :: v ++ tail) 1) with (Some l). cbv iota.
  replace (2 + l + Zlength tail <? 2 + l) with false by lia.
  replace (2 + l + Zlength tail - (2 + l)) with (Zlength tail) by lia.
  destruct (si1 =? 0); [reflexivity|].
  assert (Hs : skipn (Z.to_nat (Zlength pre + 2)) (pre ++ 114 :: l :: v ++ tail) = v ++ tail).
  { rewrite Zlength_correct. replace (Z.to_nat (Z.of_nat (length pre) + 2)) with (length pre + 2)%nat by lia.
    rewrite skipn_app_plus. reflexivity. }
  rewrite Hs. rewrite (decode_ext _ (v ++ tail) v) by (try lia; intros k Hk; apply rd_app_l; lia). reflexivity. Qed.

Lemma si4_complete pre l v tail si1 s c : cd_ie pre -> octets pre -> 0 <= l < 256 -> Zlength v = l ->
  si4_tail (pre ++ 114 :: l :: v ++ tail) si1 s c =
    if si1 =? 0 then SRet 0 s (cd_fields pre c) (Zlength pre + 2 + l) (Zlength tail)
    else match decode (s_freq s) v l (s_hop s) (s_hlen s) 1 with
         | OOB => SOOB
         | Ok _ s' => SRet 0 s' (cd_fields pre c) (Zlength pre + 2 + l) (Zlength tail)
         end.
Proof. intros Hp Ho Hl Hv. rewrite si4_tail_pre by (try assumption; intros _; cbn [hd]; lia).
  replace (Zlength (114 :: l :: v ++ tail)) with (2 + l + Zlength tail) by (rewrite !Zlength_cons, Zlength_app; lia).
  rewrite ma_part_complete by assumption. replace (Zlength pre + (2 + l)) with (Zlength pre + 2 + l) by lia. reflexivity. Qed.

(* ------------------------------------------------------------------ property-level statements (re-exported by Props/C20.v) *)
(* (a) no payload makes the SI4 caller, or the decoder it calls, read or write outside the message / the tables *)
Lemma ma_part_safe d si1 s c off plen : octets d -> 0 <= off -> 0 <= plen -> off + plen = Zlength d ->
  Zlength (s_freq s) = 1024 -> Zlength (s_hop s) = 64 ->
  exists rc s' off' lft, ma_part d si1 s c off plen = SRet rc s' c off' lft /\ off <= off' /\ 0 <= lft /\ off' + lft = Zlength d /\
    (rc = 0 \/ (rc = -5 /\ s' = s)).
Proof. intros Ho Hoff Hpl Hsum Hf Hh. unfold ma_part. destruct (1 <=? plen) eqn:E1.
  2:{ exists 0, s, off, plen. split; [reflexivity|]. split; [lia|]. split; [lia|]. split; [lia|]. left. reflexivity. }
  rewrite rd_ok by lia. destruct (zn d off =? c_IE_CBCH_MOB_AL).
  2:{ exists 0, s, off, plen. split; [reflexivity|]. split; [lia|]. split; [lia|]. split; [lia|]. left. reflexivity. }
  destruct (plen <? 2) eqn:E2.
  { exists (- c_EIO), s, off, plen. split; [reflexivity|]. split; [lia|]. split; [lia|]. split; [lia|]. right. split; reflexivity. }
  rewrite rd_ok by lia. pose proof (octets_zn d (off + 1) Ho ltac:(lia)) as Hl. set (l := zn d (off + 1)) in *. clearbody l.
  destruct (plen <? 2 + l) eqn:E3.
  { exists (- c_EIO), s, off, plen. split; [reflexivity|]. split; [lia|]. split; [lia|]. split; [lia|]. right. split; reflexivity. }
  destruct (si1 =? 0).
  { exists 0, s, (off + (2 + l)), (plen - (2 + l)). split; [reflexivity|]. split; [lia|]. split; [lia|]. split; [lia|]. left. reflexivity. }
  destruct (in_bounds_thm (s_freq s) (skipn (Z.to_nat (off + 2)) d) l (s_hop s) (s_hlen s) 1 Hf Hh ltac:(lia)) as (rc & s' & E).
  { intros _. rewrite Zlength_skipn by lia. lia. }
  rewrite E. exists 0, s', (off + (2 + l)), (plen - (2 + l)). split; [reflexivity|]. split; [lia|]. split; [lia|]. split; [lia|]. left. reflexivity. Qed.

Lemma si4_safe d si1 s c : octets d -> Zlength (s_freq s) = 1024 -> Zlength (s_hop s) = 64 ->
  exists rc s' c' off lft, si4_tail d si1 s c = SRet rc s' c' off lft /\ 0 <= off /\ 0 <= lft /\ off + lft = Zlength d /\
    (rc = 0 \/ (rc = -5 /\ s' = s)).
Proof. intros Ho Hf Hh. pose proof (Zlength_nonneg d) as Hd. unfold si4_tail. cbv zeta.
  destruct (1 <=? Zlength d) eqn:E1.
  2:{ destruct (ma_part_safe d si1 s c 0 (Zlength d) Ho ltac:(lia) ltac:(lia) ltac:(lia) Hf Hh) as (rc & s' & off' & lft & E & H1 & H2 & H3 & H4).
      rewrite E. exists rc, s', c, off', lft. split; [reflexivity|]. split; [lia|]. split; [lia|]. split; [lia|]. exact H4. }
  rewrite rd_ok by lia. destruct (zn d 0 =? c_IE_CBCH_CHAN_DESC).
  - destruct (Zlength d <? 4) eqn:E4.
    { exists (- c_EIO), s, c, 0, (Zlength d). split; [reflexivity|]. split; [lia|]. split; [lia|]. split; [lia|]. right. split; reflexivity. }
    unfold chan_desc. rewrite !rd_ok by lia. cbv zeta.
    destruct (negb (Z.land (Z.shiftr (zn d (0 + 2)) 4) 1 =? 0)).
    + match goal with |- context [ma_part d si1 s ?cc 4 _] => 
        destruct (ma_part_safe d si1 s cc 4 (Zlength d - 4) Ho ltac:(lia) ltac:(lia) ltac:(lia) Hf Hh) as (rc & s' & off' & lft & E & H1 & H2 & H3 & H4);
        rewrite E; exists rc, s', cc, off', lft end.
      split; [reflexivity|]. split; [lia|]. split; [lia|]. split; [lia|]. exact H4.
    + match goal with |- context [ma_part d si1 s ?cc 4 _] => 
        destruct (ma_part_safe d si1 s cc 4 (Zlength d - 4) Ho ltac:(lia) ltac:(lia) ltac:(lia) Hf Hh) as (rc & s' & off' & lft & E & H1 & H2 & H3 & H4);
        rewrite E; exists rc, s', cc, off', lft end.
      split; [reflexivity|]. split; [lia|]. split; [lia|]. split; [lia|]. exact H4.
  - destruct (ma_part_safe d si1 s c 0 (Zlength d) Ho ltac:(lia) ltac:(lia) ltac:(lia) Hf Hh) as (rc & s' & off' & lft & E & H1 & H2 & H3 & H4).
    rewrite E. exists rc, s', c, off', lft. split; [reflexivity|]. split; [lia|]. split; [lia|]. split; [lia|]. exact H4. Qed.

(* (b) a message that ends inside the Mobile Allocation IE *)
Lemma si4_cut pre l v' si1 s c : cd_ie pre -> octets pre -> 0 <= l < 256 -> Zlength v' < l ->
  si4_tail (pre ++ 114 :: l :: v') si1 s c = SRet (-5) s (cd_fields pre c) (Zlength pre) (2 + Zlength v').
Proof. intros Hp Ho Hl Hv. rewrite si4_tail_pre by (try assumption; intros _; cbn [hd]; lia).
  pose proof (Zlength_nonneg v') as Hv0. replace (Zlength (114 :: l :: v')) with (2 + Zlength v') by (rewrite !Zlength_cons; lia).
  unfold ma_part. replace (1 <=? 2 + Zlength v') with true by lia.
  rewrite rd_app_r0. change (rd (114 :: l :: v') 0) with (Some 114). change (114 =? c_IE_CBCH_MOB_AL) with true. cbv iota.
  replace (2 + Zlength v' <? 2) with false by lia.
  rewrite rd_app_r by lia. change (rd (114 :: l :: v') 1) with (Some l). cbv iota.
  replace (2 + Zlength v' <? 2 + l) with true by lia. reflexivity. Qed.

Lemma si4_cut_tag pre si1 s c : cd_ie pre -> octets pre ->
  si4_tail (pre ++ [114]) si1 s c = SRet (-5) s (cd_fields pre c) (Zlength pre) 1.
Proof. intros Hp Ho. rewrite si4_tail_pre by (try assumption; intros _; cbn [hd]; lia).
  change (Zlength [114]) with 1. unfold ma_part. change (1 <=? 1) with true. cbv iota.
  rewrite rd_app_r0. change (rd [114] 0) with (Some 114). change (114 =? c_IE_CBCH_MOB_AL) with true. cbv iota.
  change (1 <? 2) with true. reflexivity. Qed.

Lemma si4_cut_cd x si1 s c : hd 0 x = 100 -> 1 <= Zlength x < 4 -> si4_tail x si1 s c = SRet (-5) s c 0 (Zlength x).
Proof. intros Hh Hl. unfold si4_tail. cbv zeta. replace (1 <=? Zlength x) with true by lia.
  destruct x as [|t r]; [rewrite Zlength_nil in Hl; lia|]. cbn [hd] in Hh. subst t.
  change (rd (100 :: r) 0) with (Some 100). change (100 =? c_IE_CBCH_CHAN_DESC) with true. cbv iota.
  replace (Zlength (100 :: r) <? 4) with true by lia. reflexivity. Qed.

(* (c) an accepted IE: exactly the decoder's result on the IE value octets *)
Lemma si4_accept pre l v tail si1 s c : cd_ie pre -> octets pre -> 0 <= l < 256 -> Zlength v = l -> si1 <> 0 ->
  Zlength (s_freq s) = 1024 -> Zlength (s_hop s) = 64 ->
  exists rc s', decode (s_freq s) v l (s_hop s) (s_hlen s) 1 = Ok rc s' /\
    si4_tail (pre ++ 114 :: l :: v ++ tail) si1 s c = SRet 0 s' (cd_fields pre c) (Zlength pre + 2 + l) (Zlength tail).
Proof. intros Hp Ho Hl Hv H1 Hf Hh. rewrite si4_complete by assumption. replace (si1 =? 0) with false by lia.
  destruct (in_bounds_thm (s_freq s) v l (s_hop s) (s_hlen s) 1 Hf Hh ltac:(lia) ltac:(lia)) as (rc & s' & E).
  rewrite E. exists rc, s'. split; reflexivity. Qed.

Lemma si4_spec pre l v tail si1 s c : cd_ie pre -> octets pre -> 0 <= l <= 8 -> Zlength v = l -> si1 <> 0 ->
  Zlength (s_freq s) = 1024 -> Zlength (s_hop s) = 64 ->
  exists freq', si4_tail (pre ++ 114 :: l :: v ++ tail) si1 s c =
    SRet 0 (mkst freq' (spec_hopping (s_freq s) v l ++ skipn (length (spec_hopping (s_freq s) v l)) (s_hop s))
                 (Zlength (spec_hopping (s_freq s) v l)))
         (cd_fields pre c) (Zlength pre + 2 + l) (Zlength tail).
Proof. intros Hp Ho Hl Hv H1 Hf Hh. rewrite si4_complete by (try assumption; lia). replace (si1 =? 0) with false by lia.
  destruct (spec_thm (s_freq s) v l (s_hop s) (s_hlen s) 1 Hf Hl ltac:(lia) Hh) as (fr' & E). rewrite E. exists fr'. reflexivity. Qed.

Lemma si4_long pre l v tail si1 s c : cd_ie pre -> octets pre -> 8 < l < 256 -> Zlength v = l ->
  si4_tail (pre ++ 114 :: l :: v ++ tail) si1 s c = SRet 0 s (cd_fields pre c) (Zlength pre + 2 + l) (Zlength tail).
Proof. intros Hp Ho Hl Hv. rewrite si4_complete by (try assumption; lia). destruct (si1 =? 0); [reflexivity|].
  rewrite long_thm by lia. destruct s; reflexivity. Qed.

(* (d) before SI1 *)
Lemma si4_before_si1 pre l v tail s c : cd_ie pre -> octets pre -> 0 <= l < 256 -> Zlength v = l ->
  si4_tail (pre ++ 114 :: l :: v ++ tail) 0 s c = SRet 0 s (cd_fields pre c) (Zlength pre + 2 + l) (Zlength tail).
Proof. intros Hp Ho Hl Hv. rewrite si4_complete by assumption. reflexivity. Qed.

(* no Mobile Allocation IE *)
Lemma si4_no_ma pre rest si1 s c : cd_ie pre -> octets pre -> (pre = [] -> hd 0 rest <> 100) -> hd 0 rest <> 114 ->
  si4_tail (pre ++ rest) si1 s c = SRet 0 s (cd_fields pre c) (Zlength pre) (Zlength rest).
Proof. intros Hp Ho Hh Hm. rewrite si4_tail_pre by assumption. unfold ma_part. destruct rest as [|t r].
  - rewrite Zlength_nil. reflexivity.
  - pose proof (Zlength_nonneg r). rewrite Zlength_cons. replace (1 <=? Z.succ (Zlength r)) with true by lia.
    rewrite rd_app_r0. change (rd (t :: r) 0) with (Some t). cbv iota. cbn [hd] in Hm.
    replace (t =? c_IE_CBCH_MOB_AL) with false by (unfold c_IE_CBCH_MOB_AL; lia). reflexivity. Qed.

(* ------------------------------------------------------------------ (2) gsm48_rr_render_ma *)
Lemma render_safe lv freq ma ma_len : Zlength lv = 9 -> octets lv -> Zlength freq = 1024 -> Zlength ma = 64 ->
  exists rc s, render_ma lv freq ma ma_len = Ok rc s.
Proof. intros Hl Ho Hf Hm. unfold render_ma. rewrite rd_ok by lia. pose proof (octets_zn lv 0 Ho ltac:(lia)) as H0.
  destruct (zn lv 0 =? 0); [eauto|].
  destruct (in_bounds_thm freq (skipn 1 lv) (zn lv 0) ma ma_len 0 Hf Hm ltac:(lia)) as (rc & s & E).
  { intros H8. change 1%nat with (Z.to_nat 1). rewrite Zlength_skipn by lia. lia. }
  rewrite E. destruct (s_hlen s <? 1); eauto. Qed.

Lemma render_spec l v freq ma ma_len : 1 <= l <= 8 -> l <= Zlength v -> Zlength freq = 1024 -> Zlength ma = 64 ->
  exists freq', render_ma (l :: v) freq ma ma_len =
    Ok (if Zlength (spec_hopping freq v l) <? 1 then 101 else 0)
       (mkst freq' (spec_hopping freq v l ++ skipn (length (spec_hopping freq v l)) ma) (Zlength (spec_hopping freq v l))).
Proof. intros Hl Hv Hf Hm. unfold render_ma. change (rd (l :: v) 0) with (Some l). cbv iota. replace (l =? 0) with false by lia.
  cbn [skipn]. destruct (spec_thm freq v l ma ma_len 0 Hf ltac:(lia) Hv Hm) as (fr' & E). rewrite E. cbn [s_hlen].
  exists fr'. destruct (Zlength (spec_hopping freq v l) <? 1); reflexivity. Qed.

Lemma render_long l v freq ma ma_len : 8 < l < 256 ->
  render_ma (l :: v) freq ma ma_len = Ok (if ma_len <? 1 then 101 else 0) (mkst freq ma ma_len).
Proof. intros Hl. unfold render_ma. change (rd (l :: v) 0) with (Some l). cbv iota. replace (l =? 0) with false by lia.
  rewrite long_thm by lia. cbn [s_hlen]. destruct (ma_len <? 1); reflexivity. Qed.

(* ------------------------------------------------------------------ non-vacuity: concrete messages *)
Definition sobs (r : sres) : list Z :=
  match r with
  | SRet rc s c off lft => [rc; off; lft; cb_chan_nr c; cb_h c; cb_tsc c; cb_maio c; cb_hsn c; cb_arfcn c; s_hlen s] ++ firstn 4 (s_hop s) ++
                           [zn (s_freq s) 0; zn (s_freq s) 10; zn (s_freq s) 30]
  | SOOB => [-998]
  end.
(* cell allocation {0, 10, 20, 30}, every mask 0x42 (+ 0x01 in the cell allocation), a previous list of 9 entries *)
Definition s0 : st := mkst (tbl [0; 10; 20; 30] 66) (repeat 7 64) 9.
(* channel description (hopping: TSC 5, MAIO 23, HSN 26) + mobile allocation 0b1011 + one rest octet: list 10 20 0, flags renewed *)
Example ex_si4_full : sobs (si4_tail [100; 33; 181; 218; 114; 1; 11; 43] 1 s0 cb0) = [0; 7; 1; 33; 1; 5; 23; 26; 60001; 3; 10; 20; 0; 7; 67; 67; 65].
Proof. vm_compute. reflexivity. Qed.
(* the same message before SI1: skipped, the old list stays *)
Example ex_si4_before_si1 : sobs (si4_tail [100; 33; 181; 218; 114; 1; 11; 43] 0 s0 cb0) = [0; 7; 1; 33; 1; 5; 23; 26; 60001; 9; 7; 7; 7; 7; 67; 67; 67].
Proof. vm_compute. reflexivity. Qed.
(* the IE announces two octets, the message carries one: -EIO, list and flags untouched (the channel description is already stored) *)
Example ex_si4_cut : sobs (si4_tail [100; 33; 181; 218; 114; 2; 11] 1 s0 cb0) = [-5; 4; 3; 33; 1; 5; 23; 26; 60001; 9; 7; 7; 7; 7; 67; 67; 67].
Proof. vm_compute. reflexivity. Qed.
(* the message ends with the tag *)
Example ex_si4_tag_last : sobs (si4_tail [114] 1 s0 cb0) = [-5; 0; 1; 201; 202; 203; 204; 205; 60001; 9; 7; 7; 7; 7; 67; 67; 67].
Proof. vm_compute. reflexivity. Qed.
(* no channel description, two bitmap octets, two rest octets *)
Example ex_si4_two : sobs (si4_tail [114; 2; 0; 5; 43; 43] 1 s0 cb0) = [0; 4; 2; 201; 202; 203; 204; 205; 60001; 2; 10; 30; 7; 7; 65; 67; 67].
Proof. vm_compute. reflexivity. Qed.
(* non-hopping channel description (ARFCN 730), nothing else *)
Example ex_si4_h0 : sobs (si4_tail [100; 33; 34; 218] 1 s0 cb0) = [0; 4; 0; 33; 0; 1; 204; 205; 730; 9; 7; 7; 7; 7; 67; 67; 67].
Proof. vm_compute. reflexivity. Qed.
(* nine bitmap octets: the decoder refuses, SI4 ignores the refusal, nothing changes *)
Example ex_si4_long : sobs (si4_tail [114; 9; 1; 2; 3; 4; 5; 6; 7; 8; 9; 43] 1 s0 cb0) = [0; 11; 1; 201; 202; 203; 204; 205; 60001; 9; 7; 7; 7; 7; 67; 67; 67].
Proof. vm_compute. reflexivity. Qed.
Example ex_si4_hyp : cd_ie [100; 33; 181; 218] /\ octets [100; 33; 181; 218] /\ Zlength (s_freq s0) = 1024 /\ Zlength (s_hop s0) = 64.
Proof. split; [right; eauto|]. split; [repeat constructor; lia|]. split; vm_compute; reflexivity. Qed.
Example ex_render : match render_ma [1; 11; 0; 0; 0; 0; 0; 0; 0] (tbl [0; 10; 20; 30] 66) (repeat 7 64) 9 with
                    | Ok rc s => rc :: s_hlen s :: firstn 4 (s_hop s) | OOB => [-998] end = [0; 3; 10; 20; 0; 7].
Proof. vm_compute. reflexivity. Qed.
(* a bit beyond the cell allocation only: empty list, cause 0x65 *)
Example ex_render_empty : match render_ma [1; 16; 0; 0; 0; 0; 0; 0; 0] (tbl [0; 10; 20; 30] 66) (repeat 7 64) 9 with
                    | Ok rc s => rc :: s_hlen s :: firstn 4 (s_hop s) | OOB => [-998] end = [101; 0; 7; 7; 7; 7].
Proof. vm_compute. reflexivity. Qed.
