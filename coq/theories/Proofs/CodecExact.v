(* C16: literal agreement - for a well-formed definition without spare octets, spare bit-fields and padding bits,
   re-encoding a decoded message reproduces exactly the octets that were consumed. *)
From Coq Require Import ZArith List Bool Lia.
From OBB Require Import Base.Bits Model.Codec Proofs.CodecInt Proofs.CodecBits Proofs.CodecRT Proofs.CodecDE.
Import ListNotations.
Open Scope Z_scope.

Lemma firstn_split {A} n1 n2 (l:list A) : firstn n1 l ++ firstn n2 (skipn n1 l) = firstn (n1 + n2) l.
Proof.
  revert l. induction n1 as [|n1 IH]; intros l; [reflexivity|]. destruct l as [|x l]; cbn [firstn skipn app Nat.add].
  - rewrite firstn_nil. reflexivity.
  - rewrite IH. reflexivity.
Qed.

(* ---------------------------------------------------------------- bit-field sets without spares and padding *)
Definition all_named (fs:list bitf) : Prop := forall f, In f fs -> exists k bl fx, f = BitF (Some k) bl fx.

Lemma packed_exact fs E blob : all_named fs ->
  forall off, Z.of_nat (bits_total fs) <= off ->
  (forall nm bl fx o m, In (BitF nm bl fx, o, m) (layout fs off) -> bfv (BitF nm bl fx) E = Z.land (Z.shiftr blob o) m) ->
  forall p, off - Z.of_nat (bits_total fs) <= p < off -> Z.testbit (packed fs E off) p = Z.testbit blob p.
Proof.
  induction fs as [|f r IH]; intros Han off Hoff Hw p Hp.
  - unfold bits_total in Hp. cbn [fold_right] in Hp. lia.
  - rewrite bits_total_cons in *. pose proof (zbl_nonneg f) as Hz. destruct f as [nm bl fx]. unfold zbl in *. cbn [bl_of] in *.
    cbn [packed]. cbv zeta. unfold zbl. cbn [bl_of]. rewrite Z.lor_spec.
    assert (Hb : bfv (BitF nm bl fx) E = Z.land (Z.shiftr blob (off - Z.of_nat bl)) (2 ^ Z.of_nat bl - 1)).
    { apply Hw. cbn [layout]. left. reflexivity. }
    rewrite Hb. rewrite replace_window_testbit by lia.
    destruct (Z.leb_spec (off - Z.of_nat bl) p) as [Hge|Hlt].
    + destruct (Z.ltb_spec p (off - Z.of_nat bl + Z.of_nat bl)); [|lia]. cbn [andb].
      destruct (Z.testbit (packed r E (off - Z.of_nat bl)) p) eqn:Et; [|apply orb_false_r].
      apply packed_confined in Et; lia.
    + cbn [andb orb]. apply IH; [intros g Hg; apply Han; right; exact Hg|lia| |lia].
      intros nm' bl' fx' o' m' Hin. apply Hw. cbn [layout]. right. exact Hin.
Qed.

(* what a successful dec_bits tells about every entry of the layout *)
Lemma dec_bits_windows fs : forall off blob e0 e1,
  dec_bits (layout fs off) blob e0 = Ok e1 -> disj e0 (bf_names fs) -> NoDup (bf_names fs) ->
  forall E, (forall k v, In (k, v) (skipn (length e0) e1) -> lookup k E = Some v) ->
  forall nm bl fx o m, In (BitF nm bl fx, o, m) (layout fs off) -> nm <> None ->
  bfv (BitF nm bl fx) E = Z.land (Z.shiftr blob o) m.
Proof.
  induction fs as [|[nm0 bl0 fx0] r IH]; intros off blob e0 e1 Hd Hdis Hnd E HE nm bl fx o m Hin Hnm; [destruct Hin|].
  cbn [layout dec_bits] in Hd. cbn [layout] in Hin. rewrite bf_names_cons in Hdis, Hnd.
  destruct nm0 as [k0|].
  - cbv zeta in Hd. remember (Z.land (Z.shiftr blob (off - Z.of_nat bl0)) (2 ^ Z.of_nat bl0 - 1)) as v eqn:Ev.
    cbn [app] in Hdis, Hnd. inversion Hnd as [|? ? Hni Hnd']; subst.
    assert (Hk : lookup k0 e0 = None) by (apply Hdis; left; reflexivity).
    rewrite (eset_fresh k0 _ e0 Hk) in Hd.
    assert (Hrec : dec_bits (layout r (off - Z.of_nat bl0)) blob (e0 ++ [(k0, VInt (Z.land (Z.shiftr blob (off - Z.of_nat bl0)) (2 ^ Z.of_nat bl0 - 1)))]) = Ok e1 /\
                   (fx0 = None \/ fx0 = Some (Z.land (Z.shiftr blob (off - Z.of_nat bl0)) (2 ^ Z.of_nat bl0 - 1)))).
    { destruct fx0 as [c|]; [|auto]. destruct (Z.eqb_spec (Z.land (Z.shiftr blob (off - Z.of_nat bl0)) (2 ^ Z.of_nat bl0 - 1)) c) as [Evc|_]; [subst c; auto|discriminate]. }
    destruct Hrec as [Hrec Hfx].
    assert (Hdis' : disj (e0 ++ [(k0, VInt (Z.land (Z.shiftr blob (off - Z.of_nat bl0)) (2 ^ Z.of_nat bl0 - 1)))]) (bf_names r)).
    { apply disj_app; [intros k' Hk'; apply Hdis; right; exact Hk'|]. intros k' Hk' [<-|[]]. contradiction. }
    destruct (dec_bits_fit _ _ _ _ _ Hrec Hdis' Hnd') as [bcv [He1 _]].
    assert (Hskip : skipn (length e0) e1 = (k0, VInt (Z.land (Z.shiftr blob (off - Z.of_nat bl0)) (2 ^ Z.of_nat bl0 - 1))) :: bcv).
    { rewrite He1, <- app_assoc, skipn_app_len. reflexivity. }
    destruct Hin as [Heq|Hin].
    + injection Heq as <- <- <- <- <-. unfold bfv. cbn [bf_val].
      destruct Hfx as [->| ->]; [|reflexivity].
      assert (Hlk : lookup k0 E = Some (VInt (Z.land (Z.shiftr blob (off - Z.of_nat bl0)) (2 ^ Z.of_nat bl0 - 1))))
        by (apply HE; rewrite Hskip; left; reflexivity).
      rewrite Hlk. reflexivity.
    + apply (IH _ _ _ _ Hrec Hdis' Hnd' E); [|exact Hin|exact Hnm].
      intros k' v' Hin'. apply HE. rewrite Hskip. right.
      rewrite He1 in Hin'. rewrite app_length in Hin'. cbn [length] in Hin'.
      replace (length e0 + 1)%nat with (length (e0 ++ [(k0, VInt (Z.land (Z.shiftr blob (off - Z.of_nat bl0)) (2 ^ Z.of_nat bl0 - 1)))])) in Hin' by (rewrite app_length; reflexivity).
      rewrite skipn_app_len in Hin'. exact Hin'.
  - cbn [app] in Hdis, Hnd. destruct Hin as [Heq|Hin]; [injection Heq as <- _ _ _ _; contradiction|].
    apply (IH _ _ _ _ Hd Hdis Hnd E HE); assumption.
Qed.

Lemma layout_named fs : all_named fs -> forall off nm bl fx o m, In (BitF nm bl fx, o, m) (layout fs off) -> nm <> None.
Proof.
  induction fs as [|[nm0 bl0 fx0] r IH]; intros Han off nm bl fx o m Hin; [destruct Hin|]. cbn [layout] in Hin.
  destruct Hin as [Heq|Hin].
  - injection Heq as <- _ _ _ _. destruct (Han _ (or_introl eq_refl)) as [k [b [x E]]]. injection E as -> _ _. discriminate.
  - apply (IH (fun g Hg => Han g (or_intror Hg)) _ _ _ _ _ _ Hin).
Qed.

Lemma bfv_ok_named fs E : all_named fs ->
  (forall off nm bl fx o m, In (BitF nm bl fx, o, m) (layout fs off) -> exists v, bf_val (BitF nm bl fx) E = Ok v) ->
  forall f, In f fs -> exists v, bf_val f E = Ok v.
Proof.
  induction fs as [|[nm0 bl0 fx0] r IH]; intros Han H f Hin; [destruct Hin|]. destruct Hin as [<-|Hin].
  - apply (H 0 nm0 bl0 fx0 (0 - Z.of_nat bl0) (2 ^ Z.of_nat bl0 - 1)). cbn [layout]. left. reflexivity.
  - apply IH; [intros g Hg; apply Han; right; exact Hg| |exact Hin].
    intros off nm bl fx o m Hi. apply (H (off + Z.of_nat bl0) nm bl fx o m). cbn [layout]. right.
    replace (off + Z.of_nat bl0 - Z.of_nat bl0) with off by lia. exact Hi.
Qed.

Lemma forallb_In {A} (f:A -> bool) l x : forallb f l = true -> In x l -> f x = true.
Proof. intros H Hin. rewrite forallb_forall in H. auto. Qed.

Lemma all_named_order lsb bfs :
  forallb (fun b => match b with BitF (Some _) _ _ => true | _ => false end) bfs = true -> all_named (bits_order lsb bfs).
Proof.
  intros H f Hin. assert (Hin' : In f bfs) by (destruct lsb; cbn [bits_order] in Hin; [apply in_rev|]; exact Hin).
  pose proof (forallb_In _ _ _ H Hin') as Hf. destruct f as [[k|] bl fx]; [eauto|discriminate].
Qed.

(* one bit-field set: the octets that were read are exactly what is written back *)
Lemma bits_exact l lsb bfs d e0 e' E :
  (1 <= bits_len l bfs)%nat -> bits_total bfs = (8 * bits_len l bfs)%nat ->
  forallb (fun b => match b with BitF (Some _) _ _ => true | _ => false end) bfs = true ->
  bytes_ok d -> length d = bits_len l bfs ->
  dec_bits (bits_layout l lsb bfs) (from_be d) e0 = Ok e' ->
  disj e0 (bf_names (bits_order lsb bfs)) -> NoDup (bf_names (bits_order lsb bfs)) ->
  (forall k v, In (k, v) (skipn (length e0) e') -> lookup k E = Some v) ->
  (blob <- enc_bits (bits_layout l lsb bfs) E 0 ;; enc_int (bits_len l bfs) false false blob) = Ok d.
Proof.
  intros Hn Htot Hnamed Hb Hld Hdec Hdis Hnd HE. unfold bits_layout in *. set (fs := bits_order lsb bfs) in *. set (n := bits_len l bfs) in *.
  assert (Han : all_named fs) by (apply all_named_order, Hnamed).
  assert (Htz : Z.of_nat (bits_total fs) = 8 * Z.of_nat n) by (subst fs; rewrite bits_total_order; lia).
  destruct (dec_bits_fit _ _ _ _ _ Hdec Hdis Hnd) as [bcv [He' [_ Hfit]]].
  assert (Hfit' : bits_fit fs E bcv).
  { apply Hfit. intros k v Hin. apply HE. rewrite He', skipn_app_len. exact Hin. }
  rewrite (enc_bits_packed fs E (bits_fit_vals _ _ _ Hfit')). cbn [bind]. rewrite Z.lor_0_l.
  assert (Hblob : 0 <= from_be d < 256 ^ Z.of_nat n) by (rewrite <- Hld; apply from_be_range, Hb).
  assert (Hpow : 2 ^ (8 * Z.of_nat n) = 256 ^ Z.of_nat n) by (rewrite Z.pow_mul_r by lia; reflexivity).
  assert (Heq : packed fs E (8 * Z.of_nat n) = from_be d).
  { apply Z.bits_inj'. intros p Hp. destruct (Z.lt_ge_cases p (8 * Z.of_nat n)) as [Hlt|Hge].
    - apply (packed_exact fs E (from_be d) Han); [lia| |lia].
      intros nm bl fx o m Hin. apply (dec_bits_windows _ _ _ _ _ Hdec Hdis Hnd E HE _ _ _ _ _ Hin).
      apply (layout_named _ Han _ _ _ _ _ _ Hin).
    - rewrite (lt_highclear (packed fs E (8 * Z.of_nat n)) (8 * Z.of_nat n) p); [|apply packed_lt; lia|exact Hge].
      rewrite (lt_highclear (from_be d) (8 * Z.of_nat n) p); [reflexivity|rewrite Hpow; exact Hblob|exact Hge]. }
  rewrite Heq. rewrite (enc_int_ok n false false _ Hn); [|exact Hblob]. cbv zeta. rewrite Z.mod_small by exact Hblob.
  subst n. rewrite <- Hld. rewrite to_from_be by exact Hb. reflexivity.
Qed.

Definition X_dec (fd:nat) : Prop := forall fs e0 data e1 n,
  dec fd fs e0 data = Ok (e1, n) -> NoDup (lnames fs) -> forallb wfb_f fs = true -> spare_free fs = true -> bytes_ok data ->
  disj e0 (lnames fs) -> forall ext fe, (lsize fs < fe)%nat -> enc fe fs (e1 ++ ext) = Ok (firstn n data).
Definition X_seq (fd:nat) : Prop := forall item data vcs,
  dec_seq fd item data = Ok vcs -> NoDup (lnames item) -> forallb wfb_f item = true -> spare_free item = true -> bytes_ok data ->
  forall fe, (lsize item < fe)%nat -> enc_items (enc fe item) vcs = Ok data.

Lemma exact_mut : forall fd, X_dec fd /\ X_seq fd.
Proof.
  induction fd as [|k [IHd IHs]]; [split; [intros fs e0 data e1 n H|intros item data vcs H]; discriminate|]. split.
  - intros fs e0 data e1 n Hdec Hnd Hwf Hsf Hb Hdis ext fe Hfe. destruct fs as [|f fs'].
    { cbn [dec] in Hdec. injection Hdec as <- <-. destruct fe; [lia|]. reflexivity. }
    apply dec_cons_inv in Hdec as [e' [n1 [n2 [Hf [Ht ->]]]]].
    rewrite lnames_cons in Hnd, Hdis. destruct (NoDup_app_inv _ _ Hnd) as [Hndf [Hndr Hsep]].
    cbn [forallb] in Hwf. apply andb_true_iff in Hwf as [Hwff Hwfr].
    unfold spare_free in Hsf. cbn [forallb] in Hsf. apply andb_true_iff in Hsf as [Hsff Hsfr].
    assert (Hdisr : disj e0 (lnames fs')) by (intros x Hx; apply Hdis, in_or_app; right; exact Hx).
    destruct fe as [|ke]; [lia|]. rewrite lsize_cons in Hfe. pose proof (fsize_pos f) as Hfs.
    assert (Htail : forall cvf, e' = e0 ++ cvf -> incl (keys cvf) (fnames f) ->
      exists cv', e1 = (e0 ++ cvf) ++ cv' /\ enc ke fs' (e1 ++ ext) = Ok (firstn n2 (skipn n1 data))).
    { intros cvf -> Hinc.
      assert (Hd' : disj (e0 ++ cvf) (lnames fs')).
      { apply disj_app; [exact Hdisr|]. intros x Hx Hxc. exact (Hsep x (Hinc x Hxc) Hx). }
      destruct (proj1 (dec_fits_mut k) fs' _ _ _ _ Ht Hndr Hwfr (bytes_ok_skipn _ _ Hb) Hd') as [cv' [He1 _]].
      exists cv'. split; [exact He1|]. apply (IHd fs' _ _ _ _ Ht Hndr Hwfr Hsfr (bytes_ok_skipn _ _ Hb) Hd'). lia. }
    rewrite <- firstn_split.
    apply dec_field_inv in Hf as [[Hp [-> ->]]|[Hp [Hgl [Hn1 Hpay]]]].
    { destruct (Htail [] (eq_sym (app_nil_r e0)) (fun x (H:In x []) => match H with end)) as [cv' [He1 Henc]].
      rewrite app_nil_r in He1. cbn [firstn]. apply enc_cons_ok; [|exact Henc].
      unfold enc_field. rewrite He1, <- app_assoc, (get_pres_ext _ _ _ _ Hp). reflexivity. }
    assert (Hld : length (firstn n1 data) = n1) by (apply firstn_length_le; exact Hn1).
    assert (Hbd : bytes_ok (firstn n1 data)) by (apply bytes_ok_firstn, Hb).
    destruct f as [nm l p le sg off mult|nm l p|l p filler|l p lsb bfs|nm l p chk body|nm l p item];
      cbn [fpres] in Hp; cbn [dec_payload] in Hpay; cbn [get_len_f flen] in Hgl; cbn [fnames] in *.
    + (* uint *)
      cbn [wfb_f] in Hwff. apply andb_true_iff in Hwff as [Hl Hm]. destruct l as [[|m]| | |]; try discriminate.
      apply negb_true_iff in Hm. apply Z.eqb_neq in Hm. cbn [get_len] in Hgl. assert (En1 : n1 = S m) by congruence. subst n1. clear Hgl.
      assert (Hk : lookup nm e0 = None) by (apply Hdis; left; reflexivity).
      rewrite (eset_fresh _ _ _ Hk) in Hpay. assert (He' : e' = e0 ++ [(nm, VInt (dec_int le sg (firstn (S m) data) * mult + off))]) by congruence.
      destruct (Htail _ He') as [cv' [He1 Henc]]; [intros x [<-|[]]; left; reflexivity|].
      apply enc_cons_ok; [|exact Henc]. apply enc_field_present_ok.
      * cbn [fpres]. rewrite He1, <- !app_assoc. apply get_pres_ext, Hp.
      * cbn [enc_payload]. rewrite He1, (lookup_mid _ _ _ _ _ Hk). destruct (Z.eqb_spec mult 0); [contradiction|].
        rewrite offmult_rt by exact Hm. cbn [fixlen]. pose proof (dec_enc_int le sg _ Hbd ltac:(lia)) as Hde. rewrite Hld in Hde. exact Hde.
      * right. cbn [fixlen_f flen fixlen]. symmetry. exact Hld.
    + (* buf *)
      assert (Hk : lookup nm e0 = None) by (apply Hdis; left; reflexivity).
      rewrite (eset_fresh _ _ _ Hk) in Hpay. assert (He' : e' = e0 ++ [(nm, VBytes (firstn n1 data))]) by congruence.
      destruct (Htail _ He') as [cv' [He1 Henc]]; [intros x [<-|[]]; left; reflexivity|].
      apply enc_cons_ok; [|exact Henc]. apply enc_field_present_ok.
      * cbn [fpres]. rewrite He1, <- !app_assoc. apply get_pres_ext, Hp.
      * cbn [enc_payload]. rewrite He1, (lookup_mid _ _ _ _ _ Hk). reflexivity.
      * cbn [fixlen_f flen]. rewrite Hld. eapply get_len_fixlen, Hgl.
    + (* spare *) discriminate.
    + (* bits *)
      cbn [get_len_f] in Hgl. assert (En1 : n1 = bits_len l bfs) by congruence. subst n1. clear Hgl.
      cbn [wfb_f] in Hwff. apply andb_true_iff in Hwff as [Hwff _]. apply andb_true_iff in Hwff as [Hw1 _]. apply Nat.leb_le in Hw1.
      cbn [spare_free_f] in Hsff. apply andb_true_iff in Hsff as [Hnamed Htot]. apply Nat.eqb_eq in Htot.
      assert (Hdisb : disj e0 (bf_names (bits_order lsb bfs))).
      { intros x Hx. apply Hdis, in_or_app. left. apply (bf_names_order_in lsb bfs x), Hx. }
      assert (Hndb : NoDup (bf_names (bits_order lsb bfs))) by (apply bf_names_order_nodup, Hndf).
      pose proof Hpay as Hpay0. unfold bits_layout in Hpay0.
      destruct (dec_bits_fit _ _ _ _ _ Hpay0 Hdisb Hndb) as [bcv [He' [Hkeys _]]].
      assert (Hkn : NoDup (keys bcv)) by (rewrite Hkeys; exact Hndb).
      destruct (Htail bcv He') as [cv' [He1 Henc]];
        [intros x Hx; rewrite Hkeys in Hx; apply (bf_names_order_in lsb bfs x), Hx|].
      apply enc_cons_ok; [|exact Henc]. apply enc_field_present_ok.
      * cbn [fpres]. rewrite He1, <- !app_assoc. apply get_pres_ext, Hp.
      * cbn [enc_payload]. apply (bits_exact l lsb bfs _ e0 e'); try assumption.
        intros x v Hin. rewrite He', skipn_app_len in Hin. rewrite He1, <- !app_assoc, lookup_app.
        assert (Hx0 : lookup x e0 = None).
        { apply Hdisb. rewrite <- Hkeys. unfold keys. apply in_map_iff. exists (x, v). auto. }
        rewrite Hx0, lookup_app, (lookup_in_nodup _ _ _ Hkn Hin). reflexivity.
      * right. cbn [fixlen_f]. symmetry. exact Hld.
    + (* nested envelope *)
      cbn [wfb_f] in Hwff. apply andb_true_iff in Hwff as [Hwff Hwb]. apply andb_true_iff in Hwff as [Hchk Hnb]. subst chk.
      cbn [spare_free_f] in Hsff.
      apply bind_ok in Hpay as [[dcv m] [Hbody Hpay]]. apply wrapD_ok in Hbody. cbn [fst snd andb] in Hpay.
      destruct (Nat.eqb_spec (length (firstn n1 data)) m) as [Hm|Hm]; cbn [negb] in Hpay; [|discriminate].
      assert (Hk : lookup nm e0 = None) by (apply Hdis; left; reflexivity).
      rewrite (eset_fresh _ _ _ Hk) in Hpay. assert (He' : e' = e0 ++ [(nm, VDict dcv)]) by congruence.
      destruct (Htail _ He') as [cv' [He1 Henc]]; [intros x [<-|[]]; left; reflexivity|].
      cbn [fsize] in Hfe. fold (lsize body) in Hfe.
      pose proof (IHd body [] _ _ _ Hbody (nodupb_sound _ Hnb) Hwb Hsff Hbd (disj_nil _) [] ke ltac:(lia)) as Hbe.
      rewrite app_nil_r in Hbe. rewrite <- Hm, firstn_all in Hbe.
      apply enc_cons_ok; [|exact Henc]. apply enc_field_present_ok.
      * cbn [fpres]. rewrite He1, <- !app_assoc. apply get_pres_ext, Hp.
      * cbn [enc_payload]. rewrite He1, (lookup_mid _ _ _ _ _ Hk), Hbe. reflexivity.
      * cbn [fixlen_f flen]. rewrite Hld. eapply get_len_fixlen, Hgl.
    + (* sequence *)
      cbn [wfb_f] in Hwff. apply andb_true_iff in Hwff as [Hni Hwi]. cbn [spare_free_f] in Hsff.
      apply bind_ok in Hpay as [vs [Hseq Hpay]].
      assert (Hk : lookup nm e0 = None) by (apply Hdis; left; reflexivity).
      rewrite (eset_fresh _ _ _ Hk) in Hpay. assert (He' : e' = e0 ++ [(nm, VList vs)]) by congruence.
      destruct (Htail _ He') as [cv' [He1 Henc]]; [intros x [<-|[]]; left; reflexivity|].
      cbn [fsize] in Hfe. fold (lsize item) in Hfe.
      pose proof (IHs item _ _ Hseq (nodupb_sound _ Hni) Hwi Hsff Hbd ke ltac:(lia)) as Hie.
      apply enc_cons_ok; [|exact Henc]. apply enc_field_present_ok.
      * cbn [fpres]. rewrite He1, <- !app_assoc. apply get_pres_ext, Hp.
      * cbn [enc_payload]. rewrite He1, (lookup_mid _ _ _ _ _ Hk). exact Hie.
      * cbn [fixlen_f flen]. rewrite Hld. eapply get_len_fixlen, Hgl.
  - intros item data vcs Hseq Hnd Hwf Hsf Hb fe Hfe. cbn [dec_seq] in Hseq. destruct data as [|x xs].
    { injection Hseq as <-. reflexivity. }
    set (data := x :: xs) in *.
    apply bind_ok in Hseq as [[dcv used] [Hit Hseq]]. apply wrapD_ok in Hit. cbn [fst snd] in Hseq.
    destruct used as [|m]; [discriminate|]. apply bind_ok in Hseq as [vs [Hrest Hseq]]. injection Hseq as <-.
    pose proof (IHd item [] _ _ _ Hit Hnd Hwf Hsf Hb (disj_nil _) [] fe Hfe) as H1. rewrite app_nil_r in H1.
    pose proof (IHs item _ _ Hrest Hnd Hwf Hsf (bytes_ok_skipn _ _ Hb) fe Hfe) as H2.
    cbn [enc_items]. rewrite H1. cbn [wrapE bind]. rewrite H2. cbn [bind]. rewrite firstn_skipn. reflexivity.
Qed.

(* the theorem at the Envelope API *)
Lemma dec_enc_exact chk fs data v n : wfb fs = true -> spare_free fs = true -> bytes_ok data ->
  decode chk fs data = Ok (v, n) -> encode fs v = Ok (firstn n data).
Proof.
  intros Hwf Hsf Hb Hdec. unfold decode in Hdec. unfold encode. destruct (proto_ok fs); [|discriminate].
  apply bind_ok in Hdec as [[v0 n0] [Hd Hchk]]. apply wrapD_ok in Hd. cbn [fst snd] in Hchk.
  destruct (chk && negb (Nat.eqb (length data) n0)); [discriminate|]. injection Hchk as <- <-.
  destruct (wfb_inv _ Hwf) as [Hnd Hwff].
  pose proof (proj1 (exact_mut _) _ _ _ _ _ Hd Hnd Hwff Hsf Hb (disj_nil _) [] (enc_fuel fs) ltac:(unfold enc_fuel; lia)) as H.
  rewrite app_nil_r in H. rewrite H. reflexivity.
Qed.
