(* C16/C17: symbolic evaluation of the DECODER on concrete definitions.  `dgood fs e0 data cv n`: with enough fuel, decoding
   data under fs from the dict e0 appends cv and consumes n octets.  One step lemma per field kind; used for inputs that
   are not encodings (reserved bits / spare octets holding arbitrary values). *)
From Coq Require Import ZArith List Bool Lia.
From OBB Require Import Base.Bits Model.Codec Proofs.CodecInt Proofs.CodecBits Proofs.CodecRT Proofs.CodecDE.
Import ListNotations.
Open Scope Z_scope.

Definition dgood (fs:list field) (e0:env) (data:list Z) (cv:env) (n:nat) : Prop :=
  forall fd, (lsize fs + length data < fd)%nat -> dec fd fs e0 data = Ok (e0 ++ cv, n).
Definition ditems (item:list field) (data:list Z) (vcs:list val) : Prop :=
  forall fd, (lsize item + length data + 1 < fd)%nat -> dec_seq fd item data = Ok vcs.

Lemma dgood_eq fs e0 data cv n data' cv' n' : data = data' -> cv = cv' -> n = n' -> dgood fs e0 data cv n -> dgood fs e0 data' cv' n'.
Proof. intros -> -> ->. auto. Qed.

Lemma dgood_nil e0 data : dgood [] e0 data [] 0.
Proof. intros fd Hfd. destruct fd; [lia|]. cbn [dec]. rewrite app_nil_r. reflexivity. Qed.

Lemma dgood_absent f fs e0 data cv n : get_pres (fpres f) e0 = Ok false -> dgood fs e0 data cv n -> dgood (f :: fs) e0 data cv n.
Proof.
  intros Hp Hg fd Hfd. destruct fd as [|k]; [lia|]. rewrite lsize_cons in Hfd. pose proof (fsize_pos f).
  cbn [dec]. unfold dec_field. rewrite Hp. cbn [bind negb fst snd skipn]. rewrite (Hg k) by lia. reflexivity.
Qed.

(* one present field; the payload may use the nested decoders, which then have at least fsize f + |chunk| fuel *)
Lemma dgood_step f fs e0 here tail cvf cv m :
  get_pres (fpres f) e0 = Ok true -> get_len_f f e0 (length (here ++ tail)) = Ok (length here) ->
  (forall k, (fsize f + length here <= k)%nat -> dec_payload (dec k) (dec_seq k) f e0 here = Ok (e0 ++ cvf)) ->
  dgood fs (e0 ++ cvf) tail cv m ->
  dgood (f :: fs) e0 (here ++ tail) (cvf ++ cv) (length here + m).
Proof.
  intros Hp Hl Hpay Hg fd Hfd. destruct fd as [|k]; [lia|]. rewrite lsize_cons, app_length in Hfd.
  rewrite (dec_step k f fs e0 here tail (e0 ++ cvf) ((e0 ++ cvf) ++ cv, m)).
  - cbn [fst snd]. rewrite <- app_assoc. reflexivity.
  - apply dec_field_present; [exact Hp|exact Hl|apply Hpay; lia].
  - apply Hg. pose proof (fsize_pos f). lia.
Qed.

(* payloads *)
Lemma pay_uint recd recs nm l p n le sg off mult raw bs e0 : (1 <= n)%nat -> enc_int n le sg raw = Ok bs -> lookup nm e0 = None ->
  dec_payload recd recs (FUint nm l p le sg off mult) e0 bs = Ok (e0 ++ [(nm, VInt (raw * mult + off))]).
Proof. intros Hn He Hk. destruct (int_rt _ _ _ _ _ Hn He) as [Hd _]. cbn [dec_payload]. rewrite Hd, eset_fresh by exact Hk. reflexivity. Qed.
Lemma pay_buf recd recs nm l p bb e0 : lookup nm e0 = None -> dec_payload recd recs (FBuf nm l p) e0 bb = Ok (e0 ++ [(nm, VBytes bb)]).
Proof. intros Hk. cbn [dec_payload]. rewrite eset_fresh by exact Hk. reflexivity. Qed.
Lemma pay_spare recd recs l p fl e0 here : dec_payload recd recs (FSpare l p fl) e0 here = Ok (e0 ++ []).
Proof. rewrite app_nil_r. reflexivity. Qed.

Lemma dgood_uint nm n le sg off mult raw bs fs e0 tail cv m : (1 <= n)%nat -> enc_int n le sg raw = Ok bs -> lookup nm e0 = None ->
  dgood fs (e0 ++ [(nm, VInt (raw * mult + off))]) tail cv m ->
  dgood (FUint nm (LFix n) PAlways le sg off mult :: fs) e0 (bs ++ tail) ([(nm, VInt (raw * mult + off))] ++ cv) (length bs + m).
Proof.
  intros Hn He Hk Hg. destruct (int_rt _ _ _ _ _ Hn He) as [_ [Hlen _]].
  apply dgood_step; [reflexivity|cbn [get_len_f flen]; rewrite Hlen; apply get_len_fix, Hn| |exact Hg].
  intros k _. apply (pay_uint _ _ nm (LFix n) PAlways n); assumption.
Qed.

Lemma dgood_spare n fl fs e0 a tail cv m : length a = S n -> dgood fs e0 tail cv m ->
  dgood (FSpare (LFix (S n)) PAlways fl :: fs) e0 (a ++ tail) cv (length a + m).
Proof.
  intros Ha Hg. change cv with ([] ++ cv). apply dgood_step; [reflexivity|cbn [get_len_f flen get_len]; rewrite Ha; reflexivity| |rewrite app_nil_r; exact Hg].
  intros k _. apply pay_spare.
Qed.

Lemma dgood_bits l lsb bfs bcv fs e0 here tail cv m : length here = bits_len l bfs ->
  dec_bits (bits_layout l lsb bfs) (from_be here) e0 = Ok (e0 ++ bcv) ->
  dgood fs (e0 ++ bcv) tail cv m ->
  dgood (FBits l PAlways lsb bfs :: fs) e0 (here ++ tail) (bcv ++ cv) (length here + m).
Proof.
  intros Hl Hd Hg. apply dgood_step; [reflexivity|cbn [get_len_f]; rewrite Hl; reflexivity| |exact Hg].
  intros k _. cbn [dec_payload]. exact Hd.
Qed.

Lemma dgood_buf nm l p bb fs e0 tail cv m : get_pres p e0 = Ok true -> get_len l e0 (length (bb ++ tail)) = Ok (length bb) ->
  lookup nm e0 = None -> dgood fs (e0 ++ [(nm, VBytes bb)]) tail cv m ->
  dgood (FBuf nm l p :: fs) e0 (bb ++ tail) ([(nm, VBytes bb)] ++ cv) (length bb + m).
Proof.
  intros Hp Hl Hk Hg. apply dgood_step; [exact Hp|exact Hl| |exact Hg]. intros k _. apply pay_buf, Hk.
Qed.

(* a sequence that takes the rest of the buffer, as the last field *)
Lemma dgood_seq_last nm p item here vcs e0 : get_pres p e0 = Ok true -> lookup nm e0 = None -> ditems item here vcs ->
  dgood [FSeq nm LRest p item] e0 here [(nm, VList vcs)] (length here).
Proof.
  intros Hp Hk Hi. apply (dgood_eq _ _ (here ++ []) ([(nm, VList vcs)] ++ []) (length here + 0)%nat); [apply app_nil_r|reflexivity|lia|].
  apply dgood_step; [exact Hp|cbn [get_len_f flen get_len]; rewrite app_nil_r; reflexivity| |apply dgood_nil].
  intros k Hk'. cbn [fsize] in Hk'. fold (lsize item) in Hk'. cbn [dec_payload]. rewrite (Hi k) by lia. cbn [bind]. rewrite eset_fresh by exact Hk. reflexivity.
Qed.

Lemma ditems_nil item : ditems item [] [].
Proof. intros fd Hfd. destruct fd; [lia|]. reflexivity. Qed.

Lemma dec_seq_S k item data : (1 <= length data)%nat ->
  dec_seq (S k) item data = (r <- wrapD (dec k item [] data) ;;
    match snd r with O => OutOfFuel | S m => vs <- dec_seq k item (skipn (S m) data) ;; Ok (VDict (fst r) :: vs) end).
Proof. intros H. destruct data; [cbn [length] in H; lia|reflexivity]. Qed.

Lemma ditems_cons item b1 bs dcv vcs : dgood item [] (b1 ++ bs) dcv (length b1) -> (1 <= length b1)%nat -> ditems item bs vcs ->
  ditems item (b1 ++ bs) (VDict dcv :: vcs).
Proof.
  intros Hd Hl Hi fd Hfd. destruct fd as [|k]; [lia|]. rewrite app_length in Hfd.
  rewrite dec_seq_S by (rewrite app_length; lia). rewrite (Hd k) by (rewrite app_length; lia). cbn [wrapD bind fst snd app].
  destruct (length b1) as [|m] eqn:Em; [lia|]. rewrite <- Em, skipn_app_len. rewrite (Hi k) by lia. reflexivity.
Qed.

(* the packed integer of fitting values decodes to those values *)
Lemma dec_bits_of_blob l lsb bfs e bcv blob e0 : bits_wf l bfs -> bits_fit (bits_order lsb bfs) e bcv ->
  enc_bits (bits_layout l lsb bfs) e 0 = Ok blob -> fresh e0 bcv ->
  dec_bits (bits_layout l lsb bfs) blob e0 = Ok (e0 ++ bcv).
Proof.
  intros Hwf Hbf Hblob Hfr. destruct (bits_enc l lsb bfs e bcv Hwf Hbf) as [H1 [_ H3]].
  rewrite H1 in Hblob. assert (Eb : blob = packed (bits_order lsb bfs) e (8 * Z.of_nat (bits_len l bfs))) by congruence. subst blob.
  destruct (bits_enc_dec l lsb bfs e bcv e0 Hwf Hbf Hfr) as [blob' [b [E1 [E2 [_ [_ E5]]]]]].
  rewrite H1 in E1. assert (Eb' : blob' = packed (bits_order lsb bfs) e (8 * Z.of_nat (bits_len l bfs))) by congruence. subst blob'.
  destruct (bits_enc l lsb bfs e bcv Hwf Hbf) as [_ [H2 _]]. rewrite H2 in E2. assert (Ebb : b = to_be (bits_len l bfs) (packed (bits_order lsb bfs) e (8 * Z.of_nat (bits_len l bfs)))) by congruence.
  subst b. rewrite from_to_be in E5 by exact H3. exact E5.
Qed.

(* at the Envelope API *)
Lemma dgood_top chk fs data cv : dgood fs [] data cv (length data) -> proto_ok fs = true -> decode chk fs data = Ok (cv, length data).
Proof.
  intros Hg Hpo. unfold decode. rewrite Hpo, (Hg (dec_fuel fs data)) by (unfold dec_fuel; lia).
  cbn [wrapD bind fst snd app]. rewrite Nat.eqb_refl. cbn [negb]. rewrite andb_false_r. reflexivity.
Qed.
