(* TxMsg: validation = protocol ranges, encoding layout, round trip, legacy padding *)
From Coq Require Import ZArith List Bool Lia ZifyBool.
From OBB Require Import Base.Range Gen.TrxdConst Model.Trxd Proofs.TrxdBase.
Import ListNotations.
Open Scope Z_scope.
Ltac Zify.zify_post_hook ::= Z.to_euclidean_division_equations.

(* the statement's ranges, literal numbers *)
Definition spec_common (ver : Z) (fn tn : option Z) : Prop :=
  (ver = 0 \/ ver = 1) /\ (exists f, fn = Some f /\ 0 <= f <= 2715647) /\ (exists t, tn = Some t /\ 0 <= t <= 7).
Definition spec_tx (m : txmsg) : Prop :=
  spec_common (t_ver m) (t_fn m) (t_tn m) /\ (exists p, t_pwr m = Some p /\ 0 <= p <= 255)
  /\ (exists b, t_burst m = Some b /\ (length b = 148%nat \/ length b = 444%nat)).

Lemma validate_common_iff ver fn tn : validate_common ver fn tn = Ok tt <-> spec_common ver fn tn.
Proof.
  unfold validate_common, spec_common. rewrite gen_hyper.
  destruct (known ver) eqn:Hk; cbn [negb].
  - apply known_iff in Hk. split.
    + intros H. apply bind_ok in H as [[] [H1 H2]]. apply in_rng_ok in H1, H2. split; [exact Hk|]. split; [|exact H2].
      destruct H1 as [f [-> Hf]]. exists f. split; [reflexivity|lia].
    + intros [_ [[f [-> Hf]] Ht]]. apply in_rng_iff in Ht.
      assert (E : in_rng 0 (2715648 - 1) (Some f) = Ok tt) by (apply in_rng_iff; exists f; split; [reflexivity|lia]).
      rewrite E. exact Ht.
  - split; [discriminate|]. intros [Hv _]. apply known_iff in Hv. congruence.
Qed.

Lemma validate_common_cases ver fn tn : validate_common ver fn tn = Ok tt \/ validate_common ver fn tn = VErr.
Proof.
  unfold validate_common. destruct (negb _); [auto|].
  destruct (in_rng_cases 0 (gsm_hyperframe - 1) fn) as [->| ->]; cbn [bind]; [apply in_rng_cases|auto].
Qed.

Lemma validate_tx_iff m : validate_tx m = Ok tt <-> spec_tx m.
Proof.
  unfold validate_tx, spec_tx. destruct gen_pwr as [-> ->]. destruct gen_bl as [-> ->]. split.
  - intros H. apply bind_ok in H as [[] [H1 H]]. apply bind_ok in H as [[] [H2 H]].
    apply validate_common_iff in H1. apply in_rng_ok in H2. split; [exact H1|]. split; [exact H2|].
    destruct (t_burst m) as [b|]; [|discriminate]. exists b. split; [reflexivity|].
    destruct (_ || _) eqn:E in H; [lia|discriminate].
  - intros [H1 [H2 [b [Hb Hl]]]]. apply validate_common_iff in H1. apply in_rng_iff in H2. rewrite H1. cbn [bind]. rewrite H2. cbn [bind].
    rewrite Hb. destruct (_ || _) eqn:E; [reflexivity|lia].
Qed.

Lemma validate_tx_cases m : validate_tx m = Ok tt \/ validate_tx m = VErr.
Proof.
  unfold validate_tx. destruct (validate_common_cases (t_ver m) (t_fn m) (t_tn m)) as [->| ->]; cbn [bind]; [|auto].
  destruct (in_rng_cases pwr_min pwr_max (t_pwr m)) as [->| ->]; cbn [bind]; [|auto].
  destruct (t_burst m); [destruct (_ || _)|]; auto.
Qed.

(* encoding succeeds exactly for the messages that validate, and never raises anything but ValueError *)
Lemma gen_tx_iff m l : (exists b, gen_tx l m = Ok b) <-> validate_tx m = Ok tt.
Proof.
  unfold gen_tx. split.
  - intros [b H]. apply bind_ok in H as [[] [H _]]. exact H.
  - intros ->. cbn [bind]. eauto.
Qed.
Lemma gen_tx_cases m l : (exists b, gen_tx l m = Ok b) \/ gen_tx l m = VErr.
Proof. unfold gen_tx. destruct (validate_tx_cases m) as [->| ->]; cbn [bind]; eauto. Qed.

(* documented layout of a Tx message *)
Definition layout_tx (ver fn tn pwr : Z) (burst : list Z) : list Z :=
  [ver * 16 + tn; fn / 16777216 mod 256; fn / 65536 mod 256; fn / 256 mod 256; fn mod 256; pwr] ++ burst.

Lemma b0_val v t : 0 <= v < 2 -> 0 <= t < 8 -> Z.lor (Z.shiftl v 4) (Z.land t 7) = v * 16 + t.
Proof.
  intros Hv Ht. assert (Hc : (v = 0 \/ v = 1)) by lia.
  assert (Hd : t = 0 \/ t = 1 \/ t = 2 \/ t = 3 \/ t = 4 \/ t = 5 \/ t = 6 \/ t = 7) by lia.
  destruct Hc as [-> | ->]; repeat (destruct Hd as [-> | Hd]; [reflexivity|]); subst; reflexivity.
Qed.

Lemma gen_tx_layout m l b : gen_tx l m = Ok b ->
  exists fn tn pwr bu, t_fn m = Some fn /\ t_tn m = Some tn /\ t_pwr m = Some pwr /\ t_burst m = Some bu /\
    b = layout_tx (t_ver m) fn tn pwr bu ++ (if l && (t_ver m =? 0) then [0; 0] else []).
Proof.
  intros H. unfold gen_tx in H. apply bind_ok in H as [[] [Hv H]].
  match type of H with Ok ?X = _ => set (xx := X) in H end. injection H as <-. subst xx.
  apply validate_tx_iff in Hv. destruct Hv as [[Hver [[f [Ef Hf]] [t [Et Ht]]]] [[p [Ep Hp]] [bu [Eb Hl]]]].
  exists f, t, p, bu. repeat (split; [assumption|]).
  rewrite Ef, Et, Ep, Eb. unfold gen_common, layout_tx, be32, oz.
  rewrite b0_val by lia. reflexivity.
Qed.

Lemma tx_parse_burst_pad bu pad : (length bu = 148%nat \/ length bu = 444%nat) -> (length pad = 0%nat \/ length pad = 2%nat) ->
  tx_parse_burst (bu ++ pad) = bu.
Proof.
  intros Hl Hp. unfold tx_parse_burst. destruct gen_bl as [-> ->]. rewrite app_length.
  destruct Hl as [Hl|Hl]; destruct Hp as [Hp|Hp]; rewrite Hl, Hp; cbn [Nat.add Z.of_nat];
    repeat match goal with |- context [if ?c then _ else _] => let E := fresh in destruct c eqn:E; try (exfalso; lia) end;
    try (destruct pad; [|discriminate]; apply app_nil_r);
    apply firstn_app_exact; rewrite Hl; reflexivity.
Qed.

Theorem tx_roundtrip m legacy b : gen_tx legacy m = Ok b -> parse_tx b = Ok m.
Proof.
  intros H. destruct (gen_tx_layout _ _ _ H) as [f [t [p [bu [Ef [Et [Ep [Eb ->]]]]]]]].
  assert (Hv : validate_tx m = Ok tt) by (apply (proj1 (gen_tx_iff m legacy)); eauto). clear H.
  apply validate_tx_iff in Hv. rename Hv into H. destruct H as [[Hver [[f' [Ef' Hf]] [t' [Et' Ht]]]] [[p' [Ep' Hp]] [bu' [Eb' Hl]]]].
  rewrite Ef in Ef'. rewrite Et in Et'. rewrite Ep in Ep'. rewrite Eb in Eb'.
  injection Ef' as <-. injection Et' as <-. injection Ep' as <-. injection Eb' as <-.
  destruct m as [v fn0 tn0 pw0 bu0]. cbn [t_ver t_fn t_tn t_pwr t_burst] in *. subst fn0 tn0 pw0 bu0.
  set (pad := if legacy && (v =? 0) then [0; 0] else []).
  assert (Hpad : length pad = 0%nat \/ length pad = 2%nat) by (subst pad; destruct (_ && _); cbn; auto).
  unfold layout_tx. cbn [app].
  unfold parse_tx. cbn [length Nat.ltb Nat.leb idx nth_error bind].
  assert (Hsh : Z.shiftr (v * 16 + t) 4 = v /\ Z.land (v * 16 + t) 7 = t).
  { rewrite <- b0_val by lia. destruct (b0_rt v t ltac:(lia) ltac:(lia)) as [A [B _]]. auto. }
  destruct Hsh as [-> ->].
  assert (Hk : known v = true) by (apply known_iff; exact Hver). rewrite Hk. cbn [negb].
  unfold slice. cbn [skipn Nat.sub firstn].
  change [f / 16777216 mod 256; f / 65536 mod 256; f / 256 mod 256; f mod 256] with (be32 f).
  rewrite be32_rt by lia. cbn [bind].
  assert (Hhl : tx_hdr_len v = Ok 6%nat) by (unfold tx_hdr_len; destruct Hver as [-> | ->]; reflexivity).
  rewrite Hhl. cbn [bind Nat.ltb Nat.leb Nat.eqb skipn].
  destruct (bu ++ pad) as [|x xs] eqn:Ebp.
  { exfalso. apply (f_equal (@length Z)) in Ebp. rewrite app_length in Ebp. cbn in Ebp. lia. }
  cbn [length Nat.eqb]. rewrite <- Ebp. rewrite tx_parse_burst_pad by assumption. reflexivity.
Qed.

(* a version-0 message with the two legacy padding octets decodes to the same message as without them *)
Lemma tx_legacy_same m b1 b2 : gen_tx true m = Ok b1 -> gen_tx false m = Ok b2 -> parse_tx b1 = parse_tx b2.
Proof. intros H1 H2. rewrite (tx_roundtrip _ _ _ H1), (tx_roundtrip _ _ _ H2). reflexivity. Qed.

(* every emitted octet is an octet (given a byte burst) *)
Lemma gen_tx_len m l b : gen_tx l m = Ok b ->
  exists bu, t_burst m = Some bu /\ length b = (6 + length bu + (if l && (t_ver m =? 0)%Z then 2 else 0))%nat.
Proof.
  intros H. destruct (gen_tx_layout _ _ _ H) as [f [t [p [bu [_ [_ [_ [Eb ->]]]]]]]]. exists bu. split; [exact Eb|].
  unfold layout_tx. rewrite !app_length. cbn [length]. destruct (_ && _); cbn [length]; lia.
Qed.

(* non-vacuity *)
Example tx_valid_example :
  exists b, gen_tx true {| t_ver := 0; t_fn := Some 2715647; t_tn := Some 7; t_pwr := Some 255; t_burst := Some (repeat 1 148) |} = Ok b
            /\ length b = 156%nat.
Proof. eexists. split; [vm_compute; reflexivity|reflexivity]. Qed.
