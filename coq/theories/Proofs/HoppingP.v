From Coq Require Import ZArith List Bool Lia ZifyBool.
From OBB Require Import Base.Range Gen.GsmTimeConst Gen.HoppingTab Model.GsmTime Proofs.GsmTimeP Model.Hopping.
Import ListNotations.
Open Scope Z_scope.
Ltac Zify.zify_post_hook ::= Z.to_euclidean_division_equations.

Lemma tab_py : py_rntable = spec_rntable. Proof. reflexivity. Qed.
Lemma tab_c : c_rn_table = spec_rntable. Proof. reflexivity. Qed.

(* finite obligations, stated literally and lifted *)
Lemma sweep_s :
  forallb (fun n => forallb (fun t3 => forallb (fun m =>
     (c_s m t3 n =? spec_s m t3 n) && (py_s m t3 n =? spec_s m t3 n))
     (range 0 153)) (range 0 51)) (range 1 65) = true.
Proof. vm_compute. reflexivity. Qed.

Lemma s_eq m t3 n : 0 <= m < 153 -> 0 <= t3 < 51 -> 1 <= n < 65 ->
  c_s m t3 n = spec_s m t3 n /\ py_s m t3 n = spec_s m t3 n.
Proof.
  intros Hm Ht Hn.
  pose proof (forallb_range _ _ _ (forallb_range _ _ _ (forallb_range _ _ _ sweep_s n Hn) t3 Ht) m Hm) as E.
  cbv beta in E. apply andb_prop in E as [E1 E2]. split; lia.
Qed.

Lemma sweep_xor :
  forallb (fun h => forallb (fun r => (0 <=? Z.lxor h r) && (Z.lxor h r <? 64)) (range 0 64)) (range 0 64) = true.
Proof. vm_compute. reflexivity. Qed.

Lemma xor_bound h r : 0 <= h < 64 -> 0 <= r < 64 -> 0 <= Z.lxor h r < 64.
Proof.
  intros Hh Hr. pose proof (forallb_range _ _ _ (forallb_range _ _ _ sweep_xor h Hh) r Hr) as E.
  cbv beta in E. lia.
Qed.

Lemma sweep_rn :
  forallb (fun i => match nthZ spec_rntable i with Some v => (0 <=? v) && (v <? 128) | None => false end) (range 0 114) = true.
Proof. vm_compute. reflexivity. Qed.

Lemma rn_bound i : 0 <= i < 114 -> exists v, nthZ spec_rntable i = Some v /\ 0 <= v < 128.
Proof.
  intros Hi. pose proof (forallb_range _ _ _ sweep_rn i Hi) as E. cbv beta in E.
  destruct (nthZ spec_rntable i) as [v|]; [|discriminate]. exists v. split; [reflexivity|lia].
Qed.

Lemma land63 x : 0 <= x -> Z.land x 63 = x mod 64.
Proof. intros. change 63 with (Z.ones 6). rewrite Z.land_ones by lia. reflexivity. Qed.

Definition HY : Z := 2715648.

Lemma c_spec hsn maio n fn : 0 <= hsn < 64 -> 0 <= maio -> 1 <= n <= 64 -> 0 <= fn < HY ->
  hop_c (fn2gsmtime fn) hsn maio n = hop_spec hsn maio n fn
  /\ exists mai, hop_spec hsn maio n fn = Some mai /\ 0 <= mai < n.
Proof.
  intros Hh Hm Hn Hf. unfold HY in Hf.
  rewrite fn2gsmtime_decomp by (unfold H; lia).
  unfold hop_c, hop_spec, decomp. cbn [g_fn g_t1 g_t2 g_t3].
  destruct (hsn =? 0) eqn:E0.
  - rewrite Z.rem_mod_nonneg by lia. split; [reflexivity|]. eexists; split; [reflexivity|].
    apply Z.mod_pos_bound; lia.
  - rewrite tab_c. rewrite land63 by lia.
    pose proof (xor_bound hsn ((fn / 1326) mod 64) Hh ltac:(lia)) as Hx.
    destruct (rn_bound (Z.lxor hsn ((fn / 1326) mod 64) + fn mod 51) ltac:(lia)) as [rn [Ern Hrn]].
    rewrite Ern.
    destruct (s_eq (fn mod 26 + rn) (fn mod 51) n ltac:(lia) ltac:(lia) ltac:(lia)) as [Ec _].
    rewrite Ec.
    assert (Hs : 0 <= spec_s (fn mod 26 + rn) (fn mod 51) n < n).
    { unfold spec_s. cbv zeta. destruct (_ <? _) eqn:?; [|lia].
      pose proof (Z.mod_pos_bound (fn mod 26 + rn) (2 ^ (Z.log2 n + 1)) ltac:(apply Z.pow_pos_nonneg; [lia|pose proof (Z.log2_nonneg n); lia])). lia. }
    rewrite Z.rem_mod_nonneg by lia.
    split; [reflexivity|]. eexists; split; [reflexivity|]. apply Z.mod_pos_bound; lia.
Qed.

Lemma py_spec hsn maio n fn : 0 <= hsn < 64 -> 0 <= maio -> 1 <= n <= 64 -> 0 <= fn < HY ->
  hop_py hsn maio n fn = hop_spec hsn maio n fn.
Proof.
  intros Hh Hm Hn Hf. unfold HY in Hf.
  unfold hop_py, hop_spec, py_fn2gsm_time.
  destruct (hsn =? 0) eqn:E0; [reflexivity|].
  rewrite tab_py. change (26 * 51) with 1326. rewrite land63 by lia.
  pose proof (xor_bound hsn ((fn / 1326) mod 64) Hh ltac:(lia)) as Hx.
  destruct (rn_bound (Z.lxor hsn ((fn / 1326) mod 64) + fn mod 51) ltac:(lia)) as [rn [Ern Hrn]].
  rewrite Ern.
  destruct (s_eq (fn mod 26 + rn) (fn mod 51) n ltac:(lia) ltac:(lia) ltac:(lia)) as [_ Ep].
  rewrite Ep. reflexivity.
Qed.

(* the channel is MA[MAI]: pick never leaves the mobile allocation when 0 <= mai < |ma| *)
Lemma pick_in ma mai : 0 <= mai < Z.of_nat (length ma) -> exists a, pick ma (Some mai) = [a] /\ nth_error ma (Z.to_nat mai) = Some a.
Proof.
  intros Hm. unfold pick, nthZ. destruct (mai <? 0) eqn:E; [lia|].
  destruct (nth_error ma (Z.to_nat mai)) as [a|] eqn:En.
  - exists a. split; reflexivity.
  - apply nth_error_None in En. lia.
Qed.

(* non-vacuity: a case that takes the deviation branch M' >= N *)
Example deviation_branch : hop_spec 49 0 56 1868089 = Some 14 /\ hop_c (fn2gsmtime 1868089) 49 0 56 = Some 14 /\ hop_py 49 0 56 1868089 = Some 14.
Proof. vm_compute. repeat split; reflexivity. Qed.

Lemma py_eq_c_ma hsn maio fn ma : 0 <= hsn < 64 -> 0 <= maio -> (1 <= length ma <= 64)%nat -> 0 <= fn < HY ->
  pick ma (hop_py hsn maio (Z.of_nat (length ma)) fn) = pick ma (hop_c (fn2gsmtime fn) hsn maio (Z.of_nat (length ma)))
  /\ exists mai a, hop_spec hsn maio (Z.of_nat (length ma)) fn = Some mai /\ nth_error ma (Z.to_nat mai) = Some a
                   /\ pick ma (hop_py hsn maio (Z.of_nat (length ma)) fn) = (a :: nil).
Proof.
  intros Hh Hm Hl Hf.
  destruct (c_spec hsn maio (Z.of_nat (length ma)) fn Hh Hm ltac:(lia) Hf) as [Ec [mai [Es Hmai]]].
  rewrite (py_spec hsn maio (Z.of_nat (length ma)) fn Hh Hm ltac:(lia) Hf), Ec. split; [reflexivity|].
  destruct (pick_in ma mai Hmai) as [a [Ep En]].
  exists mai, a. rewrite Es. auto.
Qed.
