(* C08: nothing runs in a frame it was not scheduled for - every item found d frames ahead of the current position
   (in particular every item an execute runs, d = 0) was put there by an earlier schedule / set operation of the history whose
   offset, minus the advances since, is d (modulo the ring depth 25). *)
From Coq Require Import ZArith List Bool Lia Permutation Sorted ZifyBool.
From OBB Require Import Gen.FwSchedConst Model.TdmaSched Proofs.TdmaSchedSpec Proofs.TdmaSchedSortP Proofs.TdmaSchedP Proofs.TdmaSchedRefP.
Import ListNotations.
Open Scope Z_scope.
Ltac Zify.zify_post_hook ::= Z.to_euclidean_division_equations.

(* operation o stores item it for the frame N frames ahead *)
Definition schedules (o : op) (N : Z) (it : item) : Prop :=
  match o with
  | OSched N' it' => N' = N /\ it' = it
  | OSet off set p3 => exists plan k, set_plan 0 set p3 = Some plan /\ In (k, it) plan /\ N = off + k
  | _ => False
  end.

Definition in_range (m : list aitem) : Prop := forall e, In e m -> 0 <= fst e < 25.

Lemma a_schedule_in m N it e : In e (fst (a_schedule m N it)) -> In e m \/ e = (N, it).
Proof. unfold a_schedule. destruct (8 <=? _); cbn [fst]; [auto|]. intros [<-|H]; auto. Qed.

Lemma a_place_in N ret : forall plan m e, In e (fst (a_place m N plan ret)) -> In e m \/ exists k it, In (k, it) plan /\ e = (N + k, it).
Proof.
  induction plan as [|[k it] r IH]; intros m e He; cbn [a_place] in He; [left; exact He|].
  destruct (a_schedule m (N + k) it) as [m1 rc] eqn:Es.
  assert (H1 : forall x, In x m1 -> In x m \/ x = (N + k, it)).
  { intros x Hx. apply a_schedule_in. rewrite Es. exact Hx. }
  destruct (rc =? 0).
  - destruct (IH m1 e He) as [Hm|(k' & it' & Hin & ->)].
    + destruct (H1 e Hm) as [Hm'| ->]; [left; exact Hm'|]. right. exists k, it. split; [left; reflexivity|reflexivity].
    + right. exists k', it'. split; [right; exact Hin|reflexivity].
  - cbn [fst] in He. destruct (H1 e He) as [Hm'| ->]; [left; exact Hm'|]. right. exists k, it. split; [left; reflexivity|reflexivity].
Qed.

Definition is_advance (o : op) : bool := match o with OAdvance => true | _ => false end.

Lemma a_step_in m o e : in_range m -> op_ok o -> In e (fst (a_step m o)) ->
  (exists e0, In e0 m /\ snd e = snd e0 /\ fst e = (fst e0 - (if is_advance o then 1 else 0)) mod 25) \/
  (exists N, schedules o N (snd e) /\ fst e = N /\ 0 <= N < 25).
Proof.
  intros Hr Hok He.
  assert (Hkeep : In e m -> exists e0, In e0 m /\ snd e = snd e0 /\ fst e = (fst e0 - 0) mod 25).
  { intros Hm. exists e. split; [exact Hm|]. split; [reflexivity|]. pose proof (Hr e Hm). lia. }
  destruct o as [off it|off set p3| | |]; cbn [a_step op_ok is_advance schedules] in *.
  - destruct Hok as (Ho & _). destruct (a_schedule m off it) as [m1 rc] eqn:Es. cbn [fst] in He.
    pose proof (a_schedule_in m off it e) as H. rewrite Es in H. destruct (H He) as [Hm| ->]; [left; auto|].
    right. exists off. cbn [fst snd]. auto.
  - destruct Hok as (H0 & Hb & plan & Hp). unfold a_set in He. rewrite Hp in He.
    destruct (a_place m off plan (set_nframes set)) as [m1 rc] eqn:Es. cbn [fst] in He.
    pose proof (a_place_in off (set_nframes set) plan m e) as H. rewrite Es in H.
    destruct (H He) as [Hm|(k & it & Hin & ->)]; [left; auto|].
    right. exists (off + k). cbn [fst snd]. split; [exists plan, k; auto|]. split; [reflexivity|].
    pose proof (plan_ok_of_set off set p3 plan H0 Hb Hp) as HF. rewrite Forall_forall in HF. specialize (HF _ Hin). cbn [fst] in HF. lia.
  - cbn [fst] in He. unfold a_advance in He. apply in_map_iff in He as (x & <- & Hx). left. exists x. cbn [fst snd]. auto.
  - unfold a_execute in He. cbn [fst snd] in He. apply filter_In in He as (Hm & _). left; auto.
  - cbn [fst] in He. unfold a_reset in He. apply filter_In in He as (Hm & _). left; auto.
Qed.

Lemma a_step_range m o : in_range m -> op_ok o -> in_range (fst (a_step m o)).
Proof.
  intros Hr Hok e He. destruct (a_step_in m o e Hr Hok He) as [(e0 & Hm & _ & Hf)|(N & _ & Hf & HN)]; lia.
Qed.

Lemma advances_cons o r : advances (o :: r) = (if is_advance o then 1 else 0) + advances r.
Proof. destruct o; reflexivity. Qed.

Lemma a_origin : forall ops m e, in_range m -> Forall op_ok ops -> In e (snd (a_run m ops)) ->
  (exists e0, In e0 m /\ snd e = snd e0 /\ fst e = (fst e0 - advances ops) mod 25) \/
  (exists a o b N, ops = a ++ o :: b /\ schedules o N (snd e) /\ 0 <= N < 25 /\ fst e = (N - advances b) mod 25).
Proof.
  induction ops as [|o r IH]; intros m e Hr HF He.
  - cbn [a_run snd advances] in *. left. exists e. split; [exact He|]. split; [reflexivity|]. pose proof (Hr e He). lia.
  - inversion HF as [|? ? Ho Hrest]; subst. cbn [a_run] in He.
    pose proof (a_step_range m o Hr Ho) as Hr1. pose proof (fun x => a_step_in m o x Hr Ho) as Hin1.
    destruct (a_step m o) as [m1 ob]. cbn [fst] in *.
    specialize (IH m1 e Hr1 Hrest). destruct (a_run m1 r) as [bs m2]. cbn [snd] in *.
    destruct (IH He) as [(e1 & Hm1 & Hs1 & Hf1)|(a & o' & b & N & -> & Hsch & HN & Hf)].
    + destruct (Hin1 e1 Hm1) as [(e0 & Hm & Hs0 & Hf0)|(N & Hsch & Hf0 & HN)].
      * left. exists e0. split; [exact Hm|]. split; [congruence|]. rewrite advances_cons. rewrite Hf1, Hf0.
        destruct (is_advance o); lia.
      * right. exists [], o, r, N. split; [reflexivity|]. split; [rewrite Hs1; exact Hsch|]. split; [exact HN|]. rewrite Hf1, Hf0. reflexivity.
    + right. exists (o :: a), o', b, N. split; [reflexivity|]. auto.
Qed.

Lemma in_due d it m : In it (due d m) -> In (d, it) m.
Proof.
  unfold due. intros H. apply in_map_iff in H as ([x it'] & Hs & Hf). cbn [snd] in Hs. subst it'.
  apply filter_In in Hf as (Hm & Hx). cbn [fst] in Hx. assert (x = d) by lia. subst x. exact Hm.
Qed.

(* from the empty scheduler, at any ring position *)
Lemma nothing_else rcf c ops : 0 <= c < 25 -> (forall x, 0 <= rcf x) -> Forall op_ok ops ->
  exists os st, run rcf (init c) ops = (os, FOk st) /\
    forall d it, 0 <= d < 25 -> In it (bucket_due st d) ->
      exists a o b N, ops = a ++ o :: b /\ schedules o N it /\ 0 <= N < 25 /\ (N - advances b) mod 25 = d.
Proof.
  intros Hc Hr HF. destruct (init_wf c Hc) as (Hwf & Hcb).
  destruct (run_refines rcf Hr ops (init c) [] Hwf Hcb (init_refines c Hc) HF) as (os & st & Hrun & _ & _ & (_ & HR) & _).
  exists os, st. split; [exact Hrun|]. intros d it Hd Hin.
  assert (Hin' : In it (due d (snd (a_run [] ops)))) by (eapply Permutation_in; [apply HR; exact Hd|exact Hin]).
  apply in_due in Hin'.
  destruct (a_origin ops [] (d, it) ltac:(intros e []) HF Hin') as [(e0 & [] & _)|(a & o & b & N & E & Hs & HN & Hf)].
  exists a, o, b, N. cbn [fst snd] in *. auto.
Qed.
