(* C16: the decoded message is canonical - encoding what the decoder returned reproduces exactly the octets that
   encoding the original values produced (over-wide bit values, ignored user values of fixed fields, extra keys and
   key order of the original dict make no difference). *)
From Coq Require Import ZArith List Bool Lia.
From OBB Require Import Base.Bits Model.Codec Proofs.CodecInt Proofs.CodecBits Proofs.CodecRT Proofs.CodecDE.
Import ListNotations.
Open Scope Z_scope.

Lemma lookup_fresh_mid e0 cv ext k v : fresh e0 cv -> In (k, v) cv -> lookup k (e0 ++ cv ++ ext) = Some v.
Proof.
  intros [Hnd Hl] Hin. rewrite lookup_app, (Hl k), lookup_app, (lookup_in_nodup _ _ _ Hnd Hin); [reflexivity|].
  unfold keys. apply in_map_iff. exists (k, v). auto.
Qed.

Lemma enc_bits_agree fs e E' cv : bits_fit fs e cv -> (forall k v, In (k, v) cv -> lookup k E' = Some v) ->
  forall off blob, enc_bits (layout fs off) E' blob = enc_bits (layout fs off) e blob.
Proof.
  induction 1 as [e|bl fx r e cv Hr IH|k bl z r e cv Hl Hr IH|k bl c r e cv Hc Hr IH]; intros HE off blob.
  - reflexivity.
  - cbn [layout enc_bits bf_val bind]. apply IH, HE.
  - cbn [layout enc_bits bf_val]. rewrite Hl. rewrite (HE k _ (or_introl eq_refl)). cbn [bind].
    rewrite mask_mod by lia. apply IH. intros k' v' Hin. apply HE. right. exact Hin.
  - cbn [layout enc_bits bf_val bind]. apply IH. intros k' v' Hin. apply HE. right. exact Hin.
Qed.

Lemma spare_len_canon l e e0 x L n : get_len l e O = Ok n -> get_len l e0 L = Ok n -> get_len l (e0 ++ x) O = Ok n.
Proof. destruct l as [[|m]| | |]; cbn [get_len]; auto. intros _. apply tab_get_ext. Qed.

Lemma enc_field_eq rec f e E' : get_pres (fpres f) E' = get_pres (fpres f) e -> enc_payload rec f E' = enc_payload rec f e ->
  enc_field rec f E' = enc_field rec f e.
Proof. intros H1 H2. unfold enc_field. rewrite H1, H2. reflexivity. Qed.

Lemma enc_cons_eq k f fs e E' : enc_field (enc k) f E' = enc_field (enc k) f e -> enc k fs E' = enc k fs e ->
  enc (S k) (f :: fs) E' = enc (S k) (f :: fs) e.
Proof. intros H1 H2. cbn [enc]. rewrite H1, H2. reflexivity. Qed.

Lemma reassoc {A} (e0 c1 c2 ext:list A) : e0 ++ (c1 ++ c2) ++ ext = (e0 ++ c1) ++ c2 ++ ext.
Proof. rewrite <- !app_assoc. reflexivity. Qed.

Lemma enc_canon_mut :
  (forall fs e e0 R cv u, fits fs e e0 R cv u -> forall ext fe, fresh e0 cv -> enc fe fs (e0 ++ cv ++ ext) = enc fe fs e) /\
  (forall item vs vcs n, fits_items item vs vcs n -> forall fe, enc_items (enc fe item) vcs = enc_items (enc fe item) vs).
Proof.
  apply fits_mutind.
  - intros e e0 R ext fe _. destruct fe; reflexivity.
  - intros f fs e e0 R cv u Hpe Hp0 _ IH ext fe Hfr. destruct fe as [|k]; [reflexivity|]. apply enc_cons_eq; [|apply IH, Hfr].
    unfold enc_field. rewrite Hpe, (get_pres_ext _ _ _ _ Hp0). reflexivity.
  - intros nm n p le sg off mult raw fs e e0 R cv u Hpe Hp0 Hn Hm Hl Hr _ IH ext fe Hfr. destruct fe as [|k]; [reflexivity|].
    destruct (fresh_cons _ _ _ _ Hfr) as [Hk Hfr'].
    apply enc_cons_eq; [|change ((nm, VInt (raw * mult + off)) :: cv) with ([(nm, VInt (raw * mult + off))] ++ cv); rewrite reassoc; apply IH, Hfr'].
    apply enc_field_eq; cbn [fpres enc_payload]; [rewrite Hpe; apply get_pres_ext, Hp0|].
    rewrite Hl, (lookup_fresh_mid _ _ _ _ _ Hfr (or_introl eq_refl)). reflexivity.
  - intros nm l p bb fs e e0 R cv u Hpe Hp0 Hl Hgl _ IH ext fe Hfr. destruct fe as [|k]; [reflexivity|].
    destruct (fresh_cons _ _ _ _ Hfr) as [Hk Hfr'].
    apply enc_cons_eq; [|change ((nm, VBytes bb) :: cv) with ([(nm, VBytes bb)] ++ cv); rewrite reassoc; apply IH, Hfr'].
    apply enc_field_eq; cbn [fpres enc_payload]; [rewrite Hpe; apply get_pres_ext, Hp0|].
    rewrite Hl, (lookup_fresh_mid _ _ _ _ _ Hfr (or_introl eq_refl)). reflexivity.
  - intros l p filler n fs e e0 R cv u Hpe Hp0 Hge Hg0 _ IH ext fe Hfr. destruct fe as [|k]; [reflexivity|].
    apply enc_cons_eq; [|apply IH, Hfr].
    apply enc_field_eq; cbn [fpres enc_payload]; [rewrite Hpe; apply get_pres_ext, Hp0|].
    rewrite Hge, (spare_len_canon _ _ _ _ _ _ Hge Hg0). reflexivity.
  - intros l p lsb bfs bcv fs e e0 R cv u Hpe Hp0 Hwf Hbf _ IH ext fe Hfr. destruct fe as [|k]; [reflexivity|].
    destruct (fresh_app _ _ _ Hfr) as [Hfb Hfr'].
    apply enc_cons_eq; [|rewrite reassoc; apply IH, Hfr'].
    apply enc_field_eq; cbn [fpres enc_payload]; [rewrite Hpe; apply get_pres_ext, Hp0|].
    unfold bits_layout. rewrite (enc_bits_agree _ _ (e0 ++ (bcv ++ cv) ++ ext) _ Hbf); [reflexivity|].
    intros x v Hin. apply lookup_fresh_mid; [exact Hfr|apply in_or_app; left; exact Hin].
  - intros nm l p chk body d dcv n fs e e0 R cv u Hpe Hp0 Hl _ IHb Hnd Hgl _ IH ext fe Hfr. destruct fe as [|k]; [reflexivity|].
    destruct (fresh_cons _ _ _ _ Hfr) as [Hk Hfr'].
    apply enc_cons_eq; [|change ((nm, VDict dcv) :: cv) with ([(nm, VDict dcv)] ++ cv); rewrite reassoc; apply IH, Hfr'].
    apply enc_field_eq; cbn [fpres enc_payload]; [rewrite Hpe; apply get_pres_ext, Hp0|].
    rewrite Hl, (lookup_fresh_mid _ _ _ _ _ Hfr (or_introl eq_refl)).
    specialize (IHb [] k (fresh_of_nodup _ Hnd)). cbn [app] in IHb. rewrite app_nil_r in IHb. rewrite IHb. reflexivity.
  - intros nm l p item vs vcs n fs e e0 R cv u Hpe Hp0 Hl _ IHi Hgl _ IH ext fe Hfr. destruct fe as [|k]; [reflexivity|].
    destruct (fresh_cons _ _ _ _ Hfr) as [Hk Hfr'].
    apply enc_cons_eq; [|change ((nm, VList vcs) :: cv) with ([(nm, VList vcs)] ++ cv); rewrite reassoc; apply IH, Hfr'].
    apply enc_field_eq; cbn [fpres enc_payload]; [rewrite Hpe; apply get_pres_ext, Hp0|].
    rewrite Hl, (lookup_fresh_mid _ _ _ _ _ Hfr (or_introl eq_refl)). apply IHi.
  - intros item fe. reflexivity.
  - intros item d dcv ui vs vcs us _ IHd Hnd _ _ IHr fe. cbn [enc_items].
    specialize (IHd [] fe (fresh_of_nodup _ Hnd)). cbn [app] in IHd. rewrite app_nil_r in IHd. rewrite IHd, IHr. reflexivity.
Qed.

(* re-encoding the decoded message reproduces the octets *)
Lemma reencode_canonical fs e cv u b : wf_values fs e cv u -> encode fs e = Ok b ->
  decode true fs b = Ok (cv, length b) /\ encode fs cv = Ok b.
Proof.
  intros Hwf Henc. split; [apply (enc_dec_top fs e cv u b true Hwf Henc)|].
  destruct Hwf as [Hfit Hnd]. unfold encode in *. destruct (proto_ok fs); [|discriminate].
  pose proof (proj1 enc_canon_mut _ _ _ _ _ _ Hfit [] (enc_fuel fs) (fresh_of_nodup _ Hnd)) as H.
  cbn [app] in H. rewrite app_nil_r in H. rewrite H. exact Henc.
Qed.
