(* C14: the message parser signals nothing but ValueError, whatever the octets *)
From Coq Require Import ZArith List Bool Lia ZifyBool.
From OBB Require Import Base.Range Gen.TrxdConst Model.Trxd Proofs.TrxdBase.
Import ListNotations.
Open Scope Z_scope.

Lemma idx_ok l i : (i < length l)%nat -> exists x, idx l i = Ok x.
Proof. intros H. unfold idx. destruct (nth_error l i) eqn:E; [eauto|]. apply nth_error_None in E. lia. Qed.

Lemma slice_len l a b : (b <= length l)%nat -> (a <= b)%nat -> length (slice l a b) = (b - a)%nat.
Proof. intros H1 H2. unfold slice. rewrite firstn_length, skipn_length. lia. Qed.

Lemma un_be32_ok l : length l = 4%nat -> exists x, un_be32 l = Ok x.
Proof. intros H. destruct l as [|a [|b [|c [|d [|e r]]]]]; try discriminate. unfold un_be32. eauto. Qed.
Lemma un_i16_ok l : length l = 2%nat -> exists x, un_i16 l = Ok x.
Proof. intros H. destruct l as [|a [|b [|c r]]]; try discriminate. unfold un_i16. eauto. Qed.

Theorem parse_tx_total msg : parse_tx msg <> Crash.
Proof.
  unfold parse_tx. destruct (Nat.ltb (length msg) 5) eqn:E5; [discriminate|]. apply Nat.ltb_ge in E5.
  destruct (idx_ok msg 0 ltac:(lia)) as [b0 ->]. cbn [bind].
  destruct (known (Z.shiftr b0 4)) eqn:Ek; cbn [negb]; [|discriminate].
  destruct (un_be32_ok (slice msg 1 5) (slice_len msg 1 5 ltac:(lia) ltac:(lia))) as [fn ->]. cbn [bind].
  apply known_iff in Ek. unfold tx_hdr_len. replace ((Z.shiftr b0 4 =? 0) || (Z.shiftr b0 4 =? 1)) with true by lia. cbn [bind].
  destruct (Nat.ltb (length msg) 6) eqn:E6; [discriminate|]. apply Nat.ltb_ge in E6.
  destruct (idx_ok msg 5 ltac:(lia)) as [p ->]. cbn [bind]. destruct (Nat.eqb (length msg) 6); discriminate.
Qed.

Theorem parse_rx_total msg : parse_rx msg <> Crash.
Proof.
  unfold parse_rx. destruct (Nat.ltb (length msg) 5) eqn:E5; [discriminate|]. apply Nat.ltb_ge in E5.
  destruct (idx_ok msg 0 ltac:(lia)) as [b0 ->]. cbn [bind].
  destruct (known (Z.shiftr b0 4)) eqn:Ek; cbn [negb]; [|discriminate].
  destruct (un_be32_ok (slice msg 1 5) (slice_len msg 1 5 ltac:(lia) ltac:(lia))) as [fn ->]. cbn [bind].
  apply known_iff in Ek. unfold rx_hdr_len.
  destruct Ek as [Ev|Ev]; rewrite Ev.
  - change (0 =? 0) with true. cbv iota. cbn [bind].
    destruct (Nat.ltb (length msg) 8) eqn:E8; [discriminate|]. apply Nat.ltb_ge in E8.
    destruct (idx_ok msg 5 ltac:(lia)) as [r ->]. cbn [bind].
    destruct (un_i16_ok (slice msg 6 8) (slice_len msg 6 8 ltac:(lia) ltac:(lia))) as [toa ->]. cbn [bind].
    change (0 >=? 1) with false. cbv iota. cbn [bind].
    destruct (Nat.eqb (length msg) 8); [discriminate|]. change (0 =? 0) with true. cbv iota.
    destruct (match pick_by_bl _ with Some i => Some i | None => _ end); discriminate.
  - change (1 =? 0) with false. change (1 =? 1) with true. cbv iota. cbn [bind].
    destruct (Nat.ltb (length msg) 11) eqn:E11; [discriminate|]. apply Nat.ltb_ge in E11.
    destruct (idx_ok msg 5 ltac:(lia)) as [r ->]. cbn [bind].
    destruct (un_i16_ok (slice msg 6 8) (slice_len msg 6 8 ltac:(lia) ltac:(lia))) as [toa ->]. cbn [bind].
    change (1 >=? 1) with true. cbv iota.
    destruct (idx_ok msg 8 ltac:(lia)) as [mts ->]. cbn [bind].
    destruct (un_i16_ok (slice msg 9 11) (slice_len msg 9 11 ltac:(lia) ltac:(lia))) as [ci ->]. cbn [bind].
    destruct (parse_mts mts) as [[[np mt] ts] tc]. cbn [bind].
    destruct (Nat.eqb (length msg) 11); [discriminate|]. change (1 =? 0) with false. cbv iota. discriminate.
Qed.
