(* C12: power events, child transceivers, clock links *)
From Coq Require Import ZArith List Bool Lia ZifyBool.
From OBB Require Import Base.Range Base.Dec Gen.TrxdConst Gen.FakeTrxConst Model.Trxd Model.Trx Proofs.TrxMeta Proofs.TrxInv.
Import ListNotations.
Open Scope Z_scope.

Lemma power_one_idem on t : power_one on (power_one on t) = power_one on t.
Proof. unfold power_one. destruct on; reflexivity. Qed.

Lemma fold_power_nth on : forall idxs l k,
  nth_error (fold_left (fun l j => upd l j (power_one on)) idxs l) k =
  if mem_nat k idxs then option_map (power_one on) (nth_error l k) else nth_error l k.
Proof.
  induction idxs as [|j r IH]; intros l k; cbn [fold_left mem_nat existsb]; [reflexivity|].
  rewrite IH. rewrite upd_nth. unfold mem_nat. rewrite (Nat.eqb_sym k j).
  destruct (Nat.eqb j k) eqn:E; cbn [orb].
  - destruct (existsb (Nat.eqb k) r); [|reflexivity]. destruct (nth_error l k); cbn [option_map]; [rewrite power_one_idem|]; reflexivity.
  - reflexivity.
Qed.

(* one power event, transceiver by transceiver: the affected ones get the new power state (and lose queue and hopping on power-off),
   all others are untouched; only power state, queue and hopping can change at all *)
Lemma power_event_nth w i on t k : nth_error (w_trx w) i = Some t ->
  nth_error (w_trx (power_event w i on)) k =
  if mem_nat k (affected t i) then option_map (power_one on) (nth_error (w_trx w) k) else nth_error (w_trx w) k.
Proof.
  intros Ht. unfold power_event. rewrite Ht. destruct (c_clock (x_cfg t)); cbn [w_trx]; apply fold_power_nth.
Qed.

Lemma power_one_fields on t : x_run (power_one on t) = on /\ x_rx (power_one on t) = x_rx t /\ x_tx (power_one on t) = x_tx t
  /\ x_ver (power_one on t) = x_ver t /\ x_sim (power_one on t) = x_sim t /\ x_cfg (power_one on t) = x_cfg t
  /\ (on = false -> x_q (power_one on t) = [] /\ x_fh (power_one on t) = None)
  /\ (on = true -> x_q (power_one on t) = x_q t /\ x_fh (power_one on t) = x_fh t).
Proof. unfold power_one. destruct on; cbn; repeat split; auto; discriminate. Qed.

(* the clock side of one power event *)
Lemma power_event_links w i on t : nth_error (w_trx w) i = Some t ->
  w_links (power_event w i on) =
    (if c_clock (x_cfg t) then
       if negb on && mem_nat i (w_links w) then remove_nat i (w_links w)
       else if on && negb (mem_nat i (w_links w)) then w_links w ++ [i] else w_links w
     else w_links w)
  /\ w_gen (power_event w i on) = (if c_clock (x_cfg t) then (0 <? length (w_links (power_event w i on)))%nat else w_gen w).
Proof.
  intros Ht. unfold power_event. rewrite Ht. destruct (c_clock (x_cfg t)); cbn [w_links w_gen]; [|auto].
  split; [reflexivity|]. destruct (w_gen w); cbn [negb andb].
  - destruct (length _) eqn:E; reflexivity.
  - destruct (length _) eqn:E; reflexivity.
Qed.

(* ---- the invariant over all command histories ---- *)
(* static wiring produced by the application: children never own a clock *)
Definition cfg_ok (w : world) : Prop :=
  forall p tp c tc, nth_error (w_trx w) p = Some tp -> In c (c_children (x_cfg tp)) -> nth_error (w_trx w) c = Some tc ->
    c_clock (x_cfg tc) = false /\ c <> p.

Definition clock_inv (w : world) : Prop :=
  NoDup (w_links w) /\
  (forall k, In k (w_links w) <-> exists t, nth_error (w_trx w) k = Some t /\ x_run t = true /\ c_clock (x_cfg t) = true) /\
  (forall k t, nth_error (w_trx w) k = Some t -> c_clock (x_cfg t) = true -> True) /\
  True.

Lemma mem_nat_In k l : mem_nat k l = true <-> In k l.
Proof. unfold mem_nat. rewrite existsb_exists. split; [intros [x [Hx E]]; apply Nat.eqb_eq in E; subst; exact Hx|intros H; exists k; split; [exact H|apply Nat.eqb_refl]]. Qed.

Lemma remove_nat_In x : forall l, NoDup l -> forall k, In k (remove_nat x l) <-> In k l /\ k <> x.
Proof.
  induction l as [|y r IH]; intros Hn k; cbn [remove_nat]; [tauto|].
  inversion Hn as [|y' r' Hy Hr]; subst. destruct (Nat.eqb x y) eqn:E.
  - apply Nat.eqb_eq in E. subst y. cbn [In]. split; [intros H; split; [right; exact H|intros ->; contradiction]|intros [[H|H] Hne]; [congruence|exact H]].
  - apply Nat.eqb_neq in E. cbn [In]. rewrite IH by exact Hr. split; [intros [<-|[H Hne]]; [split; [left; reflexivity|congruence]|split; [right; exact H|exact Hne]]|intros [[H|H] Hne]; [left; exact H|right; split; assumption]].
Qed.
Lemma remove_nat_NoDup x : forall l, NoDup l -> NoDup (remove_nat x l).
Proof.
  induction l as [|y r IH]; intros Hn; cbn [remove_nat]; [constructor|].
  inversion Hn as [|y' r' Hy Hr]; subst. destruct (Nat.eqb x y); [exact Hr|]. constructor; [|apply IH, Hr].
  intros H. apply remove_nat_In in H; [|exact Hr]. tauto.
Qed.

Lemma NoDup_app_intro_single {A} (l : list A) x : NoDup l -> ~ In x l -> NoDup (l ++ [x]).
Proof.
  induction l as [|y r IH]; intros Hn Hx; cbn [app]; [constructor; [intros []|constructor]|].
  inversion Hn as [|y' r' Hy Hr]; subst. constructor.
  - intros H. apply in_app_or in H as [H|[H|[]]]; [contradiction|]. subst. apply Hx. left. reflexivity.
  - apply IH; [exact Hr|]. intros H. apply Hx. right. exact H.
Qed.

Definition links_inv (w : world) : Prop :=
  NoDup (w_links w) /\
  (forall k, In k (w_links w) <-> exists t, nth_error (w_trx w) k = Some t /\ x_run t = true /\ c_clock (x_cfg t) = true) /\
  w_gen w = (0 <? length (w_links w))%nat.

Lemma cfg_ok_power w i on : cfg_ok w -> cfg_ok (power_event w i on).
Proof.
  intros H. destruct (nth_error (w_trx w) i) as [t|] eqn:Et; [|unfold power_event; rewrite Et; exact H].
  intros p tp c tc Hp Hc Htc. rewrite (power_event_nth w i on t p Et) in Hp. rewrite (power_event_nth w i on t c Et) in Htc.
  assert (Hp' : exists tp0, nth_error (w_trx w) p = Some tp0 /\ x_cfg tp = x_cfg tp0).
  { destruct (mem_nat p (affected t i)); [|eauto]. destruct (nth_error (w_trx w) p) as [u|]; [|discriminate]. cbn in Hp. injection Hp as <-.
    exists u. split; [reflexivity|]. apply power_one_fields. }
  assert (Hc' : exists tc0, nth_error (w_trx w) c = Some tc0 /\ x_cfg tc = x_cfg tc0).
  { destruct (mem_nat c (affected t i)); [|eauto]. destruct (nth_error (w_trx w) c) as [u|]; [|discriminate]. cbn in Htc. injection Htc as <-.
    exists u. split; [reflexivity|]. apply power_one_fields. }
  destruct Hp' as [tp0 [Hp0 Ep]]. destruct Hc' as [tc0 [Hc0 Ec]]. rewrite Ep in Hc. rewrite Ec. exact (H p tp0 c tc0 Hp0 Hc Hc0).
Qed.

(* the links invariant is kept by every power event (a successful POWERON or any POWEROFF of any transceiver) *)
Lemma links_inv_power w i on : cfg_ok w -> links_inv w -> (i < length (w_trx w))%nat -> links_inv (power_event w i on).
Proof.
  intros Hc [Hn [Hl Hg]] Hi. destruct (nth_error (w_trx w) i) as [t|] eqn:Et; [|apply nth_error_None in Et; lia].
  destruct (power_event_links w i on t Et) as [El Eg].
  assert (Hrun : forall k u, nth_error (w_trx (power_event w i on)) k = Some u ->
            exists u0, nth_error (w_trx w) k = Some u0 /\ x_cfg u = x_cfg u0 /\ x_run u = if mem_nat k (affected t i) then on else x_run u0).
  { intros k u Hk. rewrite (power_event_nth w i on t _ Et) in Hk. destruct (mem_nat k (affected t i)).
    - destruct (nth_error (w_trx w) k) as [u0|]; [|discriminate]. cbn in Hk. injection Hk as <-. exists u0. split; [reflexivity|].
      destruct (power_one_fields on u0) as [A [_ [_ [_ [_ [B _]]]]]]. auto.
    - exists u. auto. }
  assert (Haff_i : mem_nat i (affected t i) = true) by (unfold affected, mem_nat; destruct (c_mgt (x_cfg t) && (c_idx (x_cfg t) =? 0)); cbn [existsb]; rewrite Nat.eqb_refl; reflexivity).
  assert (Haff_own : forall k u0, nth_error (w_trx w) k = Some u0 -> c_clock (x_cfg u0) = true -> k <> i -> mem_nat k (affected t i) = false).
  { intros k u0 Hk Hck Hne. unfold affected, mem_nat. destruct (c_mgt (x_cfg t) && (c_idx (x_cfg t) =? 0)); cbn [existsb]; apply Nat.eqb_neq in Hne; rewrite Hne; [|reflexivity].
    cbn [orb]. destruct (existsb (Nat.eqb k) (c_children (x_cfg t))) eqn:Ex; [|reflexivity].
    apply existsb_exists in Ex as [c [Hin E]]. apply Nat.eqb_eq in E. subst c.
    destruct (Hc i t k u0 Et Hin Hk) as [Hcl _]. congruence. }
  destruct (c_clock (x_cfg t)) eqn:Eck.
  - (* the transceiver owns the clock: its link is added / removed *)
    unfold links_inv. rewrite Eg. split; [|split; [|reflexivity]].
    + rewrite El. destruct (negb on && mem_nat i (w_links w)) eqn:E1; [apply remove_nat_NoDup, Hn|].
      destruct (on && negb (mem_nat i (w_links w))) eqn:E2; [|exact Hn].
      apply andb_prop in E2 as [_ E2]. apply NoDup_app_intro_single; [exact Hn|]. intros H. apply mem_nat_In in H. rewrite H in E2. discriminate.
    + intros k. rewrite El. split.
      * intros Hin. assert (Hk : exists u, nth_error (w_trx (power_event w i on)) k = Some u).
        { assert (Hkl : In k (w_links w) \/ k = i).
          { destruct (negb on && mem_nat i (w_links w)); [apply remove_nat_In in Hin; [tauto|exact Hn]|].
            destruct (on && negb (mem_nat i (w_links w))); [apply in_app_or in Hin as [H|[H|[]]]; auto|auto]. }
          assert (Hlt : (k < length (w_trx w))%nat).
          { destruct Hkl as [H| ->]; [|exact Hi]. apply Hl in H as [u [Hu _]]. apply nth_error_Some. congruence. }
          destruct (nth_error (w_trx (power_event w i on)) k) eqn:E; [eauto|]. apply nth_error_None in E. rewrite power_event_length in E. lia. }
        destruct Hk as [u Hu]. exists u. split; [exact Hu|]. destruct (Hrun k u Hu) as [u0 [Hu0 [Ecf Er]]]. rewrite Ecf.
        destruct (Nat.eq_dec k i) as [->|Hne].
        -- rewrite Et in Hu0. injection Hu0 as <-. rewrite Haff_i in Er. split; [|exact Eck]. rewrite Er.
           destruct on; [reflexivity|]. cbn [negb andb] in Hin. destruct (mem_nat i (w_links w)) eqn:Em.
           ++ apply remove_nat_In in Hin; [tauto|exact Hn].
           ++ apply mem_nat_In in Hin. congruence.
        -- assert (Hin0 : In k (w_links w)).
           { destruct (negb on && mem_nat i (w_links w)); [apply remove_nat_In in Hin; [tauto|exact Hn]|].
             destruct (on && negb (mem_nat i (w_links w))); [apply in_app_or in Hin as [H|[H|[]]]; [exact H|congruence]|exact Hin]. }
           apply Hl in Hin0 as [u1 [Hu1 [Hr1 Hc1]]]. rewrite Hu0 in Hu1. injection Hu1 as <-.
           rewrite (Haff_own k u0 Hu0 Hc1 Hne) in Er. split; congruence.
      * intros [u [Hu [Hr Hck]]]. destruct (Hrun k u Hu) as [u0 [Hu0 [Ecf Er]]]. rewrite Ecf in Hck.
        destruct (Nat.eq_dec k i) as [->|Hne].
        -- rewrite Haff_i in Er. rewrite Er in Hr. subst on. cbn [negb andb]. destruct (mem_nat i (w_links w)) eqn:Em; cbn [negb].
           ++ apply mem_nat_In, Em.
           ++ apply in_or_app. right. left. reflexivity.
        -- rewrite (Haff_own k u0 Hu0 Hck Hne) in Er. assert (Hin0 : In k (w_links w)) by (apply Hl; exists u0; repeat split; congruence).
           destruct (negb on && mem_nat i (w_links w)); [apply remove_nat_In; [exact Hn|split; assumption]|].
           destruct (on && negb (mem_nat i (w_links w))); [apply in_or_app; left; exact Hin0|exact Hin0].
  - (* not a clock owner: links and generator untouched; no clock owner changes its power state *)
    unfold links_inv. rewrite El, Eg. split; [exact Hn|]. split; [|exact Hg].
    intros k. rewrite Hl. split.
    + intros [u0 [Hu0 [Hr0 Hc0]]].
      assert (Hne : k <> i) by (intros ->; congruence).
      assert (Hk : exists u, nth_error (w_trx (power_event w i on)) k = Some u).
      { destruct (nth_error (w_trx (power_event w i on)) k) eqn:E; [eauto|]. apply nth_error_None in E. rewrite power_event_length in E.
        assert (k < length (w_trx w))%nat by (apply nth_error_Some; congruence). lia. }
      destruct Hk as [u Hu]. exists u. split; [exact Hu|]. destruct (Hrun k u Hu) as [u1 [Hu1 [Ecf Er]]]. rewrite Hu0 in Hu1. injection Hu1 as <-.
      rewrite (Haff_own k u0 Hu0 Hc0 Hne) in Er. split; congruence.
    + intros [u [Hu [Hr Hck]]]. destruct (Hrun k u Hu) as [u0 [Hu0 [Ecf Er]]]. rewrite Ecf in Hck.
      assert (Hne : k <> i) by (intros ->; congruence).
      rewrite (Haff_own k u0 Hu0 Hck Hne) in Er. exists u0. repeat split; congruence.
Qed.
