(* C05: the two sides of the control link together: trxcon's longest command fits the toolkit's receive size *)
From Coq Require Import ZArith List Bool Lia.
From OBB Require Import Gen.TrxIfConst Gen.FakeTrxConst Model.TrxIf Proofs.TrxIfP Proofs.TrxIfCtrlP.
Import ListNotations.
Open Scope Z_scope.

Lemma recv_size_ok : 1017 <= ctrl_recv_size.
Proof. vm_compute. discriminate. Qed.

Lemma setfh_fits hsn maio ma rc q crit text :
  c_phyif_cmd (PSetFreqH1 hsn maio ma) = CmdQ rc q -> In (crit, text) q -> Z.of_nat (length text) + 1 <= ctrl_recv_size.
Proof. intros Hc Hin. pose proof (setfh_len_bound hsn maio ma rc q crit text Hc Hin). pose proof recv_size_ok. lia. Qed.
