(* C08: what each scheduler function does to a well-formed state (ring arithmetic, capacity check, set expansion,
   execute = sorted permutation of the current bucket, reset), and preservation of well-formedness. *)
From Coq Require Import ZArith List Bool Lia Permutation Sorted ZifyBool.
From OBB Require Import Gen.FwSchedConst Model.TdmaSched Proofs.TdmaSchedSpec Proofs.TdmaSchedSortP.
Import ListNotations.
Open Scope Z_scope.
Ltac Zify.zify_post_hook ::= Z.to_euclidean_division_equations.

(* ---- constants: the generated values are the protocol numbers ---- *)
Lemma consts_ok :
  c_TDMASCHED_NUM_FRAMES = 25 /\ c_TDMASCHED_NUM_CB = 8 /\ c_NBUCKETS = 25 /\ c_NITEMS = 8 /\
  c_CUR_BITS = 8 /\ c_NUM_ITEMS_BITS = 8 /\ c_P1_BITS = 8 /\ c_P2_BITS = 8 /\ c_P3_BITS = 16 /\ c_P3_SIGNED = 0 /\
  c_PRIO_BITS = 16 /\ c_PRIO_SIGNED = 1.
Proof. repeat split; reflexivity. Qed.

Lemma nb_eq : c_NBUCKETS = 25. Proof. reflexivity. Qed.
Lemma ni_eq : c_NITEMS = 8. Proof. reflexivity. Qed.
Lemma ncb_eq : c_TDMASCHED_NUM_CB = 8. Proof. reflexivity. Qed.

(* ---- lists ---- *)
Lemma nth_upd_eq {A} (l : list A) n v d : (n < length l)%nat -> nth n (upd l n v) d = v.
Proof. revert n. induction l as [|x r IH]; intros [|n] H; cbn [length] in H; cbn [upd nth]; try lia; [reflexivity|]. apply IH. lia. Qed.

Lemma nth_upd_neq {A} (l : list A) n k v d : n <> k -> nth k (upd l n v) d = nth k l d.
Proof. revert n k. induction l as [|x r IH]; intros [|n] [|k] H; cbn [upd nth]; try reflexivity; try congruence. apply IH. congruence. Qed.

Lemma Forall_upd {A} (P : A -> Prop) (l : list A) n v : Forall P l -> P v -> Forall P (upd l n v).
Proof.
  intros H Hv. revert n. induction H as [|x r Hx Hr IH]; intros [|n]; cbn [upd]; constructor; auto.
Qed.

Lemma Forall_nth_d {A} (P : A -> Prop) (l : list A) n d : Forall P l -> P d -> P (nth n l d).
Proof. intros H Hd. revert n. induction H as [|x r Hx Hr IH]; intros [|n]; cbn [nth]; auto. Qed.

Lemma nth_error_nth_lt {A} (l : list A) n d : (n < length l)%nat -> nth_error l n = Some (nth n l d).
Proof. revert n. induction l as [|x r IH]; intros [|n] H; cbn [length] in H; cbn [nth nth_error]; try lia; [reflexivity|]. apply IH. lia. Qed.

(* ---- ring arithmetic: no 8/16-bit conversion changes the value ---- *)
Lemma wrap_bucket_ok cur off : 0 <= cur < 25 -> 0 <= off < 256 -> wrap_bucket cur off = (cur + off) mod 25.
Proof. intros Hc Ho. unfold wrap_bucket, u8, u16. rewrite nb_eq. lia. Qed.

(* ---- set_bucket ---- *)
Lemma cur_set_bucket st j b : s_cur (set_bucket st j b) = s_cur st.
Proof. reflexivity. Qed.

Lemma abs_set_bucket_eq st j b : wf st -> 0 <= j < 25 -> bucket_abs (set_bucket st j b) j = b.
Proof. intros (Hl & _) Hj. unfold bucket_abs, set_bucket. cbn [s_bk]. apply nth_upd_eq. lia. Qed.

Lemma abs_set_bucket_neq st j k b : 0 <= j -> 0 <= k -> j <> k -> bucket_abs (set_bucket st j b) k = bucket_abs st k.
Proof. intros Hj Hk Hne. unfold bucket_abs, set_bucket. cbn [s_bk]. apply nth_upd_neq. lia. Qed.

Lemma wf_set_bucket st j b : wf st -> (length b <= 8)%nat -> wf (set_bucket st j b).
Proof.
  intros (Hl & Hc & Hall) Hb. unfold wf, set_bucket. cbn [s_bk s_cur]. rewrite upd_length.
  repeat split; try lia; try exact Hl. apply Forall_upd; assumption.
Qed.

Lemma cbs_set_bucket st j b : cbs_ok st -> Forall (fun it => i_cb it <> 0) b -> cbs_ok (set_bucket st j b).
Proof. intros H Hb. unfold cbs_ok, set_bucket. cbn [s_bk]. apply Forall_upd; assumption. Qed.

Lemma abs_len st j : wf st -> (length (bucket_abs st j) <= 8)%nat.
Proof. intros (_ & _ & Hall). unfold bucket_abs. apply Forall_nth_d; [exact Hall|cbn; lia]. Qed.

Lemma abs_cbs st j : cbs_ok st -> Forall (fun it => i_cb it <> 0) (bucket_abs st j).
Proof. intros H. unfold bucket_abs. apply Forall_nth_d; [exact H|constructor]. Qed.

Lemma abs_nth_error st j : wf st -> 0 <= j < 25 -> nth_error (s_bk st) (Z.to_nat j) = Some (bucket_abs st j).
Proof. intros (Hl & _) Hj. unfold bucket_abs. apply nth_error_nth_lt. lia. Qed.

(* ---- tdma_schedule ---- *)
Lemma schedule_spec st off it : wf st -> 0 <= off < 256 ->
  tdma_schedule st off it =
    if (8 <=? Z.of_nat (length (bucket_abs st ((s_cur st + off) mod 25)))) then Ok (st, -1)
    else Ok (set_bucket st ((s_cur st + off) mod 25) (bucket_abs st ((s_cur st + off) mod 25) ++ [it]), 0).
Proof.
  intros Hwf Ho. pose proof Hwf as (Hl & Hc & Hall). unfold tdma_schedule.
  rewrite wrap_bucket_ok by assumption.
  rewrite abs_nth_error by (try assumption; lia). rewrite ni_eq. reflexivity.
Qed.

Lemma set_plan_frames p3 : forall set k plan, set_plan k set p3 = Some plan ->
  Forall (fun e => k <= fst e <= k + set_nframes set /\ i_cb (snd e) <> 0) plan /\ 0 <= set_nframes set.
Proof.
  induction set as [|it r IH]; intros k plan Hp; cbn [set_plan set_nframes] in *; [discriminate|].
  destruct (i_cb it =? 1) eqn:E1.
  - injection Hp as <-. split; [constructor|lia].
  - destruct (i_cb it =? 0) eqn:E0.
    + destruct (IH (k + 1) plan Hp) as (HF & Hn). split; [|lia].
      eapply Forall_impl; [|exact HF]. cbv beta. intros e He. lia.
    + destruct (set_plan k r p3) as [pl|] eqn:Ep; [|discriminate]. injection Hp as <-.
      destruct (IH k pl Ep) as (HF & Hn). split; [|lia].
      constructor; [cbn [fst snd with_p3 i_cb]; lia|exact HF].
Qed.

(* ---- tdma_schedule_set = the plan of the set, scheduled item by item ---- *)
Lemma set_plan_place p3 : forall set st off k plan,
  0 <= s_cur st < 25 -> 0 <= off + k -> off + k + set_nframes set <= 255 ->
  set_plan k set p3 = Some plan ->
  sched_set st (off + k) (wrap_bucket (s_cur st) (off + k)) k set p3 = place st off plan (k + set_nframes set).
Proof.
  induction set as [|it r IH]; intros st off k plan Hc H0 Hb Hp; cbn [set_plan] in Hp; [discriminate|].
  cbn [sched_set set_nframes] in *. unfold CB_END_SET, CB_NULL.
  destruct (i_cb it =? 1) eqn:E1.
  - injection Hp as <-. cbn [place]. rewrite Z.add_0_r. reflexivity.
  - destruct (i_cb it =? 0) eqn:E0.
    + pose proof (set_plan_frames p3 r (k + 1) plan Hp) as (_ & Hn0).
      assert (Hu : u8 (off + k + 1) = off + (k + 1)) by (unfold u8; lia).
      rewrite Hu. rewrite (IH st off (k + 1) plan); try assumption; try lia. f_equal. lia.
    + destruct (set_plan k r p3) as [pl|] eqn:Ep; [|discriminate]. injection Hp as <-.
      cbn [place]. unfold tdma_schedule.
      destruct (nth_error (s_bk st) (Z.to_nat (wrap_bucket (s_cur st) (off + k)))) as [b|]; [|reflexivity].
      destruct (c_NITEMS <=? Z.of_nat (length b)); [reflexivity|].
      change (0 =? 0) with true. cbv iota.
      rewrite <- (IH (set_bucket st (wrap_bucket (s_cur st) (off + k)) (b ++ [with_p3 it p3])) off k pl); try assumption.
      reflexivity.
Qed.

Lemma schedule_set_place st off set p3 plan :
  0 <= s_cur st < 25 -> 0 <= off -> off + set_nframes set <= 255 -> set_plan 0 set p3 = Some plan ->
  tdma_schedule_set st off set p3 = place st off plan (set_nframes set).
Proof.
  intros Hc H0 Hb Hp. unfold tdma_schedule_set.
  pose proof (set_plan_place p3 set st off 0 plan Hc) as H. rewrite Z.add_0_r in H.
  rewrite H; try assumption; try lia. reflexivity.
Qed.

(* ---- advance ---- *)
Lemma advance_spec st : wf st -> s_cur (tdma_sched_advance st) = (s_cur st + 1) mod 25 /\ s_bk (tdma_sched_advance st) = s_bk st.
Proof. intros (_ & Hc & _). unfold tdma_sched_advance. cbn [s_cur s_bk]. split; [|reflexivity]. apply wrap_bucket_ok; lia. Qed.

Lemma wf_advance st : wf st -> wf (tdma_sched_advance st).
Proof.
  intros Hwf. destruct (advance_spec st Hwf) as (Hc & Hb). pose proof Hwf as (Hl & Hcur & Hall).
  unfold wf. rewrite Hc, Hb. repeat split; try assumption; lia.
Qed.

(* ---- reset ---- *)
Lemma reset_from_length cur : forall bk j, length (reset_from j cur bk) = length bk.
Proof. induction bk as [|b r IH]; intros j; cbn [reset_from length]; [reflexivity|]. rewrite IH. reflexivity. Qed.

Lemma reset_from_nth cur : forall bk j k, nth k (reset_from j cur bk) [] = if j + Z.of_nat k =? cur then nth k bk [] else [].
Proof.
  induction bk as [|b r IH]; intros j k; cbn [reset_from].
  - destruct k; cbn [nth]; destruct (_ =? _); reflexivity.
  - destruct k as [|k]; cbn [nth].
    + replace (j + Z.of_nat 0) with j by lia. destruct (j =? cur); reflexivity.
    + rewrite IH. replace (j + 1 + Z.of_nat k) with (j + Z.of_nat (S k)) by lia. reflexivity.
Qed.

Lemma reset_from_Forall (P : list item -> Prop) cur : forall bk j, P [] -> Forall P bk -> Forall P (reset_from j cur bk).
Proof.
  induction bk as [|b r IH]; intros j Hn H; cbn [reset_from]; [constructor|].
  inversion H as [|? ? Hb Hr]; subst. constructor; [destruct (j =? cur); assumption|apply IH; assumption].
Qed.

Lemma reset_from_count cur : forall bk j,
  Z.of_nat (length (concat (reset_from j cur bk))) =
  if (j <=? cur) && (cur <? j + Z.of_nat (length bk)) then Z.of_nat (length (nth (Z.to_nat (cur - j)) bk [])) else 0.
Proof.
  induction bk as [|b r IH]; intros j; cbn [reset_from concat length].
  - destruct ((j <=? cur) && (cur <? j + Z.of_nat 0)) eqn:E; [lia|reflexivity].
  - rewrite app_length, Nat2Z.inj_add, IH.
    destruct (j =? cur) eqn:Ej.
    + replace (Z.to_nat (cur - j)) with O by lia. cbn [nth].
      destruct ((j + 1 <=? cur) && (cur <? j + 1 + Z.of_nat (length r))) eqn:E1; [lia|].
      destruct ((j <=? cur) && (cur <? j + Z.of_nat (S (length r)))) eqn:E2; lia.
    + cbn [length].
      destruct ((j + 1 <=? cur) && (cur <? j + 1 + Z.of_nat (length r))) eqn:E1.
      * replace (Z.to_nat (cur - j)) with (S (Z.to_nat (cur - (j + 1)))) by lia. cbn [nth].
        destruct ((j <=? cur) && (cur <? j + Z.of_nat (S (length r)))) eqn:E2; lia.
      * destruct ((j <=? cur) && (cur <? j + Z.of_nat (S (length r)))) eqn:E2; lia.
Qed.

Lemma reset_abs st j : 0 <= j -> bucket_abs (tdma_sched_reset st) j = if j =? s_cur st then bucket_abs st j else [].
Proof.
  intros Hj. unfold bucket_abs, tdma_sched_reset. cbn [s_bk]. rewrite reset_from_nth.
  replace (0 + Z.of_nat (Z.to_nat j)) with j by lia. reflexivity.
Qed.

Lemma reset_stored st : wf st -> stored (tdma_sched_reset st) = Z.of_nat (length (bucket_abs st (s_cur st))).
Proof.
  intros (Hl & Hc & _). unfold stored, tdma_sched_reset. cbn [s_bk]. rewrite reset_from_count.
  rewrite Hl. replace ((0 <=? s_cur st) && (s_cur st <? 0 + Z.of_nat 25)) with true by lia.
  unfold bucket_abs. replace (s_cur st - 0) with (s_cur st) by lia. reflexivity.
Qed.

Lemma wf_reset st : wf st -> wf (tdma_sched_reset st).
Proof.
  intros (Hl & Hc & Hall). unfold wf, tdma_sched_reset. cbn [s_bk s_cur]. rewrite reset_from_length.
  repeat split; try assumption; try lia. apply reset_from_Forall; [cbn; lia|exact Hall].
Qed.

Lemma cbs_reset st : cbs_ok st -> cbs_ok (tdma_sched_reset st).
Proof. intros H. unfold cbs_ok, tdma_sched_reset. cbn [s_bk]. apply reset_from_Forall; [constructor|exact H]. Qed.

(* ---- execute ---- *)
Lemma run_items_all rcf xs : Forall (fun it => i_cb it <> 0) xs -> (forall x, 0 <= rcf x) -> run_items rcf xs = (xs, SDone).
Proof.
  intros H Hr. induction H as [|it r Hi Hrest IH]; cbn [run_items]; [reflexivity|].
  unfold CB_NULL. replace (i_cb it =? 0) with false by lia. specialize (Hr it). replace (rcf it <? 0) with false by lia.
  rewrite IH. reflexivity.
Qed.

Lemma run_items_no_null rcf xs : Forall (fun it => i_cb it <> 0) xs -> snd (run_items rcf xs) <> SNull.
Proof.
  intros H. induction H as [|it r Hi Hrest IH]; cbn [run_items]; [cbn; discriminate|].
  unfold CB_NULL. replace (i_cb it =? 0) with false by lia.
  destruct (rcf it <? 0); [cbn; discriminate|]. destruct (run_items rcf r) as [lg s]. exact IH.
Qed.

Lemma exec_order_cbs b : (length b <= 8)%nat -> Forall (fun it => i_cb it <> 0) b -> Forall (fun it => i_cb it <> 0) (exec_order b).
Proof. intros Hl H. eapply Permutation_Forall; [symmetry; apply exec_order_perm; exact Hl|exact H]. Qed.

Lemma execute_spec rcf st : wf st -> cbs_ok st -> (forall x, 0 <= rcf x) ->
  tdma_sched_execute rcf st =
    XOk (set_bucket st (s_cur st) []) (exec_order (bucket_abs st (s_cur st))) (Z.of_nat (length (bucket_abs st (s_cur st)))).
Proof.
  intros Hwf Hcb Hr. pose proof Hwf as (Hl & Hc & Hall). unfold tdma_sched_execute.
  rewrite abs_nth_error by assumption. rewrite ni_eq, ncb_eq.
  pose proof (abs_len st (s_cur st) Hwf) as Hlen.
  replace ((8 <? Z.of_nat (length (bucket_abs st (s_cur st)))) || (8 <? Z.of_nat (length (bucket_abs st (s_cur st))))) with false by lia.
  rewrite run_items_all; [|apply exec_order_cbs; [exact Hlen|apply abs_cbs; exact Hcb]|exact Hr].
  rewrite (Permutation_length (exec_order_perm _ Hlen)). reflexivity.
Qed.

(* whatever the callbacks return, execute does not crash on a well-formed state without NULL callbacks *)
Lemma execute_total rcf st : wf st -> cbs_ok st ->
  exists st' lg r, tdma_sched_execute rcf st = XOk st' lg r /\ (st' = st \/ st' = set_bucket st (s_cur st) []).
Proof.
  intros Hwf Hcb. pose proof Hwf as (Hl & Hc & Hall). unfold tdma_sched_execute.
  rewrite abs_nth_error by assumption. rewrite ni_eq, ncb_eq.
  pose proof (abs_len st (s_cur st) Hwf) as Hlen.
  replace ((8 <? Z.of_nat (length (bucket_abs st (s_cur st)))) || (8 <? Z.of_nat (length (bucket_abs st (s_cur st))))) with false by lia.
  pose proof (run_items_no_null rcf (exec_order (bucket_abs st (s_cur st)))
                (exec_order_cbs _ Hlen (abs_cbs st (s_cur st) Hcb))) as Hn.
  destruct (run_items rcf (exec_order (bucket_abs st (s_cur st)))) as [lg [| rc |]]; cbn [snd] in Hn.
  - eexists _, _, _. split; [reflexivity|right; reflexivity].
  - eexists _, _, _. split; [reflexivity|left; reflexivity].
  - congruence.
Qed.
