(* C06 - receive side of sercomm: transparency, streams, over-long frames, memory safety. *)
From Coq Require Import ZArith List Bool Lia ZifyBool.
From OBB Require Import Gen.SercommConst Model.Sercomm.
Import ListNotations.
Open Scope Z_scope.
Ltac Zify.zify_post_hook ::= Z.to_euclidean_division_equations.

(* ---------------------------------------------------------------- constants (tie to Gen) *)

Lemma flag_val : FLAG = 126. Proof. reflexivity. Qed.
Lemma esc_val : ESC = 125. Proof. reflexivity. Qed.
Lemma cui_val : C_UI = 3. Proof. reflexivity. Qed.
Lemma dlci_max_val : DLCI_MAX = 129. Proof. reflexivity. Qed.
Lemma handler_max_val : HANDLER_MAX = 129. Proof. reflexivity. Qed.
Lemma headroom_val : HEADROOM = 4. Proof. reflexivity. Qed.
Lemma host_cap_val : HOST_CAP = 2048. Proof. reflexivity. Qed.

Lemma constants :
  c_HDLC_FLAG = 126 /\ c_HDLC_ESCAPE = 125 /\ c_HDLC_C_UI = 3 /\ c_SC_DLCI_MAX = 129 /\ c_SC_DLCI_ECHO = 128 /\
  c_n_tx_queues = 129 /\ c_n_rx_handlers = 129 /\
  c_SERCOMM_RX_MSG_SIZE = 2048 /\ c_rx_tailroom = 2048 /\ c_rx_headroom = 4 /\ c_SERCOMM_RX_MSG_SIZE_target = 256 /\
  c_named_dlcis = [0; 4; 5; 9; 10; 128].
Proof. repeat split; reflexivity. Qed.

(* ---------------------------------------------------------------- octet stuffing *)

Lemma needs_esc_false b : needs_esc b = false -> b <> FLAG /\ b <> ESC /\ b <> 0.
Proof.
  unfold needs_esc. intros H. apply orb_false_elim in H as [H H0]. apply orb_false_elim in H as [Hf He].
  apply Z.eqb_neq in Hf, He, H0. auto.
Qed.

Lemma needs_esc_true b : needs_esc b = true -> b = FLAG \/ b = ESC \/ b = 0.
Proof.
  unfold needs_esc. intros H. apply orb_true_iff in H as [H|H]; [apply orb_true_iff in H as [H|H]|];
    apply Z.eqb_eq in H; auto.
Qed.

Lemma needs_esc_spec b : needs_esc b = false <-> (b <> 126 /\ b <> 125 /\ b <> 0).
Proof.
  split.
  - intros H. apply needs_esc_false in H. rewrite flag_val, esc_val in H. exact H.
  - intros (H1 & H2 & H3). destruct (needs_esc b) eqn:E; [|reflexivity].
    apply needs_esc_true in E. rewrite flag_val, esc_val in E. lia.
Qed.

Lemma needs_esc_cui : needs_esc C_UI = false. Proof. reflexivity. Qed.

Lemma flip5_invol b : flip5 (flip5 b) = b.
Proof. unfold flip5. rewrite Z.lxor_assoc, Z.lxor_nilpotent, Z.lxor_0_r. reflexivity. Qed.

Lemma flip5_values b : needs_esc b = true -> flip5 b = 94 \/ flip5 b = 93 \/ flip5 b = 32.
Proof.
  intros H. apply needs_esc_true in H. destruct H as [H|[H|H]]; subst b; vm_compute; auto.
Qed.

Lemma flip5_esc_safe b : needs_esc b = true -> flip5 b <> FLAG /\ flip5 b <> ESC /\ flip5 b <> 0.
Proof. intros H. apply flip5_values in H. rewrite flag_val, esc_val. lia. Qed.

Lemma escape_app l1 l2 : escape (l1 ++ l2) = escape l1 ++ escape l2.
Proof.
  induction l1 as [|b l1 IH]; [reflexivity|]. cbn [app escape]. rewrite IH.
  destruct (needs_esc b); reflexivity.
Qed.

(* between the flags there is no raw flag and no zero octet *)
Lemma escape_clean l : Forall (fun b => b <> FLAG /\ b <> 0) (escape l).
Proof.
  induction l as [|b l IH]; cbn [escape]; [constructor|].
  destruct (needs_esc b) eqn:E.
  - constructor; [rewrite flag_val, esc_val; lia|]. constructor; [|exact IH].
    apply flip5_esc_safe in E. tauto.
  - constructor; [|exact IH]. apply needs_esc_false in E. tauto.
Qed.

(* an escape octet inside a frame is always followed by 0x5E, 0x5D or 0x20 *)
Fixpoint esc_followed (l : list Z) : Prop :=
  match l with
  | [] => True
  | b :: r => (b = ESC -> match r with c :: _ => c = 94 \/ c = 93 \/ c = 32 | [] => False end) /\ esc_followed r
  end.

Lemma escape_esc_followed l : esc_followed (escape l).
Proof.
  induction l as [|b l IH]; cbn [escape]; [exact I|].
  destruct (needs_esc b) eqn:E.
  - cbn [esc_followed]. split; [intros _; apply flip5_values, E|]. split; [|exact IH].
    intros H. apply flip5_esc_safe in E. tauto.
  - cbn [esc_followed]. split; [|exact IH]. intros H. apply needs_esc_false in E. tauto.
Qed.

Lemma len_nil : len [] = 0. Proof. reflexivity. Qed.
Lemma len_cons b (p : list Z) : len (b :: p) = 1 + len p.
Proof. unfold len. cbn [length]. lia. Qed.
Lemma len_app (p q : list Z) : len (p ++ q) = len p + len q.
Proof. unfold len. rewrite app_length. lia. Qed.
Lemma len_nonneg (p : list Z) : 0 <= len p. Proof. unfold len. lia. Qed.

(* ---------------------------------------------------------------- single steps of the receiver *)

Definition mk s d c b n : rx := {| st := s; dlci := d; ctrl := c; buf := b; blen := n |}.

Ltac rx_step :=
  unfold rx_char, put, tailroom, mk; cbn [st dlci ctrl buf blen].

Lemma step_full cap s d c acc : rx_char cap (mk s d c acc cap) = fun ch => (mk WAIT d c [] 0, ROverflow).
Proof. rx_step. rewrite Z.sub_diag. reflexivity. Qed.

Lemma step_wait_flag cap d c acc n : n <> cap ->
  rx_char cap (mk WAIT d c acc n) FLAG = (mk ADDR d c acc n, RNone).
Proof. intros H. rx_step. destruct (cap - n =? 0) eqn:E; [lia|]. rewrite Z.eqb_refl. reflexivity. Qed.

Lemma step_wait_other cap d c acc n ch : n <> cap -> ch <> FLAG ->
  rx_char cap (mk WAIT d c acc n) ch = (mk WAIT d c acc n, RNone).
Proof. intros H Hf. rx_step. destruct (cap - n =? 0) eqn:E; [lia|]. destruct (ch =? FLAG) eqn:E1; [lia|]. reflexivity. Qed.

Lemma step_addr cap d c acc n ch : n <> cap ->
  rx_char cap (mk ADDR d c acc n) ch = (mk CTRL ch c acc n, RNone).
Proof. intros H. rx_step. destruct (cap - n =? 0) eqn:E; [lia|]. reflexivity. Qed.

Lemma step_ctrl cap d c acc n ch : n <> cap ->
  rx_char cap (mk CTRL d c acc n) ch = (mk DATA d ch acc n, RNone).
Proof. intros H. rx_step. destruct (cap - n =? 0) eqn:E; [lia|]. reflexivity. Qed.

Lemma step_plain cap d c acc n ch : n < cap -> ch <> ESC -> ch <> FLAG ->
  rx_char cap (mk DATA d c acc n) ch = (mk DATA d c (ch :: acc) (n + 1), RNone).
Proof.
  intros H He Hf. rx_step. destruct (cap - n =? 0) eqn:E; [lia|].
  destruct (ch =? ESC) eqn:E1; [lia|]. destruct (ch =? FLAG) eqn:E2; [lia|].
  destruct (cap - n <? 1) eqn:E3; [lia|]. reflexivity.
Qed.

Lemma step_esc cap d c acc n : n < cap ->
  rx_char cap (mk DATA d c acc n) ESC = (mk ESCAPE d c acc n, RNone).
Proof. intros H. rx_step. destruct (cap - n =? 0) eqn:E; [lia|]. rewrite Z.eqb_refl. reflexivity. Qed.

Lemma step_escaped cap d c acc n ch : n < cap ->
  rx_char cap (mk ESCAPE d c acc n) ch = (mk DATA d c (flip5 ch :: acc) (n + 1), RNone).
Proof.
  intros H. rx_step. destruct (cap - n =? 0) eqn:E; [lia|].
  destruct (cap - n <? 1) eqn:E3; [lia|]. reflexivity.
Qed.

Lemma step_flag cap d c acc n : n < cap ->
  rx_char cap (mk DATA d c acc n) FLAG = (mk WAIT d c [] 0, RMsg d (rev acc)).
Proof.
  intros H. rx_step. destruct (cap - n =? 0) eqn:E; [lia|].
  replace (FLAG =? ESC) with false by reflexivity. rewrite Z.eqb_refl. reflexivity.
Qed.

Lemma rx_run_app cap l1 : forall s l2, rx_run cap s (l1 ++ l2) =
  let '(s1, o1) := rx_run cap s l1 in let '(s2, o2) := rx_run cap s1 l2 in (s2, o1 ++ o2).
Proof.
  induction l1 as [|a l1 IH]; intros s l2; cbn [app rx_run].
  - destruct (rx_run cap s l2); reflexivity.
  - destruct (rx_char cap s a) as [s' o]. rewrite IH. destruct (rx_run cap s' l1) as [s1 o1].
    destruct (rx_run cap s1 l2) as [s2 o2]. destruct o; reflexivity.
Qed.

(* ---------------------------------------------------------------- phases *)

(* flag-free octets are ignored while waiting for a start flag *)
Lemma wait_noise cap d c l : 0 < cap -> Forall (fun b => b <> FLAG) l ->
  rx_run cap (mk WAIT d c [] 0) l = (mk WAIT d c [] 0, []).
Proof.
  intros Hc H. induction H as [|b l Hb Hl IH]; [reflexivity|].
  cbn [rx_run]. rewrite step_wait_other by (auto; lia). rewrite IH. reflexivity.
Qed.

Lemma rx_data_phase cap p : forall d c acc n, n + len p <= cap ->
  rx_run cap (mk DATA d c acc n) (escape p) = (mk DATA d c (rev p ++ acc) (n + len p), []).
Proof.
  induction p as [|b p IH]; intros d c acc n Hlen; cbn [escape].
  - rewrite len_nil, Z.add_0_r. reflexivity.
  - rewrite len_cons in Hlen. pose proof (len_nonneg p) as Hp.
    destruct (needs_esc b) eqn:Hn.
    + cbn [rx_run]. rewrite step_esc by lia. rewrite step_escaped by lia. rewrite flip5_invol.
      rewrite IH by lia. cbn [rev]. rewrite <- app_assoc, len_cons. cbn [app]. replace (n + 1 + len p) with (n + (1 + len p)) by lia. reflexivity.
    + cbn [rx_run]. apply needs_esc_false in Hn as (Hf & He & _). rewrite step_plain by (auto; lia).
      rewrite IH by lia. cbn [rev]. rewrite <- app_assoc, len_cons. cbn [app]. replace (n + 1 + len p) with (n + (1 + len p)) by lia. reflexivity.
Qed.

(* body of a frame + closing flag: fits / fills the buffer exactly / is too long *)
Lemma rx_body_ok cap d c acc n p : n + len p < cap ->
  rx_run cap (mk DATA d c acc n) (escape p ++ [FLAG]) = (mk WAIT d c [] 0, [RMsg d (rev acc ++ p)]).
Proof.
  intros H. rewrite rx_run_app, rx_data_phase by lia. cbn [rx_run]. rewrite step_flag by lia.
  rewrite rev_app_distr, rev_involutive. reflexivity.
Qed.

Lemma rx_body_exact cap d c acc n p : n + len p = cap ->
  rx_run cap (mk DATA d c acc n) (escape p ++ [FLAG]) = (mk WAIT d c [] 0, [ROverflow]).
Proof.
  intros H. rewrite rx_run_app, rx_data_phase by lia. cbn [rx_run]. rewrite H, step_full. reflexivity.
Qed.

Lemma escape_cons_shape b p : exists x rest, escape (b :: p) = x :: rest.
Proof. cbn [escape]. destruct (needs_esc b); eauto. Qed.

Lemma rx_body_over cap d c acc n p : 0 < cap -> n <= cap -> n + len p > cap ->
  rx_run cap (mk DATA d c acc n) (escape p ++ [FLAG]) = (mk ADDR d c [] 0, [ROverflow]).
Proof.
  intros Hc Hn H.
  pose proof (firstn_skipn (Z.to_nat (cap - n)) p) as Hsplit.
  assert (Hl1 : len (firstn (Z.to_nat (cap - n)) p) = cap - n).
  { unfold len. rewrite firstn_length. unfold len in H. lia. }
  assert (Hl2 : len (skipn (Z.to_nat (cap - n)) p) > 0).
  { rewrite <- Hsplit, len_app in H. lia. }
  revert Hsplit Hl1 Hl2. generalize (firstn (Z.to_nat (cap - n)) p) (skipn (Z.to_nat (cap - n)) p).
  intros p1 p2 Hsplit Hl1 Hl2.
  destruct p2 as [|b p2]; [rewrite len_nil in Hl2; lia|].
  rewrite <- Hsplit, escape_app, <- app_assoc, rx_run_app, rx_data_phase by lia.
  destruct (escape_cons_shape b p2) as (x & rest & Hx).
  pose proof (escape_clean (b :: p2)) as Hclean. rewrite Hx in Hclean. rewrite Hx.
  replace (n + len p1) with cap by lia.
  cbn [app rx_run]. rewrite step_full.
  rewrite rx_run_app, wait_noise.
  2: exact Hc.
  2: { inversion Hclean as [|? ? _ Hr]; subst. eapply Forall_impl; [|exact Hr]. cbv beta. tauto. }
  cbn [rx_run]. rewrite step_wait_flag by lia. reflexivity.
Qed.

Lemma frame_unfold d p : needs_esc d = false -> frame d p = [FLAG; d; C_UI] ++ (escape p ++ [FLAG]).
Proof. intros H. unfold frame, frame_of, hdr. cbn [escape]. rewrite H, needs_esc_cui. reflexivity. Qed.

(* address + control from the idle state, and from the skewed state an over-long frame leaves behind *)
Lemma rx_hdr_idle cap d0 c0 d : 0 < cap ->
  rx_run cap (mk WAIT d0 c0 [] 0) [FLAG; d; C_UI] = (mk DATA d C_UI [] 0, []).
Proof.
  intros Hc. cbn [rx_run]. rewrite step_wait_flag by lia. rewrite step_addr by lia. rewrite step_ctrl by lia. reflexivity.
Qed.

Lemma rx_hdr_skew cap d0 c0 d : 0 < cap ->
  rx_run cap (mk ADDR d0 c0 [] 0) [FLAG; d; C_UI] = (mk DATA FLAG d [C_UI] 1, []).
Proof.
  intros Hc. cbn [rx_run]. rewrite step_addr by lia. rewrite step_ctrl by lia.
  rewrite step_plain by (try lia; discriminate). reflexivity.
Qed.

(* ---------------------------------------------------------------- one frame *)

Lemma rx_frame_idle cap d0 c0 d p : needs_esc d = false -> len p < cap ->
  rx_run cap (mk WAIT d0 c0 [] 0) (frame d p) = (mk WAIT d C_UI [] 0, [RMsg d p]).
Proof.
  intros Hd Hl. pose proof (len_nonneg p). rewrite frame_unfold by exact Hd.
  rewrite rx_run_app, rx_hdr_idle by lia. rewrite rx_body_ok by lia. reflexivity.
Qed.

Lemma rx_frame_idle_exact cap d0 c0 d p : needs_esc d = false -> 0 < cap -> len p = cap ->
  rx_run cap (mk WAIT d0 c0 [] 0) (frame d p) = (mk WAIT d C_UI [] 0, [ROverflow]).
Proof.
  intros Hd Hc Hl. rewrite frame_unfold by exact Hd.
  rewrite rx_run_app, rx_hdr_idle by lia. rewrite rx_body_exact by lia. reflexivity.
Qed.

Lemma rx_frame_idle_over cap d0 c0 d p : needs_esc d = false -> 0 < cap -> len p > cap ->
  rx_run cap (mk WAIT d0 c0 [] 0) (frame d p) = (mk ADDR d C_UI [] 0, [ROverflow]).
Proof.
  intros Hd Hc Hl. rewrite frame_unfold by exact Hd.
  rewrite rx_run_app, rx_hdr_idle by lia. rewrite rx_body_over by lia. reflexivity.
Qed.

Lemma rx_frame_skew cap d0 c0 d p : needs_esc d = false -> 0 < cap ->
  rx_run cap (mk ADDR d0 c0 [] 0) (frame d p) =
    if 1 + len p <? cap then (mk WAIT FLAG d [] 0, [RMsg FLAG (C_UI :: p)])
    else if 1 + len p =? cap then (mk WAIT FLAG d [] 0, [ROverflow])
    else (mk ADDR FLAG d [] 0, [ROverflow]).
Proof.
  intros Hd Hc. rewrite frame_unfold by exact Hd. rewrite rx_run_app, rx_hdr_skew by lia.
  destruct (1 + len p <? cap) eqn:E1; [rewrite rx_body_ok by lia; reflexivity|].
  destruct (1 + len p =? cap) eqn:E2; [rewrite rx_body_exact by lia; reflexivity|].
  rewrite rx_body_over by lia. reflexivity.
Qed.

(* ---------------------------------------------------------------- streams *)

Lemma render_cons i its : render (i :: its) = render1 i ++ render its.
Proof. reflexivity. Qed.

Lemma msgs_app a b : msgs (a ++ b) = msgs a ++ msgs b.
Proof. induction a as [|x a IH]; [reflexivity|]. destruct x; cbn [app msgs]; rewrite IH; reflexivity. Qed.

(* every frame of a stream of in-size frames with flag-free noise between them is dispatched
   exactly once, in order, with identical DLCI and payload - and nothing else happens *)
Lemma rx_stream cap : 0 < cap -> forall its d0 c0, good_stream cap its ->
  exists d1 c1, rx_run cap (mk WAIT d0 c0 [] 0) (render its) = (mk WAIT d1 c1 [] 0, map rmsg (frames_of its)).
Proof.
  intros Hc. induction its as [|i its IH]; intros d0 c0 Hg.
  - exists d0, c0. reflexivity.
  - destruct i as [n|d p]; cbn [good_stream] in Hg.
    + destruct Hg as [Hn Hg]. destruct (IH d0 c0 Hg) as (d1 & c1 & E). exists d1, c1.
      rewrite render_cons. cbn [render1 frames_of]. rewrite rx_run_app, wait_noise by assumption. rewrite E. reflexivity.
    + destruct Hg as (Hd & Hl & Hg). destruct (IH d C_UI Hg) as (d1 & c1 & E). exists d1, c1.
      rewrite render_cons. cbn [render1 frames_of map]. rewrite rx_run_app, rx_frame_idle by assumption. rewrite E. reflexivity.
Qed.

Definition st_of (skew : bool) : rxst := if skew then ADDR else WAIT.
Definition not_flag_dlci (x : Z * list Z) : bool := negb (fst x =? FLAG).

(* the general stream: frames of ANY length.  Over-long frames are discarded; one longer than the buffer
   leaves the receiver skewed by one flag, which costs exactly the next in-size frame (it is dispatched,
   if at all, as a junk message on DLCI 0x7E) and nothing else - provided no noise follows the over-long
   frame directly (wf_stream). *)
Lemma rx_stream_gen cap : 0 < cap -> forall its skew d0 c0, wf_stream cap skew its ->
  exists d1 c1 skew' evs,
    rx_run cap (mk (st_of skew) d0 c0 [] 0) (render its) = (mk (st_of skew') d1 c1 [] 0, evs) /\
    filter not_flag_dlci (msgs evs) = expect cap skew its /\ ~ In RAbort evs.
Proof.
  intros Hc. induction its as [|i its IH]; intros skew d0 c0 Hw.
  - exists d0, c0, skew, []. cbn. auto.
  - destruct i as [n|d p]; cbn [wf_stream] in Hw; rewrite render_cons; cbn [render1 expect].
    + destruct Hw as (Hn & Hs & Hw). destruct (IH skew d0 c0 Hw) as (d1 & c1 & sk & evs & E & Hf & Ha).
      exists d1, c1, sk, evs. split; [|auto].
      rewrite rx_run_app. destruct skew.
      * rewrite (Hs eq_refl). cbn [rx_run]. rewrite E. reflexivity.
      * cbn [st_of]. rewrite wait_noise by assumption. cbn [st_of] in E. rewrite E. reflexivity.
    + destruct Hw as (Hd & Hw). pose proof (needs_esc_false d Hd) as (Hdf & _ & _).
      assert (Hnf : not_flag_dlci (d, p) = true).
      { unfold not_flag_dlci. cbn [fst]. destruct (d =? FLAG) eqn:E; [lia|reflexivity]. }
      rewrite rx_run_app. destruct skew; cbn [st_of].
      * (* skewed receiver *)
        rewrite rx_frame_skew by assumption.
        destruct (len p <? cap) eqn:E0.
        -- destruct (IH false FLAG d Hw) as (d1 & c1 & sk & evs & E & Hf & Ha).
           cbn [st_of] in E.
           destruct (1 + len p <? cap) eqn:E1.
           ++ exists d1, c1, sk, (RMsg FLAG (C_UI :: p) :: evs). rewrite E. split; [reflexivity|].
              split; [|intros [H|H]; [discriminate|auto]].
              cbn [msgs filter]. unfold not_flag_dlci at 1. cbn [fst]. rewrite Z.eqb_refl. cbn [negb]. exact Hf.
           ++ destruct (1 + len p =? cap) eqn:E2; [|lia].
              exists d1, c1, sk, (ROverflow :: evs). rewrite E. split; [reflexivity|].
              split; [exact Hf|intros [H|H]; [discriminate|auto]].
        -- destruct (1 + len p <? cap) eqn:E1; [lia|]. destruct (1 + len p =? cap) eqn:E2; [lia|].
           cbn [orb] in Hw. destruct (IH true FLAG d Hw) as (d1 & c1 & sk & evs & E & Hf & Ha).
           cbn [st_of] in E. exists d1, c1, sk, (ROverflow :: evs). rewrite E. split; [reflexivity|].
           cbn [orb]. split; [exact Hf|intros [H|H]; [discriminate|auto]].
      * (* idle receiver *)
        destruct (len p <? cap) eqn:E0.
        -- rewrite rx_frame_idle by (assumption || lia).
           destruct (IH false d C_UI Hw) as (d1 & c1 & sk & evs & E & Hf & Ha). cbn [st_of] in E.
           exists d1, c1, sk, (RMsg d p :: evs). rewrite E. split; [reflexivity|].
           split; [|intros [H|H]; [discriminate|auto]].
           cbn [msgs filter]. rewrite Hnf, Hf. reflexivity.
        -- cbn [orb] in Hw |- *. destruct (cap <? len p) eqn:E1.
           ++ rewrite rx_frame_idle_over by (assumption || lia).
              destruct (IH true d C_UI Hw) as (d1 & c1 & sk & evs & E & Hf & Ha). cbn [st_of] in E.
              exists d1, c1, sk, (ROverflow :: evs). rewrite E. split; [reflexivity|].
              split; [exact Hf|intros [H|H]; [discriminate|auto]].
           ++ rewrite rx_frame_idle_exact by (assumption || lia).
              destruct (IH false d C_UI Hw) as (d1 & c1 & sk & evs & E & Hf & Ha). cbn [st_of] in E.
              exists d1, c1, sk, (ROverflow :: evs). rewrite E. split; [reflexivity|].
              split; [exact Hf|intros [H|H]; [discriminate|auto]].
Qed.

(* ---------------------------------------------------------------- memory safety for ALL octet sequences *)

Definition rx_inv (cap : Z) (s : rx) : Prop := 0 <= blen s <= cap /\ blen s = len (buf s).

Lemma rx_char_inv cap s ch : 0 <= cap -> rx_inv cap s ->
  rx_inv cap (fst (rx_char cap s ch)) /\ snd (rx_char cap s ch) <> RAbort /\
  (forall d p, snd (rx_char cap s ch) = RMsg d p -> len p < cap).
Proof.
  intros Hc [Hb Hl]. destruct s as [s d c b n]. cbn [blen buf] in *. unfold rx_inv.
  unfold rx_char, put, tailroom; cbn [st dlci ctrl buf blen].
  destruct (cap - n =? 0) eqn:E0.
  - cbn [fst snd blen buf]. rewrite len_nil. repeat split; try lia; discriminate.
  - destruct s.
    + destruct (ch =? FLAG); cbn [fst snd blen buf]; repeat split; try lia; discriminate.
    + cbn [fst snd blen buf]; repeat split; try lia; discriminate.
    + cbn [fst snd blen buf]; repeat split; try lia; discriminate.
    + destruct (ch =? ESC); [cbn [fst snd blen buf]; repeat split; try lia; discriminate|].
      destruct (ch =? FLAG).
      * cbn [fst snd blen buf]. rewrite len_nil. repeat split; try lia; try discriminate.
        intros d' p' H. inversion H. unfold len in *. rewrite rev_length. lia.
      * destruct (cap - n <? 1) eqn:E1; [lia|]. cbn [fst snd blen buf]. rewrite len_cons.
        repeat split; try lia; discriminate.
    + destruct (cap - n <? 1) eqn:E1; [lia|]. cbn [fst snd blen buf]. rewrite len_cons.
      repeat split; try lia; discriminate.
Qed.

Lemma rx_run_inv cap l : 0 <= cap -> forall s, rx_inv cap s ->
  rx_inv cap (fst (rx_run cap s l)) /\ ~ In RAbort (snd (rx_run cap s l)) /\
  (forall d p, In (d, p) (msgs (snd (rx_run cap s l))) -> len p < cap).
Proof.
  intros Hc. induction l as [|ch l IH]; intros s Hs.
  - cbn [rx_run fst snd msgs In]. split; [exact Hs|]. split; [tauto|]. intros d p [].
  - cbn [rx_run]. destruct (rx_char_inv cap s ch Hc Hs) as (H1 & H2 & H3).
    destruct (rx_char cap s ch) as [s1 o] eqn:E. cbn [fst snd] in *.
    destruct (IH s1 H1) as (I1 & I2 & I3). destruct (rx_run cap s1 l) as [s2 os]. cbn [fst snd] in *.
    split; [exact I1|]. split.
    + destruct o; try exact I2; intros [H|H]; try discriminate; auto.
    + intros d p Hin. destruct o; cbn [msgs] in Hin; try (apply (I3 d p); exact Hin).
      cbn [In] in Hin. destruct Hin as [Hin|Hin]; [inversion Hin; subst; apply (H3 d p); reflexivity|apply (I3 d p); exact Hin].
Qed.

Lemma rx0_inv cap : 0 <= cap -> rx_inv cap rx0.
Proof. intros H. unfold rx_inv, rx0. cbn [blen buf]. rewrite len_nil. lia. Qed.

(* ---------------------------------------------------------------- the known defects of the pinned tree *)

(* DLCI 0 (SC_DLCI_HIGHEST): Tx escapes the address octet, Rx takes 0x7D as the address, 0x20 as the
   control octet and the real control octet as the first payload octet *)
Lemma rx_frame_dlci0 cap p : 1 + len p < cap ->
  rx_run cap rx0 (frame 0 p) = (mk WAIT 125 32 [] 0, [RMsg 125 (3 :: p)]).
Proof.
  intros H. pose proof (len_nonneg p).
  change (frame 0 p) with ([FLAG; ESC; 32; C_UI] ++ (escape p ++ [FLAG])).
  rewrite rx_run_app. change rx0 with (mk WAIT 0 0 [] 0).
  cbn [rx_run]. rewrite step_wait_flag by lia. rewrite step_addr by lia. rewrite step_ctrl by lia.
  rewrite step_plain by (try lia; discriminate). rewrite rx_body_ok by lia. reflexivity.
Qed.

Lemma dlci0_refuted :
  needs_esc 0 = true /\ 0 <= 0 < DLCI_MAX /\ len [65] < 2048 /\
  msgs (snd (rx_run 2048 rx0 (frame 0 [65]))) = [(125, [3; 65])] /\
  msgs (snd (rx_run 2048 rx0 (frame 0 [65]))) <> [(0, [65])].
Proof.
  rewrite rx_frame_dlci0 by (vm_compute; reflexivity).
  repeat split; try reflexivity; try (vm_compute; congruence).
Qed.

(* flag-free noise directly after an over-long frame: a junk message is dispatched on the DLCI named by the
   first noise octet and TWO following frames are lost (witness with capacity 4; the same happens at 2048) *)
Definition noise_witness : list item :=
  [Frame 5 [65; 65; 65; 65; 65]; Noise [9; 1; 2]; Frame 5 [1]; Frame 5 [2]; Frame 5 [3]].

Lemma noise_after_overlong_refuted :
  Forall (fun b => b <> FLAG) [9; 1; 2] /\ needs_esc 5 = false /\
  msgs (snd (rx_run 4 rx0 (render noise_witness))) = [(9, [2]); (126, [3; 2]); (5, [3])].
Proof. split; [repeat constructor; discriminate|]. split; reflexivity. Qed.

Lemma noise_after_overlong_refuted_host :
  msgs (snd (rx_run 2048 rx0 (render [Frame 5 (repeat 65 2049); Noise [9; 1; 2]; Frame 5 [1]; Frame 5 [2]; Frame 5 [3]])))
  = [(9, [2]); (126, [3; 2]); (5, [3])].
Proof. vm_compute. reflexivity. Qed.

(* non-vacuity: concrete inputs meeting the hypotheses *)
Example stream_example :
  good_stream 2048 [Noise [1; 125; 0]; Frame 5 [126; 125; 0; 94; 93; 32]; Noise []; Frame 10 []; Frame 128 [0]] /\
  msgs (snd (rx_run 2048 rx0 (render [Noise [1; 125; 0]; Frame 5 [126; 125; 0; 94; 93; 32]; Noise []; Frame 10 []; Frame 128 [0]])))
  = [(5, [126; 125; 0; 94; 93; 32]); (10, []); (128, [0])].
Proof.
  split; [|vm_compute; reflexivity].
  cbn [good_stream]. repeat split; try reflexivity; try (repeat constructor; discriminate).
Qed.

Example overlong_example :
  wf_stream 4 false [Frame 5 [1]; Frame 9 [1; 2; 3; 4; 5; 6]; Frame 5 [2]; Noise [7]; Frame 5 [3]; Frame 5 [1; 2; 3; 4]; Noise [8]; Frame 5 [4]] /\
  expect 4 false [Frame 5 [1]; Frame 9 [1; 2; 3; 4; 5; 6]; Frame 5 [2]; Noise [7]; Frame 5 [3]; Frame 5 [1; 2; 3; 4]; Noise [8]; Frame 5 [4]]
  = [(5, [1]); (5, [3]); (5, [4])] /\
  msgs (snd (rx_run 4 rx0 (render [Frame 5 [1]; Frame 9 [1; 2; 3; 4; 5; 6]; Frame 5 [2]; Noise [7]; Frame 5 [3]; Frame 5 [1; 2; 3; 4]; Noise [8]; Frame 5 [4]])))
  = [(5, [1]); (126, [3; 2]); (5, [3]); (5, [4])].
Proof.
  split; [|split; vm_compute; reflexivity].
  cbn. repeat split; try reflexivity; try (repeat constructor; discriminate); discriminate.
Qed.

(* ---------------------------------------------------------------- corollaries in the shape of the property text *)

Lemma msgs_rmsg l : msgs (map rmsg l) = l.
Proof. induction l as [|[d p] l IH]; [reflexivity|]. cbn [map rmsg msgs fst snd]. rewrite IH. reflexivity. Qed.

Lemma delivered_all reg l : Forall (fun x => registered reg (fst x) = true) l -> delivered reg l = l.
Proof.
  unfold delivered. induction 1 as [|x l Hx Hl IH]; [reflexivity|]. cbn [filter]. rewrite Hx, IH. reflexivity.
Qed.

(* handlers registered for every DLCI in use: each message reaches its handler exactly once, in order, unchanged *)
Lemma rx_stream_delivered cap reg its : 0 < cap -> good_stream cap its ->
  Forall (fun x => registered reg (fst x) = true) (frames_of its) ->
  delivered reg (msgs (snd (rx_run cap rx0 (render its)))) = frames_of its.
Proof.
  intros Hc Hg Hr. destruct (rx_stream cap Hc its 0 0 Hg) as (d1 & c1 & E).
  change (mk WAIT 0 0 [] 0) with rx0 in E. rewrite E. cbn [snd]. rewrite msgs_rmsg. apply delivered_all, Hr.
Qed.

Lemma wf_good cap a : good_stream cap a -> forall b, wf_stream cap false b -> wf_stream cap false (a ++ b).
Proof.
  induction a as [|[n|d p] a IH]; cbn [good_stream app wf_stream]; intros Hg b Hb.
  - exact Hb.
  - destruct Hg as [Hn Hg]. split; [exact Hn|]. split; [discriminate|]. apply IH; assumption.
  - destruct Hg as (Hd & Hl & Hg). split; [exact Hd|]. replace (len p <? cap) with true by lia. apply IH; assumption.
Qed.

Lemma expect_good cap a : good_stream cap a -> forall b, expect cap false (a ++ b) = frames_of a ++ expect cap false b.
Proof.
  induction a as [|[n|d p] a IH]; cbn [good_stream app expect frames_of]; intros Hg b.
  - reflexivity.
  - destruct Hg as [Hn Hg]. apply IH; assumption.
  - destruct Hg as (Hd & Hl & Hg). replace (len p <? cap) with true by lia. rewrite IH by assumption. reflexivity.
Qed.

(* an over-long frame anywhere in an otherwise good stream, directly followed by a frame: nothing is
   corrupted, at most that following frame is lost (it is lost iff the payload exceeds the buffer;
   a payload of exactly the buffer size costs nothing), every later frame is dispatched *)
Lemma overlong_resync cap pre d p d1 p1 post :
  0 < cap -> good_stream cap pre -> needs_esc d = false -> cap <= len p ->
  needs_esc d1 = false -> len p1 < cap -> good_stream cap post ->
  exists s evs,
    rx_run cap rx0 (render (pre ++ Frame d p :: Frame d1 p1 :: post)) = (s, evs) /\ ~ In RAbort evs /\
    filter not_flag_dlci (msgs evs) = frames_of pre ++ (if cap <? len p then [] else [(d1, p1)]) ++ frames_of post.
Proof.
  intros Hc Hpre Hd Hp Hd1 Hp1 Hpost.
  assert (Hwpost : wf_stream cap false post).
  { rewrite <- (app_nil_r post). apply wf_good; [exact Hpost|exact I]. }
  assert (Hepost : expect cap false post = frames_of post).
  { rewrite <- (app_nil_r post) at 1. rewrite expect_good by exact Hpost. cbn [expect]. apply app_nil_r. }
  assert (Hw : wf_stream cap false (pre ++ Frame d p :: Frame d1 p1 :: post)).
  { apply wf_good; [exact Hpre|]. cbn [wf_stream]. split; [exact Hd|].
    replace (len p <? cap) with false by lia. split; [exact Hd1|]. replace (len p1 <? cap) with true by lia. exact Hwpost. }
  destruct (rx_stream_gen cap Hc _ false 0 0 Hw) as (d2 & c2 & sk & evs & E & Hf & Ha).
  cbn [st_of] in E. change (mk WAIT 0 0 [] 0) with rx0 in E.
  eexists _, evs. split; [exact E|]. split; [exact Ha|]. rewrite Hf, expect_good by exact Hpre. f_equal.
  cbn [expect]. replace (len p <? cap) with false by lia. replace (len p1 <? cap) with true by lia. cbn [orb].
  destruct (cap <? len p); rewrite Hepost; reflexivity.
Qed.
