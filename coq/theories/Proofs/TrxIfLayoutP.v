(* C04: anything the toolkit's TRXD parser accepts is read per the documented layout (converse of gen_tx_layout / gen_rx_layout) *)
From Coq Require Import ZArith List Bool Lia ZifyBool.
From OBB Require Import Base.Range Gen.TrxdConst Model.Trxd Proofs.TrxdBase Proofs.TrxdTx Proofs.TrxdRx Proofs.TrxdRxRT.
Import ListNotations.
Open Scope Z_scope.
Ltac Zify.zify_post_hook ::= Z.to_euclidean_division_equations.

Definition octets (b : list Z) : Prop := Forall (fun x => 0 <= x < 256) b.

(* first octet: version nibble, reserved bit 3 (ignored by the parser), timeslot *)
Lemma sweep_b0_decomp : forallb (fun b0 =>
   (b0 =? Z.shiftr b0 4 * 16 + 8 * Z.land (Z.shiftr b0 3) 1 + Z.land b0 7)
   && (0 <=? Z.land b0 7) && (Z.land b0 7 <=? 7) && (0 <=? Z.land (Z.shiftr b0 3) 1) && (Z.land (Z.shiftr b0 3) 1 <=? 1)) (range 0 256) = true.
Proof. vm_compute. reflexivity. Qed.
Lemma b0_decomp b0 : 0 <= b0 < 256 -> exists r, (r = 0 \/ r = 1) /\ b0 = Z.shiftr b0 4 * 16 + (Z.land b0 7 + 8 * r) /\ 0 <= Z.land b0 7 <= 7.
Proof.
  intros H. pose proof (forallb_range _ _ _ sweep_b0_decomp b0 H) as E. cbv beta in E.
  exists (Z.land (Z.shiftr b0 3) 1). set (r := Z.land (Z.shiftr b0 3) 1) in *. set (t := Z.land b0 7) in *. set (v := Z.shiftr b0 4) in *. lia.
Qed.

Lemma be32_of_bytes b1 b2 b3 b4 : 0 <= b1 < 256 -> 0 <= b2 < 256 -> 0 <= b3 < 256 -> 0 <= b4 < 256 ->
  let fn := ((b1 * 256 + b2) * 256 + b3) * 256 + b4 in
  0 <= fn < 4294967296 /\ [fn / 16777216 mod 256; fn / 65536 mod 256; fn / 256 mod 256; fn mod 256] = [b1; b2; b3; b4].
Proof. intros H1 H2 H3 H4. cbv zeta. split; [lia|]. repeat f_equal; lia. Qed.

Lemma i16_of_bytes b6 b7 : 0 <= b6 < 256 -> 0 <= b7 < 256 ->
  let u := b6 * 256 + b7 in let a := if u <? 32768 then u else u - 65536 in
  -32768 <= a <= 32767 /\ a mod 65536 / 256 = b6 /\ a mod 65536 mod 256 = b7.
Proof. intros H6 H7. cbv zeta. destruct (b6 * 256 + b7 <? 32768) eqn:E; lia. Qed.

Theorem parse_tx_is_layout b m : octets b -> parse_tx b = Ok m ->
  exists fn tn pwr r rest,
    (t_ver m = 0 \/ t_ver m = 1) /\ t_fn m = Some fn /\ t_tn m = Some tn /\ t_pwr m = Some pwr
    /\ 0 <= fn < 4294967296 /\ 0 <= tn <= 7 /\ 0 <= pwr <= 255 /\ (r = 0 \/ r = 1)
    /\ b = layout_tx (t_ver m) fn (tn + 8 * r) pwr rest
    /\ t_burst m = match rest with [] => None | _ :: _ => Some (tx_parse_burst rest) end.
Proof.
  intros Hb H.
  destruct b as [|b0 [|b1 [|b2 [|b3 [|b4 t5]]]]]; try (cbn in H; discriminate).
  unfold parse_tx in H. cbn [length Nat.ltb Nat.leb idx nth_error bind] in H.
  destruct (known (Z.shiftr b0 4)) eqn:Hk; cbn [negb] in H; [|discriminate].
  apply known_iff in Hk.
  unfold slice in H. cbn [skipn Nat.sub firstn un_be32 bind] in H.
  assert (Hhl : tx_hdr_len (Z.shiftr b0 4) = Ok 6%nat) by (unfold tx_hdr_len; destruct Hk as [-> | ->]; reflexivity).
  rewrite Hhl in H. cbn [bind] in H.
  destruct t5 as [|p rest]; [cbn in H; discriminate|].
  cbn [length Nat.ltb Nat.leb idx nth_error bind Nat.eqb skipn] in H.
  unfold octets in Hb. repeat match goal with H : Forall _ (_ :: _) |- _ => inversion H; clear H; subst end.
  destruct (b0_decomp b0 ltac:(assumption)) as [r [Hr [Hb0 Htn]]].
  destruct (be32_of_bytes b1 b2 b3 b4 ltac:(assumption) ltac:(assumption) ltac:(assumption) ltac:(assumption)) as [Hfn Hbe].
  set (fn := ((b1 * 256 + b2) * 256 + b3) * 256 + b4) in *.
  exists fn, (Z.land b0 7), p, r, rest.
  destruct rest as [|x xs]; cbn [length Nat.eqb] in H; injection H as <-; cbn [t_ver t_fn t_tn t_pwr t_burst];
    (split; [exact Hk|]); repeat (split; [reflexivity|]); (split; [exact Hfn|]); (split; [exact Htn|]); (split; [lia|]); (split; [exact Hr|]);
    (split; [|reflexivity]); unfold layout_tx; cbn [app]; rewrite <- Hb0; injection Hbe as -> -> -> ->; reflexivity.
Qed.

(* ---- Rx ---- *)
Lemma find_idx_spec {A} (p : A -> bool) (l : list A) : forall k i, find_idx p l k = Some i ->
  (k <= i)%nat /\ exists x, nth_error l (i - k) = Some x /\ p x = true.
Proof.
  induction l as [|y l IH]; intros k i H; cbn [find_idx] in H; [discriminate|].
  destruct (p y) eqn:E.
  - injection H as <-. split; [lia|]. exists y. rewrite Nat.sub_diag. split; [reflexivity|exact E].
  - apply IH in H as [Hk [x [Hn Hp]]]. split; [lia|]. exists x. split; [|exact Hp].
    replace (i - k)%nat with (S (i - S k)) by lia. exact Hn.
Qed.
Lemma pick_by_bl_spec bl i : pick_by_bl bl = Some i -> mod_bl i = bl.
Proof.
  unfold pick_by_bl, mod_bl. intros H. apply find_idx_spec in H as [_ [x [Hn Hp]]]. rewrite Nat.sub_0_r in Hn.
  rewrite (nth_error_nth _ _ _ Hn). lia.
Qed.

(* soft bits as the protocol words them: 0 -> 127 ... 254 -> -127, 255 -> -127 *)
Definition us2s_spec (u : Z) : Z := if u =? 255 then -127 else 127 - u.
Lemma map_us2s_spec l : octets l -> map us2s l = map us2s_spec l.
Proof. induction 1 as [|x l Hx _ IH]; [reflexivity|]. cbn [map]. rewrite IH, us2s_f by lia. reflexivity. Qed.

(* the MTS octet of version 1, in arithmetic: bit 7 NOPE; otherwise bits 2..0 TSC, bits 6..3 modulation and TSC set
   (0000..0011 GMSK set 0..3; 010x 8-PSK, 011x GMSK-AB, 100x 16QAM, 101x 32QAM, 110x AQPSK, x = set; 111x unassigned) *)
Definition mts_spec (x : Z) : bool * option nat * option Z * option Z :=
  if 128 <=? x then (true, None, None, None) else
  let t := x mod 8 in let mm := x / 8 in
  if 4 <=? mm then (false, nth (Z.to_nat (mm / 2)) [None; None; Some 1%nat; Some 2%nat; Some 3%nat; Some 4%nat; Some 5%nat; None] None, Some (mm mod 2), Some t)
  else (false, Some 0%nat, Some mm, Some t).
Definition on_eqb (a b : option nat) := match a, b with Some x, Some y => Nat.eqb x y | None, None => true | _, _ => false end.
Definition oz_eqb (a b : option Z) := match a, b with Some x, Some y => x =? y | None, None => true | _, _ => false end.
Definition mts_eqb (a b : bool * option nat * option Z * option Z) : bool :=
  match a, b with (n, m, s, t), (n', m', s', t') => Bool.eqb n n' && on_eqb m m' && oz_eqb s s' && oz_eqb t t' end.
Lemma on_eqb_eq a b : on_eqb a b = true -> a = b.
Proof. destruct a, b; cbn; try discriminate; auto. intros H. apply Nat.eqb_eq in H. congruence. Qed.
Lemma oz_eqb_eq a b : oz_eqb a b = true -> a = b.
Proof. destruct a, b; cbn; try discriminate; auto. intros H. f_equal. lia. Qed.
Lemma sweep_parse_mts : forallb (fun x => mts_eqb (parse_mts x) (mts_spec x)) (range 0 256) = true.
Proof. vm_compute. reflexivity. Qed.
Lemma parse_mts_arith x : 0 <= x < 256 -> parse_mts x = mts_spec x.
Proof.
  intros H. pose proof (forallb_range _ _ _ sweep_parse_mts x H) as E. cbv beta in E.
  destruct (parse_mts x) as [[[n m] s] t]. destruct (mts_spec x) as [[[n' m'] s'] t']. cbn [mts_eqb] in E.
  apply andb_prop in E as [E Et]. apply andb_prop in E as [E Es]. apply andb_prop in E as [En Em].
  apply Bool.eqb_prop in En. apply on_eqb_eq in Em. apply oz_eqb_eq in Es, Et. congruence.
Qed.

Theorem parse_rx_is_layout b m : octets b -> parse_rx b = Ok m ->
  exists fn tn rssi toa r rest,
    (r_ver m = 0 \/ r_ver m = 1) /\ r_fn m = Some fn /\ r_tn m = Some tn /\ r_rssi m = Some rssi /\ r_toa m = Some toa
    /\ 0 <= fn < 4294967296 /\ 0 <= tn <= 7 /\ -255 <= rssi <= 0 /\ -32768 <= toa <= 32767 /\ (r = 0 \/ r = 1)
    /\ ((r_ver m = 0 /\ b = layout_rx_hdr 0 fn (tn + 8 * r) rssi toa ++ rest
         /\ match rest with
            | [] => r_burst m = None
            | _ :: _ => exists i, r_mod m = Some i /\ (Z.of_nat (length rest) = mod_bl i \/ Z.of_nat (length rest) = mod_bl i + 2)
                                  /\ r_burst m = Some (map us2s_spec (firstn (Z.to_nat (mod_bl i)) rest))
            end)
        \/ (r_ver m = 1 /\ exists mts ci, r_ci m = Some ci /\ -32768 <= ci <= 32767 /\ 0 <= mts <= 255
            /\ mts_spec mts = (r_nope m, r_mod m, r_tset m, r_tsc m)
            /\ b = layout_rx_hdr 1 fn (tn + 8 * r) rssi toa ++ [mts] ++ layout_ci ci ++ rest
            /\ r_burst m = match rest with [] => None | _ :: _ => Some (map us2s_spec rest) end)).
Proof.
  intros Hb H.
  destruct b as [|b0 [|b1 [|b2 [|b3 [|b4 t5]]]]]; try (cbn in H; discriminate).
  unfold parse_rx in H. cbn [length Nat.ltb Nat.leb idx nth_error bind] in H.
  destruct (known (Z.shiftr b0 4)) eqn:Hk; cbn [negb] in H; [|discriminate].
  apply known_iff in Hk.
  unfold slice in H. cbn [skipn Nat.sub firstn un_be32 bind] in H.
  unfold octets in Hb.
  assert (H0 : 0 <= b0 < 256) by (inversion Hb; assumption).
  destruct (b0_decomp b0 H0) as [r [Hr [Hb0 Htn]]].
  destruct Hk as [Hv | Hv]; rewrite Hv in H, Hb0.
  - (* version 0: 8 header octets *)
    change (rx_hdr_len 0) with (@Ok nat 8%nat) in H. cbn [bind] in H.
    destruct t5 as [|b5 [|b6 [|b7 rest]]]; try (cbn in H; discriminate).
    cbn [length Nat.ltb Nat.leb idx nth_error bind skipn Nat.sub firstn un_i16] in H.
    change (0 >=? 1) with false in H. cbv iota in H. cbn [bind] in H.
    repeat match goal with H : Forall _ (_ :: _) |- _ => inversion H; clear H; subst end.
    destruct (be32_of_bytes b1 b2 b3 b4 ltac:(assumption) ltac:(assumption) ltac:(assumption) ltac:(assumption)) as [Hfn Hbe].
    destruct (i16_of_bytes b6 b7 ltac:(assumption) ltac:(assumption)) as [Ha [Ha6 Ha7]].
    set (fn := ((b1 * 256 + b2) * 256 + b3) * 256 + b4) in *.
    set (toa := if b6 * 256 + b7 <? 32768 then b6 * 256 + b7 else b6 * 256 + b7 - 65536) in *.
    assert (Hlay : b0 :: b1 :: b2 :: b3 :: b4 :: b5 :: b6 :: b7 :: rest = layout_rx_hdr 0 fn (Z.land b0 7 + 8 * r) (- b5) toa ++ rest).
    { unfold layout_rx_hdr. cbn [app]. rewrite Z.opp_involutive, Ha6, Ha7. injection Hbe as -> -> -> ->. f_equal. lia. }
    exists fn, (Z.land b0 7), (- b5), toa, r, rest.
    destruct rest as [|x xs].
    + cbn [length Nat.eqb] in H. injection H as <-. cbn [r_ver r_fn r_tn r_rssi r_toa r_burst].
      split; [auto|]. repeat (split; [reflexivity|]). split; [exact Hfn|]. split; [exact Htn|]. split; [lia|]. split; [exact Ha|]. split; [exact Hr|].
      left. split; [reflexivity|]. split; [exact Hlay|reflexivity].
    + cbn [length Nat.eqb skipn] in H. change (0 =? 0) with true in H. cbv iota in H.
      change (length (x :: xs)) with (S (length xs)). set (bl := Z.of_nat (S (length xs))) in *.
      destruct (match pick_by_bl bl with Some i => Some i | None => pick_by_bl (bl - 2) end) as [i|] eqn:Ep in H; [|discriminate].
      injection H as <-. cbn [r_ver r_fn r_tn r_rssi r_toa r_burst r_mod].
      split; [auto|]. repeat (split; [reflexivity|]). split; [exact Hfn|]. split; [exact Htn|]. split; [lia|]. split; [exact Ha|]. split; [exact Hr|].
      left. split; [reflexivity|]. split; [exact Hlay|].
      exists i. split; [reflexivity|]. split.
      * destruct (pick_by_bl bl) as [j|] eqn:E1.
        { injection Ep as <-. left. symmetry. apply pick_by_bl_spec, E1. }
        { right. apply pick_by_bl_spec in Ep. lia. }
      * f_equal. apply map_us2s_spec. apply Forall_forall. intros y Hy.
        assert (Hin : In y (x :: xs)) by (rewrite <- (firstn_skipn (Z.to_nat (mod_bl i)) (x :: xs)); apply in_or_app; left; exact Hy).
        match goal with Hf : Forall _ (x :: xs) |- _ => rewrite Forall_forall in Hf; apply Hf; exact Hin end.
  - (* version 1: 11 header octets *)
    change (rx_hdr_len 1) with (@Ok nat 11%nat) in H. cbn [bind] in H.
    destruct t5 as [|b5 [|b6 [|b7 [|b8 [|b9 [|b10 rest]]]]]]; try (cbn in H; discriminate).
    cbn [length Nat.ltb Nat.leb idx nth_error bind skipn Nat.sub firstn un_i16] in H.
    change (1 >=? 1) with true in H. cbv iota in H. cbn [bind idx nth_error un_i16] in H.
    repeat match goal with H : Forall _ (_ :: _) |- _ => inversion H; clear H; subst end.
    destruct (be32_of_bytes b1 b2 b3 b4 ltac:(assumption) ltac:(assumption) ltac:(assumption) ltac:(assumption)) as [Hfn Hbe].
    destruct (i16_of_bytes b6 b7 ltac:(assumption) ltac:(assumption)) as [Ha [Ha6 Ha7]].
    destruct (i16_of_bytes b9 b10 ltac:(assumption) ltac:(assumption)) as [Hc [Hc9 Hc10]].
    set (fn := ((b1 * 256 + b2) * 256 + b3) * 256 + b4) in *.
    set (toa := if b6 * 256 + b7 <? 32768 then b6 * 256 + b7 else b6 * 256 + b7 - 65536) in *.
    set (ci := if b9 * 256 + b10 <? 32768 then b9 * 256 + b10 else b9 * 256 + b10 - 65536) in *.
    assert (Hlay : b0 :: b1 :: b2 :: b3 :: b4 :: b5 :: b6 :: b7 :: b8 :: b9 :: b10 :: rest
                   = layout_rx_hdr 1 fn (Z.land b0 7 + 8 * r) (- b5) toa ++ [b8] ++ layout_ci ci ++ rest).
    { unfold layout_rx_hdr, layout_ci. cbn [app]. rewrite Z.opp_involutive, Ha6, Ha7, Hc9, Hc10. injection Hbe as -> -> -> ->. f_equal. lia. }
    rewrite (parse_mts_arith b8) in H by assumption.
    destruct (mts_spec b8) as [[[np mt] ts] tc] eqn:Emts.
    exists fn, (Z.land b0 7), (- b5), toa, r, rest.
    destruct rest as [|x xs].
    + cbn [length Nat.eqb] in H. injection H as <-. cbn [r_ver r_fn r_tn r_rssi r_toa r_burst r_nope r_mod r_tset r_tsc r_ci].
      split; [auto|]. repeat (split; [reflexivity|]). split; [exact Hfn|]. split; [exact Htn|]. split; [lia|]. split; [exact Ha|]. split; [exact Hr|].
      right. split; [reflexivity|]. exists b8, ci. split; [reflexivity|]. split; [exact Hc|]. split; [lia|]. split; [exact Emts|]. split; [exact Hlay|reflexivity].
    + cbn [length Nat.eqb skipn] in H. change (1 =? 0) with false in H. cbv iota in H.
      injection H as <-. cbn [r_ver r_fn r_tn r_rssi r_toa r_burst r_nope r_mod r_tset r_tsc r_ci].
      split; [auto|]. repeat (split; [reflexivity|]). split; [exact Hfn|]. split; [exact Htn|]. split; [lia|]. split; [exact Ha|]. split; [exact Hr|].
      right. split; [reflexivity|]. exists b8, ci. split; [reflexivity|]. split; [exact Hc|]. split; [lia|]. split; [exact Emts|]. split; [exact Hlay|].
      f_equal. change (us2s x :: map us2s xs) with (map us2s (x :: xs)). apply map_us2s_spec. assumption.
Qed.

(* non-vacuity: concrete accepted datagrams *)
Example parse_rx_layout_example :
  exists m, parse_rx ([7; 0; 41; 111; 255; 120; 128; 0] ++ repeat 0 148 ++ [0; 0]) = Ok m /\ r_fn m = Some 2715647 /\ r_rssi m = Some (-120) /\ r_toa m = Some (-32768).
Proof. eexists. split; [vm_compute; reflexivity|]. repeat split. Qed.

(* the MTS octet the encoder writes for a valid version-1 message, in arithmetic *)
Lemma gen_mts_val m : spec_rx m -> r_ver m = 1 ->
  gen_mts m = if r_nope m then 128
              else match r_tsc m, r_mod m, r_tset m with
                   | Some t, Some i, Some s => t + 8 * (nth i [0; 4; 6; 8; 10; 12] 0 + s)
                   | _, _, _ => 0 end.
Proof.
  intros [_ [_ [_ [Hmts _]]]] Hver. unfold gen_mts. destruct (r_nope m) eqn:En; [apply gen_nope|].
  destruct (Hmts Hver eq_refl) as [i [s [t [-> [Hi [-> [-> [Ht Hs]]]]]]]].
  assert (Hts : tset_ok i s = true /\ 0 <= s < 4) by (unfold tset_ok; destruct (Nat.eqb i 0); split; lia).
  destruct Hts as [Hts Hs4]. fold (mts_val i s t).
  destruct (mts_rt i s t Hi Hts Hs4 ltac:(lia)) as [_ [_ ->]].
  unfold mod_coding. rewrite gen_mods. do 6 (destruct i as [|i]; [reflexivity|]). lia.
Qed.
