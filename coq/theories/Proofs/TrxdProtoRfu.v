(* C17: reserved bits and spare octets of TRXDv2 are ignored on receipt, end to end: the RFU bits of every batched
   sub-PDU header (each sub-PDU its own arbitrary value) and the three spare octets of a Tx PDU and of each of its sub-PDUs
   may hold anything - the datagram decodes to the same message as the documented layout with zeros there. *)
From Coq Require Import ZArith List Bool Lia ZifyBool.
From OBB Require Import Gen.TrxdProto Base.Range Base.Bits Model.Codec Proofs.CodecInt Proofs.CodecBits Proofs.CodecRT Proofs.CodecDE
  Proofs.CodecErr Proofs.CodecGood Proofs.CodecDGood Proofs.TrxdProtoSpec Proofs.TrxdProtoBits Proofs.TrxdProtoMsg Proofs.TrxdProtoTop.
Import ListNotations.
Open Scope Z_scope.
Ltac Zify.zify_post_hook ::= Z.to_euclidean_division_equations.

Ltac fresh_tac := split; [apply nodupb_sound; reflexivity|let k := fresh "k" in let H := fresh "Hk" in intros k H; cbn [keys map fst In] in H; intuition (subst; reflexivity)].
Ltac pown := change (2 ^ Z.of_nat 1) with 2 in *; change (2 ^ Z.of_nat 3) with 8 in *; change (2 ^ Z.of_nat 4) with 16 in *; change (2 ^ Z.of_nat 6) with 64 in *.
Ltac wfb := unfold bits_wf; cbn; lia.

(* ---------------------------------------------------------------- the bit-field sets, decoder side *)
Lemma mts_dec np md tc e0 : 0 <= np < 2 -> 0 <= md < 16 -> 0 <= tc < 8 ->
  fresh e0 [(9%nat, VInt np); (10%nat, VInt md); (11%nat, VInt tc)] ->
  dec_bits (bits_layout (LFix 1) false mts_bits) (from_be [np * 128 + md * 8 + tc]) e0 = Ok (e0 ++ [(9%nat, VInt np); (10%nat, VInt md); (11%nat, VInt tc)]).
Proof.
  intros Hn Hm Hc Hfr. rewrite from_be1. set (bcv := [(9%nat, VInt np); (10%nat, VInt md); (11%nat, VInt tc)]) in *.
  apply (dec_bits_of_blob (LFix 1) false mts_bits bcv bcv); [wfb| |apply mts_blob; try lia; reflexivity|exact Hfr].
  cbn [bits_order mts_bits]. apply bf_named_r; [reflexivity|pown; lia|]. apply bf_named_r; [reflexivity|pown; lia|]. apply bf_named_r; [reflexivity|pown; lia|]. constructor.
Qed.

Lemma hdr2_dec tn ba tr e0 : 0 <= tn < 8 -> 0 <= ba < 2 -> 0 <= tr < 64 ->
  fresh e0 [(0%nat, VInt 2); (1%nat, VInt tn); (13%nat, VInt ba); (15%nat, VInt tr)] ->
  dec_bits (bits_layout (LFix 2) false hdr2_bits) (from_be [32 + tn; ba * 128 + tr]) e0
    = Ok (e0 ++ [(0%nat, VInt 2); (1%nat, VInt tn); (13%nat, VInt ba); (15%nat, VInt tr)]).
Proof.
  intros Ht Hb Hr Hfr. rewrite from_be2. set (bcv := [(0%nat, VInt 2); (1%nat, VInt tn); (13%nat, VInt ba); (15%nat, VInt tr)]) in *.
  apply (dec_bits_of_blob (LFix 2) false hdr2_bits bcv bcv); [wfb| |apply hdr2_blob; try lia; reflexivity|exact Hfr].
  cbn [bits_order hdr2_bits]. apply bf_fixed; [pown; lia|]. apply bf_spare. apply bf_named_r; [reflexivity|pown; lia|].
  apply bf_named_r; [reflexivity|pown; lia|]. apply bf_spare. apply bf_named_r; [reflexivity|pown; lia|]. constructor.
Qed.

(* sub-PDU header whose five RFU bits hold the arbitrary value j *)
Lemma hdr2b_dec_g tn ba sh tr j e0 : 0 <= tn < 8 -> 0 <= ba < 2 -> 0 <= sh < 2 -> 0 <= tr < 64 -> 0 <= j < 32 ->
  fresh e0 [(1%nat, VInt tn); (13%nat, VInt ba); (14%nat, VInt sh); (15%nat, VInt tr)] ->
  dec_bits (bits_layout (LFix 2) false hdr2b_bits) (from_be [tn + 8 * j; ba * 128 + sh * 64 + tr]) e0
    = Ok (e0 ++ [(1%nat, VInt tn); (13%nat, VInt ba); (14%nat, VInt sh); (15%nat, VInt tr)]).
Proof.
  intros Ht Hb Hs Hr Hj Hfr. rewrite from_be2. set (bcv := [(1%nat, VInt tn); (13%nat, VInt ba); (14%nat, VInt sh); (15%nat, VInt tr)]) in *.
  set (h2 := ba * 128 + sh * 64 + tr).
  assert (E7 : Z.land tn 7 = Z.land (tn + 8 * j) 7).
  { change 7 with (Z.ones 3). rewrite !Z.land_ones by lia. change (2 ^ 3) with 8. lia. }
  rewrite (dec_bits_ext _ ((tn + 8 * j) * 256 + h2) (tn * 256 + h2)).
  - apply (dec_bits_of_blob (LFix 2) false hdr2b_bits bcv bcv); [wfb| |apply hdr2b_blob; try lia; reflexivity|exact Hfr].
    cbn [bits_order hdr2b_bits]. apply bf_spare. apply bf_spare. apply bf_named_r; [reflexivity|pown; lia|].
    apply bf_named_r; [reflexivity|pown; lia|]. apply bf_named_r; [reflexivity|pown; lia|]. apply bf_named_r; [reflexivity|pown; lia|]. constructor.
  - intros k bl fx o m Hin. apply (sub_rfu_windows tn (tn + 8 * j) h2); [lia|lia|subst h2; lia|exact E7|]. cbn in Hin.
    destruct Hin as [P|[P|[P|[P|[P|[P|[]]]]]]]; try discriminate; injection P as _ _ _ <- <-; cbn [In]; tauto.
Qed.

(* BurstBits, decoder side *)
Lemma dgood_burst nm np md bits fs e0 tail cv m : burst_ok np md bits ->
  lookup 9 e0 = Some (VInt np) -> lookup 10 e0 = Some (VInt md) -> lookup nm e0 = None ->
  dgood fs (e0 ++ burst_entry nm np bits) tail cv m ->
  dgood (burst nm :: fs) e0 (bits ++ tail) (burst_entry nm np bits ++ cv) (length bits + m).
Proof.
  intros [[-> Htab]|[-> ->]] L9 L10 Lnm Hg; unfold burst, burst_entry in *; cbn [Z.eqb] in *.
  - apply dgood_buf; [apply (tab_pres _ _ _ 0 true L9); reflexivity|apply (tab_len _ _ _ _ md _ L10 Htab)|exact Lnm|exact Hg].
  - cbn [app length Nat.add]. rewrite app_nil_r in Hg. apply dgood_absent; [apply (tab_pres _ _ _ 1 false L9); reflexivity|exact Hg].
Qed.

(* ---------------------------------------------------------------- TRXDv2 Rx *)
Definition rxsub_layout_g (s:rxsub) (j:Z) : list Z :=
  [s_tn s + 8 * j; s_batch s * 128 + s_shadow s * 64 + s_trxn s; s_nope s * 128 + s_mod s * 8 + s_tsc s; - s_rssi s]
  ++ be16 (s_toa s) ++ be16 (s_cir s) ++ s_bits s.
Definition rxsubs_layout_g (subs:list rxsub) (js:list Z) : list Z :=
  concat (map (fun p => rxsub_layout_g (fst p) (snd p)) (combine subs js)).
Definition rx2_layout_g (m:rx2) (js:list Z) : list Z :=
  [32 + m_tn m; m_batch m * 128 + m_trxn m; m_nope m * 128 + m_mod m * 8 + m_tsc m; - m_rssi m]
  ++ be16 (m_toa m) ++ be16 (m_cir m) ++ be32 (m_fn m) ++ m_bits m ++ rxsubs_layout_g (m_subs m) js.

Lemma rxsub_dgood s j T : rxsub_ok s -> 0 <= j < 32 ->
  dgood spec_v2_rx_item [] (rxsub_layout_g s j ++ T) (rxsub_fields s) (length (rxsub_layout_g s j)).
Proof.
  destruct s as [tn ba sh tr np md tc rssi toa cir bits]. unfold rxsub_ok, rxsub_layout_g, rxsub_fields.
  cbn [s_tn s_batch s_shadow s_trxn s_nope s_mod s_tsc s_rssi s_toa s_cir s_bits].
  intros [Ht [Hba [Hsh [Htr [Hm [Hc [Hr [Ha [Hi Hb]]]]]]]]] Hj. pose proof (nope_range _ _ _ Hb) as Hn.
  unfold spec_v2_rx_item, hdr2b, mts, rssi_f, i16be.
  apply (dgood_eq _ _ ([tn + 8 * j; ba * 128 + sh * 64 + tr] ++ [np * 128 + md * 8 + tc] ++ [- rssi] ++ be16 toa ++ be16 cir ++ bits ++ T)
           ([(1%nat, VInt tn); (13%nat, VInt ba); (14%nat, VInt sh); (15%nat, VInt tr)] ++ [(9%nat, VInt np); (10%nat, VInt md); (11%nat, VInt tc)] ++
            [(3%nat, VInt (- rssi * -1 + 0))] ++ [(4%nat, VInt (toa * 1 + 0))] ++ [(12%nat, VInt (cir * 1 + 0))] ++ burst_entry 5 np bits ++ [])
           (2 + (1 + (length [- rssi] + (length (be16 toa) + (length (be16 cir) + (length bits + 0))))))%nat).
  { rewrite <- !app_assoc. reflexivity. }
  { rewrite app_nil_r. replace (- rssi * -1 + 0) with rssi by lia. replace (toa * 1 + 0) with toa by lia. replace (cir * 1 + 0) with cir by lia. reflexivity. }
  { rewrite !app_length. cbn [length be16]. lia. }
  apply (dgood_bits (LFix 2) false hdr2b_bits); [reflexivity|apply hdr2b_dec_g; try lia; fresh_tac|].
  apply (dgood_bits (LFix 1) false mts_bits); [reflexivity|apply mts_dec; try lia; fresh_tac|].
  apply (dgood_uint 3 1 false false 0 (-1) (- rssi)); [lia|apply enc_u8; lia|reflexivity|].
  apply (dgood_uint 4 2 false true 0 1 toa); [lia|apply enc_i16; lia|reflexivity|].
  apply (dgood_uint 12 2 false true 0 1 cir); [lia|apply enc_i16; lia|reflexivity|].
  apply (dgood_burst 5 np md bits); [exact Hb|reflexivity|reflexivity|reflexivity|apply dgood_nil].
Qed.

Lemma rxsub_g_len s j : (1 <= length (rxsub_layout_g s j))%nat /\ length (rxsub_layout_g s j) = length (rxsub_layout s).
Proof. unfold rxsub_layout_g, rxsub_layout. rewrite !app_length. cbn [length]. lia. Qed.

Lemma rxsubs_ditems subs : Forall rxsub_ok subs -> forall js, length js = length subs -> Forall (fun j => 0 <= j < 32) js ->
  ditems spec_v2_rx_item (rxsubs_layout_g subs js) (map (fun s => VDict (rxsub_fields s)) subs) /\
  length (rxsubs_layout_g subs js) = length (concat (map rxsub_layout subs)).
Proof.
  induction 1 as [|s r Hs _ IH]; intros js Hl Hj.
  - destruct js; [|discriminate]. split; [apply ditems_nil|reflexivity].
  - destruct js as [|j js]; [discriminate|]. inversion Hj as [|? ? Hj0 Hjr]; subst. cbn [length] in Hl.
    destruct (IH js ltac:(lia) Hjr) as [Hi Hlen]. unfold rxsubs_layout_g in *. cbn [combine map concat fst snd]. split.
    + apply ditems_cons; [apply rxsub_dgood; assumption|apply rxsub_g_len|exact Hi].
    + rewrite !app_length, Hlen, (proj2 (rxsub_g_len s j)). reflexivity.
Qed.

Lemma rx2_dgood m js : rx2_ok m -> length js = length (m_subs m) -> Forall (fun j => 0 <= j < 32) js ->
  dgood spec_v2_rx [] (rx2_layout_g m js) (rx2_fields m) (length (rx2_layout_g m js)) /\
  length (rx2_layout_g m js) = length (rx2_layout m).
Proof.
  destruct m as [tn ba tr np md tc rssi toa cir fn bits subs]. unfold rx2_ok, rx2_layout_g, rx2_layout, rx2_fields.
  cbn [m_tn m_batch m_trxn m_nope m_mod m_tsc m_rssi m_toa m_cir m_fn m_bits m_subs].
  intros [Ht [Hba [Htr [Hm [Hc [Hr [Ha [Hi [Hf [Hb Hsubs]]]]]]]]]] Hl Hj. pose proof (nope_range _ _ _ Hb) as Hn.
  destruct (rxsubs_ditems subs Hsubs js Hl Hj) as [Hit Hlen]. set (S := rxsubs_layout_g subs js) in *.
  set (vl := VList (map (fun s => VDict (rxsub_fields s)) subs)).
  split; [|rewrite !app_length, Hlen; reflexivity].
  unfold spec_v2_rx, hdr2, mts, rssi_f, i16be, u32be.
  apply (dgood_eq _ _ ([32 + tn; ba * 128 + tr] ++ [np * 128 + md * 8 + tc] ++ [- rssi] ++ be16 toa ++ be16 cir ++ be32 fn ++ bits ++ S)
           ([(0%nat, VInt 2); (1%nat, VInt tn); (13%nat, VInt ba); (15%nat, VInt tr)] ++ [(9%nat, VInt np); (10%nat, VInt md); (11%nat, VInt tc)] ++
            [(3%nat, VInt (- rssi * -1 + 0))] ++ [(4%nat, VInt (toa * 1 + 0))] ++ [(12%nat, VInt (cir * 1 + 0))] ++ [(2%nat, VInt (fn * 1 + 0))] ++
            burst_entry 5 np bits ++ [(17%nat, vl)])
           (2 + (1 + (length [- rssi] + (length (be16 toa) + (length (be16 cir) + (length (be32 fn) + (length bits + length S)))))))%nat).
  { reflexivity. }
  { replace (- rssi * -1 + 0) with rssi by lia. replace (toa * 1 + 0) with toa by lia. replace (cir * 1 + 0) with cir by lia. replace (fn * 1 + 0) with fn by lia. reflexivity. }
  { rewrite !app_length. cbn [length be16 be32]. lia. }
  apply (dgood_bits (LFix 2) false hdr2_bits); [reflexivity|apply hdr2_dec; try lia; fresh_tac|].
  apply (dgood_bits (LFix 1) false mts_bits); [reflexivity|apply mts_dec; try lia; fresh_tac|].
  apply (dgood_uint 3 1 false false 0 (-1) (- rssi)); [lia|apply enc_u8; lia|reflexivity|].
  apply (dgood_uint 4 2 false true 0 1 toa); [lia|apply enc_i16; lia|reflexivity|].
  apply (dgood_uint 12 2 false true 0 1 cir); [lia|apply enc_i16; lia|reflexivity|].
  apply (dgood_uint 2 4 false false 0 1 fn); [lia|apply enc_u32; lia|reflexivity|].
  apply (dgood_burst 5 np md bits); [exact Hb|reflexivity|reflexivity|reflexivity|].
  apply dgood_seq_last; [reflexivity| |exact Hit].
  unfold burst_entry. destruct (np =? 0); reflexivity.
Qed.

Lemma rx2_rfu_ignored chk m js : rx2_ok m -> length js = length (m_subs m) -> Forall (fun j => 0 <= j < 32) js ->
  decode chk pdu_v2_rx (rx2_layout_g m js) = Ok (rx2_fields m, length (rx2_layout m)) /\
  decode chk pdu_v2_rx (rx2_layout_g m js) = decode chk pdu_v2_rx (rx2_layout m).
Proof.
  intros Hm Hl Hj. destruct (rx2_dgood m js Hm Hl Hj) as [Hg Hlen].
  destruct defs_eq as [_ [_ [_ [_ [_ [E _]]]]]].
  assert (Hpo : proto_ok pdu_v2_rx = true) by apply (pdu_wf _ (proj1 (proj2 (proj2 (proj2 (proj2 in_pdus)))))).
  assert (H1 : decode chk pdu_v2_rx (rx2_layout_g m js) = Ok (rx2_fields m, length (rx2_layout m))).
  { rewrite <- Hlen. rewrite E in *. apply dgood_top; assumption. }
  split; [exact H1|]. rewrite H1. destruct (rx2_accepts m Hm) as [_ [Ht Hf]]. destruct chk; congruence.
Qed.

(* ---------------------------------------------------------------- TRXDv2 Tx *)
Record txjunk := { k_rfu : Z; k_a : Z; k_b : Z; k_c : Z }.     (* RFU bits of the sub-PDU header, the three spare octets *)
Definition txjunk_ok (k:txjunk) : Prop := 0 <= k_rfu k < 32.
Definition txsub_layout_g (s:txsub) (k:txjunk) : list Z :=
  [ts_tn s + 8 * k_rfu k; ts_batch s * 128 + ts_shadow s * 64 + ts_trxn s; ts_nope s * 128 + ts_mod s * 8 + ts_tsc s; ts_pwr s; ts_scpir s mod 256;
   k_a k; k_b k; k_c k] ++ ts_bits s.
Definition txsubs_layout_g (subs:list txsub) (ks:list txjunk) : list Z :=
  concat (map (fun p => txsub_layout_g (fst p) (snd p)) (combine subs ks)).
(* a b c: the three spare octets of the main part *)
Definition tx2_layout_g (m:tx2) (a b c:Z) (ks:list txjunk) : list Z :=
  [32 + x_tn m; x_batch m * 128 + x_trxn m; x_nope m * 128 + x_mod m * 8 + x_tsc m; x_pwr m; x_scpir m mod 256; a; b; c]
  ++ be32 (x_fn m) ++ x_bits m ++ txsubs_layout_g (x_subs m) ks.

Lemma txsub_dgood s k T : txsub_ok s -> txjunk_ok k ->
  dgood spec_v2_tx_item [] (txsub_layout_g s k ++ T) (txsub_fields s) (length (txsub_layout_g s k)).
Proof.
  destruct s as [tn ba sh tr np md tc pwr sc bits]. destruct k as [j a b c]. unfold txsub_ok, txjunk_ok, txsub_layout_g, txsub_fields.
  cbn [ts_tn ts_batch ts_shadow ts_trxn ts_nope ts_mod ts_tsc ts_pwr ts_scpir ts_bits k_rfu k_a k_b k_c].
  intros [Ht [Hba [Hsh [Htr [Hm [Hc [Hp [Hs Hb]]]]]]]] Hj. pose proof (nope_range _ _ _ Hb) as Hn.
  unfold spec_v2_tx_item, hdr2b, mts, u8, i8.
  apply (dgood_eq _ _ ([tn + 8 * j; ba * 128 + sh * 64 + tr] ++ [np * 128 + md * 8 + tc] ++ [pwr] ++ [sc mod 256] ++ [a; b; c] ++ bits ++ T)
           ([(1%nat, VInt tn); (13%nat, VInt ba); (14%nat, VInt sh); (15%nat, VInt tr)] ++ [(9%nat, VInt np); (10%nat, VInt md); (11%nat, VInt tc)] ++
            [(7%nat, VInt (pwr * 1 + 0))] ++ [(16%nat, VInt (sc * 1 + 0))] ++ burst_entry 8 np bits ++ [])
           (2 + (1 + (length [pwr] + (1 + (length [a; b; c] + (length bits + 0))))))%nat).
  { rewrite <- !app_assoc. reflexivity. }
  { rewrite app_nil_r. replace (pwr * 1 + 0) with pwr by lia. replace (sc * 1 + 0) with sc by lia. reflexivity. }
  { rewrite !app_length. cbn [length]. lia. }
  apply (dgood_bits (LFix 2) false hdr2b_bits); [reflexivity|apply hdr2b_dec_g; try lia; fresh_tac|].
  apply (dgood_bits (LFix 1) false mts_bits); [reflexivity|apply mts_dec; try lia; fresh_tac|].
  apply (dgood_uint 7 1 false false 0 1 pwr); [lia|apply enc_u8; lia|reflexivity|].
  apply (dgood_uint 16 1 false true 0 1 sc); [lia|apply enc_i8; lia|reflexivity|].
  apply (dgood_spare 2 0); [reflexivity|].
  apply (dgood_burst 8 np md bits); [exact Hb|reflexivity|reflexivity|reflexivity|apply dgood_nil].
Qed.

Lemma txsub_g_len s k : (1 <= length (txsub_layout_g s k))%nat /\ length (txsub_layout_g s k) = length (txsub_layout s).
Proof. unfold txsub_layout_g, txsub_layout. rewrite !app_length. cbn [length]. lia. Qed.

Lemma txsubs_ditems subs : Forall txsub_ok subs -> forall ks, length ks = length subs -> Forall txjunk_ok ks ->
  ditems spec_v2_tx_item (txsubs_layout_g subs ks) (map (fun s => VDict (txsub_fields s)) subs) /\
  length (txsubs_layout_g subs ks) = length (concat (map txsub_layout subs)).
Proof.
  induction 1 as [|s r Hs _ IH]; intros ks Hl Hk.
  - destruct ks; [|discriminate]. split; [apply ditems_nil|reflexivity].
  - destruct ks as [|k ks]; [discriminate|]. inversion Hk as [|? ? Hk0 Hkr]; subst. cbn [length] in Hl.
    destruct (IH ks ltac:(lia) Hkr) as [Hi Hlen]. unfold txsubs_layout_g in *. cbn [combine map concat fst snd]. split.
    + apply ditems_cons; [apply txsub_dgood; assumption|apply txsub_g_len|exact Hi].
    + rewrite !app_length, Hlen, (proj2 (txsub_g_len s k)). reflexivity.
Qed.

Lemma tx2_dgood m a b c ks : tx2_ok m -> length ks = length (x_subs m) -> Forall txjunk_ok ks ->
  dgood spec_v2_tx [] (tx2_layout_g m a b c ks) (tx2_fields m) (length (tx2_layout_g m a b c ks)) /\
  length (tx2_layout_g m a b c ks) = length (tx2_layout m).
Proof.
  destruct m as [tn ba tr np md tc pwr sc fn bits subs]. unfold tx2_ok, tx2_layout_g, tx2_layout, tx2_fields.
  cbn [x_tn x_batch x_trxn x_nope x_mod x_tsc x_pwr x_scpir x_fn x_bits x_subs].
  intros [Ht [Hba [Htr [Hm [Hc [Hp [Hs [Hf [Hb Hsubs]]]]]]]]] Hl Hk. pose proof (nope_range _ _ _ Hb) as Hn.
  destruct (txsubs_ditems subs Hsubs ks Hl Hk) as [Hit Hlen]. set (S := txsubs_layout_g subs ks) in *.
  set (vl := VList (map (fun s => VDict (txsub_fields s)) subs)).
  split; [|rewrite !app_length, Hlen; reflexivity].
  unfold spec_v2_tx, hdr2, mts, u8, i8, u32be.
  apply (dgood_eq _ _ ([32 + tn; ba * 128 + tr] ++ [np * 128 + md * 8 + tc] ++ [pwr] ++ [sc mod 256] ++ [a; b; c] ++ be32 fn ++ bits ++ S)
           ([(0%nat, VInt 2); (1%nat, VInt tn); (13%nat, VInt ba); (15%nat, VInt tr)] ++ [(9%nat, VInt np); (10%nat, VInt md); (11%nat, VInt tc)] ++
            [(7%nat, VInt (pwr * 1 + 0))] ++ [(16%nat, VInt (sc * 1 + 0))] ++ [(2%nat, VInt (fn * 1 + 0))] ++
            burst_entry 8 np bits ++ [(17%nat, vl)])
           (2 + (1 + (length [pwr] + (1 + (length [a; b; c] + (length (be32 fn) + (length bits + length S)))))))%nat).
  { reflexivity. }
  { replace (pwr * 1 + 0) with pwr by lia. replace (sc * 1 + 0) with sc by lia. replace (fn * 1 + 0) with fn by lia. reflexivity. }
  { rewrite !app_length. cbn [length be32]. lia. }
  apply (dgood_bits (LFix 2) false hdr2_bits); [reflexivity|apply hdr2_dec; try lia; fresh_tac|].
  apply (dgood_bits (LFix 1) false mts_bits); [reflexivity|apply mts_dec; try lia; fresh_tac|].
  apply (dgood_uint 7 1 false false 0 1 pwr); [lia|apply enc_u8; lia|reflexivity|].
  apply (dgood_uint 16 1 false true 0 1 sc); [lia|apply enc_i8; lia|reflexivity|].
  apply (dgood_spare 2 0); [reflexivity|].
  apply (dgood_uint 2 4 false false 0 1 fn); [lia|apply enc_u32; lia|reflexivity|].
  apply (dgood_burst 8 np md bits); [exact Hb|reflexivity|reflexivity|reflexivity|].
  apply dgood_seq_last; [reflexivity| |exact Hit].
  unfold burst_entry. destruct (np =? 0); reflexivity.
Qed.

Lemma tx2_reserved_ignored chk m a b c ks : tx2_ok m -> length ks = length (x_subs m) -> Forall txjunk_ok ks ->
  decode chk pdu_v2_tx (tx2_layout_g m a b c ks) = Ok (tx2_fields m, length (tx2_layout m)) /\
  decode chk pdu_v2_tx (tx2_layout_g m a b c ks) = decode chk pdu_v2_tx (tx2_layout m).
Proof.
  intros Hm Hl Hk. destruct (tx2_dgood m a b c ks Hm Hl Hk) as [Hg Hlen].
  destruct defs_eq as [_ [_ [_ [_ [_ [_ [E _]]]]]]].
  assert (Hpo : proto_ok pdu_v2_tx = true) by apply (pdu_wf _ (proj2 (proj2 (proj2 (proj2 (proj2 in_pdus)))))).
  assert (H1 : decode chk pdu_v2_tx (tx2_layout_g m a b c ks) = Ok (tx2_fields m, length (tx2_layout m))).
  { rewrite <- Hlen. rewrite E in *. apply dgood_top; assumption. }
  split; [exact H1|]. rewrite H1. destruct (tx2_accepts m Hm) as [_ [Ht Hf]]. destruct chk; congruence.
Qed.

(* the statements of Props/C17.v *)
Lemma reserved_ignored_sub chk :
  (forall m js, rx2_ok m -> length js = length (m_subs m) -> Forall (fun j => 0 <= j < 32) js ->
     decode chk pdu_v2_rx (rx2_layout_g m js) = Ok (rx2_fields m, length (rx2_layout m)) /\
     decode chk pdu_v2_rx (rx2_layout_g m js) = decode chk pdu_v2_rx (rx2_layout m)) /\
  (forall m ks, tx2_ok m -> length ks = length (x_subs m) -> Forall (fun k => 0 <= k_rfu k < 32 /\ k_a k = 0 /\ k_b k = 0 /\ k_c k = 0) ks ->
     decode chk pdu_v2_tx (tx2_layout_g m 0 0 0 ks) = Ok (tx2_fields m, length (tx2_layout m)) /\
     decode chk pdu_v2_tx (tx2_layout_g m 0 0 0 ks) = decode chk pdu_v2_tx (tx2_layout m)).
Proof.
  split; [intros m js; apply rx2_rfu_ignored|]. intros m ks Hm Hl Hk. apply tx2_reserved_ignored; [exact Hm|exact Hl|].
  eapply Forall_impl; [|exact Hk]. intros k [H _]. exact H.
Qed.

Lemma reserved_ignored_spare chk m a b c ks : tx2_ok m -> length ks = length (x_subs m) -> Forall (fun k => 0 <= k_rfu k < 32) ks ->
  decode chk pdu_v2_tx (tx2_layout_g m a b c ks) = Ok (tx2_fields m, length (tx2_layout m)) /\
  decode chk pdu_v2_tx (tx2_layout_g m a b c ks) = decode chk pdu_v2_tx (tx2_layout m).
Proof. apply tx2_reserved_ignored. Qed.

(* the generalised layouts with nothing in the reserved places are the documented layouts *)
Lemma layout_g_zero :
  (forall m, rx2_layout_g m (map (fun _ => 0) (m_subs m)) = rx2_layout m) /\
  (forall m, tx2_layout_g m 0 0 0 (map (fun _ => {| k_rfu := 0; k_a := 0; k_b := 0; k_c := 0 |}) (x_subs m)) = tx2_layout m).
Proof.
  split; intros m.
  - unfold rx2_layout_g, rx2_layout, rxsubs_layout_g. do 8 f_equal. induction (m_subs m) as [|s r IH]; [reflexivity|].
    cbn [map combine concat fst snd]. rewrite IH. f_equal. unfold rxsub_layout_g, rxsub_layout. rewrite Z.mul_0_r, Z.add_0_r. reflexivity.
  - unfold tx2_layout_g, tx2_layout, txsubs_layout_g. do 10 f_equal. induction (x_subs m) as [|s r IH]; [reflexivity|].
    cbn [map combine concat fst snd]. rewrite IH. f_equal. unfold txsub_layout_g, txsub_layout. cbn [k_rfu k_a k_b k_c]. rewrite Z.mul_0_r, Z.add_0_r. reflexivity.
Qed.

Lemma reserved_ignored_field :
  (forall recd recs e h h' h2 rest, 0 <= h < 256 -> 0 <= h' < 256 -> 0 <= h2 < 256 -> Z.land h 7 = Z.land h' 7 ->
     dec_field recd recs hdr2b e (h' :: h2 :: rest) = dec_field recd recs hdr2b e (h :: h2 :: rest)) /\
  (forall recd recs e a b c a' b' c' rest,
     dec_field recd recs (FSpare (LFix 3) PAlways 0) e (a :: b :: c :: rest) = Ok (e, 3%nat) /\
     dec_field recd recs (FSpare (LFix 3) PAlways 0) e (a' :: b' :: c' :: rest) = Ok (e, 3%nat)).
Proof. exact (conj sub_rfu_ignored spare_octets_ignored). Qed.
