(* C16 stage 1: integer leaves of the codec - int.to_bytes / int.from_bytes for any width, byte order and sign. *)
From Coq Require Import ZArith List Bool Lia ZifyBool.
From OBB Require Import Model.Codec.
Import ListNotations.
Open Scope Z_scope.

Definition bytes_ok (l:list Z) : Prop := Forall (fun b => 0 <= b < 256) l.

Lemma pow256_pos n : 0 < 256 ^ Z.of_nat n.
Proof. apply Z.pow_pos_nonneg; lia. Qed.

Lemma to_be_length n : forall x, length (to_be n x) = n.
Proof. induction n as [|n IH]; intros x; cbn [to_be]; [reflexivity|]. rewrite app_length, IH. cbn. lia. Qed.

Lemma to_be_bytes_ok n : forall x, bytes_ok (to_be n x).
Proof.
  induction n as [|n IH]; intros x; cbn [to_be]; [constructor|].
  apply Forall_app. split; [apply IH|]. constructor; [|constructor]. apply Z.mod_pos_bound. lia.
Qed.

Lemma from_be_app l b : from_be (l ++ [b]) = from_be l * 256 + b.
Proof. unfold from_be. rewrite fold_left_app. reflexivity. Qed.

Lemma from_to_be n : forall x, 0 <= x < 256 ^ Z.of_nat n -> from_be (to_be n x) = x.
Proof. induction n as [|n IH]; intros x Hx.
  - cbn in *. unfold from_be. cbn. lia.
  - cbn [to_be]. rewrite from_be_app. rewrite IH.
    + pose proof (Z.div_mod x 256). lia.
    + rewrite Nat2Z.inj_succ, Z.pow_succ_r in Hx by lia. split; [apply Z.div_pos; lia|]. apply Z.div_lt_upper_bound; lia. Qed.

(* octets read as a big-endian number stay below 256^length *)
Lemma from_be_range l : bytes_ok l -> 0 <= from_be l < 256 ^ Z.of_nat (length l).
Proof.
  induction l as [|b l IH] using rev_ind; intros Hb.
  - cbn. unfold from_be. cbn. lia.
  - apply Forall_app in Hb as [Hl Hb1]. inversion Hb1 as [|? ? Hb0 _]; subst.
    rewrite from_be_app, app_length. cbn [length]. rewrite Nat.add_1_r, Nat2Z.inj_succ, Z.pow_succ_r by lia.
    specialize (IH Hl). nia.
Qed.

Lemma to_from_be l : bytes_ok l -> to_be (length l) (from_be l) = l.
Proof.
  induction l as [|b l IH] using rev_ind; intros Hb; [reflexivity|].
  apply Forall_app in Hb as [Hl Hb1]. inversion Hb1 as [|? ? Hb0 _]; subst.
  rewrite from_be_app, app_length. cbn [length]. rewrite Nat.add_1_r. cbn [to_be].
  replace ((from_be l * 256 + b) / 256) with (from_be l) by (apply Z.div_unique with b; lia).
  replace ((from_be l * 256 + b) mod 256) with b by (apply Z.mod_unique with (from_be l); lia).
  rewrite IH by exact Hl. reflexivity.
Qed.

Lemma rev_if_involutive {A} (le:bool) (l:list A) : (if le then rev (if le then rev l else l) else (if le then rev l else l)) = l.
Proof. destruct le; [apply rev_involutive|reflexivity]. Qed.

Lemma rev_if_length {A} (le:bool) (l:list A) : length (if le then rev l else l) = length l.
Proof. destruct le; [apply rev_length|reflexivity]. Qed.

Lemma pow256_even n : (1 <= n)%nat -> 256 ^ Z.of_nat n = 2 * (256 ^ Z.of_nat n / 2).
Proof.
  intros Hn. destruct n as [|n']; [lia|]. rewrite Nat2Z.inj_succ, Z.pow_succ_r by lia.
  replace (256 * 256 ^ Z.of_nat n') with ((128 * 256 ^ Z.of_nat n') * 2) by lia. rewrite Z.div_mul by lia. lia.
Qed.

(* representable range of an n-octet integer *)
Definition int_range (n:nat) (sg:bool) (x:Z) : Prop :=
  if sg then - (256 ^ Z.of_nat n / 2) <= x < 256 ^ Z.of_nat n / 2 else 0 <= x < 256 ^ Z.of_nat n.

Lemma enc_int_ok n le sg x : (1 <= n)%nat -> int_range n sg x ->
  enc_int n le sg x = Ok (let b := to_be n (x mod 256 ^ Z.of_nat n) in if le then rev b else b).
Proof.
  intros Hn Hr. unfold enc_int, int_range in *. destruct n as [|n']; [lia|].
  destruct sg.
  - replace ((- (256 ^ Z.of_nat (S n') / 2) <=? x) && (x <? 256 ^ Z.of_nat (S n') / 2)) with true by lia. reflexivity.
  - replace ((0 <=? x) && (x <? 256 ^ Z.of_nat (S n'))) with true by lia. reflexivity.
Qed.

(* unencodable integers: exactly outside the range, OverflowError *)
Lemma enc_int_overflow n le sg x : (1 <= n)%nat -> ~ int_range n sg x -> enc_int n le sg x = Crash 2.
Proof.
  intros Hn Hr. unfold enc_int, int_range in *. destruct n as [|n']; [lia|].
  destruct sg.
  - replace ((- (256 ^ Z.of_nat (S n') / 2) <=? x) && (x <? 256 ^ Z.of_nat (S n') / 2)) with false by lia. reflexivity.
  - replace ((0 <=? x) && (x <? 256 ^ Z.of_nat (S n'))) with false by lia. reflexivity.
Qed.

Lemma enc_int_cases n le sg x : (exists b, enc_int n le sg x = Ok b) \/ enc_int n le sg x = Crash 2.
Proof. unfold enc_int. destruct (match n with O => _ | _ => _ end); [left; eexists; reflexivity|right; reflexivity]. Qed.

Lemma enc_int_inv n le sg x b : (1 <= n)%nat -> enc_int n le sg x = Ok b -> int_range n sg x.
Proof.
  intros Hn H. unfold enc_int, int_range in *. destruct n as [|n']; [lia|].
  destruct sg.
  - destruct ((- (256 ^ Z.of_nat (S n') / 2) <=? x) && (x <? 256 ^ Z.of_nat (S n') / 2)) eqn:E; [lia|discriminate].
  - destruct ((0 <=? x) && (x <? 256 ^ Z.of_nat (S n'))) eqn:E; [lia|discriminate].
Qed.

Lemma dec_int_nonempty le sg l : (1 <= length l)%nat ->
  dec_int le sg l = (let u := from_be (if le then rev l else l) in let m := 256 ^ Z.of_nat (length l) in
                     if sg && (m / 2 <=? u) then u - m else u).
Proof. intros H. destruct l; [cbn in H; lia|reflexivity]. Qed.

(* integer leaf round trip, any width >= 1, either byte order, signed or unsigned *)
Lemma int_rt n le sg x b : (1 <= n)%nat -> enc_int n le sg x = Ok b -> dec_int le sg b = x /\ length b = n /\ bytes_ok b.
Proof.
  intros Hn H. pose proof (enc_int_inv _ _ _ _ _ Hn H) as Hr. rewrite (enc_int_ok _ le _ _ Hn Hr) in H.
  injection H as <-. cbv zeta. set (m := 256 ^ Z.of_nat n). assert (Hm : 0 < m) by apply pow256_pos.
  assert (Hlen : length (if le then rev (to_be n (x mod m)) else to_be n (x mod m)) = n)
    by (rewrite rev_if_length; apply to_be_length).
  split; [|split; [exact Hlen|]].
  2:{ destruct le; [apply Forall_rev|]; apply to_be_bytes_ok. }
  rewrite dec_int_nonempty by lia. cbv zeta. rewrite Hlen. fold m. rewrite rev_if_involutive.
  rewrite from_to_be by (subst m; apply Z.mod_pos_bound; apply pow256_pos).
  pose proof (pow256_even n Hn) as Hev. fold m in Hev. unfold int_range in Hr. fold m in Hr.
  pose proof (Z.mod_pos_bound x m Hm). pose proof (Z.div_mod x m ltac:(lia)).
  destruct sg; cbn [andb].
  - destruct (m / 2 <=? x mod m) eqn:E.
    + assert (x / m = -1) by nia. lia.
    + assert (x / m = 0) by nia. lia.
  - apply Z.mod_small. lia.
Qed.

(* converse: what was read from n >= 1 octets is representable and re-encodes to the same octets *)
Lemma dec_int_range le sg b : bytes_ok b -> (1 <= length b)%nat -> int_range (length b) sg (dec_int le sg b).
Proof.
  intros Hb Hn. rewrite dec_int_nonempty by lia. unfold int_range. cbv zeta. rename b into l.
  set (m := 256 ^ Z.of_nat (length l)).
  assert (Hu : 0 <= from_be (if le then rev l else l) < m).
  { subst m. rewrite <- (rev_if_length le l). apply from_be_range. destruct le; [apply Forall_rev|]; exact Hb. }
  pose proof (pow256_even (length l) Hn) as Hev. fold m in Hev.
  destruct sg; cbn [andb]; [|lia].
  destruct (m / 2 <=? from_be (if le then rev l else l)) eqn:E; lia.
Qed.

Lemma dec_enc_int le sg b : bytes_ok b -> (1 <= length b)%nat -> enc_int (length b) le sg (dec_int le sg b) = Ok b.
Proof.
  intros Hb Hn. rewrite (enc_int_ok _ le _ _ Hn (dec_int_range le sg b Hb Hn)). cbv zeta. f_equal.
  rewrite dec_int_nonempty by lia. cbv zeta. rename b into l.
  set (m := 256 ^ Z.of_nat (length l)).
  assert (Hbr : bytes_ok (if le then rev l else l)) by (destruct le; [apply Forall_rev|]; exact Hb).
  assert (Hu : 0 <= from_be (if le then rev l else l) < m).
  { subst m. rewrite <- (rev_if_length le l). apply from_be_range, Hbr. }
  assert (Hmod : (if sg && (m / 2 <=? from_be (if le then rev l else l)) then from_be (if le then rev l else l) - m
                  else from_be (if le then rev l else l)) mod m = from_be (if le then rev l else l)).
  { destruct (sg && (m / 2 <=? from_be (if le then rev l else l))).
    - symmetry. apply Z.mod_unique with (-1); lia.
    - apply Z.mod_small; lia. }
  rewrite Hmod.
  assert (Hto : to_be (length l) (from_be (if le then rev l else l)) = (if le then rev l else l)).
  { pose proof (to_from_be _ Hbr) as Ht. rewrite rev_if_length in Ht. exact Ht. }
  rewrite Hto. apply rev_if_involutive.
Qed.

(* offset and multiplier: Python's (v - offset) // mult undoes raw * mult + offset for any non-zero mult *)
Lemma offmult_rt raw off mult : mult <> 0 -> (raw * mult + off - off) / mult = raw.
Proof. intros. rewrite Z.add_simpl_r, Z.div_mul; auto. Qed.
